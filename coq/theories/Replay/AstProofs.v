(* C05, source tie: the interpreter of Replay/Ast.v run on the terms that harness/cmd/replayast generated from
   replay/replay.go (Gen/ReplayAst.v) equals the hand-written mirror Replay/Model.v, for ALL inputs below 2^64.
   ast_validate_correct, ast_reset_correct: one call; ast_run_correct: every history from the empty filter.
   The proof script follows the shape of the generated term (it case-splits on the source's ifs and rewrites the
   source's for loop with loop_clear), so a change of replay.go makes this file fail even when the change is
   semantically neutral; the theorems themselves are semantic. *)
From Coq Require Import String.
From WG Require Import Base.Prelude Gen.Constants Replay.Model Replay.Refine Replay.Ast Gen.ReplayAst.
Local Open Scope N_scope.

Definition wf (f : filter) : Prop :=
  last f < 2 ^ 64 /\ length (ring f) = 128%nat /\ Forall (fun b => b < 2 ^ 64) (ring f).

Lemma two64_pow : 2 ^ 64 = two64. Proof. reflexivity. Qed.

Lemma shr6 x : N.shiftr x 6 = x / 64.
Proof. rewrite N.shiftr_div_pow2. reflexivity. Qed.
Lemma land127 x : N.land x 127 = x mod 128.
Proof. change 127 with (N.ones 7). rewrite N.land_ones. reflexivity. Qed.
Lemma land63 x : N.land x 63 = x mod 64.
Proof. change 63 with (N.ones 6). rewrite N.land_ones. reflexivity. Qed.
Lemma shl1 b : b < 64 -> (1 * 2 ^ b) mod two64 = N.shiftl 1 b.
Proof.
  intros Hb. rewrite N.shiftl_1_l, N.mul_1_l. apply N.mod_small.
  rewrite <- two64_pow. apply N.pow_lt_mono_r; lia.
Qed.
Lemma sub_wrap a b : b <= a -> a < two64 -> (a + two64 - b) mod two64 = a - b.
Proof. unfold two64. intros. lia. Qed.
Lemma add_wrap a b : a + b < two64 -> (a + b) mod two64 = a + b.
Proof. intros. apply N.mod_small. assumption. Qed.

Lemma ring_read_ok f i : okl (ring f) -> i < 128 -> ring_read f i = Some (get (ring f) i).
Proof.
  unfold ring_read, okl, R, replay_ringBlocks. intros -> Hi.
  destruct (N.ltb_spec i 128); [reflexivity|lia].
Qed.
Lemma ring_write_ok f i v : okl (ring f) -> i < 128 ->
  ring_write f i v = Some {| last := last f; ring := put (ring f) i v |}.
Proof.
  unfold ring_write, okl, R, replay_ringBlocks. intros -> Hi.
  destruct (N.ltb_spec i 128); [reflexivity|lia].
Qed.
Lemma put_okl r i v : okl r -> okl (put r i v).
Proof. unfold okl. rewrite put_length. auto. Qed.

Ltac step :=
  cbn [exec eval evalb andthen assign read_lhs lookup update is_set replace binop_sem cmpop_sem
       env filt last ring String.eqb Ascii.eqb Bool.eqb andb].

Local Open Scope string_scope.
Definition COND := BCmp CLe (EVar "i") (EBin OAdd (EVar "current") (EVar "diff")).
Definition POST := SOpAssign (LVar "i") OAdd (EConst 1%N).
Definition BODY := SSeq (SAssign (LRing (EBin OAnd (EVar "i") (EConst 127%N))) (EConst 0%N)) SSkip.

Lemma loop_clear fu : forall n fuel i r rest lastv d cur,
  (n < fuel)%nat -> okl r -> i + N.of_nat n = cur + d + 1 -> cur + d + 1 < two64 ->
  for_loop (evalb COND) (fun s1 => andthen (exec fu BODY s1) (exec fu POST)) fuel
    {| env := ("i", i) :: ("diff", d) :: ("current", cur) :: rest; filt := {| last := lastv; ring := r |} |}
  = Some (Normal {| env := ("i", cur + d + 1) :: ("diff", d) :: ("current", cur) :: rest;
                    filt := {| last := lastv; ring := clear r i n |} |}).
Proof.
  unfold COND, POST, BODY.
  induction n as [|n IH]; intros fuel i r rest lastv d cur Hfuel Hok Hi Hmax;
    (destruct fuel as [|fuel]; [lia|]); cbn [for_loop clear]; step;
    rewrite (add_wrap cur d) by lia.
  - destruct (N.leb_spec i (cur + d)) as [H|H]; [lia|].
    replace i with (cur + d + 1) by lia. reflexivity.
  - destruct (N.leb_spec i (cur + d)) as [H|H]; [|lia].
    step. rewrite land127. rewrite ring_write_ok by (cbn [ring]; first [assumption|lia]).
    step. rewrite add_wrap by lia.
    change R with 128. apply IH; [lia|apply put_okl; assumption|lia|lia].
Qed.

Ltac step_in H :=
  cbn [exec eval evalb andthen assign read_lhs lookup update is_set replace binop_sem cmpop_sem
       env filt last ring String.eqb Ascii.eqb Bool.eqb andb] in H.

Local Open Scope N_scope.

Lemma div64_bound x : x < two64 -> x / 64 < 288230376151711744.
Proof. unfold two64. intros. lia. Qed.

Ltac tail Hm :=
  rewrite ?land127, ?land63;
  rewrite ring_read_ok by (cbn [ring]; first [solve [auto using clear_okl] | lia]); step;
  rewrite shl1 by exact Hm;
  rewrite ring_write_ok by (cbn [ring]; first [solve [auto using clear_okl] | lia]); step;
  reflexivity.

Theorem ast_reset_correct : forall f, wf f -> run_reset reset_body f = Some (reset f).
Proof.
  intros f (Hlast & Hlen & Hblk).
  assert (Hok : okl (ring f)) by (unfold okl; rewrite Hlen; reflexivity).
  unfold run_reset, reset, reset_body. step.
  rewrite ring_write_ok by (cbn [ring]; first [assumption | lia]). step. reflexivity.
Qed.

(* the translator's view of len(Filter.ring) is the model's ring size *)
Example ring_len_is_R : ring_len = R. Proof. reflexivity. Qed.

(* Histories.  Only last f < 2^64 and the ring length are needed (the bound on the blocks in wf is not used by the
   proofs above, because &, | and >> do not wrap in the interpreter and the model does not wrap either); both are preserved by the model. *)
Definition wf0 (f : filter) : Prop := last f < 2 ^ 64 /\ length (ring f) = 128%nat.

Lemma wf0_okl f : wf0 f -> okl (ring f).
Proof. intros [_ H]. unfold okl. rewrite H. reflexivity. Qed.
Lemma okl_len r : okl r -> length r = 128%nat.
Proof. unfold okl, R, replay_ringBlocks. lia. Qed.

Lemma wf0_empty : wf0 empty.
Proof. split; reflexivity. Qed.

Lemma validate_wf0 f c l : wf0 f -> c < 2 ^ 64 -> wf0 (fst (validate f c l)).
Proof.
  intros Hf Hc. assert (Hok := wf0_okl f Hf). destruct Hf as [Hlast Hlen]. unfold validate.
  destruct (l <=? c); [split; assumption|].
  destruct (last f <? c); cbn [fst last ring].
  - split; [assumption|]. apply okl_len, put_okl, clear_okl, Hok.
  - destruct (W <? last f - c); cbn [fst last ring]; [split; assumption|].
    split; [assumption|]. apply okl_len, put_okl, Hok.
Qed.

Lemma reset_wf0 f : wf0 f -> wf0 (reset f).
Proof.
  intros Hf. assert (Hok := wf0_okl f Hf). unfold reset. split; cbn [last ring]; [reflexivity|].
  apply okl_len, put_okl, Hok.
Qed.

Theorem ast_validate_correct0 : forall f c l, wf0 f -> c < 2 ^ 64 -> l < 2 ^ 64 ->
  run_validate validate_body f c l = Some (validate f c l).
Proof.
  intros f c l [Hlast Hlen] Hc Hl. destruct f as [lf rf]. cbn [last ring] in *.
  assert (Hok : okl rf) by (unfold okl; rewrite Hlen; reflexivity).
  rewrite two64_pow in *.
  unfold run_validate, validate, validate_body, R, B, W,
    replay_ringBlocks, replay_blockBits, replay_windowSize; cbn [last ring].
  step. destruct (N.leb_spec l c) as [Hlim|Hlim]; step.
  - reflexivity.
  - rewrite !shr6.
    assert (Hcb := div64_bound c Hc). assert (Hlb := div64_bound lf Hlast).
    assert (Hm : c mod 64 < 64) by lia.
    destruct (N.ltb_spec lf c) as [Hadv|Hadv]; step.
    + rewrite ?shr6.
      assert (Hle : lf / 64 <= c / 64) by lia.
      rewrite sub_wrap by (unfold two64; lia).
      set (cur := lf / 64) in *. set (ib := c / 64) in *.
      assert (Hmin : N.min (ib - cur) 128 = if 128 <? ib - cur then 128 else ib - cur)
        by (destruct (N.ltb_spec 128 (ib - cur)); lia).
      rewrite Hmin. clear Hmin.
      set (d := if 128 <? ib - cur then 128 else ib - cur).
      assert (Hd : d <= 128) by (subst d; destruct (N.ltb_spec 128 (ib - cur)); lia).
      assert (Hloop := loop_clear fuel0 (N.to_nat d) fuel0 (cur + 1) rf
                 [("indexBlock"%string, ib); ("counter"%string, c); ("limit"%string, l)] lf d cur).
      unfold COND, POST, BODY in Hloop. step_in Hloop.
      subst d. destruct (N.ltb_spec 128 (ib - cur)) as [Hcap|Hcap]; step;
        rewrite add_wrap by (unfold two64; lia);
        (rewrite Hloop by (unfold fuel0, two64; first [assumption | lia])); step;
        tail Hm.
    + rewrite sub_wrap by (unfold two64; lia).
      destruct (N.ltb_spec 8128 (lf - c)) as [Hold|Hold]; step.
      * reflexivity.
      * tail Hm.
Qed.

Theorem ast_validate_correct : forall f c l, wf f -> c < 2 ^ 64 -> l < 2 ^ 64 ->
  run_validate validate_body f c l = Some (validate f c l).
Proof. intros f c l (Hlast & Hlen & _). apply ast_validate_correct0. split; assumption. Qed.

Definition ast_step (f : filter) (o : op) : option (filter * bool) :=
  match o with
  | Validate c l => run_validate validate_body f c l
  | Reset => match run_reset reset_body f with Some f' => Some (f', true) | None => None end
  end.

Fixpoint ast_run (f : filter) (ops : list op) : option (filter * list bool) :=
  match ops with
  | [] => Some (f, [])
  | o :: ops' =>
      match ast_step f o with
      | Some (f1, r) => match ast_run f1 ops' with Some (f2, rs) => Some (f2, r :: rs) | None => None end
      | None => None
      end
  end.

Definition op_ok (o : op) : Prop :=
  match o with Validate c l => c < 2 ^ 64 /\ l < 2 ^ 64 | Reset => True end.

(* every history of uint64 calls: the generated code, interpreted, never fails (no index out of range, the loop
   ends within the fuel, nothing unrecognised is reached) and is the model run *)
Theorem ast_run_correct : forall ops f, wf0 f -> Forall op_ok ops -> ast_run f ops = Some (run step f ops).
Proof.
  induction ops as [|o ops IH]; intros f Hf Hops; cbn [ast_run run]; [reflexivity|].
  inversion Hops as [|o' ops' Ho Hrest]; subst.
  assert (Hstep : ast_step f o = Some (step f o) /\ wf0 (fst (step f o))).
  { destruct o as [c l|]; cbn [ast_step step op_ok fst] in *.
    - destruct Ho as [Hc Hl]. split; [apply ast_validate_correct0; assumption|apply validate_wf0; assumption].
    - split; [|apply reset_wf0; assumption].
      assert (Hr : run_reset reset_body f = Some (reset f)).
      { assert (Hok := wf0_okl f Hf). unfold run_reset, reset, reset_body. step.
        rewrite ring_write_ok by (cbn [ring]; first [assumption | lia]). step. reflexivity. }
      rewrite Hr. reflexivity. }
  destruct Hstep as [Hs Hw]. rewrite Hs. destruct (step f o) as [f1 r]. cbn [fst] in Hw.
  rewrite (IH f1 Hw Hrest). destruct (run step f1 ops) as [f2 rs]. reflexivity.
Qed.

Corollary ast_run_from_empty : forall ops, Forall op_ok ops -> ast_run empty ops = Some (run step empty ops).
Proof. intros ops H. apply ast_run_correct; [exact wf0_empty|exact H]. Qed.

(* concrete agreement, checked by computation: 8 filters x 22 counters, including first use, replays, the window
   edge (8128 behind), and advances of exactly 128, more than 128 blocks, and up to 2^64-2 *)
Definition ex_lim : N := 2 ^ 64 - 1.
Fixpoint leqb (a b : list N) : bool :=
  match a, b with [], [] => true | x :: a', y :: b' => (x =? y) && leqb a' b' | _, _ => false end.
Definition agree (f : filter) (c : N) : bool :=
  match run_validate validate_body f c ex_lim, validate f c ex_lim with
  | Some (f1, b1), (f2, b2) => (last f1 =? last f2) && leqb (ring f1) (ring f2) && Bool.eqb b1 b2
  | None, _ => false
  end.
Definition after (cs : list N) : filter := fold_left (fun f c => fst (validate f c ex_lim)) cs empty.
Definition ex_filters : list (list N) :=
  [[]; [5]; [8128]; [5; 8128]; [5; 70; 8191]; [5; 8192]; [5; 100000]; [63; 64; 8127; 16383]].
Definition ex_counters : list N :=
  [0; 1; 5; 63; 64; 70; 127; 128; 8127; 8128; 8129; 8191; 8192; 8197; 8256; 16383; 16384; 16389; 100000; 108128;
   2 ^ 63; 2 ^ 64 - 2].
Example ast_agrees_on_grid :
  forallb (fun h => forallb (agree (after h)) ex_counters) ex_filters = true.
Proof. vm_compute. reflexivity. Qed.

Print Assumptions ast_validate_correct.
Print Assumptions ast_reset_correct.
Print Assumptions ast_run_correct.
