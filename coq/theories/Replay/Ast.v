(* Deep-embedded mini-language for the bodies of replay/replay.go (Filter.ValidateCounter, Filter.Reset)
   and an executable interpreter with uint64 semantics over Model.filter.  The terms are produced from the Go
   SOURCE by harness/cmd/replayast (Gen/ReplayAst.v); Replay/AstProofs.v proves interpreter = Model for all inputs.
   No proofs here.

   Semantics: every value is an N meant to be < 2^64.  +, -, << wrap modulo 2^64 (<< by n is multiplication by 2^n
   modulo 2^64, so a shift count >= 64 gives 0 as in Go); >>, &, | cannot leave the range and are N.shiftr, N.land,
   N.lor.  A ring index outside the ring yields None (Go panics).  The for loop runs on explicit fuel and yields
   None when it runs out.  EUnknown/BUnknown/LUnknown/SUnknown (what the translator emits for anything it does not
   recognise) and a read of an undeclared variable yield None.  `:=` and `=` are both SAssign on an association
   list (the translator refuses redeclaration of a name, so there is no shadowing to model). *)
From Coq Require Import String.
From WG Require Import Base.Prelude Replay.Model.
Local Open Scope N_scope.

Definition two64 : N := 18446744073709551616.

Inductive binop := OShr | OShl | OAnd | OOr | OAdd | OSub.
Inductive cmpop := CGe | CGt | CLe | CLt | CEq | CNe.

Inductive expr :=
| EConst (n : N)
| EVar (x : string)              (* local variable or parameter *)
| ELast                          (* f.last *)
| ERing (i : expr)               (* f.ring[i] *)
| EBin (o : binop) (a b : expr)
| EUnknown (what : string).

Inductive bexpr :=
| BLit (b : bool)
| BCmp (o : cmpop) (a b : expr)
| BUnknown (what : string).

Inductive lhs :=
| LVar (x : string)
| LLast
| LRing (i : expr)
| LUnknown (what : string).

Inductive stmt :=
| SSkip
| SSeq (a b : stmt)
| SAssign (l : lhs) (e : expr)                (* x := e, x = e, f.last = e, f.ring[i] = e *)
| SOpAssign (l : lhs) (o : binop) (e : expr)  (* l op= e; x++ is SOpAssign x OAdd 1 *)
| SIf (c : bexpr) (t e : stmt)
| SFor (init : stmt) (c : bexpr) (post : stmt) (body : stmt)
| SReturn (b : bexpr)
| SReturnVoid
| SUnknown (what : string).

Record state := { env : list (string * N); filt : filter }.

Inductive outcome :=
| Normal (st : state)
| Returned (st : state) (r : option bool).

Fixpoint lookup (x : string) (e : list (string * N)) : option N :=
  match e with
  | [] => None
  | (y, v) :: t => if String.eqb x y then Some v else lookup x t
  end.

(* replace in place, or declare in front *)
Fixpoint is_set (x : string) (e : list (string * N)) : bool :=
  match e with
  | [] => false
  | (y, _) :: t => if String.eqb x y then true else is_set x t
  end.
Fixpoint replace (x : string) (v : N) (e : list (string * N)) : list (string * N) :=
  match e with
  | [] => []
  | (y, w) :: t => if String.eqb x y then (y, v) :: t else (y, w) :: replace x v t
  end.
Definition update (x : string) (v : N) (e : list (string * N)) : list (string * N) :=
  if is_set x e then replace x v e else (x, v) :: e.

Definition binop_sem (o : binop) (x y : N) : N :=
  match o with
  | OShr => N.shiftr x y
  | OShl => (x * 2 ^ y) mod two64
  | OAnd => N.land x y
  | OOr => N.lor x y
  | OAdd => (x + y) mod two64
  | OSub => (x + two64 - y) mod two64
  end.

Definition cmpop_sem (o : cmpop) (x y : N) : bool :=
  match o with
  | CGe => y <=? x
  | CGt => y <? x
  | CLe => x <=? y
  | CLt => x <? y
  | CEq => x =? y
  | CNe => negb (x =? y)
  end.

Definition ring_read (f : filter) (i : N) : option N :=
  if i <? N.of_nat (length (ring f)) then Some (get (ring f) i) else None.

Definition ring_write (f : filter) (i v : N) : option filter :=
  if i <? N.of_nat (length (ring f)) then Some {| last := last f; ring := put (ring f) i v |} else None.

Fixpoint eval (e : expr) (st : state) : option N :=
  match e with
  | EConst n => Some n
  | EVar x => lookup x (env st)
  | ELast => Some (last (filt st))
  | ERing i => match eval i st with Some iv => ring_read (filt st) iv | None => None end
  | EBin o a b =>
      match eval a st with
      | Some x => match eval b st with Some y => Some (binop_sem o x y) | None => None end
      | None => None
      end
  | EUnknown _ => None
  end.

Definition evalb (b : bexpr) (st : state) : option bool :=
  match b with
  | BLit v => Some v
  | BCmp o a b =>
      match eval a st with
      | Some x => match eval b st with Some y => Some (cmpop_sem o x y) | None => None end
      | None => None
      end
  | BUnknown _ => None
  end.

(* the current value of an assignable location *)
Definition read_lhs (l : lhs) (st : state) : option N :=
  match l with
  | LVar x => lookup x (env st)
  | LLast => Some (last (filt st))
  | LRing i => match eval i st with Some iv => ring_read (filt st) iv | None => None end
  | LUnknown _ => None
  end.

Definition assign (l : lhs) (v : N) (st : state) : option outcome :=
  match l with
  | LVar x => Some (Normal {| env := update x v (env st); filt := filt st |})
  | LLast => Some (Normal {| env := env st; filt := {| last := v; ring := ring (filt st) |} |})
  | LRing i =>
      match eval i st with
      | Some iv =>
          match ring_write (filt st) iv v with
          | Some f' => Some (Normal {| env := env st; filt := f' |})
          | None => None
          end
      | None => None
      end
  | LUnknown _ => None
  end.

(* continue with k after a statement that completed normally; a return (or failure) propagates *)
Definition andthen (r : option outcome) (k : state -> option outcome) : option outcome :=
  match r with
  | Some (Normal st) => k st
  | other => other
  end.

Fixpoint for_loop (cond : state -> option bool) (step : state -> option outcome) (fuel : nat) (st : state)
  : option outcome :=
  match fuel with
  | O => None
  | S k =>
      match cond st with
      | None => None
      | Some false => Some (Normal st)
      | Some true => andthen (step st) (for_loop cond step k)
      end
  end.

Fixpoint exec (fuel : nat) (s : stmt) (st : state) : option outcome :=
  match s with
  | SSkip => Some (Normal st)
  | SSeq a b => andthen (exec fuel a st) (exec fuel b)
  | SAssign l e => match eval e st with Some v => assign l v st | None => None end
  | SOpAssign l o e =>
      match read_lhs l st with
      | Some x => match eval e st with Some y => assign l (binop_sem o x y) st | None => None end
      | None => None
      end
  | SIf c t e =>
      match evalb c st with
      | Some true => exec fuel t st
      | Some false => exec fuel e st
      | None => None
      end
  | SFor init c post body =>
      andthen (exec fuel init st)
        (for_loop (evalb c) (fun s1 => andthen (exec fuel body s1) (exec fuel post)) fuel)
  | SReturn b => match evalb b st with Some v => Some (Returned st (Some v)) | None => None end
  | SReturnVoid => Some (Returned st None)
  | SUnknown _ => None
  end.

Definition fuel0 : nat := 200.

(* ValidateCounter(counter, limit uint64) bool *)
Definition run_validate (body : stmt) (f : filter) (c l : N) : option (filter * bool) :=
  match exec fuel0 body {| env := [("counter"%string, c); ("limit"%string, l)]; filt := f |} with
  | Some (Returned st (Some b)) => Some (filt st, b)
  | _ => None
  end.

(* Reset(): falls off the end or returns without a value *)
Definition run_reset (body : stmt) (f : filter) : option filter :=
  match exec fuel0 body {| env := []; filt := f |} with
  | Some (Normal st) => Some (filt st)
  | Some (Returned st None) => Some (filt st)
  | _ => None
  end.
