(* The property C05 as an executable specification: the set of accepted
   counters and its maximum.  accept = below the limit, not seen before, and
   ahead of or at most W behind the greatest accepted counter. *)
From WG Require Import Base.Prelude Gen.Constants Replay.Model.
Local Open Scope N_scope.

Record sstate := { seen : list N; mx : N }.
Definition sempty : sstate := {| seen := []; mx := 0 |}.

Definition mem (c : N) (l : list N) : bool := existsb (N.eqb c) l.

Definition accept (s : sstate) (c limit : N) : bool :=
  (c <? limit) && negb (mem c (seen s)) && (mx s <=? c + W).

Definition sstep (s : sstate) (o : op) : sstate * bool :=
  match o with
  | Validate c limit =>
      if accept s c limit
      then ({| seen := c :: seen s; mx := N.max (mx s) c |}, true)
      else (s, false)
  | Reset => (sempty, true)
  end.
