(* Observational characterisation of the filter over histories, and the
   clauses of property C05 as corollaries. *)
From WG Require Import Base.Prelude Gen.Constants Replay.Model Replay.Spec Replay.Refine.
Local Open Scope N_scope.

(* Counters accepted since the last Reset, read off ops and outputs only. *)
Fixpoint acc (ops : list op) (os : list bool) (a : list N) : list N :=
  match ops, os with
  | Validate c _ :: ops', true :: os' => acc ops' os' (c :: a)
  | Validate _ _ :: ops', false :: os' => acc ops' os' a
  | Reset :: ops', _ :: os' => acc ops' os' []
  | _, _ => a
  end.

Definition lmax (l : list N) : N := fold_right N.max 0 l.

Definition SInv (s : sstate) : Prop := mx s = lmax (seen s).

Lemma sinv_step s o : SInv s -> SInv (fst (sstep s o)).
Proof.
  unfold SInv. intros H. destruct o as [c l|]; cbn [sstep].
  - destruct (accept s c l); cbn [fst seen mx lmax fold_right]; [|exact H].
    fold (lmax (seen s)). rewrite H. apply N.max_comm.
  - reflexivity.
Qed.

Lemma acc_spec ops : forall s,
  acc ops (outs sstep s ops) (seen s) = seen (final sstep s ops).
Proof.
  unfold outs, final. induction ops as [|o ops IH]; intros s; cbn [run]; [reflexivity|].
  destruct o as [c l|]; cbn [sstep].
  - destruct (accept s c l) eqn:E.
    + specialize (IH {| seen := c :: seen s; mx := N.max (mx s) c |}).
      destruct (run sstep _ ops) as [s2 rs]. cbn [fst snd acc] in *. exact IH.
    + specialize (IH s). destruct (run sstep s ops) as [s2 rs]. cbn [fst snd acc] in *. exact IH.
  - specialize (IH sempty). destruct (run sstep sempty ops) as [s2 rs]. cbn [fst snd acc] in *. exact IH.
Qed.

Lemma firstn_outs {S0 O0 R0} (st : S0 -> O0 -> S0 * R0) s a b :
  firstn (length a) (outs st s (a ++ b)) = outs st s a.
Proof.
  rewrite outs_app. rewrite <- (outs_length st s a) at 1.
  rewrite firstn_app, Nat.sub_diag, firstn_all. cbn [firstn]. apply app_nil_r.
Qed.

Lemma last_outs_snoc {S0 O0 R0} (st : S0 -> O0 -> S0 * R0) s a o d :
  List.last (outs st s (a ++ [o])) d = snd (st (final st s a) o).
Proof.
  rewrite outs_app. unfold outs at 2. cbn [run]. destruct (st (final st s a) o) as [s1 r]. cbn [snd].
  apply last_last.
Qed.

(* Complete characterisation: the verdict on the next counter is a function
   of the counters accepted so far (since the last Reset) only. *)
Theorem filter_characterisation : forall h c l,
  let o := outs step empty (h ++ [Validate c l]) in
  let A := acc h (firstn (length h) o) [] in
  List.last o false = (c <? l) && negb (mem c A) && (lmax A <=? c + W).
Proof.
  intros h c l o A. subst o A.
  rewrite filter_refines_spec.
  rewrite firstn_outs, last_outs_snoc.
  change (@nil N) with (seen sempty). rewrite acc_spec.
  set (s := final sstep sempty h).
  assert (HS : SInv s) by (apply (final_inv sstep SInv sinv_step); reflexivity).
  cbn [sstep]. unfold accept. rewrite HS.
  destruct (_ && _ && _); reflexivity.
Qed.

Lemma mem_In c l : mem c l = true <-> In c l.
Proof.
  unfold mem. rewrite existsb_exists. split.
  - intros (x & Hx & E). apply N.eqb_eq in E. now subst.
  - intros H. exists c. split; [assumption|apply N.eqb_refl].
Qed.

Section Clauses.
  Variables (h : list op) (c l : N).
  Let o := outs step empty (h ++ [Validate c l]).
  Let A := acc h (firstn (length h) o) [].

  Lemma char_here : List.last o false = (c <? l) && negb (mem c A) && (lmax A <=? c + W).
  Proof. exact (filter_characterisation h c l). Qed.

  Lemma at_most_once : In c A -> List.last o false = false.
  Proof.
    intros H. rewrite char_here.
    apply mem_In in H. rewrite H. cbn [negb]. rewrite andb_false_r. reflexivity.
  Qed.

  Lemma at_or_beyond_limit_rejected : l <= c -> List.last o false = false.
  Proof.
    intros H. rewrite char_here.
    replace (c <? l) with false by lia. reflexivity.
  Qed.

  Lemma fresh_in_window_accepted :
    c < l -> ~ In c A -> lmax A <= c + W -> List.last o false = true.
  Proof.
    intros H1 H2 H3. rewrite char_here.
    replace (c <? l) with true by lia.
    destruct (mem c A) eqn:E; [apply mem_In in E; contradiction|].
    cbn [negb andb]. lia.
  Qed.

  Lemma beyond_window_rejected : c + W < lmax A -> List.last o false = false.
  Proof.
    intros H. rewrite char_here.
    replace (lmax A <=? c + W) with false by lia. apply andb_false_r.
  Qed.
End Clauses.
