(* Deep-embedded mini-language for the bodies of Peer.keepKeyFreshSending (device/send.go) and
   Peer.keepKeyFreshReceiving (device/receive.go), and an executable interpreter.  The terms are produced from
   the Go SOURCE by harness/cmd/kkfast (Gen/FreshAst.v); Keypairs/FreshAstProofs.v proves what the interpreter
   computes on them, for all inputs.  No proofs here.

   INPUTS of one run (record [inp]): does peer.keypairs.Current() return a keypair ([has_key]); the value its
   sendNonce.Load() returns ([nonce], a uint64 carried in Z); its isInitiator; time.Since(keypair.created) in ns
   ([age], an int64 Duration carried in Z); and the initial value of peer.timers.sentLastMinuteHandshake.
   OUTPUTS: the list of arguments of the calls peer.SendHandshakeInitiation(b), in call order, and the final flag.

   Semantics (a trusted reading of Go):
   - integer expressions carry their Go type (U64 / I64) on the arithmetic nodes: `+`/`-` wrap in that type;
     int64(e) / uint64(e) reinterpret; constant expressions are folded by the translator with exact arithmetic
     (as the Go compiler does) and arrive as EConst; comparisons are on the mathematical values.
   - a keypair variable is nil or THE current keypair; x.sendNonce.Load(), x.isInitiator, time.Since(x.created)
     through a nil variable yield None (Go panics).  Every read of the same input in one run returns the same value.
   - `&&` and `||` evaluate left to right and short-circuit (so `x != nil && x.isInitiator` is safe).
   - the flag operations Load / Store(b) / CompareAndSwap(old, new) act on the flag in the state, sequentially.
   - EUnknown/BUnknown/SUnknown (what the translator emits for anything it does not recognise), a read of an
     undeclared or ill-kinded variable, and a redeclaration yield None. *)
From Coq Require Import String.
From WG Require Import Base.Prelude.
Local Open Scope Z_scope.

Inductive ity := U64 | I64.
Inductive binop := OAdd | OSub.
Inductive cmpop := CGe | CGt | CLe | CLt | CEq | CNe.

Inductive expr :=
| EConst (z : Z)                         (* a folded Go constant expression *)
| EVar (x : string)                      (* integer local *)
| ENonce (x : string)                    (* x.sendNonce.Load()            uint64 *)
| ESince (x : string)                    (* time.Since(x.created)         int64 (time.Duration) *)
| EBin (t : ity) (o : binop) (a b : expr)
| ECast (t : ity) (a : expr)             (* int64(a), uint64(a) *)
| EUnknown (what : string).

Inductive bexpr :=
| BLit (b : bool)
| BCmp (o : cmpop) (a b : expr)
| BIsNil (x : string)                    (* x == nil *)
| BNotNil (x : string)                   (* x != nil *)
| BIsInit (x : string)                   (* x.isInitiator *)
| BFlagLoad                              (* peer.timers.sentLastMinuteHandshake.Load() *)
| BFlagCAS (old new : bool)              (* peer.timers.sentLastMinuteHandshake.CompareAndSwap(old, new) *)
| BNot (a : bexpr)
| BAnd (a b : bexpr)
| BOr (a b : bexpr)
| BUnknown (what : string).

Inductive stmt :=
| SSkip
| SSeq (a b : stmt)
| SCurrent (x : string)                  (* x := peer.keypairs.Current() *)
| SDefine (x : string) (e : expr)        (* x := e    (integer) *)
| SFlagStore (b : bool)                  (* peer.timers.sentLastMinuteHandshake.Store(b) *)
| SInitiate (b : bool)                   (* peer.SendHandshakeInitiation(b) *)
| SEval (b : bexpr)                      (* a boolean call used as a statement (CompareAndSwap), result dropped *)
| SIf (c : bexpr) (t e : stmt)
| SReturn
| SUnknown (what : string).

Record inp := { has_key : bool; nonce : Z; is_init : bool; age : Z }.

Inductive value :=
| VInt (z : Z)
| VKp (nonnil : bool).                   (* nil, or the current keypair *)

Record state := { env : list (string * value); flag : bool; calls : list bool }.

Inductive outcome :=
| Normal (st : state)
| Returned (st : state).

Fixpoint lookup (x : string) (e : list (string * value)) : option value :=
  match e with
  | [] => None
  | (y, v) :: t => if String.eqb x y then Some v else lookup x t
  end.

Definition wrap_u64 (z : Z) : Z := z mod 18446744073709551616.
Definition wrap_i64 (z : Z) : Z := (z + 9223372036854775808) mod 18446744073709551616 - 9223372036854775808.
Definition wrap (t : ity) (z : Z) : Z := match t with U64 => wrap_u64 z | I64 => wrap_i64 z end.

Definition binop_sem (t : ity) (o : binop) (x y : Z) : Z :=
  match o with
  | OAdd => wrap t (x + y)
  | OSub => wrap t (x - y)
  end.

Definition cmpop_sem (o : cmpop) (x y : Z) : bool :=
  match o with
  | CGe => y <=? x
  | CGt => y <? x
  | CLe => x <=? y
  | CLt => x <? y
  | CEq => x =? y
  | CNe => negb (x =? y)
  end.

(* is the keypair variable x non-nil *)
Definition kp_of (x : string) (st : state) : option bool :=
  match lookup x (env st) with
  | Some (VKp b) => Some b
  | _ => None
  end.

Fixpoint eval (i : inp) (e : expr) (st : state) : option Z :=
  match e with
  | EConst z => Some z
  | EVar x => match lookup x (env st) with Some (VInt z) => Some z | _ => None end
  | ENonce x => match kp_of x st with Some true => Some (nonce i) | _ => None end
  | ESince x => match kp_of x st with Some true => Some (age i) | _ => None end
  | EBin t o a b =>
      match eval i a st with
      | Some x => match eval i b st with Some y => Some (binop_sem t o x y) | None => None end
      | None => None
      end
  | ECast t a => match eval i a st with Some x => Some (wrap t x) | None => None end
  | EUnknown _ => None
  end.

Definition set_flag (st : state) (b : bool) : state := {| env := env st; flag := b; calls := calls st |}.

Fixpoint evalb (i : inp) (b : bexpr) (st : state) : option (bool * state) :=
  match b with
  | BLit v => Some (v, st)
  | BCmp o a b =>
      match eval i a st with
      | Some x => match eval i b st with Some y => Some (cmpop_sem o x y, st) | None => None end
      | None => None
      end
  | BIsNil x => match kp_of x st with Some v => Some (negb v, st) | None => None end
  | BNotNil x => match kp_of x st with Some v => Some (v, st) | None => None end
  | BIsInit x => match kp_of x st with Some true => Some (is_init i, st) | _ => None end
  | BFlagLoad => Some (flag st, st)
  | BFlagCAS old new =>
      if Bool.eqb (flag st) old then Some (true, set_flag st new) else Some (false, st)
  | BNot a => match evalb i a st with Some (v, st1) => Some (negb v, st1) | None => None end
  | BAnd a b =>
      match evalb i a st with
      | Some (true, st1) => evalb i b st1
      | Some (false, st1) => Some (false, st1)
      | None => None
      end
  | BOr a b =>
      match evalb i a st with
      | Some (true, st1) => Some (true, st1)
      | Some (false, st1) => evalb i b st1
      | None => None
      end
  | BUnknown _ => None
  end.

Definition andthen (r : option outcome) (k : state -> option outcome) : option outcome :=
  match r with
  | Some (Normal st) => k st
  | other => other
  end.

Definition declare (x : string) (v : value) (st : state) : option outcome :=
  match lookup x (env st) with
  | None => Some (Normal {| env := (x, v) :: env st; flag := flag st; calls := calls st |})
  | Some _ => None
  end.

Fixpoint exec (i : inp) (s : stmt) (st : state) : option outcome :=
  match s with
  | SSkip => Some (Normal st)
  | SSeq a b => andthen (exec i a st) (exec i b)
  | SCurrent x => declare x (VKp (has_key i)) st
  | SDefine x e => match eval i e st with Some v => declare x (VInt v) st | None => None end
  | SFlagStore b => Some (Normal (set_flag st b))
  | SInitiate b => Some (Normal {| env := env st; flag := flag st; calls := calls st ++ [b] |})
  | SEval b => match evalb i b st with Some (_, st1) => Some (Normal st1) | None => None end
  | SIf c t e =>
      match evalb i c st with
      | Some (true, st1) => exec i t st1
      | Some (false, st1) => exec i e st1
      | None => None
      end
  | SReturn => Some (Returned st)
  | SUnknown _ => None
  end.

(* one call of the function: (arguments of the SendHandshakeInitiation calls in order, final flag) *)
Definition run (body : stmt) (i : inp) (fl : bool) : option (list bool * bool) :=
  match exec i body {| env := []; flag := fl; calls := [] |} with
  | Some (Normal st) | Some (Returned st) => Some (calls st, flag st)
  | None => None
  end.
