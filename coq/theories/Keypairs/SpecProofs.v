(* The executable property [holdsb] (Spec.v) accepts what the slice model does: clause by clause,
   for every reachable model state.  Depends on Model, Spec, Check (observe) and Proofs. *)
From Coq Require Import Permutation.
From WG Require Import Base.Prelude Gen.Constants Keypairs.Model Keypairs.Spec Keypairs.Check Keypairs.Proofs.
Local Open Scope N_scope.

(* ---- boolean list helpers --------------------------------------------------------------- *)

Lemma memN_In x l : memN x l = true <-> In x l.
Proof.
  unfold memN. rewrite existsb_exists. split.
  - intros (y & Hy & E). apply N.eqb_eq in E. subst. exact Hy.
  - intros H. exists x. split; [exact H|apply N.eqb_refl].
Qed.

Lemma memN_false x l : memN x l = false <-> ~ In x l.
Proof.
  rewrite <- memN_In. destruct (memN x l); split.
  - discriminate.
  - intros H. exfalso. apply H. reflexivity.
  - intros _ E. discriminate.
  - reflexivity.
Qed.

Lemma subsetb_incl a b : (forall x, In x a -> In x b) -> subsetb a b = true.
Proof. intros H. unfold subsetb. apply forallb_forall. intros x Hx. apply memN_In, H, Hx. Qed.

Lemma seteqb_intro a b : (forall x, In x a <-> In x b) -> seteqb a b = true.
Proof. intros H. unfold seteqb. rewrite !subsetb_incl; [reflexivity| |]; intros x; apply H. Qed.

Lemma nodupb_NoDup l : NoDup l -> nodupb l = true.
Proof.
  induction 1 as [|x l Hx Hl IH]; cbn [nodupb]; [reflexivity|].
  rewrite IH. apply memN_false in Hx. rewrite Hx. reflexivity.
Qed.

(* ---- the index table as a list ------------------------------------------------------------ *)

Definition conv (p : N * entry) : N * bool := (fst p, match snd p with Kp _ => true | Hs => false end).

Lemma ins_perm p l : Permutation (ins p l) (p :: l).
Proof.
  induction l as [|q l IH]; cbn [ins]; [reflexivity|].
  destruct (fst p <=? fst q); [reflexivity|].
  rewrite IH. apply perm_swap.
Qed.

Lemma sort_perm t : Permutation (sort_table t) (map conv t).
Proof.
  induction t as [|p t IH]; cbn [sort_table fold_right map]; [reflexivity|].
  fold (sort_table t). rewrite ins_perm. unfold conv at 1. constructor. exact IH.
Qed.

Lemma lookup_In_nodup t i e : NoDup (map fst t) -> (In (i, e) t <-> lookup i t = Some e).
Proof.
  induction t as [|[j x] t IH]; cbn [map lookup In fst]; intros Hnd.
  - split; [intros []|discriminate].
  - inversion Hnd as [|? ? Hj Ht]; subst. destruct (N.eqb_spec i j) as [->|Hij].
    + split.
      * intros [E|Hin]; [inversion E; reflexivity|]. exfalso. apply Hj. apply (in_map fst) in Hin. exact Hin.
      * intros E. inversion E. left. reflexivity.
    + rewrite <- (IH Ht). split; [intros [E|Hin]; [inversion E; congruence|exact Hin]|auto].
Qed.

Lemma lookup_None_notin t i : lookup i t = None -> ~ In i (map fst t).
Proof.
  induction t as [|[j x] t IH]; cbn [map lookup In fst]; [tauto|].
  destruct (N.eqb_spec i j); [discriminate|]. intros H [E|Hin]; [congruence|]. exact (IH H Hin).
Qed.

Lemma keys_delete i t : forall x, In x (map fst (delete i t)) -> In x (map fst t).
Proof.
  induction t as [|[j e] t IH]; cbn [delete map In fst]; [tauto|]. intros x.
  destruct (i =? j); cbn [map In fst]; intuition.
Qed.

Lemma NoDup_delete i t : NoDup (map fst t) -> NoDup (map fst (delete i t)).
Proof.
  induction t as [|[j e] t IH]; cbn [delete map fst]; intros H; [constructor|].
  inversion H; subst. destruct (i =? j); [auto|]. cbn [map fst]. constructor; [|auto].
  intros Hin. apply keys_delete in Hin. contradiction.
Qed.

Lemma keys_swap i k t : map fst (swap i k t) = map fst t.
Proof. induction t as [|[j e] t IH]; cbn [swap map fst]; [reflexivity|]. destruct (i =? j); cbn [map fst]; rewrite IH; reflexivity. Qed.

Lemma NoDup_delete_kp o t : NoDup (map fst t) -> NoDup (map fst (delete_kp o t)).
Proof. destruct o; cbn [delete_kp]; [apply NoDup_delete|auto]. Qed.
Lemma NoDup_delete_opt o t : NoDup (map fst t) -> NoDup (map fst (delete_opt o t)).
Proof. destruct o; cbn [delete_opt]; [apply NoDup_delete|auto]. Qed.

(* ---- the table has no duplicate index (invariant) ------------------------------------------ *)

Definition ND (s : state) : Prop := NoDup (map fst (table s)).

Lemma fresh_lookup s i : Inv s -> nidx s <= i -> lookup i (table s) = None.
Proof.
  intros H Hi. rewrite (I_tbl s H).
  pose proof (I_prev s H) as Hp. pose proof (I_cur s H) as Hc. pose proof (I_next s H) as Hn. pose proof (I_hs s H) as Hh.
  unfold expect, slot_hit, hs_hit, orelse.
  destruct (prev s) as [p|], (cur s) as [c|], (next s) as [n|], (hs s) as [h|];
    cbn [opt_ok] in *; unfold kp_ok in *; eqbs; try reflexivity; lia.
Qed.

Lemma ND_send_initiation s : Inv s -> ND s -> ND (fst (send_initiation s)).
Proof.
  intros H Hnd. unfold send_initiation. destruct (rate_limited s); [exact Hnd|].
  unfold ND. cbn [fst table map]. constructor; [|apply NoDup_delete_opt, Hnd].
  apply lookup_None_notin. rewrite lookup_delete_opt.
  rewrite (fresh_lookup s (nidx s) H) by lia. destruct (hs s) as [h|]; [destruct (nidx s =? h)|]; reflexivity.
Qed.

Lemma ND_send_staged s : Inv s -> ND s -> ND (fst (fst (send_staged s))).
Proof.
  intros H Hnd. unfold send_staged. destruct (staged s =? 0); [exact Hnd|].
  destruct (cur s) as [k|].
  - destruct (reject_after_time <=? age s k).
    + pose proof (ND_send_initiation s H Hnd). destruct (send_initiation s); exact H0.
    + destruct (initiator k && (rekey_after_time <? age s k)).
      * pose proof (ND_send_initiation _ (Inv_set_staged s 0 H) Hnd). destruct (send_initiation (set_staged s 0)); exact H0.
      * exact Hnd.
  - pose proof (ND_send_initiation s H Hnd). destruct (send_initiation s); exact H0.
Qed.

Lemma ND_kkfr s : Inv s -> ND s -> ND (fst (keep_key_fresh_receiving s)).
Proof.
  intros H Hnd. unfold keep_key_fresh_receiving. destruct (latch s); [exact Hnd|].
  destruct (cur s) as [k|]; [|exact Hnd].
  destruct (initiator k && (rekey_recv_time <? age s k)); [|exact Hnd].
  apply (ND_send_initiation (set_latch s true)); [apply Inv_set_latch, H|exact Hnd].
Qed.

Lemma ND_begin_session s b i r : ND s -> ND (begin_session s b i r).
Proof.
  intros Hnd. unfold begin_session, ND in *.
  destruct b; [destruct (next s)|]; cbn [table set_keys];
    repeat apply NoDup_delete_kp; rewrite keys_swap; exact Hnd.
Qed.

Lemma ND_received_with s k : ND s -> ND (fst (received_with s k)).
Proof.
  intros Hnd. unfold received_with. destruct (next s) as [n|]; [|exact Hnd].
  destruct (id n =? id k); [|exact Hnd]. unfold ND. cbn [fst table set_keys]. apply NoDup_delete_kp, Hnd.
Qed.

Lemma ND_do_recv s sid : Inv s -> ND s -> ND (fst (do_recv s sid)).
Proof.
  intros H Hnd. unfold do_recv. destruct (assoc sid (sessions s)); [|exact Hnd].
  destruct (lookup n (table s)) as [[|k]|]; try exact Hnd.
  destruct (reject_after_time <? age s k); [exact Hnd|].
  destruct (negb (id k =? sid)); [exact Hnd|].
  pose proof (Inv_received_with s k H) as H1. pose proof (ND_received_with s k Hnd) as N1.
  destruct (received_with s k) as [s1 pr]. cbn [fst] in H1, N1.
  assert (H2 : Inv (fst (fst (if pr then send_staged (set_latch s1 false) else (s1, [], false)))) /\
               ND (fst (fst (if pr then send_staged (set_latch s1 false) else (s1, [], false))))).
  { destruct pr; [split; [apply Inv_send_staged, Inv_set_latch, H1|apply ND_send_staged; [apply Inv_set_latch, H1|exact N1]]|split; assumption]. }
  destruct (if pr then send_staged (set_latch s1 false) else (s1, [], false)) as [[s2 sent] i1]. cbn [fst] in H2.
  destruct H2 as [H2 N2].
  pose proof (ND_kkfr s2 H2 N2) as N3. destruct (keep_key_fresh_receiving s2). exact N3.
Qed.

Lemma ND_do_respond s k r : Inv s -> ND s -> ND (fst (do_respond s k r)).
Proof.
  intros H Hnd. unfold do_respond. destruct (nth_error (inits s) k) as [i|] eqn:En; [|exact Hnd].
  destruct (match lookup i (table s) with Some Hs => match hs s with Some h => h =? i | None => false end | _ => false end) eqn:Ea;
    [|exact Hnd].
  assert (Eh : hs s = Some i).
  { destruct (lookup i (table s)) as [[|]|]; try discriminate. destruct (hs s) as [h|]; [|discriminate].
    apply N.eqb_eq in Ea. congruence. }
  pose proof (Inv_begin_init s i r H Eh) as H1.
  pose proof (ND_begin_session s true i r Hnd) as N1.
  set (s1 := add_session (begin_session s true i r) i) in *.
  assert (N1' : ND s1) by exact N1.
  assert (H3 : Inv (if staged (set_latch s1 false) =? 0 then set_staged (set_latch s1 false) 1 else set_latch s1 false) /\
               ND (if staged (set_latch s1 false) =? 0 then set_staged (set_latch s1 false) 1 else set_latch s1 false)).
  { destruct (staged (set_latch s1 false) =? 0); (split; [|exact N1']); [apply Inv_set_staged|]; apply Inv_set_latch, H1. }
  destruct H3 as [H3 N3]. pose proof (ND_send_staged _ H3 N3) as N4.
  destruct (send_staged _) as [[s4 sent] i1]. exact N4.
Qed.

Lemma ND_complete_responder s r : Inv s -> ND s -> ND (fst (do_complete_responder s r)).
Proof.
  intros H Hnd. unfold do_complete_responder. cbn [fst]. unfold ND. cbn [table add_session].
  apply ND_begin_session. unfold ND. cbn [table map fst]. constructor; [|apply NoDup_delete_opt, Hnd].
  apply lookup_None_notin. rewrite lookup_delete_opt.
  rewrite (fresh_lookup s (nidx s) H) by lia. destruct (hs s) as [h|]; [destruct (nidx s =? h)|]; reflexivity.
Qed.

Lemma ND_step s e : Inv s -> ND s -> ND (fst (step s e)).
Proof.
  intros H Hnd. unfold step.
  assert (H0 : Inv (set_now s (now s + 1))) by (apply Inv_tick1, H).
  assert (N0 : ND (set_now s (now s + 1))) by exact Hnd.
  destruct e.
  - unfold do_initiate.
    assert (H1 : Inv (if force then set_last_sent (set_now s (now s + 1)) None else set_now s (now s + 1))).
    { destruct force; [apply Inv_set_last_none|]; exact H0. }
    assert (N1 : ND (if force then set_last_sent (set_now s (now s + 1)) None else set_now s (now s + 1))).
    { destruct force; exact N0. }
    pose proof (ND_send_initiation _ H1 N1). destruct (send_initiation _). exact H2.
  - apply ND_do_respond; assumption.
  - apply ND_complete_responder; assumption.
  - apply ND_do_recv; assumption.
  - unfold do_send, do_transmit.
    pose proof (ND_send_staged _ (Inv_set_staged _ (staged (set_now s (now s + 1)) + 1) H0) N0).
    destruct (send_staged _) as [[s1 sent] i]. exact H1.
  - exact N0.
  - exact N0.
  - exact N0.
  - unfold do_restart, ND. cbn [fst table]. apply NoDup_delete_opt. repeat apply NoDup_delete_kp. exact Hnd.
  - unfold do_keepalive, do_transmit.
    pose proof (ND_send_staged _ (Inv_set_staged _ (if staged (set_now s (now s + 1)) =? 0 then 1 else staged (set_now s (now s + 1))) H0) N0).
    destruct (send_staged _) as [[s1 sent] i]. exact H1.
  - exact N0.
Qed.

Theorem ND_reachable evs : ND (R evs).
Proof.
  assert (H : Inv (R evs) /\ ND (R evs)).
  { unfold R. apply (final_inv step (fun s => Inv s /\ ND s)).
    - intros s o [A B]. split; [apply Inv_step, A|apply ND_step; assumption].
    - split; [exact Inv_init|constructor]. }
  exact (proj2 H).
Qed.

(* ---- clause 1: the index table is the three slots + the pending handshake ---------------------- *)

Lemma in_sorted s x b : In (x, b) (sort_table (table s)) <-> In (x, b) (map conv (table s)).
Proof. split; apply Permutation_in; [|symmetry]; apply sort_perm. Qed.

Lemma in_fst_filter (l : list (N * bool)) (f : N * bool -> bool) x :
  In x (map fst (filter f l)) <-> exists b, In (x, b) l /\ f (x, b) = true.
Proof.
  rewrite in_map_iff. split.
  - intros ([y b] & E & Hin). cbn in E. subst y. apply filter_In in Hin. exists b. exact Hin.
  - intros (b & Hin & Hf). exists (x, b). split; [reflexivity|apply filter_In; auto].
Qed.

Lemma in_conv t x b : In (x, b) (map conv t) <-> exists e, In (x, e) t /\ b = match e with Kp _ => true | Hs => false end.
Proof.
  rewrite in_map_iff. unfold conv. split.
  - intros ([y e] & E & Hin). cbn in E. inversion E; subst. exists e. auto.
  - intros (e & Hin & ->). exists (x, e). auto.
Qed.

Lemma table_kp_spec s o x : ND s ->
  In x (table_kp (observe s o)) <-> exists k, lookup x (table s) = Some (Kp k).
Proof.
  intros Hnd. unfold table_kp. cbn [ob_table observe]. rewrite in_fst_filter. split.
  - intros (b & Hin & Hb). cbn in Hb. subst b. apply in_sorted, in_conv in Hin.
    destruct Hin as ([|k] & Hin & E); [discriminate|]. exists k. apply lookup_In_nodup; assumption.
  - intros (k & El). exists true. split; [|reflexivity]. apply in_sorted, in_conv. exists (Kp k).
    split; [apply lookup_In_nodup; assumption|reflexivity].
Qed.

Lemma table_hs_spec s o x : ND s ->
  In x (table_hs (observe s o)) <-> lookup x (table s) = Some Hs.
Proof.
  intros Hnd. unfold table_hs. cbn [ob_table observe]. rewrite in_fst_filter. split.
  - intros (b & Hin & Hb). cbn in Hb. destruct b; [discriminate|]. apply in_sorted, in_conv in Hin.
    destruct Hin as ([|k] & Hin & E); [|discriminate]. apply lookup_In_nodup; assumption.
  - intros El. exists false. split; [|reflexivity]. apply in_sorted, in_conv. exists Hs.
    split; [apply lookup_In_nodup; assumption|reflexivity].
Qed.

Lemma in_table_spec s o x : ND s -> in_table (observe s o) x = honoured s x.
Proof.
  intros Hnd. unfold in_table, honoured. cbn [ob_table observe].
  destruct (lookup x (table s)) as [e|] eqn:El.
  - apply memN_In. apply in_map_iff. exists (x, match e with Kp _ => true | Hs => false end). split; [reflexivity|].
    apply in_sorted, in_conv. exists e. split; [apply lookup_In_nodup; assumption|reflexivity].
  - apply memN_false. intros Hin. apply in_map_iff in Hin. destruct Hin as ([y b] & E & Hin). cbn in E. subst y.
    apply in_sorted, in_conv in Hin. destruct Hin as (e & Hin & _). apply lookup_In_nodup in Hin; [congruence|assumption].
Qed.

Lemma slots_idx_observe s o : slots_idx (observe s o) = map lidx (keys s).
Proof. unfold slots_idx, keys. cbn [ob_prev ob_cur ob_next observe]. destruct (prev s), (cur s), (next s); reflexivity. Qed.

Lemma hs_lookup s x : Inv s -> (lookup x (table s) = Some Hs <-> hs s = Some x).
Proof.
  intros H. rewrite (I_tbl s H). pose proof (I_idx s H) as Hi. unfold keys in Hi. unfold expect, slot_hit, hs_hit, orelse.
  destruct (prev s) as [p|], (cur s) as [c|], (next s) as [n|], (hs s) as [h|];
    cbn [opt_list app In map alldiff] in *; eqbs; subst; split; intros E; try discriminate; try reflexivity; try congruence;
    try (inversion E; subst; lia).
Qed.

Lemma c_table_holds s o : Inv s -> ND s -> c_table (observe s o) = true.
Proof.
  intros H Hnd. unfold c_table.
  assert (Hset : forall x, In x (table_kp (observe s o)) <-> In x (slots_idx (observe s o))).
  { intros x. rewrite (table_kp_spec s o x Hnd), slots_idx_observe. split.
    - intros (k & El). destruct (table_kp_in_keys s x k H El) as [Hin <-]. apply in_map, Hin.
    - intros Hin. apply in_map_iff in Hin. destruct Hin as (k & <- & Hin). exists k. apply key_lookup; assumption. }
  assert (Hnds : NoDup (slots_idx (observe s o))).
  { rewrite slots_idx_observe. apply alldiff_NoDup, (alldiff_app_l _ (opt_list (hs s))), (I_idx s H). }
  assert (Hndt : NoDup (map fst (ob_table (observe s o)))).
  { cbn [ob_table observe]. apply (Permutation_NoDup (l := map fst (map conv (table s)))).
    - apply Permutation_map. symmetry. apply sort_perm.
    - rewrite map_map. cbn [conv fst]. exact Hnd. }
  assert (Hndk : NoDup (table_kp (observe s o))).
  { unfold table_kp. revert Hndt. generalize (ob_table (observe s o)). intros l. induction l as [|[y b] l IH]; cbn [map filter fst snd]; intros Hl; [constructor|].
    inversion Hl; subst. destruct b; cbn [map fst]; [constructor|]; auto.
    intros Hin. apply in_fst_filter in Hin. destruct Hin as (b & Hin & _). apply H2. apply in_map_iff. exists (y, b). auto. }
  rewrite (seteqb_intro _ _ Hset), (nodupb_NoDup _ Hnds), (nodupb_NoDup _ Hndt). cbn [andb].
  assert (Hlen : (length (table_kp (observe s o)) <= 3)%nat).
  { etransitivity; [apply (NoDup_incl_length (l' := slots_idx (observe s o)) Hndk); intros x Hx; apply Hset, Hx|].
    rewrite slots_idx_observe, map_length. unfold keys. destruct (prev s), (cur s), (next s); cbn; lia. }
  apply Nat.leb_le in Hlen. rewrite Hlen. cbn [andb]. rewrite Bool.andb_true_r.
  apply seteqb_intro. intros x. rewrite (table_hs_spec s o x Hnd), (hs_lookup s x H). cbn [ob_hs observe].
  destruct (hs s) as [h|]; cbn [optN_list In]; split; intros E; try discriminate; try tauto.
  - inversion E. auto.
  - destruct E as [->|[]]. reflexivity.
Qed.

(* ---- time bookkeeping ---------------------------------------------------------------------------- *)

Lemma now_do_recv s sid : now (fst (do_recv s sid)) = now s.
Proof.
  unfold do_recv. destruct (assoc sid (sessions s)); [|reflexivity].
  destruct (lookup n (table s)) as [[|k]|]; try reflexivity.
  destruct (reject_after_time <? age s k); [reflexivity|].
  destruct (negb (id k =? sid)); [reflexivity|].
  assert (N1 : now (fst (received_with s k)) = now s).
  { unfold received_with. destruct (next s) as [n0|]; [|reflexivity]. destruct (id n0 =? id k); reflexivity. }
  destruct (received_with s k) as [s1 pr]. cbn [fst] in N1.
  assert (N2 : now (fst (fst (if pr then send_staged (set_latch s1 false) else (s1, [], false)))) = now s).
  { destruct pr; [rewrite now_send_staged|]; exact N1. }
  destruct (if pr then send_staged (set_latch s1 false) else (s1, [], false)) as [[s2 sent] i1]. cbn [fst] in N2.
  pose proof (now_kkfr s2) as N3. destruct (keep_key_fresh_receiving s2). cbn [fst] in *. congruence.
Qed.

Lemma now_do_respond s k r : now (fst (do_respond s k r)) = now s.
Proof.
  unfold do_respond. destruct (nth_error (inits s) k); [|reflexivity].
  destruct (match lookup n (table s) with Some Hs => match hs s with Some h => h =? n | None => false end | _ => false end); [|reflexivity].
  set (s3 := if staged _ =? 0 then _ else _).
  assert (now s3 = now s).
  { subst s3. destruct (bs_misc s true n r) as (_ & M2 & _). destruct (staged _ =? 0); cbn [now set_staged set_latch add_session]; exact M2. }
  pose proof (now_send_staged s3). destruct (send_staged s3) as [[s4 sent] i1]. cbn [fst] in *. congruence.
Qed.

Definition tick_of (e : event) : N := match e with Tick d => d | _ => 0 end.

Lemma now_step s e : now (fst (step s e)) = now s + 1 + tick_of e.
Proof.
  unfold step. destruct e; cbn [tick_of]; rewrite ?N.add_0_r.
  - unfold do_initiate. pose proof (now_send_initiation (if force then set_last_sent (set_now s (now s + 1)) None else set_now s (now s + 1))).
    destruct (send_initiation _). cbn [fst] in *. rewrite H. destruct force; reflexivity.
  - rewrite now_do_respond. reflexivity.
  - unfold do_complete_responder, begin_session. reflexivity.
  - rewrite now_do_recv. reflexivity.
  - unfold do_send, do_transmit. pose proof (now_send_staged (set_staged (set_now s (now s + 1)) (staged (set_now s (now s + 1)) + 1))).
    destruct (send_staged _) as [[s1 sent] i]. cbn [fst] in *. exact H.
  - reflexivity.
  - reflexivity.
  - reflexivity.
  - reflexivity.
  - unfold do_keepalive, do_transmit.
    pose proof (now_send_staged (set_staged (set_now s (now s + 1)) (if staged (set_now s (now s + 1)) =? 0 then 1 else staged (set_now s (now s + 1))))).
    destruct (send_staged _) as [[s1 sent] i]. cbn [fst] in *. exact H.
  - reflexivity.
Qed.

(* ---- frame clauses ----------------------------------------------------------------------------------- *)

Lemma slot_eqb_same s s' k : slot_eqb (slot_of s (Some k)) (slot_of s' (Some k)) = true.
Proof. cbn. rewrite !N.eqb_refl, Bool.eqb_reflx. reflexivity. Qed.

Lemma slot_eqb_of s s' a b : a = b -> slot_eqb (slot_of s a) (slot_of s' b) = true.
Proof. intros ->. destruct b; [apply slot_eqb_same|reflexivity]. Qed.

Lemma frame_of_same s s' o1 o2 : same_slots s s' -> c_frame (observe s o1) (observe s' o2) = true.
Proof.
  intros (A & B & C). unfold c_frame. cbn [ob_prev ob_cur ob_next observe].
  rewrite !slot_eqb_of by congruence. reflexivity.
Qed.

(* events that never touch the slots *)
Lemma same_slots_step s e :
  match e with Initiate _ | Send | Keepalive | Tick _ | Forged _ | Replay _ | Abandon => True | _ => False end ->
  same_slots s (fst (step s e)).
Proof.
  unfold step. destruct e; intros He; try contradiction.
  - unfold do_initiate.
    pose proof (slots_send_initiation (if force then set_last_sent (set_now s (now s + 1)) None else set_now s (now s + 1))) as Hs.
    destruct (send_initiation _). cbn [fst] in *. eapply same_slots_trans; [|exact Hs]. destruct force; repeat split.
  - unfold do_send, do_transmit. pose proof (slots_send_staged (set_staged (set_now s (now s + 1)) (staged (set_now s (now s + 1)) + 1))) as Hs.
    destruct (send_staged _) as [[s1 sent] i]. cbn [fst] in *. eapply same_slots_trans; [|exact Hs]. repeat split.
  - repeat split.
  - repeat split.
  - repeat split.
  - unfold do_keepalive, do_transmit.
    pose proof (slots_send_staged (set_staged (set_now s (now s + 1)) (if staged (set_now s (now s + 1)) =? 0 then 1 else staged (set_now s (now s + 1))))) as Hs.
    destruct (send_staged _) as [[s1 sent] i]. cbn [fst] in *. eapply same_slots_trans; [|exact Hs]. repeat split.
  - repeat split.
Qed.

Lemma tbl_eqb_refl l : tbl_eqb l l = true.
Proof. induction l as [|[x b] l IH]; cbn; [reflexivity|]. rewrite N.eqb_refl, Bool.eqb_reflx, IH. reflexivity. Qed.

(* clauses 12, 13 *)
Lemma c_inert_holds s o1 e :
  match e with Forged _ | Replay _ | Abandon => True | _ => False end ->
  c_inert (observe s o1) (observe (fst (step s e)) (snd (step s e))) = true.
Proof.
  intros He. unfold c_inert. rewrite (frame_of_same s _ o1 _ (same_slots_step s e ltac:(destruct e; auto))).
  destruct e; try contradiction; cbn; rewrite tbl_eqb_refl; destruct (hs s); rewrite ?N.eqb_refl; reflexivity.
Qed.

(* clause 14 *)
Lemma all_none_nil (t : tbl) : (forall i, lookup i t = None) -> t = [].
Proof. destruct t as [|[j e] t]; [reflexivity|]. intros H. specialize (H j). cbn in H. rewrite N.eqb_refl in H. discriminate. Qed.

Lemma c_restart_holds s : Inv s -> c_restart (observe (fst (step s Restart)) (snd (step s Restart))) = true.
Proof.
  intros H. pose proof (Inv_step s Restart H) as H'.
  assert (Et : table (fst (step s Restart)) = []).
  { apply all_none_nil. intros i. rewrite (I_tbl _ H'). reflexivity. }
  unfold c_restart. cbn [ob_prev ob_cur ob_next ob_table ob_hs ob_sent ob_init ob_resp ob_tun observe]. rewrite Et. reflexivity.
Qed.

(* ---- clause 3: completion as responder ------------------------------------------------------------ *)

Lemma ND_R_snoc evs e : ND (fst (step (R evs) e)).
Proof. rewrite <- R_snoc. apply ND_reachable. Qed.
Lemma Inv_R evs : Inv (R evs). Proof. apply Inv_reachable. Qed.

Lemma opt_in_table_false s' o (sb : state) (x : option kp) :
  ND s' -> (forall p, x = Some p -> honoured s' (lidx p) = false) ->
  negb (opt_in_table (observe s' o) (slot_of sb x)) = true.
Proof.
  intros Hnd Hx. destruct x as [p|]; [|reflexivity]. cbn [slot_of opt_in_table so_lidx].
  rewrite in_table_spec by assumption. rewrite (Hx p eq_refl). reflexivity.
Qed.

Lemma c_responder_holds evs o1 r :
  let s := R evs in
  c_responder (observe s o1) (observe (fst (step s (CompleteResponder r))) (snd (step s (CompleteResponder r)))) = true.
Proof.
  intros s.
  destruct (responder_installs_unconfirmed evs r) as (En & Ec & Ep & Es & Er & _ & Hp & Hn & _ & _ & _).
  fold s in En, Ec, Ep, Es, Er, Hp, Hn.
  pose proof (ND_R_snoc evs (CompleteResponder r)) as Hnd'. fold s in Hnd'.
  pose proof (now_step s (CompleteResponder r)) as Hnow. cbn [tick_of] in Hnow.
  set (s' := fst (step s (CompleteResponder r))) in *. set (o := snd (step s (CompleteResponder r))) in *.
  unfold c_responder. cbn [ob_next ob_cur ob_prev ob_sent ob_resp observe]. rewrite En. cbn [slot_of so_init so_lidx so_age initiator lidx negb andb].
  rewrite in_table_spec by apply ND_reachable.
  assert (Hf : honoured s (nidx s) = false).
  { unfold honoured. rewrite (fresh_lookup s (nidx s) (Inv_R evs)) by lia. reflexivity. }
  rewrite Hf. cbn [negb andb].
  unfold age. cbn [created]. rewrite Hnow, N.add_0_r, N.sub_diag. cbn [N.div N.eqb andb]. change (0 / sec =? 0) with true. cbn [andb].
  rewrite (slot_eqb_of s s' (cur s) (cur s')) by congruence. rewrite Ep, Es, Er. cbn [slot_of is_some negb andb].
  rewrite (opt_in_table_false s' o s (prev s) Hnd' Hp), (opt_in_table_false s' o s (next s) Hnd' Hn). reflexivity.
Qed.

(* ---- clauses 4/5: a response ----------------------------------------------------------------------- *)

Lemma respond_acc_iff s k r i :
  Inv s -> nth_error (inits s) k = Some i ->
  (o_acc (snd (do_respond s k r)) = true <-> hs s = Some i).
Proof.
  intros H En. unfold do_respond. rewrite En.
  destruct (hs s) as [h|] eqn:Eh.
  - destruct (N.eqb_spec h i) as [->|Hne].
    + assert (El : lookup i (table s) = Some Hs) by (apply hs_lookup; assumption). rewrite El.
      destruct (send_staged _) as [[s4 sent] i1]. cbn. tauto.
    + destruct (lookup i (table s)) as [[|]|]; cbn; split; intros E; try discriminate; try (inversion E; congruence).
  - destruct (lookup i (table s)) as [[|]|]; cbn; split; discriminate.
Qed.

Lemma completed_iff evs k r i o1 :
  let s := R evs in
  nth_error (inits s) k = Some i ->
  completed_as_initiator (observe s o1) (observe (fst (step s (Respond k r))) (snd (step s (Respond k r)))) i
  = o_acc (snd (step s (Respond k r))).
Proof.
  intros s En. unfold completed_as_initiator. cbn [ob_hs ob_cur observe].
  destruct (o_acc (snd (step s (Respond k r)))) eqn:Ea.
  - destruct (initiator_completion_rotates evs k r Ea) as (i' & En' & Eh & Ec & _). fold s in En', Eh, Ec.
    assert (i' = i) by congruence. subst i'. rewrite Eh, Ec. cbn [slot_of so_lidx lidx]. rewrite !N.eqb_refl. reflexivity.
  - destruct (hs s) as [h|] eqn:Eh; [|reflexivity].
    destruct (N.eqb_spec h i) as [->|]; [|destruct (slot_of _ _); reflexivity].
    exfalso. unfold step in Ea.
    assert (A : o_acc (snd (do_respond (set_now s (now s + 1)) k r)) = true).
    { apply (respond_acc_iff (set_now s (now s + 1)) k r i); [apply Inv_tick1, Inv_R|exact En|exact Eh]. }
    congruence.
Qed.

Lemma respond_refused_same s k r :
  o_acc (snd (step s (Respond k r))) = false -> same_slots s (fst (step s (Respond k r))).
Proof.
  unfold step, do_respond. cbn [inits set_now table hs].
  destruct (nth_error (inits s) k); [|intros _; repeat split].
  destruct (match lookup n (table s) with Some Hs => match hs s with Some h => h =? n | None => false end | _ => false end).
  - destruct (send_staged _) as [[s4 sent] i1]. cbn. discriminate.
  - intros _. repeat split.
Qed.

Lemma c_initiator_holds evs o1 k r :
  let s := R evs in
  o_acc (snd (step s (Respond k r))) = true ->
  c_initiator (observe s o1) (observe (fst (step s (Respond k r))) (snd (step s (Respond k r)))) = true.
Proof.
  intros s Ea.
  destruct (initiator_completion_rotates evs k r Ea) as (i & En & Eh & Ec & Enx & Ep & Hp & Hc & _ & Eh' & _ & _).
  fold s in En, Eh, Ec, Enx, Ep, Hp, Hc, Eh'.
  pose proof (ND_R_snoc evs (Respond k r)) as Hnd'. fold s in Hnd'.
  pose proof (now_step s (Respond k r)) as Hnow. cbn [tick_of] in Hnow.
  set (s' := fst (step s (Respond k r))) in *. set (o := snd (step s (Respond k r))) in *.
  unfold c_initiator. cbn [ob_next ob_cur ob_prev ob_hs observe]. rewrite Ec, Enx, Eh'.
  cbn [slot_of so_init so_age initiator is_some negb andb].
  unfold age. cbn [created]. rewrite Hnow, N.add_0_r, N.sub_diag. change (0 / sec =? 0) with true. cbn [andb].
  rewrite (opt_in_table_false s' o s (prev s) Hnd' Hp).
  unfold rotated_in in Ep.
  destruct (next s) as [n|] eqn:En0; cbn [slot_of is_some].
  - rewrite Ep. cbn [slot_of slot_eqb so_lidx so_ridx so_init]. rewrite !N.eqb_refl, Bool.eqb_reflx. cbn [andb].
    destruct (cur s) as [c|] eqn:Ec0; [|reflexivity].
    rewrite (opt_in_table_false s' o s (Some c) Hnd'); [reflexivity|].
    intros p E. inversion E; subst. eapply Hc; reflexivity.
  - rewrite (slot_eqb_of s' s (prev s') (cur s)) by exact Ep. reflexivity.
Qed.

(* ==== the trace checker accepts the model ============================================================ *)

Definition restart_gap : N := RekeyTimeout + 1000000000.
Definition PH : N := 4294967295.   (* the checker's "names no key" index *)

Definition sess_rel (s : state) (ts : list (N * N)) : Prop :=
  forall sid,
      match assoc sid (sessions s), assoc sid ts with
      | None, None => True
      | Some i, Some i' =>
          (i' = i /\ (forall k, In k (keys s) -> lidx k = i -> id k = sid) /\ hs s <> Some i)
          \/ (i' = PH /\ forall k, In k (keys s) -> id k <> sid)
      | _, _ => False
      end.

(* What ties the checker's bookkeeping [t] to the model state [s] after n events. *)
Record Rel (s : state) (t : sst) (n : N) : Prop := mkRel {
  R_before : exists op, t_before t = observe s op;
  R_nsess : t_nsess t = nsess s;
  R_inits : t_inits t = inits s;
  R_latch : t_latch t = latch s;
  R_since : match t_since t with
            | Some d => exists l, last_sent s = Some l /\ d * sec <= now s - l
            | None => last_sent s = None
            end;
  R_sess : sess_rel s (t_sess t);
  R_conf : forall k, cur s = Some k -> initiator k = false -> In (lidx k) (t_conf t);
  R_cnt : nidx s <= 2 * n;
  R_now : restart_gap <= now s;
  R_frac : forall k, In k (keys s) -> (now s - created k) mod sec <= n
}.

Lemma first_false_all l : (forall p, In p l -> snd p = true) -> first_false l = 0.
Proof.
  intros H. unfold first_false.
  assert (E : filter (fun p : N * bool => negb (snd p)) l = []).
  { induction l as [|p l IH]; cbn [filter]; [reflexivity|].
    rewrite (H p (or_introl eq_refl)). cbn [negb]. apply IH. intros q Hq. apply H. right. exact Hq. }
  rewrite E. reflexivity.
Qed.

Lemma frac_step a c d n :
  c <= a -> (a - c) mod sec <= n -> n + 2 < sec -> d mod sec = 0 -> (a + 1 + d - c) mod sec <= n + 1.
Proof. unfold sec. intros. lia. Qed.

(* keys of the session map: what the key in a slot is called by the checker *)
Lemma rel_key_sess s t n k : Inv s -> Rel s t n -> In k (keys s) -> assoc (id k) (t_sess t) = Some (lidx k).
Proof.
  intros H HR Hin. destruct (key_session s k H Hin) as [Ea _].
  pose proof (R_sess s t n HR (id k)) as Hs. cbv beta in Hs. rewrite Ea in Hs.
  destruct (assoc (id k) (t_sess t)) as [i'|]; [|contradiction].
  destruct Hs as [(-> & _)|(_ & Hn)]; [reflexivity|]. exfalso. exact (Hn k Hin eq_refl).
Qed.

(* slots_idx never contains the placeholder *)
Lemma lidx_lt_PH s t n k : Inv s -> Rel s t n -> n + 2 < sec -> In k (keys s) -> lidx k < PH.
Proof.
  intros H HR Hn Hin. destruct (key_session s k H Hin) as [_ Hlt]. pose proof (R_cnt s t n HR). unfold PH, sec in *. lia.
Qed.

(* ---- how the slots move in one event ------------------------------------------------------------------ *)

Lemma keys_same s s' : same_slots s s' -> keys s' = keys s.
Proof. intros (A & B & C). unfold keys. rewrite A, B, C. reflexivity. Qed.

Lemma recv_slots s sid :
  same_slots s (fst (do_recv s sid)) \/
  (exists n, next s = Some n /\ id n = sid /\ o_acc (snd (do_recv s sid)) = true /\
             prev (fst (do_recv s sid)) = cur s /\ cur (fst (do_recv s sid)) = Some n /\ next (fst (do_recv s sid)) = None).
Proof.
  unfold do_recv.
  destruct (assoc sid (sessions s)) as [i|]; [|left; apply same_slots_refl].
  destruct (lookup i (table s)) as [[|k0]|]; try (left; apply same_slots_refl).
  destruct (reject_after_time <? age s k0); [left; apply same_slots_refl|].
  destruct (N.eqb_spec (id k0) sid); cbn [negb]; [|left; apply same_slots_refl].
  destruct (received_with_cases s k0) as [->|(n & En & Hid & ->)].
  - left. pose proof (slots_kkfr s) as B. destruct (keep_key_fresh_receiving s). exact B.
  - right. exists n.
    pose proof (slots_send_staged (set_latch (set_keys s (cur s) (Some n) None (delete_kp (prev s) (table s)) (hs s)) false)) as (A1 & A2 & A3).
    destruct (send_staged _) as [[s2 sent] i1]. cbn [fst] in *.
    pose proof (slots_kkfr s2) as (B1 & B2 & B3).
    destruct (keep_key_fresh_receiving s2) as [s3 i2]. cbn [fst snd prev cur next set_latch set_keys o_acc] in *.
    repeat split; congruence.
Qed.

Lemma keys_step s e k :
  Inv s -> In k (keys (fst (step s e))) -> In k (keys s) \/ created k = now (fst (step s e)).
Proof.
  intros H. destruct e.
  - rewrite (keys_same _ _ (same_slots_step s (Initiate force) I)). auto.
  - destruct (o_acc (snd (step s (Respond k0 r)))) eqn:Ea.
    + rewrite now_step. cbn [tick_of]. unfold step in *.
      destruct (respond_rotates (set_now s (now s + 1)) k0 r (Inv_tick1 s H) Ea) as (i & _ & _ & Ec & En & Ep & _).
      unfold keys at 1. rewrite Ec, En, Ep. unfold rotated_in. cbn [next cur set_now now].
      intros Hin. apply in_app_or in Hin. destruct Hin as [Hin|Hin].
      * left. unfold keys. destruct (next s) as [n|]; cbn [opt_list In] in Hin.
        -- destruct Hin as [<-|[]]. apply in_or_app. right. apply in_or_app. right. left. reflexivity.
        -- destruct (cur s); cbn [opt_list In] in Hin; [|contradiction]. destruct Hin as [<-|[]].
           apply in_or_app. right. apply in_or_app. left. left. reflexivity.
      * cbn [opt_list app In] in Hin. destruct Hin as [<-|[]]. right. cbn [created]. lia.
    + rewrite (keys_same _ _ (respond_refused_same s k0 r Ea)). auto.
  - rewrite now_step. cbn [tick_of]. unfold step, do_complete_responder, begin_session.
    cbn [fst keys prev cur next add_session set_keys set_now now opt_list app].
    intros Hin. apply in_app_or in Hin. destruct Hin as [Hin|[<-|[]]].
    + left. unfold keys. apply in_or_app. right. apply in_or_app. left. exact Hin.
    + right. cbn [created]. lia.
  - unfold step. intros Hin.
    destruct (recv_slots (set_now s (now s + 1)) sid) as [Hs|(n & En & _ & _ & Ep & Ec & Enx)].
    + rewrite (keys_same _ _ Hs) in Hin. left. exact Hin.
    + left. unfold keys in *. rewrite Ep, Ec, Enx in Hin. cbn [next cur set_now] in *. rewrite En.
      apply in_app_or in Hin. destruct Hin as [Hin|Hin].
      * apply in_or_app. right. apply in_or_app. left. exact Hin.
      * apply in_or_app. right. apply in_or_app. right. cbn [opt_list app] in *. destruct Hin as [<-|[]]. left. reflexivity.
  - rewrite (keys_same _ _ (same_slots_step s Send I)). auto.
  - rewrite (keys_same _ _ (same_slots_step s (Tick d) I)). auto.
  - rewrite (keys_same _ _ (same_slots_step s (Forged sid) I)). auto.
  - rewrite (keys_same _ _ (same_slots_step s (Replay sid) I)). auto.
  - intros [].
  - rewrite (keys_same _ _ (same_slots_step s Keepalive I)). auto.
  - rewrite (keys_same _ _ (same_slots_step s Abandon I)). auto.
Qed.

Lemma frac_preserved s e n :
  Inv s -> (forall k, In k (keys s) -> (now s - created k) mod sec <= n) ->
  n + 2 < sec -> tick_of e mod sec = 0 ->
  forall k, In k (keys (fst (step s e))) -> (now (fst (step s e)) - created k) mod sec <= n + 1.
Proof.
  intros H Hf Hn Ht k Hin. destruct (keys_step s e k H Hin) as [Hold| ->].
  - rewrite now_step. apply frac_step; auto.
    pose proof (I_prev s H) as Hp. pose proof (I_cur s H) as Hc. pose proof (I_next s H) as Hx.
    unfold keys in Hold. destruct (prev s), (cur s), (next s); cbn [opt_list app In opt_ok] in *; unfold kp_ok in *;
      intuition (subst; lia).
  - rewrite N.sub_diag. cbn. lia.
Qed.

(* ---- at most two new indices per event ------------------------------------------------------------------ *)

Lemma nidx_si_le s : nidx (fst (send_initiation s)) <= nidx s + 1.
Proof. unfold send_initiation. destruct (rate_limited s); cbn [fst nidx]; lia. Qed.

Lemma nidx_ss_le s : nidx (fst (fst (send_staged s))) <= nidx s + 1.
Proof.
  unfold send_staged. destruct (staged s =? 0); [cbn [fst]; lia|].
  destruct (cur s) as [k|].
  - destruct (reject_after_time <=? age s k).
    + pose proof (nidx_si_le s). destruct (send_initiation s); exact H.
    + destruct (initiator k && (rekey_after_time <? age s k)).
      * pose proof (nidx_si_le (set_staged s 0)). destruct (send_initiation (set_staged s 0)); exact H.
      * cbn. lia.
  - pose proof (nidx_si_le s). destruct (send_initiation s); exact H.
Qed.

Lemma nidx_kkfr_le s : nidx (fst (keep_key_fresh_receiving s)) <= nidx s + 1.
Proof.
  unfold keep_key_fresh_receiving. destruct (latch s); [cbn [fst]; lia|].
  destruct (cur s) as [k|]; [|cbn [fst]; lia].
  destruct (initiator k && (rekey_recv_time <? age s k)); [|cbn [fst]; lia].
  apply (nidx_si_le (set_latch s true)).
Qed.

Lemma nidx_step s e : nidx (fst (step s e)) <= nidx s + 2.
Proof.
  unfold step. destruct e.
  - unfold do_initiate.
    pose proof (nidx_si_le (if force then set_last_sent (set_now s (now s + 1)) None else set_now s (now s + 1))).
    destruct (send_initiation _). cbn [fst] in *. destruct force; cbn [nidx set_last_sent set_now] in *; lia.
  - unfold do_respond. cbn [inits set_now table hs]. destruct (nth_error (inits s) k); [|cbn; lia].
    destruct (match lookup n (table s) with Some Hs => match hs s with Some h => h =? n | None => false end | _ => false end); [|cbn; lia].
    set (s3 := if staged _ =? 0 then _ else _).
    assert (nidx s3 = nidx s).
    { subst s3. destruct (bs_misc (set_now s (now s + 1)) true n r) as (_ & _ & M3 & _).
      destruct (staged _ =? 0); cbn [nidx set_staged set_latch add_session]; exact M3. }
    pose proof (nidx_ss_le s3). destruct (send_staged s3) as [[s4 sent] i1]. cbn [fst] in *. lia.
  - unfold do_complete_responder. cbn [fst nidx add_session].
    destruct (bs_misc (mkState (now (set_now s (now s + 1))) (prev (set_now s (now s + 1))) (cur (set_now s (now s + 1))) (next (set_now s (now s + 1)))
       ((nidx (set_now s (now s + 1)), Hs) :: delete_opt (hs (set_now s (now s + 1))) (table (set_now s (now s + 1)))) (Some (nidx (set_now s (now s + 1))))
       (Some (now (set_now s (now s + 1)))) (latch (set_now s (now s + 1))) (staged (set_now s (now s + 1))) (nidx (set_now s (now s + 1)) + 1)
       (inits (set_now s (now s + 1))) (nsess (set_now s (now s + 1))) (sessions (set_now s (now s + 1)))) false (nidx (set_now s (now s + 1))) r) as (_ & _ & M3 & _).
    rewrite M3. cbn. lia.
  - set (s0 := set_now s (now s + 1)). assert (E0 : nidx s0 = nidx s) by reflexivity. rewrite <- E0. clearbody s0.
    unfold do_recv. destruct (assoc sid (sessions s0)); [|cbn; lia].
    destruct (lookup n (table s0)) as [[|k]|]; try (cbn; lia).
    destruct (reject_after_time <? age s0 k); [cbn; lia|].
    destruct (negb (id k =? sid)); [cbn; lia|].
    assert (N1 : nidx (fst (received_with s0 k)) = nidx s0).
    { unfold received_with. destruct (next s0) as [n0|]; [|reflexivity]. destruct (id n0 =? id k); reflexivity. }
    destruct (received_with s0 k) as [s1 pr]. cbn [fst] in N1.
    assert (N2 : nidx (fst (fst (if pr then send_staged (set_latch s1 false) else (s1, [], false)))) <= nidx s0 + 1).
    { destruct pr; [pose proof (nidx_ss_le (set_latch s1 false)); cbn [nidx set_latch] in *; lia|cbn [fst]; lia]. }
    destruct (if pr then send_staged (set_latch s1 false) else (s1, [], false)) as [[s2 sent] i1]. cbn [fst] in N2.
    pose proof (nidx_kkfr_le s2) as N3. destruct (keep_key_fresh_receiving s2). cbn [fst] in *. lia.
  - unfold do_send, do_transmit. pose proof (nidx_ss_le (set_staged (set_now s (now s + 1)) (staged (set_now s (now s + 1)) + 1))).
    destruct (send_staged _) as [[s1 sent] i]. cbn [fst nidx set_staged set_now] in *. lia.
  - cbn. lia.
  - cbn. lia.
  - cbn. lia.
  - cbn. lia.
  - unfold do_keepalive, do_transmit.
    pose proof (nidx_ss_le (set_staged (set_now s (now s + 1)) (if staged (set_now s (now s + 1)) =? 0 then 1 else staged (set_now s (now s + 1))))).
    destruct (send_staged _) as [[s1 sent] i]. cbn [fst nidx set_staged set_now] in *. lia.
  - cbn. lia.
Qed.

(* ---- lastSentHandshake ------------------------------------------------------------------------------------ *)

Lemma si_last s :
  last_sent (fst (send_initiation s)) = if snd (send_initiation s) then Some (now s) else last_sent s.
Proof. unfold send_initiation. destruct (rate_limited s); reflexivity. Qed.

Lemma ss_last s :
  last_sent (fst (fst (send_staged s))) = if snd (send_staged s) then Some (now s) else last_sent s.
Proof.
  unfold send_staged. destruct (staged s =? 0); [reflexivity|].
  destruct (cur s) as [k|].
  - destruct (reject_after_time <=? age s k).
    + pose proof (si_last s). destruct (send_initiation s); exact H.
    + destruct (initiator k && (rekey_after_time <? age s k)).
      * pose proof (si_last (set_staged s 0)). destruct (send_initiation (set_staged s 0)); exact H.
      * reflexivity.
  - pose proof (si_last s). destruct (send_initiation s); exact H.
Qed.

Lemma kkfr_last s :
  last_sent (fst (keep_key_fresh_receiving s)) = if snd (keep_key_fresh_receiving s) then Some (now s) else last_sent s.
Proof.
  unfold keep_key_fresh_receiving. destruct (latch s); [reflexivity|].
  destruct (cur s) as [k|]; [|reflexivity].
  destruct (initiator k && (rekey_recv_time <? age s k)); [|reflexivity].
  apply (si_last (set_latch s true)).
Qed.


Lemma last_step s e :
  let s' := fst (step s e) in let o := snd (step s e) in
  last_sent s' =
  if o_init o || o_resp o then Some (now s + 1)
  else match e with
       | Restart => Some (now s + 1 - restart_gap)
       | Initiate true => None
       | _ => last_sent s
       end.
Proof.
  unfold step. destruct e.
  - unfold do_initiate.
    pose proof (si_last (if force then set_last_sent (set_now s (now s + 1)) None else set_now s (now s + 1))) as L.
    destruct (send_initiation _) as [s1 i]. cbn [fst snd o_init o_resp] in *. rewrite L, Bool.orb_false_r.
    destruct i, force; reflexivity.
  - unfold do_respond. cbn [inits set_now table hs]. destruct (nth_error (inits s) k); [|reflexivity].
    destruct (match lookup n (table s) with Some Hs => match hs s with Some h => h =? n | None => false end | _ => false end); [|reflexivity].
    set (s3 := if staged _ =? 0 then _ else _).
    assert (E3 : last_sent s3 = last_sent s /\ now s3 = now s + 1).
    { subst s3. unfold begin_session. cbn [next set_now]. destruct (next s); destruct (staged _ =? 0); split; reflexivity. }
    pose proof (ss_last s3) as L. destruct (send_staged s3) as [[s4 sent] i1]. cbn [fst snd o_init o_resp] in *.
    rewrite L, Bool.orb_false_r. destruct E3 as [-> ->]. destruct i1; reflexivity.
  - reflexivity.
  - set (s0 := set_now s (now s + 1)).
    assert (E0 : last_sent s0 = last_sent s /\ now s0 = now s + 1) by (split; reflexivity). destruct E0 as [<- <-]. clearbody s0.
    unfold do_recv. destruct (assoc sid (sessions s0)); [|reflexivity].
    destruct (lookup n (table s0)) as [[|k]|]; try reflexivity.
    destruct (reject_after_time <? age s0 k); [reflexivity|].
    destruct (negb (id k =? sid)); [reflexivity|].
    assert (N1 : last_sent (fst (received_with s0 k)) = last_sent s0 /\ now (fst (received_with s0 k)) = now s0).
    { unfold received_with. destruct (next s0) as [n0|]; [|split; reflexivity]. destruct (id n0 =? id k); split; reflexivity. }
    destruct (received_with s0 k) as [s1 pr]. cbn [fst] in N1. destruct N1 as [L1 T1].
    assert (N2 : last_sent (fst (fst (if pr then send_staged (set_latch s1 false) else (s1, [], false)))) =
                 (if snd (if pr then send_staged (set_latch s1 false) else (s1, [], false)) then Some (now s0) else last_sent s0)
                 /\ now (fst (fst (if pr then send_staged (set_latch s1 false) else (s1, [], false)))) = now s0).
    { destruct pr.
      - rewrite ss_last, now_send_staged. cbn [now last_sent set_latch]. rewrite L1, T1. split; reflexivity.
      - cbn [fst snd]. split; assumption. }
    destruct (if pr then send_staged (set_latch s1 false) else (s1, [], false)) as [[s2 sent] i1]. cbn [fst snd] in N2.
    destruct N2 as [L2 T2].
    pose proof (kkfr_last s2) as L3. destruct (keep_key_fresh_receiving s2) as [s3 i2]. cbn [fst snd o_init o_resp] in *.
    rewrite L3, L2, T2, Bool.orb_false_r. destruct i1, i2; reflexivity.
  - unfold do_send, do_transmit. pose proof (ss_last (set_staged (set_now s (now s + 1)) (staged (set_now s (now s + 1)) + 1))) as L.
    destruct (send_staged _) as [[s1 sent] i]. cbn [fst snd o_init o_resp last_sent now set_staged set_now] in *.
    rewrite L, Bool.orb_false_r. destruct i; reflexivity.
  - reflexivity.
  - reflexivity.
  - reflexivity.
  - reflexivity.
  - unfold do_keepalive, do_transmit.
    pose proof (ss_last (set_staged (set_now s (now s + 1)) (if staged (set_now s (now s + 1)) =? 0 then 1 else staged (set_now s (now s + 1))))) as L.
    destruct (send_staged _) as [[s1 sent] i]. cbn [fst snd o_init o_resp last_sent now set_staged set_now] in *.
    rewrite L, Bool.orb_false_r. destruct i; reflexivity.
  - reflexivity.
Qed.

(* ---- sessions, initiations, pending handshake index ------------------------------------------------------- *)

Definition aux_same (s s' : state) : Prop :=
  sessions s' = sessions s /\ nsess s' = nsess s.

Lemma aux_si s : aux_same s (fst (send_initiation s)).
Proof. unfold send_initiation. destruct (rate_limited s); split; reflexivity. Qed.
Lemma aux_trans a b c : aux_same a b -> aux_same b c -> aux_same a c.
Proof. unfold aux_same. intuition congruence. Qed.
Lemma aux_ss s : aux_same s (fst (fst (send_staged s))).
Proof.
  unfold send_staged. destruct (staged s =? 0); [split; reflexivity|].
  destruct (cur s) as [k|].
  - destruct (reject_after_time <=? age s k).
    + pose proof (aux_si s). destruct (send_initiation s); exact H.
    + destruct (initiator k && (rekey_after_time <? age s k)).
      * pose proof (aux_si (set_staged s 0)). destruct (send_initiation (set_staged s 0)); exact H.
      * split; reflexivity.
  - pose proof (aux_si s). destruct (send_initiation s); exact H.
Qed.
Lemma aux_kkfr s : aux_same s (fst (keep_key_fresh_receiving s)).
Proof.
  unfold keep_key_fresh_receiving. destruct (latch s); [split; reflexivity|].
  destruct (cur s) as [k|]; [|split; reflexivity].
  destruct (initiator k && (rekey_recv_time <? age s k)); [|split; reflexivity].
  apply (aux_si (set_latch s true)).
Qed.

Lemma aux_do_recv s sid : aux_same s (fst (do_recv s sid)).
Proof.
  unfold do_recv. destruct (assoc sid (sessions s)); [|split; reflexivity].
  destruct (lookup n (table s)) as [[|k]|]; try (split; reflexivity).
  destruct (reject_after_time <? age s k); [split; reflexivity|].
  destruct (negb (id k =? sid)); [split; reflexivity|].
  assert (N1 : aux_same s (fst (received_with s k))).
  { unfold received_with. destruct (next s) as [n0|]; [|split; reflexivity]. destruct (id n0 =? id k); split; reflexivity. }
  destruct (received_with s k) as [s1 pr]. cbn [fst] in N1.
  assert (N2 : aux_same s (fst (fst (if pr then send_staged (set_latch s1 false) else (s1, [], false))))).
  { destruct pr; [|exact N1]. eapply aux_trans; [exact N1|]. apply (aux_ss (set_latch s1 false)). }
  destruct (if pr then send_staged (set_latch s1 false) else (s1, [], false)) as [[s2 sent] i1]. cbn [fst] in N2.
  pose proof (aux_kkfr s2) as N3. destruct (keep_key_fresh_receiving s2). cbn [fst] in *. eapply aux_trans; eassumption.
Qed.

(* the sessions the remote party derives in an event *)
Definition new_session (s : state) (e : event) : list (N * N) :=
  match e with
  | CompleteResponder _ => [(nsess s, nidx s)]
  | Respond k _ => match nth_error (inits s) k with Some i => [(nsess s, i)] | None => [] end
  | _ => []
  end.

Lemma sessions_step s e :
  sessions (fst (step s e)) = new_session s e ++ sessions s /\
  nsess (fst (step s e)) = nsess s + N.of_nat (length (new_session s e)).
Proof.
  unfold step. destruct e; cbn [new_session app length N.of_nat].
  - unfold do_initiate. pose proof (aux_si (if force then set_last_sent (set_now s (now s + 1)) None else set_now s (now s + 1))) as [A B].
    destruct (send_initiation _). cbn [fst] in *. rewrite A, B, N.add_0_r. destruct force; split; reflexivity.
  - unfold do_respond. cbn [inits set_now table hs]. destruct (nth_error (inits s) k); [|cbn; rewrite N.add_0_r; split; reflexivity].
    destruct (match lookup n (table s) with Some Hs => match hs s with Some h => h =? n | None => false end | _ => false end);
      [|cbn; split; reflexivity].
    set (s3 := if staged _ =? 0 then _ else _).
    assert (E3 : sessions s3 = (nsess s, n) :: sessions s /\ nsess s3 = nsess s + 1).
    { subst s3. unfold begin_session. cbn [next set_now]. destruct (next s); destruct (staged _ =? 0); split; reflexivity. }
    pose proof (aux_ss s3) as [A B]. destruct (send_staged s3) as [[s4 sent] i1]. cbn [fst length N.of_nat] in *.
    rewrite A, B. destruct E3 as [-> ->]. split; reflexivity.
  - unfold do_complete_responder, begin_session. cbn. split; reflexivity.
  - pose proof (aux_do_recv (set_now s (now s + 1)) sid) as [A B]. rewrite A, B, N.add_0_r. split; reflexivity.
  - unfold do_send, do_transmit. pose proof (aux_ss (set_staged (set_now s (now s + 1)) (staged (set_now s (now s + 1)) + 1))) as [A B].
    destruct (send_staged _) as [[s1 sent] i]. cbn [fst] in *. rewrite A, B, N.add_0_r. split; reflexivity.
  - cbn. rewrite N.add_0_r. split; reflexivity.
  - cbn. rewrite N.add_0_r. split; reflexivity.
  - cbn. rewrite N.add_0_r. split; reflexivity.
  - cbn. rewrite N.add_0_r. split; reflexivity.
  - unfold do_keepalive, do_transmit.
    pose proof (aux_ss (set_staged (set_now s (now s + 1)) (if staged (set_now s (now s + 1)) =? 0 then 1 else staged (set_now s (now s + 1))))) as [A B].
    destruct (send_staged _) as [[s1 sent] i]. cbn [fst] in *. rewrite A, B, N.add_0_r. split; reflexivity.
  - cbn. rewrite N.add_0_r. split; reflexivity.
Qed.

(* pending handshake index: unchanged, or a fresh index *)
Definition HSrel (s s' : state) : Prop :=
  nidx s <= nidx s' /\ (hs s' = hs s \/ exists j, hs s' = Some j /\ nidx s <= j).

Lemma HS_refl s : HSrel s s. Proof. split; [lia|auto]. Qed.
Lemma HS_trans a b c : HSrel a b -> HSrel b c -> HSrel a c.
Proof.
  intros [A1 A2] [B1 B2]. split; [lia|].
  destruct B2 as [B2|(j & B2 & Hj)]; [rewrite B2; destruct A2 as [A2|(j & A2 & Hj)]; [auto|right; exists j; auto]|].
  right. exists j. split; [exact B2|lia].
Qed.
Lemma HS_si s : HSrel s (fst (send_initiation s)).
Proof. unfold send_initiation. destruct (rate_limited s); [apply HS_refl|]. split; cbn; [lia|]. right. exists (nidx s). split; [reflexivity|lia]. Qed.
Lemma HS_ss s : HSrel s (fst (fst (send_staged s))).
Proof.
  unfold send_staged. destruct (staged s =? 0); [apply HS_refl|].
  destruct (cur s) as [k|].
  - destruct (reject_after_time <=? age s k).
    + pose proof (HS_si s). destruct (send_initiation s); exact H.
    + destruct (initiator k && (rekey_after_time <? age s k)).
      * pose proof (HS_si (set_staged s 0)). destruct (send_initiation (set_staged s 0)); exact H.
      * split; cbn; [lia|auto].
  - pose proof (HS_si s). destruct (send_initiation s); exact H.
Qed.
Lemma HS_kkfr s : HSrel s (fst (keep_key_fresh_receiving s)).
Proof.
  unfold keep_key_fresh_receiving. destruct (latch s); [apply HS_refl|].
  destruct (cur s) as [k|]; [|apply HS_refl].
  destruct (initiator k && (rekey_recv_time <? age s k)); [|apply HS_refl].
  apply (HS_si (set_latch s true)).
Qed.

Lemma hs_step s e :
  let s' := fst (step s e) in
  hs s' = hs s \/ hs s' = None \/ exists j, hs s' = Some j /\ nidx s <= j.
Proof.
  assert (G : forall s', HSrel (set_now s (now s + 1)) s' -> hs s' = hs s \/ hs s' = None \/ exists j, hs s' = Some j /\ nidx s <= j).
  { intros s' [_ [A|A]]; [left; exact A|right; right; exact A]. }
  unfold step. destruct e.
  - unfold do_initiate.
    pose proof (HS_si (if force then set_last_sent (set_now s (now s + 1)) None else set_now s (now s + 1))) as Hs.
    destruct (send_initiation _). cbn [fst] in *. apply G. destruct force; exact Hs.
  - unfold do_respond. cbn [inits set_now table hs]. destruct (nth_error (inits s) k); [|left; reflexivity].
    destruct (match lookup n (table s) with Some Hs => match hs s with Some h => h =? n | None => false end | _ => false end); [|left; reflexivity].
    set (s3 := if staged _ =? 0 then _ else _).
    assert (E3 : hs s3 = None /\ nidx s3 = nidx s).
    { subst s3. unfold begin_session. cbn [next set_now]. destruct (next s); destruct (staged _ =? 0); split; reflexivity. }
    pose proof (HS_ss s3) as [A [B|(j & B & Hj)]]. destruct (send_staged s3) as [[s4 sent] i1]. cbn [fst] in *.
    + right. left. destruct E3; congruence.
    + destruct (send_staged s3) as [[s4 sent] i1]. cbn [fst] in *. right. right. exists j. destruct E3. split; [exact B|lia].
  - right. left. unfold do_complete_responder, begin_session. reflexivity.
  - set (s0 := set_now s (now s + 1)) in *. clearbody s0.
    unfold do_recv. destruct (assoc sid (sessions s0)); [|apply G, HS_refl].
    destruct (lookup n (table s0)) as [[|k]|]; try (apply G, HS_refl).
    destruct (reject_after_time <? age s0 k); [apply G, HS_refl|].
    destruct (negb (id k =? sid)); [apply G, HS_refl|].
    assert (N1 : HSrel s0 (fst (received_with s0 k))).
    { unfold received_with. destruct (next s0) as [n0|]; [|apply HS_refl]. destruct (id n0 =? id k); [|apply HS_refl]. split; cbn; [lia|auto]. }
    destruct (received_with s0 k) as [s1 pr]. cbn [fst] in N1.
    assert (N2 : HSrel s0 (fst (fst (if pr then send_staged (set_latch s1 false) else (s1, [], false))))).
    { destruct pr; [|exact N1]. eapply HS_trans; [exact N1|]. apply (HS_ss (set_latch s1 false)). }
    destruct (if pr then send_staged (set_latch s1 false) else (s1, [], false)) as [[s2 sent] i1]. cbn [fst] in N2.
    pose proof (HS_kkfr s2) as N3. destruct (keep_key_fresh_receiving s2). cbn [fst] in *. apply G. eapply HS_trans; eassumption.
  - unfold do_send, do_transmit. pose proof (HS_ss (set_staged (set_now s (now s + 1)) (staged (set_now s (now s + 1)) + 1))) as Hs.
    destruct (send_staged _) as [[s1 sent] i]. cbn [fst] in *. apply G. exact Hs.
  - left. reflexivity.
  - left. reflexivity.
  - left. reflexivity.
  - right. left. reflexivity.
  - unfold do_keepalive, do_transmit.
    pose proof (HS_ss (set_staged (set_now s (now s + 1)) (if staged (set_now s (now s + 1)) =? 0 then 1 else staged (set_now s (now s + 1))))) as Hs.
    destruct (send_staged _) as [[s1 sent] i]. cbn [fst] in *. apply G. exact Hs.
  - left. reflexivity.
Qed.

(* initiations sent: at most one per event *)
Definition pushed (i : bool) (s s' : state) : Prop :=
  inits s' = (if i then [hd 0 (inits s')] else []) ++ inits s.

Lemma pushed_si s : pushed (snd (send_initiation s)) s (fst (send_initiation s)).
Proof. unfold send_initiation, pushed. destruct (rate_limited s); reflexivity. Qed.
Lemma pushed_ss s : pushed (snd (send_staged s)) s (fst (fst (send_staged s))).
Proof.
  unfold send_staged. destruct (staged s =? 0); [reflexivity|].
  destruct (cur s) as [k|].
  - destruct (reject_after_time <=? age s k).
    + pose proof (pushed_si s). destruct (send_initiation s); exact H.
    + destruct (initiator k && (rekey_after_time <? age s k)).
      * pose proof (pushed_si (set_staged s 0)). destruct (send_initiation (set_staged s 0)); exact H.
      * reflexivity.
  - pose proof (pushed_si s). destruct (send_initiation s); exact H.
Qed.
Lemma pushed_kkfr s : pushed (snd (keep_key_fresh_receiving s)) s (fst (keep_key_fresh_receiving s)).
Proof.
  unfold keep_key_fresh_receiving. destruct (latch s); [reflexivity|].
  destruct (cur s) as [k|]; [|reflexivity].
  destruct (initiator k && (rekey_recv_time <? age s k)); [|reflexivity].
  apply (pushed_si (set_latch s true)).
Qed.

Lemma rl_after s : last_sent s = Some (now s) -> rate_limited s = true.
Proof. intros E. unfold rate_limited. rewrite E, N.sub_diag. reflexivity. Qed.

Lemma kkfr_limited s : rate_limited s = true -> snd (keep_key_fresh_receiving s) = false.
Proof.
  intros Hr. unfold keep_key_fresh_receiving. destruct (latch s); [reflexivity|].
  destruct (cur s) as [k|]; [|reflexivity].
  destruct (initiator k && (rekey_recv_time <? age s k)); [|reflexivity].
  unfold send_initiation. change (rate_limited (set_latch s true)) with (rate_limited s). rewrite Hr. reflexivity.
Qed.

Lemma inits_step s e :
  pushed (o_init (snd (step s e))) s (fst (step s e)).
Proof.
  unfold step. destruct e.
  - unfold do_initiate.
    pose proof (pushed_si (if force then set_last_sent (set_now s (now s + 1)) None else set_now s (now s + 1))) as P.
    destruct (send_initiation _). cbn [fst snd o_init] in *. destruct force; exact P.
  - unfold do_respond. cbn [inits set_now table hs]. destruct (nth_error (inits s) k); [|reflexivity].
    destruct (match lookup n (table s) with Some Hs => match hs s with Some h => h =? n | None => false end | _ => false end); [|reflexivity].
    set (s3 := if staged _ =? 0 then _ else _).
    assert (E3 : inits s3 = inits s).
    { subst s3. unfold begin_session. cbn [next set_now]. destruct (next s); destruct (staged _ =? 0); reflexivity. }
    pose proof (pushed_ss s3) as P. destruct (send_staged s3) as [[s4 sent] i1]. cbn [fst snd o_init] in *.
    unfold pushed in *. rewrite <- E3. exact P.
  - reflexivity.
  - set (s0 := set_now s (now s + 1)). assert (E0 : inits s0 = inits s) by reflexivity.
    unfold pushed. rewrite <- E0. clearbody s0.
    unfold do_recv. destruct (assoc sid (sessions s0)); [|reflexivity].
    destruct (lookup n (table s0)) as [[|k]|]; try reflexivity.
    destruct (reject_after_time <? age s0 k); [reflexivity|].
    destruct (negb (id k =? sid)); [reflexivity|].
    assert (N1 : inits (fst (received_with s0 k)) = inits s0).
    { unfold received_with. destruct (next s0) as [n0|]; [|reflexivity]. destruct (id n0 =? id k); reflexivity. }
    destruct (received_with s0 k) as [s1 pr]. cbn [fst] in N1.
    destruct pr.
    + pose proof (pushed_ss (set_latch s1 false)) as P. pose proof (ss_last (set_latch s1 false)) as L.
      pose proof (now_send_staged (set_latch s1 false)) as T.
      destruct (send_staged (set_latch s1 false)) as [[s2 sent] i1]. cbn [fst snd inits set_latch] in *.
      pose proof (pushed_kkfr s2) as P2. pose proof (kkfr_limited s2) as K.
      destruct (keep_key_fresh_receiving s2) as [s3 i2]. cbn [fst snd o_init] in *. unfold pushed in *.
      destruct i1.
      * rewrite K in * by (apply rl_after; congruence). cbn [orb app] in P2 |- *. rewrite P2. rewrite <- N1. change (inits (set_latch s1 false)) with (inits s1) in P. exact P.
      * cbn [orb app] in P |- *. change (inits (set_latch s1 false)) with (inits s1) in P. rewrite <- N1, <- P. exact P2.
    + pose proof (pushed_kkfr s1) as P2. destruct (keep_key_fresh_receiving s1) as [s3 i2]. cbn [fst snd o_init orb] in *.
      unfold pushed in *. rewrite <- N1. exact P2.
  - unfold do_send, do_transmit. pose proof (pushed_ss (set_staged (set_now s (now s + 1)) (staged (set_now s (now s + 1)) + 1))) as P.
    destruct (send_staged _) as [[s1 sent] i]. cbn [fst snd o_init] in *. exact P.
  - reflexivity.
  - reflexivity.
  - reflexivity.
  - reflexivity.
  - unfold do_keepalive, do_transmit.
    pose proof (pushed_ss (set_staged (set_now s (now s + 1)) (if staged (set_now s (now s + 1)) =? 0 then 1 else staged (set_now s (now s + 1))))) as P.
    destruct (send_staged _) as [[s1 sent] i]. cbn [fst snd o_init] in *. exact P.
  - reflexivity.
Qed.

(* ---- spacing --------------------------------------------------------------------------------------------- *)

Definition since_rel (s : state) (ts : option N) : Prop :=
  match ts with
  | Some d => exists l, last_sent s = Some l /\ d * sec <= now s - l
  | None => last_sent s = None
  end.

Definition since_after (ts : option N) (e : event) (o : out) : option N :=
  let t0 := match e with Initiate true => None | _ => ts end in
  let since1 := match e with
                | Tick d => add_secs t0 (d / sec)
                | Restart => Some (t_spacing + 1)
                | _ => t0
                end in
  if o_init o || o_resp o then Some 0 else since1.

Lemma since_ok s ts e :
  Inv s -> restart_gap <= now s -> since_rel s ts -> tick_of e mod sec = 0 ->
  since_rel (fst (step s e)) (since_after ts e (snd (step s e))).
Proof.
  intros H Hg Hs Ht. pose proof (last_step s e) as L. pose proof (now_step s e) as T. cbn zeta in L.
  pose proof (I_last s H) as Hl.
  unfold since_after. destruct (o_init (snd (step s e)) || o_resp (snd (step s e))).
  - cbn [since_rel]. exists (now s + 1). split; [exact L|]. lia.
  - destruct e; cbn [tick_of] in *; cbv beta iota in L; try (destruct ts as [x|]; cbn [since_rel add_secs] in *;
      [destruct Hs as (l & El & Hle); rewrite El in *; cbn [opt_ok] in Hl; exists l; split; [exact L|rewrite T; lia]|congruence]).
    + destruct force.
      * cbn [since_rel]. exact L.
      * destruct ts as [x|]; cbn [since_rel] in *; [|congruence].
        destruct Hs as (l & El & Hle). rewrite El in *. cbn [opt_ok] in Hl. exists l. split; [exact L|rewrite T; lia].
    + cbn [since_rel]. exists (now s + 1 - restart_gap). split; [exact L|]. rewrite T.
      unfold restart_gap, t_spacing, sec in *. change RekeyTimeout with 5000000000 in *. cbn. lia.
Qed.

Lemma spaced_not_limited s ts :
  Inv s -> since_rel s ts ->
  match ts with None => true | Some d => t_spacing <=? d end = true ->
  rate_limited (set_now s (now s + 1)) = false.
Proof.
  intros H Hs Hsp. unfold rate_limited. cbn [last_sent now set_now]. pose proof (I_last s H) as Hl.
  destruct ts as [d|]; cbn [since_rel] in Hs.
  - destruct Hs as (l & -> & Hle). cbn [opt_ok] in Hl. apply N.leb_le in Hsp. apply N.ltb_ge.
    unfold t_spacing, rekey_timeout, sec in *. change RekeyTimeout with 5000000000 in *. cbn in Hsp. lia.
  - rewrite Hs. reflexivity.
Qed.

(* ---- the session map ------------------------------------------------------------------------------------- *)

(* events that derive no session: keys only disappear, the pending index stays or becomes fresh *)
Lemma sess_rel_shrink s s' ts :
  Inv s -> sess_rel s ts -> sessions s' = sessions s ->
  (forall k, In k (keys s') -> In k (keys s)) ->
  (hs s' = hs s \/ hs s' = None \/ exists j, hs s' = Some j /\ nidx s <= j) ->
  sess_rel s' ts.
Proof.
  intros H Hs Es Hk Hh sid. specialize (Hs sid). rewrite Es.
  destruct (assoc sid (sessions s)) as [i|] eqn:Ea; destruct (assoc sid ts) as [i'|]; try exact Hs.
  destruct Hs as [(-> & Hl & Hne)|(-> & Hn)].
  - left. split; [reflexivity|]. split; [intros k Hin; apply Hl, Hk, Hin|].
    destruct (I_sess s H sid i Ea) as [_ Hlt].
    destruct Hh as [->|[->|(j & -> & Hj)]]; [exact Hne|discriminate|]. intros E. inversion E. lia.
  - right. split; [reflexivity|]. intros k Hin. apply Hn, Hk, Hin.
Qed.

Lemma keys_sub s e :
  Inv s -> new_session s e = [] \/ (exists k r, e = Respond k r /\ o_acc (snd (step s e)) = false) ->
  forall k, In k (keys (fst (step s e))) -> In k (keys s).
Proof.
  intros H Hne k Hin. destruct e; cbn [new_session] in Hne.
  - rewrite (keys_same _ _ (same_slots_step s (Initiate force) I)) in Hin. exact Hin.
  - destruct (o_acc (snd (step s (Respond k0 r)))) eqn:Ea.
    + exfalso. destruct Hne as [Hne|(k1 & r1 & _ & Hf)]; [|congruence].
      unfold step in Ea. destruct (respond_rotates (set_now s (now s + 1)) k0 r (Inv_tick1 s H) Ea) as (i & En & _).
      cbn [inits set_now] in En. rewrite En in Hne. discriminate.
    + rewrite (keys_same _ _ (respond_refused_same s k0 r Ea)) in Hin. exact Hin.
  - destruct Hne as [Hne|(k1 & r1 & Hf & _)]; discriminate.
  - destruct (keys_step s (Recv sid) k H Hin) as [Hold|Hnew]; [exact Hold|].
    exfalso. unfold step in Hin.
    destruct (recv_slots (set_now s (now s + 1)) sid) as [Hs|(n & En & _ & _ & Ep & Ec & Enx)].
    + rewrite (keys_same _ _ Hs) in Hin.
      rewrite now_step in Hnew. cbn [tick_of] in Hnew.
      pose proof (I_prev s H) as Hp. pose proof (I_cur s H) as Hc. pose proof (I_next s H) as Hx.
      unfold keys in Hin. cbn [prev cur next set_now] in Hin.
      destruct (prev s), (cur s), (next s); cbn [opt_list app In opt_ok] in *; unfold kp_ok in *; intuition (subst; lia).
    + rewrite now_step in Hnew. cbn [tick_of] in Hnew.
      pose proof (I_cur s H) as Hc. pose proof (I_next s H) as Hx.
      unfold keys in Hin. rewrite Ep, Ec, Enx in Hin. cbn [cur next set_now] in *. rewrite En in Hx.
      destruct (cur s); cbn [opt_list app In opt_ok] in *; unfold kp_ok in *; intuition (subst; lia).
  - rewrite (keys_same _ _ (same_slots_step s Send I)) in Hin. exact Hin.
  - rewrite (keys_same _ _ (same_slots_step s (Tick d) I)) in Hin. exact Hin.
  - rewrite (keys_same _ _ (same_slots_step s (Forged sid) I)) in Hin. exact Hin.
  - rewrite (keys_same _ _ (same_slots_step s (Replay sid) I)) in Hin. exact Hin.
  - destruct Hin.
  - rewrite (keys_same _ _ (same_slots_step s Keepalive I)) in Hin. exact Hin.
  - rewrite (keys_same _ _ (same_slots_step s Abandon I)) in Hin. exact Hin.
Qed.

Lemma sess_rel_new s s' ts i_m i_s :
  Inv s -> sess_rel s ts -> sessions s' = (nsess s, i_m) :: sessions s ->
  (forall k, In k (keys s') -> In k (keys s) \/ (id k = nsess s /\ lidx k = i_m /\ (nidx s <= i_m \/ hs s = Some i_m))) ->
  (hs s' = hs s \/ hs s' = None \/ exists j, hs s' = Some j /\ nidx s <= j) ->
  ((i_s = i_m /\ (forall k, In k (keys s') -> lidx k = i_m -> id k = nsess s) /\ hs s' <> Some i_m)
   \/ (i_s = PH /\ forall k, In k (keys s') -> id k <> nsess s)) ->
  sess_rel s' ((nsess s, i_s) :: ts).
Proof.
  intros H Hs Es Hk Hh Hhead sid. rewrite Es, !assoc_cons.
  destruct (N.eqb_spec sid (nsess s)) as [->|Hne]; [exact Hhead|].
  specialize (Hs sid).
  destruct (assoc sid (sessions s)) as [i|] eqn:Ea; destruct (assoc sid ts) as [i'|]; try exact Hs.
  destruct (I_sess s H sid i Ea) as [Hsl Hlt].
  destruct Hs as [(-> & Hl & Hnh)|(-> & Hn)].
  - left. split; [reflexivity|]. split.
    + intros k Hin El. destruct (Hk k Hin) as [Hold|(Hid & Hli & Hf)]; [apply Hl; assumption|].
      exfalso. destruct Hf as [Hf|Hf]; [lia|]. apply Hnh. congruence.
    + destruct Hh as [->|[->|(j & -> & Hj)]]; [exact Hnh|discriminate|]. intros E. inversion E. lia.
  - right. split; [reflexivity|]. intros k Hin. destruct (Hk k Hin) as [Hold|(Hid & _)]; [apply Hn, Hold|]. lia.
Qed.

(* ---- clause 2: what is sent ---------------------------------------------------------------------------- *)

Lemma div_lt_reject a : a < reject_after_time -> a / sec <? t_reject = true.
Proof.
  intros H. apply N.ltb_lt. unfold t_reject, reject_after_time, sec in *. change RejectAfterTime with 180000000000 in *.
  apply N.div_lt_upper_bound; [lia|]. cbn. lia.
Qed.

Lemma c_sent_holds s' o tt conf :
  Inv s' ->
  (forall k, In k (keys s') -> assoc (id k) (t_sess tt) = Some (lidx k)) ->
  (forall k, cur s' = Some k -> initiator k = false -> In (lidx k) conf) ->
  (forall x, In x (o_sent o) -> exists k, cur s' = Some k /\ id k = x /\ now s' - created k < reject_after_time) ->
  c_sent tt conf (observe s' o) = true.
Proof.
  intros H Hk Hc Hs. unfold c_sent. apply forallb_forall. intros sid Hin. cbn [ob_sent observe] in Hin.
  destruct (Hs sid Hin) as (k & Ec & <- & Hage).
  assert (Hink : In k (keys s')) by (unfold keys; rewrite Ec; apply in_or_app; right; apply in_or_app; left; left; reflexivity).
  rewrite (Hk k Hink). cbn [ob_cur ob_next observe]. rewrite Ec. cbn [slot_of so_lidx so_age so_init].
  rewrite N.eqb_refl. unfold age. rewrite (div_lt_reject _ Hage). cbn [andb].
  assert (E1 : initiator k || memN (lidx k) conf = true).
  { destruct (initiator k) eqn:Ei; [reflexivity|]. cbn [orb]. apply memN_In, Hc; assumption. }
  rewrite E1. cbn [andb].
  destruct (next s') as [n|] eqn:En; cbn [slot_of slot_idx so_lidx]; [|reflexivity].
  assert (lidx k <> lidx n).
  { pose proof (I_idx s' H) as Hi. unfold keys in Hi. rewrite Ec, En in Hi.
    destruct (prev s'), (hs s'); cbn [opt_list map app alldiff In] in Hi; intuition congruence. }
  cbn [memN existsb]. destruct (N.eqb_spec (lidx k) (lidx n)); [contradiction|reflexivity].
Qed.

(* ---- clauses 7/15: a send (data or keepalive) -------------------------------------------------------------- *)

Lemma reject_iff_b g n :
  g mod sec <= n -> n + 2 < sec -> (reject_after_time <=? g + 1) = (t_reject <=? g / sec).
Proof.
  intros Hf Hn. unfold t_reject, reject_after_time, sec in *. change RejectAfterTime with 180000000000 in *.
  change (180000000000 / 1000000000) with 180.
  destruct (N.leb_spec 180000000000 (g + 1)); destruct (N.leb_spec 180 (g / 1000000000)); try reflexivity; exfalso; lia.
Qed.

Lemma rekey_iff_b g : (rekey_after_time <? g + 1) = (t_rekey <=? g / sec).
Proof.
  unfold t_rekey, rekey_after_time, sec. change RekeyAfterTime with 120000000000.
  change (120000000000 / 1000000000) with 120.
  destruct (N.ltb_spec 120000000000 (g + 1)); destruct (N.leb_spec 120 (g / 1000000000)); try reflexivity; exfalso; lia.
Qed.

Lemma c_send_holds s op e tt n :
  Inv s -> is_send e ->
  (forall k, In k (keys s) -> (now s - created k) mod sec <= n) -> n + 2 < sec ->
  (spaced tt = true -> rate_limited (set_now s (now s + 1)) = false) ->
  c_send tt (observe s op) (observe (fst (step s e)) (snd (step s e))) = true.
Proof.
  intros H He Hf Hn Hsp. destruct (step_transmit s e He) as [-> Hm].
  pose proof (transmit_cases (set_now s (now s + 1)) (pending s e) Hm) as [A _]. cbn [cur set_now] in A.
  set (s' := fst (do_transmit (set_now s (now s + 1)) (pending s e))) in *.
  set (o := snd (do_transmit (set_now s (now s + 1)) (pending s e))) in *.
  unfold c_send, expired. cbn [ob_cur ob_sent ob_init observe].
  assert (Ei : is_some (if o_init o then Some (hd 0 (inits s')) else None) = o_init o) by (destruct (o_init o); reflexivity).
  rewrite Ei.
  destruct (cur s) as [k|] eqn:Ec; cbn [slot_of so_age so_init].
  - assert (Hink : In k (keys s)) by (unfold keys; rewrite Ec; apply in_or_app; right; apply in_or_app; left; left; reflexivity).
    pose proof (I_cur s H) as Hck. rewrite Ec in Hck. cbn [opt_ok] in Hck. destruct Hck as (_ & _ & Hle & _).
    unfold age in *. cbn [now set_now] in A.
    replace (now s + 1 - created k) with (now s - created k + 1) in A by lia.
    rewrite (reject_iff_b _ n (Hf k Hink) Hn), rekey_iff_b in A.
    destruct (t_reject <=? (now s - created k) / sec).
    + destruct A as (-> & Ai & _). rewrite Ai. destruct (spaced tt); [rewrite Hsp; reflexivity|reflexivity].
    + destruct A as (-> & _ & Ai). rewrite Ai.
      assert (Hne : match repeat (id k) (N.to_nat (pending s e)) with [] => false | _ => true end = true).
      { destruct (N.to_nat (pending s e)) eqn:E; [lia|reflexivity]. }
      rewrite Hne. cbn [andb].
      destruct (initiator k && (t_rekey <=? (now s - created k) / sec)); cbn [andb].
      * destruct (spaced tt); [rewrite Hsp; reflexivity|]. destruct (negb _); reflexivity.
      * reflexivity.
  - destruct A as (-> & Ai & _). rewrite Ai. destruct (spaced tt); [rewrite Hsp; reflexivity|reflexivity].
Qed.

(* ---- sstep, field by field ----------------------------------------------------------------------------------- *)

Definition new_spec (t : sst) (e : event) (a : obs) : list (N * N) :=
  match e with
  | CompleteResponder _ =>
      match ob_next a with Some n => [(t_nsess t, so_lidx n)] | None => [(t_nsess t, 4294967295)] end
  | Respond k _ =>
      match nth_error (t_inits t) k with
      | Some i => [(t_nsess t, if completed_as_initiator (t_before t) a i then i else 4294967295)]
      | None => []
      end
  | _ => []
  end.

Definition completed_spec (t : sst) (e : event) (a : obs) : bool :=
  match e with
  | Respond k _ => match nth_error (t_inits t) k with Some i => completed_as_initiator (t_before t) a i | None => false end
  | _ => false
  end.

Definition conf_spec (t : sst) (e : event) (a : obs) : list N :=
  match e with
  | Recv sid => if ob_tun a then (match assoc sid (new_spec t e a ++ t_sess t) with Some i => [i] | None => [] end) ++ t_conf t else t_conf t
  | _ => t_conf t
  end.

Definition since0 (t : sst) (e : event) : option N :=
  match e with Initiate true => None | _ => t_since t end.

Definition since_spec (t : sst) (e : event) (a : obs) : option N :=
  let since1 := match e with
                | Tick d => add_secs (since0 t e) (d / sec)
                | Restart => Some (t_spacing + 1)
                | _ => since0 t e
                end in
  if is_some (ob_init a) || ob_resp a then Some 0 else since1.

Definition latch_spec (t : sst) (e : event) (a : obs) : bool :=
  let b := t_before t in
  let promoted := match e with Recv _ => is_some (ob_next b) && negb (is_some (ob_next a)) | _ => false end in
  let restarted := match e with Restart => true | _ => false end in
  let latch1 := if completed_spec t e a || promoted || restarted then false else t_latch t in
  match e, ob_cur a with
  | Recv _, Some c => if ob_tun a && so_init c && (t_rekey_recv <=? so_age c) then true else latch1
  | _, _ => latch1
  end.

(* the checker state the clauses see: new sessions known, spacing as before the event (forced: none) *)
Definition t1_spec (t : sst) (e : event) (a : obs) : sst :=
  mkSst (new_spec t e a ++ t_sess t) (t_nsess t + N.of_nat (length (new_spec t e a))) (t_inits t)
        (since0 t e) (t_latch t) (t_conf t) (t_before t).

Definition clauses_spec (t : sst) (e : event) (a : obs) : list (N * bool) :=
  let b := t_before t in
  let t1 := t1_spec t e a in
  [(1, c_table a); (2, c_sent t1 (conf_spec t e a) a)] ++
  match e with
  | CompleteResponder _ => [(3, c_responder b a)]
  | Respond _ _ => if completed_spec t e a then [(4, c_initiator b a)] else [(5, c_frame b a)]
  | Recv sid => [(6, c_recv t1 b a sid)]
  | Send => [(7, c_send t1 b a); (8, c_frame b a)]
  | Initiate _ => [(9, c_frame b a)]
  | Tick _ => [(10, c_frame b a); (11, match ob_sent a with [] => true | _ => false end && negb (is_some (ob_init a)))]
  | Forged _ => [(12, c_inert b a)]
  | Replay _ => [(13, c_inert b a)]
  | Restart => [(14, c_restart a)]
  | Keepalive => [(15, c_send t1 b a); (16, c_frame b a)]
  | Abandon => [(17, c_inert b a)]
  end.

Lemma sstep_eq t e a :
  sstep t (e, a) =
  (mkSst (new_spec t e a ++ t_sess t) (t_nsess t + N.of_nat (length (new_spec t e a)))
         (optN_list (ob_init a) ++ t_inits t) (since_spec t e a) (latch_spec t e a) (conf_spec t e a) a,
   first_false (clauses_spec t e a)).
Proof. destruct e as [[|]| | | | | | | | | |]; reflexivity. Qed.

Lemma is_some_init s' o : is_some (ob_init (observe s' o)) = o_init o.
Proof. cbn. destruct (o_init o); reflexivity. Qed.

Lemma since_spec_eq t e s' o : since_spec t e (observe s' o) = since_after (t_since t) e o.
Proof. unfold since_spec, since_after, since0. rewrite is_some_init. reflexivity. Qed.

Lemma rel_after pre t n e :
  let s := R pre in
  let s' := fst (step s e) in let o := snd (step s e) in let a := observe s' o in
  Rel s t n -> n + 2 < sec -> tick_of e mod sec = 0 ->
  length (new_spec t e a) = length (new_session s e) ->
  sess_rel s' (new_spec t e a ++ t_sess t) ->
  (forall k, cur s' = Some k -> initiator k = false -> In (lidx k) (conf_spec t e a)) ->
  latch_spec t e a = latch s' ->
  Rel s' (fst (sstep t (e, a))) (n + 1).
Proof.
  intros s s' o a HR Hn Ht Hlen Hsess Hconf Hlatch.
  pose proof (Inv_R pre) as H. fold s in H.
  rewrite sstep_eq. cbn [fst]. constructor; cbn [t_before t_nsess t_inits t_latch t_since t_sess t_conf].
  - exists o. reflexivity.
  - rewrite Hlen, (R_nsess s t n HR). symmetry. apply sessions_step.
  - rewrite (R_inits s t n HR). pose proof (inits_step s e) as P. unfold pushed in P. fold s' o in P. rewrite P.
    subst a. cbn [ob_init observe]. destruct (o_init o); reflexivity.
  - exact Hlatch.
  - subst a. rewrite since_spec_eq. apply (since_ok s (t_since t) e H (R_now s t n HR) (R_since s t n HR) Ht).
  - exact Hsess.
  - exact Hconf.
  - pose proof (nidx_step s e). pose proof (R_cnt s t n HR). fold s' in H0. lia.
  - pose proof (now_step s e). pose proof (R_now s t n HR). fold s' in H0. lia.
  - apply (frac_preserved s e n H (R_frac s t n HR) Hn Ht).
Qed.

Lemma clause12 pre t n e :
  let s := R pre in
  let s' := fst (step s e) in let o := snd (step s e) in let a := observe s' o in
  Rel s' (fst (sstep t (e, a))) (n + 1) ->
  c_table a = true /\ c_sent (t1_spec t e a) (conf_spec t e a) a = true.
Proof.
  intros s s' o a HR'.
  assert (H' : Inv s') by (subst s' s; rewrite <- R_snoc; apply Inv_R).
  split.
  - apply c_table_holds; [exact H'|apply ND_R_snoc].
  - apply c_sent_holds; [exact H'| | |].
    + intros k Hin. pose proof (rel_key_sess s' _ _ k H' HR' Hin) as E. rewrite sstep_eq in E. exact E.
    + intros k Hc Hi. pose proof (R_conf s' _ _ HR' k Hc Hi) as E. rewrite sstep_eq in E. exact E.
    + intros x Hx. apply (sends_under_current s e x (Inv_R pre) Hx).
Qed.

Definition ok (pre : list event) (t : sst) (n : N) (e : event) : Prop :=
  let s := R pre in
  let s' := fst (step s e) in let o := snd (step s e) in let a := observe s' o in
  first_false (clauses_spec t e a) = 0 /\ Rel s' (fst (sstep t (e, a))) (n + 1).

(* latch untouched by sending *)
Lemma latch_ss s : latch (fst (fst (send_staged s))) = latch s.
Proof.
  unfold send_staged. destruct (staged s =? 0); [reflexivity|].
  destruct (cur s) as [k|].
  - destruct (reject_after_time <=? age s k).
    + destruct (send_initiation_spec s) as (_ & _ & L & _). destruct (send_initiation s); exact L.
    + destruct (initiator k && (rekey_after_time <? age s k)).
      * destruct (send_initiation_spec (set_staged s 0)) as (_ & _ & L & _). destruct (send_initiation (set_staged s 0)); exact L.
      * reflexivity.
  - destruct (send_initiation_spec s) as (_ & _ & L & _). destruct (send_initiation s); exact L.
Qed.

Definition simple_event (e : event) : Prop :=
  match e with Initiate _ | Send | Keepalive | Tick _ | Forged _ | Replay _ | Abandon => True | _ => False end.

Lemma latch_simple s e : simple_event e -> latch (fst (step s e)) = latch s.
Proof.
  unfold step. destruct e; intros He; try contradiction.
  - unfold do_initiate.
    destruct (send_initiation_spec (if force then set_last_sent (set_now s (now s + 1)) None else set_now s (now s + 1))) as (_ & _ & L & _).
    destruct (send_initiation _). cbn [fst] in *. rewrite L. destruct force; reflexivity.
  - unfold do_send, do_transmit. pose proof (latch_ss (set_staged (set_now s (now s + 1)) (staged (set_now s (now s + 1)) + 1))) as L.
    destruct (send_staged _) as [[s1 sent] i]. exact L.
  - reflexivity.
  - reflexivity.
  - reflexivity.
  - unfold do_keepalive, do_transmit.
    pose proof (latch_ss (set_staged (set_now s (now s + 1)) (if staged (set_now s (now s + 1)) =? 0 then 1 else staged (set_now s (now s + 1))))) as L.
    destruct (send_staged _) as [[s1 sent] i]. exact L.
  - reflexivity.
Qed.

(* Rel after an event that derives no session and promotes nothing (simple events and Restart) *)
Lemma rel_simple pre t n e :
  let s := R pre in
  let s' := fst (step s e) in let o := snd (step s e) in let a := observe s' o in
  Rel s t n -> n + 2 < sec -> tick_of e mod sec = 0 ->
  simple_event e \/ e = Restart ->
  Rel s' (fst (sstep t (e, a))) (n + 1).
Proof.
  intros s s' o a HR Hn Ht He.
  pose proof (Inv_R pre) as H. subst a o s' s.
  set (s := R pre) in *. set (a := observe (fst (step s e)) (snd (step s e))).
  assert (Hns : new_session s e = []) by (destruct He as [He| ->]; [destruct e; try contradiction; reflexivity|reflexivity]).
  assert (Hnp : new_spec t e a = []) by (destruct He as [He| ->]; [destruct e; try contradiction; reflexivity|reflexivity]).
  assert (Hcf : conf_spec t e a = t_conf t) by (destruct He as [He| ->]; [destruct e; try contradiction; reflexivity|reflexivity]).
  apply rel_after; try assumption.
  all: fold s; fold a.
  - rewrite Hnp, Hns. reflexivity.
  - rewrite Hnp. cbn [app]. apply (sess_rel_shrink s _ (t_sess t) H (R_sess s t n HR)).
    + pose proof (sessions_step s e) as [A _]. rewrite Hns in A. exact A.
    + apply keys_sub; [exact H|left; exact Hns].
    + apply hs_step.
  - rewrite Hcf. intros k Hc Hi. apply (R_conf s t n HR k); [|exact Hi].
    destruct He as [He| ->]; [|discriminate Hc].
    destruct (same_slots_step s e ltac:(destruct e; auto)) as (_ & B & _). congruence.
  - destruct He as [He| ->].
    + rewrite (latch_simple s e He). rewrite <- (R_latch s t n HR). destruct e; try contradiction; reflexivity.
    + reflexivity.
Qed.

Lemma ok_simple pre t n e :
  Rel (R pre) t n -> n + 2 < sec -> tick_of e mod sec = 0 ->
  simple_event e \/ e = Restart -> ok pre t n e.
Proof.
  intros HR Hn Ht He. unfold ok. cbv zeta.
  pose proof (rel_simple pre t n e HR Hn Ht He) as HR'. cbv zeta in HR'.
  split; [|exact HR'].
  destruct (clause12 pre t n e HR') as [C1 C2].
  pose proof (Inv_R pre) as H.
  destruct (R_before _ _ _ HR) as (op & Eb).
  set (s := R pre) in *. set (a := observe (fst (step s e)) (snd (step s e))) in *.
  apply first_false_all. intros p Hp. unfold clauses_spec in Hp. rewrite Eb in Hp.
  apply in_app_or in Hp. destruct Hp as [[<-|[<-|[]]]|Hp]; [exact C1|exact C2|].
  assert (Hfr : simple_event e -> c_frame (observe s op) a = true).
  { intros Hs. apply frame_of_same, same_slots_step. destruct e; auto. }
  destruct He as [He| ->].
  - destruct e; try contradiction; cbn [In] in Hp.
    + destruct Hp as [<-|[]]. apply Hfr, I.
    + destruct Hp as [<-|[<-|[]]]; [|apply Hfr, I].
      apply (c_send_holds s op Send _ n H (or_introl eq_refl) (R_frac _ _ _ HR) Hn).
      intros Hsp. apply (spaced_not_limited s (t_since t) H (R_since _ _ _ HR)). exact Hsp.
    + destruct Hp as [<-|[<-|[]]]; [apply Hfr, I|reflexivity].
    + destruct Hp as [<-|[]]. apply c_inert_holds, I.
    + destruct Hp as [<-|[]]. apply c_inert_holds, I.
    + destruct Hp as [<-|[<-|[]]]; [|apply Hfr, I].
      apply (c_send_holds s op Keepalive _ n H (or_intror eq_refl) (R_frac _ _ _ HR) Hn).
      intros Hsp. apply (spaced_not_limited s (t_since t) H (R_since _ _ _ HR)). exact Hsp.
    + destruct Hp as [<-|[]]. apply c_inert_holds, I.
  - cbn [In] in Hp. destruct Hp as [<-|[]]. apply c_restart_holds, H.
Qed.

(* ---- completion as responder ---------------------------------------------------------------------------------- *)

Lemma key_bounds s k : Inv s -> In k (keys s) -> lidx k < nidx s /\ id k < nsess s.
Proof.
  intros H. pose proof (I_prev s H) as Hp. pose proof (I_cur s H) as Hc. pose proof (I_next s H) as Hn.
  unfold keys. destruct (prev s), (cur s), (next s); cbn [opt_list app In opt_ok] in *; unfold kp_ok in *;
    intuition (subst; auto).
Qed.

Lemma ok_cr pre t n r :
  Rel (R pre) t n -> n + 2 < sec -> ok pre t n (CompleteResponder r).
Proof.
  intros HR Hn. unfold ok. cbv zeta.
  pose proof (Inv_R pre) as H.
  destruct (responder_installs_unconfirmed pre r) as (En & Ec & Ep & Es & Er & Ei & Hp & Hnx & _ & _ & Eh).
  destruct (R_before _ _ _ HR) as (op & Eb).
  set (s := R pre) in *. set (e := CompleteResponder r) in *.
  set (a := observe (fst (step s e)) (snd (step s e))).
  assert (Hnp : new_spec t e a = [(nsess s, nidx s)]).
  { unfold new_spec, e, a. cbn [ob_next observe]. rewrite En. cbn [slot_of so_lidx lidx]. rewrite (R_nsess _ _ _ HR). reflexivity. }
  assert (HR' : Rel (fst (step s e)) (fst (sstep t (e, a))) (n + 1)).
  { apply rel_after; try assumption; [reflexivity| | | |]; fold s; fold e; fold a.
    - rewrite Hnp. reflexivity.
    - rewrite Hnp. cbn [app]. apply (sess_rel_new s _ (t_sess t) (nidx s) (nidx s) H (R_sess _ _ _ HR)).
      + apply (sessions_step s e).
      + intros k Hin. unfold keys in Hin. rewrite Ep, Ec, En in Hin. cbn [opt_list app] in Hin.
        apply in_app_or in Hin. destruct Hin as [Hin|[<-|[]]].
        * left. unfold keys. apply in_or_app. right. apply in_or_app. left. exact Hin.
        * right. cbn [id lidx]. repeat split. left. lia.
      + right. left. exact Eh.
      + left. split; [reflexivity|]. split; [|rewrite Eh; discriminate].
        intros k Hin El. unfold keys in Hin. rewrite Ep, Ec, En in Hin. cbn [opt_list app] in Hin.
        apply in_app_or in Hin. destruct Hin as [Hin|[<-|[]]]; [|reflexivity].
        exfalso. assert (Hink : In k (keys s)) by (unfold keys; apply in_or_app; right; apply in_or_app; left; exact Hin).
        destruct (key_bounds s k H Hink). lia.
    - intros k Hc Hi. apply (R_conf _ _ _ HR k); [congruence|exact Hi].
    - unfold latch_spec, e. cbn [completed_spec orb]. rewrite (R_latch _ _ _ HR). reflexivity. }
  split; [|exact HR'].
  destruct (clause12 pre t n e HR') as [C1 C2]. fold s in C1, C2. fold a in C1, C2.
  apply first_false_all. intros p Hp'. unfold clauses_spec in Hp'. rewrite Eb in Hp'.
  apply in_app_or in Hp'. destruct Hp' as [[<-|[<-|[]]]|Hp']; [exact C1|exact C2|].
  cbn [e In] in Hp'. destruct Hp' as [<-|[]]. apply (c_responder_holds pre op r).
Qed.

(* ---- a response ----------------------------------------------------------------------------------------------- *)

Lemma respond_latch s k r :
  latch (fst (step s (Respond k r))) = if o_acc (snd (step s (Respond k r))) then false else latch s.
Proof.
  unfold step, do_respond. cbn [inits set_now table hs]. destruct (nth_error (inits s) k); [|reflexivity].
  destruct (match lookup n (table s) with Some Hs => match hs s with Some h => h =? n | None => false end | _ => false end); [|reflexivity].
  set (s3 := if staged _ =? 0 then _ else _).
  assert (E3 : latch s3 = false). { subst s3. destruct (staged _ =? 0); reflexivity. }
  pose proof (latch_ss s3) as L. destruct (send_staged s3) as [[s4 sent] i1]. cbn [fst snd o_acc] in *. congruence.
Qed.

Lemma respond_refused_hs s k r :
  o_acc (snd (step s (Respond k r))) = false -> hs (fst (step s (Respond k r))) = hs s.
Proof.
  unfold step, do_respond. cbn [inits set_now table hs]. destruct (nth_error (inits s) k); [|reflexivity].
  destruct (match lookup n (table s) with Some Hs => match hs s with Some h => h =? n | None => false end | _ => false end); [|reflexivity].
  destruct (send_staged _) as [[s4 sent] i1]. cbn. discriminate.
Qed.

Lemma ok_respond pre t n k r :
  Rel (R pre) t n -> n + 2 < sec -> ok pre t n (Respond k r).
Proof.
  intros HR Hn. unfold ok. cbv zeta.
  pose proof (Inv_R pre) as H.
  destruct (R_before _ _ _ HR) as (op & Eb).
  set (s := R pre) in *. set (e := Respond k r) in *.
  set (a := observe (fst (step s e)) (snd (step s e))).
  pose proof (respond_latch s k r) as HL. fold e in HL.
  assert (Hcs : completed_spec t e a = match nth_error (inits s) k with Some _ => o_acc (snd (step s e)) | None => false end).
  { unfold completed_spec, e. rewrite (R_inits _ _ _ HR), Eb. destruct (nth_error (inits s) k) as [i|] eqn:En; [|reflexivity].
    apply (completed_iff pre k r i op En). }
  assert (Hnone : nth_error (inits s) k = None -> o_acc (snd (step s e)) = false).
  { intros En. unfold e, step, do_respond. cbn [inits set_now]. rewrite En. reflexivity. }
  destruct (o_acc (snd (step s e))) eqn:Ea.
  - (* accepted *)
    destruct (initiator_completion_rotates pre k r Ea) as (i & En & Eh & Ec & Enx & Ep & _ & _ & _ & Eh' & _ & _).
    fold s in En, Eh, Ec, Enx, Ep, Eh'. fold e in Ec, Enx, Ep, Eh'.
    assert (Hnp : new_spec t e a = [(nsess s, i)]).
    { unfold new_spec, e. rewrite (R_inits _ _ _ HR), En, Eb, (R_nsess _ _ _ HR).
      pose proof (completed_iff pre k r i op En) as C. fold s e a in C. rewrite C, Ea. reflexivity. }
    assert (HR' : Rel (fst (step s e)) (fst (sstep t (e, a))) (n + 1)).
    { apply rel_after; try assumption; [reflexivity| | | |]; fold s; fold e; fold a.
      - rewrite Hnp. unfold new_session, e. rewrite En. reflexivity.
      - rewrite Hnp. cbn [app]. apply (sess_rel_new s _ (t_sess t) i i H (R_sess _ _ _ HR)).
        + pose proof (sessions_step s e) as [A _]. unfold new_session, e in A. rewrite En in A. exact A.
        + intros k0 Hin. unfold keys in Hin. rewrite Ep, Ec, Enx in Hin. unfold rotated_in in Hin. cbn [opt_list app] in Hin.
          apply in_app_or in Hin. destruct Hin as [Hin|Hin].
          * left. unfold keys. destruct (next s) as [nx|]; cbn [opt_list In] in Hin.
            -- destruct Hin as [<-|[]]. apply in_or_app. right. apply in_or_app. right. left. reflexivity.
            -- apply in_or_app. right. apply in_or_app. left. exact Hin.
          * destruct Hin as [<-|[]]. right. cbn [id lidx]. auto.
        + right. left. exact Eh'.
        + left. split; [reflexivity|]. split; [|rewrite Eh'; discriminate].
          intros k0 Hin El. unfold keys in Hin. rewrite Ep, Ec, Enx in Hin. unfold rotated_in in Hin. cbn [opt_list app] in Hin.
          apply in_app_or in Hin. destruct Hin as [Hin|Hin]; [|destruct Hin as [<-|[]]; reflexivity].
          exfalso. pose proof (I_idx s H) as Hi. unfold keys in Hi. rewrite Eh in Hi.
          destruct (prev s) as [p|], (cur s) as [c|], (next s) as [nx|]; cbn [opt_list map app alldiff In] in *;
            repeat (destruct Hin as [Hin|Hin]); try contradiction; subst; intuition lia.
      - intros k0 Hc Hi. rewrite Ec in Hc. inversion Hc; subst k0. discriminate Hi.
      - unfold latch_spec. rewrite Hcs, En. cbn [orb]. unfold e at 1. rewrite HL. reflexivity. }
    split; [|exact HR'].
    destruct (clause12 pre t n e HR') as [C1 C2]. fold s in C1, C2. fold a in C1, C2.
    apply first_false_all. intros p Hp'. unfold clauses_spec in Hp'. rewrite Eb in Hp'.
    apply in_app_or in Hp'. destruct Hp' as [[<-|[<-|[]]]|Hp']; [exact C1|exact C2|].
    unfold e at 1 in Hp'. rewrite Hcs, En in Hp'. cbn [In] in Hp'. destruct Hp' as [<-|[]].
    apply (c_initiator_holds pre op k r Ea).
  - (* refused, or nothing to answer *)
    pose proof (respond_refused_same s k r Ea) as Hss. fold e in Hss.
    pose proof (respond_refused_hs s k r Ea) as Hhs. fold e in Hhs.
    assert (HR' : Rel (fst (step s e)) (fst (sstep t (e, a))) (n + 1)).
    { apply rel_after; try assumption; [reflexivity| | | |]; fold s; fold e; fold a.
      - unfold new_spec, new_session, e. rewrite (R_inits _ _ _ HR). destruct (nth_error (inits s) k); reflexivity.
      - unfold new_spec, e. rewrite (R_inits _ _ _ HR), Eb.
        destruct (nth_error (inits s) k) as [i|] eqn:En.
        + pose proof (completed_iff pre k r i op En) as C. fold s e a in C. rewrite C, Ea, (R_nsess _ _ _ HR). cbn [app].
          apply (sess_rel_new s _ (t_sess t) i PH H (R_sess _ _ _ HR)).
          * pose proof (sessions_step s e) as [A _]. unfold new_session, e in A. rewrite En in A. exact A.
          * intros k0 Hin. left. rewrite <- (keys_same _ _ Hss). exact Hin.
          * left. exact Hhs.
          * right. split; [reflexivity|]. intros k0 Hin.
            assert (Hin' : In k0 (keys s)) by (rewrite <- (keys_same _ _ Hss); exact Hin).
            destruct (key_bounds s k0 H Hin'). lia.
        + cbn [app]. apply (sess_rel_shrink s _ (t_sess t) H (R_sess _ _ _ HR)).
          * pose proof (sessions_step s e) as [A _]. unfold new_session, e in A. rewrite En in A. exact A.
          * intros k0 Hin. rewrite <- (keys_same _ _ Hss). exact Hin.
          * left. exact Hhs.
      - intros k0 Hc Hi. apply (R_conf _ _ _ HR k0); [|exact Hi]. destruct Hss as (_ & B & _). congruence.
      - unfold latch_spec. rewrite Hcs. unfold e at 1. rewrite HL, (R_latch _ _ _ HR).
        destruct (nth_error (inits s) k); reflexivity. }
    split; [|exact HR'].
    destruct (clause12 pre t n e HR') as [C1 C2]. fold s in C1, C2. fold a in C1, C2.
    apply first_false_all. intros p Hp'. unfold clauses_spec in Hp'. rewrite Eb in Hp'.
    apply in_app_or in Hp'. destruct Hp' as [[<-|[<-|[]]]|Hp']; [exact C1|exact C2|].
    unfold e at 1 in Hp'. rewrite Hcs in Hp'.
    assert (Hp2 : In p [(5, c_frame (observe s op) a)]) by (destruct (nth_error (inits s) k); exact Hp').
    destruct Hp2 as [<-|[]]. apply frame_of_same, Hss.
Qed.

(* ---- receiving: the cases ---------------------------------------------------------------------------------------- *)

Lemma recv_wrong_key s sid i :
  Inv s -> assoc sid (sessions s) = Some i -> (forall k, In k (keys s) -> id k <> sid) -> do_recv s sid = (s, out0).
Proof.
  intros H Ea Hn. unfold do_recv. rewrite Ea.
  destruct (lookup i (table s)) as [[|k]|] eqn:El; try reflexivity.
  destruct (table_kp_in_keys s i k H El) as [Hin _].
  destruct (reject_after_time <? age s k); [reflexivity|].
  destruct (N.eqb_spec (id k) sid) as [E|]; [exfalso; exact (Hn k Hin E)|reflexivity].
Qed.

Definition recv_due (s : state) : bool :=
  negb (latch s) && match cur s with Some c => initiator c && (rekey_recv_time <? age s c) | None => false end.

Lemma kkfr_spec s :
  snd (keep_key_fresh_receiving s) = recv_due s && negb (rate_limited s) /\
  latch (fst (keep_key_fresh_receiving s)) = latch s || recv_due s.
Proof.
  unfold keep_key_fresh_receiving, recv_due. destruct (latch s) eqn:El; [split; cbn; [reflexivity|exact El]|]. cbn [negb andb orb].
  destruct (cur s) as [k|]; [|split; cbn; [reflexivity|exact El]].
  destruct (initiator k && (rekey_recv_time <? age s k)); [|split; cbn; [reflexivity|exact El]].
  destruct (send_initiation_spec (set_latch s true)) as (A & _ & L & _). rewrite A, L. split; reflexivity.
Qed.

Lemma recv_plain s k :
  Inv s -> In k (keys s) -> age s k <= reject_after_time -> next s <> Some k ->
  let s' := fst (do_recv s (id k)) in let o := snd (do_recv s (id k)) in
  same_slots s s' /\ o_acc o = true /\ o_tun o = true /\ o_sent o = [] /\
  o_init o = recv_due s && negb (rate_limited s) /\ latch s' = latch s || recv_due s.
Proof.
  intros H Hin Hage Hnx. unfold do_recv.
  destruct (key_session s k H Hin) as [-> _]. rewrite (key_lookup s k H Hin).
  destruct (N.ltb_spec reject_after_time (age s k)); [lia|]. rewrite N.eqb_refl. cbn [negb].
  destruct (received_with_cases s k) as [->|(n & En & Hid & _)].
  - pose proof (slots_kkfr s) as Hs. destruct (kkfr_spec s) as [A B].
    destruct (keep_key_fresh_receiving s) as [s3 i2]. cbn [fst snd o_acc o_tun o_sent o_init orb] in *. split; [exact Hs|]. repeat split; assumption.
  - exfalso. apply Hnx. rewrite En. f_equal.
    assert (Hinn : In n (keys s)) by (unfold keys; rewrite En; apply in_or_app; right; apply in_or_app; right; left; reflexivity).
    apply (alldiff_map_inj id (keys s) n k (I_ids s H) Hinn Hin Hid).
Qed.

Lemma recv_promoted_more s n :
  Inv s -> next s = Some n -> age s n <= reject_after_time ->
  let s' := fst (do_recv s (id n)) in let o := snd (do_recv s (id n)) in
  latch s' = false /\ (age s n < reject_after_time -> o_init o = false).
Proof.
  intros H En Hage.
  assert (Hin : In n (keys s)) by (unfold keys; rewrite En; apply in_or_app; right; apply in_or_app; right; left; reflexivity).
  unfold do_recv. destruct (key_session s n H Hin) as [-> _]. rewrite (key_lookup s n H Hin).
  destruct (N.ltb_spec reject_after_time (age s n)); [lia|]. rewrite N.eqb_refl. cbn [negb].
  unfold received_with. rewrite En, N.eqb_refl.
  set (s1 := set_keys s (cur s) (Some n) None (delete_kp (prev s) (table s)) (hs s)).
  pose proof (I_next s H) as Hn. rewrite En in Hn. cbn [opt_ok] in Hn. destruct Hn as [_ Hni].
  assert (Hss : latch (fst (fst (send_staged (set_latch s1 false)))) = false /\
                cur (fst (fst (send_staged (set_latch s1 false)))) = Some n /\
                (age s n < reject_after_time -> snd (send_staged (set_latch s1 false)) = false)).
  { split; [rewrite latch_ss; reflexivity|]. split; [destruct (slots_send_staged (set_latch s1 false)) as (_ & B & _); exact B|].
    intros Hlt. unfold send_staged. cbn [staged set_latch cur]. subst s1. cbn [staged set_keys cur].
    destruct (staged s =? 0); [reflexivity|].
    change (age (set_latch (set_keys s (cur s) (Some n) None (delete_kp (prev s) (table s)) (hs s)) false) n) with (age s n).
    destruct (N.leb_spec reject_after_time (age s n)); [lia|]. rewrite Hni. reflexivity. }
  destruct (send_staged (set_latch s1 false)) as [[s2 sent] i1]. cbn [fst snd] in Hss. destruct Hss as (L2 & C2 & I1).
  destruct (kkfr_spec s2) as [A B]. unfold recv_due in A, B. rewrite L2, C2, Hni in A, B. cbn [negb andb orb] in A, B.
  destruct (keep_key_fresh_receiving s2) as [s3 i2]. cbn [fst snd o_init] in *.
  split; [exact B|]. intros Hlt. rewrite (I1 Hlt), A. reflexivity.
Qed.

(* the slot the checker finds for an index *)
Definition key_at (s : state) (j : N) : option kp :=
  let f o := match o with Some k => lidx k =? j | None => false end in
  if f (next s) then next s else if f (cur s) then cur s else if f (prev s) then prev s else None.

Lemma slot_with_observe s op j : slot_with (observe s op) j = slot_of s (key_at s j).
Proof.
  unfold slot_with, key_at. cbn [ob_next ob_cur ob_prev observe].
  destruct (next s) as [n|]; cbn [slot_of so_lidx]; [destruct (lidx n =? j); [reflexivity|]|];
  (destruct (cur s) as [c|]; cbn [slot_of so_lidx]; [destruct (lidx c =? j); [reflexivity|]|]);
  (destruct (prev s) as [p|]; cbn [slot_of so_lidx]; [destruct (lidx p =? j); reflexivity|reflexivity]).
Qed.

Lemma key_at_some s j k : key_at s j = Some k -> In k (keys s) /\ lidx k = j.
Proof.
  unfold key_at, keys.
  destruct (next s) as [n|], (cur s) as [c|], (prev s) as [p|]; cbn [opt_list app In];
    repeat match goal with |- context [lidx ?x =? j] => destruct (N.eqb_spec (lidx x) j) end;
    intros E; inversion E; subst; split; auto 6.
Qed.

Lemma key_at_none s j : key_at s j = None -> forall k, In k (keys s) -> lidx k <> j.
Proof.
  unfold key_at, keys. intros E k Hin.
  destruct (next s) as [n|], (cur s) as [c|], (prev s) as [p|]; cbn [opt_list app In] in Hin;
    repeat match type of E with context [lidx ?x =? j] => destruct (N.eqb_spec (lidx x) j) end;
    try discriminate; intuition (subst; auto).
Qed.

Lemma key_at_next s j n : next s = Some n -> lidx n = j -> key_at s j = Some n.
Proof. intros En El. unfold key_at. rewrite En, El, N.eqb_refl. reflexivity. Qed.

(* time equivalences between the model's nanoseconds and the checker's whole seconds *)
Lemma reject_lt_iff g : (reject_after_time <? g + 1) = (t_reject <=? g / sec).
Proof.
  unfold t_reject, reject_after_time, sec. change RejectAfterTime with 180000000000.
  change (180000000000 / 1000000000) with 180.
  destruct (N.ltb_spec 180000000000 (g + 1)); destruct (N.leb_spec 180 (g / 1000000000)); try reflexivity; exfalso; lia.
Qed.

Lemma recv_time_iff g n :
  g mod sec <= n -> n + 2 < sec -> (rekey_recv_time <? g + 1) = (t_rekey_recv <=? (g + 1) / sec).
Proof.
  intros Hf Hn. unfold t_rekey_recv, rekey_recv_time, sec in *.
  change (RejectAfterTime - KeepaliveTimeout - RekeyTimeout) with 165000000000.
  change (165000000000 / 1000000000) with 165.
  destruct (N.ltb_spec 165000000000 (g + 1)); destruct (N.leb_spec 165 ((g + 1) / 1000000000)); try reflexivity; exfalso; lia.
Qed.

Lemma below_reject g n :
  g mod sec <= n -> n + 2 < sec -> g + 1 <= reject_after_time -> g + 1 < reject_after_time.
Proof. unfold reject_after_time, sec. change RejectAfterTime with 180000000000. intros. lia. Qed.

(* which slot (if any) the checker expects a message of session sid to hit *)
Definition target (s : state) (t : sst) (sid : N) : option kp :=
  match assoc sid (t_sess t) with Some i => key_at s i | None => None end.

Lemma step_recv s sid : step s (Recv sid) = do_recv (set_now s (now s + 1)) sid.
Proof. reflexivity. Qed.

Lemma target_none s t n sid :
  Inv s -> Rel s t n -> target s t sid = None -> step s (Recv sid) = (set_now s (now s + 1), out0).
Proof.
  intros H HR Ht. rewrite step_recv. pose proof (Inv_tick1 s H) as H0.
  pose proof (R_sess s t n HR sid) as Hs. cbv beta in Hs. unfold target in Ht.
  destruct (assoc sid (sessions s)) as [i|] eqn:Ea; destruct (assoc sid (t_sess t)) as [i'|]; try contradiction.
  - destruct Hs as [(-> & Hl & Hnh)|(-> & Hn)].
    + apply (recv_not_in_slots _ sid i H0 Ea). intros Hin. apply in_map_iff in Hin. destruct Hin as (k & El & Hin).
      exact (key_at_none s i Ht k Hin El).
    + apply (recv_wrong_key _ sid i H0 Ea). exact Hn.
  - unfold do_recv. cbn [sessions set_now]. rewrite Ea. reflexivity.
Qed.

Lemma target_some s t n sid k :
  Inv s -> Rel s t n -> n + 2 < sec -> target s t sid = Some k ->
  In k (keys s) /\ id k = sid /\ assoc sid (t_sess t) = Some (lidx k).
Proof.
  intros H HR Hn Ht. pose proof (R_sess s t n HR sid) as Hs. cbv beta in Hs. unfold target in Ht.
  destruct (assoc sid (t_sess t)) as [i'|]; [|discriminate].
  destruct (key_at_some s i' k Ht) as [Hin El].
  destruct (assoc sid (sessions s)) as [i|]; [|contradiction].
  destruct Hs as [(-> & Hl & _)|(-> & _)].
  - repeat split; [exact Hin|apply Hl; assumption|congruence].
  - exfalso. pose proof (lidx_lt_PH s t n k H HR Hn Hin). lia.
Qed.

Lemma age_tick s k : age (set_now s (now s + 1)) k = now s + 1 - created k.
Proof. reflexivity. Qed.

Lemma created_le s k : Inv s -> In k (keys s) -> created k <= now s.
Proof.
  intros H. pose proof (I_prev s H) as Hp. pose proof (I_cur s H) as Hc. pose proof (I_next s H) as Hn.
  unfold keys. destruct (prev s), (cur s), (next s); cbn [opt_list app In opt_ok] in *; unfold kp_ok in *;
    intuition (subst; auto).
Qed.

Lemma target_expired s t n sid k :
  Inv s -> Rel s t n -> n + 2 < sec -> target s t sid = Some k ->
  t_reject <=? (now s - created k) / sec = true ->
  step s (Recv sid) = (set_now s (now s + 1), out0).
Proof.
  intros H HR Hn Ht Hx. destruct (target_some s t n sid k H HR Hn Ht) as (Hin & <- & _).
  rewrite step_recv. apply (recv_expired_refused _ k (Inv_tick1 s H) Hin).
  rewrite age_tick. pose proof (created_le s k H Hin). rewrite <- reject_lt_iff in Hx.
  apply N.ltb_lt in Hx. lia.
Qed.

Lemma target_live_age s t n sid k :
  Inv s -> Rel s t n -> n + 2 < sec -> target s t sid = Some k ->
  t_reject <=? (now s - created k) / sec = false ->
  In k (keys s) /\ id k = sid /\
  age (set_now s (now s + 1)) k < reject_after_time.
Proof.
  intros H HR Hn Ht Hx. destruct (target_some s t n sid k H HR Hn Ht) as (Hin & Hid & _).
  repeat split; try assumption. rewrite age_tick. pose proof (created_le s k H Hin).
  rewrite <- reject_lt_iff in Hx. apply N.ltb_ge in Hx.
  replace (now s + 1 - created k) with (now s - created k + 1) by lia.
  apply (below_reject _ n (R_frac s t n HR k Hin) Hn). exact Hx.
Qed.

(* ---- receiving: refused ------------------------------------------------------------------------------------------ *)

Lemma recv_tail_refused tt s0 :
  match ob_cur (observe s0 out0) with
  | Some c =>
      let due := ob_tun (observe s0 out0) && so_init c && (t_rekey_recv <=? so_age c) in
      (if due && negb (t_latch tt) && spaced tt then is_some (ob_init (observe s0 out0)) else true)
      && (if is_some (ob_init (observe s0 out0)) then due else true)
  | None => negb (is_some (ob_init (observe s0 out0)))
  end = true.
Proof. cbn. destruct (cur s0); reflexivity. Qed.

Lemma ok_recv_refused pre t n sid :
  Rel (R pre) t n -> n + 2 < sec ->
  step (R pre) (Recv sid) = (set_now (R pre) (now (R pre) + 1), out0) ->
  (target (R pre) t sid = None \/
   exists k, target (R pre) t sid = Some k /\ t_reject <=? (now (R pre) - created k) / sec = true) ->
  ok pre t n (Recv sid).
Proof.
  intros HR Hn Hst Hexp. unfold ok. cbv zeta.
  pose proof (Inv_R pre) as H.
  destruct (R_before _ _ _ HR) as (op & Eb).
  set (s := R pre) in *. set (e := Recv sid) in *. rewrite Hst. cbn [fst snd].
  set (s0 := set_now s (now s + 1)). set (a := observe s0 out0).
  assert (Hss : same_slots s s0) by (repeat split).
  assert (HR' : Rel s0 (fst (sstep t (e, a))) (n + 1)).
  { pose proof (rel_after pre t n e HR Hn eq_refl) as G. cbv zeta in G. fold s in G. fold e in G. rewrite Hst in G. cbn [fst snd] in G.
    fold s0 in G. fold a in G. apply G.
    - reflexivity.
    - cbn [new_spec e app]. apply (sess_rel_shrink s s0 (t_sess t) H (R_sess _ _ _ HR)); [reflexivity|intros k Hk; exact Hk|left; reflexivity].
    - intros k Hc Hi. apply (R_conf _ _ _ HR k Hc Hi).
    - unfold latch_spec. rewrite Eb. cbn. rewrite (R_latch _ _ _ HR).
      destruct (next s); destruct (cur s); reflexivity. }
  split; [|exact HR'].
  assert (C12 : c_table a = true /\ c_sent (t1_spec t e a) (conf_spec t e a) a = true).
  { pose proof (clause12 pre t n e) as G. cbv zeta in G. fold s in G. fold e in G. rewrite Hst in G. cbn [fst snd] in G. apply G, HR'. }
  destruct C12 as [C1 C2].
  apply first_false_all. intros p Hp'. unfold clauses_spec in Hp'. rewrite Eb in Hp'.
  apply in_app_or in Hp'. destruct Hp' as [[<-|[<-|[]]]|Hp']; [exact C1|exact C2|].
  cbn [e In] in Hp'. destruct Hp' as [<-|[]]. cbn [snd].
  unfold c_recv. apply andb_true_intro. split; [|exact (recv_tail_refused (t1_spec t (Recv sid) a) s0)].
  assert (Hfr : c_frame (observe s op) a = true) by (apply frame_of_same, Hss).
  cbn [t1_spec t_sess]. change (new_spec t e a ++ t_sess t) with (t_sess t). unfold target in Hexp.
  destruct (assoc sid (t_sess t)) as [i|]; [|rewrite Hfr; reflexivity].
  rewrite slot_with_observe.
  destruct Hexp as [->|(k & -> & Hx)]; cbn [slot_of so_age].
  - rewrite Hfr. reflexivity.
  - unfold age. rewrite Hx, Hfr. reflexivity.
Qed.

(* ---- receiving: accepted without promotion ------------------------------------------------------------------------ *)

Lemma lidx_inj s k1 k2 : Inv s -> In k1 (keys s) -> In k2 (keys s) -> lidx k1 = lidx k2 -> k1 = k2.
Proof.
  intros H. apply (alldiff_map_inj lidx (keys s) k1 k2). apply (alldiff_app_l _ (opt_list (hs s))), (I_idx s H).
Qed.

Lemma bool_latch (L X : bool) : (if X then true else L) = L || negb L && X.
Proof. destruct L, X; reflexivity. Qed.

Lemma ok_recv_plain pre t n sid k :
  Rel (R pre) t n -> n + 2 < sec ->
  target (R pre) t sid = Some k -> t_reject <=? (now (R pre) - created k) / sec = false ->
  next (R pre) <> Some k ->
  ok pre t n (Recv sid).
Proof.
  intros HR Hn Htg Hx Hnx. unfold ok. cbv zeta.
  pose proof (Inv_R pre) as H.
  destruct (R_before _ _ _ HR) as (op & Eb).
  set (s := R pre) in *. set (e := Recv sid) in *.
  destruct (target_some s t n sid k H HR Hn Htg) as (Hin & Hid & Eas).
  destruct (target_live_age s t n sid k H HR Hn Htg Hx) as (_ & _ & Hage).
  set (s0 := set_now s (now s + 1)) in *.
  assert (H0 : Inv s0) by apply (Inv_tick1 s H).
  destruct (recv_plain s0 k H0 Hin (N.lt_le_incl _ _ Hage) Hnx) as (Hss & Hacc & Htun & Hsent & Hinit & Hlatch).
  rewrite Hid in Hss, Hacc, Htun, Hsent, Hinit, Hlatch.
  change (do_recv s0 sid) with (step s e) in Hss, Hacc, Htun, Hsent, Hinit, Hlatch.
  set (s' := fst (step s e)) in *. set (o := snd (step s e)) in *. set (a := observe s' o).
  destruct Hss as (Sp & Sc & Sn). unfold recv_due in Hinit, Hlatch.
  change (prev s0) with (prev s) in *. change (cur s0) with (cur s) in *. change (next s0) with (next s) in *.
  change (latch s0) with (latch s) in *.
  assert (Hnow : now s' = now s + 1) by (subst s'; rewrite now_step; cbn [tick_of e]; lia).
  (* the receive-side re-key condition, in the checker's terms *)
  set (due := negb (latch s) && match cur s with Some c => initiator c && (rekey_recv_time <? age s0 c) | None => false end) in *.
  assert (Hdue : due = negb (latch s) &&
                 match cur s with Some c => initiator c && (t_rekey_recv <=? (now s' - created c) / sec) | None => false end).
  { subst due. destruct (cur s) as [c|] eqn:Ec; [|reflexivity].
    assert (Hinc : In c (keys s)) by (unfold keys; rewrite Ec; apply in_or_app; right; apply in_or_app; left; left; reflexivity).
    pose proof (created_le s c H Hinc). unfold s0. rewrite age_tick, Hnow.
    replace (now s + 1 - created c) with (now s - created c + 1) by lia.
    rewrite (recv_time_iff _ n (R_frac _ _ _ HR c Hinc) Hn). reflexivity. }
  assert (HR' : Rel s' (fst (sstep t (e, a))) (n + 1)).
  { apply rel_after; try assumption; [reflexivity|reflexivity| | |]; fold s; fold e; fold s'; fold o; fold a.
    - cbn [new_spec e app]. apply (sess_rel_shrink s s' (t_sess t) H (R_sess _ _ _ HR)).
      + apply (sessions_step s e).
      + intros k0 Hk0. unfold keys in *. rewrite Sp, Sc, Sn in Hk0. exact Hk0.
      + apply (hs_step s e).
    - intros k0 Hc Hi. unfold conf_spec, e. change (ob_tun a) with (o_tun o). rewrite Htun.
      apply in_or_app. right. apply (R_conf _ _ _ HR k0); [congruence|exact Hi].
    - unfold latch_spec. rewrite Eb. unfold a. cbn [completed_spec e orb ob_next ob_cur ob_tun observe]. rewrite Sn, Sc, Htun.
      assert (Ep : is_some (slot_of s (next s)) && negb (is_some (slot_of s' (next s))) = false) by (destruct (next s); reflexivity).
      rewrite Ep. cbn [orb]. rewrite Hlatch, Hdue. rewrite (R_latch _ _ _ HR).
      destruct (cur s) as [c|]; cbn [slot_of so_init so_age]; [|rewrite Bool.andb_false_r, Bool.orb_false_r; reflexivity].
      unfold age. cbn [andb]. apply bool_latch. }
  split; [|exact HR'].
  destruct (clause12 pre t n e HR') as [C1 C2]. fold s in C1, C2. fold s' in C1, C2. fold o in C1, C2. fold a in C1, C2.
  apply first_false_all. intros p Hp'. unfold clauses_spec in Hp'. rewrite Eb in Hp'.
  apply in_app_or in Hp'. destruct Hp' as [[<-|[<-|[]]]|Hp']; [exact C1|exact C2|].
  cbn [e In] in Hp'. destruct Hp' as [<-|[]]. cbn [snd].
  assert (Hfr : c_frame (observe s op) a = true) by (apply frame_of_same; repeat split; assumption).
  unfold c_recv. cbn [t1_spec t_sess t_latch]. change (new_spec t e a ++ t_sess t) with (t_sess t). rewrite Eas.
  rewrite slot_with_observe.
  assert (Eka : key_at s (lidx k) = Some k).
  { unfold target in Htg. rewrite Eas in Htg. exact Htg. }
  rewrite Eka. cbn [slot_of so_age]. unfold age at 1. rewrite Hx.
  change (ob_next (observe s op)) with (slot_of s (next s)).
  assert (Em : memN (lidx k) (slot_idx (slot_of s (next s))) = false).
  { destruct (next s) as [nx|] eqn:En; [|reflexivity]. cbn [slot_of slot_idx so_lidx memN existsb].
    destruct (N.eqb_spec (lidx k) (lidx nx)) as [E|]; [|reflexivity]. exfalso. apply Hnx. f_equal.
    assert (Hinn : In nx (keys s)) by (unfold keys; rewrite En; apply in_or_app; right; apply in_or_app; right; left; reflexivity).
    apply (lidx_inj s nx k H Hinn Hin). congruence. }
  rewrite Em, Hfr.
  assert (Hsp : spaced (t1_spec t e a) = true -> rate_limited s0 = false).
  { intros Hs. apply (spaced_not_limited s (t_since t) H (R_since _ _ _ HR)). exact Hs. }
  generalize dependent (spaced (t1_spec t e a)). intros spc Hsp.
  unfold a. cbn [ob_tun ob_cur ob_init observe]. rewrite Htun. cbn [andb].
  rewrite Sc. rewrite Hinit, Hdue.
  rewrite (R_latch _ _ _ HR).
  destruct (cur s) as [c|]; cbn [slot_of so_init so_age].
  - unfold age. assert (Eio : forall b : bool, is_some (if b then Some (hd 0 (inits s')) else None) = b) by (intros []; reflexivity).
    rewrite Eio. cbn [andb].
    destruct (initiator c && (t_rekey_recv <=? (now s' - created c) / sec)); cbn [andb].
    + destruct (latch s); cbn [negb andb]; [reflexivity|].
      destruct spc; [rewrite Hsp by reflexivity; reflexivity|]. destruct (negb (rate_limited s0)); reflexivity.
    + rewrite Bool.andb_false_r. reflexivity.
  - rewrite Bool.andb_false_r. reflexivity.
Qed.

(* ---- receiving: confirmation ------------------------------------------------------------------------------------------ *)

Lemma ok_recv_promoted pre t n sid k :
  Rel (R pre) t n -> n + 2 < sec ->
  target (R pre) t sid = Some k -> t_reject <=? (now (R pre) - created k) / sec = false ->
  next (R pre) = Some k ->
  ok pre t n (Recv sid).
Proof.
  intros HR Hn Htg Hx Hnx. unfold ok. cbv zeta.
  pose proof (Inv_R pre) as H.
  destruct (R_before _ _ _ HR) as (op & Eb).
  set (s := R pre) in *. set (e := Recv sid) in *.
  destruct (target_some s t n sid k H HR Hn Htg) as (Hin & Hid & Eas).
  destruct (target_live_age s t n sid k H HR Hn Htg Hx) as (_ & _ & Hage).
  set (s0 := set_now s (now s + 1)) in *.
  assert (H0 : Inv s0) by apply (Inv_tick1 s H).
  assert (Hnx0 : next s0 = Some k) by exact Hnx.
  destruct (recv_next_promotes s0 k H0 Hnx0 (N.lt_le_incl _ _ Hage)) as (Hacc & Htun & Ec & Ep & En & Hhon).
  destruct (recv_promoted_more s0 k H0 Hnx0 (N.lt_le_incl _ _ Hage)) as (Hlatch & Hinit0).
  specialize (Hinit0 Hage).
  rewrite Hid in Hacc, Htun, Ec, Ep, En, Hhon, Hlatch, Hinit0.
  change (do_recv s0 sid) with (step s e) in Hacc, Htun, Ec, Ep, En, Hhon, Hlatch, Hinit0.
  change (cur s0) with (cur s) in Ep. change (prev s0) with (prev s) in Hhon.
  set (s' := fst (step s e)) in *. set (o := snd (step s e)) in *. set (a := observe s' o).
  pose proof (I_next s H) as Hni. rewrite Hnx in Hni. cbn [opt_ok] in Hni. destruct Hni as [_ Hni].
  pose proof (ND_R_snoc pre e) as Hnd'. fold s in Hnd'. fold s' in Hnd'.
  assert (HR' : Rel s' (fst (sstep t (e, a))) (n + 1)).
  { apply rel_after; try assumption; [reflexivity|reflexivity| | |]; fold s; fold e; fold s'; fold o; fold a.
    - cbn [new_spec e app]. apply (sess_rel_shrink s s' (t_sess t) H (R_sess _ _ _ HR)).
      + apply (sessions_step s e).
      + apply (keys_sub s e H). left. reflexivity.
      + apply (hs_step s e).
    - intros k0 Hc Hi. unfold conf_spec, e. change (ob_tun a) with (o_tun o). rewrite Htun.
      change (new_spec t (Recv sid) a ++ t_sess t) with (t_sess t). rewrite Eas.
      assert (k0 = k) by congruence. subst k0. left. reflexivity.
    - unfold latch_spec. rewrite Eb. unfold a. cbn [completed_spec e orb ob_next ob_cur ob_tun observe].
      rewrite En, Ec, Hnx, Htun. cbn [slot_of is_some negb andb orb so_init]. rewrite Hni, Hlatch. reflexivity. }
  split; [|exact HR'].
  destruct (clause12 pre t n e HR') as [C1 C2]. fold s in C1, C2. fold s' in C1, C2. fold o in C1, C2. fold a in C1, C2.
  apply first_false_all. intros p Hp'. unfold clauses_spec in Hp'. rewrite Eb in Hp'.
  apply in_app_or in Hp'. destruct Hp' as [[<-|[<-|[]]]|Hp']; [exact C1|exact C2|].
  cbn [e In] in Hp'. destruct Hp' as [<-|[]]. cbn [snd].
  unfold c_recv. cbn [t1_spec t_sess t_latch]. change (new_spec t e a ++ t_sess t) with (t_sess t). rewrite Eas.
  rewrite slot_with_observe.
  assert (Eka : key_at s (lidx k) = Some k) by (apply key_at_next; [exact Hnx|reflexivity]).
  rewrite Eka. cbn [slot_of so_age]. unfold age at 1. rewrite Hx.
  change (ob_next (observe s op)) with (slot_of s (next s)). change (ob_cur (observe s op)) with (slot_of s (cur s)).
  change (ob_prev (observe s op)) with (slot_of s (prev s)).
  unfold a. rewrite (opt_in_table_false s' o s (prev s) Hnd' Hhon).
  rewrite Hnx. cbn [slot_of slot_idx so_lidx memN existsb]. rewrite N.eqb_refl. cbn [orb].
  cbn [ob_tun ob_cur ob_prev ob_next ob_init observe]. rewrite Htun, Ec, Ep, En, Hinit0.
  cbn [slot_of is_some negb andb so_init]. rewrite Hni. cbn [andb].
  rewrite (slot_eqb_of s' s (cur s) (cur s) eq_refl). cbn [slot_eqb so_lidx so_ridx so_init].
  rewrite !N.eqb_refl. reflexivity.
Qed.

(* ---- receiving: all cases ---------------------------------------------------------------------------------------------- *)

Lemma ok_recv pre t n sid :
  Rel (R pre) t n -> n + 2 < sec -> ok pre t n (Recv sid).
Proof.
  intros HR Hn. pose proof (Inv_R pre) as H.
  destruct (target (R pre) t sid) as [k|] eqn:Htg.
  - destruct (t_reject <=? (now (R pre) - created k) / sec) eqn:Hx.
    + apply ok_recv_refused; try assumption; [apply (target_expired _ t n sid k H HR Hn Htg Hx)|].
      right. exists k. auto.
    + destruct (next (R pre)) as [nx|] eqn:En.
      * destruct (N.eqb_spec (lidx nx) (lidx k)) as [E|Hne].
        -- destruct (target_some _ t n sid k H HR Hn Htg) as (Hin & _ & _).
           assert (Hinn : In nx (keys (R pre))) by (unfold keys; rewrite En; apply in_or_app; right; apply in_or_app; right; left; reflexivity).
           assert (nx = k) by (apply (lidx_inj _ nx k H Hinn Hin E)). subst nx.
           apply (ok_recv_promoted pre t n sid k HR Hn Htg Hx En).
        -- apply (ok_recv_plain pre t n sid k HR Hn Htg Hx). rewrite En. intros E. inversion E. subst. apply Hne. reflexivity.
      * apply (ok_recv_plain pre t n sid k HR Hn Htg Hx). rewrite En. discriminate.
  - apply ok_recv_refused; try assumption; [apply (target_none _ t n sid H HR Htg)|left; exact Htg].
Qed.

(* ==== the theorem ============================================================================================= *)

Lemma ok_all pre t n e :
  Rel (R pre) t n -> n + 2 < sec -> tick_of e mod sec = 0 -> ok pre t n e.
Proof.
  intros HR Hn Ht. destruct e.
  - apply ok_simple; auto. left. exact I.
  - apply ok_respond; assumption.
  - apply ok_cr; assumption.
  - apply ok_recv; assumption.
  - apply ok_simple; auto. left. exact I.
  - apply ok_simple; auto. left. exact I.
  - apply ok_simple; auto. left. exact I.
  - apply ok_simple; auto. left. exact I.
  - apply ok_simple; auto.
  - apply ok_simple; auto. left. exact I.
  - apply ok_simple; auto. left. exact I.
Qed.

Lemma Rel_init : Rel init sst0 0.
Proof.
  constructor.
  - exists out0. reflexivity.
  - reflexivity.
  - reflexivity.
  - reflexivity.
  - cbn. exists 0. split; [reflexivity|]. vm_compute. discriminate.
  - intros sid. cbn. exact I.
  - cbn. discriminate.
  - cbn. lia.
  - vm_compute. discriminate.
  - intros k [].
Qed.

Lemma trace_ok evs : forall pre t n pos,
  Rel (R pre) t n ->
  (forall d, In (Tick d) evs -> d mod sec = 0) ->
  n + N.of_nat (length evs) + 1 < sec ->
  first_violation t (model_trace (R pre) evs) pos = None.
Proof.
  induction evs as [|e evs IH]; intros pre t n pos HR Htk Hlen; [reflexivity|].
  cbn [model_trace].
  assert (Hn : n + 2 < sec) by (cbn [length] in Hlen; lia).
  assert (Hte : tick_of e mod sec = 0).
  { destruct e; cbn [tick_of]; try reflexivity. apply Htk. left. reflexivity. }
  destruct (ok_all pre t n e HR Hn Hte) as [Hv HR']. cbv zeta in Hv, HR'.
  destruct (step (R pre) e) as [s' o] eqn:Est. cbn [fst snd] in Hv, HR'.
  cbn [first_violation].
  assert (Es' : s' = R (pre ++ [e])) by (rewrite R_snoc, Est; reflexivity).
  rewrite sstep_eq in *. cbn [fst snd] in *. rewrite Hv. cbn [N.eqb].
  rewrite Es'. apply (IH (pre ++ [e]) _ (n + 1)).
  - rewrite <- Es'. exact HR'.
  - intros d Hd. apply Htk. right. exact Hd.
  - cbn [length] in Hlen. lia.
Qed.

(* The executable property accepts every trace of the model, for every event list in which time moves in
   whole seconds (the harness's discipline) and that is shorter than 10^9 - 1 events. *)
Theorem model_satisfies_spec evs :
  (forall d, In (Tick d) evs -> d mod sec = 0) -> N.of_nat (length evs) + 1 < sec ->
  holdsb (model_trace init evs) = true.
Proof.
  intros Htk Hlen. unfold holdsb.
  change init with (R []). rewrite (trace_ok evs [] sst0 0 0); [reflexivity|exact Rel_init|exact Htk|lia].
Qed.
