(* Proofs about the slice model of the session-key lifecycle (C07): an invariant tying
   the index table to the three slots and the pending handshake, preserved by every
   event, and the clauses of the property as theorems over ALL event lists. *)
From WG Require Import Base.Prelude Gen.Constants Keypairs.Model.
Local Open Scope N_scope.

(* ---- index table ----------------------------------------------------------- *)

Ltac eqbs :=
  repeat match goal with
         | |- context [?a =? ?b] => destruct (N.eqb_spec a b)
         | H : context [?a =? ?b] |- _ => destruct (N.eqb_spec a b)
         end.

Lemma lookup_delete i j t : lookup i (delete j t) = if i =? j then None else lookup i t.
Proof.
  induction t as [|[a e] t IH]; cbn [lookup delete].
  - destruct (i =? j); reflexivity.
  - destruct (N.eqb_spec j a); cbn [lookup]; rewrite IH; eqbs; subst; congruence.
Qed.

Lemma lookup_swap i j k t :
  lookup i (swap j k t) =
  if i =? j then match lookup j t with Some _ => Some (Kp k) | None => None end else lookup i t.
Proof.
  induction t as [|[a e] t IH]; cbn [lookup swap].
  - destruct (i =? j); reflexivity.
  - destruct (N.eqb_spec j a); cbn [lookup]; rewrite IH; eqbs; subst; congruence.
Qed.

Lemma lookup_delete_kp i o t :
  lookup i (delete_kp o t) =
  match o with Some k => if i =? lidx k then None else lookup i t | None => lookup i t end.
Proof. destruct o; cbn [delete_kp]; [apply lookup_delete|reflexivity]. Qed.

Lemma lookup_delete_opt i o t :
  lookup i (delete_opt o t) =
  match o with Some j => if i =? j then None else lookup i t | None => lookup i t end.
Proof. destruct o; cbn [delete_opt]; [apply lookup_delete|reflexivity]. Qed.

(* ---- invariant --------------------------------------------------------------- *)

Definition slot_hit (o : option kp) (i : N) : option entry :=
  match o with Some k => if i =? lidx k then Some (Kp k) else None | None => None end.
Definition hs_hit (o : option N) (i : N) : option entry :=
  match o with Some h => if i =? h then Some Hs else None | None => None end.
Definition orelse {A} (a b : option A) : option A := match a with Some _ => a | None => b end.

(* what the index table must answer, given the slots and the pending handshake *)
Definition expect (p c n : option kp) (h : option N) (i : N) : option entry :=
  orelse (slot_hit n i) (orelse (slot_hit c i) (orelse (slot_hit p i) (hs_hit h i))).

Fixpoint alldiff (l : list N) : Prop :=
  match l with [] => True | x :: t => ~ In x t /\ alldiff t end.

Definition kp_ok (s : state) (k : kp) : Prop :=
  lidx k < nidx s /\ id k < nsess s /\ created k <= now s /\ assoc (id k) (sessions s) = Some (lidx k).

Definition opt_ok {A} (P : A -> Prop) (o : option A) : Prop :=
  match o with Some x => P x | None => True end.

Record Inv (s : state) : Prop := mkInv {
  I_tbl : forall i, lookup i (table s) = expect (prev s) (cur s) (next s) (hs s) i;
  I_idx : alldiff (map lidx (keys s) ++ opt_list (hs s));
  I_ids : alldiff (map id (keys s));
  I_prev : opt_ok (kp_ok s) (prev s);
  I_cur : opt_ok (kp_ok s) (cur s);
  I_next : opt_ok (fun k => kp_ok s k /\ initiator k = false) (next s);
  I_hs : opt_ok (fun h => h < nidx s) (hs s);
  I_last : opt_ok (fun t => t <= now s) (last_sent s);
  I_inits : forall i, In i (inits s) -> i < nidx s;
  I_sess : forall sid i, assoc sid (sessions s) = Some i -> sid < nsess s /\ i < nidx s
}.

Lemma Inv_init : Inv init.
Proof.
  constructor; cbn; auto; try lia; try tauto.
  intros; discriminate.
Qed.

(* case analysis helpers *)
Ltac slots s :=
  let p := fresh "p" in let c := fresh "c" in let n := fresh "n" in let h := fresh "h" in
  destruct (prev s) as [p|] eqn:?, (cur s) as [c|] eqn:?, (next s) as [n|] eqn:?, (hs s) as [h|] eqn:?.

Lemma assoc_cons x a b l : assoc x ((a, b) :: l) = if x =? a then Some b else assoc x l.
Proof. reflexivity. Qed.

(* kp_ok is monotone in the counters and the clock, and survives a new session *)
Lemma kp_ok_mono s s' k :
  kp_ok s k -> nidx s <= nidx s' -> nsess s = nsess s' -> now s <= now s' -> sessions s = sessions s' ->
  kp_ok s' k.
Proof. unfold kp_ok. intros (A & B & C & D) H1 H2 H3 H4. rewrite <- H4, <- H2. repeat split; try lia. exact D. Qed.

(* ---- preservation ------------------------------------------------------------ *)

Ltac red_all :=
  cbn [now prev cur next table hs last_sent latch staged nidx inits nsess sessions
       set_now set_keys set_last_sent set_latch set_staged add_session fst snd
       keys opt_list map app alldiff In opt_ok lookup delete_kp delete_opt
       id initiator created lidx ridx] in *.

Ltac open_inv H :=
  destruct H as [Ht Hi Hd Hp Hc Hn Hh Hl Hin Hs]; red_all.

Ltac tbl_tac Ht :=
  let x := fresh "x" in intros x;
  repeat (rewrite ?lookup_delete_kp, ?lookup_delete_opt, ?lookup_delete, ?lookup_swap); cbn [lookup];
  repeat (rewrite ?lookup_delete_kp, ?lookup_delete_opt, ?lookup_delete, ?lookup_swap);
  rewrite ?Ht; unfold expect, slot_hit, hs_hit, orelse; cbn [lidx];
  eqbs; subst; try congruence; try lia.

Ltac split_state s :=
  destruct s as [t p c n tb h ls la st ni ins ns ss].

Ltac split_slots :=
  match goal with
  | p : option kp, c : option kp, n : option kp, h : option N |- _ =>
      destruct p as [p|], c as [c|], n as [n|], h as [h|]
  end.

Ltac sess_tac Hs :=
  try (let sid := fresh "sid" in let j := fresh "j" in let Ha := fresh "Ha" in
       intros sid j; rewrite ?assoc_cons; intros Ha; eqbs;
       [ inversion Ha; subst; lia | specialize (Hs sid j Ha); lia ]).

Lemma Inv_send_initiation s : Inv s -> Inv (fst (send_initiation s)).
Proof.
  intros H. unfold send_initiation. destruct (rate_limited s); [exact H|].
  split_state s. open_inv H.
  destruct p as [p|], c as [c|], n as [n|], h as [h|]; red_all; unfold kp_ok in *; red_all;
  (constructor; red_all; unfold kp_ok; red_all;
   [ tbl_tac Ht | try (intuition lia) .. ]).
  all: try (intros i [<-|Hi']; [lia|specialize (Hin i Hi'); lia]).
  all: try (intros sid i Ha; specialize (Hs sid i Ha); lia).
Qed.

Lemma Inv_set_now s t' : Inv s -> now s <= t' -> Inv (set_now s t').
Proof.
  intros H Hle. split_state s. open_inv H.
  constructor; red_all; auto.
  all: try (destruct p; red_all; unfold kp_ok in *; red_all; intuition lia).
  all: try (destruct c; red_all; unfold kp_ok in *; red_all; intuition lia).
  all: try (destruct n; red_all; unfold kp_ok in *; red_all; intuition lia).
  destruct ls; red_all; lia.
Qed.

Lemma Inv_set_latch s b : Inv s -> Inv (set_latch s b).
Proof. intros H. split_state s. open_inv H. constructor; red_all; auto. Qed.
Lemma Inv_set_staged s b : Inv s -> Inv (set_staged s b).
Proof. intros H. split_state s. open_inv H. constructor; red_all; auto. Qed.
Lemma Inv_set_last_none s : Inv s -> Inv (set_last_sent s None).
Proof. intros H. split_state s. open_inv H. constructor; red_all; auto. Qed.

Lemma Inv_received_with s k : Inv s -> Inv (fst (received_with s k)).
Proof.
  intros H. unfold received_with. destruct (next s) as [n0|] eqn:En; [|exact H].
  destruct (id n0 =? id k); [|exact H].
  split_state s. red_all. subst n. open_inv H.
  destruct p as [p|], c as [c|], h as [h|]; red_all; unfold kp_ok in *; red_all;
  (constructor; red_all; unfold kp_ok; red_all;
   [ tbl_tac Ht | try (intuition lia) .. ]); auto.
Qed.

Lemma Inv_add_session s i : Inv s -> i < nidx s -> Inv (add_session s i).
Proof.
  intros H Hlt. split_state s. open_inv H.
  constructor; red_all; auto.
  all: try (destruct p; red_all; unfold kp_ok in *; red_all; rewrite ?assoc_cons; eqbs; intuition lia).
  all: try (destruct c; red_all; unfold kp_ok in *; red_all; rewrite ?assoc_cons; eqbs; intuition lia).
  all: try (destruct n; red_all; unfold kp_ok in *; red_all; rewrite ?assoc_cons; eqbs; intuition lia).
  sess_tac Hs.
Qed.

Lemma Inv_begin_init s i r :
  Inv s -> hs s = Some i -> Inv (add_session (begin_session s true i r) i).
Proof.
  intros H Hh'. unfold begin_session.
  split_state s. red_all. subst h. open_inv H.
  destruct p as [p|], c as [c|], n as [n|]; red_all; unfold kp_ok in *; red_all;
  (constructor; red_all; unfold kp_ok; red_all; rewrite ?assoc_cons;
   [ tbl_tac Ht | try (eqbs; intuition lia) .. ]); auto.
  all: sess_tac Hs.
Qed.

Lemma Inv_complete_responder s r : Inv s -> Inv (fst (do_complete_responder s r)).
Proof.
  intros H. unfold do_complete_responder, begin_session. cbn [fst].
  split_state s. red_all. open_inv H.
  destruct p as [p|], c as [c|], n as [n|], h as [h|]; red_all; unfold kp_ok in *; red_all;
  (constructor; red_all; unfold kp_ok; red_all; rewrite ?assoc_cons;
   [ tbl_tac Ht | try (eqbs; intuition lia) .. ]); auto.
  all: sess_tac Hs.
  all: try (intros j Hj; specialize (Hin j Hj); lia).
Qed.

Lemma Inv_send_staged s : Inv s -> Inv (fst (fst (send_staged s))).
Proof.
  intros H. unfold send_staged. destruct (staged s =? 0); [exact H|].
  destruct (cur s) as [k|].
  - destruct (reject_after_time <=? age s k).
    + pose proof (Inv_send_initiation s H). destruct (send_initiation s); exact H0.
    + destruct (initiator k && (rekey_after_time <? age s k)).
      * pose proof (Inv_send_initiation _ (Inv_set_staged s 0 H)). destruct (send_initiation (set_staged s 0)); exact H0.
      * apply Inv_set_staged, H.
  - pose proof (Inv_send_initiation s H). destruct (send_initiation s); exact H0.
Qed.

Lemma Inv_keep_key_fresh_receiving s : Inv s -> Inv (fst (keep_key_fresh_receiving s)).
Proof.
  intros H. unfold keep_key_fresh_receiving. destruct (latch s); [exact H|].
  destruct (cur s) as [k|]; [|exact H].
  destruct (initiator k && (rekey_recv_time <? age s k)); [|exact H].
  apply Inv_send_initiation, Inv_set_latch, H.
Qed.

Lemma Inv_do_recv s sid : Inv s -> Inv (fst (do_recv s sid)).
Proof.
  intros H. unfold do_recv. destruct (assoc sid (sessions s)); [|exact H].
  destruct (lookup n (table s)) as [[|k]|]; try exact H.
  destruct (reject_after_time <? age s k); [exact H|].
  destruct (negb (id k =? sid)); [exact H|].
  pose proof (Inv_received_with s k H) as H1. destruct (received_with s k) as [s1 pr]. cbn [fst] in H1.
  assert (H2 : Inv (fst (fst (if pr then send_staged (set_latch s1 false) else (s1, [], false))))).
  { destruct pr; [apply Inv_send_staged, Inv_set_latch, H1|exact H1]. }
  destruct (if pr then send_staged (set_latch s1 false) else (s1, [], false)) as [[s2 sent] i1]. cbn [fst] in H2.
  pose proof (Inv_keep_key_fresh_receiving s2 H2) as H3. destruct (keep_key_fresh_receiving s2). exact H3.
Qed.

Lemma Inv_do_respond s k r : Inv s -> Inv (fst (do_respond s k r)).
Proof.
  intros H. unfold do_respond. destruct (nth_error (inits s) k) as [i|] eqn:En; [|exact H].
  assert (Hlt : i < nidx s) by (apply (I_inits s H), (nth_error_In _ _ En)).
  destruct (lookup i (table s)) as [[|k0]|] eqn:El; try (apply Inv_add_session; assumption).
  destruct (hs s) as [h|] eqn:Eh; [|apply Inv_add_session; assumption].
  destruct (N.eqb_spec h i) as [->|]; [|apply Inv_add_session; assumption].
  pose proof (Inv_begin_init s i r H Eh) as H1.
  set (s1 := add_session (begin_session s true i r) i) in *.
  assert (H3 : Inv (if staged (set_latch s1 false) =? 0 then set_staged (set_latch s1 false) 1 else set_latch s1 false)).
  { destruct (staged (set_latch s1 false) =? 0); [apply Inv_set_staged|]; apply Inv_set_latch, H1. }
  pose proof (Inv_send_staged _ H3) as H4.
  destruct (send_staged _) as [[s4 sent] i1]. exact H4.
Qed.

Lemma Inv_restart s : Inv s -> Inv (fst (do_restart s)).
Proof.
  intros H. unfold do_restart. cbn [fst].
  split_state s. open_inv H.
  destruct p as [p|], c as [c|], n as [n|], h as [h|]; red_all; unfold kp_ok in *; red_all;
  (constructor; red_all; unfold kp_ok; red_all;
   [ tbl_tac Ht | try (intuition lia) .. ]); auto.
Qed.

Lemma Inv_step s e : Inv s -> Inv (fst (step s e)).
Proof.
  intros H. unfold step.
  assert (H0 : Inv (set_now s (now s + 1))) by (apply Inv_set_now; [exact H|lia]).
  destruct e.
  - unfold do_initiate.
    assert (H1 : Inv (if force then set_last_sent (set_now s (now s + 1)) None else set_now s (now s + 1))).
    { destruct force; [apply Inv_set_last_none|]; exact H0. }
    pose proof (Inv_send_initiation _ H1). destruct (send_initiation _). exact H2.
  - apply Inv_do_respond, H0.
  - apply Inv_complete_responder, H0.
  - apply Inv_do_recv, H0.
  - unfold do_send, do_transmit. pose proof (Inv_send_staged _ (Inv_set_staged _ (staged (set_now s (now s + 1)) + 1) H0)).
    destruct (send_staged _) as [[s1 sent] i]. exact H1.
  - cbn [fst]. apply Inv_set_now; [exact H0|]. cbn [now set_now]. lia.
  - exact H0.
  - exact H0.
  - apply Inv_restart, H0.
  - unfold do_keepalive, do_transmit.
    pose proof (Inv_send_staged _ (Inv_set_staged _ (if staged (set_now s (now s + 1)) =? 0 then 1 else staged (set_now s (now s + 1))) H0)).
    destruct (send_staged _) as [[s1 sent] i]. exact H1.
  - apply Inv_set_staged, H0.
Qed.

Theorem Inv_reachable evs : Inv (final step init evs).
Proof. apply final_inv; [intros s o; apply Inv_step|exact Inv_init]. Qed.

(* ---- reachable states ------------------------------------------------------------ *)

Definition R (evs : list event) : state := final step init evs.

(* ---- frame facts: what the helpers leave alone -------------------------------- *)

Definition same_slots (s s' : state) : Prop := prev s' = prev s /\ cur s' = cur s /\ next s' = next s.

Lemma same_slots_refl s : same_slots s s. Proof. repeat split. Qed.
Lemma same_slots_trans a b c : same_slots a b -> same_slots b c -> same_slots a c.
Proof. unfold same_slots. intuition congruence. Qed.

Lemma slots_send_initiation s : same_slots s (fst (send_initiation s)).
Proof. unfold send_initiation. destruct (rate_limited s); repeat split. Qed.

Lemma slots_send_staged s : same_slots s (fst (fst (send_staged s))).
Proof.
  unfold send_staged. destruct (staged s =? 0); [apply same_slots_refl|].
  destruct (cur s) as [k|].
  - destruct (reject_after_time <=? age s k).
    + pose proof (slots_send_initiation s). destruct (send_initiation s); exact H.
    + destruct (initiator k && (rekey_after_time <? age s k)).
      * pose proof (slots_send_initiation (set_staged s 0)). destruct (send_initiation (set_staged s 0)); exact H.
      * repeat split.
  - pose proof (slots_send_initiation s). destruct (send_initiation s); exact H.
Qed.

Lemma slots_kkfr s : same_slots s (fst (keep_key_fresh_receiving s)).
Proof.
  unfold keep_key_fresh_receiving. destruct (latch s); [apply same_slots_refl|].
  destruct (cur s) as [k|]; [|apply same_slots_refl].
  destruct (initiator k && (rekey_recv_time <? age s k)); [|apply same_slots_refl].
  apply (slots_send_initiation (set_latch s true)).
Qed.

(* an index below nidx that is not honoured stays not honoured through send_initiation *)
Lemma honoured_send_initiation s i :
  i < nidx s -> honoured s i = false -> honoured (fst (send_initiation s)) i = false.
Proof.
  intros Hlt Hh. unfold send_initiation. destruct (rate_limited s); [exact Hh|].
  unfold honoured in *. cbn [fst table lookup]. destruct (N.eqb_spec i (nidx s)); [lia|].
  rewrite lookup_delete_opt. destruct (hs s) as [h|]; [destruct (i =? h); [reflexivity|exact Hh]|exact Hh].
Qed.

Lemma nidx_send_initiation s : nidx s <= nidx (fst (send_initiation s)).
Proof. unfold send_initiation. destruct (rate_limited s); cbn [fst nidx]; lia. Qed.

Lemma honoured_send_staged s i :
  i < nidx s -> honoured s i = false -> honoured (fst (fst (send_staged s))) i = false.
Proof.
  intros Hlt Hh. unfold send_staged. destruct (staged s =? 0); [exact Hh|].
  destruct (cur s) as [k|].
  - destruct (reject_after_time <=? age s k).
    + pose proof (honoured_send_initiation s i Hlt Hh). destruct (send_initiation s); exact H.
    + destruct (initiator k && (rekey_after_time <? age s k)).
      * pose proof (honoured_send_initiation (set_staged s 0) i Hlt Hh). destruct (send_initiation (set_staged s 0)); exact H.
      * exact Hh.
  - pose proof (honoured_send_initiation s i Hlt Hh). destruct (send_initiation s); exact H.
Qed.

Lemma nidx_send_staged s : nidx s <= nidx (fst (fst (send_staged s))).
Proof.
  unfold send_staged. destruct (staged s =? 0); [cbn [fst]; lia|].
  destruct (cur s) as [k|].
  - destruct (reject_after_time <=? age s k).
    + pose proof (nidx_send_initiation s). destruct (send_initiation s); exact H.
    + destruct (initiator k && (rekey_after_time <? age s k)).
      * pose proof (nidx_send_initiation (set_staged s 0)). destruct (send_initiation (set_staged s 0)); exact H.
      * cbn. lia.
  - pose proof (nidx_send_initiation s). destruct (send_initiation s); exact H.
Qed.

Lemma honoured_kkfr s i :
  i < nidx s -> honoured s i = false -> honoured (fst (keep_key_fresh_receiving s)) i = false.
Proof.
  intros Hlt Hh. unfold keep_key_fresh_receiving. destruct (latch s); [exact Hh|].
  destruct (cur s) as [k|]; [|exact Hh].
  destruct (initiator k && (rekey_recv_time <? age s k)); [|exact Hh].
  apply (honoured_send_initiation (set_latch s true) i Hlt Hh).
Qed.

(* ---- alldiff / NoDup ------------------------------------------------------------ *)

Lemma alldiff_NoDup l : alldiff l -> NoDup l.
Proof. induction l as [|x l IH]; cbn; intros H; constructor; tauto. Qed.

Lemma alldiff_app_l a b : alldiff (a ++ b) -> alldiff a.
Proof.
  induction a as [|x a IH]; cbn; [tauto|]. intros [H1 H2]. split; [|apply IH, H2].
  intros Hin. apply H1, in_or_app. left. exact Hin.
Qed.

(* ---- 1. at most three keys, all different, and nothing else in the table -------- *)

Theorem at_most_three_distinct evs :
  let s := R evs in
  (length (keys s) <= 3)%nat /\ NoDup (map id (keys s)) /\ NoDup (map lidx (keys s)) /\
  (forall i k, lookup i (table s) = Some (Kp k) -> In k (keys s) /\ lidx k = i).
Proof.
  intros s. pose proof (Inv_reachable evs) as H. fold (R evs) in H. fold s in H.
  split; [|split; [|split]].
  - unfold keys. destruct (prev s), (cur s), (next s); cbn; lia.
  - apply alldiff_NoDup, (I_ids s H).
  - apply alldiff_NoDup, (alldiff_app_l _ (opt_list (hs s))), (I_idx s H).
  - intros i k. rewrite (I_tbl s H). unfold keys, expect, slot_hit, hs_hit, orelse.
    destruct (prev s) as [p|], (cur s) as [c|], (next s) as [n|], (hs s) as [h|]; cbn [opt_list app In];
      eqbs; intros E; inversion E; subst; auto 6.
Qed.

(* ---- 2. the honoured indices are exactly the slots' and the pending handshake's --- *)

Theorem index_table_is_slots evs i :
  let s := R evs in
  honoured s i = true <-> (In i (map lidx (keys s)) \/ hs s = Some i).
Proof.
  intros s. pose proof (Inv_reachable evs) as H. fold (R evs) in H. fold s in H.
  unfold honoured. rewrite (I_tbl s H). unfold keys, expect, slot_hit, hs_hit, orelse.
  destruct (prev s) as [p|], (cur s) as [c|], (next s) as [n|], (hs s) as [h|]; cbn [opt_list app In map];
    eqbs; subst; split; intros E; try reflexivity; try discriminate; auto 6;
    repeat (destruct E as [E|E]); try congruence; try contradiction; try (inversion E; congruence).
Qed.

(* ---- 3. completing a handshake as initiator ---------------------------------------- *)

Lemma send_staged_fresh s k :
  cur s = Some k -> created k = now s -> staged s <> 0 ->
  send_staged s = (set_staged s 0, repeat (id k) (N.to_nat (staged s)), false).
Proof.
  intros Hc Hcr Hst. unfold send_staged. destruct (N.eqb_spec (staged s) 0); [contradiction|].
  rewrite Hc. unfold age. rewrite Hcr, N.sub_diag.
  change (reject_after_time <=? 0) with false. change (rekey_after_time <? 0) with false.
  rewrite Bool.andb_false_r. reflexivity.
Qed.

Definition rotated_in (s : state) : option kp := match next s with Some n => Some n | None => cur s end.

Lemma bs_misc s b i r :
  staged (begin_session s b i r) = staged s /\ now (begin_session s b i r) = now s /\
  nidx (begin_session s b i r) = nidx s /\ latch (begin_session s b i r) = latch s.
Proof. unfold begin_session. destruct b, (next s); repeat split. Qed.

Lemma begin_init_facts s i r :
  Inv s -> hs s = Some i -> lookup i (table s) = Some Hs ->
  let s1 := begin_session s true i r in
  cur s1 = Some (mkKp (nsess s) true (now s) i r) /\ next s1 = None /\ prev s1 = rotated_in s /\
  (forall p, prev s = Some p -> honoured s1 (lidx p) = false) /\
  (forall n c, next s = Some n -> cur s = Some c -> honoured s1 (lidx c) = false) /\
  honoured s1 i = true /\ hs s1 = None.
Proof.
  intros H Eh El.
  pose proof (I_tbl s H) as Ht. pose proof (I_idx s H) as Hi. rewrite Eh in Ht, Hi.
  unfold keys in Hi. unfold begin_session, rotated_in, honoured.
  destruct (prev s) as [p|] eqn:Ep, (cur s) as [c|] eqn:Ec, (next s) as [n|] eqn:Enx;
    cbn [cur next prev hs table set_keys keys opt_list map app alldiff In] in *;
    (repeat split; try reflexivity;
     [ intros p0 E; inversion E; subst p0
     | intros n0 c0 E1 E2; try discriminate; inversion E1; inversion E2; subst
     | ]);
    repeat (rewrite ?lookup_delete_kp, ?lookup_delete_opt, ?lookup_delete, ?lookup_swap); cbn [delete_kp];
    repeat (rewrite ?lookup_delete_kp, ?lookup_delete_opt, ?lookup_delete, ?lookup_swap);
    rewrite ?N.eqb_refl, ?El; eqbs; try reflexivity; try lia.
Qed.

Lemma respond_rotates s k r :
  Inv s -> o_acc (snd (do_respond s k r)) = true ->
  let s' := fst (do_respond s k r) in
  let o := snd (do_respond s k r) in
  exists i, nth_error (inits s) k = Some i /\ hs s = Some i /\
    cur s' = Some (mkKp (nsess s) true (now s) i r) /\ next s' = None /\ prev s' = rotated_in s /\
    (forall p, prev s = Some p -> honoured s' (lidx p) = false) /\
    (forall n c, next s = Some n -> cur s = Some c -> honoured s' (lidx c) = false) /\
    honoured s' i = true /\ hs s' = None /\
    o_sent o = repeat (nsess s) (N.to_nat (if staged s =? 0 then 1 else staged s)) /\ o_init o = false.
Proof.
  intros H. unfold do_respond.
  destruct (nth_error (inits s) k) as [i|] eqn:En; [|cbn; discriminate].
  destruct (lookup i (table s)) as [[|k0]|] eqn:El; try (cbn; discriminate).
  destruct (hs s) as [h|] eqn:Eh; [|cbn; discriminate].
  destruct (N.eqb_spec h i) as [->|]; [|cbn; discriminate].
  destruct (begin_init_facts s i r H Eh El) as (F1 & F2 & F3 & F4 & F5 & F6 & F7).
  destruct (bs_misc s true i r) as (M1 & M2 & _).
  set (s1 := begin_session s true i r) in *. clearbody s1.
  cbn [staged set_latch add_session].
  assert (Hcase : exists s3, (if staged s1 =? 0 then set_staged (set_latch (add_session s1 i) false) 1 else set_latch (add_session s1 i) false) = s3
             /\ cur s3 = cur s1 /\ prev s3 = prev s1 /\ next s3 = next s1 /\ table s3 = table s1 /\ hs s3 = hs s1 /\ now s3 = now s
             /\ staged s3 = (if staged s =? 0 then 1 else staged s)).
  { eexists; split; [reflexivity|]. rewrite M1. destruct (N.eqb_spec (staged s) 0); cbn; rewrite ?M1, ?M2; repeat split; reflexivity. }
  destruct Hcase as (s3 & -> & C1 & C2 & C3 & C4 & C5 & C6 & C7).
  rewrite (send_staged_fresh s3 (mkKp (nsess s) true (now s) i r)); cbn [created];
    [| congruence | congruence | rewrite C7; destruct (N.eqb_spec (staged s) 0); lia ].
  cbn [fst snd o_acc o_sent o_init id prev cur next hs set_staged]. intros _. exists i.
  unfold honoured in *. cbn [table set_staged]. rewrite C1, C2, C3, C4, C5, C7.
  repeat split; assumption.
Qed.

Lemma Inv_tick1 s : Inv s -> Inv (set_now s (now s + 1)).
Proof. intros H. apply Inv_set_now; [exact H|lia]. Qed.

Theorem initiator_completion_rotates evs k r :
  let s := R evs in
  let s' := fst (step s (Respond k r)) in
  let o := snd (step s (Respond k r)) in
  o_acc o = true ->
  exists i, nth_error (inits s) k = Some i /\ hs s = Some i /\
    cur s' = Some (mkKp (nsess s) true (now s + 1) i r) /\ next s' = None /\ prev s' = rotated_in s /\
    (forall p, prev s = Some p -> honoured s' (lidx p) = false) /\
    (forall n c, next s = Some n -> cur s = Some c -> honoured s' (lidx c) = false) /\
    honoured s' i = true /\ hs s' = None /\
    o_sent o = repeat (nsess s) (N.to_nat (if staged s =? 0 then 1 else staged s)) /\ o_init o = false.
Proof.
  intros s s' o. subst s' o. unfold step.
  apply (respond_rotates (set_now s (now s + 1)) k r). apply Inv_tick1, Inv_reachable.
Qed.

(* the composite event always completes *)
Theorem complete_initiator_accepted evs r :
  let s := R evs in
  o_acc (snd (step (fst (step s (Initiate true))) (Respond 0 r))) = true.
Proof.
  intros s. unfold step at 2. unfold do_initiate. cbn [set_last_sent].
  set (s0 := set_last_sent (set_now s (now s + 1)) None).
  assert (Hnr : rate_limited s0 = false) by reflexivity.
  unfold send_initiation. rewrite Hnr. cbn [fst].
  unfold step, do_respond. cbn [inits set_now nth_error table lookup hs].
  rewrite !N.eqb_refl. 
  set (x := send_staged _). destruct x as [[s4 sent] i1]. reflexivity.
Qed.

(* ---- 4. completing a handshake as responder ------------------------------------------ *)

Theorem responder_installs_unconfirmed evs r :
  let s := R evs in
  let s' := fst (step s (CompleteResponder r)) in
  let o := snd (step s (CompleteResponder r)) in
  next s' = Some (mkKp (nsess s) false (now s + 1) (nidx s) r) /\ cur s' = cur s /\ prev s' = None /\
  o_sent o = [] /\ o_resp o = true /\ o_init o = false /\
  (forall p, prev s = Some p -> honoured s' (lidx p) = false) /\
  (forall n, next s = Some n -> honoured s' (lidx n) = false) /\
  (forall h, hs s = Some h -> honoured s' h = false) /\
  honoured s' (nidx s) = true /\ hs s' = None.
Proof.
  intros s. pose proof (Inv_reachable evs) as H. fold (R evs) in H. fold s in H.
  pose proof (I_tbl s H) as Ht. pose proof (I_idx s H) as Hi. unfold keys in Hi.
  pose proof (I_prev s H) as Hp. pose proof (I_cur s H) as Hc. pose proof (I_next s H) as Hn. pose proof (I_hs s H) as Hh.
  unfold step, do_complete_responder, begin_session, honoured.
  cbn [fst snd o_sent o_resp o_init next cur prev hs table set_keys add_session set_now now nidx nsess].
  destruct (prev s) as [p|], (cur s) as [c|], (next s) as [n|], (hs s) as [h|];
    cbn [opt_list map app alldiff In opt_ok] in *; unfold kp_ok in *;
    (repeat split; try reflexivity;
     try (intros x E; try discriminate; inversion E; subst x));
    repeat (rewrite ?lookup_delete_kp, ?lookup_delete_opt, ?lookup_delete, ?lookup_swap); cbn [delete_kp delete_opt lookup];
    repeat (rewrite ?lookup_delete_kp, ?lookup_delete_opt, ?lookup_delete, ?lookup_swap);
    rewrite ?N.eqb_refl; eqbs; try reflexivity; try lia.
Qed.

(* ---- receive ------------------------------------------------------------------------- *)

Lemma table_kp_in_keys s i k :
  Inv s -> lookup i (table s) = Some (Kp k) -> In k (keys s) /\ lidx k = i.
Proof.
  intros H. rewrite (I_tbl s H). unfold keys, expect, slot_hit, hs_hit, orelse.
  destruct (prev s) as [p|], (cur s) as [c|], (next s) as [n|], (hs s) as [h|]; cbn [opt_list app In];
    eqbs; intros E; inversion E; subst; auto 6.
Qed.

Lemma alldiff_map_inj {A} (f : A -> N) l a b :
  alldiff (map f l) -> In a l -> In b l -> f a = f b -> a = b.
Proof.
  induction l as [|x l IH]; cbn [map alldiff In]; [tauto|].
  intros [Hn Hd] [->|Ha] [->|Hb] E; auto.
  - exfalso. apply Hn. rewrite E. apply in_map, Hb.
  - exfalso. apply Hn. rewrite <- E. apply in_map, Ha.
Qed.

Lemma received_with_cases s k :
  received_with s k = (s, false) \/
  exists n, next s = Some n /\ id n = id k /\
    received_with s k = (set_keys s (cur s) (Some n) None (delete_kp (prev s) (table s)) (hs s), true).
Proof.
  unfold received_with. destruct (next s) as [n|]; [|left; reflexivity].
  destruct (N.eqb_spec (id n) (id k)); [right; exists n; auto|left; reflexivity].
Qed.

(* shape of an accepted receive *)
Lemma recv_accepted s sid :
  Inv s -> o_acc (snd (do_recv s sid)) = true ->
  exists k, In k (keys s) /\ id k = sid /\ age s k <= reject_after_time /\
            assoc sid (sessions s) = Some (lidx k) /\ o_tun (snd (do_recv s sid)) = true.
Proof.
  intros H. unfold do_recv.
  destruct (assoc sid (sessions s)) as [i|] eqn:Ea; [|cbn; discriminate].
  destruct (lookup i (table s)) as [[|k]|] eqn:El; try (cbn; discriminate).
  destruct (N.ltb_spec reject_after_time (age s k)); [cbn; discriminate|].
  destruct (N.eqb_spec (id k) sid); cbn [negb]; [|cbn; discriminate].
  destruct (table_kp_in_keys s i k H El) as [Hin Hl].
  destruct (received_with s k) as [s1 pr].
  destruct (if pr then send_staged (set_latch s1 false) else (s1, [], false)) as [[s2 sent] i1].
  destruct (keep_key_fresh_receiving s2) as [s3 i2]. cbn [snd o_acc o_tun]. intros _.
  exists k. subst i. auto.
Qed.

Lemma recv_not_in_slots s sid i :
  Inv s -> assoc sid (sessions s) = Some i -> ~ In i (map lidx (keys s)) -> do_recv s sid = (s, out0).
Proof.
  intros H Ea Hn. unfold do_recv. rewrite Ea.
  destruct (lookup i (table s)) as [[|k]|] eqn:El; try reflexivity.
  destruct (table_kp_in_keys s i k H El) as [Hin <-]. exfalso. apply Hn, in_map, Hin.
Qed.

Lemma key_session s k : Inv s -> In k (keys s) -> assoc (id k) (sessions s) = Some (lidx k) /\ lidx k < nidx s.
Proof.
  intros H. pose proof (I_prev s H) as Hp. pose proof (I_cur s H) as Hc. pose proof (I_next s H) as Hn.
  unfold keys. destruct (prev s), (cur s), (next s); cbn [opt_list app In opt_ok] in *; unfold kp_ok in *;
    intuition (subst; auto).
Qed.

Lemma key_lookup s k : Inv s -> In k (keys s) -> lookup (lidx k) (table s) = Some (Kp k).
Proof.
  intros H. rewrite (I_tbl s H). pose proof (I_idx s H) as Hi. unfold keys in *. unfold expect, slot_hit, hs_hit, orelse.
  destruct (prev s) as [p|], (cur s) as [c|], (next s) as [n|], (hs s) as [h|];
    cbn [opt_list app In map alldiff] in *; intros Hin;
    repeat (destruct Hin as [Hin|Hin]); try contradiction; subst; rewrite ?N.eqb_refl; eqbs; try reflexivity; try lia.
Qed.

(* a key older than 180 s is refused *)
Lemma recv_expired_refused s k :
  Inv s -> In k (keys s) -> reject_after_time < age s k -> do_recv s (id k) = (s, out0).
Proof.
  intros H Hin Hage. unfold do_recv.
  destruct (key_session s k H Hin) as [-> _]. rewrite (key_lookup s k H Hin).
  destruct (N.ltb_spec reject_after_time (age s k)); [reflexivity|lia].
Qed.

(* ---- 6. confirmation -------------------------------------------------------------------- *)

Lemma recv_next_promotes s n :
  Inv s -> next s = Some n -> age s n <= reject_after_time ->
  let s' := fst (do_recv s (id n)) in
  let o := snd (do_recv s (id n)) in
  o_acc o = true /\ o_tun o = true /\ cur s' = Some n /\ prev s' = cur s /\ next s' = None /\
  (forall p, prev s = Some p -> honoured s' (lidx p) = false).
Proof.
  intros H En Hage.
  assert (Hin : In n (keys s)) by (unfold keys; rewrite En; apply in_or_app; right; apply in_or_app; right; left; reflexivity).
  unfold do_recv. destruct (key_session s n H Hin) as [-> Hlt]. rewrite (key_lookup s n H Hin).
  destruct (N.ltb_spec reject_after_time (age s n)); [lia|]. rewrite N.eqb_refl. cbn [negb].
  unfold received_with. rewrite En, N.eqb_refl.
  set (s1 := set_keys s (cur s) (Some n) None (delete_kp (prev s) (table s)) (hs s)).
  assert (Hh1 : forall p, prev s = Some p -> honoured s1 (lidx p) = false /\ lidx p < nidx s1).
  { intros p Ep. unfold honoured. subst s1. cbn [table set_keys nidx]. rewrite Ep. cbn [delete_kp].
    rewrite lookup_delete, N.eqb_refl. split; [reflexivity|].
    pose proof (I_prev s H) as Hp. rewrite Ep in Hp. apply Hp. }
  pose proof (slots_send_staged (set_latch s1 false)) as (A1 & A2 & A3).
  pose proof (nidx_send_staged (set_latch s1 false)) as Hni.
  pose proof (fun i => honoured_send_staged (set_latch s1 false) i) as Hss.
  destruct (send_staged (set_latch s1 false)) as [[s2 sent] i1]. cbn [fst] in *.
  pose proof (slots_kkfr s2) as (B1 & B2 & B3).
  pose proof (fun i => honoured_kkfr s2 i) as Hk.
  destruct (keep_key_fresh_receiving s2) as [s3 i2]. cbn [fst snd o_acc o_tun] in *.
  repeat split.
  - rewrite B2, A2. reflexivity.
  - rewrite B1, A1. reflexivity.
  - rewrite B3, A3. reflexivity.
  - intros p Ep. destruct (Hh1 p Ep) as [Hf Hl]. apply Hk; [cbn [nidx set_latch] in Hni; lia|].
    apply Hss; assumption.
Qed.

(* ---- sending ------------------------------------------------------------------------------ *)

Lemma send_staged_sent s x :
  In x (snd (fst (send_staged s))) ->
  exists k, cur s = Some k /\ id k = x /\ age s k < reject_after_time.
Proof.
  unfold send_staged. destruct (staged s =? 0); [intros []|].
  destruct (cur s) as [k|].
  - destruct (N.leb_spec reject_after_time (age s k)).
    + destruct (send_initiation s); intros [].
    + assert (Hr : forall l, In x l -> l = repeat (id k) (N.to_nat (staged s)) -> exists k0, Some k = Some k0 /\ id k0 = x /\ age s k0 < reject_after_time).
      { intros l Hl ->. apply repeat_spec in Hl. exists k. auto. }
      destruct (initiator k && (rekey_after_time <? age s k)).
      * destruct (send_initiation (set_staged s 0)). cbn [fst snd]. intros Hl. eapply Hr; [exact Hl|reflexivity].
      * cbn [fst snd]. intros Hl. eapply Hr; [exact Hl|reflexivity].
  - destruct (send_initiation s); intros [].
Qed.

Lemma now_send_initiation s : now (fst (send_initiation s)) = now s.
Proof. unfold send_initiation. destruct (rate_limited s); reflexivity. Qed.
Lemma now_send_staged s : now (fst (fst (send_staged s))) = now s.
Proof.
  unfold send_staged. destruct (staged s =? 0); [reflexivity|].
  destruct (cur s) as [k|].
  - destruct (reject_after_time <=? age s k).
    + pose proof (now_send_initiation s). destruct (send_initiation s); exact H.
    + destruct (initiator k && (rekey_after_time <? age s k)).
      * pose proof (now_send_initiation (set_staged s 0)). destruct (send_initiation (set_staged s 0)); exact H.
      * reflexivity.
  - pose proof (now_send_initiation s). destruct (send_initiation s); exact H.
Qed.
Lemma now_kkfr s : now (fst (keep_key_fresh_receiving s)) = now s.
Proof.
  unfold keep_key_fresh_receiving. destruct (latch s); [reflexivity|].
  destruct (cur s) as [k|]; [|reflexivity].
  destruct (initiator k && (rekey_recv_time <? age s k)); [|reflexivity].
  apply (now_send_initiation (set_latch s true)).
Qed.

(* Data goes out only under the current key (as it is after the event), younger than 180 s. *)
Lemma sends_under_current s e x :
  Inv s -> In x (o_sent (snd (step s e))) ->
  exists k, cur (fst (step s e)) = Some k /\ id k = x /\
            now (fst (step s e)) - created k < reject_after_time.
Proof.
  intros H. pose proof (Inv_tick1 s H) as H0. unfold step. set (s0 := set_now s (now s + 1)) in *. clearbody s0.
  destruct e.
  - unfold do_initiate. destruct (send_initiation _). intros [].
  - destruct (o_acc (snd (do_respond s0 k r))) eqn:Ea.
    + destruct (respond_rotates s0 k r H0 Ea) as (i & _ & _ & Hc & _ & _ & _ & _ & _ & _ & Hs & _).
      rewrite Hs. intros Hx. apply repeat_spec in Hx. subst x. eexists; split; [exact Hc|]. cbn [id created]. split; [reflexivity|].
      assert (Hn : now (fst (do_respond s0 k r)) = now s0).
      { clear. unfold do_respond. destruct (nth_error (inits s0) k); [|reflexivity].
        destruct (match lookup n (table s0) with Some Hs => match hs s0 with Some h => h =? n | None => false end | _ => false end); [|reflexivity].
        set (s3 := if staged _ =? 0 then _ else _).
        assert (now s3 = now s0).
        { subst s3. destruct (bs_misc s0 true n r) as (_ & M2 & _). destruct (staged _ =? 0); cbn [now set_staged set_latch add_session]; exact M2. }
        pose proof (now_send_staged s3). destruct (send_staged s3) as [[s4 sent] i1]. cbn [fst] in *. congruence. }
      rewrite Hn, N.sub_diag. reflexivity.
    + unfold do_respond in *. destruct (nth_error (inits s0) k); [|intros []].
      destruct (match lookup n (table s0) with Some Hs => match hs s0 with Some h => h =? n | None => false end | _ => false end); [|intros []].
      destruct (send_staged _) as [[s4 sent] i1]. cbn in Ea. discriminate.
  - cbn. intros [].
  - unfold do_recv. destruct (assoc sid (sessions s0)) as [i|]; [|intros []].
    destruct (lookup i (table s0)) as [[|k]|]; try (intros []).
    destruct (reject_after_time <? age s0 k); [intros []|].
    destruct (negb (id k =? sid)); [intros []|].
    destruct (received_with s0 k) as [s1 pr].
    destruct pr.
    + pose proof (send_staged_sent (set_latch s1 false) x) as Hs.
      pose proof (slots_send_staged (set_latch s1 false)) as (_ & A2 & _).
      pose proof (now_send_staged (set_latch s1 false)) as An.
      destruct (send_staged (set_latch s1 false)) as [[s2 sent] i1]. cbn [fst snd] in *.
      pose proof (slots_kkfr s2) as (_ & B2 & _). pose proof (now_kkfr s2) as Bn.
      destruct (keep_key_fresh_receiving s2) as [s3 i2]. cbn [fst snd o_sent] in *.
      intros Hx. destruct (Hs Hx) as (k0 & Hc & Hi & Ha). exists k0. unfold age in Ha. cbn [now set_latch cur] in *.
      repeat split; [congruence|exact Hi|rewrite Bn, An; exact Ha].
    + destruct (keep_key_fresh_receiving s1) as [s3 i2]. intros [].
  - unfold do_send, do_transmit.
    pose proof (send_staged_sent (set_staged s0 (staged s0 + 1)) x) as Hs.
    pose proof (slots_send_staged (set_staged s0 (staged s0 + 1))) as (_ & A2 & _).
    pose proof (now_send_staged (set_staged s0 (staged s0 + 1))) as An.
    destruct (send_staged _) as [[s1 sent] i]. cbn [fst snd o_sent] in *.
    intros Hx. destruct (Hs Hx) as (k0 & Hc & Hi & Ha). exists k0. unfold age in Ha. cbn [now set_staged cur] in *.
    repeat split; [congruence|exact Hi|rewrite An; exact Ha].
  - intros [].
  - intros [].
  - intros [].
  - intros [].
  - unfold do_keepalive, do_transmit. set (m := if staged s0 =? 0 then 1 else staged s0).
    pose proof (send_staged_sent (set_staged s0 m) x) as Hs.
    pose proof (slots_send_staged (set_staged s0 m)) as (_ & A2 & _).
    pose proof (now_send_staged (set_staged s0 m)) as An.
    destruct (send_staged _) as [[s1 sent] i]. cbn [fst snd o_sent] in *.
    intros Hx. destruct (Hs Hx) as (k0 & Hc & Hi & Ha). exists k0. unfold age in Ha. cbn [now set_staged cur] in *.
    repeat split; [congruence|exact Hi|rewrite An; exact Ha].
  - intros [].
Qed.

(* what SendHandshakeInitiation does when it is called *)
Lemma send_initiation_spec s :
  snd (send_initiation s) = negb (rate_limited s) /\
  staged (fst (send_initiation s)) = staged s /\ latch (fst (send_initiation s)) = latch s /\
  (snd (send_initiation s) = true ->
     hs (fst (send_initiation s)) = Some (nidx s) /\ honoured (fst (send_initiation s)) (nidx s) = true /\
     last_sent (fst (send_initiation s)) = Some (now s)).
Proof.
  unfold send_initiation, honoured. destruct (rate_limited s); cbn [fst snd negb hs table lookup last_sent staged latch].
  - repeat split; discriminate.
  - rewrite N.eqb_refl. repeat split.
Qed.

(* ---- 8/10. sending: rekey after 120 s (initiator only), handshake instead of an expired key ---- *)

(* the two kinds of transmission: a data packet from the TUN, a keepalive *)
Definition is_send (e : event) : Prop := e = Send \/ e = Keepalive.
Definition pending (s : state) (e : event) : N :=
  match e with
  | Keepalive => if staged s =? 0 then 1 else staged s
  | _ => staged s + 1
  end.

Lemma step_transmit s e :
  is_send e -> step s e = do_transmit (set_now s (now s + 1)) (pending s e) /\ pending s e <> 0.
Proof.
  intros [->| ->]; unfold step, do_send, do_keepalive, pending; cbn [staged set_now].
  - split; [reflexivity|lia].
  - split; [reflexivity|]. destruct (N.eqb_spec (staged s) 0); lia.
Qed.

Lemma transmit_cases s m :
  m <> 0 ->
  let s' := fst (do_transmit s m) in let o := snd (do_transmit s m) in
  match cur s with
  | None => o_sent o = [] /\ o_init o = negb (rate_limited s) /\ staged s' = m
  | Some k =>
      if reject_after_time <=? age s k
      then o_sent o = [] /\ o_init o = negb (rate_limited s) /\ staged s' = m
      else o_sent o = repeat (id k) (N.to_nat m) /\ staged s' = 0 /\
           o_init o = (initiator k && (rekey_after_time <? age s k)) && negb (rate_limited s)
  end /\
  (o_init o = true -> hs s' = Some (nidx s) /\ honoured s' (nidx s) = true).
Proof.
  intros Hm. unfold do_transmit, send_staged. cbn [staged set_staged cur]. destruct (N.eqb_spec m 0); [contradiction|].
  unfold age. cbn [now set_staged].
  destruct (cur s) as [k|].
  - destruct (reject_after_time <=? now s - created k).
    + pose proof (send_initiation_spec (set_staged s m)) as (A & B & _ & C).
      destruct (send_initiation _) as [s1 i]. cbn [fst snd o_sent o_init] in *.
      repeat split; try assumption; apply C; assumption.
    + destruct (initiator k && (rekey_after_time <? now s - created k)).
      * pose proof (send_initiation_spec (set_staged (set_staged s m) 0)) as (A & B & _ & C).
        destruct (send_initiation _) as [s1 i]. cbn [fst snd o_sent o_init] in *.
        repeat split; try assumption; apply C; assumption.
      * cbn [fst snd o_sent o_init staged set_staged]. repeat split; discriminate.
  - pose proof (send_initiation_spec (set_staged s m)) as (A & B & _ & C).
    destruct (send_initiation _) as [s1 i]. cbn [fst snd o_sent o_init] in *.
    repeat split; try assumption; apply C; assumption.
Qed.

(* ---- 9. receiving: rekey after 165 s, initiator only, once ----------------------------------- *)

Lemma recv_rekey s sid k :
  Inv s -> o_acc (snd (do_recv s sid)) = true ->
  cur (fst (do_recv s sid)) = Some k -> initiator k = true ->
  let o := snd (do_recv s sid) in let s' := fst (do_recv s sid) in
  cur s = Some k /\
  (rekey_recv_time < age s k -> latch s = false ->
     o_init o = negb (rate_limited s) /\ latch s' = true /\ (o_init o = true -> hs s' = Some (nidx s))) /\
  (age s k <= rekey_recv_time \/ latch s = true -> o_init o = false).
Proof.
  intros H. unfold do_recv.
  destruct (assoc sid (sessions s)) as [i|] eqn:Ea; [|cbn; discriminate].
  destruct (lookup i (table s)) as [[|k0]|] eqn:El; try (cbn; discriminate).
  destruct (reject_after_time <? age s k0); [cbn; discriminate|].
  destruct (negb (id k0 =? sid)); [cbn; discriminate|].
  destruct (received_with_cases s k0) as [->|(n & En & _ & ->)].
  - (* no promotion *)
    unfold keep_key_fresh_receiving.
    destruct (latch s) eqn:El'.
    + cbn [fst snd o_init orb]. intros _ Hc Hi. repeat split; auto; intros; try discriminate. 
    + destruct (cur s) as [c|] eqn:Ec.
      * destruct (initiator c && (rekey_recv_time <? age s c)) eqn:Eb.
        -- pose proof (send_initiation_spec (set_latch s true)) as (A & _ & B & C).
           pose proof (slots_send_initiation (set_latch s true)) as (_ & S2 & _).
           destruct (send_initiation (set_latch s true)) as [s3 i2]. cbn [fst snd o_init orb o_acc cur set_latch latch nidx] in *.
           intros _ Hc Hi. assert (c = k) by congruence. subst c. split; [reflexivity|]. split.
           ++ intros _ _. repeat split; try assumption. intros E. apply C, E.
           ++ intros [Hle|Hf]; [|discriminate]. apply andb_prop in Eb. destruct Eb as [_ Eb]. apply N.ltb_lt in Eb. lia.
        -- cbn [fst snd o_init orb cur]. intros _ Hc Hi. assert (c = k) by congruence. subst c.
           split; [reflexivity|]. split; [|reflexivity].
           intros Hlt _. rewrite Hi in Eb. cbn [andb] in Eb. apply N.ltb_ge in Eb. lia.
      * cbn [fst cur]. intros _ Hc. congruence.
  - (* promotion: the new current key was made as responder *)
    set (s1 := set_keys s (cur s) (Some n) None (delete_kp (prev s) (table s)) (hs s)).
    pose proof (slots_send_staged (set_latch s1 false)) as (_ & A2 & _).
    destruct (send_staged (set_latch s1 false)) as [[s2 sent] i1]. cbn [fst] in *.
    pose proof (slots_kkfr s2) as (_ & B2 & _).
    destruct (keep_key_fresh_receiving s2) as [s3 i2]. cbn [fst snd cur set_latch set_keys] in *.
    intros _ Hc Hi. exfalso. pose proof (I_next s H) as Hn. rewrite En in Hn. cbn [opt_ok] in Hn.
    subst s1. cbn [cur set_keys set_latch] in A2. assert (n = k) by congruence. subst n. destruct Hn as [_ Hn]. congruence.
Qed.

(* ---- 5. nothing is sent under an unconfirmed key --------------------------------------------- *)

(* how the current key can change in one event *)
Lemma cur_change s e k :
  Inv s -> cur (fst (step s e)) = Some k -> initiator k = false ->
  cur s = Some k \/ (e = Recv (id k) /\ o_acc (snd (step s e)) = true).
Proof.
  intros H. pose proof (Inv_tick1 s H) as H0. unfold step.
  assert (Hc0 : cur (set_now s (now s + 1)) = cur s) by reflexivity.
  set (s0 := set_now s (now s + 1)) in *. clearbody s0. rewrite <- Hc0. clear Hc0 H s. rename s0 into s.
  destruct e.
  - unfold do_initiate.
    pose proof (slots_send_initiation (if force then set_last_sent s None else s)) as (_ & A & _).
    destruct (send_initiation _). cbn [fst] in *. rewrite A. destruct force; auto.
  - destruct (o_acc (snd (do_respond s k0 r))) eqn:Ea.
    + destruct (respond_rotates s k0 r H0 Ea) as (i & _ & _ & Hc & _). rewrite Hc. intros E Hi. inversion E. subst k. discriminate.
    + unfold do_respond in *. destruct (nth_error (inits s) k0); [|auto].
      destruct (match lookup n (table s) with Some Hs => match hs s with Some h => h =? n | None => false end | _ => false end); [|auto].
      destruct (send_staged _) as [[s4 sent] i1]. cbn in Ea. discriminate.
  - unfold do_complete_responder, begin_session. cbn [fst cur add_session set_keys]. auto.
  - unfold do_recv.
    destruct (assoc sid (sessions s)) as [i|] eqn:Ea; [|auto].
    destruct (lookup i (table s)) as [[|k0]|] eqn:El; auto.
    destruct (reject_after_time <? age s k0); [auto|].
    destruct (N.eqb_spec (id k0) sid); cbn [negb]; [|auto].
    destruct (received_with_cases s k0) as [->|(n & En & Hid & ->)].
    + pose proof (slots_kkfr s) as (_ & B & _). destruct (keep_key_fresh_receiving s). cbn [fst] in *. rewrite B. auto.
    + pose proof (slots_send_staged (set_latch (set_keys s (cur s) (Some n) None (delete_kp (prev s) (table s)) (hs s)) false)) as (_ & A2 & _).
      destruct (send_staged _) as [[s2 sent] i1]. cbn [fst] in *.
      pose proof (slots_kkfr s2) as (_ & B2 & _).
      destruct (keep_key_fresh_receiving s2) as [s3 i2]. cbn [fst snd cur set_latch set_keys o_acc] in *.
      intros Hc _. right. assert (n = k) by congruence. subst n. split; [congruence|reflexivity].
  - unfold do_send, do_transmit. pose proof (slots_send_staged (set_staged s (staged s + 1))) as (_ & A & _).
    destruct (send_staged _) as [[s1 sent] i]. cbn [fst] in *. rewrite A. auto.
  - cbn. auto.
  - cbn. auto.
  - cbn. auto.
  - cbn. discriminate.
  - unfold do_keepalive, do_transmit. pose proof (slots_send_staged (set_staged s (if staged s =? 0 then 1 else staged s))) as (_ & A & _).
    destruct (send_staged _) as [[s1 sent] i]. cbn [fst] in *. rewrite A. auto.
  - cbn. auto.
Qed.

(* x was confirmed in the history evs: some earlier event was data received and accepted under x *)
Definition confirmed (evs : list event) (x : N) : Prop :=
  exists pre post, evs = pre ++ Recv x :: post /\ o_acc (snd (step (R pre) (Recv x))) = true.

Lemma confirmed_snoc evs e x : confirmed evs x -> confirmed (evs ++ [e]) x.
Proof. intros (pre & post & -> & H). exists pre, (post ++ [e]). rewrite <- app_assoc. auto. Qed.

Lemma R_snoc evs e : R (evs ++ [e]) = fst (step (R evs) e).
Proof. unfold R. rewrite final_app. unfold final at 1. cbn [run]. destruct (step _ e). reflexivity. Qed.

Lemma current_responder_key_confirmed evs k :
  cur (R evs) = Some k -> initiator k = false -> confirmed evs (id k).
Proof.
  revert k. induction evs as [|e evs IH] using rev_ind; intros k.
  - cbn. discriminate.
  - rewrite R_snoc. intros Hc Hi.
    destruct (cur_change (R evs) e k (Inv_reachable evs) Hc Hi) as [Hprev|[-> Hacc]].
    + apply confirmed_snoc, IH; assumption.
    + exists evs, []. auto.
Qed.

Theorem no_send_under_unconfirmed evs e x :
  let s := R evs in
  In x (o_sent (snd (step s e))) ->
  exists k, cur (fst (step s e)) = Some k /\ id k = x /\
            (forall n, next (fst (step s e)) = Some n -> id n <> x) /\
            (initiator k = false -> confirmed (evs ++ [e]) x).
Proof.
  intros s Hx. subst s. destruct (sends_under_current (R evs) e x (Inv_reachable evs) Hx) as (k & Hc & Hi & _).
  exists k. repeat split; try assumption.
  - intros n Hn E. pose proof (Inv_reachable (evs ++ [e])) as H'. fold (R (evs ++ [e])) in H'. rewrite <- R_snoc in Hc, Hn.
    pose proof (I_ids _ H') as Hd. unfold keys in Hd. rewrite Hc, Hn in Hd.
    destruct (prev (R (evs ++ [e]))); cbn [opt_list map app alldiff In] in Hd; intuition congruence.
  - intros Hin. subst x. apply current_responder_key_confirmed; [rewrite R_snoc; exact Hc|exact Hin].
Qed.

(* ---- the clauses as theorems over all event lists ---------------------------------------------- *)

Lemma keys_tick s : keys (set_now s (now s + 1)) = keys s. Proof. reflexivity. Qed.

(* 6 *)
Theorem confirmation_promotes evs n :
  let s := R evs in
  next s = Some n -> now s + 1 - created n <= reject_after_time ->
  let s' := fst (step s (Recv (id n))) in
  let o := snd (step s (Recv (id n))) in
  o_acc o = true /\ o_tun o = true /\ cur s' = Some n /\ prev s' = cur s /\ next s' = None /\
  (forall p, prev s = Some p -> honoured s' (lidx p) = false).
Proof.
  intros s En Hage. unfold step.
  apply (recv_next_promotes (set_now s (now s + 1)) n); [apply Inv_tick1, Inv_reachable|exact En|exact Hage].
Qed.

(* "Keys rotated out of these three slots are refused immediately": a session whose index is not
   the index of one of the three slots is refused, and nothing changes but the clock. *)
Theorem rotated_out_refused evs sid i :
  let s := R evs in
  assoc sid (sessions s) = Some i -> ~ In i (map lidx (keys s)) ->
  step s (Recv sid) = (set_now s (now s + 1), out0).
Proof.
  intros s Ea Hn. unfold step.
  apply (recv_not_in_slots (set_now s (now s + 1)) sid i); [apply Inv_tick1, Inv_reachable|exact Ea|exact Hn].
Qed.

(* 7 *)
Theorem no_use_after_180s_send evs e x :
  let s := R evs in
  In x (o_sent (snd (step s e))) ->
  exists k, cur (fst (step s e)) = Some k /\ id k = x /\ now (fst (step s e)) - created k < reject_after_time.
Proof. intros s. apply sends_under_current, Inv_reachable. Qed.

Theorem no_use_after_180s_recv evs sid :
  let s := R evs in
  o_acc (snd (step s (Recv sid))) = true ->
  exists k, In k (keys s) /\ id k = sid /\ now s + 1 - created k <= reject_after_time.
Proof.
  intros s Ha. unfold step in Ha.
  destruct (recv_accepted (set_now s (now s + 1)) sid (Inv_tick1 s (Inv_reachable evs)) Ha) as (k & Hin & Hid & Hage & _).
  exists k. auto.
Qed.

Theorem expired_key_refused evs k :
  let s := R evs in
  In k (keys s) -> reject_after_time < now s + 1 - created k ->
  step s (Recv (id k)) = (set_now s (now s + 1), out0).
Proof.
  intros s Hin Hage. unfold step.
  apply (recv_expired_refused (set_now s (now s + 1)) k); [apply Inv_tick1, Inv_reachable|exact Hin|exact Hage].
Qed.

(* 8 *)
Theorem initiator_rekeys_after_120_send evs k e :
  let s := R evs in
  is_send e ->
  cur s = Some k -> now s + 1 - created k < reject_after_time ->
  let s' := fst (step s e) in
  let o := snd (step s e) in
  o_sent o = repeat (id k) (N.to_nat (pending s e)) /\
  o_init o = (initiator k && (rekey_after_time <? now s + 1 - created k)) && negb (rate_limited (set_now s (now s + 1))) /\
  (o_init o = true -> hs s' = Some (nidx s) /\ honoured s' (nidx s) = true).
Proof.
  intros s He Hc Hage. destruct (step_transmit s e He) as [-> Hm].
  pose proof (transmit_cases (set_now s (now s + 1)) (pending s e) Hm) as [A B]. cbn [cur set_now] in A. rewrite Hc in A.
  unfold age in A. cbn [now set_now] in A.
  destruct (N.leb_spec reject_after_time (now s + 1 - created k)); [lia|].
  destruct A as (A1 & A2 & A3). cbn [staged set_now nidx] in *. auto.
Qed.

(* 10 *)
Theorem expired_current_forces_handshake evs e :
  let s := R evs in
  is_send e ->
  (cur s = None \/ exists k, cur s = Some k /\ reject_after_time <= now s + 1 - created k) ->
  let s' := fst (step s e) in
  let o := snd (step s e) in
  o_sent o = [] /\ staged s' = pending s e /\
  o_init o = negb (rate_limited (set_now s (now s + 1))) /\
  (o_init o = true -> hs s' = Some (nidx s) /\ honoured s' (nidx s) = true).
Proof.
  intros s He Hc. destruct (step_transmit s e He) as [-> Hm].
  pose proof (transmit_cases (set_now s (now s + 1)) (pending s e) Hm) as [A B]. cbn [cur set_now] in A.
  destruct Hc as [Hc|(k & Hc & Hage)]; rewrite Hc in A.
  - destruct A as (A1 & A2 & A3). cbn [staged set_now nidx] in *. auto.
  - unfold age in A. cbn [now set_now] in A.
    destruct (N.leb_spec reject_after_time (now s + 1 - created k)); [|lia].
    destruct A as (A1 & A2 & A3). cbn [staged set_now nidx] in *. auto.
Qed.

(* 9 *)
Theorem initiator_rekeys_after_165_recv evs sid k :
  let s := R evs in
  let s' := fst (step s (Recv sid)) in
  let o := snd (step s (Recv sid)) in
  o_acc o = true -> cur s' = Some k -> initiator k = true ->
  cur s = Some k /\
  (rekey_recv_time < now s + 1 - created k -> latch s = false ->
     o_init o = negb (rate_limited (set_now s (now s + 1))) /\ latch s' = true /\
     (o_init o = true -> hs s' = Some (nidx s))) /\
  (now s + 1 - created k <= rekey_recv_time \/ latch s = true -> o_init o = false).
Proof.
  intros s s' o Ha Hc Hi. subst s' o. unfold step in *.
  apply (recv_rekey (set_now s (now s + 1)) sid k (Inv_tick1 s (Inv_reachable evs)) Ha Hc Hi).
Qed.

(* only the initiator of the current session re-keys on send / receive *)
Theorem responder_does_not_rekey evs k :
  let s := R evs in
  cur s = Some k -> initiator k = false -> now s + 1 - created k < reject_after_time ->
  (forall e, is_send e -> o_init (snd (step s e)) = false) /\
  (forall sid, cur (fst (step s (Recv sid))) = Some k -> o_init (snd (step s (Recv sid))) = false).
Proof.
  intros s Hc Hi Hage. split.
  - intros e He. destruct (initiator_rekeys_after_120_send evs k e He Hc Hage) as (_ & A & _). fold s in A. rewrite A, Hi. reflexivity.
  - intros sid Hc'. unfold step in *. set (s0 := set_now s (now s + 1)) in *.
    assert (H0 : Inv s0) by (apply Inv_tick1, Inv_reachable).
    assert (Hc0 : cur s0 = Some k) by exact Hc.
    assert (Hage0 : age s0 k < reject_after_time) by exact Hage.
    clearbody s0. revert Hc'. unfold do_recv.
    destruct (assoc sid (sessions s0)) as [i|]; [|reflexivity].
    destruct (lookup i (table s0)) as [[|k0]|]; try reflexivity.
    destruct (reject_after_time <? age s0 k0); [reflexivity|].
    destruct (negb (id k0 =? sid)); [reflexivity|].
    destruct (received_with_cases s0 k0) as [->|(n & En & _ & ->)].
    + unfold keep_key_fresh_receiving. destruct (latch s0); [reflexivity|]. rewrite Hc0, Hi. reflexivity.
    + pose proof (slots_send_staged (set_latch (set_keys s0 (cur s0) (Some n) None (delete_kp (prev s0) (table s0)) (hs s0)) false)) as (_ & A2 & _).
      destruct (send_staged _) as [[s2 sent] i1]. cbn [fst] in *.
      pose proof (slots_kkfr s2) as (_ & B2 & _).
      destruct (keep_key_fresh_receiving s2) as [s3 i2]. cbn [fst snd cur set_latch set_keys] in *.
      intros Hc'. exfalso. assert (n = k) by congruence. subst n.
      pose proof (I_ids s0 H0) as Hd. unfold keys in Hd. rewrite Hc0, En in Hd.
      destruct (prev s0); cbn [opt_list map app alldiff In] in Hd; intuition congruence.
Qed.

(* ---- next and previous are never occupied together ------------------------------------------ *)

(* While a key waits in next there is no previous key: completing as responder empties previous,
   and every event that fills previous empties next.  (So the DeleteKeypair(old previous) in
   ReceivedWithKeypair never has anything to delete in a sequential history.) *)
Definition next_excl (s : state) : Prop := next s <> None -> prev s = None.

Lemma next_excl_same s s' : same_slots s s' -> next_excl s -> next_excl s'.
Proof. intros (A & _ & C) H. unfold next_excl in *. rewrite A, C. exact H. Qed.

Lemma next_excl_step s e : Inv s -> next_excl s -> next_excl (fst (step s e)).
Proof.
  intros H P. pose proof (Inv_tick1 s H) as H0. unfold step.
  assert (P0 : next_excl (set_now s (now s + 1))) by exact P.
  set (s0 := set_now s (now s + 1)) in *. clearbody s0. clear H P s. rename s0 into s.
  destruct e.
  - unfold do_initiate.
    pose proof (slots_send_initiation (if force then set_last_sent s None else s)) as Hs.
    destruct (send_initiation _). cbn [fst] in *. eapply next_excl_same; [exact Hs|]. destruct force; exact P0.
  - destruct (o_acc (snd (do_respond s k r))) eqn:Ea.
    + destruct (respond_rotates s k r H0 Ea) as (i & _ & _ & _ & Hn & _). intros C. congruence.
    + unfold do_respond in *. destruct (nth_error (inits s) k); [|exact P0].
      destruct (match lookup n (table s) with Some Hs => match hs s with Some h => h =? n | None => false end | _ => false end); [|exact P0].
      destruct (send_staged _) as [[s4 sent] i1]. cbn in Ea. discriminate.
  - unfold do_complete_responder, begin_session. cbn [fst]. intros _. reflexivity.
  - unfold do_recv.
    destruct (assoc sid (sessions s)) as [i|]; [|exact P0].
    destruct (lookup i (table s)) as [[|k0]|]; try exact P0.
    destruct (reject_after_time <? age s k0); [exact P0|].
    destruct (negb (id k0 =? sid)); [exact P0|].
    destruct (received_with_cases s k0) as [->|(n & En & Hid & ->)].
    + pose proof (slots_kkfr s) as Hs. destruct (keep_key_fresh_receiving s). cbn [fst] in *.
      eapply next_excl_same; [exact Hs|exact P0].
    + pose proof (slots_send_staged (set_latch (set_keys s (cur s) (Some n) None (delete_kp (prev s) (table s)) (hs s)) false)) as (_ & _ & A3).
      destruct (send_staged _) as [[s2 sent] i1]. cbn [fst] in *.
      pose proof (slots_kkfr s2) as (_ & _ & B3).
      destruct (keep_key_fresh_receiving s2) as [s3 i2]. cbn [fst snd next set_latch set_keys] in *.
      intros C. congruence.
  - unfold do_send, do_transmit. pose proof (slots_send_staged (set_staged s (staged s + 1))) as Hs.
    destruct (send_staged _) as [[s1 sent] i]. cbn [fst] in *. eapply next_excl_same; [exact Hs|exact P0].
  - exact P0.
  - exact P0.
  - exact P0.
  - intros _. reflexivity.
  - unfold do_keepalive, do_transmit. pose proof (slots_send_staged (set_staged s (if staged s =? 0 then 1 else staged s))) as Hs.
    destruct (send_staged _) as [[s1 sent] i]. cbn [fst] in *. eapply next_excl_same; [exact Hs|exact P0].
  - exact P0.
Qed.

Theorem next_excludes_previous evs : next (R evs) <> None -> prev (R evs) = None.
Proof.
  assert (H : Inv (R evs) /\ next_excl (R evs)).
  { unfold R. apply (final_inv step (fun s => Inv s /\ next_excl s)).
    - intros s o [A B]. split; [apply Inv_step, A|apply next_excl_step; assumption].
    - split; [exact Inv_init|]. intros C. reflexivity. }
  exact (proj2 H).
Qed.

Corollary at_most_two_at_once evs : (length (keys (R evs)) <= 2)%nat.
Proof.
  pose proof (next_excludes_previous evs) as H. unfold keys.
  destruct (next (R evs)) as [n|].
  - rewrite H by discriminate. destruct (cur (R evs)); cbn; lia.
  - destruct (prev (R evs)), (cur (R evs)); cbn; lia.
Qed.

(* ---- messages that do not authenticate ----------------------------------------------------------- *)

(* A forged or replayed transport message leaves everything but the clock unchanged and produces
   nothing -- in particular it cannot confirm the key waiting in next. *)
Theorem unauthentic_receive_inert evs sid :
  let s := R evs in
  step s (Forged sid) = (set_now s (now s + 1), out0) /\
  step s (Replay sid) = (set_now s (now s + 1), out0).
Proof. split; reflexivity. Qed.

(* "confirmed" only ever refers to an authentic, accepted Recv: a history whose receive events under
   x are all forged or replayed never confirms x. *)
Lemma confirmed_needs_authentic evs x :
  confirmed evs x -> In (Recv x) evs.
Proof. intros (pre & post & -> & _). apply in_or_app. right. left. reflexivity. Qed.

Corollary no_send_without_authentic_receive evs e x k :
  In x (o_sent (snd (step (R evs) e))) -> cur (fst (step (R evs) e)) = Some k -> initiator k = false ->
  In (Recv x) (evs ++ [e]).
Proof.
  intros Hx Hc Hi. destruct (no_send_under_unconfirmed evs e x Hx) as (k' & Hc' & Hid & _ & Hconf).
  assert (k' = k) by congruence. subst k'. apply confirmed_needs_authentic, Hconf, Hi.
Qed.

(* ---- restart (interface down/up) ----------------------------------------------------------------- *)

(* After a restart the peer holds no key, no handshake is pending and the index table honours
   NOTHING: every index ever issued is refused. *)
Theorem restart_refuses_all evs :
  let s' := fst (step (R evs) Restart) in
  keys s' = [] /\ hs s' = None /\ staged s' = 0 /\ snd (step (R evs) Restart) = out0 /\
  (forall i, honoured s' i = false) /\
  (forall sid, step s' (Recv sid) = (set_now s' (now s' + 1), out0)).
Proof.
  intros s'.
  assert (HR : s' = R (evs ++ [Restart])) by (subst s'; rewrite R_snoc; reflexivity).
  assert (Hk : keys s' = []) by reflexivity.
  assert (Hh : hs s' = None) by reflexivity.
  assert (Hhon : forall i, honoured s' i = false).
  { intros i. destruct (honoured s' i) eqn:E; [|reflexivity]. exfalso.
    rewrite HR in E. apply index_table_is_slots in E. rewrite <- HR in E. rewrite Hk, Hh in E.
    destruct E as [[]|E]; discriminate. }
  repeat split; try assumption.
  intros sid. destruct (assoc sid (sessions s')) as [i|] eqn:Ea.
  - rewrite HR. apply (rotated_out_refused (evs ++ [Restart]) sid i); rewrite <- HR; [exact Ea|rewrite Hk; intros []].
  - unfold step, do_recv. cbn [sessions set_now]. rewrite Ea. reflexivity.
Qed.

(* ---- an abandoned handshake attempt -------------------------------------------------------------------- *)

(* Giving up a handshake attempt only flushes the staged packets: keys, index table, pending handshake
   index, spacing and latch are untouched and nothing is sent -- so every later send is judged by
   initiator_rekeys_after_120_send exactly as if no attempt had been abandoned. *)
Theorem abandon_only_flushes evs :
  let s := R evs in
  step s Abandon = (set_staged (set_now s (now s + 1)) 0, out0).
Proof. reflexivity. Qed.

(* ---- the response-processing window ([step_window]) ----------------------------------------- *)
Lemma send_initiation_latch s : latch (fst (send_initiation s)) = latch s.
Proof. unfold send_initiation. destruct (rate_limited s); reflexivity. Qed.

Lemma send_staged_latch s : latch (fst (fst (send_staged s))) = latch s.
Proof.
  unfold send_staged. destruct (staged s =? 0); [reflexivity|].
  destruct (cur s) as [k|].
  - destruct (reject_after_time <=? age s k).
    + pose proof (send_initiation_latch s) as H. destruct (send_initiation s). exact H.
    + destruct (initiator k && (rekey_after_time <? age s k)); [|reflexivity].
      pose proof (send_initiation_latch (set_staged s 0)) as H. destruct (send_initiation (set_staged s 0)). exact H.
  - pose proof (send_initiation_latch s) as H. destruct (send_initiation s). exact H.
Qed.

(* an accepted response leaves the receive-side latch clear: timersHandshakeComplete runs after the key is installed *)
Lemma respond_clears_latch s k r :
  o_acc (snd (step s (Respond k r))) = true -> latch (fst (step s (Respond k r))) = false.
Proof.
  unfold step, do_respond. set (s0 := set_now s (now s + 1)).
  destruct (nth_error (inits s0) k) as [i|]; [|discriminate].
  match goal with |- context [if ?c then _ else _] => destruct c end; [|discriminate].
  intros _.
  match goal with |- context [send_staged ?x] => pose proof (send_staged_latch x) as H; destruct (send_staged x) as [[s4 sent] i1] end.
  cbn [fst snd] in *. rewrite H.
  match goal with |- context [if ?c then _ else _] => destruct c end; reflexivity.
Qed.

(* Whatever is handled inside the window (a data message under the old key that sets the latch, a timer's
   SendHandshakeInitiation, ...): if the session begins, the device holds the new initiator key (a new session id) as current,
   no unconfirmed key, and the per-session latch is CLEAR -- the new session re-keys on receive after
   165 s like any other (initiator_rekeys_after_165_recv applies to the state reached: it is R (evs ++ [pre; Respond ..])). *)
Theorem window_completion_starts_fresh evs pre k r :
  let s := R evs in
  let s' := fst (step_window s pre k r) in
  o_acc (snd (step_window s pre k r)) = true ->
  latch s' = false /\ next s' = None /\ hs s' = None /\
  (exists c, cur s' = Some c /\ initiator c = true /\ ridx c = r /\ id c = nsess (fst (step s pre))) /\
  exists k', s' = R (evs ++ [pre; Respond k' r]).
Proof.
  intros s s'. subst s'. unfold step_window.
  destruct (step s pre) as [s1 o1] eqn:E1.
  set (k' := if o_init o1 then S k else k).
  destruct (step s1 (Respond k' r)) as [s2 o2] eqn:E2. cbn [fst snd merge_out o_acc].
  intros Hacc.
  assert (Hs1 : s1 = R (evs ++ [pre])) by (rewrite R_snoc; fold s; rewrite E1; reflexivity).
  pose proof (initiator_completion_rotates (evs ++ [pre]) k' r) as Hrot. cbv zeta in Hrot.
  rewrite <- Hs1, E2 in Hrot. cbn [fst snd] in Hrot.
  destruct (Hrot Hacc) as (i & _ & _ & Hc & Hn & _ & _ & _ & _ & Hh & _).
  pose proof (respond_clears_latch s1 k' r) as Hl. rewrite E2 in Hl. cbn [fst snd] in Hl.
  split; [exact (Hl Hacc)|]. split; [exact Hn|]. split; [exact Hh|]. split.
  - eexists. split; [exact Hc|]. cbn [initiator ridx id]. repeat split; reflexivity.
  - exists k'. replace (evs ++ [pre; Respond k' r]) with ((evs ++ [pre]) ++ [Respond k' r]) by (rewrite <- app_assoc; reflexivity).
    rewrite R_snoc, <- Hs1, E2. reflexivity.
Qed.
