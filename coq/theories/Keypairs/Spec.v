(* Property C07 as an executable checker [holdsb] over OBSERVED traces: after every
   event the harness records what the device emitted and what its accessors show
   (the three slots, the index table, the pending handshake index).  Nothing here
   runs the model: the clauses are the sentences of the property text.

   Indices are named by order of issue, ages are whole seconds (the harness only
   moves time in whole seconds; an age is never within a second of a boundary
   from below, see Model.v). *)
From WG Require Import Base.Prelude Gen.Constants Keypairs.Model.
Local Open Scope N_scope.

Record slot_obs := mkSlot { so_lidx : N; so_ridx : N; so_init : bool; so_age : N }.

Record obs := mkObs {
  ob_sent : list N;               (* session id that opens each transport message emitted *)
  ob_init : option N;             (* sender index of an initiation emitted *)
  ob_resp : bool;                 (* a response was emitted *)
  ob_tun : bool;                  (* something was written to the TUN *)
  ob_prev : option slot_obs; ob_cur : option slot_obs; ob_next : option slot_obs;
  ob_table : list (N * bool);     (* index table: (index, is a keypair entry), ascending *)
  ob_hs : option N;               (* handshake.localIndex while an initiation is pending *)
  ob_latch : bool; ob_staged : N; ob_last : option N   (* internal; used by the model comparison only *)
}.

(* thresholds in whole seconds *)
Definition sec : N := 1000000000.
Definition t_rekey : N := RekeyAfterTime / sec.                                   (* 120 *)
Definition t_reject : N := RejectAfterTime / sec.                                 (* 180 *)
Definition t_rekey_recv : N := (RejectAfterTime - KeepaliveTimeout - RekeyTimeout) / sec.   (* 165 *)
Definition t_spacing : N := RekeyTimeout / sec.                                   (* 5 *)

(* what is observed of a freshly started peer (lastSentHandshake lies RekeyTimeout + 1 s in the past) *)
Definition obs0 : obs := mkObs [] None false false None None None [] None false 0 (Some (t_spacing + 1)).

Definition memN (x : N) (l : list N) : bool := existsb (N.eqb x) l.
Fixpoint nodupb (l : list N) : bool :=
  match l with [] => true | x :: t => negb (memN x t) && nodupb t end.
Definition subsetb (a b : list N) : bool := forallb (fun x => memN x b) a.
Definition seteqb (a b : list N) : bool := subsetb a b && subsetb b a.

Definition slot_eqb (a b : option slot_obs) : bool :=
  match a, b with
  | None, None => true
  | Some x, Some y => (so_lidx x =? so_lidx y) && (so_ridx x =? so_ridx y) && Bool.eqb (so_init x) (so_init y)
  | _, _ => false
  end.
Definition slot_idx (a : option slot_obs) : list N := match a with Some x => [so_lidx x] | None => [] end.
Definition slots_idx (o : obs) : list N := slot_idx (ob_prev o) ++ slot_idx (ob_cur o) ++ slot_idx (ob_next o).
Definition table_kp (o : obs) : list N := map fst (filter snd (ob_table o)).
Definition table_hs (o : obs) : list N := map fst (filter (fun p => negb (snd p)) (ob_table o)).
Definition in_table (o : obs) (i : N) : bool := memN i (map fst (ob_table o)).
Definition opt_in_table (o : obs) (a : option slot_obs) : bool :=
  match a with Some x => in_table o (so_lidx x) | None => false end.
Definition is_some {A} (o : option A) : bool := match o with Some _ => true | None => false end.
Definition optN_list (o : option N) : list N := match o with Some x => [x] | None => [] end.

Definition slot_with (o : obs) (i : N) : option slot_obs :=
  let f a := match a with Some x => so_lidx x =? i | None => false end in
  if f (ob_next o) then ob_next o else if f (ob_cur o) then ob_cur o else if f (ob_prev o) then ob_prev o else None.

(* What the checker remembers from the trace. *)
Record sst := mkSst {
  t_sess : list (N * N);      (* remote session id -> device index it addresses *)
  t_nsess : N;
  t_inits : list N;           (* indices of the initiations seen, newest first *)
  t_since : option N;         (* whole seconds since the device last sent a handshake message *)
  t_latch : bool;             (* a receive-side rekey was already requested since the last completion *)
  t_conf : list N;            (* indices of keys under which the device accepted a message *)
  t_before : obs
}.
(* a started peer's lastSentHandshake lies RekeyTimeout + 1 s in the past *)
Definition sst0 : sst := mkSst [] 0 [] (Some (t_spacing + 1)) false [] obs0.

Definition spaced (t : sst) : bool :=
  match t_since t with None => true | Some d => t_spacing <=? d end.

Definition expired (a : option slot_obs) : bool :=
  match a with Some x => t_reject <=? so_age x | None => true end.

(* ---- clauses that hold after every event -------------------------------- *)

(* "A peer holds at most three session keys": the honoured keypair indices are exactly the
   indices of the three slots, all different; the only other honoured index is the pending handshake. *)
Definition c_table (a : obs) : bool :=
  seteqb (table_kp a) (slots_idx a) && nodupb (slots_idx a) && (length (table_kp a) <=? 3)%nat
  && seteqb (table_hs a) (optN_list (ob_hs a)) && nodupb (map fst (ob_table a)).

(* Data is transmitted only under the current key, which is younger than 180 s and is either
   initiator-made or confirmed by a message received under it. *)
Definition c_sent (t : sst) (conf : list N) (a : obs) : bool :=
  forallb (fun sid =>
    match assoc sid (t_sess t), ob_cur a with
    | Some i, Some c =>
        (so_lidx c =? i) && (so_age c <? t_reject) && (so_init c || memN i conf)
        && negb (memN i (slot_idx (ob_next a)))
    | _, _ => false
    end) (ob_sent a).

(* Slots change only on handshake completion or confirmation. *)
Definition c_frame (b a : obs) : bool :=
  slot_eqb (ob_prev b) (ob_prev a) && slot_eqb (ob_cur b) (ob_cur a) && slot_eqb (ob_next b) (ob_next a).

(* ---- clauses per event ---------------------------------------------------- *)

Definition c_responder (b a : obs) : bool :=
  match ob_next a with
  | Some n =>
      negb (so_init n) && negb (in_table b (so_lidx n)) && (so_age n =? 0)
      && slot_eqb (ob_cur b) (ob_cur a) && negb (is_some (ob_prev a))
      && match ob_sent a with [] => true | _ => false end
      && negb (opt_in_table a (ob_prev b)) && negb (opt_in_table a (ob_next b))
      && ob_resp a
  | None => false
  end.

(* completion as initiator observed: the index of the answered initiation now names the current key *)
Definition completed_as_initiator (b a : obs) (i : N) : bool :=
  match ob_hs b, ob_cur a with
  | Some h, Some c => (h =? i) && (so_lidx c =? i)
  | _, _ => false
  end.

Definition c_initiator (b a : obs) : bool :=
  match ob_cur a with
  | Some c =>
      so_init c && (so_age c =? 0) && negb (is_some (ob_next a))
      && slot_eqb (ob_prev a) (if is_some (ob_next b) then ob_next b else ob_cur b)
      && negb (opt_in_table a (ob_prev b))
      && (if is_some (ob_next b) then negb (opt_in_table a (ob_cur b)) else true)
      && negb (is_some (ob_hs a))
  | None => false
  end.

Definition c_recv (t : sst) (b a : obs) (sid : N) : bool :=
  match assoc sid (t_sess t) with
  | None => negb (ob_tun a) && c_frame b a
  | Some i =>
      match slot_with b i with
      | None =>                                 (* rotated out (or never installed): refused immediately *)
          negb (ob_tun a) && c_frame b a && match ob_sent a with [] => true | _ => false end
      | Some x =>
          if t_reject <=? so_age x then negb (ob_tun a) && c_frame b a        (* older than 180 s: refused *)
          else
            ob_tun a &&
            (if memN i (slot_idx (ob_next b)) then                            (* confirmation *)
               slot_eqb (ob_cur a) (ob_next b) && slot_eqb (ob_prev a) (ob_cur b)
               && negb (is_some (ob_next a)) && negb (opt_in_table a (ob_prev b))
             else c_frame b a)
      end
  end
  (* re-keying on receive: the initiator of the current session, after 165 s, once *)
  && match ob_cur a with
     | Some c =>
         let due := ob_tun a && so_init c && (t_rekey_recv <=? so_age c) in
         (if due && negb (t_latch t) && spaced t then is_some (ob_init a) else true)
         && (if is_some (ob_init a) then due else true)
     | None => negb (is_some (ob_init a))
     end.

Definition c_send (t : sst) (b a : obs) : bool :=
  if expired (ob_cur b) then
    (* no key or an expired key: nothing is sent under it, a handshake is started instead *)
    match ob_sent a with [] => true | _ => false end
    && (if spaced t then is_some (ob_init a) else true)
  else
    match ob_cur b with
    | Some c =>
        match ob_sent a with [] => false | _ => true end
        && (let due := so_init c && (t_rekey <=? so_age c) in
            (if due && spaced t then is_some (ob_init a) else true)
            && (if is_some (ob_init a) then due else true))
    | None => false
    end.

(* A message that does not authenticate (forged, or replayed) has no effect whatsoever. *)
Fixpoint tbl_eqb (a b : list (N * bool)) : bool :=
  match a, b with
  | [], [] => true
  | x :: a', y :: b' => (fst x =? fst y) && Bool.eqb (snd x) (snd y) && tbl_eqb a' b'
  | _, _ => false
  end.
Definition c_inert (b a : obs) : bool :=
  c_frame b a && tbl_eqb (ob_table b) (ob_table a)
  && match ob_hs b, ob_hs a with Some x, Some y => x =? y | None, None => true | _, _ => false end
  && match ob_sent a with [] => true | _ => false end
  && negb (is_some (ob_init a)) && negb (ob_resp a) && negb (ob_tun a).

(* After a restart (interface down/up) the peer holds no key and no index is honoured. *)
Definition c_restart (a : obs) : bool :=
  negb (is_some (ob_prev a)) && negb (is_some (ob_cur a)) && negb (is_some (ob_next a))
  && match ob_table a with [] => true | _ => false end && negb (is_some (ob_hs a))
  && match ob_sent a with [] => true | _ => false end
  && negb (is_some (ob_init a)) && negb (ob_resp a) && negb (ob_tun a).

(* Trace bookkeeping + all clauses for one step.  Returns the new checker state and the
   number of the first clause that fails (0 = all hold). *)
Definition first_false (l : list (N * bool)) : N :=
  match filter (fun p => negb (snd p)) l with [] => 0 | (n, _) :: _ => n end.

Definition add_secs (o : option N) (d : N) : option N :=
  match o with Some x => Some (x + d) | None => None end.

Definition sstep (t : sst) (ea : event * obs) : sst * N :=
  let '(e, a) := ea in
  let b := t_before t in
  (* forced initiation: the harness moved lastSentHandshake out of the way *)
  let t := match e with
           | Initiate true => mkSst (t_sess t) (t_nsess t) (t_inits t) None (t_latch t) (t_conf t) b
           | _ => t
           end in
  (* sessions the remote party derives in this step *)
  let new_sess :=
    match e with
    | CompleteResponder _ =>
        match ob_next a with Some n => [(t_nsess t, so_lidx n)] | None => [(t_nsess t, 4294967295)] end
    | Respond k _ =>
        (* a session whose response the device did not complete names no key of the device *)
        match nth_error (t_inits t) k with
        | Some i => [(t_nsess t, if completed_as_initiator b a i then i else 4294967295)]
        | None => []
        end
    | _ => []
    end in
  let sess := new_sess ++ t_sess t in
  let t1 := mkSst sess (t_nsess t + N.of_nat (length new_sess)) (t_inits t) (t_since t) (t_latch t) (t_conf t) b in
  let conf :=
    match e with
    | Recv sid => if ob_tun a then (match assoc sid sess with Some i => [i] | None => [] end) ++ t_conf t else t_conf t
    | _ => t_conf t
    end in
  let completed :=
    match e with
    | Respond k _ => match nth_error (t_inits t) k with Some i => completed_as_initiator b a i | None => false end
    | _ => false
    end in
  let verdict :=
    first_false
      ([(1, c_table a); (2, c_sent t1 conf a)] ++
       match e with
       | CompleteResponder _ => [(3, c_responder b a)]
       | Respond _ _ => if completed then [(4, c_initiator b a)] else [(5, c_frame b a)]
       | Recv sid => [(6, c_recv t1 b a sid)]
       | Send => [(7, c_send t1 b a); (8, c_frame b a)]
       | Initiate _ => [(9, c_frame b a)]
       | Tick _ => [(10, c_frame b a);
                    (11, match ob_sent a with [] => true | _ => false end && negb (is_some (ob_init a)))]
       | Forged _ => [(12, c_inert b a)]
       | Replay _ => [(13, c_inert b a)]
       | Restart => [(14, c_restart a)]
       | Keepalive => [(15, c_send t1 b a); (16, c_frame b a)]   (* a keepalive is a send like any other *)
       | Abandon => [(17, c_inert b a)]    (* giving up a handshake attempt changes no key and sends nothing *)
       end) in
  (* bookkeeping for the next step *)
  let promoted :=
    match e with
    | Recv _ => is_some (ob_next b) && negb (is_some (ob_next a))
    | _ => false
    end in
  let restarted := match e with Restart => true | _ => false end in
  let latch1 := if completed || promoted || restarted then false else t_latch t in
  let latch2 :=
    match e, ob_cur a with
    | Recv _, Some c => if ob_tun a && so_init c && (t_rekey_recv <=? so_age c) then true else latch1
    | _, _ => latch1
    end in
  let since1 := match e with
                | Tick d => add_secs (t_since t) (d / sec)
                | Restart => Some (t_spacing + 1)      (* Start: lastSentHandshake = now - (RekeyTimeout + 1 s) *)
                | _ => t_since t
                end in
  let since2 := if is_some (ob_init a) || ob_resp a then Some 0 else since1 in
  let inits := optN_list (ob_init a) ++ t_inits t in
  (mkSst sess (t_nsess t1) inits since2 latch2 conf a, verdict).

(* first failing (step, clause), if any *)
Fixpoint first_violation (t : sst) (tr : list (event * obs)) (pos : N) : option (N * N) :=
  match tr with
  | [] => None
  | ea :: tr' =>
      let '(t', v) := sstep t ea in
      if v =? 0 then first_violation t' tr' (pos + 1) else Some (pos, v)
  end.

Definition holdsb (tr : list (event * obs)) : bool :=
  match first_violation sst0 tr 0 with None => true | Some _ => false end.
