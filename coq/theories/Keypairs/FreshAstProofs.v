(* C07 / C04, source tie for the two rekey decisions: the interpreter of Keypairs/FreshAst.v run on the terms that
   harness/cmd/kkfast generated from device/send.go and device/receive.go (Gen/FreshAst.v), for ALL inputs.
     consts_agree          the translator's exact evaluation of device/constants.go = Gen/Constants.v
     kkf_send_run          keepKeyFreshSending  = one boolean formula (send_dec), flag untouched
     kkf_send              ... initiates <-> has_key /\ (nonce > 2^60 \/ (isInitiator /\ age > 120 s))
     kkf_recv_run          keepKeyFreshReceiving = one boolean formula (recv_dec)
     kkf_recv              ... sets the flag and initiates <-> has_key /\ flag = false /\ isInitiator /\ age > 165 s
     kkf_recv_otherwise    otherwise: no call, flag unchanged
     kkf_recv_model        = Keypairs.Model.keep_key_fresh_receiving (same shape: equality of the whole step)
     kkf_send_model_time   the guard of Keypairs.Model.send_staged = send_dec while the counter is <= 2^60
     kkf_send_model_nonce  the guard (Rekey <? n) of Nonce.Seq.flush = send_dec while the time clause is false
   The comparisons are the source's: STRICT (nonce > RekeyAfterMessages, age > ...). *)
From Coq Require Import String.
From WG Require Import Base.Prelude Gen.Constants Keypairs.Model Nonce.Seq Keypairs.FreshAst Gen.FreshAst.
Local Open Scope Z_scope.

Lemma consts_agree :
  c_RekeyAfterMessages = Z.of_N Constants.RekeyAfterMessages /\
  c_RejectAfterMessages = Z.of_N Constants.RejectAfterMessages /\
  c_RekeyAfterTime = Z.of_N Constants.RekeyAfterTime /\
  c_RejectAfterTime = Z.of_N Constants.RejectAfterTime /\
  c_KeepaliveTimeout = Z.of_N Constants.KeepaliveTimeout /\
  c_RekeyTimeout = Z.of_N Constants.RekeyTimeout /\
  c_RekeyAfterMessages = 2 ^ 60 /\ c_RejectAfterMessages = 2 ^ 64 - 2 ^ 13 - 1 /\
  c_RekeyAfterTime = 120 * 10 ^ 9 /\
  c_RejectAfterTime - c_KeepaliveTimeout - c_RekeyTimeout = 165 * 10 ^ 9.
Proof. repeat split; reflexivity. Qed.

(* what the source computes, as one formula *)
Definition send_dec (i : inp) : bool :=
  has_key i && ((c_RekeyAfterMessages <? nonce i) || (is_init i && (c_RekeyAfterTime <? FreshAst.age i))).

Definition recv_dec (i : inp) (fl : bool) : bool :=
  negb fl && has_key i && is_init i && (c_RejectAfterTime - c_KeepaliveTimeout - c_RekeyTimeout <? FreshAst.age i).

(* case split on the boolean inputs first, evaluate (integer comparisons and wrap-around stay symbolic), then split
   on every comparison left: independent of the order in which the source tests its conditions *)
Ltac kkf_crush :=
  cbv -[Z.ltb Z.leb Z.eqb Z.add Z.sub wrap];
  repeat match goal with |- context [Z.ltb ?x ?y] => destruct (Z.ltb x y) end;
  reflexivity.

Theorem kkf_send_run : forall i fl,
  run kkf_sending_body i fl = Some (if send_dec i then [false] else [], fl).
Proof.
  intros [hk n ini a] fl. unfold send_dec. destruct hk, ini, fl; kkf_crush.
Qed.

Theorem kkf_recv_run : forall i fl,
  run kkf_receiving_body i fl = Some (if recv_dec i fl then ([false], true) else ([], fl)).
Proof.
  intros [hk n ini a] fl. unfold recv_dec.
  change (c_RejectAfterTime - c_KeepaliveTimeout - c_RekeyTimeout) with 165000000000.
  destruct hk, ini, fl; kkf_crush.
Qed.

Lemma send_dec_spec : forall i,
  send_dec i = true <->
  has_key i = true /\ (nonce i > 2 ^ 60 \/ (is_init i = true /\ FreshAst.age i > 120 * 10 ^ 9)).
Proof.
  intros i. unfold send_dec.
  rewrite Bool.andb_true_iff, Bool.orb_true_iff, Bool.andb_true_iff, !Z.ltb_lt.
  change c_RekeyAfterMessages with (2 ^ 60). change c_RekeyAfterTime with (120 * 10 ^ 9).
  intuition lia.
Qed.

Lemma recv_dec_spec : forall i fl,
  recv_dec i fl = true <->
  has_key i = true /\ fl = false /\ is_init i = true /\ FreshAst.age i > 165 * 10 ^ 9.
Proof.
  intros i fl. unfold recv_dec.
  rewrite !Bool.andb_true_iff, Bool.negb_true_iff, Z.ltb_lt.
  change (c_RejectAfterTime - c_KeepaliveTimeout - c_RekeyTimeout) with (165 * 10 ^ 9).
  intuition lia.
Qed.

(* keepKeyFreshSending: SendHandshakeInitiation(false) is called (exactly once) iff ...; the flag is never touched;
   the run never fails *)
Theorem kkf_send : forall i fl,
  (run kkf_sending_body i fl = Some ([false], fl) <->
   has_key i = true /\ (nonce i > 2 ^ 60 \/ (is_init i = true /\ FreshAst.age i > 120 * 10 ^ 9))) /\
  (run kkf_sending_body i fl = Some ([false], fl) \/ run kkf_sending_body i fl = Some ([], fl)).
Proof.
  intros i fl. rewrite kkf_send_run, <- send_dec_spec.
  destruct (send_dec i); split; auto; split; congruence.
Qed.

(* keepKeyFreshReceiving: the flag is set and SendHandshakeInitiation(false) is called (exactly once) iff ... *)
Theorem kkf_recv : forall i fl,
  run kkf_receiving_body i fl = Some ([false], true) <->
  has_key i = true /\ fl = false /\ is_init i = true /\ FreshAst.age i > 165 * 10 ^ 9.
Proof.
  intros i fl. rewrite kkf_recv_run, <- recv_dec_spec.
  destruct (recv_dec i fl); split; congruence.
Qed.

Theorem kkf_recv_otherwise : forall i fl,
  ~ (has_key i = true /\ fl = false /\ is_init i = true /\ FreshAst.age i > 165 * 10 ^ 9) ->
  run kkf_receiving_body i fl = Some ([], fl).
Proof.
  intros i fl H. rewrite kkf_recv_run. rewrite <- recv_dec_spec in H.
  destruct (recv_dec i fl); [exfalso; auto | reflexivity].
Qed.

(* ---- the hand-written models ---- *)

(* the inputs of the interpreter read off a state of Keypairs.Model; the counter is not part of that model *)
Definition inp_of (s : Model.state) (n : Z) : inp :=
  {| has_key := match Model.cur s with Some _ => true | None => false end;
     nonce := n;
     is_init := match Model.cur s with Some k => initiator k | None => false end;
     FreshAst.age := match Model.cur s with Some k => Z.of_N (Model.age s k) | None => 0 end |}.

Lemma ltb_of_N : forall a b : N, (Z.of_N a <? Z.of_N b) = (a <? b)%N.
Proof.
  intros a b. destruct (N.ltb_spec a b) as [H|H]; [apply Z.ltb_lt | apply Z.ltb_ge]; lia.
Qed.

(* Keypairs.Model.keep_key_fresh_receiving is the interpreted source followed by the model's send_initiation *)
Theorem kkf_recv_model : forall s n,
  Model.keep_key_fresh_receiving s =
  match run kkf_receiving_body (inp_of s n) (latch s) with
  | Some ([false], fl) => send_initiation (set_latch s fl)
  | Some ([], _) => (s, false)
  | _ => (s, false)
  end /\
  (forall c fl, run kkf_receiving_body (inp_of s n) (latch s) = Some (c, fl) ->
                (c = [false] /\ fl = true) \/ (c = [] /\ fl = latch s)).
Proof.
  intros s n. rewrite kkf_recv_run. split.
  - unfold Model.keep_key_fresh_receiving, recv_dec, inp_of; cbn [has_key is_init FreshAst.age].
    destruct (latch s); [reflexivity|]. cbn [negb andb].
    destruct (Model.cur s) as [k|]; [|reflexivity]. cbn [andb].
    change (c_RejectAfterTime - c_KeepaliveTimeout - c_RekeyTimeout) with (Z.of_N rekey_recv_time).
    rewrite ltb_of_N.
    destruct (initiator k && (rekey_recv_time <? Model.age s k)%N); reflexivity.
  - intros c fl H. destruct (recv_dec (inp_of s n) (latch s)); inversion H; auto.
Qed.

(* Keypairs.Model.send_staged models only the time clause of keepKeyFreshSending: equal while the counter has not
   passed 2^60 *)
Theorem kkf_send_model_time : forall s k n,
  Model.cur s = Some k -> n <= 2 ^ 60 ->
  send_dec (inp_of s n) = (initiator k && (rekey_after_time <? Model.age s k)%N)%bool.
Proof.
  intros s k n Hc Hn. unfold send_dec, inp_of; cbn [has_key is_init FreshAst.age nonce]. rewrite Hc. cbn [andb].
  change c_RekeyAfterTime with (Z.of_N rekey_after_time). rewrite ltb_of_N.
  replace (c_RekeyAfterMessages <? n) with false; [reflexivity|].
  symmetry. apply Z.ltb_ge. change c_RekeyAfterMessages with (2 ^ 60). lia.
Qed.

(* Nonce.Seq.flush models only the counter clause (Rekey <? n): equal while the time clause is false *)
Theorem kkf_send_model_nonce : forall i (n : N),
  has_key i = true -> nonce i = Z.of_N n -> (is_init i && (c_RekeyAfterTime <? FreshAst.age i))%bool = false ->
  send_dec i = (Seq.Rekey <? n)%N.
Proof.
  intros i n Hk Hn Ht. unfold send_dec. rewrite Hk, Hn, Ht. cbn [andb]. rewrite Bool.orb_false_r.
  change c_RekeyAfterMessages with (Z.of_N Seq.Rekey). apply ltb_of_N.
Qed.

Print Assumptions kkf_send.
Print Assumptions kkf_recv.
Print Assumptions kkf_recv_otherwise.
Print Assumptions kkf_recv_model.
Print Assumptions kkf_send_model_time.
Print Assumptions kkf_send_model_nonce.
Print Assumptions consts_agree.
