(* Correspondence checker for C07: run the slice model over the events the harness
   performed on the real device, compare what the model predicts with what was
   observed after every event (kind 1), and evaluate the property's [holdsb] on
   the observed trace (kind 2).  Also: exhaustive enumeration of abstract event
   sequences on the model.  Depends only on Model and Spec. *)
From WG Require Import Base.Prelude Gen.Constants Keypairs.Model Keypairs.Spec.
Local Open Scope N_scope.

(* ---- what the model predicts the harness will observe -------------------- *)

Definition slot_of (s : state) (o : option kp) : option slot_obs :=
  match o with
  | Some k => Some (mkSlot (lidx k) (ridx k) (initiator k) (age s k / sec))
  | None => None
  end.

Fixpoint ins (p : N * bool) (l : list (N * bool)) : list (N * bool) :=
  match l with
  | [] => [p]
  | q :: l' => if fst p <=? fst q then p :: l else q :: ins p l'
  end.
Definition sort_table (t : tbl) : list (N * bool) :=
  fold_right (fun (p : N * entry) acc => ins (fst p, match snd p with Kp _ => true | Hs => false end) acc) [] t.

Definition observe (s : state) (o : out) : obs :=
  mkObs (o_sent o) (if o_init o then Some (hd 0 (inits s)) else None) (o_resp o) (o_tun o)
        (slot_of s (prev s)) (slot_of s (cur s)) (slot_of s (next s))
        (sort_table (table s)) (hs s) (latch s) (staged s)
        (match last_sent s with Some t => Some ((now s - t) / sec) | None => None end).

Fixpoint model_trace (s : state) (evs : list event) : list (event * obs) :=
  match evs with
  | [] => []
  | e :: evs' => let '(s', o) := step s e in (e, observe s' o) :: model_trace s' evs'
  end.

(* ---- comparison ------------------------------------------------------------ *)

Definition optN_eqb (a b : option N) : bool :=
  match a, b with Some x, Some y => x =? y | None, None => true | _, _ => false end.
Fixpoint listN_eqb (a b : list N) : bool :=
  match a, b with
  | [], [] => true
  | x :: a', y :: b' => (x =? y) && listN_eqb a' b'
  | _, _ => false
  end.
Fixpoint table_eqb (a b : list (N * bool)) : bool :=
  match a, b with
  | [], [] => true
  | x :: a', y :: b' => (fst x =? fst y) && Bool.eqb (snd x) (snd y) && table_eqb a' b'
  | _, _ => false
  end.
Definition slot_full_eqb (a b : option slot_obs) : bool :=
  slot_eqb a b && match a, b with Some x, Some y => so_age x =? so_age y | _, _ => true end.

(* number of the first field that differs (0 = equal) *)
Definition obs_diff (m a : obs) : N :=
  first_false
    [(1, listN_eqb (ob_sent m) (ob_sent a)); (2, optN_eqb (ob_init m) (ob_init a));
     (3, Bool.eqb (ob_resp m) (ob_resp a)); (4, Bool.eqb (ob_tun m) (ob_tun a));
     (5, slot_full_eqb (ob_prev m) (ob_prev a)); (6, slot_full_eqb (ob_cur m) (ob_cur a));
     (7, slot_full_eqb (ob_next m) (ob_next a)); (8, table_eqb (ob_table m) (ob_table a));
     (9, optN_eqb (ob_hs m) (ob_hs a)); (10, Bool.eqb (ob_latch m) (ob_latch a));
     (11, ob_staged m =? ob_staged a); (12, optN_eqb (ob_last m) (ob_last a))].

Fixpoint first_mismatch (s : state) (tr : list (event * obs)) (pos : N) : option (N * N) :=
  match tr with
  | [] => None
  | (e, a) :: tr' =>
      let '(s', o) := step s e in
      let d := obs_diff (observe s' o) a in
      if d =? 0 then first_mismatch s' tr' (pos + 1) else Some (pos, d)
  end.

(* ---- case files -------------------------------------------------------------- *)
(* One list of primitive integers per step:
   [ek; ea; eb; init; resp; tun; P;l;r;i;age; P;l;r;i;age; P;l;r;i;age; hs; latch; staged; last;
    nsent; sid...; (index; is_keypair)...]
   options are 0 = none, x+1 = Some x; Tick carries whole seconds. *)
From WG Require Import Base.Ints.

Definition dec_opt (x : N) : option N := if x =? 0 then None else Some (x - 1).
Definition dec_bool (x : N) : bool := negb (x =? 0).
Definition dec_slot (p l r i a : N) : option slot_obs :=
  if p =? 0 then None else Some (mkSlot l r (dec_bool i) a).
Fixpoint dec_pairs (l : list N) : list (N * bool) :=
  match l with
  | a :: b :: t => (a, dec_bool b) :: dec_pairs t
  | _ => []
  end.
Definition dec_event (k a b : N) : event :=
  match k with
  | 0 => Initiate (dec_bool a)
  | 1 => Respond (N.to_nat a) b
  | 2 => CompleteResponder a
  | 3 => Recv a
  | 4 => Send
  | 5 => Tick (a * sec)
  | 6 => Forged a
  | 7 => Replay a
  | 8 => Restart
  | 9 => Keepalive
  | 10 => Abandon
  | 12 | 13 | 14 => Respond (N.to_nat (a mod 1024)) b   (* a response with an event inside its processing window, see dec_pre *)
  | _ => Recv a      (* 11: a KEEPALIVE received under session a.  The slice treats it like a data message (same
                        path up to the TUN write); in these steps the observed ob_tun carries "accepted" (rx_bytes grew). *)
  end.
(* The event handled INSIDE the response-processing window (between ConsumeMessageResponse and
   BeginSymmetricSession) of a step with code 12 (data under session a/1024), 13 (a keepalive under it)
   or 14 (SendHandshakeInitiation as the timers call it; a/1024 = forced). *)
Definition dec_pre (k a : N) : option event :=
  match k with
  | 12 | 13 => Some (Recv (a / 1024))
  | 14 => Some (Initiate (dec_bool (a / 1024)))
  | _ => None
  end.
Definition dec_step (l : list N) : event * obs :=
  match l with
  | ek :: ea :: eb :: oi :: orr :: ot ::
    pp :: pl :: pr :: pi :: pa :: cp :: cl :: cr :: ci :: ca :: np :: nl :: nr :: ni :: na ::
    h :: la :: st :: ls :: ns :: rest =>
      let n := N.to_nat ns in
      (dec_event ek ea eb,
       mkObs (firstn n rest) (dec_opt oi) (dec_bool orr) (dec_bool ot)
             (dec_slot pp pl pr pi pa) (dec_slot cp cl cr ci ca) (dec_slot np nl nr ni na)
             (dec_pairs (skipn n rest)) (dec_opt h) (dec_bool la) st (dec_opt ls))
  | _ => (Tick 0, obs0)
  end.
Definition dec_pre_step (l : list N) : option event :=
  match l with ek :: ea :: _ => dec_pre ek ea | _ => None end.

(* A step of a case: the event inside the response-processing window (if the step is such a response),
   the event, and what was observed after the whole step. *)
Definition case := list (option event * (event * obs)).
Definition mk (steps : list (list Uint63.int)) : case :=
  map (fun l => let ns := ns_of_ints l in (dec_pre_step ns, dec_step ns)) steps.

(* the model's step for a case step: [step], or [step_window] for a response with an event inside its window *)
Definition xstep (s : state) (w : option event) (e : event) : state * out :=
  match w, e with
  | Some pre, Respond k r => step_window s pre k r
  | _, _ => step s e
  end.

Fixpoint first_mismatch_x (s : state) (tr : case) (pos : N) : option (N * N) :=
  match tr with
  | [] => None
  | (w, (e, a)) :: tr' =>
      let '(s', o) := xstep s w e in
      let d := obs_diff (observe s' o) a in
      if d =? 0 then first_mismatch_x s' tr' (pos + 1) else Some (pos, d)
  end.

(* kind 1 = the device differs from the mirror model, kind 2 = the property fails on the
   observed behaviour.  Position = 100 * step + field/clause number.
   The property's checker sees a window step as the response it is (clauses 4/5: completion and rotation
   judged against the observation BEFORE the step; the latch bookkeeping starts afresh with the new
   session, whatever was received inside the window), so every later step is judged as usual. *)
Definition check_case (c : case) : list (N * N) :=
  (match first_mismatch_x init c 0 with Some (p, d) => [(1, 100 * p + d)] | None => [] end) ++
  (match first_violation sst0 (map snd c) 0 with Some (p, v) => [(2, 100 * p + v)] | None => [] end).

Fixpoint check_cases (ks : list case) (idx : N) : list (N * N * N) :=
  match ks with
  | [] => []
  | k :: ks' => map (fun p => (idx, fst p, snd p)) (check_case k) ++ check_cases ks' (idx + 1)
  end.

(* ---- branch statistics (from the model run over the cases' events) --------- *)
(* 0 completed as initiator; 1 response refused (stale / no pending handshake); 2 completed as responder;
   3 data accepted under previous; 4 under current; 5 under next (confirmation);
   6 data refused: index not honoured; 7 data refused: key older than 180 s;
   8 send under current; 9 send refused (no key / expired) ; 10 rekey after 120 s on send;
   11 rekey after 165 s on receive; 12 initiation suppressed by the 5 s spacing; 13 initiation sent;
   14 ticks; 15 keys promoted with packets staged;
   16 forged message under next's index; 17 under current/previous; 18 under an index not honoured;
   19 replayed message; 20 restart; 21 restart with an unconfirmed key in next;
   22 keepalive sent under current; 23 rekey after 120 s on a keepalive-only send; 24 keepalive with no/expired key;
   25 handshake attempt abandoned; 26 abandoned while a key is current;
   27 response with an event inside its processing window; 28 a message accepted inside the window;
   29 an initiation created inside the window (the consumed response is then void) *)
Definition same_kp (o : option kp) (k : kp) : bool :=
  match o with Some x => id x =? id k | None => false end.

Definition classify (s : state) (e : event) : list nat :=
  let '(s', o) := step s e in
  let s1 := set_now s (now s + 1) in
  (if o_init o then [13%nat] else []) ++
  match e with
  | Initiate _ => if o_init o then [] else [12%nat]
  | Respond k _ =>
      match nth_error (inits s) k with
      | None => []
      | Some _ => if o_acc o then [0%nat] else [1%nat]
      end
  | CompleteResponder _ => [2%nat]
  | Recv sid =>
      match assoc sid (sessions s) with
      | None => []
      | Some i =>
          match lookup i (table s) with
          | Some (Kp k) =>
              if o_acc o then
                (if same_kp (next s) k then (if staged s =? 0 then [5%nat] else [5%nat; 15%nat])
                 else if same_kp (cur s) k then [4%nat] else [3%nat]) ++
                (if negb (latch s1) && latch s' then (if o_init o then [11%nat] else [11%nat; 12%nat]) else [])
              else [7%nat]
          | _ => [6%nat]
          end
      end
  | Send =>
      match o_sent o with
      | [] => [9%nat] ++ (if o_init o then [] else [12%nat])
      | _ => [8%nat] ++
             match cur s with
             | Some k => if initiator k && (rekey_after_time <? age s1 k)
                         then (if o_init o then [10%nat] else [10%nat; 12%nat]) else []
             | None => []
             end
      end
  | Tick _ => [14%nat]
  | Forged sid =>
      match assoc sid (sessions s) with
      | None => []
      | Some i =>
          match lookup i (table s) with
          | Some (Kp k) => if same_kp (next s) k then [16%nat] else [17%nat]
          | _ => [18%nat]
          end
      end
  | Replay _ => [19%nat]
  | Abandon => match cur s with Some _ => [25%nat; 26%nat] | None => [25%nat] end
  | Restart => match next s with Some _ => [20%nat; 21%nat] | None => [20%nat] end
  | Keepalive =>
      match o_sent o with
      | [] => [24%nat] ++ (if o_init o then [] else [12%nat])
      | _ => [22%nat] ++
             match cur s with
             | Some k => if initiator k && (rekey_after_time <? age s1 k)
                         then (if o_init o then [23%nat] else [23%nat; 12%nat]) else []
             | None => []
             end
      end
  end.

Fixpoint bump (l : list N) (i : nat) : list N :=
  match l, i with
  | [], _ => []
  | x :: t, O => (x + 1) :: t
  | x :: t, S j => x :: bump t j
  end.

Definition classify_x (s : state) (w : option event) (e : event) : list nat :=
  match w, e with
  | Some pre, Respond k r =>
      let '(s1, o1) := step s pre in
      [27%nat] ++ (if o_tun o1 then [28%nat] else []) ++ (if o_init o1 then [29%nat] else []) ++
      classify s pre ++ classify s1 (Respond (if o_init o1 then S k else k) r)
  | _, _ => classify s e
  end.

Fixpoint stats_case (s : state) (c : case) (st : list N) : list N :=
  match c with
  | [] => st
  | (w, (e, _)) :: c' => stats_case (fst (xstep s w e)) c' (fold_left bump (classify_x s w e) st)
  end.

Definition stats (ks : list case) : list N :=
  fold_left (fun st k => stats_case init k st) ks (repeat 0 30).

(* ---- exhaustive enumeration on the model ------------------------------------- *)
(* The property's event kinds; a slot name is resolved against the model state. *)
Inductive aev :=
| ACI | ACR | ARecvPrev | ARecvCur | ARecvNext | ARecvRetired | ASend | ATick (secs : N)
| AInitiate | ARespondStale | AForgeNext | AForgeCur | ARestart | AKeepalive | AAbandon.

Definition sid_of (o : option kp) : list event :=
  match o with Some k => [Recv (id k)] | None => [] end.

(* newest session of the remote party that is in none of the three slots *)
Definition retired_sid (s : state) : list event :=
  match filter (fun p => negb (existsb (fun k => id k =? fst p) (keys s))) (sessions s) with
  | p :: _ => [Recv (fst p)]
  | [] => []
  end.

Definition concretize (s : state) (a : aev) : list event :=
  let r := 4096 + nsess s in
  match a with
  | ACI => CompleteInitiator r
  | ACR => [CompleteResponder r]
  | ARecvPrev => sid_of (prev s)
  | ARecvCur => sid_of (cur s)
  | ARecvNext => sid_of (next s)
  | ARecvRetired => retired_sid s
  | ASend => [Send]
  | ATick d => [Tick (d * sec)]
  | AInitiate => [Initiate false]
  | ARespondStale => [Respond 1 r]
  | AForgeNext => match next s with Some k => [Forged (id k)] | None => [] end
  | AForgeCur => match cur s with Some k => [Forged (id k); Replay (id k)] | None => [] end
  | ARestart => [Restart]
  | AKeepalive => [Keepalive]
  | AAbandon => [Initiate false; Abandon]
  end.

(* run concrete events through model and specification; None = the specification
   rejected the model's own behaviour *)
Fixpoint run_spec (s : state) (t : sst) (evs : list event) : option (state * sst) :=
  match evs with
  | [] => Some (s, t)
  | e :: evs' =>
      let '(s', o) := step s e in
      let '(t', v) := sstep t (e, observe s' o) in
      if v =? 0 then run_spec s' t' evs' else None
  end.

(* number of sequences of length <= depth explored, or None at the first failure *)
Fixpoint explore (alphabet : list aev) (depth : nat) (s : state) (t : sst) : option N :=
  match depth with
  | O => Some 1
  | S d =>
      fold_left (fun acc a =>
        match acc with
        | None => None
        | Some n =>
            match run_spec s t (concretize s a) with
            | None => None
            | Some (s', t') =>
                match explore alphabet d s' t' with Some m => Some (n + m) | None => None end
            end
        end) alphabet (Some 1)
  end.

Definition alphabet7 : list aev :=
  [ACI; ACR; ARecvPrev; ARecvCur; ARecvNext; ARecvRetired; ASend; ATick 61; ATick 121; ARestart; AKeepalive].
Definition alphabet_full : list aev :=
  alphabet7 ++ [ATick 4; ATick 45; AInitiate; ARespondStale; AForgeNext; AForgeCur; AAbandon].
