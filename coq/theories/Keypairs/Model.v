(* Slice model of one peer's session-key state in wireguard-go (property C07).

   Mirrors, branch by branch:
     device/noise-protocol.go  BeginSymmetricSession, ReceivedWithKeypair,
                               CreateMessageInitiation / CreateMessageResponse (index handling only),
                               ConsumeMessageResponse (index lookup + handshake state only)
     device/indextable.go      Delete, SwapIndexForKeypair, NewIndexForHandshake, Lookup
     device/send.go            SendHandshakeInitiation (REKEY_TIMEOUT spacing), SendStagedPackets,
                               keepKeyFreshSending, SendKeepalive
     device/receive.go         RoutineReceiveIncoming (index lookup, age check),
                               RoutineSequentialReceiver (ReceivedWithKeypair, keepKeyFreshReceiving)
     device/timers.go          timersHandshakeComplete (sentLastMinuteHandshake latch)

   Time is in nanoseconds (the unit of Gen.Constants).  Every event takes one
   nanosecond ("events take time"), so an age is never an exact multiple of a
   second when the Ticks are whole seconds; Tick d lets d more nanoseconds pass.

   Values the device draws at random (its local indices) are replaced by their
   order of issue: the n-th index the device allocates is n.  Session ids are
   the order in which the remote party derives its sessions.  The index table
   holds the keypair itself (as the Go table holds the pointer); the id of the
   entry is [id k].

   Not modelled (outside C07 or out of reach in millisecond scenarios): message
   counters (RejectAfterMessages / RekeyAfterMessages), the 20 ms initiation
   flood limit, cookies, the real-time timers, the 128-entry bound of the
   staged queue.  No proofs in this file. *)
From WG Require Import Base.Prelude Gen.Constants.
Local Open Scope N_scope.

Record kp := mkKp { id : N; initiator : bool; created : N; lidx : N; ridx : N }.

Inductive entry := Hs | Kp (k : kp).
Definition tbl := list (N * entry).

(* IndexTable.Lookup / Delete / SwapIndexForKeypair *)
Fixpoint lookup (i : N) (t : tbl) : option entry :=
  match t with
  | [] => None
  | (j, e) :: t' => if i =? j then Some e else lookup i t'
  end.

Fixpoint delete (i : N) (t : tbl) : tbl :=
  match t with
  | [] => []
  | (j, e) :: t' => if i =? j then delete i t' else (j, e) :: delete i t'
  end.

Fixpoint swap (i : N) (k : kp) (t : tbl) : tbl :=
  match t with
  | [] => []
  | (j, e) :: t' => if i =? j then (j, Kp k) :: swap i k t' else (j, e) :: swap i k t'
  end.

(* Device.DeleteKeypair: nil-safe *)
Definition delete_kp (o : option kp) (t : tbl) : tbl :=
  match o with Some k => delete (lidx k) t | None => t end.

(* indexTable.Delete(handshake.localIndex) when there is a pending index *)
Definition delete_opt (o : option N) (t : tbl) : tbl :=
  match o with Some i => delete i t | None => t end.

Fixpoint assoc (x : N) (l : list (N * N)) : option N :=
  match l with
  | [] => None
  | (a, b) :: l' => if x =? a then Some b else assoc x l'
  end.

Record state := mkState {
  now : N;                     (* current time *)
  prev : option kp;            (* keypairs.previous *)
  cur : option kp;             (* keypairs.current *)
  next : option kp;            (* keypairs.next *)
  table : tbl;                 (* device.indexTable, entries of this peer *)
  hs : option N;               (* handshake.localIndex while state = handshakeInitiationCreated *)
  last_sent : option N;        (* handshake.lastSentHandshake (None = zero time) *)
  latch : bool;                (* timers.sentLastMinuteHandshake *)
  staged : N;                  (* packets waiting in queue.staged *)
  nidx : N;                    (* number of local indices issued so far *)
  inits : list N;              (* local indices of the initiations sent, newest first *)
  nsess : N;                   (* number of sessions the remote party has derived *)
  sessions : list (N * N)      (* remote party's sessions: session id -> the device index it addresses *)
}.

(* peer.go Start: lastSentHandshake = now - (RekeyTimeout + 1 s); time starts at that offset *)
Definition init : state :=
  mkState (RekeyTimeout + 1000000000) None None None [] None (Some 0) false 0 0 [] 0 [].

Definition set_now (s : state) (t : N) : state :=
  mkState t (prev s) (cur s) (next s) (table s) (hs s) (last_sent s) (latch s) (staged s)
          (nidx s) (inits s) (nsess s) (sessions s).
Definition set_keys (s : state) (p c n : option kp) (t : tbl) (h : option N) : state :=
  mkState (now s) p c n t h (last_sent s) (latch s) (staged s) (nidx s) (inits s) (nsess s) (sessions s).
Definition set_last_sent (s : state) (l : option N) : state :=
  mkState (now s) (prev s) (cur s) (next s) (table s) (hs s) l (latch s) (staged s)
          (nidx s) (inits s) (nsess s) (sessions s).
Definition set_latch (s : state) (b : bool) : state :=
  mkState (now s) (prev s) (cur s) (next s) (table s) (hs s) (last_sent s) b (staged s)
          (nidx s) (inits s) (nsess s) (sessions s).
Definition set_staged (s : state) (n : N) : state :=
  mkState (now s) (prev s) (cur s) (next s) (table s) (hs s) (last_sent s) (latch s) n
          (nidx s) (inits s) (nsess s) (sessions s).
(* the remote party derives a session addressing device index i *)
Definition add_session (s : state) (i : N) : state :=
  mkState (now s) (prev s) (cur s) (next s) (table s) (hs s) (last_sent s) (latch s) (staged s)
          (nidx s) (inits s) (nsess s + 1) ((nsess s, i) :: sessions s).

Definition age (s : state) (k : kp) : N := now s - created k.

(* The thresholds, from the code's constants. *)
Definition rekey_after_time : N := RekeyAfterTime.
Definition reject_after_time : N := RejectAfterTime.
Definition rekey_recv_time : N := RejectAfterTime - KeepaliveTimeout - RekeyTimeout.
Definition rekey_timeout : N := RekeyTimeout.

(* send.go SendHandshakeInitiation: time.Since(lastSentHandshake) < RekeyTimeout -> return *)
Definition rate_limited (s : state) : bool :=
  match last_sent s with
  | None => false
  | Some t => now s - t <? rekey_timeout
  end.

(* SendHandshakeInitiation(false) + CreateMessageInitiation:
   indexTable.Delete(handshake.localIndex); NewIndexForHandshake; state = InitiationCreated.
   Returns whether an initiation went out. *)
Definition send_initiation (s : state) : state * bool :=
  if rate_limited s then (s, false)
  else
    let i := nidx s in
    (mkState (now s) (prev s) (cur s) (next s)
             ((i, Hs) :: delete_opt (hs s) (table s)) (Some i) (Some (now s))
             (latch s) (staged s) (i + 1) (i :: inits s) (nsess s) (sessions s),
     true).

(* noise-protocol.go BeginSymmetricSession; i = handshake.localIndex, r = handshake.remoteIndex *)
Definition begin_session (s : state) (is_init : bool) (i r : N) : state :=
  let k := mkKp (nsess s) is_init (now s) i r in
  let t0 := swap i k (table s) in                       (* SwapIndexForKeypair; localIndex = 0 *)
  if is_init then
    match next s with
    | Some n =>                                          (* next != nil *)
        let t1 := delete_kp (cur s) t0 in                (* DeleteKeypair(current) *)
        let t2 := delete_kp (prev s) t1 in               (* DeleteKeypair(previous) *)
        set_keys s (Some n) (Some k) None t2 None        (* previous = next; next = nil; current = keypair *)
    | None =>
        let t2 := delete_kp (prev s) t0 in               (* DeleteKeypair(previous) *)
        set_keys s (cur s) (Some k) None t2 None         (* previous = current; current = keypair *)
    end
  else
    let t1 := delete_kp (next s) t0 in                   (* DeleteKeypair(next) *)
    let t2 := delete_kp (prev s) t1 in                   (* DeleteKeypair(previous) *)
    set_keys s None (cur s) (Some k) t2 None.            (* next = keypair; previous = nil *)

(* noise-protocol.go ReceivedWithKeypair *)
Definition received_with (s : state) (k : kp) : state * bool :=
  match next s with
  | Some n =>
      if id n =? id k then
        (set_keys s (cur s) (Some n) None (delete_kp (prev s) (table s)) (hs s), true)
      else (s, false)
  | None => (s, false)
  end.

(* send.go SendStagedPackets followed, for what was sent, by RoutineSequentialSender's
   keepKeyFreshSending.  Returns the key id of every transport message emitted and
   whether an initiation went out. *)
Definition send_staged (s : state) : state * list N * bool :=
  if staged s =? 0 then (s, [], false)
  else
    match cur s with
    | Some k =>
        if reject_after_time <=? age s k then            (* time.Since(created) >= RejectAfterTime *)
          let '(s1, i) := send_initiation s in (s1, [], i)
        else
          let sent := repeat (id k) (N.to_nat (staged s)) in
          let s1 := set_staged s 0 in
          if initiator k && (rekey_after_time <? age s k) then   (* keepKeyFreshSending *)
            let '(s2, i) := send_initiation s1 in (s2, sent, i)
          else (s1, sent, false)
    | None => let '(s1, i) := send_initiation s in (s1, [], i)
    end.

(* receive.go keepKeyFreshReceiving *)
Definition keep_key_fresh_receiving (s : state) : state * bool :=
  if latch s then (s, false)
  else
    match cur s with
    | Some k =>
        if initiator k && (rekey_recv_time <? age s k)
        then send_initiation (set_latch s true)
        else (s, false)
    | None => (s, false)
    end.

Inductive event :=
| Initiate (force : bool)      (* SendHandshakeInitiation(false) as the timers call it;
                                  force: lastSentHandshake is moved out of the way first *)
| Respond (k : nat) (r : N)    (* the remote party answers the device's k-th newest initiation, its index r *)
| CompleteResponder (r : N)    (* the remote party sends a valid fresh initiation (its index r) *)
| Recv (sid : N)               (* the remote party sends data under its session sid, fresh counter *)
| Send                         (* one packet for the peer enters through the TUN *)
| Tick (d : N)                 (* time passes *)
| Forged (sid : N)             (* a transport message with the device index of session sid and a fresh counter
                                  that does NOT authenticate (corrupted tag / garbage payload / wrong key) *)
| Replay (sid : N)             (* the remote party's last message under session sid, sent again unchanged *)
| Restart                      (* interface Down then Up: Peer.Stop (ZeroAndFlushAll) then Peer.Start *)
| Keepalive                    (* SendKeepalive: a keepalive-only transmission (no data) *)
| Abandon.                     (* the retransmit timer expires for the last time: the handshake attempt is given up *)

Record out := mkOut {
  o_acc : bool;        (* handshake completed / transport message accepted *)
  o_sent : list N;     (* key ids of the transport messages emitted, in order *)
  o_init : bool;       (* an initiation was emitted *)
  o_resp : bool;       (* a response was emitted *)
  o_tun : bool         (* a packet was written to the TUN *)
}.
Definition out0 : out := mkOut false [] false false false.

Definition do_initiate (s : state) (force : bool) : state * out :=
  let s0 := if force then set_last_sent s None else s in
  let '(s1, i) := send_initiation s0 in
  (s1, mkOut false [] i false false).

(* receive.go RoutineHandshake, MessageResponseType: ConsumeMessageResponse (lookup by
   receiver index, entry must be a handshake in state InitiationCreated -- only the newest
   initiation's ephemeral can authenticate), BeginSymmetricSession, timersHandshakeComplete,
   SendKeepalive. *)
Definition do_respond (s : state) (k : nat) (r : N) : state * out :=
  match nth_error (inits s) k with
  | None => (s, out0)                                   (* no such initiation: nothing happens *)
  | Some i =>
      let accepted :=
        match lookup i (table s), hs s with
        | Some Hs, Some h => h =? i
        | _, _ => false
        end in
      if accepted then
        let s1 := add_session (begin_session s true i r) i in
        let s2 := set_latch s1 false in                               (* timersHandshakeComplete *)
        let s3 := if staged s2 =? 0 then set_staged s2 1 else s2 in   (* SendKeepalive *)
        let '(s4, sent, i1) := send_staged s3 in
        (s4, mkOut true sent i1 false false)
      else (add_session s i, out0)
  end.

(* RoutineHandshake, MessageInitiationType (valid, fresh, not flood-limited):
   SendHandshakeResponse: lastSentHandshake = now; CreateMessageResponse:
   indexTable.Delete(handshake.localIndex), new index; BeginSymmetricSession. *)
Definition do_complete_responder (s : state) (r : N) : state * out :=
  let i := nidx s in
  let s1 := mkState (now s) (prev s) (cur s) (next s)
                    ((i, Hs) :: delete_opt (hs s) (table s)) (Some i) (Some (now s))
                    (latch s) (staged s) (i + 1) (inits s) (nsess s) (sessions s) in
  let s2 := add_session (begin_session s1 false i r) i in
  (s2, mkOut true [] false true false).

(* RoutineReceiveIncoming (lookup, age), RoutineDecryption (the key must be the sender's),
   RoutineSequentialReceiver. *)
Definition do_recv (s : state) (sid : N) : state * out :=
  match assoc sid (sessions s) with
  | None => (s, out0)                                   (* no such session: nothing is sent *)
  | Some i =>
      match lookup i (table s) with
      | Some (Kp k) =>
          if reject_after_time <? age s k then (s, out0)   (* created.Add(RejectAfterTime).Before(now) *)
          else if negb (id k =? sid) then (s, out0)        (* does not decrypt *)
          else
            let '(s1, promoted) := received_with s k in
            let '(s2, sent, i1) :=
              if promoted then send_staged (set_latch s1 false)   (* timersHandshakeComplete; SendStagedPackets *)
              else (s1, [], false) in
            let '(s3, i2) := keep_key_fresh_receiving s2 in
            (s3, mkOut true sent (i1 || i2) false true)
      | _ => (s, out0)                                     (* keypair == nil *)
      end
  end.

(* A transport message that fails authentication: RoutineReceiveIncoming may queue it (index
   honoured, key young enough), RoutineDecryption sets elem.packet = nil, RoutineSequentialReceiver
   skips it before anything else ("decryption failed: continue").  A replayed message: it was either
   refused when first sent (index not honoured / key too old -- both permanent) or accepted, and then
   the replay filter of the same keypair rejects it ("continue" before ReceivedWithKeypair).  Either
   way nothing happens: no promotion, no TUN write, no timers, nothing sent. *)
Definition do_unauthentic (s : state) (sid : N) : state * out := (s, out0).

(* device.go Down/Up -> peer.go Stop: ZeroAndFlushAll = DeleteKeypair(previous/current/next), the three
   slots nil, indexTable.Delete(handshake.localIndex), handshake.Clear(), FlushStagedPackets;
   Start: lastSentHandshake = now - (RekeyTimeout + 1 s), timersStart (latch cleared).  The remote party
   keeps its sessions and the initiations it has seen.  Nothing is sent (no persistent keepalive). *)
Definition do_restart (s : state) : state * out :=
  let t := delete_opt (hs s) (delete_kp (next s) (delete_kp (cur s) (delete_kp (prev s) (table s)))) in
  (mkState (now s) None None None t None (Some (now s - (RekeyTimeout + 1000000000))) false 0
           (nidx s) (inits s) (nsess s) (sessions s), out0).

(* SendStagedPackets with m packets in the staged queue, then what RoutineSequentialSender does. *)
Definition do_transmit (s : state) (m : N) : state * out :=
  let '(s1, sent, i) := send_staged (set_staged s m) in
  (s1, mkOut false sent i false false).

(* a data packet from the TUN: StagePackets; SendStagedPackets *)
Definition do_send (s : state) : state * out := do_transmit s (staged s + 1).

(* timers.go expiredRetransmitHandshake with handshakeAttempts > MaxTimerHandshakes ("giving up"):
   FlushStagedPackets; (the keepalive timer is deleted and the zero-key-material timer armed: not in the
   slice).  Keys, index table and the pending handshake index stay; nothing is sent.  The attempts
   counter stays at its maximum -- the code reads it only in this callback, so it is not part of the state.
   (The same callback below the maximum is SendHandshakeInitiation(true): event Initiate false.) *)
Definition do_abandon (s : state) : state * out := (set_staged s 0, out0).

(* send.go SendKeepalive (keepalive timers, persistent keepalive, UAPI switch-on of the persistent
   keepalive): an empty packet is staged only if nothing is staged; SendStagedPackets.  The sequential
   sender calls keepKeyFreshSending after every batch, data or keepalive.  (The UAPI path calls
   SendStagedPackets once more afterwards: at the same instant that is a no-op -- nothing staged, or
   the handshake request is inside the 5 s spacing.) *)
Definition do_keepalive (s : state) : state * out :=
  do_transmit s (if staged s =? 0 then 1 else staged s).

Definition step (s : state) (e : event) : state * out :=
  let s := set_now s (now s + 1) in
  match e with
  | Initiate f => do_initiate s f
  | Respond k r => do_respond s k r
  | CompleteResponder r => do_complete_responder s r
  | Recv sid => do_recv s sid
  | Send => do_send s
  | Tick d => (set_now s (now s + d), out0)
  | Forged sid => do_unauthentic s sid
  | Replay sid => do_unauthentic s sid
  | Restart => do_restart s
  | Keepalive => do_keepalive s
  | Abandon => do_abandon s
  end.

(* The property's composite event "handshake completed as initiator". *)
Definition CompleteInitiator (r : N) : list event := [Initiate true; Respond 0 r].

(* Views used by theorems and the checker. *)
Definition opt_list {A} (o : option A) : list A := match o with Some x => [x] | None => [] end.
Definition keys (s : state) : list kp := opt_list (prev s) ++ opt_list (cur s) ++ opt_list (next s).
Definition honoured (s : state) (i : N) : bool :=
  match lookup i (table s) with Some _ => true | None => false end.

(* ---- the response-processing window ------------------------------------------------------
   receive.go RoutineHandshake, MessageResponseType: ConsumeMessageResponse and
   BeginSymmetricSession are two separately locked steps of the handshake worker; other
   goroutines of the peer (the sequential receiver handling a transport message, a timer calling
   SendHandshakeInitiation) can run in between.  [step_window s pre k r]: the remote party's
   answer to the device's k-th newest initiation has been consumed (state ResponseConsumed; the
   slice's state is untouched by that: the index still names the handshake), the event [pre]
   (a [Recv]/[Initiate]) is handled INSIDE the window, then the worker goes on.  In the unchanged
   code the outcome is that of handling [pre] first: if [pre] created a new initiation
   (CreateMessageInitiation overwrote the handshake: state InitiationCreated, new index, old index
   deleted) BeginSymmetricSession fails ("invalid state") -- the consumed response now answers
   the (k+1)-th newest initiation, which [do_respond] refuses -- otherwise the session begins,
   timersHandshakeComplete clears the receive-side latch AFTER the key is installed (so a latch
   set inside the window belongs to the old session and is wiped) and the keepalive goes out. *)
Definition merge_out (a b : out) : out :=
  mkOut (o_acc b) (o_sent a ++ o_sent b) (o_init a || o_init b) (o_resp a || o_resp b) (o_tun a || o_tun b).

Definition step_window (s : state) (pre : event) (k : nat) (r : N) : state * out :=
  let '(s1, o1) := step s pre in
  let '(s2, o2) := step s1 (Respond (if o_init o1 then S k else k) r) in
  (s2, merge_out o1 o2).
