(* C20 as an executable specification over observed traces.

   After every step (a quiescent point) the harness reads the five outstanding
   counts and, independently, what rests in the peers' staged queues (elements
   and containers).  The specification follows only the up/down/closed state
   from the events and demands

       outstanding = idle baseline (cfg, up) + what is staged        (each pool)
       outstanding = 0 once the device is closed.

   The idle baseline: the TUN reader holds Device.BatchSize outbound elements
   with their buffers; while the device is up every receive routine holds
   bind-batch message buffers. *)
From WG Require Import Base.Prelude Gen.Constants Pools.Model.
Local Open Scope N_scope.

(* o_owner: ownership defects found in the staged queues (elements given back to the pool while still queued, elements
   or buffers referenced twice) *)
Record obs := { o_counts : vec; o_selems : N; o_sconts : N; o_owner : N }.

Definition baseline (c : cfg) (up closed : bool) : vec :=
  if closed then vzero else vadd (vout (dev_batch c) 0) (if up then vbuf (recv_bufs c) else vzero).

Record sp := { x_up : bool; x_closed : bool }.
Definition sp_init : sp := {| x_up := false; x_closed := false |}.
Definition sp_event (x : sp) (e : ev) : sp :=
  if x_closed x then x else
  match e with
  | EUp => {| x_up := true; x_closed := false |}
  | EDown => {| x_up := false; x_closed := false |}
  | EClose => {| x_up := false; x_closed := true |}
  | EFatalRead => {| x_up := false; x_closed := true |}
  | _ => x
  end.

Definition expected (c : cfg) (x : sp) (b : obs) : vec :=
  if x_closed x then vzero else vadd (baseline c (x_up x) false) (vout (o_selems b) (o_sconts b)).

(* verdicts: 6 = a queued element is owned twice (or was given back while queued); pools whose count differs: 1 inbound containers, 2 outbound containers, 3 message buffers,
   4 inbound elements, 5 outbound elements *)
Definition vdiff (a b : vec) : list N :=
  (if inC a =? inC b then [] else [1]) ++ (if outC a =? outC b then [] else [2]) ++
  (if buf a =? buf b then [] else [3]) ++ (if inE a =? inE b then [] else [4]) ++
  (if outE a =? outE b then [] else [5]).

Definition sp_step (c : cfg) (x : sp) (eb : ev * obs) : sp * list N :=
  let x1 := sp_event x (fst eb) in
  (x1, vdiff (expected c x1 (snd eb)) (o_counts (snd eb)) ++ (if o_owner (snd eb) =? 0 then [] else [6])).

Definition verdicts (c : cfg) (tr : list (ev * obs)) : list (list N) := outs (sp_step c) sp_init tr.
Definition holdsb (c : cfg) (tr : list (ev * obs)) : bool :=
  forallb (fun v => match v with [] => true | _ => false end) (verdicts c tr).

(* what rests in the staged queues of the model *)
Definition resting (ps : list peer) : vec := fold_right (fun q v => vadd (vstaged (q_staged q)) v) vzero ps.
Definition base_of (s : state) : vec := baseline (s_cfg s) (s_up s) (s_closed s).

Definition observe (s : state) : obs :=
  {| o_counts := outstanding s; o_selems := buf (resting (s_peers s)); o_sconts := outC (resting (s_peers s));
     o_owner := 0 |}.

Fixpoint model_trace (s : state) (evs : list ev) : list (ev * obs) :=
  match evs with
  | [] => []
  | e :: r => let s1 := step_state s e in (e, observe s1) :: model_trace s1 r
  end.
