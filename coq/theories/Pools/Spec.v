(* C20 as an executable specification over observed traces.

   After every step (a quiescent point) the harness reads the five outstanding
   counts and, independently, what rests in the peers' staged queues (elements
   and containers).  The specification follows only the up/down/closed state
   from the events and demands

       outstanding = idle baseline (cfg, up) + what is staged        (each pool)
       outstanding = 0 once the device is closed.

   The idle baseline: the TUN reader holds Device.BatchSize outbound elements
   with their buffers; while the device is up every receive routine holds
   bind-batch message buffers. *)
From WG Require Import Base.Prelude Gen.Constants Pools.Model.
Local Open Scope N_scope.

(* o_owner: ownership defects found in the staged queues (elements given back to the pool while still queued, elements
   or buffers referenced twice) *)
(* o_lost: what rests in the autodraining inbound / outbound queues of the configured peers (hook) *)
Record obs := { o_counts : vec; o_selems : N; o_sconts : N; o_owner : N; o_lost : vec }.

Definition baseline (c : cfg) (up closed : bool) : vec :=
  if closed then vzero else vadd (vout (dev_batch c) 0) (if up then vbuf (recv_bufs c) else vzero).

(* up / closed follow the events; sp_prev = what was last seen resting in the autodraining queues of configured peers;
   sp_garb = what disappeared from view together with removed peers (or at Close) and has not been garbage-collected *)
Record sp := { x_up : bool; x_closed : bool; sp_prev : vec; sp_garb : vec }.
Definition sp_init : sp := {| x_up := false; x_closed := false; sp_prev := vzero; sp_garb := vzero |}.

Definition sp_garbage (x : sp) (e : ev) (b : obs) : vec :=
  match e with
  | EGC => vzero
  | ERemovePeer _ | ERemoveAll | EClose | EFatalRead =>
      if x_closed x then sp_garb x else vadd (sp_garb x) (vsub (sp_prev x) (o_lost b))
  | _ => sp_garb x
  end.

Definition sp_event (x : sp) (e : ev) (b : obs) : sp :=
  let g := sp_garbage x e b in
  let pv := if o_owner b =? 4294967295 then sp_prev x else o_lost b in
  if x_closed x then {| x_up := x_up x; x_closed := true; sp_prev := pv; sp_garb := g |} else
  match e with
  | EUp => {| x_up := true; x_closed := false; sp_prev := pv; sp_garb := g |}
  | EDown => {| x_up := false; x_closed := false; sp_prev := pv; sp_garb := g |}
  | EClose => {| x_up := false; x_closed := true; sp_prev := pv; sp_garb := g |}
  | EFatalRead => {| x_up := false; x_closed := true; sp_prev := pv; sp_garb := g |}
  | _ => {| x_up := x_up x; x_closed := x_closed x; sp_prev := pv; sp_garb := g |}
  end.

Definition expected (c : cfg) (x : sp) (b : obs) : vec :=
  if x_closed x then sp_garb x
  else vadd (vadd (baseline c (x_up x) false) (vout (o_selems b) (o_sconts b))) (vadd (o_lost b) (sp_garb x)).

(* verdicts: 7 = packets are held in a staged queue while the interface is down (Down flushes the staged queues and a
   peer is not started while the interface is down, so nothing may be retained there); 6 = a queued element is owned twice (or was given back while queued); pools whose count differs: 1 inbound containers, 2 outbound containers, 3 message buffers,
   4 inbound elements, 5 outbound elements *)
Definition vdiff (a b : vec) : list N :=
  (if inC a =? inC b then [] else [1]) ++ (if outC a =? outC b then [] else [2]) ++
  (if buf a =? buf b then [] else [3]) ++ (if inE a =? inE b then [] else [4]) ++
  (if outE a =? outE b then [] else [5]).

(* a harness action that consists of several events whose intermediate states cannot be read (the device holds its
   peer-map lock in between) records the FINAL observation for each of them and marks all but the last: no verdict, no
   comparison with the model on marked steps *)
Definition unobserved (b : obs) : bool := o_owner b =? 4294967295.

(* verdict 8: what rests in the autodraining queues of stopped peers may only grow by a declared straggler injection
   (EStraggle); if it grows in any other step, a producer that had passed its isRunning test parked a container in a
   stopped peer's queue instead of releasing it *)
Definition vleb (a b : vec) : bool :=
  (inC a <=? inC b) && (outC a <=? outC b) && (buf a <=? buf b) && (inE a <=? inE b) && (outE a <=? outE b).
Definition declared (e : ev) : vec :=
  match e with EStraggle _ kin kout => vstraggle kin kout | _ => vzero end.

Definition sp_step (c : cfg) (x : sp) (eb : ev * obs) : sp * list N :=
  let x1 := sp_event x (fst eb) (snd eb) in
  (x1, if unobserved (snd eb) then [] else
       vdiff (expected c x1 (snd eb)) (o_counts (snd eb)) ++ (if o_owner (snd eb) =? 0 then [] else [6]) ++
       (if negb (x_up x1) && negb (x_closed x1) && negb (o_selems (snd eb) =? 0) then [7] else []) ++
       (if vleb (o_lost (snd eb)) (vadd (sp_prev x) (declared (fst eb))) then [] else [8])).

Definition verdicts (c : cfg) (tr : list (ev * obs)) : list (list N) := outs (sp_step c) sp_init tr.
Definition holdsb (c : cfg) (tr : list (ev * obs)) : bool :=
  forallb (fun v => match v with [] => true | _ => false end) (verdicts c tr).

(* what rests in the staged queues of the model *)
Definition resting (ps : list peer) : vec := fold_right (fun q v => vadd (vstaged (q_staged q)) v) vzero ps.
Definition base_of (s : state) : vec := baseline (s_cfg s) (s_up s) (s_closed s).

Definition observe (x : xstate) : obs :=
  let s := x_s x in
  {| o_counts := xoutstanding x; o_selems := buf (resting (s_peers s)); o_sconts := outC (resting (s_peers s));
     o_owner := 0; o_lost := lsum (x_lost x) |}.

Fixpoint model_trace (x : xstate) (evs : list ev) : list (ev * obs) :=
  match evs with
  | [] => []
  | e :: r => let x1 := xstep_state x e in (e, observe x1) :: model_trace x1 r
  end.
