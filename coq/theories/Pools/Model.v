(* C20 — per-step Get/Put accounting model of the five device pools
   (device/pools.go), following the release sites of device/send.go,
   device/receive.go, device/peer.go and device/device.go branch by branch, at
   quiescent points (one harness step = one event; the device settles in
   between, so every element that entered a queue has left it again).

   Vector order = VerifPoolCounts: inbound containers, outbound containers,
   message buffers, inbound elements, outbound elements.
   `a_get` / `a_put` count all Get / Put calls so far; outstanding = get - put.
   No proofs in this file. *)
From WG Require Import Base.Prelude Gen.Constants.
Local Open Scope N_scope.

Record vec := { inC : N; outC : N; buf : N; inE : N; outE : N }.
Definition vzero : vec := {| inC := 0; outC := 0; buf := 0; inE := 0; outE := 0 |}.
Definition vadd (a b : vec) : vec :=
  {| inC := inC a + inC b; outC := outC a + outC b; buf := buf a + buf b; inE := inE a + inE b; outE := outE a + outE b |}.
(* k outbound elements with their message buffers, in c outbound containers *)
Definition vout (k c : N) : vec := {| inC := 0; outC := c; buf := k; inE := 0; outE := k |}.
(* k inbound elements with their message buffers, in c inbound containers *)
Definition vin (k c : N) : vec := {| inC := c; outC := 0; buf := k; inE := k; outE := 0 |}.
Definition vbuf (k : N) : vec := {| inC := 0; outC := 0; buf := k; inE := 0; outE := 0 |}.

Record acc := { a_get : vec; a_put : vec }.
Definition get (v : vec) (a : acc) : acc := {| a_get := vadd (a_get a) v; a_put := a_put a |}.
Definition put (v : vec) (a : acc) : acc := {| a_get := a_get a; a_put := vadd (a_put a) v |}.

(* configuration: TUN batch size, bind batch size, number of receive functions of the bind *)
Record cfg := { c_tun : N; c_bind : N; c_nrecv : N }.
Definition dev_batch (c : cfg) : N := N.max (c_bind c) (c_tun c).      (* Device.BatchSize *)

(* a keypair slot: send counter, and whether it is older than RejectAfterTime *)
Record slot := { k_nonce : N; k_aged : bool }.
Definition fresh_slot : slot := {| k_nonce := 0; k_aged := false |}.

Record peer := {
  q_id : N;
  q_run : bool;
  q_pka : bool;                       (* persistent keepalive configured *)
  q_prev : option slot;
  q_cur : option slot;
  q_next : option slot;
  q_staged : list N                   (* staged containers, oldest first: number of elements in each *)
}.

Record state := {
  s_cfg : cfg;
  s_up : bool;
  s_closed : bool;
  s_peers : list peer;
  s_acc : acc
}.

(* ------------------------------------------------------------ events *)

Inductive tpkt :=
| TRoute (j : N)          (* well-formed packet whose destination lies in a prefix configured for peer j *)
| TDrop (why : N).        (* stays in the reader: 0 no route, 1 unknown IP version, 2 short header, 3 empty read *)

Inductive dgram :=
| DSkip (why : N)
    (* never leaves the receive loop: 0 shorter than MinMessageSize, 1 unknown type, 2 handshake type of wrong size,
       3 transport under an index that was never handed out, 4 transport under the index of a pending handshake *)
| DData (j : N) (sl : N) (v : N)
    (* transport under the index of peer j's keypair slot sl (0 previous, 1 current, 2 next);
       v: 0 valid data, 1 keepalive, 2 fails authentication, 3 replayed counter, 4 bad inner length,
          5 disallowed inner source, 6 bad inner IP version *)
| DHs (h : N) (j : N).
    (* right-sized handshake-type message: 0 bad MAC1, 1 acceptable initiation from peer j, 2 initiation that is
       refused after MAC1 (unknown static, old timestamp, flood), 3 acceptable response to peer j's pending
       initiation, 4 response that is refused, 5 cookie reply, 6 MAC1-valid message answered by a cookie reply (under load),
       7 message with valid MAC1 and valid MAC2 while under load: handed to the per-address rate limiter, which either
         refuses it (`goto skip`) or admits it (then refused like kind 2: the harness sends it with an unknown static key),
       8 right-sized handshake-type message that finds the handshake queue full: dropped in the receive loop (`default:` of
         the non-blocking send), the receive slot keeps its buffer, nothing is taken or given back *)

Inductive ev :=
| EAddPeer (j : N) (pka : bool)
| ERemovePeer (j : N)
| ERemoveAll
| ESetKey                                  (* private key replaced by a new one *)
| EUp | EDown | EClose
| EGC                                      (* runtime.GC twice: finalisers of the autodraining queues *)
| ETun (pkts : list tpkt)                  (* packets queued together on the TUN *)
| ETunErr (pkts : list tpkt)
    (* the same, but every read that returns these packets ALSO returns tun.ErrTooManySegments: the packets are
       processed as usual, the error is only logged *)
| EFatalRead
    (* the TUN read fails for good: the reader starts Device.Close and leaves, releasing what it holds *)
| ENet (ds : list dgram)                   (* datagrams queued together on the bind *)
| ESetNonce (j : N) (v : N)                (* hook: send counter of peer j's current keypair *)
| EExpire (j : N)                          (* hook: peer j's keypairs become older than RejectAfterTime *)
| EStraggle (j : N) (kin kout : N)
| ELateSend (j : N).
    (* hook: what a receive routine / SendStagedPackets that passed the isRunning test just before Peer.Stop leaves
       behind: a container of kin inbound elements on peer j's inbound queue and one of kout outbound elements on its
       outbound queue, BEHIND the terminator Stop pushed (the peer is stopped).  Only the autodraining-queue flush of
       Peer.Start or the queue finalisers (after the peer is garbage) give them back.  Handled by xstep below; the
       core step ignores it. *)
    (* ELateSend j — hook: a caller that looked peer j up while it was still running (handshake worker after a valid
       response, SendKeepalivesToPeersWithCurrentKeypair, a TUN reader) reaches SendKeepalive / SendStagedPackets only
       after Peer.Stop has RETURNED (Down, removal or Close), and the peer has not been started again.  The peer may
       already be removed or the device closed.  SendKeepalive tests isRunning before it takes anything, and
       SendStagedPackets finds no keypair (ZeroAndFlushAll) and nothing staged: nothing is taken, nothing is staged,
       nothing is given back.  (The hook refuses to make the call on a running peer, so the event is the identity
       there too.) *)

(* ------------------------------------------------------------ peers *)

Fixpoint find_peer (j : N) (l : list peer) : option peer :=
  match l with
  | [] => None
  | p :: r => if q_id p =? j then Some p else find_peer j r
  end.
(* replace / delete the record find_peer returns *)
Fixpoint put_peer (q : peer) (l : list peer) : list peer :=
  match l with
  | [] => []
  | p :: r => if q_id p =? q_id q then q :: r else p :: put_peer q r
  end.
Fixpoint del_peer (j : N) (l : list peer) : list peer :=
  match l with
  | [] => []
  | p :: r => if q_id p =? j then r else p :: del_peer j r
  end.

Definition set_staged (q : peer) (st : list N) : peer :=
  {| q_id := q_id q; q_run := q_run q; q_pka := q_pka q; q_prev := q_prev q; q_cur := q_cur q; q_next := q_next q;
     q_staged := st |}.
Definition set_keys (q : peer) (pr cu nx : option slot) : peer :=
  {| q_id := q_id q; q_run := q_run q; q_pka := q_pka q; q_prev := pr; q_cur := cu; q_next := nx;
     q_staged := q_staged q |}.

Definition sumN (l : list N) : N := fold_right N.add 0 l.
Definition lenN {A} (l : list A) : N := N.of_nat (length l).
(* what a staged queue holds *)
Definition vstaged (st : list N) : vec := vout (sumN st) (lenN st).

(* ------------------------------------------------------------ outbound path *)

(* Peer.StagePackets: when the staged channel is full the oldest container is released *)
Definition stage (st : list N) (k : N) (a : acc) : list N * acc :=
  if lenN st <? QueueStagedSize then (st ++ [k], a)
  else match st with
       | o :: r => (r ++ [k], put (vout o 1) a)
       | [] => (st ++ [k], a)
       end.

(* the loop of Peer.SendStagedPackets under a usable current keypair with send counter `nonce`.
   A container whose elements all get a counter below RejectAfterMessages goes through encryption and the
   sequential sender, which releases its elements, buffers and the container (whether or not the send succeeds).
   Otherwise the elements beyond the limit move to a new container (one Get) which is staged again; the original
   container is released at once when nothing is left in it, after sending otherwise; the loop ends. *)
Fixpoint send_go (st : list N) (nonce : N) (a : acc) : list N * N * acc :=
  match st with
  | [] => ([], nonce, a)
  | k :: r =>
      let room := RejectAfterMessages - nonce in
      if k <=? room then send_go r (nonce + k) (put (vout k 1) a)
      else
        let a1 := get (vout 0 1) a in
        let a2 := if room =? 0 then put (vout 0 1) a1 else put (vout room 1) a1 in
        (r ++ [k - room], RejectAfterMessages, a2)
  end.

Definition can_send (k : slot) : bool := (k_nonce k <? RejectAfterMessages) && negb (k_aged k).

Definition send_staged (up : bool) (q : peer) (a : acc) : peer * acc :=
  if negb up then (q, a) else
  match q_staged q with
  | [] => (q, a)
  | _ =>
      match q_cur q with
      | Some k =>
          if can_send k then
            let '(st, n, a1) := send_go (q_staged q) (k_nonce k) a in
            (set_staged (set_keys q (q_prev q) (Some {| k_nonce := n; k_aged := k_aged k |}) (q_next q)) st, a1)
          else (q, a)       (* SendHandshakeInitiation: the initiation is not a pooled buffer *)
      | None => (q, a)
      end
  end.

(* Peer.SendKeepalive *)
Definition send_keepalive (up : bool) (q : peer) (a : acc) : peer * acc :=
  match q_staged q with
  | [] => if q_run q then send_staged up (set_staged q [1]) (get (vout 1 1) a) else send_staged up q a
  | _ => send_staged up q a
  end.

(* Peer.Stop / ZeroAndFlushAll (nothing happens when the peer is not running) *)
Definition stop (q : peer) (a : acc) : peer * acc :=
  if q_run q then
    ({| q_id := q_id q; q_run := false; q_pka := q_pka q; q_prev := None; q_cur := None; q_next := None; q_staged := [] |},
     put (vstaged (q_staged q)) a)
  else (q, a).

(* Peer.Start (+ the keepalive of Device.upLocked for peers with persistent keepalive) *)
Definition start (q : peer) : peer :=
  {| q_id := q_id q; q_run := true; q_pka := q_pka q; q_prev := q_prev q; q_cur := q_cur q; q_next := q_next q;
     q_staged := q_staged q |}.

(* groups of one batch: peer -> items, in order of first appearance (elemsByPeer) *)
Fixpoint gadd {A} (j : N) (x : A) (g : list (N * list A)) : list (N * list A) :=
  match g with
  | [] => [(j, [x])]
  | (i, l) :: r => if i =? j then (i, l ++ [x]) :: r else (i, l) :: gadd j x r
  end.

(* RoutineReadFromTUN, one Read: the routed packets by peer *)
Fixpoint tun_groups (ps : list peer) (pkts : list tpkt) (g : list (N * list unit)) : list (N * list unit) :=
  match pkts with
  | [] => g
  | TRoute j :: r =>
      match find_peer j ps with
      | Some _ => tun_groups ps r (gadd j tt g)
      | None => tun_groups ps r g              (* allowedips.Lookup finds nobody *)
      end
  | TDrop _ :: r => tun_groups ps r g          (* `continue`: the element stays with the reader *)
  end.

(* the reader took one container per group and replaced one element + buffer per routed packet *)
Definition vgroups_out {A} (g : list (N * list A)) : vec :=
  fold_right (fun x v => vadd (vout (lenN (snd x)) 1) v) vzero g.
Definition vgroups_in {A} (g : list (N * list A)) : vec :=
  fold_right (fun x v => vadd (vin (lenN (snd x)) 1) v) vzero g.

Definition tun_group (up : bool) (pa : list peer * acc) (jk : N * list unit) : list peer * acc :=
  let '(ps, a) := pa in
  let k := lenN (snd jk) in
  match find_peer (fst jk) ps with
  | Some q =>
      if q_run q then
        let '(st, a1) := stage (q_staged q) k a in
        let '(q2, a2) := send_staged up (set_staged q st) a1 in
        (put_peer q2 ps, a2)
      else (ps, put (vout k 1) a)
  | None => (ps, put (vout k 1) a)
  end.

Definition tun_read (up : bool) (pa : list peer * acc) (pkts : list tpkt) : list peer * acc :=
  let '(ps, a) := pa in
  let g := tun_groups ps pkts [] in
  fold_left (tun_group up) g (ps, get (vgroups_out g) a).

(* ------------------------------------------------------------ inbound path *)

Definition slot_of (q : peer) (sl : N) : option slot :=
  if sl =? 0 then q_prev q else if sl =? 1 then q_cur q else if sl =? 2 then q_next q else None.

(* decrypts and has a fresh counter: ReceivedWithKeypair is called before the inner packet is looked at *)
Definition authentic (v : N) : bool := negb ((v =? 2) || (v =? 3)).

(* handshake worker: the message buffer went to the queue (the receive loop took a replacement), the worker
   releases it at `skip:`; state effects of the two acceptable messages *)
Definition hs_effect (up : bool) (h j : N) (pa : list peer * acc) : list peer * acc :=
  if h =? 8 then pa else
  let '(ps, a) := pa in
  let a := put (vbuf 1) (get (vbuf 1) a) in
  match find_peer j ps with
  | None => (ps, a)
  | Some q =>
      if h =? 1 then
        (* ConsumeMessageInitiation needs a running peer; responder side of BeginSymmetricSession *)
        if q_run q then (put_peer (set_keys q None (q_cur q) (Some fresh_slot)) ps, a) else (ps, a)
      else if h =? 3 then
        (* initiator side of BeginSymmetricSession, then SendKeepalive *)
        let q1 := match q_next q with
                  | Some n => set_keys q (Some n) (Some fresh_slot) None
                  | None => set_keys q (q_cur q) (Some fresh_slot) None
                  end in
        let '(q2, a2) := send_keepalive up q1 a in
        (put_peer q2 ps, a2)
      else (ps, a)
  end.

(* RoutineReceiveIncoming, one receive call: transport messages whose index resolves to an unexpired keypair
   become elements grouped by peer; handshake-type messages go to the handshake queue; everything else is skipped *)
Fixpoint net_scan (up : bool) (ds : list dgram) (pa : list peer * acc) (g : list (N * list (N * N)))
  : list peer * acc * list (N * list (N * N)) :=
  match ds with
  | [] => (pa, g)
  | DSkip _ :: r => net_scan up r pa g
  | DData j sl v :: r =>
      match find_peer j (fst pa) with
      | Some q =>
          match slot_of q sl with
          | Some k => if k_aged k then net_scan up r pa g else net_scan up r pa (gadd j (sl, v) g)
          | None => net_scan up r pa g
          end
      | None => net_scan up r pa g
      end
  | DHs h j :: r => net_scan up r (hs_effect up h j pa) g
  end.

(* RoutineSequentialReceiver, one element *)
Definition elem_effect (up : bool) (qa : peer * acc) (x : N * N) : peer * acc :=
  let '(q, a) := qa in
  if authentic (snd x) && (fst x =? 2) then
    match q_next q with
    | Some n => send_staged up (set_keys q (q_cur q) (Some n) None) a     (* ReceivedWithKeypair promotes next *)
    | None => (q, a)
    end
  else (q, a).

Definition net_group (up : bool) (pa : list peer * acc) (jl : N * list (N * N)) : list peer * acc :=
  let '(ps, a) := pa in
  let k := lenN (snd jl) in
  match find_peer (fst jl) ps with
  | Some q =>
      if q_run q then
        let '(q2, a2) := fold_left (elem_effect up) (snd jl) (q, a) in
        (put_peer q2 ps, put (vin k 1) a2)
      else (ps, put (vin k 1) a)
  | None => (ps, put (vin k 1) a)
  end.

Definition net_read (up : bool) (pa : list peer * acc) (ds : list dgram) : list peer * acc :=
  let '(pa1, g) := net_scan up ds pa [] in
  fold_left (net_group up) g (fst pa1, get (vgroups_in g) (snd pa1)).

(* the sim hands over at most `n` items per call *)
Fixpoint chunks {A} (fuel : nat) (n : nat) (l : list A) : list (list A) :=
  match fuel with
  | O => []
  | S f => match l with
           | [] => []
           | _ => firstn n l :: chunks f n (skipn n l)
           end
  end.

(* ------------------------------------------------------------ control plane *)

Fixpoint stop_all (ps : list peer) (a : acc) : list peer * acc :=
  match ps with
  | [] => ([], a)
  | q :: r => let '(q1, a1) := stop q a in let '(r1, a2) := stop_all r a1 in (q1 :: r1, a2)
  end.

(* Device.upLocked: Start every peer, keepalive for those with persistent keepalive *)
Fixpoint start_all (ps : list peer) (a : acc) : list peer * acc :=
  match ps with
  | [] => ([], a)
  | q :: r =>
      let '(q1, a1) := if q_pka q then send_keepalive true (start q) a else (start q, a) in
      let '(r1, a2) := start_all r a1 in (q1 :: r1, a2)
  end.

Definition expire_slot (k : option slot) : option slot :=
  match k with Some x => Some {| k_nonce := RejectAfterMessages; k_aged := k_aged x |} | None => None end.
Definition age_slot (k : option slot) : option slot :=
  match k with Some x => Some {| k_nonce := k_nonce x; k_aged := true |} | None => None end.

Definition recv_bufs (c : cfg) : N := c_nrecv c * c_bind c.

Definition with_pa (s : state) (pa : list peer * acc) : state :=
  {| s_cfg := s_cfg s; s_up := s_up s; s_closed := s_closed s; s_peers := fst pa; s_acc := snd pa |}.

Definition step_state (s : state) (e : ev) : state :=
  if s_closed s then s else
  match e with
  | EAddPeer j pka =>
      match find_peer j (s_peers s) with
      | Some q =>
          (* handlePostConfig of an existing peer: keepalive when persistent keepalive is being turned on, SendStagedPackets *)
          if s_up s then
            let q0 := {| q_id := q_id q; q_run := true; q_pka := q_pka q || pka; q_prev := q_prev q; q_cur := q_cur q;
                         q_next := q_next q; q_staged := q_staged q |} in
            let '(q1, a1) := if pka && negb (q_pka q) then send_keepalive true q0 (s_acc s)
                             else send_staged true q0 (s_acc s) in
            with_pa s (put_peer q1 (s_peers s), a1)
          else
            with_pa s (put_peer {| q_id := q_id q; q_run := q_run q; q_pka := q_pka q || pka; q_prev := q_prev q;
                                   q_cur := q_cur q; q_next := q_next q; q_staged := q_staged q |} (s_peers s), s_acc s)
      | None =>
          let q0 := {| q_id := j; q_run := s_up s; q_pka := pka; q_prev := None; q_cur := None; q_next := None;
                       q_staged := [] |} in
          let '(q1, a1) := if s_up s && pka then send_keepalive true q0 (s_acc s) else (q0, s_acc s) in
          with_pa s (s_peers s ++ [q1], a1)
      end
  | ERemovePeer j =>
      match find_peer j (s_peers s) with
      | Some q => with_pa s (del_peer j (s_peers s), snd (stop q (s_acc s)))
      | None => s
      end
  | ERemoveAll => with_pa s ([], snd (stop_all (s_peers s) (s_acc s)))
  | ESetKey =>
      with_pa s (map (fun q => set_keys q (q_prev q) (expire_slot (q_cur q)) (expire_slot (q_next q))) (s_peers s), s_acc s)
  | EUp =>
      if s_up s then s else
      (* BindUpdate: every receive routine takes bind-batch message buffers; upLocked: Start, keepalive for pka peers *)
      let a0 := get (vbuf (recv_bufs (s_cfg s))) (s_acc s) in
      let pa := start_all (s_peers s) a0 in
      {| s_cfg := s_cfg s; s_up := true; s_closed := false; s_peers := fst pa; s_acc := snd pa |}
  | EDown =>
      if negb (s_up s) then s else
      let a0 := put (vbuf (recv_bufs (s_cfg s))) (s_acc s) in
      let pa := stop_all (s_peers s) a0 in
      {| s_cfg := s_cfg s; s_up := false; s_closed := false; s_peers := fst pa; s_acc := snd pa |}
  | EClose =>
      (* tun.Close: the reader releases its elements and buffers; downLocked; RemoveAllPeers *)
      let a0 := if s_up s then put (vbuf (recv_bufs (s_cfg s))) (s_acc s) else s_acc s in
      let pa := stop_all (s_peers s) a0 in
      {| s_cfg := s_cfg s; s_up := false; s_closed := true; s_peers := [];
         s_acc := put (vout (dev_batch (s_cfg s)) 0) (snd pa) |}
  | EGC => s
  | EFatalRead =>
      (* tun.Close: the reader releases its elements and buffers; downLocked; RemoveAllPeers *)
      let a0 := if s_up s then put (vbuf (recv_bufs (s_cfg s))) (s_acc s) else s_acc s in
      let pa := stop_all (s_peers s) a0 in
      {| s_cfg := s_cfg s; s_up := false; s_closed := true; s_peers := [];
         s_acc := put (vout (dev_batch (s_cfg s)) 0) (snd pa) |}
  | ETun pkts =>
      with_pa s (fold_left (tun_read (s_up s)) (chunks (length pkts) (N.to_nat (c_tun (s_cfg s))) pkts) (s_peers s, s_acc s))
  | ETunErr pkts =>
      with_pa s (fold_left (tun_read (s_up s)) (chunks (length pkts) (N.to_nat (c_tun (s_cfg s))) pkts) (s_peers s, s_acc s))
  | ENet ds =>
      if negb (s_up s) then s else
      with_pa s (fold_left (net_read (s_up s)) (chunks (length ds) (N.to_nat (c_bind (s_cfg s))) ds) (s_peers s, s_acc s))
  | ESetNonce j v =>
      match find_peer j (s_peers s) with
      | Some q =>
          match q_cur q with
          | Some k => with_pa s (put_peer (set_keys q (q_prev q) (Some {| k_nonce := v; k_aged := k_aged k |}) (q_next q))
                                          (s_peers s), s_acc s)
          | None => s
          end
      | None => s
      end
  | EStraggle _ _ _ => s
  | ELateSend _ => s
  | EExpire j =>
      match find_peer j (s_peers s) with
      | Some q => with_pa s (put_peer (set_keys q (age_slot (q_prev q)) (age_slot (q_cur q)) (age_slot (q_next q)))
                                      (s_peers s), s_acc s)
      | None => s
      end
  end.

(* predicted VerifPoolCounts after the step *)
Definition vsub (a b : vec) : vec :=
  {| inC := inC a - inC b; outC := outC a - outC b; buf := buf a - buf b; inE := inE a - inE b; outE := outE a - outE b |}.
Definition outstanding (s : state) : vec := vsub (a_get (s_acc s)) (a_put (s_acc s)).

Definition step (s : state) (e : ev) : state * vec :=
  let s1 := step_state s e in (s1, outstanding s1).

(* NewDevice: the TUN reader takes Device.BatchSize elements with their buffers *)
Definition init (c : cfg) : state :=
  {| s_cfg := c; s_up := false; s_closed := false; s_peers := [];
     s_acc := {| a_get := vout (dev_batch c) 0; a_put := vzero |} |}.

(* ------------------------------------------------------------ stragglers in the autodraining queues

   The core model above is exact for everything that happens at quiescent points.  What can sit in a stopped peer's
   autodraining inbound / outbound queue (behind Stop's terminator) is accounted for separately, with its own Get/Put
   accumulators, so that the core accounting and its proofs stay as they are:
     x_lost     what rests in the queues of peers that are still configured, by peer
     x_garbage  what rests in the queues of peers that were removed (or of a closed device): only the finalisers
                (runtime.GC) give it back. *)

Record xstate := { x_s : state; x_lost : list (N * vec); x_garbage : vec; x_acc : acc }.

Definition lsum (l : list (N * vec)) : vec := fold_right (fun x v => vadd (snd x) v) vzero l.
Definition lost_of (j : N) (l : list (N * vec)) : vec := lsum (filter (fun x => fst x =? j) l).
Definition lost_rm (j : N) (l : list (N * vec)) : list (N * vec) := filter (fun x => negb (fst x =? j)) l.

Definition vstraggle (kin kout : N) : vec :=
  vadd (vin kin (if kin =? 0 then 0 else 1)) (vout kout (if kout =? 0 then 0 else 1)).

Definition xstep_state (x : xstate) (e : ev) : xstate :=
  let s := x_s x in
  let s1 := step_state s e in
  if s_closed s then
    match e with
    | EGC => {| x_s := s1; x_lost := x_lost x; x_garbage := vzero; x_acc := put (x_garbage x) (x_acc x) |}
    | _ => {| x_s := s1; x_lost := x_lost x; x_garbage := x_garbage x; x_acc := x_acc x |}
    end
  else
  match e with
  | EStraggle j kin kout =>
      match find_peer j (s_peers s) with
      | Some q =>
          if q_run q then {| x_s := s1; x_lost := x_lost x; x_garbage := x_garbage x; x_acc := x_acc x |}
          else {| x_s := s1; x_lost := (j, vstraggle kin kout) :: x_lost x; x_garbage := x_garbage x;
                  x_acc := get (vstraggle kin kout) (x_acc x) |}
      | None => {| x_s := s1; x_lost := x_lost x; x_garbage := x_garbage x; x_acc := x_acc x |}
      end
  | EUp =>
      (* Peer.Start flushes both autodraining queues of every peer it starts *)
      if s_up s then {| x_s := s1; x_lost := x_lost x; x_garbage := x_garbage x; x_acc := x_acc x |}
      else {| x_s := s1; x_lost := []; x_garbage := x_garbage x; x_acc := put (lsum (x_lost x)) (x_acc x) |}
  | ERemovePeer j =>
      {| x_s := s1; x_lost := lost_rm j (x_lost x); x_garbage := vadd (x_garbage x) (lost_of j (x_lost x)); x_acc := x_acc x |}
  | ERemoveAll | EClose | EFatalRead =>
      {| x_s := s1; x_lost := []; x_garbage := vadd (x_garbage x) (lsum (x_lost x)); x_acc := x_acc x |}
  | EGC => {| x_s := s1; x_lost := x_lost x; x_garbage := vzero; x_acc := put (x_garbage x) (x_acc x) |}
  | _ => {| x_s := s1; x_lost := x_lost x; x_garbage := x_garbage x; x_acc := x_acc x |}
  end.

(* predicted VerifPoolCounts: core plus stragglers *)
Definition xoutstanding (x : xstate) : vec :=
  vsub (vadd (a_get (s_acc (x_s x))) (a_get (x_acc x))) (vadd (a_put (s_acc (x_s x))) (a_put (x_acc x))).

Definition xstep (x : xstate) (e : ev) : xstate * vec :=
  let x1 := xstep_state x e in (x1, xoutstanding x1).

Definition xinit (c : cfg) : xstate :=
  {| x_s := init c; x_lost := []; x_garbage := vzero; x_acc := {| a_get := vzero; a_put := vzero |} |}.
