(* C20 — theorems about the accounting model (Pools/Model.v), for all event lists. *)
From WG Require Import Base.Prelude Gen.Constants Pools.Model Pools.Spec.
Local Open Scope N_scope.

Definition reached (c : cfg) (evs : list ev) : state := final step (init c) evs.

(* ------------------------------------------------------------ vectors *)

Ltac vdes :=
  repeat match goal with
         | a : acc |- _ => destruct a
         | v : vec |- _ => destruct v
         end.
Ltac vsimp :=
  unfold get, put in *; unfold vstaged in *; unfold vadd, vout, vin, vbuf, vzero, vsub in *;
  cbn [a_get a_put inC outC buf inE outE] in *.
Ltac vinj :=
  repeat match goal with
         | H : Build_vec _ _ _ _ _ = Build_vec _ _ _ _ _ |- _ => injection H; clear H; intros
         end.
Ltac vlia := vdes; vsimp; vinj; try (f_equal; lia).

(* "outstanding grows by as much as what is held grows":  get' - get - (put' - put) = r' - r, without subtraction *)
Definition bal (a a' : acc) (r r' : vec) : Prop :=
  vadd (a_get a') (vadd (a_put a) r) = vadd (a_get a) (vadd (a_put a') r').

Lemma vadd_zero_r v : vadd v vzero = v.
Proof. vlia. Qed.
Lemma vadd_assoc a b c : vadd (vadd a b) c = vadd a (vadd b c).
Proof. vlia. Qed.
Lemma vadd_comm a b : vadd a b = vadd b a.
Proof. vlia. Qed.

Lemma bal_refl a r : bal a a r r.
Proof. unfold bal. vlia. Qed.

Lemma bal_trans a a1 a2 r r1 r2 : bal a a1 r r1 -> bal a1 a2 r1 r2 -> bal a a2 r r2.
Proof. unfold bal. intros H1 H2. vlia. Qed.

Lemma bal_frame a a' r r' x : bal a a' r r' -> bal a a' (vadd r x) (vadd r' x).
Proof. unfold bal. intros H. vlia. Qed.

Lemma bal_frame_l a a' r r' x : bal a a' r r' -> bal a a' (vadd x r) (vadd x r').
Proof. unfold bal. intros H. vlia. Qed.

Lemma bal_get a a' v r r' : bal (get v a) a' (vadd r v) r' -> bal a a' r r'.
Proof. unfold bal. intros H. vlia. Qed.

Lemma bal_put a v r : bal a (put v a) (vadd r v) r.
Proof. unfold bal. vlia. Qed.

Lemma bal_eq a a' r r' s s' : bal a a' r r' -> r = s -> r' = s' -> bal a a' s s'.
Proof. intros H -> ->. auto. Qed.

(* ------------------------------------------------------------ lists of containers *)

Lemma sumN_app l k : sumN (l ++ [k]) = sumN l + k.
Proof. unfold sumN. induction l as [|x l IH]; cbn [app fold_right]; [lia|]. rewrite IH. lia. Qed.

Lemma lenN_app {A} (l : list A) k : lenN (l ++ [k]) = lenN l + 1.
Proof. unfold lenN. rewrite app_length. cbn [length]. lia. Qed.

Lemma lenN_cons {A} (x : A) l : lenN (x :: l) = lenN l + 1.
Proof. unfold lenN. cbn [length]. lia. Qed.

Lemma sumN_cons x l : sumN (x :: l) = x + sumN l.
Proof. reflexivity. Qed.

Lemma vstaged_nil : vstaged [] = vzero.
Proof. reflexivity. Qed.

Lemma vstaged_app st k : vstaged (st ++ [k]) = vadd (vstaged st) (vout k 1).
Proof. unfold vstaged. rewrite sumN_app, lenN_app. unfold vout, vadd; cbn [inC outC buf inE outE]. f_equal; lia. Qed.

Lemma vstaged_cons o r : vstaged (o :: r) = vadd (vout o 1) (vstaged r).
Proof. unfold vstaged. rewrite sumN_cons, lenN_cons. unfold vout, vadd; cbn [inC outC buf inE outE]. f_equal; lia. Qed.

(* ------------------------------------------------------------ outbound path, one peer *)

Lemma stage_bal st k a st' a' :
  stage st k a = (st', a') -> bal a a' (vadd (vstaged st) (vout k 1)) (vstaged st').
Proof.
  unfold stage. destruct (lenN st <? QueueStagedSize).
  - intros H; injection H; intros <- <-. rewrite vstaged_app. apply bal_refl.
  - destruct st as [|o r].
    + intros H; injection H; intros <- <-. change ([] ++ [k]) with [k].
      unfold bal, vstaged, sumN, lenN; cbn [fold_right length N.of_nat]. vlia.
    + intros H; injection H; intros <- <-. rewrite vstaged_app, vstaged_cons.
      unfold bal. vlia.
Qed.

Lemma send_go_cons k r n a :
  send_go (k :: r) n a =
  if k <=? RejectAfterMessages - n then send_go r (n + k) (put (vout k 1) a)
  else (r ++ [k - (RejectAfterMessages - n)], RejectAfterMessages,
        if RejectAfterMessages - n =? 0 then put (vout 0 1) (get (vout 0 1) a)
        else put (vout (RejectAfterMessages - n) 1) (get (vout 0 1) a)).
Proof. reflexivity. Qed.

Lemma send_go_bal st : forall n a st' n' a',
  send_go st n a = (st', n', a') -> bal a a' (vstaged st) (vstaged st').
Proof.
  induction st as [|k r IH]; intros n a st' n' a'; [cbn [send_go]|rewrite send_go_cons].
  - intros H; injection H; intros <- _ <-. apply bal_refl.
  - set (room := RejectAfterMessages - n). clearbody room.
    destruct (k <=? room) eqn:E.
    + intros H. apply IH in H. rewrite vstaged_cons.
      eapply bal_trans; [|exact H].
      unfold bal. vlia.
    + apply N.leb_gt in E. destruct (room =? 0) eqn:Z.
      * apply N.eqb_eq in Z. subst room. intros H; injection H; intros <- _ <-.
        rewrite vstaged_app, vstaged_cons. replace (k - 0) with k by lia. unfold bal. vlia.
      * intros H; injection H; intros <- _ <-.
        rewrite vstaged_app, vstaged_cons.
        assert (k = room + (k - room)) as Hk by lia. revert Hk. generalize (k - room). intros d Hk. subst k.
        unfold bal. vlia.
Qed.

Lemma send_staged_spec up q a q' a' :
  send_staged up q a = (q', a') ->
  bal a a' (vstaged (q_staged q)) (vstaged (q_staged q')) /\ q_id q' = q_id q /\ q_run q' = q_run q.
Proof.
  unfold send_staged. destruct (negb up).
  { intros H; injection H; intros <- <-. split; [apply bal_refl|auto]. }
  destruct (q_staged q) eqn:S.
  { intros H; injection H; intros <- <-. rewrite S. split; [apply bal_refl|auto]. }
  rewrite <- S. destruct (q_cur q) as [k|].
  2:{ intros H; injection H; intros <- <-. split; [apply bal_refl|auto]. }
  destruct (can_send k).
  2:{ intros H; injection H; intros <- <-. split; [apply bal_refl|auto]. }
  destruct (send_go (q_staged q) (k_nonce k) a) as [[st nn] a1] eqn:G.
  intros H; injection H; intros <- <-. cbn [set_staged set_keys q_staged q_id q_run].
  split; [eapply send_go_bal; exact G|auto].
Qed.

Lemma send_keepalive_spec up q a q' a' :
  send_keepalive up q a = (q', a') ->
  bal a a' (vstaged (q_staged q)) (vstaged (q_staged q')) /\ q_id q' = q_id q /\ q_run q' = q_run q.
Proof.
  unfold send_keepalive. destruct (q_staged q) eqn:S.
  - destruct (q_run q) eqn:R.
    + intros H. apply send_staged_spec in H. cbn [set_staged q_staged q_id q_run] in H.
      destruct H as (H & Hi & Hr). split; [|split; congruence].
      apply bal_get with (v := vout 1 1). apply (bal_eq _ _ _ _ _ _ H); [|reflexivity].
      vm_compute. reflexivity.
    + intros H. apply send_staged_spec in H. rewrite S in H.
      destruct H as (H & Hi & Hr); split; [exact H|split; congruence].
  - rewrite <- S. apply send_staged_spec.
Qed.

Lemma send_staged_nil up q a q' a' :
  send_staged up q a = (q', a') -> q_staged q = [] -> q_staged q' = [].
Proof.
  unfold send_staged. intros H S. rewrite S in H. destruct (negb up); injection H; intros <- <-; exact S.
Qed.

Lemma send_keepalive_idle up q a q' a' :
  send_keepalive up q a = (q', a') -> q_run q = false -> q_staged q = [] -> q_staged q' = [].
Proof.
  unfold send_keepalive. intros H R S. rewrite S, R in H. eapply send_staged_nil; eassumption.
Qed.

Lemma stop_spec q a q' a' :
  stop q a = (q', a') ->
  bal a a' (vstaged (q_staged q)) (vstaged (q_staged q')) /\ q_id q' = q_id q /\
  (q_run q = true -> q_staged q' = [] /\ q_run q' = false) /\ (q_run q = false -> q' = q).
Proof.
  unfold stop. destruct (q_run q).
  - intros H; injection H; intros <- <-. cbn [q_staged q_id q_run].
    split; [|split; [reflexivity|split; [intros _; split; reflexivity|discriminate]]].
    rewrite vstaged_nil. unfold bal. vlia.
  - intros H; injection H; intros <- <-.
    split; [apply bal_refl|split; [reflexivity|split; [discriminate|reflexivity]]].
Qed.

(* ------------------------------------------------------------ the peer list *)

Lemma find_peer_id j ps q : find_peer j ps = Some q -> q_id q = j.
Proof.
  induction ps as [|p r IH]; cbn [find_peer]; [discriminate|].
  destruct (q_id p =? j) eqn:E; [|exact IH]. intros H; injection H; intros <-. apply N.eqb_eq; exact E.
Qed.

Lemma find_peer_in j ps q : find_peer j ps = Some q -> In q ps.
Proof.
  induction ps as [|p r IH]; cbn [find_peer]; [discriminate|].
  destruct (q_id p =? j); [intros H; injection H; intros <-; left; reflexivity|intros H; right; auto].
Qed.

Lemma resting_cons q ps : resting (q :: ps) = vadd (vstaged (q_staged q)) (resting ps).
Proof. reflexivity. Qed.

Lemma resting_app ps q : resting (ps ++ [q]) = vadd (resting ps) (vstaged (q_staged q)).
Proof.
  induction ps as [|p r IH]; cbn [app]; rewrite ?resting_cons.
  - unfold resting; cbn. vlia.
  - rewrite IH. vlia.
Qed.

Lemma resting_put_peer j ps q q' :
  find_peer j ps = Some q -> q_id q' = j ->
  vadd (resting (put_peer q' ps)) (vstaged (q_staged q)) = vadd (resting ps) (vstaged (q_staged q')).
Proof.
  intros F I. induction ps as [|p r IH]; cbn [find_peer put_peer] in *; [discriminate|].
  rewrite I. destruct (q_id p =? j) eqn:E.
  - injection F; intros ->. rewrite !resting_cons. vlia.
  - rewrite !resting_cons. specialize (IH F). vlia.
Qed.

Lemma resting_del_peer j ps q :
  find_peer j ps = Some q -> resting ps = vadd (resting (del_peer j ps)) (vstaged (q_staged q)).
Proof.
  intros F. induction ps as [|p r IH]; cbn [find_peer del_peer] in *; [discriminate|].
  destruct (q_id p =? j) eqn:E.
  - injection F; intros ->. rewrite resting_cons. vlia.
  - rewrite !resting_cons. rewrite (IH F). vlia.
Qed.

Lemma in_put_peer q' ps x : In x (put_peer q' ps) -> x = q' \/ In x ps.
Proof.
  induction ps as [|p r IH]; cbn [put_peer]; [tauto|].
  destruct (q_id p =? q_id q'); cbn [In]; intros [H|H]; auto. destruct (IH H); auto.
Qed.

Lemma in_del_peer j ps x : In x (del_peer j ps) -> In x ps.
Proof.
  induction ps as [|p r IH]; cbn [del_peer]; [tauto|].
  destruct (q_id p =? j); cbn [In]; intros H; auto. destruct H; auto.
Qed.

(* peers that are not running hold nothing *)
Definition idle_ok (ps : list peer) : Prop := forall q, In q ps -> q_run q = false -> q_staged q = [].

Lemma idle_ok_put q' ps : idle_ok ps -> (q_run q' = false -> q_staged q' = []) -> idle_ok (put_peer q' ps).
Proof. intros H Hq x Hx. destruct (in_put_peer _ _ _ Hx) as [->|Hi]; auto. Qed.

(* bal on the whole peer list when one peer is replaced *)
Lemma bal_put_peer j ps q q' a a' x :
  find_peer j ps = Some q -> q_id q' = j ->
  bal a a' (vadd (vstaged (q_staged q)) x) (vstaged (q_staged q')) ->
  bal a a' (vadd (resting ps) x) (resting (put_peer q' ps)).
Proof.
  intros F I B. pose proof (resting_put_peer j ps q q' F I) as R. unfold bal in *. vlia.
Qed.

(* ------------------------------------------------------------ TUN reads *)

Lemma tun_group_spec up ps a jk ps' a' :
  tun_group up (ps, a) jk = (ps', a') -> idle_ok ps ->
  bal a a' (vadd (resting ps) (vout (lenN (snd jk)) 1)) (resting ps') /\ idle_ok ps'.
Proof.
  unfold tun_group. intros H I.
  destruct (find_peer (fst jk) ps) as [q|] eqn:F.
  2:{ injection H; intros <- <-. split; [apply bal_put|exact I]. }
  destruct (q_run q) eqn:R.
  2:{ injection H; intros <- <-. split; [apply bal_put|exact I]. }
  destruct (stage (q_staged q) (lenN (snd jk)) a) as [st a1] eqn:S.
  destruct (send_staged up (set_staged q st) a1) as [q2 a2] eqn:G.
  injection H; intros <- <-.
  apply stage_bal in S. apply send_staged_spec in G. cbn [set_staged q_staged q_id q_run] in G.
  destruct G as (G & Gi & Gr).
  split.
  - eapply bal_put_peer; [exact F| rewrite Gi; eapply find_peer_id; exact F |].
    eapply bal_trans; [exact S|exact G].
  - apply idle_ok_put; [exact I|]. rewrite Gr, R. discriminate.
Qed.

Lemma vgroups_out_cons {A} (x : N * list A) g : vgroups_out (x :: g) = vadd (vout (lenN (snd x)) 1) (vgroups_out g).
Proof. reflexivity. Qed.
Lemma vgroups_in_cons {A} (x : N * list A) g : vgroups_in (x :: g) = vadd (vin (lenN (snd x)) 1) (vgroups_in g).
Proof. reflexivity. Qed.

Lemma tun_groups_fold up g : forall ps a ps' a',
  fold_left (tun_group up) g (ps, a) = (ps', a') -> idle_ok ps ->
  bal a a' (vadd (resting ps) (vgroups_out g)) (resting ps') /\ idle_ok ps'.
Proof.
  induction g as [|x g IH]; intros ps a ps' a'; cbn [fold_left].
  - intros H I; injection H; intros <- <-. split; [|exact I].
    unfold vgroups_out; cbn [fold_right]. rewrite vadd_zero_r. apply bal_refl.
  - intros H I. destruct (tun_group up (ps, a) x) as [ps1 a1] eqn:T.
    apply tun_group_spec in T; [|exact I]. destruct T as (T & I1).
    apply IH in H; [|exact I1]. destruct H as (H & I2). split; [|exact I2].
    rewrite vgroups_out_cons.
    eapply bal_trans; [|exact H].
    apply (bal_frame _ _ _ _ (vgroups_out g)) in T.
    apply (bal_eq _ _ _ _ _ _ T); [|reflexivity].
    apply vadd_assoc.
Qed.

Lemma tun_read_spec up ps a pkts ps' a' :
  tun_read up (ps, a) pkts = (ps', a') -> idle_ok ps ->
  bal a a' (resting ps) (resting ps') /\ idle_ok ps'.
Proof.
  unfold tun_read. intros H I. apply tun_groups_fold in H; [|exact I]. destruct H as (H & I').
  split; [|exact I']. eapply bal_get. exact H.
Qed.

Lemma reads_fold {A} (f : list peer * acc -> A -> list peer * acc) :
  (forall ps a x ps' a', f (ps, a) x = (ps', a') -> idle_ok ps -> bal a a' (resting ps) (resting ps') /\ idle_ok ps') ->
  forall l ps a ps' a', fold_left f l (ps, a) = (ps', a') -> idle_ok ps ->
  bal a a' (resting ps) (resting ps') /\ idle_ok ps'.
Proof.
  intros Hf l. induction l as [|x l IH]; intros ps a ps' a'; cbn [fold_left].
  - intros H I; injection H; intros <- <-. split; [apply bal_refl|exact I].
  - intros H I. destruct (f (ps, a) x) as [ps1 a1] eqn:T.
    apply Hf in T; [|exact I]. destruct T as (T & I1).
    apply IH in H; [|exact I1]. destruct H as (H & I2). split; [|exact I2].
    eapply bal_trans; eassumption.
Qed.

(* ------------------------------------------------------------ inbound path *)

Lemma elem_effect_spec up q a x q' a' :
  elem_effect up (q, a) x = (q', a') ->
  bal a a' (vstaged (q_staged q)) (vstaged (q_staged q')) /\ q_id q' = q_id q /\ q_run q' = q_run q.
Proof.
  unfold elem_effect. destruct (authentic (snd x) && (fst x =? 2)).
  2:{ intros H; injection H; intros <- <-. split; [apply bal_refl|auto]. }
  destruct (q_next q).
  2:{ intros H; injection H; intros <- <-. split; [apply bal_refl|auto]. }
  intros H. apply send_staged_spec in H. cbn [set_keys q_staged q_id q_run] in H. exact H.
Qed.

Lemma elems_fold up l : forall q a q' a',
  fold_left (elem_effect up) l (q, a) = (q', a') ->
  bal a a' (vstaged (q_staged q)) (vstaged (q_staged q')) /\ q_id q' = q_id q /\ q_run q' = q_run q.
Proof.
  induction l as [|x l IH]; intros q a q' a'; cbn [fold_left].
  - intros H; injection H; intros <- <-. split; [apply bal_refl|auto].
  - intros H. destruct (elem_effect up (q, a) x) as [q1 a1] eqn:T.
    apply elem_effect_spec in T. destruct T as (T & Ti & Tr).
    apply IH in H. destruct H as (H & Hi & Hr). split; [eapply bal_trans; eassumption|].
    split; congruence.
Qed.

Lemma net_group_spec up ps a jl ps' a' :
  net_group up (ps, a) jl = (ps', a') -> idle_ok ps ->
  bal a a' (vadd (resting ps) (vin (lenN (snd jl)) 1)) (resting ps') /\ idle_ok ps'.
Proof.
  unfold net_group. intros H I.
  destruct (find_peer (fst jl) ps) as [q|] eqn:F.
  2:{ injection H; intros <- <-. split; [apply bal_put|exact I]. }
  destruct (q_run q) eqn:R.
  2:{ injection H; intros <- <-. split; [apply bal_put|exact I]. }
  destruct (fold_left (elem_effect up) (snd jl) (q, a)) as [q2 a2] eqn:G.
  injection H; intros <- <-.
  apply elems_fold in G. destruct G as (G & Gi & Gr).
  split.
  - pose proof (resting_put_peer (fst jl) ps q q2 F) as Rp.
    rewrite Gi in Rp. specialize (Rp (find_peer_id _ _ _ F)).
    unfold bal in *. vlia.
  - apply idle_ok_put; [exact I|]. rewrite Gr, R. discriminate.
Qed.

Lemma net_groups_fold up g : forall ps a ps' a',
  fold_left (net_group up) g (ps, a) = (ps', a') -> idle_ok ps ->
  bal a a' (vadd (resting ps) (vgroups_in g)) (resting ps') /\ idle_ok ps'.
Proof.
  induction g as [|x g IH]; intros ps a ps' a'; cbn [fold_left].
  - intros H I; injection H; intros <- <-. split; [|exact I].
    unfold vgroups_in; cbn [fold_right]. rewrite vadd_zero_r. apply bal_refl.
  - intros H I. destruct (net_group up (ps, a) x) as [ps1 a1] eqn:T.
    apply net_group_spec in T; [|exact I]. destruct T as (T & I1).
    apply IH in H; [|exact I1]. destruct H as (H & I2). split; [|exact I2].
    rewrite vgroups_in_cons.
    eapply bal_trans; [|exact H].
    apply (bal_frame _ _ _ _ (vgroups_in g)) in T.
    apply (bal_eq _ _ _ _ _ _ T); [|reflexivity].
    apply vadd_assoc.
Qed.

Lemma hs_effect_spec up h j ps a ps' a' :
  hs_effect up h j (ps, a) = (ps', a') -> idle_ok ps ->
  bal a a' (resting ps) (resting ps') /\ idle_ok ps'.
Proof.
  unfold hs_effect. intros H I.
  destruct (h =? 8); [injection H; intros <- <-; split; [apply bal_refl|exact I]|].
  assert (B0 : forall r, bal a (put (vbuf 1) (get (vbuf 1) a)) r r) by (intros r; unfold bal; vlia).
  destruct (find_peer j ps) as [q|] eqn:F.
  2:{ injection H; intros <- <-. split; [apply B0|exact I]. }
  destruct (h =? 1).
  { destruct (q_run q) eqn:R.
    2:{ injection H; intros <- <-. split; [apply B0|exact I]. }
    injection H; intros <- <-. split.
    - pose proof (resting_put_peer j ps q (set_keys q None (q_cur q) (Some fresh_slot)) F) as Rp.
      cbn [set_keys q_id q_staged] in Rp. specialize (Rp (find_peer_id _ _ _ F)).
      specialize (B0 (resting ps)). unfold bal in *. vlia.
    - apply idle_ok_put; [exact I|]. cbn [set_keys q_run]. rewrite R. discriminate. }
  destruct (h =? 3).
  2:{ injection H; intros <- <-. split; [apply B0|exact I]. }
  match type of H with context [send_keepalive up ?q1 ?a1] => destruct (send_keepalive up q1 a1) as [q2 a2] eqn:G; set (qq := q1) in * end.
  injection H; intros <- <-.
  pose proof G as G0. apply send_keepalive_spec in G. destruct G as (G & Gi & Gr).
  assert (Hq : q_id qq = q_id q /\ q_staged qq = q_staged q /\ q_run qq = q_run q)
    by (unfold qq; destruct (q_next q); cbn [set_keys q_id q_staged q_run]; auto).
  destruct Hq as (Hq1 & Hq2 & Hq3). rewrite Hq2 in G.
  split.
  - pose proof (resting_put_peer j ps q q2 F) as Rp.
    rewrite Gi, Hq1 in Rp. specialize (Rp (find_peer_id _ _ _ F)).
    specialize (B0 (resting ps)). unfold bal in *. vlia.
  - apply idle_ok_put; [exact I|]. intros Hr. rewrite Gr, Hq3 in Hr.
    pose proof (I q (find_peer_in _ _ _ F) Hr) as Hs.
    eapply send_keepalive_idle; [exact G0| rewrite Hq3; exact Hr | rewrite Hq2; exact Hs].
Qed.

Lemma net_scan_spec up ds : forall ps a g ps' a' g',
  net_scan up ds (ps, a) g = (ps', a', g') -> idle_ok ps ->
  bal a a' (resting ps) (resting ps') /\ idle_ok ps'.
Proof.
  induction ds as [|d ds IH]; intros ps a g ps' a' g'; cbn [net_scan].
  - intros H I; injection H; intros _ <- <-. split; [apply bal_refl|exact I].
  - destruct d as [w|j sl v|h j].
    + apply IH.
    + cbn [fst]. destruct (find_peer j ps) as [q|]; [|apply IH].
      destruct (slot_of q sl) as [k|]; [|apply IH]. destruct (k_aged k); apply IH.
    + intros H I. destruct (hs_effect up h j (ps, a)) as [ps1 a1] eqn:E.
      apply hs_effect_spec in E; [|exact I]. destruct E as (E & I1).
      apply IH in H; [|exact I1]. destruct H as (H & I2). split; [eapply bal_trans; eassumption|exact I2].
Qed.

Lemma net_read_spec up ps a ds ps' a' :
  net_read up (ps, a) ds = (ps', a') -> idle_ok ps ->
  bal a a' (resting ps) (resting ps') /\ idle_ok ps'.
Proof.
  unfold net_read. intros H I.
  destruct (net_scan up ds (ps, a) []) as [[ps1 a1] g] eqn:S.
  apply net_scan_spec in S; [|exact I]. destruct S as (S & I1).
  cbn [fst snd] in H. apply net_groups_fold in H; [|exact I1]. destruct H as (H & I2).
  split; [|exact I2]. eapply bal_trans; [exact S|]. eapply bal_get. exact H.
Qed.

(* ------------------------------------------------------------ control plane *)

Lemma stop_all_spec ps : forall a ps' a',
  stop_all ps a = (ps', a') -> idle_ok ps ->
  bal a a' (resting ps) vzero /\ resting ps' = vzero /\ (forall q, In q ps' -> q_run q = false /\ q_staged q = []).
Proof.
  induction ps as [|q r IH]; intros a ps' a'; cbn [stop_all].
  - intros H I; injection H; intros <- <-. split; [apply bal_refl|]. split; [reflexivity|]. intros q [].
  - intros H I. destruct (stop q a) as [q1 a1] eqn:S. destruct (stop_all r a1) as [r1 a2] eqn:R.
    injection H; intros <- <-.
    assert (Ir : idle_ok r) by (intros x Hx; apply I; right; exact Hx).
    apply IH in R; [|exact Ir]. destruct R as (R & Rz & Rq).
    apply stop_spec in S. destruct S as (S & _ & Srun & Sidle).
    assert (Hq1 : q_run q1 = false /\ q_staged q1 = []).
    { destruct (q_run q) eqn:E.
      - destruct (Srun eq_refl) as (A & B). auto.
      - rewrite (Sidle eq_refl). split; [exact E|]. apply I; [left; reflexivity|exact E]. }
    destruct Hq1 as (Hr1 & Hs1). rewrite Hs1 in S.
    split; [|split].
    + rewrite resting_cons. rewrite vstaged_nil in S.
      apply (bal_frame _ _ _ _ (resting r)) in S.
      apply (bal_frame_l _ _ _ _ vzero) in R.
      eapply bal_trans; [exact S|]. apply (bal_eq _ _ _ _ _ _ R); vlia.
    + rewrite resting_cons, Hs1, Rz. reflexivity.
    + intros x [<-|Hx]; auto.
Qed.

Lemma start_all_spec ps : forall a ps' a',
  start_all ps a = (ps', a') ->
  bal a a' (resting ps) (resting ps') /\ (forall q, In q ps' -> q_run q = true).
Proof.
  induction ps as [|q r IH]; intros a ps' a'; cbn [start_all].
  - intros H; injection H; intros <- <-. split; [apply bal_refl|]. intros q [].
  - intros H.
    destruct (if q_pka q then send_keepalive true (start q) a else (start q, a)) as [q1 a1] eqn:S.
    destruct (start_all r a1) as [r1 a2] eqn:R. injection H; intros <- <-.
    apply IH in R. destruct R as (R & Rq).
    assert (S' : bal a a1 (vstaged (q_staged q)) (vstaged (q_staged q1)) /\ q_run q1 = true).
    { destruct (q_pka q).
      - apply send_keepalive_spec in S. cbn [start q_staged q_id q_run] in S. destruct S as (S & _ & Sr). auto.
      - injection S; intros <- <-. cbn [start q_staged q_run]. split; [apply bal_refl|reflexivity]. }
    destruct S' as (S' & Sr).
    split.
    + rewrite !resting_cons.
      apply (bal_frame _ _ _ _ (resting r)) in S'.
      apply (bal_frame_l _ _ _ _ (vstaged (q_staged q1))) in R.
      eapply bal_trans; eassumption.
    + intros x [<-|Hx]; auto.
Qed.

(* ------------------------------------------------------------ the invariant *)

Definition cons_ok (s : state) : Prop :=
  a_get (s_acc s) = vadd (a_put (s_acc s)) (vadd (base_of s) (resting (s_peers s))).

Definition inv (s : state) : Prop :=
  cons_ok s /\ idle_ok (s_peers s) /\ (s_closed s = true -> s_peers s = [] /\ s_up s = false).

Lemma cons_step ps a ps' a' b :
  a_get a = vadd (a_put a) (vadd b (resting ps)) -> bal a a' (resting ps) (resting ps') ->
  a_get a' = vadd (a_put a') (vadd b (resting ps')).
Proof.
  unfold bal. generalize (resting ps) (resting ps'). intros r r' H B. vlia.
Qed.

Lemma inv_init c : inv (init c).
Proof.
  unfold inv, cons_ok, init, base_of, baseline; cbn [s_acc s_peers s_closed s_up s_cfg a_get a_put resting fold_right].
  split; [vlia|]. split; [intros q []|discriminate].
Qed.

Lemma inv_with_pa s ps' a' :
  s_closed s = false ->
  cons_ok s -> bal (s_acc s) a' (resting (s_peers s)) (resting ps') -> idle_ok ps' ->
  inv (with_pa s (ps', a')).
Proof.
  intros C H B I. unfold inv, cons_ok, with_pa, base_of in *; cbn [s_acc s_peers s_closed s_up s_cfg fst snd].
  split; [eapply cons_step; eassumption|]. split; [exact I|]. rewrite C. discriminate.
Qed.

Lemma idle_ok_app ps q : idle_ok ps -> (q_run q = false -> q_staged q = []) -> idle_ok (ps ++ [q]).
Proof.
  intros I Hq x Hx. apply in_app_or in Hx. destruct Hx as [Hx|[<-|[]]]; auto.
Qed.

Lemma idle_ok_del j ps : idle_ok ps -> idle_ok (del_peer j ps).
Proof. intros I x Hx. apply I. eapply in_del_peer; exact Hx. Qed.

Lemma bal_put_only a v r r' : vadd r' v = r -> bal a (put v a) r r'.
Proof. intros <-. unfold bal. vlia. Qed.

Lemma inv_step s e : inv s -> inv (step_state s e).
Proof.
  intros (H & I & C). unfold step_state.
  destruct (s_closed s) eqn:Cl; [split; [exact H|split; [exact I|intros _; apply C; reflexivity]]|].
  destruct e as [j pka|j| | | | | | |pkts|pkts| |ds|j v|j|j kin kout|j].
  - (* EAddPeer *)
    destruct (find_peer j (s_peers s)) as [q|] eqn:F.
    + destruct (s_up s) eqn:U.
      * match goal with |- context [if ?c then send_keepalive true ?q0 ?a else _] =>
          destruct (if c then send_keepalive true q0 a else send_staged true q0 a) as [q1 a1] eqn:G;
          assert (G' : bal a a1 (vstaged (q_staged q)) (vstaged (q_staged q1)) /\ q_id q1 = q_id q /\ q_run q1 = true)
        end.
        { destruct (pka && negb (q_pka q)).
          - apply send_keepalive_spec in G. cbn [q_staged q_id q_run] in G. exact G.
          - apply send_staged_spec in G. cbn [q_staged q_id q_run] in G. exact G. }
        destruct G' as (G1 & G2 & G3).
        apply inv_with_pa; [exact Cl|exact H| |].
        -- pose proof (resting_put_peer j (s_peers s) q q1 F) as Rp.
           rewrite G2 in Rp. specialize (Rp (find_peer_id _ _ _ F)).
           revert Rp G1. unfold bal. generalize (resting (s_peers s)) (resting (put_peer q1 (s_peers s))).
           intros r r' Rp G1. vlia.
        -- apply idle_ok_put; [exact I|]. rewrite G3. discriminate.
      * apply inv_with_pa; [exact Cl|exact H| |].
        -- match goal with |- context [put_peer ?qq _] => pose proof (resting_put_peer j (s_peers s) q qq F) as Rp end.
           cbn [q_id q_staged] in Rp. specialize (Rp (find_peer_id _ _ _ F)).
           revert Rp. unfold bal. match goal with |- context [resting (put_peer ?qq ?l)] => generalize (resting (put_peer qq l)) end.
           generalize (resting (s_peers s)). intros r r' Rp. vlia.
        -- apply idle_ok_put; [exact I|]. cbn [q_run q_staged]. apply I. eapply find_peer_in; exact F.
    + match goal with |- context [if ?c then send_keepalive true ?q0 ?a else _] =>
        destruct (if c then send_keepalive true q0 a else (q0, a)) as [q1 a1] eqn:G;
        assert (G' : bal a a1 vzero (vstaged (q_staged q1)) /\ (q_run q1 = false -> q_staged q1 = []))
      end.
      { destruct (s_up s && pka) eqn:E.
        - pose proof G as G0. apply send_keepalive_spec in G. cbn [q_staged q_id q_run] in G.
          destruct G as (G & _ & Gr). rewrite vstaged_nil in G. split; [exact G|].
          intros Hr. eapply send_keepalive_idle; [exact G0| |reflexivity]. cbn [q_run]. congruence.
        - injection G; intros <- <-. cbn [q_staged]. rewrite vstaged_nil. split; [apply bal_refl|reflexivity]. }
      destruct G' as (G1 & G2).
      apply inv_with_pa; [exact Cl|exact H| |].
      * rewrite resting_app. apply (bal_frame_l _ _ _ _ (resting (s_peers s))) in G1.
        rewrite vadd_zero_r in G1. exact G1.
      * apply idle_ok_app; assumption.
  - (* ERemovePeer *)
    destruct (find_peer j (s_peers s)) as [q|] eqn:F; [|split; [exact H|split; [exact I|rewrite Cl; discriminate]]].
    destruct (stop q (s_acc s)) as [q1 a1] eqn:S. cbn [snd].
    apply inv_with_pa; [exact Cl|exact H| |apply idle_ok_del; exact I].
    pose proof (resting_del_peer j (s_peers s) q F) as Rd.
    apply stop_spec in S. destruct S as (S & _ & Srun & Sidle).
    assert (Hs : q_staged q1 = []).
    { destruct (q_run q) eqn:E; [apply Srun; reflexivity|]. rewrite (Sidle eq_refl). apply I; [eapply find_peer_in; exact F|exact E]. }
    rewrite Hs, vstaged_nil in S. rewrite Rd.
    apply (bal_frame_l _ _ _ _ (resting (del_peer j (s_peers s)))) in S. rewrite vadd_zero_r in S. exact S.
  - (* ERemoveAll *)
    destruct (stop_all (s_peers s) (s_acc s)) as [ps1 a1] eqn:S. cbn [snd].
    apply stop_all_spec in S; [|exact I]. destruct S as (S & _ & _).
    apply inv_with_pa; [exact Cl|exact H|exact S|intros q []].
  - (* ESetKey *)
    apply inv_with_pa; [exact Cl|exact H| |].
    + assert (E : forall l, resting (map (fun q => set_keys q (q_prev q) (expire_slot (q_cur q)) (expire_slot (q_next q))) l) = resting l).
      { induction l as [|x l IHl]; [reflexivity|]. cbn [map]. rewrite !resting_cons, IHl. reflexivity. }
      rewrite E. apply bal_refl.
    + intros x Hx. apply in_map_iff in Hx. destruct Hx as (y & <- & Hy). cbn [set_keys q_run q_staged]. apply I. exact Hy.
  - (* EUp *)
    destruct (s_up s) eqn:U; [split; [exact H|split; [exact I|rewrite Cl; discriminate]]|].
    destruct (start_all (s_peers s) (get (vbuf (recv_bufs (s_cfg s))) (s_acc s))) as [ps1 a1] eqn:S.
    apply start_all_spec in S. destruct S as (S & Sr).
    unfold inv, cons_ok, base_of in *; cbn [s_acc s_peers s_closed s_up s_cfg fst snd].
    rewrite Cl, U in H. unfold baseline in *.
    split; [|split; [intros q Hq Hr; rewrite (Sr q Hq) in Hr; discriminate|discriminate]].
    revert H S. unfold bal. generalize (s_acc s) (resting (s_peers s)) (resting ps1) (recv_bufs (s_cfg s)) (dev_batch (s_cfg s)).
    intros a r r' n d H S. vlia.
  - (* EDown *)
    destruct (s_up s) eqn:U; cbn [negb]; [|split; [exact H|split; [exact I|rewrite Cl; discriminate]]].
    destruct (stop_all (s_peers s) (put (vbuf (recv_bufs (s_cfg s))) (s_acc s))) as [ps1 a1] eqn:S.
    apply stop_all_spec in S; [|exact I]. destruct S as (S & Sz & Sq).
    unfold inv, cons_ok, base_of in *; cbn [s_acc s_peers s_closed s_up s_cfg fst snd].
    rewrite Cl, U in H. unfold baseline in *. rewrite Sz.
    split; [|split; [intros q Hq _; apply Sq; exact Hq|discriminate]].
    revert H S. unfold bal. generalize (s_acc s) (resting (s_peers s)) (recv_bufs (s_cfg s)) (dev_batch (s_cfg s)).
    intros a r n d H S. vlia.
  - (* EClose *)
    match goal with |- context [stop_all _ ?a0] => destruct (stop_all (s_peers s) a0) as [ps1 a1] eqn:S end.
    apply stop_all_spec in S; [|exact I]. destruct S as (S & _ & _).
    unfold inv, cons_ok, base_of in *; cbn [s_acc s_peers s_closed s_up s_cfg fst snd resting fold_right].
    rewrite Cl in H. unfold baseline in *.
    split; [|split; [intros q []|auto]].
    revert H S. unfold bal. generalize (s_acc s) (resting (s_peers s)) (recv_bufs (s_cfg s)) (dev_batch (s_cfg s)).
    intros a r n d H S. destruct (s_up s); vlia.
  - (* EGC *) split; [exact H|split; [exact I|rewrite Cl; discriminate]].
  - (* ETun *)
    match goal with |- context [fold_left ?f ?l ?x] => destruct (fold_left f l x) as [ps1 a1] eqn:S end.
    apply (reads_fold (tun_read (s_up s))) in S; [|intros; eapply tun_read_spec; eassumption|exact I].
    destruct S as (S & I1). apply inv_with_pa; assumption.
  - (* ETunErr *)
    match goal with |- context [fold_left ?f ?l ?x] => destruct (fold_left f l x) as [ps1 a1] eqn:S end.
    apply (reads_fold (tun_read (s_up s))) in S; [|intros; eapply tun_read_spec; eassumption|exact I].
    destruct S as (S & I1). apply inv_with_pa; assumption.
  - (* EFatalRead *)
    match goal with |- context [stop_all _ ?a0] => destruct (stop_all (s_peers s) a0) as [ps1 a1] eqn:S end.
    apply stop_all_spec in S; [|exact I]. destruct S as (S & _ & _).
    unfold inv, cons_ok, base_of in *; cbn [s_acc s_peers s_closed s_up s_cfg fst snd resting fold_right].
    rewrite Cl in H. unfold baseline in *.
    split; [|split; [intros q []|auto]].
    revert H S. unfold bal. generalize (s_acc s) (resting (s_peers s)) (recv_bufs (s_cfg s)) (dev_batch (s_cfg s)).
    intros a r n d H S. destruct (s_up s); vlia.
  - (* ENet *)
    destruct (s_up s) eqn:U; cbn [negb]; [|split; [exact H|split; [exact I|rewrite Cl; discriminate]]].
    match goal with |- context [fold_left ?f ?l ?x] => destruct (fold_left f l x) as [ps1 a1] eqn:S end.
    apply (reads_fold (net_read true)) in S; [|intros; eapply net_read_spec; eassumption|exact I].
    destruct S as (S & I1). apply inv_with_pa; assumption.
  - (* ESetNonce *)
    destruct (find_peer j (s_peers s)) as [q|] eqn:F; [|split; [exact H|split; [exact I|rewrite Cl; discriminate]]].
    destruct (q_cur q) as [k|]; [|split; [exact H|split; [exact I|rewrite Cl; discriminate]]].
    apply inv_with_pa; [exact Cl|exact H| |].
    + match goal with |- context [put_peer ?qq _] => pose proof (resting_put_peer j (s_peers s) q qq F) as Rp end.
      cbn [set_keys q_id q_staged] in Rp. specialize (Rp (find_peer_id _ _ _ F)).
      revert Rp. unfold bal. match goal with |- context [resting (put_peer ?qq ?l)] => generalize (resting (put_peer qq l)) end.
      generalize (resting (s_peers s)). intros r r' Rp. vlia.
    + apply idle_ok_put; [exact I|]. cbn [set_keys q_run q_staged]. apply I. eapply find_peer_in; exact F.
  - (* EExpire *)
    destruct (find_peer j (s_peers s)) as [q|] eqn:F; [|split; [exact H|split; [exact I|rewrite Cl; discriminate]]].
    apply inv_with_pa; [exact Cl|exact H| |].
    + match goal with |- context [put_peer ?qq _] => pose proof (resting_put_peer j (s_peers s) q qq F) as Rp end.
      cbn [set_keys q_id q_staged] in Rp. specialize (Rp (find_peer_id _ _ _ F)).
      revert Rp. unfold bal. match goal with |- context [resting (put_peer ?qq ?l)] => generalize (resting (put_peer qq l)) end.
      generalize (resting (s_peers s)). intros r r' Rp. vlia.
    + apply idle_ok_put; [exact I|]. cbn [set_keys q_run q_staged]. apply I. eapply find_peer_in; exact F.
  - (* EStraggle *) split; [exact H|split; [exact I|rewrite Cl; discriminate]].
  - (* ELateSend *) split; [exact H|split; [exact I|rewrite Cl; discriminate]].
Qed.

Lemma reached_inv c evs : inv (reached c evs).
Proof.
  unfold reached. apply (final_inv step inv); [|apply inv_init].
  intros s e Hs. unfold step. cbn [fst]. apply inv_step. exact Hs.
Qed.

Lemma vsub_add p x : vsub (vadd p x) p = x.
Proof. vlia. Qed.

(* ------------------------------------------------------------ main theorems *)

(* every Get is matched: gets = puts + idle baseline + what rests in the staged queues, for each pool, at every step *)
Theorem conservation : forall c evs,
  let s := reached c evs in
  a_get (s_acc s) = vadd (a_put (s_acc s)) (vadd (base_of s) (resting (s_peers s))).
Proof. intros c evs. destruct (reached_inv c evs) as (H & _). exact H. Qed.

Theorem conservation_counts : forall c evs,
  let s := reached c evs in outstanding s = vadd (base_of s) (resting (s_peers s)).
Proof.
  intros c evs. cbv zeta. unfold outstanding. pose proof (conservation c evs) as H. cbv zeta in H. rewrite H. apply vsub_add.
Qed.

Lemma closed_stays s e : s_closed s = true -> step_state s e = s.
Proof. intros H. unfold step_state. rewrite H. reflexivity. Qed.

Lemma close_closes s : s_closed (step_state s EClose) = true.
Proof. unfold step_state. destruct (s_closed s) eqn:E; [exact E|reflexivity]. Qed.

Lemma final_step_state s evs : s_closed s = true -> final step s evs = s.
Proof.
  intros H. induction evs as [|e r IH]; [reflexivity|].
  unfold final in *. cbn [run]. unfold step at 1. rewrite (closed_stays s e H).
  destruct (run step s r) as [s2 rs] eqn:E. cbn [fst] in *. exact IH.
Qed.

Theorem closed_zero : forall c evs evs',
  let s := reached c (evs ++ EClose :: evs') in
  outstanding s = vzero /\ a_get (s_acc s) = a_put (s_acc s).
Proof.
  intros c evs evs' s.
  assert (Hs : s = reached c (evs ++ [EClose])).
  { unfold s, reached. change (EClose :: evs') with ([EClose] ++ evs'). rewrite app_assoc, final_app.
    apply final_step_state. rewrite final_app. unfold final at 1. cbn [run step fst]. apply close_closes. }
  assert (Hc : s_closed s = true).
  { rewrite Hs. unfold reached. rewrite final_app. unfold final at 1. cbn [run step fst]. apply close_closes. }
  pose proof (reached_inv c (evs ++ [EClose])) as (H & _ & C). rewrite <- Hs in *.
  destruct (C Hc) as (Hp & Hu).
  unfold cons_ok, base_of, baseline in H. rewrite Hc, Hp in H. cbn [resting fold_right] in H.
  assert (E : a_get (s_acc s) = a_put (s_acc s)) by (rewrite H; generalize (a_put (s_acc s)); intros v; vlia).
  split; [|exact E]. unfold outstanding. rewrite E. generalize (a_put (s_acc s)). intros v. vlia.
Qed.

(* the same when the device closes itself after a fatal TUN read *)
Lemma fatal_closes s : s_closed (step_state s EFatalRead) = true.
Proof. unfold step_state. destruct (s_closed s) eqn:E; [exact E|reflexivity]. Qed.

Theorem fatal_read_zero : forall c evs evs',
  let s := reached c (evs ++ EFatalRead :: evs') in
  outstanding s = vzero /\ a_get (s_acc s) = a_put (s_acc s).
Proof.
  intros c evs evs' s.
  assert (Hs : s = reached c (evs ++ [EFatalRead])).
  { unfold s, reached. change (EFatalRead :: evs') with ([EFatalRead] ++ evs'). rewrite app_assoc, final_app.
    apply final_step_state. rewrite final_app. unfold final at 1. cbn [run step fst]. apply fatal_closes. }
  assert (Hc : s_closed s = true).
  { rewrite Hs. unfold reached. rewrite final_app. unfold final at 1. cbn [run step fst]. apply fatal_closes. }
  pose proof (reached_inv c (evs ++ [EFatalRead])) as (H & _ & C). rewrite <- Hs in *.
  destruct (C Hc) as (Hp & Hu).
  unfold cons_ok, base_of, baseline in H. rewrite Hc, Hp in H. cbn [resting fold_right] in H.
  assert (E : a_get (s_acc s) = a_put (s_acc s)) by (rewrite H; generalize (a_put (s_acc s)); intros v; vlia).
  split; [|exact E]. unfold outstanding. rewrite E. generalize (a_put (s_acc s)). intros v. vlia.
Qed.

(* counting form of "no buffer is owned twice": a pool never gets back more than it handed out, and the number of
   holders (reader and receive routines, staged elements) is exactly the number outstanding *)
Theorem no_double_owner : forall c evs,
  let a := s_acc (reached c evs) in
  inC (a_put a) <= inC (a_get a) /\ outC (a_put a) <= outC (a_get a) /\ buf (a_put a) <= buf (a_get a) /\
  inE (a_put a) <= inE (a_get a) /\ outE (a_put a) <= outE (a_get a).
Proof.
  intros c evs. cbv zeta. pose proof (conservation c evs) as H. cbv zeta in H. rewrite H.
  generalize (a_put (s_acc (reached c evs))) (vadd (base_of (reached c evs)) (resting (s_peers (reached c evs)))). intros p x.
  vdes. vsimp. repeat split; lia.
Qed.

(* inbound containers and inbound elements are never held at a quiescent point *)
Lemma resting_shape ps : resting ps = vout (buf (resting ps)) (outC (resting ps)).
Proof.
  induction ps as [|q r IH]; [reflexivity|]. rewrite resting_cons. rewrite IH at 1.
  unfold vstaged, vadd, vout; cbn [inC outC buf inE outE]. f_equal; lia.
Qed.

Theorem inbound_pools_idle : forall c evs,
  inC (outstanding (reached c evs)) = 0 /\ inE (outstanding (reached c evs)) = 0.
Proof.
  intros c evs. pose proof (conservation_counts c evs) as H. cbv zeta in H. rewrite H. rewrite resting_shape.
  unfold base_of, baseline. destruct (s_closed (reached c evs)), (s_up (reached c evs)); vsimp; lia.
Qed.

(* the model's own traces satisfy the executable specification evaluated on the implementation *)
Lemma vdiff_refl v : vdiff v v = [].
Proof. unfold vdiff. rewrite !N.eqb_refl. reflexivity. Qed.

Lemma cfg_step s e : s_cfg (step_state s e) = s_cfg s.
Proof.
  unfold step_state. destruct (s_closed s); [reflexivity|].
  destruct e; cbn [with_pa s_cfg];
    repeat match goal with
           | |- context [match ?x with _ => _ end] => destruct x
           end; reflexivity.
Qed.

Ltac dmatch :=
  repeat match goal with
         | |- context [match ?x with _ => _ end] => destruct x eqn:?
         end.

Lemma up_step s e : s_closed s = false ->
  s_up (step_state s e) = match e with EUp => true | EDown => false | EClose => false | EFatalRead => false | _ => s_up s end.
Proof.
  intros H. unfold step_state. rewrite H.
  destruct e; dmatch; cbn [with_pa s_up negb] in *; try reflexivity; try congruence;
    try (destruct (s_up s); cbn [negb] in *; congruence).
Qed.

Lemma closed_step s e : s_closed s = false ->
  s_closed (step_state s e) = match e with EClose => true | EFatalRead => true | _ => false end.
Proof.
  intros H. unfold step_state. rewrite H.
  destruct e; dmatch; cbn [with_pa s_closed negb] in *; try reflexivity; try congruence;
    try (destruct (s_up s); cbn [negb] in *; congruence).
Qed.

(* ------------------------------------------------------------ nothing is held while the interface is down *)

Definition allstopped (ps : list peer) : Prop := forall q, In q ps -> q_run q = false.
Definition dinv (s : state) : Prop := s_up s = false -> allstopped (s_peers s).

Lemma allstopped_put q' ps : allstopped ps -> q_run q' = false -> allstopped (put_peer q' ps).
Proof. intros H Hq x Hx. destruct (in_put_peer _ _ _ Hx) as [->|Hi]; auto. Qed.

Lemma tun_group_stopped up ps a jk : allstopped ps -> fst (tun_group up (ps, a) jk) = ps.
Proof.
  intros H. unfold tun_group. destruct (find_peer (fst jk) ps) as [q|] eqn:F; [|reflexivity].
  rewrite (H q (find_peer_in _ _ _ F)). reflexivity.
Qed.

Lemma tun_groups_stopped up g : forall ps a, allstopped ps -> fst (fold_left (tun_group up) g (ps, a)) = ps.
Proof.
  induction g as [|x g IH]; intros ps a H; cbn [fold_left]; [reflexivity|].
  pose proof (tun_group_stopped up ps a x H) as E. destruct (tun_group up (ps, a) x) as [ps1 a1]. cbn [fst] in E. subst ps1.
  apply IH. exact H.
Qed.

Lemma tun_reads_stopped up l : forall ps a, allstopped ps -> fst (fold_left (tun_read up) l (ps, a)) = ps.
Proof.
  induction l as [|x l IH]; intros ps a H; cbn [fold_left]; [reflexivity|].
  assert (E : fst (tun_read up (ps, a) x) = ps) by (unfold tun_read; apply tun_groups_stopped; exact H).
  destruct (tun_read up (ps, a) x) as [ps1 a1]. cbn [fst] in E. subst ps1. apply IH. exact H.
Qed.

Lemma stop_all_stopped ps : forall a, allstopped (fst (stop_all ps a)).
Proof.
  induction ps as [|q r IH]; intros a; cbn [stop_all]; [intros x []|].
  destruct (stop q a) as [q1 a1] eqn:S. specialize (IH a1). destruct (stop_all r a1) as [r1 a2]. cbn [fst] in *.
  intros x [<-|Hx]; [|auto]. unfold stop in S. destruct (q_run q) eqn:R; injection S; intros _ <-; [reflexivity|exact R].
Qed.

Lemma dinv_step s e : dinv s -> dinv (step_state s e).
Proof.
  intros D. unfold dinv, step_state. destruct (s_closed s) eqn:Cl; [exact D|].
  destruct e as [j pka|j| | | | | | |pkts|pkts| |ds|j v|j|j kin kout|j].
  - destruct (find_peer j (s_peers s)) as [q|] eqn:F.
    + destruct (s_up s) eqn:U.
      * match goal with |- context [if ?c then send_keepalive true ?q0 ?a else _] =>
          destruct (if c then send_keepalive true q0 a else send_staged true q0 a) end.
        cbn [with_pa s_up]. rewrite U. discriminate.
      * cbn [with_pa s_up s_peers fst]. intros _. apply allstopped_put; [apply D; exact U|]. cbn [q_run].
        apply (D U). eapply find_peer_in; exact F.
    + match goal with |- context [if ?c then send_keepalive true ?q0 ?a else _] =>
        destruct (if c then send_keepalive true q0 a else (q0, a)) as [q1 a1] eqn:G end.
      cbn [with_pa s_up s_peers fst]. intros U. rewrite U in G. cbn [andb] in G. injection G; intros _ <-.
      intros x Hx. apply in_app_or in Hx. destruct Hx as [Hx|[<-|[]]]; [apply (D U); exact Hx|reflexivity].
  - destruct (find_peer j (s_peers s)) as [q|]; [|exact D]. cbn [with_pa s_up s_peers fst]. intros U x Hx.
    apply (D U). eapply in_del_peer; exact Hx.
  - cbn [with_pa s_up s_peers fst]. intros _ x [].
  - cbn [with_pa s_up s_peers fst]. intros U x Hx. apply in_map_iff in Hx. destruct Hx as (y & <- & Hy). cbn [set_keys q_run]. apply (D U y Hy).
  - destruct (s_up s) eqn:U; [exact D|]. cbn [s_up]. discriminate.
  - destruct (s_up s) eqn:U; cbn [negb]; [|exact D]. cbn [s_up s_peers]. intros _. apply stop_all_stopped.
  - cbn [s_up s_peers]. intros _ x [].
  - exact D.
  - cbn [with_pa s_up s_peers]. intros U. rewrite tun_reads_stopped by (apply D; exact U). apply D; exact U.
  - cbn [with_pa s_up s_peers]. intros U. rewrite tun_reads_stopped by (apply D; exact U). apply D; exact U.
  - cbn [s_up s_peers]. intros _ x [].
  - destruct (s_up s) eqn:U; cbn [negb]; [|exact D]. cbn [with_pa s_up]. rewrite U. discriminate.
  - destruct (find_peer j (s_peers s)) as [q|] eqn:F; [|exact D]. destruct (q_cur q); [|exact D].
    cbn [with_pa s_up s_peers fst]. intros U. apply allstopped_put; [apply D; exact U|]. cbn [set_keys q_run].
    apply (D U). eapply find_peer_in; exact F.
  - destruct (find_peer j (s_peers s)) as [q|] eqn:F; [|exact D].
    cbn [with_pa s_up s_peers fst]. intros U. apply allstopped_put; [apply D; exact U|]. cbn [set_keys q_run].
    apply (D U). eapply find_peer_in; exact F.
  - exact D.
  - exact D.
Qed.

Lemma reached_dinv c evs : dinv (reached c evs).
Proof.
  unfold reached. apply (final_inv step dinv); [|intros _ x []].
  intros s e Hs. unfold step. cbn [fst]. apply dinv_step. exact Hs.
Qed.

Lemma resting_stopped ps : allstopped ps -> idle_ok ps -> resting ps = vzero.
Proof.
  intros H I. induction ps as [|q r IH]; [reflexivity|]. rewrite resting_cons.
  rewrite (I q (or_introl eq_refl) (H q (or_introl eq_refl))), vstaged_nil.
  rewrite IH; [reflexivity| |]; intros x Hx; [apply H|apply I]; right; exact Hx.
Qed.

(* while the interface is down nothing rests in any staged queue: Down flushes them, a peer configured while the
   interface is down is not started, and the TUN reader releases what it routed to a stopped peer *)
Theorem down_holds_nothing : forall c evs,
  s_up (reached c evs) = false -> resting (s_peers (reached c evs)) = vzero.
Proof.
  intros c evs U. apply resting_stopped; [apply (reached_dinv c evs U)|]. destruct (reached_inv c evs) as (_ & I & _). exact I.
Qed.

(* ------------------------------------------------------------ stragglers (xstate) *)

Definition xreached (c : cfg) (evs : list ev) : xstate := final xstep (xinit c) evs.

Lemma x_core x e : x_s (xstep_state x e) = step_state (x_s x) e.
Proof.
  unfold xstep_state. destruct (s_closed (x_s x)); destruct e; cbn [x_s]; try reflexivity;
    dmatch; reflexivity.
Qed.

Lemma x_core_reached c evs : x_s (xreached c evs) = reached c evs.
Proof.
  unfold xreached, reached. generalize (xinit c) (init c) (eq_refl : x_s (xinit c) = init c).
  induction evs as [|e r IH]; intros x s E; [exact E|].
  unfold final in *. cbn [run]. unfold xstep at 1, step at 1.
  specialize (IH (xstep_state x e) (step_state s e)).
  destruct (run xstep (xstep_state x e) r) as [x2 o2]. destruct (run step (step_state s e) r) as [s2 p2].
  cbn [fst] in *. apply IH. rewrite x_core, E. reflexivity.
Qed.

Lemma lsum_cons x l : lsum (x :: l) = vadd (snd x) (lsum l).
Proof. reflexivity. Qed.

Lemma lsum_split j l : lsum l = vadd (lost_of j l) (lsum (lost_rm j l)).
Proof.
  unfold lost_of, lost_rm. induction l as [|x l IH]; [reflexivity|].
  cbn [filter]. destruct (fst x =? j); cbn [negb]; rewrite !lsum_cons, IH; vlia.
Qed.

Definition xcons (x : xstate) : Prop :=
  a_get (x_acc x) = vadd (a_put (x_acc x)) (vadd (lsum (x_lost x)) (x_garbage x)).
Definition xinv (x : xstate) : Prop := xcons x /\ (s_closed (x_s x) = true -> x_lost x = []).

Lemma xinv_step x e : xinv x -> xinv (xstep_state x e).
Proof.
  intros (H & C). unfold xinv. rewrite x_core. unfold xstep_state, xcons in *.
  destruct (s_closed (x_s x)) eqn:Cl.
  - rewrite (closed_stays _ e Cl), Cl. specialize (C eq_refl).
    destruct e; cbn [x_acc x_lost x_garbage]; (split; [|auto]); rewrite ?C in *; cbn [lsum fold_right] in *;
      revert H; generalize (x_acc x) (x_garbage x); intros a g H; vlia.
  - destruct e; cbn [x_acc x_lost x_garbage];
      try (split; [exact H|intros Hx; rewrite closed_step in Hx by exact Cl; discriminate]).
    + (* ERemovePeer *) split; [|intros Hx; rewrite closed_step in Hx by exact Cl; discriminate].
      rewrite (lsum_split j (x_lost x)) in H. revert H.
      generalize (x_acc x) (x_garbage x) (lost_of j (x_lost x)) (lsum (lost_rm j (x_lost x))). intros a g u v H. vlia.
    + (* ERemoveAll *) split; [|reflexivity]. cbn [lsum fold_right]. revert H. generalize (x_acc x) (x_garbage x) (lsum (x_lost x)). intros a g u H. vlia.
    + (* EUp *) destruct (s_up (x_s x)); cbn [x_acc x_lost x_garbage];
        (split; [|intros Hx; rewrite closed_step in Hx by exact Cl; discriminate]); [exact H|].
      cbn [lsum fold_right]. revert H. generalize (x_acc x) (x_garbage x) (lsum (x_lost x)). intros a g u H. vlia.
    + (* EClose *) split; [|reflexivity]. cbn [lsum fold_right]. revert H. generalize (x_acc x) (x_garbage x) (lsum (x_lost x)). intros a g u H. vlia.
    + (* EGC *) split; [|intros Hx; rewrite closed_step in Hx by exact Cl; discriminate].
      revert H. generalize (x_acc x) (x_garbage x) (lsum (x_lost x)). intros a g u H. vlia.
    + (* EFatalRead *) split; [|reflexivity]. cbn [lsum fold_right]. revert H. generalize (x_acc x) (x_garbage x) (lsum (x_lost x)). intros a g u H. vlia.
    + (* EStraggle *)
      destruct (find_peer j (s_peers (x_s x))) as [q|]; [destruct (q_run q)|]; cbn [x_acc x_lost x_garbage];
        (split; [|intros Hx; rewrite closed_step in Hx by exact Cl; discriminate]); try exact H.
      rewrite lsum_cons. cbn [snd]. revert H. generalize (x_acc x) (x_garbage x) (lsum (x_lost x)) (vstraggle kin kout). intros a g u w H. vlia.
Qed.

Lemma xinv_init c : xinv (xinit c).
Proof. unfold xinv, xcons, xinit; cbn. split; [reflexivity|discriminate]. Qed.

Lemma xreached_inv c evs : xinv (xreached c evs).
Proof.
  unfold xreached. apply (final_inv xstep xinv); [|apply xinv_init].
  intros x e Hx. unfold xstep. cbn [fst]. apply xinv_step. exact Hx.
Qed.

(* what the five counts show at every quiescent point: idle baseline + staged packets + what stragglers left in the
   autodraining queues of configured peers + what removed peers' queues still hold until they are garbage-collected *)
Theorem total_conservation : forall c evs,
  let x := xreached c evs in
  xoutstanding x = vadd (vadd (base_of (x_s x)) (resting (s_peers (x_s x)))) (vadd (lsum (x_lost x)) (x_garbage x)).
Proof.
  intros c evs. cbv zeta. destruct (xreached_inv c evs) as (Hx & _).
  pose proof (conservation c evs) as Hc. cbv zeta in Hc. rewrite <- x_core_reached in Hc.
  unfold xoutstanding, xcons in *. rewrite Hc, Hx.
  generalize (a_put (s_acc (x_s (xreached c evs)))) (a_put (x_acc (xreached c evs)))
             (base_of (x_s (xreached c evs))) (resting (s_peers (x_s (xreached c evs))))
             (lsum (x_lost (xreached c evs))) (x_garbage (xreached c evs)).
  intros p q b r l g. vlia.
Qed.

(* after Close and the finalisers (runtime.GC), whatever happens in between and afterwards: zero *)
Lemma final_xstep_app c a b : xreached c (a ++ b) = final xstep (xreached c a) b.
Proof. unfold xreached. apply final_app. Qed.

Definition gzero (x : xstate) : Prop := s_closed (x_s x) = true /\ x_garbage x = vzero.

Lemma gzero_step x e : gzero x -> gzero (xstep_state x e).
Proof.
  intros (Cl & G). unfold gzero. rewrite x_core, (closed_stays _ e Cl). split; [exact Cl|].
  unfold xstep_state. rewrite Cl. destruct e; cbn [x_garbage]; auto.
Qed.

Lemma closed_xstep x e : s_closed (x_s x) = true -> s_closed (x_s (xstep_state x e)) = true.
Proof. intros Cl. rewrite x_core, (closed_stays _ e Cl). exact Cl. Qed.

Theorem closed_gc_zero : forall c evs evs1 evs2,
  xoutstanding (xreached c (evs ++ EClose :: evs1 ++ EGC :: evs2)) = vzero.
Proof.
  intros c evs evs1 evs2.
  assert (G : gzero (xreached c (evs ++ EClose :: evs1 ++ EGC :: evs2))).
  { change (EClose :: evs1 ++ EGC :: evs2) with ([EClose] ++ evs1 ++ [EGC] ++ evs2).
    rewrite final_xstep_app, !final_app.
    assert (C1 : s_closed (x_s (final xstep (xreached c evs) [EClose])) = true).
    { unfold final. cbn [run xstep fst]. rewrite x_core. apply close_closes. }
    assert (C2 : s_closed (x_s (final xstep (final xstep (xreached c evs) [EClose]) evs1)) = true).
    { apply (final_inv xstep (fun x => s_closed (x_s x) = true)); [|exact C1].
      intros x e Hx. unfold xstep. cbn [fst]. apply closed_xstep. exact Hx. }
    assert (G3 : gzero (final xstep (final xstep (final xstep (xreached c evs) [EClose]) evs1) [EGC])).
    { unfold final at 1. cbn [run xstep fst]. split; [apply closed_xstep; exact C2|].
      unfold xstep_state. rewrite C2. reflexivity. }
    apply (final_inv xstep gzero); [|exact G3].
    intros x e Hx. unfold xstep. cbn [fst]. apply gzero_step. exact Hx. }
  destruct G as (Cl & G).
  pose proof (total_conservation c (evs ++ EClose :: evs1 ++ EGC :: evs2)) as T. cbv zeta in T. rewrite T.
  destruct (xreached_inv c (evs ++ EClose :: evs1 ++ EGC :: evs2)) as (_ & L). rewrite (L Cl), G.
  pose proof (reached_inv c (evs ++ EClose :: evs1 ++ EGC :: evs2)) as (_ & _ & Cc).
  rewrite <- x_core_reached in Cc. destruct (Cc Cl) as (Hp & _). rewrite Hp.
  unfold base_of, baseline. rewrite Cl. reflexivity.
Qed.

(* ------------------------------------------------------------ the model's traces satisfy the specification *)

Lemma xtotal x : inv (x_s x) -> xinv x ->
  xoutstanding x = vadd (vadd (base_of (x_s x)) (resting (s_peers (x_s x)))) (vadd (lsum (x_lost x)) (x_garbage x)).
Proof.
  intros (Hc & _) (Hx & _). unfold xoutstanding, xcons, cons_ok in *. rewrite Hc, Hx.
  generalize (a_put (s_acc (x_s x))) (a_put (x_acc x)) (base_of (x_s x)) (resting (s_peers (x_s x)))
             (lsum (x_lost x)) (x_garbage x).
  intros p q b r l g. vlia.
Qed.

Definition agree (x : xstate) (y : sp) : Prop :=
  x_up y = s_up (x_s x) /\ x_closed y = s_closed (x_s x) /\ sp_prev y = lsum (x_lost x) /\ sp_garb y = x_garbage x.

Lemma vsub_add_r a b : vsub (vadd a b) b = a.
Proof. vlia. Qed.
Lemma vsub_zero a : vsub a vzero = a.
Proof. vlia. Qed.

Lemma x_lost_garbage_step x e :
  let x1 := xstep_state x e in
  x_garbage x1 =
  match e with
  | EGC => vzero
  | ERemovePeer _ | ERemoveAll | EClose | EFatalRead =>
      if s_closed (x_s x) then x_garbage x else vadd (x_garbage x) (vsub (lsum (x_lost x)) (lsum (x_lost x1)))
  | _ => x_garbage x
  end.
Proof.
  cbv zeta. unfold xstep_state. destruct (s_closed (x_s x)); destruct e; cbn [x_garbage x_lost]; try reflexivity;
    try (cbn [lsum fold_right]; rewrite vsub_zero; reflexivity).
  - rewrite (lsum_split j (x_lost x)), vsub_add_r. reflexivity.
  - destruct (s_up (x_s x)); reflexivity.
  - destruct (find_peer j (s_peers (x_s x))) as [q|]; [destruct (q_run q)|]; reflexivity.
Qed.

Lemma agree_step x y e : agree x y -> agree (xstep_state x e) (sp_event y e (observe (xstep_state x e))).
Proof.
  intros (Hu & Hc & Hp & Hg). unfold agree. rewrite x_core.
  assert (G : sp_garbage y e (observe (xstep_state x e)) = x_garbage (xstep_state x e)).
  { pose proof (x_lost_garbage_step x e) as L. cbv zeta in L. rewrite L. unfold sp_garbage, observe; cbn [o_lost].
    rewrite Hc, Hp, Hg. destruct e; reflexivity. }
  unfold sp_event. rewrite G, Hc. destruct (s_closed (x_s x)) eqn:Cl.
  - cbn [x_up x_closed sp_prev sp_garb]. rewrite (closed_stays _ e Cl), Cl. unfold observe; cbn [o_lost]. auto.
  - rewrite (up_step _ e Cl), (closed_step _ e Cl). unfold observe; cbn [o_lost].
    destruct e; cbn [x_up x_closed sp_prev sp_garb]; auto.
Qed.

Lemma vleb_add a z : vleb a (vadd a z) = true.
Proof. unfold vleb. vdes. vsimp. repeat (apply andb_true_intro; split); apply N.leb_le; lia. Qed.
Lemma vleb_zero b : vleb vzero b = true.
Proof. unfold vleb. vdes. vsimp. repeat (apply andb_true_intro; split); apply N.leb_le; lia. Qed.
Lemma vleb_part a b z : vleb b (vadd (vadd a b) z) = true.
Proof. unfold vleb. vdes. vsimp. repeat (apply andb_true_intro; split); apply N.leb_le; lia. Qed.
Lemma vleb_cons w a : vleb (vadd w a) (vadd a w) = true.
Proof. unfold vleb. vdes. vsimp. repeat (apply andb_true_intro; split); apply N.leb_le; lia. Qed.

(* what rests in the autodraining queues of configured peers grows only by a declared straggler *)
Lemma x_lost_growth x e :
  vleb (lsum (x_lost (xstep_state x e))) (vadd (lsum (x_lost x)) (declared e)) = true.
Proof.
  unfold xstep_state. destruct (s_closed (x_s x)).
  - destruct e; cbn [x_lost]; apply vleb_add.
  - destruct e; cbn [x_lost declared]; try apply vleb_add; try apply vleb_zero.
    + rewrite (lsum_split j (x_lost x)). apply vleb_part.
    + destruct (s_up (x_s x)); cbn [x_lost]; [apply vleb_add|apply vleb_zero].
    + destruct (find_peer j (s_peers (x_s x))) as [q|]; [destruct (q_run q)|]; cbn [x_lost]; try apply vleb_add.
      rewrite lsum_cons. cbn [snd]. apply vleb_cons.
Qed.

Lemma model_meets_spec_gen c evs : forall x y,
  inv (x_s x) -> dinv (x_s x) -> xinv x -> s_cfg (x_s x) = c -> agree x y ->
  forallb (fun v => match v with [] => true | _ => false end) (outs (sp_step c) y (model_trace x evs)) = true.
Proof.
  induction evs as [|e r IH]; intros x y Hi Hd Hx Hc Ha; [reflexivity|].
  cbn [model_trace]. unfold outs. cbn [run]. unfold sp_step at 1. cbn [fst snd].
  set (x1 := xstep_state x e) in *.
  destruct (run (sp_step c) (sp_event y e (observe x1)) (model_trace x1 r)) as [y2 rs] eqn:E.
  cbn [snd forallb].
  assert (Hi1 : inv (x_s x1)) by (unfold x1; rewrite x_core; apply inv_step; exact Hi).
  assert (Hd1 : dinv (x_s x1)) by (unfold x1; rewrite x_core; apply dinv_step; exact Hd).
  assert (Hx1 : xinv x1) by (apply xinv_step; exact Hx).
  assert (Hc1 : s_cfg (x_s x1) = c) by (unfold x1; rewrite x_core, cfg_step; exact Hc).
  pose proof (agree_step x y e Ha) as Ha1. fold x1 in Ha1.
  specialize (IH x1 _ Hi1 Hd1 Hx1 Hc1 Ha1). unfold outs in IH. rewrite E in IH. cbn [snd] in IH.
  rewrite IH, Bool.andb_true_r.
  destruct Ha1 as (Au & Ac & _ & Ag).
  assert (Hexp : expected c (sp_event y e (observe x1)) (observe x1) = o_counts (observe x1)).
  { unfold expected. rewrite Ac, Ag, Au. unfold observe at 4; cbn [o_counts]. rewrite (xtotal x1 Hi1 Hx1).
    unfold observe; cbn [o_selems o_sconts o_lost]. unfold base_of, baseline. rewrite Hc1.
    destruct Hi1 as (_ & _ & C1). destruct Hx1 as (_ & L1).
    destruct (s_closed (x_s x1)) eqn:Cl.
    - destruct (C1 eq_refl) as (Hp & _). rewrite Hp, (L1 eq_refl). cbn [resting lsum fold_right]. generalize (x_garbage x1). intros g. vlia.
    - rewrite <- resting_shape. reflexivity. }
  rewrite Hexp, vdiff_refl.
  assert (H7 : negb (x_up (sp_event y e (observe x1))) && negb (x_closed (sp_event y e (observe x1))) &&
               negb (o_selems (observe x1) =? 0) = false).
  { rewrite Au, Ac. destruct (s_up (x_s x1)) eqn:U; [reflexivity|]. cbn [negb andb].
    destruct (s_closed (x_s x1)); [reflexivity|]. cbn [negb andb]. unfold observe; cbn [o_selems].
    destruct Hi1 as (_ & I1 & _). rewrite (resting_stopped _ (Hd1 U) I1). reflexivity. }
  rewrite H7.
  destruct Ha as (_ & _ & Hp & _). pose proof (x_lost_growth x e) as H8. fold x1 in H8.
  unfold observe at 1 2 3; cbn [o_owner o_lost]. rewrite Hp, H8. reflexivity.
Qed.

Theorem model_meets_spec : forall c evs, holdsb c (model_trace (xinit c) evs) = true.
Proof.
  intros c evs. unfold holdsb, verdicts. apply model_meets_spec_gen; try reflexivity.
  - apply inv_init.
  - intros _ q [].
  - apply xinv_init.
  - unfold agree, xinit, sp_init; cbn. auto.
Qed.

(* a send call that reaches a peer only after Peer.Stop has returned (ELateSend: SendKeepalive / SendStagedPackets made
   by a caller that had looked the peer up while it was running) changes nothing: no pool count moves, nothing is staged,
   nothing is parked in an autodraining queue — whatever happened before, and whether the peer is still configured,
   removed, or the device closed *)
Lemma late_send_state x j : xstep_state x (ELateSend j) = x.
Proof.
  destruct x as [s l g a]. unfold xstep_state. cbn [x_s x_lost x_garbage x_acc].
  assert (E : step_state s (ELateSend j) = s) by (unfold step_state; destruct (s_closed s); reflexivity).
  rewrite E. destruct (s_closed s); reflexivity.
Qed.

Theorem late_send_neutral : forall c evs j,
  let x := xreached c evs in
  let x1 := xreached c (evs ++ [ELateSend j]) in
  xoutstanding x1 = xoutstanding x /\ resting (s_peers (x_s x1)) = resting (s_peers (x_s x)) /\
  lsum (x_lost x1) = lsum (x_lost x) /\ x_garbage x1 = x_garbage x.
Proof.
  intros c evs j. cbv zeta. rewrite final_xstep_app. cbn [final run fst xstep].
  unfold final, xstep; cbn [run fst snd]. rewrite late_send_state. auto.
Qed.

(* consequently the life cycle "Up, Down, late send call, removal and / or Close, collection" ends at zero like any
   other: instance of closed_gc_zero, stated for the record *)
Theorem late_send_then_close_zero : forall c evs j evs1 evs2,
  xoutstanding (xreached c (evs ++ ELateSend j :: evs1 ++ EClose :: evs2 ++ [EGC])) = vzero.
Proof.
  intros c evs j evs1 evs2.
  replace (evs ++ ELateSend j :: evs1 ++ EClose :: evs2 ++ [EGC])
    with ((evs ++ ELateSend j :: evs1) ++ EClose :: evs2 ++ EGC :: []).
  - apply closed_gc_zero.
  - rewrite <- app_assoc. reflexivity.
Qed.
