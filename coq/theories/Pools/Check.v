(* Correspondence checker for C20: kind 1 = the counts (or the staged totals)
   the device shows differ from the model's prediction; kind 2 = the
   specification (conservation) fails on the observed counts.
   Position = 10*step + part (kind 1: 1..5 pool, 6 staged elements, 7 staged containers, 8 ownership, 9 autodraining queues; kind 2: pool / 6 ownership). *)
From WG Require Import Base.Prelude Gen.Constants Pools.Model Pools.Spec.
Local Open Scope N_scope.

Record case := { c_cfg : cfg; c_trace : list (ev * obs) }.
Definition mkcase (tun bind nrecv : N) (tr : list (ev * obs)) : case :=
  {| c_cfg := {| c_tun := tun; c_bind := bind; c_nrecv := nrecv |}; c_trace := tr |}.
Definition mkvec (l : list N) : vec :=
  {| inC := nth 0 l 0; outC := nth 1 l 0; buf := nth 2 l 0; inE := nth 3 l 0; outE := nth 4 l 0 |}.
Definition mkobs (counts : list N) (selems sconts owner : N) (lost : list N) : obs :=
  {| o_counts := mkvec counts; o_selems := selems; o_sconts := sconts; o_owner := owner; o_lost := mkvec lost |}.

Definition obs_diff (m b : obs) : N :=
  match vdiff (o_counts m) (o_counts b) with
  | d :: _ => d
  | [] => if negb (o_selems m =? o_selems b) then 6 else if negb (o_sconts m =? o_sconts b) then 7
          else if negb (o_owner m =? o_owner b) then 8
          else match vdiff (o_lost m) (o_lost b) with _ :: _ => 9 | [] => 0 end
  end.

Fixpoint first_mismatch (s : xstate) (tr : list (ev * obs)) (i : N) : option N :=
  match tr with
  | [] => None
  | (e, b) :: r =>
      let s1 := xstep_state s e in
      let d := if unobserved b then 0 else obs_diff (observe s1) b in
      if d =? 0 then first_mismatch s1 r (i + 1) else Some (10 * i + d)
  end.

Fixpoint first_verdict (vs : list (list N)) (i : N) : option N :=
  match vs with
  | [] => None
  | [] :: r => first_verdict r (i + 1)
  | (c :: _) :: _ => Some (10 * i + c)
  end.

Definition check_case (k : case) : list (N * N) :=
  (match first_mismatch (xinit (c_cfg k)) (c_trace k) 0 with Some p => [(1, p)] | None => [] end) ++
  (match first_verdict (verdicts (c_cfg k) (c_trace k)) 0 with Some p => [(2, p)] | None => [] end).

Fixpoint check_cases (ks : list case) (idx : N) : list (N * N * N) :=
  match ks with
  | [] => []
  | k :: ks' => map (fun p => (idx, fst p, snd p)) (check_case k) ++ check_cases ks' (idx + 1)
  end.

(* Statistics over the events:
   0 steps; 1 TUN packets routed; 2 TUN packets dropped in the reader; 3..9 transport elements by verdict 0..6;
   10 transports that resolve to no live keypair; 11 datagrams skipped in the receive loop; 12..18 handshake-type
   messages by kind 0..6; 19 peer removals; 20 Down; 21 Up; 22 Close; 23 steps with staged-queue overflow (a peer at
   QueueStagedSize containers); 24 steps that leave something staged; 25 identity changes; 26 containers split at the
   counter limit (a peer whose current counter reached RejectAfterMessages with packets staged) *)
Fixpoint bump (l : list N) (i : nat) (d : N) : list N :=
  match l, i with
  | [], _ => []
  | x :: t, O => (x + d) :: t
  | x :: t, S j => x :: bump t j d
  end.
Definition count {A} (f : A -> bool) (l : list A) : N := lenN (filter f l).
Definition classify (s : state) (e : ev) (s1 : state) (st : list N) : list N :=
  let st := bump st 0 1 in
  let st := if existsb (fun q => QueueStagedSize <=? lenN (q_staged q)) (s_peers s1) then bump st 23 1 else st in
  let st := if existsb (fun q => match q_staged q with [] => false | _ => true end) (s_peers s1) then bump st 24 1 else st in
  let st := if existsb (fun q => match q_cur q, q_staged q with
                                 | Some k, _ :: _ => RejectAfterMessages <=? k_nonce k
                                 | _, _ => false end) (s_peers s1) then bump st 26 1 else st in
  match e with
  | ETunErr pkts => bump (bump st 29 1) 1 (lenN pkts)
  | EFatalRead => bump st 30 1
  | EStraggle _ _ _ => bump st 31 1
  | ELateSend _ => bump st 32 1
  | ETun pkts =>
      let routed := count (fun p => match p with TRoute j => match find_peer j (s_peers s) with Some _ => true | None => false end
                                              | _ => false end) pkts in
      bump (bump st 1 routed) 2 (lenN pkts - routed)
  | ENet ds =>
      fold_left (fun st d =>
        match d with
        | DSkip _ => bump st 11 1
        | DData j sl v =>
            match find_peer j (s_peers s) with
            | Some q => match slot_of q sl with
                        | Some k => if k_aged k then bump st 10 1 else bump st (3 + N.to_nat (N.min v 6)) 1
                        | None => bump st 10 1 end
            | None => bump st 10 1
            end
        | DHs h _ => if 8 <=? h then bump st 28 1 else if 7 <=? h then bump st 27 1 else bump st (12 + N.to_nat (N.min h 6)) 1
        end) ds st
  | ERemovePeer _ => bump st 19 1
  | ERemoveAll => bump st 19 (lenN (s_peers s))
  | EDown => bump st 20 1
  | EUp => bump st 21 1
  | EClose => bump st 22 1
  | ESetKey => bump st 25 1
  | _ => st
  end.
Fixpoint stats_run (s : state) (evs : list ev) (st : list N) : list N :=
  match evs with
  | [] => st
  | e :: r => let s1 := step_state s e in stats_run s1 r (classify s e s1 st)
  end.
Definition stats (ks : list case) : list N :=
  fold_left (fun st k => stats_run (init (c_cfg k)) (map fst (c_trace k)) st) ks (repeat 0 33).
