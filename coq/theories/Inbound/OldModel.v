(* C02 — the length arithmetic of RoutineSequentialReceiver in the tree AS FOUND
   (finding F1), kept next to the fixed mirror in Model.v:

       field := elem.packet[IPv6offsetPayloadLength : IPv6offsetPayloadLength+2]
       length := binary.BigEndian.Uint16(field)
       length += ipv6.HeaderLen                      // uint16: wraps at 65536
       if int(length) > len(elem.packet) { continue }
       elem.packet = elem.packet[:length]
       src := elem.packet[IPv6offsetSrc : IPv6offsetSrc+net.IPv6len]   // reslice within capacity

   With a payload length of 65496..65535 the sum wraps to 0..39, the bound
   test passes and a 0..39-byte runt is handed to the TUN.  The source bytes
   are still those of the full plaintext (slicing beyond len within cap). *)
From WG Require Import Base.Prelude Gen.Constants DataPath.Lpm Inbound.Model Inbound.Spec.
Local Open Scope N_scope.

Definition ip_check_old (plain : list N) : option (fam * N * list N) :=
  match plain with
  | [] => None
  | b0 :: _ =>
      let v := b0 / 16 in
      if v =? 4 then
        if blen plain <? ipv4_HeaderLen then None else
        let length := u16be plain IPv4offsetTotalLength in
        if (blen plain <? length) || (length <? ipv4_HeaderLen) then None else
        Some (V4, length, slice (firstn (N.to_nat length) plain) IPv4offsetSrc IPv4len)
      else if v =? 6 then
        if blen plain <? ipv6_HeaderLen then None else
        let length := u16be plain IPv6offsetPayloadLength in
        let length := (length + ipv6_HeaderLen) mod 65536 in          (* uint16 += *)
        if blen plain <? length then None else
        Some (V6, length, slice plain IPv6offsetSrc IPv6len)
      else None
  end.

(* The witness of the design phase: an IPv6 header announcing 65500 payload bytes. *)
Definition f1_witness : list N :=
  [96;0;0;0; 255;220; 17;64] ++ repeat 7 16 ++ repeat 9 16.

Lemma f1_witness_old : ip_check_old f1_witness = Some (V6, 4, repeat 7 16).
Proof. vm_compute. reflexivity. Qed.

Lemma f1_witness_fixed : ip_check f1_witness = None.
Proof. vm_compute. reflexivity. Qed.

Theorem ip_check_refuted : ~ ip_check_sound_for ip_check_old.
Proof.
  intros H. specialize (H f1_witness V6 4 (repeat 7 16) f1_witness_old).
  destruct H as (H1 & _). vm_compute in H1. discriminate.
Qed.

Theorem ip_check_refuted_exists :
  exists plain L src, ip_check_old plain = Some (V6, L, src) /\ L < hdr_min V6 /\ declared_len V6 plain = 65540.
Proof. exists f1_witness, 4, (repeat 7 16). vm_compute. repeat split; reflexivity. Qed.
