(* C02 — mirror of the inbound data path of device/receive.go
   (RoutineReceiveIncoming gate + index lookup + age, RoutineDecryption,
   RoutineSequentialReceiver) with the arithmetic of the FIXED tree: the IPv6
   length is computed in int (payload length + 40, no 16-bit wrap).  The
   arithmetic of the tree as found is kept in Inbound/OldModel.v.

   A transport datagram is described by how the harness constructed it:
   which receiver index it carries, under which session key it was sealed,
   whether ciphertext/tag/counter field were tampered with afterwards, which
   counter, which plaintext.  Whether it authenticates is decided here.
   No proofs in this file. *)
From WG Require Import Base.Prelude Gen.Constants DataPath.Lpm Replay.Model Replay.Spec.
Local Open Scope N_scope.

Definition ipv4_HeaderLen : N := 20.   (* golang.org/x/net/ipv4.HeaderLen, checked by Check.env_ok *)
Definition ipv6_HeaderLen : N := 40.   (* golang.org/x/net/ipv6.HeaderLen *)
Definition IPv4len : N := 4.
Definition IPv6len : N := 16.

Definition blen (l : list N) : N := N.of_nat (length l).
Definition slice (l : list N) (off n : N) : list N :=
  firstn (N.to_nat n) (skipn (N.to_nat off) l).
Definition byte_at (l : list N) (i : N) : N := nth (N.to_nat i) l 0.
(* binary.BigEndian.Uint16(packet[off : off+2]) *)
Definition u16be (l : list N) (off : N) : N := byte_at l off * 256 + byte_at l (off + 1).

Definition hdr_min (f : fam) : N := match f with V4 => ipv4_HeaderLen | V6 => ipv6_HeaderLen end.

(* The switch in RoutineSequentialReceiver (after the keepalive test).
   Some (family, L, source address bytes): the packet passes and is cut to L. *)
Definition ip_check (plain : list N) : option (fam * N * list N) :=
  match plain with
  | [] => None
  | b0 :: _ =>
      let v := b0 / 16 in
      if v =? 4 then
        if blen plain <? ipv4_HeaderLen then None else
        let length := u16be plain IPv4offsetTotalLength in            (* uint16 *)
        if (blen plain <? length) || (length <? ipv4_HeaderLen) then None else
        Some (V4, length, slice (firstn (N.to_nat length) plain) IPv4offsetSrc IPv4len)
      else if v =? 6 then
        if blen plain <? ipv6_HeaderLen then None else
        let length := u16be plain IPv6offsetPayloadLength in          (* uint16 *)
        let length := length + ipv6_HeaderLen in                      (* int: no wrap (the fix for F1) *)
        if blen plain <? length then None else
        Some (V6, length, slice (firstn (N.to_nat length) plain) IPv6offsetSrc IPv6len)
      else None
  end.

(* ---------------------------------------------------------------- device slice *)

Record keypair := {
  k_idx : N;            (* localIndex, chosen by the device *)
  k_key : N;            (* identity of the receive key (serial number of the session) *)
  k_age : N;            (* nanoseconds since creation, as moved by the harness *)
  k_filter : sstate     (* replay filter, as its specification (C05: the ring refines it) *)
}.

(* keypairs.previous / current / next (next = responder's key, not yet confirmed by the remote) *)
Record peer := { k_prev : option keypair; k_cur : option keypair; k_next : option keypair }.
Inductive slot := SPrev | SCur | SNext.
Definition get_slot (p : peer) (s : slot) : option keypair :=
  match s with SPrev => k_prev p | SCur => k_cur p | SNext => k_next p end.

(* s_gone: positions of peers that have been removed from the device (UAPI remove=true, or
   SetPrivateKey with a key whose public half is that peer's key: a device never has itself as a peer) *)
Record state := { s_tbl : list entry; s_peers : list peer; s_gone : list N }.
Definition is_gone (st : state) (p : N) : bool := existsb (N.eqb p) (s_gone st).

Inductive dgram :=
| Raw (typeword len : N)                                     (* anything that is not a transport message of >= 32 bytes *)
| Transport (idx key : N) (tampered : bool) (ctr : N) (plain : list N).

Inductive event :=
| Handshake (p idx key : N)    (* remote initiates, device answers with local index idx, remote confirms with a keepalive (counter 0) *)
| HandshakeUnconf (p idx key : N)   (* the same without the confirmation: the key stays in the next slot *)
| Restart                      (* device.Down(); device.Up(): every peer is stopped (ZeroAndFlushAll) and started again *)
| Reconf (tbl : list entry) (rm : list N)
                               (* a UAPI set operation whose intended result is: the allowed-IPs table tbl, the peers rm removed *)
| Remove (p : N)               (* the peer is removed from the device: keypairs and index entries deleted, its allowed-IPs
                                  leave the table, no handshake with it is possible any more *)
| Age (p ns : N)               (* creation time of all keypairs of p moved ns into the past *)
| Dgrams (l : list dgram)      (* datagrams delivered in this order *)
| DgramsTunFail (l : list dgram).   (* the same while tun.Write fails: everything is processed and credited as usual, the
                                       packets of this step are lost for good (never written later) *)

(* RoutineReceiveIncoming: size < MinMessageSize -> skip; msgType; len < MessageTransportSize -> skip *)
Definition gate (typeword len : N) : bool :=
  (MinMessageSize <=? len) && (typeword =? MessageTransportType) && (MessageTransportSize <=? len).

Definition slot_hit (idx : N) (k : option keypair) : option keypair :=
  match k with
  | Some x => if k_idx x =? idx then Some x else None
  | None => None
  end.

(* device.indexTable.Lookup(receiver): (peer position, slot, keypair) *)
Fixpoint find_idx (ps : list peer) (idx : N) (i : N) : option (N * slot * keypair) :=
  match ps with
  | [] => None
  | p :: t =>
      match slot_hit idx (k_cur p) with
      | Some k => Some (i, SCur, k)
      | None =>
          match slot_hit idx (k_prev p) with
          | Some k => Some (i, SPrev, k)
          | None =>
              match slot_hit idx (k_next p) with
              | Some k => Some (i, SNext, k)
              | None => find_idx t idx (i + 1)
              end
          end
      end
  end.

Definition set_filter (k : keypair) (f : sstate) : keypair :=
  {| k_idx := k_idx k; k_key := k_key k; k_age := k_age k; k_filter := f |}.

(* the keypair (with its updated replay filter) goes back into its slot; a message under the
   next key confirms it: ReceivedWithKeypair: previous := current; current := next; next := nil
   (the old previous leaves the index table) *)
Definition upd_slot (ps : list peer) (i : N) (sl : slot) (k : keypair) : list peer :=
  match nth_error ps (N.to_nat i) with
  | Some p => set_nth ps (N.to_nat i)
                (match sl with
                 | SCur => {| k_prev := k_prev p; k_cur := Some k; k_next := k_next p |}
                 | SPrev => {| k_prev := Some k; k_cur := k_cur p; k_next := k_next p |}
                 | SNext => {| k_prev := k_cur p; k_cur := Some k; k_next := None |}
                 end)
  | None => ps
  end.

(* result of one datagram: TUN write (peer, bytes) if any, rx_bytes credit (peer, n) if any *)
Record res := { r_write : option (N * list N); r_rx : option (N * N) }.
Definition nothing : res := {| r_write := None; r_rx := None |}.

Definition recv1 (st : state) (d : dgram) : state * res :=
  match d with
  | Raw _ _ => (st, nothing)
  | Transport idx key tampered ctr plain =>
      if negb (gate MessageTransportType (MessageTransportSize + blen plain)) then (st, nothing) else
      match find_idx (s_peers st) idx 0 with
      | None => (st, nothing)
      | Some (i, cur, k) =>
          (* keypair.created.Add(RejectAfterTime).Before(time.Now()) *)
          if RejectAfterTime <? k_age k then (st, nothing) else
          (* RoutineDecryption: Open fails -> elem.packet = nil *)
          if tampered || negb (key =? k_key k) then (st, nothing) else
          (* replayFilter.ValidateCounter(counter, RejectAfterMessages) *)
          if negb (accept (k_filter k) ctr RejectAfterMessages) then (st, nothing) else
          let f' := fst (sstep (k_filter k) (Validate ctr RejectAfterMessages)) in
          let st' := {| s_tbl := s_tbl st; s_peers := upd_slot (s_peers st) i cur (set_filter k f'); s_gone := s_gone st |} in
          let rx := Some (i, blen plain + MinMessageSize) in
          match plain with
          | [] => (st', {| r_write := None; r_rx := rx |})          (* keepalive *)
          | _ =>
              match ip_check plain with
              | None => (st', {| r_write := None; r_rx := rx |})
              | Some (f, L, src) =>
                  match lookup (s_tbl st) f (be_val src) with
                  | Some j => if j =? i
                              then (st', {| r_write := Some (i, firstn (N.to_nat L) plain); r_rx := rx |})
                              else (st', {| r_write := None; r_rx := rx |})
                  | None => (st', {| r_write := None; r_rx := rx |})
                  end
              end
          end
      end
  end.

Definition age_kp (ns : N) (k : option keypair) : option keypair :=
  match k with
  | Some x => Some {| k_idx := k_idx x; k_key := k_key x; k_age := k_age x + ns; k_filter := k_filter x |}
  | None => None
  end.

(* filter after the confirming keepalive with counter 0 *)
Definition fresh_filter : sstate := fst (sstep sempty (Validate 0 RejectAfterMessages)).

Fixpoint clear_peers (ps : list peer) (rm : list N) (i : N) : list peer :=
  match ps with
  | [] => []
  | p :: t => (if existsb (N.eqb i) rm then {| k_prev := None; k_cur := None; k_next := None |} else p)
              :: clear_peers t rm (i + 1)
  end.

Definition step (st : state) (ev : event) : state * list res :=
  match ev with
  | Reconf tbl rm =>
      ({| s_tbl := List.filter (fun e => negb (existsb (N.eqb (e_owner e)) (rm ++ s_gone st))) tbl;
          s_peers := clear_peers (s_peers st) rm 0;
          s_gone := rm ++ s_gone st |}, [])
  | Dgrams l => run recv1 st l
  | DgramsTunFail l =>
      let '(st', rs) := run recv1 st l in
      (st', map (fun r => {| r_write := None; r_rx := r_rx r |}) rs)
  | Age p ns =>
      ({| s_tbl := s_tbl st;
          s_peers := match nth_error (s_peers st) (N.to_nat p) with
                     | Some x => set_nth (s_peers st) (N.to_nat p)
                                   {| k_prev := age_kp ns (k_prev x); k_cur := age_kp ns (k_cur x); k_next := age_kp ns (k_next x) |}
                     | None => s_peers st
                     end;
          s_gone := s_gone st |}, [])
  | Handshake p idx key =>
      if is_gone st p then (st, []) else
      (* BeginSymmetricSession (responder): next := new (an older next is deleted), previous := nil;
         ReceivedWithKeypair on the confirmation: previous := current, current := next, next := nil *)
      ({| s_tbl := s_tbl st;
          s_peers := match nth_error (s_peers st) (N.to_nat p) with
                     | Some x => set_nth (s_peers st) (N.to_nat p)
                                   {| k_prev := k_cur x;
                                      k_cur := Some {| k_idx := idx; k_key := key; k_age := 0; k_filter := fresh_filter |};
                                      k_next := None |}
                     | None => s_peers st
                     end;
          s_gone := s_gone st |}, [])
  | HandshakeUnconf p idx key =>
      if is_gone st p then (st, []) else
      ({| s_tbl := s_tbl st;
          s_peers := match nth_error (s_peers st) (N.to_nat p) with
                     | Some x => set_nth (s_peers st) (N.to_nat p)
                                   {| k_prev := None; k_cur := k_cur x;
                                      k_next := Some {| k_idx := idx; k_key := key; k_age := 0; k_filter := sempty |} |}
                     | None => s_peers st
                     end;
          s_gone := s_gone st |}, [])
  | Remove p =>
      ({| s_tbl := List.filter (fun e => negb (e_owner e =? p)) (s_tbl st);
          s_peers := match nth_error (s_peers st) (N.to_nat p) with
                     | Some _ => set_nth (s_peers st) (N.to_nat p) {| k_prev := None; k_cur := None; k_next := None |}
                     | None => s_peers st
                     end;
          s_gone := p :: s_gone st |}, [])
  | Restart =>
      ({| s_tbl := s_tbl st;
          s_peers := map (fun _ => {| k_prev := None; k_cur := None; k_next := None |}) (s_peers st);
          s_gone := s_gone st |}, [])
  end.
