(* C02 as an executable specification.  For every step of the harness it
   computes, from the property text alone, which TUN writes are permitted:

     a transport message that authenticates under a live session key of some
     peer P (index belongs to one of P's two retained sessions, younger than
     RejectAfterTime, sealed under that session's key, not tampered with), with
     a counter not accepted before (C05's set specification), whose plaintext
     is IPv4/IPv6, declares a length L (over unbounded numbers) with
     hdr_min <= L <= |plaintext|, and whose source address has P as
     longest-prefix match — permits exactly one write of the first L bytes.

   The observed writes of the step must be an interleaving of the permitted
   per-peer sequences (one receiver goroutine per peer). *)
From WG Require Import Base.Prelude Gen.Constants DataPath.Lpm Replay.Model Replay.Spec Inbound.Model.
Local Open Scope N_scope.

(* The length the IP header declares, over unbounded numbers. *)
Definition declared_len (f : fam) (plain : list N) : N :=
  match f with
  | V4 => u16be plain IPv4offsetTotalLength
  | V6 => u16be plain IPv6offsetPayloadLength + ipv6_HeaderLen
  end.

(* The statement C02 needs of the check (proved for Model.ip_check in Proofs.v). *)
Definition ip_check_sound_for (chk : list N -> option (fam * N * list N)) : Prop :=
  forall plain f L src, chk plain = Some (f, L, src) ->
    L = declared_len f plain /\ hdr_min f <= L /\ L <= blen plain.

(* role: 0 = the session before the current one, 1 = current, 2 = offered by the device as responder and not
   yet used by the remote.  A peer has at most one of each; a new handshake retires the oldest, the first
   message under an offered session makes it current, a restart of the interface ends them all. *)
Record ssn := { n_peer : N; n_idx : N; n_key : N; n_age : N; n_seen : sstate; n_role : N }.

Fixpoint list_eqb (a b : list N) : bool :=
  match a, b with
  | [], [] => true
  | x :: a', y :: b' => (x =? y) && list_eqb a' b'
  | _, _ => false
  end.

Definition nb (p : list N) (i : nat) : N := nth i p 0.
Fixpoint addrn (p : list N) (o n : nat) (acc : N) : N :=
  match n with O => acc | S k => addrn p (S o) k (acc * 256 + nb p o) end.

Definition permitted_write (tbl : list entry) (P : N) (plain : list N) : option (list N) :=
  let n := N.of_nat (length plain) in
  let v := nb plain 0 / 16 in
  if n =? 0 then None
  else if v =? 4 then
    let L := nb plain 2 * 256 + nb plain 3 in
    if (20 <=? L) && (L <=? n) && lpm_okb tbl V4 (addrn plain 12 4 0) P then Some (firstn (N.to_nat L) plain) else None
  else if v =? 6 then
    let L := nb plain 4 * 256 + nb plain 5 + 40 in
    if (40 <=? L) && (L <=? n) && lpm_okb tbl V6 (addrn plain 8 16 0) P then Some (firstn (N.to_nat L) plain) else None
  else None.

Definition with_role (s : ssn) (r : N) : ssn :=
  {| n_peer := n_peer s; n_idx := n_idx s; n_key := n_key s; n_age := n_age s; n_seen := n_seen s; n_role := r |}.

(* sessions of peer p after a completed handshake: current becomes previous, everything else of p goes *)
Fixpoint retire_confirmed (p : N) (l : list ssn) : list ssn :=
  match l with
  | [] => []
  | s :: t => if n_peer s =? p
              then (if n_role s =? 1 then with_role s 0 :: retire_confirmed p t else retire_confirmed p t)
              else s :: retire_confirmed p t
  end.

(* the first message under the offered session idx of p: it becomes current, current becomes previous, previous goes *)
Fixpoint promote (p idx : N) (l : list ssn) : list ssn :=
  match l with
  | [] => []
  | s :: t => if n_peer s =? p
              then (if n_idx s =? idx then with_role s 1 :: promote p idx t
                    else if n_role s =? 1 then with_role s 0 :: promote p idx t
                    else promote p idx t)
              else s :: promote p idx t
  end.

(* after the device answered a handshake that is not yet confirmed: only the current session of p stays *)
Fixpoint retire_offered (p : N) (l : list ssn) : list ssn :=
  match l with
  | [] => []
  | s :: t => if (n_peer s =? p) && negb (n_role s =? 1) then retire_offered p t else s :: retire_offered p t
  end.

Fixpoint find_ssn (l : list ssn) (idx : N) : option ssn :=
  match l with
  | [] => None
  | s :: t => if n_idx s =? idx then Some s else find_ssn t idx
  end.

Fixpoint mark (l : list ssn) (idx ctr : N) : list ssn :=
  match l with
  | [] => []
  | s :: t => if n_idx s =? idx
              then {| n_peer := n_peer s; n_idx := n_idx s; n_key := n_key s; n_age := n_age s;
                      n_seen := {| seen := ctr :: seen (n_seen s); mx := N.max (mx (n_seen s)) ctr |};
                      n_role := n_role s |} :: t
              else s :: mark t idx ctr
  end.

Definition spec_dgram (tbl : list entry) (l : list ssn) (d : dgram) : list ssn * option (N * list N) :=
  match d with
  | Raw _ _ => (l, None)
  | Transport idx key tampered ctr plain =>
      match find_ssn l idx with
      | None => (l, None)
      | Some s =>
          if (n_age s <=? RejectAfterTime) && negb tampered && (key =? n_key s) &&
             accept (n_seen s) ctr RejectAfterMessages
          then ((if n_role s =? 2
                 then promote (n_peer s) idx (mark l idx ctr)
                 else mark l idx ctr),
                match permitted_write tbl (n_peer s) plain with
                | Some w => Some (n_peer s, w)
                | None => None
                end)
          else (l, None)
      end
  end.

Fixpoint spec_dgrams (tbl : list entry) (l : list ssn) (ds : list dgram) : list ssn * list (N * list N) :=
  match ds with
  | [] => (l, [])
  | d :: t =>
      let '(l1, w) := spec_dgram tbl l d in
      let '(l2, ws) := spec_dgrams tbl l1 t in
      (l2, match w with Some x => x :: ws | None => ws end)
  end.

(* the configuration as far as the property needs it: who is (still) a peer.  A removed peer has no sessions,
   no allowed-IPs, and nobody can complete a handshake as that peer. *)
Definition gone_b (gone : list N) (p : N) : bool := existsb (N.eqb p) gone.
Definition live_tbl (tbl : list entry) (gone : list N) : list entry :=
  List.filter (fun e => negb (gone_b gone (e_owner e))) tbl.

Definition spec_event (tbl : list entry) (gone : list N) (l : list ssn) (ev : event) : list ssn * list (N * list N) :=
  match ev with
  | Remove p => (List.filter (fun s => negb (n_peer s =? p)) l, [])
  | Reconf _ rm => (List.filter (fun s => negb (existsb (N.eqb (n_peer s)) rm)) l, [])
  | Handshake p idx key =>
      if gone_b gone p then (l, []) else
      ({| n_peer := p; n_idx := idx; n_key := key; n_age := 0;
          n_seen := {| seen := [0]; mx := 0 |}; n_role := 1 |} :: retire_confirmed p l, [])
  | HandshakeUnconf p idx key =>
      if gone_b gone p then (l, []) else
      ({| n_peer := p; n_idx := idx; n_key := key; n_age := 0; n_seen := sempty; n_role := 2 |} :: retire_offered p l, [])
  | Restart => ([], [])
  | Age p ns =>
      (map (fun s => if n_peer s =? p
                     then {| n_peer := n_peer s; n_idx := n_idx s; n_key := n_key s; n_age := n_age s + ns; n_seen := n_seen s;
                             n_role := n_role s |}
                     else s) l, [])
  | Dgrams ds => spec_dgrams (live_tbl tbl gone) l ds
  | DgramsTunFail ds => (fst (spec_dgrams (live_tbl tbl gone) l ds), [])   (* accepted, but the TUN refused them: never written *)
  end.

(* observed = some interleaving of the per-peer sequences *)
Fixpoint pops (x : list N) (pre per : list (list (list N))) : list (list (list (list N))) :=
  match per with
  | [] => []
  | q :: t =>
      (match q with
       | y :: q' => if list_eqb x y then [rev_append pre (q' :: t)] else []
       | [] => []
       end) ++ pops x (q :: pre) t
  end.

Fixpoint interleaves (obs : list (list N)) (per : list (list (list N))) : bool :=
  match obs with
  | [] => forallb (fun q => match q with [] => true | _ => false end) per
  | x :: obs' => existsb (interleaves obs') (pops x [] per)
  end.

Definition per_peer (np : N) (ws : list (N * list N)) : list (list (list N)) :=
  map (fun i => map snd (List.filter (fun w => fst w =? i) ws)) (map N.of_nat (seq 0 (N.to_nat np))).

Definition writes_ok (np : N) (permitted : list (N * list N)) (obs : list (list N)) : bool :=
  forallb (fun w => fst w <? np) permitted && interleaves obs (per_peer np permitted).

Fixpoint holds_trace (tbl : list entry) (np : N) (gone : list N) (l : list ssn) (evs : list event)
         (obs : list (list (list N))) (i : N) : option N :=
  match evs, obs with
  | [], _ => None
  | ev :: evs', o :: obs' =>
      let '(l', w) := spec_event tbl gone l ev in
      let gone' := match ev with Remove p => p :: gone | Reconf _ rm => rm ++ gone | _ => gone end in
      let tbl' := match ev with Reconf t _ => t | _ => tbl end in     (* the configuration the set operation denotes *)
      if writes_ok np w o then holds_trace tbl' np gone' l' evs' obs' (i + 1) else Some i
  | _ :: _, [] => Some i
  end.
