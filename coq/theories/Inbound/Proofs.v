(* C02 — proofs about the inbound data path model (Inbound/Model.v):
   soundness of the length arithmetic, soundness and completeness of TUN
   writes, and end-to-end replay protection (exactly once). *)
From WG Require Import Base.Prelude Gen.Constants DataPath.Lpm Replay.Model Replay.Spec Inbound.Model Inbound.Spec.
Local Open Scope N_scope.

(* ------------------------------------------------------------------ ip_check *)

Theorem ip_check_sound : ip_check_sound_for ip_check.
Proof.
  unfold ip_check_sound_for, ip_check. intros plain f L src.
  destruct plain as [|b0 rest]; [discriminate|]. cbv zeta.
  destruct (b0 / 16 =? 4).
  - destruct (blen (b0 :: rest) <? ipv4_HeaderLen) eqn:H1; [discriminate|].
    destruct ((blen (b0 :: rest) <? u16be (b0 :: rest) IPv4offsetTotalLength)
              || (u16be (b0 :: rest) IPv4offsetTotalLength <? ipv4_HeaderLen)) eqn:H2; [discriminate|].
    intros H; inversion H; subst. clear H.
    apply Bool.orb_false_elim in H2. destruct H2 as [H2 H3].
    apply N.ltb_ge in H2. apply N.ltb_ge in H3.
    unfold declared_len, hdr_min. split; [reflexivity|]. split; assumption.
  - destruct (b0 / 16 =? 6); [|discriminate].
    destruct (blen (b0 :: rest) <? ipv6_HeaderLen) eqn:H1; [discriminate|].
    destruct (blen (b0 :: rest) <? u16be (b0 :: rest) IPv6offsetPayloadLength + ipv6_HeaderLen) eqn:H2; [discriminate|].
    intros H; inversion H; subst. clear H.
    apply N.ltb_ge in H2.
    unfold declared_len, hdr_min. split; [reflexivity|]. split; [lia|exact H2].
Qed.

Theorem ip_check_family : forall plain f L src,
  ip_check plain = Some (f, L, src) ->
  exists b0 rest, plain = b0 :: rest /\ (b0 / 16 = match f with V4 => 4 | V6 => 6 end).
Proof.
  unfold ip_check. intros plain f L src.
  destruct plain as [|b0 rest]; [discriminate|]. cbv zeta.
  destruct (N.eqb_spec (b0 / 16) 4) as [E4|E4].
  - destruct (blen (b0 :: rest) <? ipv4_HeaderLen); [discriminate|].
    destruct ((blen (b0 :: rest) <? u16be (b0 :: rest) IPv4offsetTotalLength)
              || (u16be (b0 :: rest) IPv4offsetTotalLength <? ipv4_HeaderLen)); [discriminate|].
    intros H; inversion H; subst. exists b0, rest. split; [reflexivity|exact E4].
  - destruct (N.eqb_spec (b0 / 16) 6) as [E6|E6]; [|discriminate].
    destruct (blen (b0 :: rest) <? ipv6_HeaderLen); [discriminate|].
    destruct (blen (b0 :: rest) <? u16be (b0 :: rest) IPv6offsetPayloadLength + ipv6_HeaderLen); [discriminate|].
    intros H; inversion H; subst. exists b0, rest. split; [reflexivity|exact E6].
Qed.

(* ------------------------------------------------------------------ find_idx *)

Lemma slot_hit_some idx ko k : slot_hit idx ko = Some k -> ko = Some k /\ k_idx k = idx.
Proof.
  unfold slot_hit. destruct ko as [x|]; [|discriminate].
  destruct (N.eqb_spec (k_idx x) idx) as [E|E]; [|discriminate].
  intros H; inversion H; subst. split; reflexivity.
Qed.

Lemma to_nat_succ_sub i i0 : i0 + 1 <= i -> N.to_nat (i - i0) = S (N.to_nat (i - (i0 + 1))).
Proof. lia. Qed.

Theorem find_idx_owner : forall ps idx i0 i sl k,
  find_idx ps idx i0 = Some (i, sl, k) ->
  i0 <= i /\ exists p, nth_error ps (N.to_nat (i - i0)) = Some p /\
                       get_slot p sl = Some k /\ k_idx k = idx.
Proof.
  induction ps as [|p t IH]; intros idx i0 i sl k; cbn [find_idx]; [discriminate|].
  destruct (slot_hit idx (k_cur p)) as [kc|] eqn:Hc.
  { intros H; inversion H; subst. apply slot_hit_some in Hc. destruct Hc as [Hc Hi].
    split; [lia|]. exists p. rewrite N.sub_diag. cbn [N.to_nat nth_error get_slot].
    split; [reflexivity|]. split; assumption. }
  destruct (slot_hit idx (k_prev p)) as [kp|] eqn:Hp.
  { intros H; inversion H; subst. apply slot_hit_some in Hp. destruct Hp as [Hp Hi].
    split; [lia|]. exists p. rewrite N.sub_diag. cbn [N.to_nat nth_error get_slot].
    split; [reflexivity|]. split; assumption. }
  destruct (slot_hit idx (k_next p)) as [kn|] eqn:Hx.
  { intros H; inversion H; subst. apply slot_hit_some in Hx. destruct Hx as [Hx Hi].
    split; [lia|]. exists p. rewrite N.sub_diag. cbn [N.to_nat nth_error get_slot].
    split; [reflexivity|]. split; assumption. }
  intros H. apply IH in H. destruct H as (Hle & q & Hn & Hs & Hi).
  split; [lia|]. exists q. rewrite (to_nat_succ_sub i i0 Hle). cbn [nth_error].
  split; [exact Hn|]. split; assumption.
Qed.

Lemma find_idx_owner0 ps idx i sl k :
  find_idx ps idx 0 = Some (i, sl, k) ->
  exists p, nth_error ps (N.to_nat i) = Some p /\ get_slot p sl = Some k /\ k_idx k = idx.
Proof.
  intros H. apply find_idx_owner in H. destruct H as (_ & p & Hn & Hs & Hi).
  rewrite N.sub_0_r in Hn. exists p. split; [exact Hn|]. split; assumption.
Qed.

(* ------------------------------------------------------------------ recv1, by cases *)

(* the TUN write of an authentic, fresh message *)
Definition wr (tbl : list entry) (i : N) (plain : list N) : option (N * list N) :=
  match plain with
  | [] => None
  | _ =>
      match ip_check plain with
      | None => None
      | Some (f, L, src) =>
          match lookup tbl f (be_val src) with
          | Some j => if j =? i then Some (i, firstn (N.to_nat L) plain) else None
          | None => None
          end
      end
  end.

Definition marked (k : keypair) (ctr : N) : keypair :=
  set_filter k {| seen := ctr :: seen (k_filter k); mx := N.max (mx (k_filter k)) ctr |}.

Definition upd (st : state) (i : N) (sl : slot) (k : keypair) (ctr : N) : state :=
  {| s_tbl := s_tbl st; s_peers := upd_slot (s_peers st) i sl (marked k ctr); s_gone := s_gone st |}.

Lemma gate_true plain : gate MessageTransportType (MessageTransportSize + blen plain) = true.
Proof.
  unfold gate, MinMessageSize, MessageTransportSize, MessageTransportType.
  rewrite N.eqb_refl.
  assert (H : (32 <=? 32 + blen plain) = true) by (apply N.leb_le; lia).
  rewrite H. reflexivity.
Qed.

Lemma recv1_accept st idx key ctr plain i sl k :
  find_idx (s_peers st) idx 0 = Some (i, sl, k) ->
  k_age k <= RejectAfterTime -> key = k_key k ->
  accept (k_filter k) ctr RejectAfterMessages = true ->
  recv1 st (Transport idx key false ctr plain) =
  (upd st i sl k ctr, {| r_write := wr (s_tbl st) i plain; r_rx := Some (i, blen plain + MinMessageSize) |}).
Proof.
  intros Hf Hage Hkey Hacc. unfold recv1. rewrite gate_true. cbn [negb]. rewrite Hf.
  assert (Ha : (RejectAfterTime <? k_age k) = false) by (apply N.ltb_ge; exact Hage).
  rewrite Ha. subst key. rewrite N.eqb_refl. cbn [negb orb]. rewrite Hacc. cbn [negb].
  unfold sstep. rewrite Hacc. cbn [fst]. unfold upd, marked, wr.
  destruct plain as [|b0 rest]; [reflexivity|].
  destruct (ip_check (b0 :: rest)) as [[[f L] src]|]; [|reflexivity].
  destruct (lookup (s_tbl st) f (be_val src)) as [j|]; [|reflexivity].
  destruct (j =? i); reflexivity.
Qed.

Lemma recv1_cases st d :
  recv1 st d = (st, nothing) \/
  exists idx key ctr plain i sl k,
    d = Transport idx key false ctr plain /\
    find_idx (s_peers st) idx 0 = Some (i, sl, k) /\
    k_age k <= RejectAfterTime /\ key = k_key k /\
    accept (k_filter k) ctr RejectAfterMessages = true /\
    recv1 st d =
    (upd st i sl k ctr, {| r_write := wr (s_tbl st) i plain; r_rx := Some (i, blen plain + MinMessageSize) |}).
Proof.
  destruct d as [tw len|idx key tampered ctr plain]; [left; reflexivity|].
  destruct (find_idx (s_peers st) idx 0) as [[[i sl] k]|] eqn:Hf.
  2:{ left. unfold recv1. rewrite Hf. destruct (negb _); reflexivity. }
  destruct (RejectAfterTime <? k_age k) eqn:Ha.
  { left. unfold recv1. rewrite Hf, Ha. destruct (negb _); reflexivity. }
  destruct tampered.
  { left. unfold recv1. rewrite Hf, Ha. cbn [orb]. destruct (negb _); reflexivity. }
  destruct (N.eqb_spec key (k_key k)) as [Ek|Ek].
  2:{ left. unfold recv1. rewrite Hf, Ha. apply N.eqb_neq in Ek. rewrite Ek. cbn [orb negb].
      destruct (negb _); reflexivity. }
  destruct (accept (k_filter k) ctr RejectAfterMessages) eqn:Hacc.
  2:{ left. unfold recv1. rewrite Hf, Ha, Hacc. cbn [negb]. destruct (negb _); [reflexivity|].
      destruct (_ || _); reflexivity. }
  right. exists idx, key, ctr, plain, i, sl, k.
  apply N.ltb_ge in Ha.
  split; [reflexivity|]. split; [exact Hf|]. split; [exact Ha|]. split; [exact Ek|]. split; [exact Hacc|].
  apply recv1_accept; assumption.
Qed.

Lemma recv1_transport_cases st idx key ctr plain :
  recv1 st (Transport idx key false ctr plain) = (st, nothing) \/
  exists i sl k,
    find_idx (s_peers st) idx 0 = Some (i, sl, k) /\
    k_age k <= RejectAfterTime /\ key = k_key k /\
    accept (k_filter k) ctr RejectAfterMessages = true /\
    recv1 st (Transport idx key false ctr plain) =
    (upd st i sl k ctr, {| r_write := wr (s_tbl st) i plain; r_rx := Some (i, blen plain + MinMessageSize) |}).
Proof.
  destruct (recv1_cases st (Transport idx key false ctr plain))
    as [Hn|(idx' & key' & c & plain' & i & sl & k & Hd & H)]; [left; exact Hn|].
  injection Hd as E1 E2 E3 E4. subst idx' key' c plain'.
  right. exists i, sl, k. exact H.
Qed.

Lemma wr_some tbl i' plain i w :
  wr tbl i' plain = Some (i, w) ->
  i = i' /\ plain <> [] /\
  exists f L src, ip_check plain = Some (f, L, src) /\
                  lookup tbl f (be_val src) = Some i /\ w = firstn (N.to_nat L) plain.
Proof.
  unfold wr. destruct plain as [|b0 rest]; [discriminate|].
  destruct (ip_check (b0 :: rest)) as [[[f L] src]|]; [|discriminate].
  destruct (lookup tbl f (be_val src)) as [j|] eqn:Hl; [|discriminate].
  destruct (N.eqb_spec j i') as [E|E]; [|discriminate].
  intros H; inversion H; subst. split; [reflexivity|]. split; [discriminate|].
  exists f, L, src. split; [reflexivity|]. split; [exact Hl|reflexivity].
Qed.

(* ------------------------------------------------------------------ soundness of writes *)

Theorem tun_write_sound : forall st d st' r i w,
  recv1 st d = (st', r) -> r_write r = Some (i, w) ->
  exists idx key ctr plain sl k f L src,
    d = Transport idx key false ctr plain /\
    find_idx (s_peers st) idx 0 = Some (i, sl, k) /\
    k_age k <= RejectAfterTime /\ key = k_key k /\
    accept (k_filter k) ctr RejectAfterMessages = true /\
    ip_check plain = Some (f, L, src) /\ L = declared_len f plain /\ hdr_min f <= L /\ L <= blen plain /\
    lpm_spec (s_tbl st) f (be_val src) (Some i) /\
    w = firstn (N.to_nat L) plain.
Proof.
  intros st d st' r i w Hr Hw.
  destruct (recv1_cases st d) as [Hn|(idx & key & ctr & plain & i' & sl & k & Hd & Hf & Hage & Hk & Hacc & Hc)].
  - rewrite Hn in Hr. inversion Hr; subst. discriminate.
  - rewrite Hc in Hr. inversion Hr; subst st' r. clear Hr. cbn [r_write] in Hw.
    apply wr_some in Hw. destruct Hw as (Ei & _ & f & L & src & Hip & Hl & Hwf). subst i'.
    destruct (ip_check_sound plain f L src Hip) as (H1 & H2 & H3).
    exists idx, key, ctr, plain, sl, k, f, L, src.
    repeat (split; [assumption|]).
    split.
    + pose proof (lookup_is_lpm (s_tbl st) f (be_val src)) as Hs. rewrite Hl in Hs. exact Hs.
    + exact Hwf.
Qed.

Theorem batch_writes_sound : forall l st st' rs,
  run recv1 st l = (st', rs) ->
  forall r i w, In r rs -> r_write r = Some (i, w) ->
  exists pre d post s1 s2, l = pre ++ d :: post /\ s1 = final recv1 st pre /\ recv1 s1 d = (s2, r).
Proof.
  induction l as [|d l IH]; intros st st' rs Hrun r i w Hin Hw; cbn [run] in Hrun.
  - inversion Hrun; subst. destruct Hin.
  - destruct (recv1 st d) as [s1 r1] eqn:Hd. destruct (run recv1 s1 l) as [s2 rs2] eqn:Hl.
    inversion Hrun; subst st' rs. clear Hrun.
    destruct Hin as [Hin|Hin].
    + subst r1. exists [], d, l, st, s1. split; [reflexivity|]. split; [reflexivity|exact Hd].
    + destruct (IH s1 s2 rs2 Hl r i w Hin Hw) as (pre & d' & post & t1 & t2 & El & Et & Hrd).
      exists (d :: pre), d', post, t1, t2. split; [rewrite El; reflexivity|]. split; [|exact Hrd].
      rewrite Et. unfold final. cbn [run]. rewrite Hd. destruct (run recv1 s1 pre). reflexivity.
Qed.

(* every write of a batch satisfies the conclusion of tun_write_sound at the
   state reached after the datagrams before it *)
Corollary batch_writes_sound_full : forall l st st' rs,
  run recv1 st l = (st', rs) ->
  forall r i w, In r rs -> r_write r = Some (i, w) ->
  exists pre post idx key ctr plain sl k f L src,
    l = pre ++ Transport idx key false ctr plain :: post /\
    let s1 := final recv1 st pre in
    find_idx (s_peers s1) idx 0 = Some (i, sl, k) /\
    k_age k <= RejectAfterTime /\ key = k_key k /\
    accept (k_filter k) ctr RejectAfterMessages = true /\
    ip_check plain = Some (f, L, src) /\ L = declared_len f plain /\ hdr_min f <= L /\ L <= blen plain /\
    lpm_spec (s_tbl s1) f (be_val src) (Some i) /\
    w = firstn (N.to_nat L) plain.
Proof.
  intros l st st' rs Hrun r i w Hin Hw.
  destruct (batch_writes_sound l st st' rs Hrun r i w Hin Hw) as (pre & d & post & s1 & s2 & El & Es & Hd).
  destruct (tun_write_sound s1 d s2 r i w Hd Hw)
    as (idx & key & ctr & plain & sl & k & f & L & src & Ed & H).
  subst d s1. exists pre, post, idx, key, ctr, plain, sl, k, f, L, src.
  split; [exact El|]. exact H.
Qed.

Theorem keepalive_writes_nothing : forall st idx key t ctr,
  r_write (snd (recv1 st (Transport idx key t ctr []))) = None.
Proof.
  intros st idx key t ctr.
  destruct (recv1_cases st (Transport idx key t ctr []))
    as [Hn|(idx' & key' & ctr' & plain & i & sl & k & Hd & _ & _ & _ & _ & Hc)].
  - rewrite Hn. reflexivity.
  - rewrite Hc. inversion Hd; subst. reflexivity.
Qed.

Theorem at_most_one_write : forall st d,
  match r_write (snd (recv1 st d)) with
  | Some _ => r_rx (snd (recv1 st d)) <> None
  | None => True
  end.
Proof.
  intros st d.
  destruct (recv1_cases st d) as [Hn|(idx & key & ctr & plain & i & sl & k & _ & _ & _ & _ & _ & Hc)].
  - rewrite Hn. cbn [snd nothing r_write]. exact I.
  - rewrite Hc. cbn [snd r_write r_rx]. destruct (wr (s_tbl st) i plain); [discriminate|exact I].
Qed.

(* ------------------------------------------------------------------ completeness *)

Theorem accepted_is_written : forall st idx key ctr plain i sl k f L src,
  find_idx (s_peers st) idx 0 = Some (i, sl, k) ->
  k_age k <= RejectAfterTime -> key = k_key k ->
  accept (k_filter k) ctr RejectAfterMessages = true ->
  plain <> [] -> ip_check plain = Some (f, L, src) ->
  lookup (s_tbl st) f (be_val src) = Some i ->
  r_write (snd (recv1 st (Transport idx key false ctr plain))) = Some (i, firstn (N.to_nat L) plain).
Proof.
  intros st idx key ctr plain i sl k f L src Hf Hage Hk Hacc Hne Hip Hl.
  rewrite (recv1_accept st idx key ctr plain i sl k Hf Hage Hk Hacc). cbn [snd r_write].
  unfold wr. destruct plain as [|b0 rest]; [contradiction Hne; reflexivity|].
  rewrite Hip, Hl, N.eqb_refl. reflexivity.
Qed.

(* ------------------------------------------------------------------ replay protection end to end *)

Definition holds_key (key : N) (k : option keypair) : bool :=
  match k with Some x => k_key x =? key | None => false end.
Definition holders (key : N) (st : state) : nat :=
  length (List.filter (fun p => holds_key key (k_cur p)) (s_peers st)) +
  length (List.filter (fun p => holds_key key (k_prev p)) (s_peers st)) +
  length (List.filter (fun p => holds_key key (k_next p)) (s_peers st)).
Definition fresh_keys (key : N) (evs : list event) : Prop :=
  forall p idx k, In (Handshake p idx k) evs \/ In (HandshakeUnconf p idx k) evs -> k <> key.

(* every retained keypair (previous, current, next) with this key has already accepted ctr *)
Definition InvL (key ctr : N) (ps : list peer) : Prop :=
  forall p, In p ps -> forall sl k, get_slot p sl = Some k -> k_key k = key ->
  mem ctr (seen (k_filter k)) = true.
Definition Inv (key ctr : N) (st : state) : Prop := InvL key ctr (s_peers st).

Lemma in_set_nth {A} (l : list A) n v q : In q (set_nth l n v) -> q = v \/ In q l.
Proof.
  revert n; induction l as [|h t IH]; intros [|n]; cbn [set_nth In]; auto.
  - intros [H|H]; [left; symmetry; exact H|right; right; exact H].
  - intros [H|H]; [right; left; exact H|]. apply IH in H. destruct H; [left|right; right]; assumption.
Qed.

Lemma nth_error_set_nth_same {A} (l : list A) : forall n v p,
  nth_error l n = Some p -> nth_error (set_nth l n v) n = Some v.
Proof.
  induction l as [|h t IH]; intros [|n] v p H; cbn [nth_error set_nth] in *; try discriminate.
  - reflexivity.
  - apply (IH n v p H).
Qed.

Lemma mem_head c l : mem c (c :: l) = true.
Proof. unfold mem. cbn [existsb]. rewrite N.eqb_refl. reflexivity. Qed.

Lemma mem_tail c x l : mem c l = true -> mem c (x :: l) = true.
Proof. unfold mem. cbn [existsb]. intros H. rewrite H. apply Bool.orb_true_r. Qed.

(* what upd_slot puts at position i *)
Definition put (p : peer) (sl : slot) (k : keypair) : peer :=
  match sl with
  | SCur => {| k_prev := k_prev p; k_cur := Some k; k_next := k_next p |}
  | SPrev => {| k_prev := Some k; k_cur := k_cur p; k_next := k_next p |}
  | SNext => {| k_prev := k_cur p; k_cur := Some k; k_next := None |}
  end.

(* a keypair of the new peer is the one put back, or sat in ANOTHER slot of the old peer *)
Lemma put_slots p sl k' s2 k1 :
  get_slot (put p sl k') s2 = Some k1 ->
  k1 = k' \/ exists s3, s3 <> sl /\ get_slot p s3 = Some k1.
Proof.
  destruct sl, s2; cbn [put get_slot k_prev k_cur k_next]; intros H;
    try (left; inversion H; reflexivity); try discriminate.
  - right. exists SCur. split; [discriminate|exact H].
  - right. exists SNext. split; [discriminate|exact H].
  - right. exists SPrev. split; [discriminate|exact H].
  - right. exists SNext. split; [discriminate|exact H].
  - right. exists SCur. split; [discriminate|exact H].
Qed.

(* --- counting holders *)

Definition b2n (b : bool) : nat := if b then 1%nat else 0%nat.
Definition wt (key : N) (p : peer) : nat :=
  (b2n (holds_key key (get_slot p SCur)) + b2n (holds_key key (get_slot p SPrev)) +
   b2n (holds_key key (get_slot p SNext)))%nat.
Definition cnt (key : N) (ps : list peer) : nat :=
  (length (List.filter (fun p => holds_key key (k_cur p)) ps) +
   length (List.filter (fun p => holds_key key (k_prev p)) ps) +
   length (List.filter (fun p => holds_key key (k_next p)) ps))%nat.

Lemma cnt_cons key p t : cnt key (p :: t) = (wt key p + cnt key t)%nat.
Proof.
  unfold cnt, wt, b2n. cbn [List.filter get_slot].
  destruct (holds_key key (k_cur p)), (holds_key key (k_prev p)), (holds_key key (k_next p));
    cbn [length]; lia.
Qed.

Lemma cnt_zero key t q : cnt key t = 0%nat -> In q t -> wt key q = 0%nat.
Proof.
  induction t as [|h t IH]; intros Hc Hin; [destruct Hin|].
  rewrite cnt_cons in Hc. destruct Hin as [Hin|Hin].
  - subst q. lia.
  - apply IH; [lia|exact Hin].
Qed.

Lemma cnt_nth key t : forall n p, nth_error t n = Some p -> (wt key p <= cnt key t)%nat.
Proof.
  induction t as [|h t IH]; intros [|n] p H; cbn [nth_error] in H; try discriminate; rewrite cnt_cons.
  - inversion H; subst. lia.
  - apply IH in H. lia.
Qed.

Lemma cnt_others key ps : forall n p v,
  nth_error ps n = Some p -> (cnt key ps <= 1)%nat -> (1 <= wt key p)%nat ->
  forall q, In q (set_nth ps n v) -> q = v \/ wt key q = 0%nat.
Proof.
  induction ps as [|h t IH]; intros [|n] p v Hn Hc Hw q Hin; cbn [nth_error] in Hn; try discriminate;
    rewrite cnt_cons in Hc; cbn [set_nth In] in Hin.
  - inversion Hn; subst h. destruct Hin as [Hin|Hin]; [left; symmetry; exact Hin|].
    right. apply (cnt_zero key t q); [lia|exact Hin].
  - pose proof (cnt_nth key t n p Hn) as Hge.
    destruct Hin as [Hin|Hin]; [subst q; right; lia|].
    apply (IH n p v Hn); [lia|exact Hw|exact Hin].
Qed.

Lemma holds_slot key p sl k :
  get_slot p sl = Some k -> k_key k = key -> b2n (holds_key key (get_slot p sl)) = 1%nat.
Proof.
  intros H Hk. rewrite H. cbn [holds_key]. apply N.eqb_eq in Hk. rewrite Hk. reflexivity.
Qed.

Lemma wt_one key p sl k : get_slot p sl = Some k -> k_key k = key -> (1 <= wt key p)%nat.
Proof.
  intros H Hk. pose proof (holds_slot key p sl k H Hk) as H1. unfold wt. destruct sl; lia.
Qed.

Lemma wt_zero key q sl k : wt key q = 0%nat -> get_slot q sl = Some k -> k_key k = key -> False.
Proof. intros Hw H Hk. pose proof (wt_one key q sl k H Hk). lia. Qed.

Lemma wt_two key p s1 k1 s2 k2 :
  get_slot p s1 = Some k1 -> k_key k1 = key -> get_slot p s2 = Some k2 -> k_key k2 = key ->
  s2 <> s1 -> (2 <= wt key p)%nat.
Proof.
  intros H1 Hk1 H2 Hk2 Hne.
  pose proof (holds_slot key p s1 k1 H1 Hk1) as A. pose proof (holds_slot key p s2 k2 H2 Hk2) as B.
  unfold wt. destruct s1, s2; try (exfalso; apply Hne; reflexivity); lia.
Qed.

(* after an accepted datagram the slot that find_idx found is put back holding ctr *)
Lemma accepted_marks_slot ps idx i sl k ctr :
  find_idx ps idx 0 = Some (i, sl, k) ->
  exists p, nth_error ps (N.to_nat i) = Some p /\
    upd_slot ps i sl (marked k ctr) = set_nth ps (N.to_nat i) (put p sl (marked k ctr)) /\
    get_slot p sl = Some k /\ k_idx k = idx /\
    mem ctr (seen (k_filter (marked k ctr))) = true.
Proof.
  intros Hf. apply find_idx_owner0 in Hf. destruct Hf as (p & Hn & Hs & Hi).
  exists p. split; [exact Hn|]. split; [unfold upd_slot, put; rewrite Hn; reflexivity|].
  split; [exact Hs|]. split; [exact Hi|]. unfold marked, set_filter. cbn [k_filter seen]. apply mem_head.
Qed.

Lemma inv_established key ctr st idx i sl k :
  (holders key st <= 1)%nat ->
  find_idx (s_peers st) idx 0 = Some (i, sl, k) -> k_key k = key ->
  Inv key ctr (upd st i sl k ctr).
Proof.
  intros Hh Hf Hk. change (cnt key (s_peers st) <= 1)%nat in Hh.
  unfold Inv, upd. cbn [s_peers].
  destruct (accepted_marks_slot (s_peers st) idx i sl k ctr Hf) as (p & Hn & Hu & Hs & _ & Hm).
  rewrite Hu. clear Hu.
  pose proof (cnt_nth key (s_peers st) _ p Hn) as Hwp.
  pose proof (wt_one key p sl k Hs Hk) as Hw1.
  intros q Hin s2 k1 Hslot Hk1.
  apply (cnt_others key (s_peers st) _ p _ Hn Hh Hw1) in Hin. destruct Hin as [Hq|Hq].
  2:{ exfalso. exact (wt_zero key q s2 k1 Hq Hslot Hk1). }
  subst q. apply put_slots in Hslot. destruct Hslot as [E|(s3 & Hne & H3)].
  - subst k1. exact Hm.
  - exfalso. pose proof (wt_two key p sl k s3 k1 Hs Hk H3 Hk1 Hne). lia.
Qed.

(* --- preservation *)

Lemma inv_recv1 key ctr st d : Inv key ctr st -> Inv key ctr (fst (recv1 st d)).
Proof.
  intros HI.
  destruct (recv1_cases st d) as [Hn|(idx & key' & c & plain & i & sl & k & _ & Hf & _ & _ & _ & Hc)].
  - rewrite Hn. exact HI.
  - rewrite Hc. cbn [fst]. unfold Inv, upd. cbn [s_peers].
    destruct (accepted_marks_slot (s_peers st) idx i sl k c Hf) as (p & Hn & Hu & Hs & _ & _).
    rewrite Hu. clear Hu.
    pose proof (nth_error_In _ _ Hn) as Hp.
    intros q Hin s2 k1 Hslot Hk1. apply in_set_nth in Hin. destruct Hin as [Hq|Hq].
    2:{ exact (HI q Hq s2 k1 Hslot Hk1). }
    subst q. apply put_slots in Hslot. destruct Hslot as [E|(s3 & _ & H3)].
    + subst k1. unfold marked, set_filter in *. cbn [k_filter seen k_key] in *. apply mem_tail.
      exact (HI p Hp sl k Hs Hk1).
    + exact (HI p Hp s3 k1 H3 Hk1).
Qed.

Lemma age_kp_some ns ko k :
  age_kp ns ko = Some k -> exists x, ko = Some x /\ k_key k = k_key x /\ k_filter k = k_filter x.
Proof.
  unfold age_kp. destruct ko as [x|]; [|discriminate].
  intros H; inversion H; subst. exists x. cbn [k_key k_filter]. repeat split.
Qed.

Definition empty_peer : peer := {| k_prev := None; k_cur := None; k_next := None |}.

(* clear_peers: positions in rm are emptied, the others are unchanged *)
Lemma in_clear_peers rm q : forall ps i, In q (clear_peers ps rm i) -> q = empty_peer \/ In q ps.
Proof.
  induction ps as [|h t IH]; intros i H; cbn [clear_peers In] in H; [destruct H|].
  destruct H as [H|H].
  - destruct (existsb (N.eqb i) rm); [left; symmetry; exact H|right; left; exact H].
  - apply IH in H. destruct H; [left|right; right]; assumption.
Qed.

Lemma succ_pos i m : i + 1 + N.of_nat m = i + N.of_nat (S m).
Proof. lia. Qed.

Lemma nth_clear_peers rm : forall ps i n q,
  nth_error (clear_peers ps rm i) n = Some q ->
  exists p, nth_error ps n = Some p /\
            q = if existsb (N.eqb (i + N.of_nat n)) rm then empty_peer else p.
Proof.
  induction ps as [|h t IH]; intros i [|n] q H; cbn [clear_peers nth_error] in H; try discriminate.
  - exists h. split; [reflexivity|]. cbn [N.of_nat]. rewrite N.add_0_r. inversion H; reflexivity.
  - apply IH in H. destruct H as (p & Hn & Eq). exists p. split; [exact Hn|].
    rewrite succ_pos in Eq. exact Eq.
Qed.

(* tun.Write failing: same state evolution as Dgrams, writes stripped *)
Definition strip (r : res) : res := {| r_write := None; r_rx := r_rx r |}.

Lemma tunfail_fst st l : fst (step st (DgramsTunFail l)) = fst (run recv1 st l).
Proof. cbn [step]. destruct (run recv1 st l). reflexivity. Qed.

Lemma tunfail_snd st l : snd (step st (DgramsTunFail l)) = map strip (snd (run recv1 st l)).
Proof. cbn [step]. destruct (run recv1 st l). reflexivity. Qed.

Theorem inv_preserved : forall key ctr st ev,
  Inv key ctr st -> fresh_keys key [ev] -> Inv key ctr (fst (step st ev)).
Proof.
  intros key ctr st ev HI Hfr. destruct ev as [p idx k0|p idx k0| |tbl rm|p|p ns|l|l];
    [| | | | | | |rewrite tunfail_fst; change (fst (run recv1 st l)) with (final recv1 st l);
               apply (final_inv recv1 (Inv key ctr)); [intros s o Hs; apply inv_recv1; exact Hs|exact HI]];
    cbn [step].
  - assert (Hne : k0 <> key) by (apply (Hfr p idx k0); left; left; reflexivity).
    destruct (is_gone st p); cbn [fst]; [exact HI|].
    unfold Inv. cbn [s_peers].
    destruct (nth_error (s_peers st) (N.to_nat p)) as [x|] eqn:Hn; [|exact HI].
    pose proof (nth_error_In _ _ Hn) as Hx.
    intros q Hin s2 k1 Hslot Hk1. apply in_set_nth in Hin. destruct Hin as [Hq|Hq].
    2:{ exact (HI q Hq s2 k1 Hslot Hk1). }
    subst q. destruct s2; cbn [get_slot k_cur k_prev k_next] in Hslot.
    + exact (HI x Hx SCur k1 Hslot Hk1).
    + inversion Hslot; subst k1. cbn [k_key] in Hk1. contradiction.
    + discriminate.
  - assert (Hne : k0 <> key) by (apply (Hfr p idx k0); right; left; reflexivity).
    destruct (is_gone st p); cbn [fst]; [exact HI|].
    unfold Inv. cbn [s_peers].
    destruct (nth_error (s_peers st) (N.to_nat p)) as [x|] eqn:Hn; [|exact HI].
    pose proof (nth_error_In _ _ Hn) as Hx.
    intros q Hin s2 k1 Hslot Hk1. apply in_set_nth in Hin. destruct Hin as [Hq|Hq].
    2:{ exact (HI q Hq s2 k1 Hslot Hk1). }
    subst q. destruct s2; cbn [get_slot k_cur k_prev k_next] in Hslot.
    + discriminate.
    + exact (HI x Hx SCur k1 Hslot Hk1).
    + inversion Hslot; subst k1. cbn [k_key] in Hk1. contradiction.
  - unfold Inv. cbn [fst s_peers]. intros q Hin s2 k1 Hslot Hk1.
    apply in_map_iff in Hin. destruct Hin as (x & Eq & _). subst q.
    destruct s2; discriminate.
  - unfold Inv. cbn [fst s_peers]. intros q Hin s2 k1 Hslot Hk1.
    apply in_clear_peers in Hin. destruct Hin as [Hq|Hq].
    + subst q. destruct s2; discriminate.
    + exact (HI q Hq s2 k1 Hslot Hk1).
  - unfold Inv. cbn [fst s_peers].
    destruct (nth_error (s_peers st) (N.to_nat p)) as [x|] eqn:Hn; [|exact HI].
    intros q Hin s2 k1 Hslot Hk1. apply in_set_nth in Hin. destruct Hin as [Hq|Hq].
    2:{ exact (HI q Hq s2 k1 Hslot Hk1). }
    subst q. destruct s2; discriminate.
  - unfold Inv. cbn [fst s_peers].
    destruct (nth_error (s_peers st) (N.to_nat p)) as [x|] eqn:Hn; [|exact HI].
    pose proof (nth_error_In _ _ Hn) as Hx.
    intros q Hin s2 k1 Hslot Hk1. apply in_set_nth in Hin. destruct Hin as [Hq|Hq].
    2:{ exact (HI q Hq s2 k1 Hslot Hk1). }
    subst q. destruct s2; cbn [get_slot k_cur k_prev k_next] in Hslot;
      apply age_kp_some in Hslot; destruct Hslot as (y & Ey & Eky & Efy); rewrite Efy; rewrite Eky in Hk1.
    + exact (HI x Hx SPrev y Ey Hk1).
    + exact (HI x Hx SCur y Ey Hk1).
    + exact (HI x Hx SNext y Ey Hk1).
  - change (fst (run recv1 st l)) with (final recv1 st l).
    apply (final_inv recv1 (Inv key ctr)); [|exact HI].
    intros s o Hs. apply inv_recv1. exact Hs.
Qed.

Lemma inv_final key ctr : forall evs st,
  fresh_keys key evs -> Inv key ctr st -> Inv key ctr (final step st evs).
Proof.
  induction evs as [|ev evs IH]; intros st Hfr HI; unfold final; cbn [run]; [exact HI|].
  assert (H1 : fresh_keys key [ev]).
  { intros p idx k [[E|[]]|[E|[]]]; apply (Hfr p idx k); [left|right]; left; exact E. }
  assert (H2 : fresh_keys key evs).
  { intros p idx k [Hin|Hin]; apply (Hfr p idx k); [left|right]; right; exact Hin. }
  pose proof (inv_preserved key ctr st ev HI H1) as HI1.
  destruct (step st ev) as [s1 r]. cbn [fst] in HI1.
  specialize (IH s1 H2 HI1). unfold final in IH. destruct (run step s1 evs). exact IH.
Qed.

(* --- the invariant makes the device drop the repeated datagram *)

Theorem exactly_once_inv : forall key ctr st idx plain,
  Inv key ctr st -> recv1 st (Transport idx key false ctr plain) = (st, nothing).
Proof.
  intros key ctr st idx plain HI.
  destruct (recv1_transport_cases st idx key ctr plain)
    as [Hn|(i & sl & k & Hf & _ & Hk & Hacc & _)]; [exact Hn|].
  exfalso.
  apply find_idx_owner0 in Hf. destruct Hf as (p & Hn & Hs & _).
  pose proof (nth_error_In _ _ Hn) as Hp.
  assert (Hm : mem ctr (seen (k_filter k)) = true).
  { apply (HI p Hp sl k Hs). symmetry; exact Hk. }
  unfold accept in Hacc. rewrite Hm in Hacc. cbn [negb] in Hacc.
  rewrite Bool.andb_false_r in Hacc. discriminate.
Qed.

Theorem exactly_once : forall st idx key ctr plain st' r,
  (holders key st <= 1)%nat ->
  recv1 st (Transport idx key false ctr plain) = (st', r) ->
  r_rx r <> None ->
  forall evs, fresh_keys key evs ->
  let st'' := final step st' evs in
  recv1 st'' (Transport idx key false ctr plain) = (st'', nothing).
Proof.
  intros st idx key ctr plain st' r Hh Hr Hrx evs Hfr st''.
  apply exactly_once_inv. unfold st''. apply inv_final; [exact Hfr|].
  destruct (recv1_transport_cases st idx key ctr plain)
    as [Hn|(i & sl & k & Hf & _ & Hk & _ & Hc)].
  - exfalso. rewrite Hn in Hr. inversion Hr; subst. apply Hrx. reflexivity.
  - rewrite Hc in Hr. inversion Hr; subst st'.
    apply (inv_established key ctr st idx i sl k Hh Hf). symmetry; exact Hk.
Qed.

(* the immediate corollary: the very next presentation of the same datagram is dropped *)
Corollary replayed_rejected_immediately : forall st idx key ctr plain st' r,
  (holders key st <= 1)%nat ->
  recv1 st (Transport idx key false ctr plain) = (st', r) ->
  r_rx r <> None ->
  recv1 st' (Transport idx key false ctr plain) = (st', nothing).
Proof.
  intros st idx key ctr plain st' r Hh Hr Hrx.
  apply (exactly_once st idx key ctr plain st' r Hh Hr Hrx []).
  intros p i k [[]|[]].
Qed.

(* ------------------------------------------------------------------ restart (Down/Up) *)

Definition AllEmpty (st : state) : Prop := forall p, In p (s_peers st) -> p = empty_peer.

Lemma find_idx_empty ps idx : forall i0,
  (forall p, In p ps -> p = empty_peer) -> find_idx ps idx i0 = None.
Proof.
  induction ps as [|p t IH]; intros i0 H; cbn [find_idx]; [reflexivity|].
  rewrite (H p (or_introl eq_refl)). cbn [empty_peer k_cur k_prev k_next slot_hit].
  apply IH. intros q Hq. apply H. right; exact Hq.
Qed.

Lemma recv1_all_empty st d : AllEmpty st -> recv1 st d = (st, nothing).
Proof.
  intros HE.
  destruct (recv1_cases st d) as [Hn|(idx & key & c & plain & i & sl & k & _ & Hf & _)]; [exact Hn|].
  rewrite (find_idx_empty (s_peers st) idx 0 HE) in Hf. discriminate.
Qed.

Lemma restart_all_empty st : AllEmpty (fst (step st Restart)).
Proof.
  unfold AllEmpty. cbn [step fst s_peers]. intros p Hin.
  apply in_map_iff in Hin. destruct Hin as (x & E & _). symmetry; exact E.
Qed.

Theorem restart_drops_all : forall st d,
  snd (recv1 (fst (step st Restart)) d) = nothing /\
  fst (recv1 (fst (step st Restart)) d) = fst (step st Restart).
Proof.
  intros st d. rewrite (recv1_all_empty _ d (restart_all_empty st)). split; reflexivity.
Qed.

Lemma all_empty_step st ev :
  AllEmpty st -> (forall p i k, ev <> Handshake p i k /\ ev <> HandshakeUnconf p i k) ->
  AllEmpty (fst (step st ev)).
Proof.
  intros HE Hne. destruct ev as [p idx k0|p idx k0| |tbl rm|p|p ns|l|l];
    [| | | | | | |rewrite tunfail_fst; change (fst (run recv1 st l)) with (final recv1 st l);
               apply (final_inv recv1 AllEmpty); [intros s o Hs; rewrite (recv1_all_empty s o Hs); exact Hs|exact HE]].
  - exfalso. apply (proj1 (Hne p idx k0)). reflexivity.
  - exfalso. apply (proj2 (Hne p idx k0)). reflexivity.
  - apply restart_all_empty.
  - unfold AllEmpty. cbn [step fst s_peers]. intros q Hin.
    apply in_clear_peers in Hin. destruct Hin as [Hq|Hq]; [exact Hq|exact (HE q Hq)].
  - unfold AllEmpty. cbn [step fst s_peers].
    destruct (nth_error (s_peers st) (N.to_nat p)) as [x|] eqn:Hn; [|exact HE].
    intros q Hin. apply in_set_nth in Hin. destruct Hin as [Hq|Hq]; [exact Hq|exact (HE q Hq)].
  - unfold AllEmpty. cbn [step fst s_peers].
    destruct (nth_error (s_peers st) (N.to_nat p)) as [x|] eqn:Hn; [|exact HE].
    pose proof (HE x (nth_error_In _ _ Hn)) as Ex.
    intros q Hin. apply in_set_nth in Hin. destruct Hin as [Hq|Hq]; [|exact (HE q Hq)].
    subst q x. reflexivity.
  - cbn [step]. change (fst (run recv1 st l)) with (final recv1 st l).
    apply (final_inv recv1 AllEmpty); [|exact HE].
    intros s o Hs. rewrite (recv1_all_empty s o Hs). exact Hs.
Qed.

Lemma all_empty_final : forall evs st,
  AllEmpty st ->
  (forall p i k, ~ In (Handshake p i k) evs /\ ~ In (HandshakeUnconf p i k) evs) ->
  AllEmpty (final step st evs).
Proof.
  induction evs as [|ev evs IH]; intros st HE Hno; unfold final; cbn [run]; [exact HE|].
  assert (H1 : forall p i k, ev <> Handshake p i k /\ ev <> HandshakeUnconf p i k).
  { intros p i k. destruct (Hno p i k) as [A B].
    split; intros E; [apply A|apply B]; left; exact E. }
  assert (H2 : forall p i k, ~ In (Handshake p i k) evs /\ ~ In (HandshakeUnconf p i k) evs).
  { intros p i k. destruct (Hno p i k) as [A B].
    split; intros E; [apply A|apply B]; right; exact E. }
  pose proof (all_empty_step st ev HE H1) as HE1.
  destruct (step st ev) as [s1 r]. cbn [fst] in HE1.
  specialize (IH s1 HE1 H2). unfold final in IH. destruct (run step s1 evs). exact IH.
Qed.

Theorem restart_then_only_new : forall st evs d,
  (forall p i k, ~ In (Handshake p i k) evs /\ ~ In (HandshakeUnconf p i k) evs) ->
  snd (recv1 (final step (fst (step st Restart)) evs) d) = nothing.
Proof.
  intros st evs d Hno.
  rewrite (recv1_all_empty _ d (all_empty_final evs _ (restart_all_empty st) Hno)). reflexivity.
Qed.

(* ------------------------------------------------------------------ confirmation by data *)

Theorem unconfirmed_key_accepts_and_promotes : forall st idx key ctr plain i k,
  find_idx (s_peers st) idx 0 = Some (i, SNext, k) ->
  k_age k <= RejectAfterTime -> key = k_key k ->
  accept (k_filter k) ctr RejectAfterMessages = true ->
  exists p p',
    nth_error (s_peers st) (N.to_nat i) = Some p /\
    nth_error (s_peers (fst (recv1 st (Transport idx key false ctr plain)))) (N.to_nat i) = Some p' /\
    k_prev p' = k_cur p /\ k_next p' = None /\
    exists k', k_cur p' = Some k' /\ k_idx k' = idx /\ k_key k' = key.
Proof.
  intros st idx key ctr plain i k Hf Hage Hk Hacc.
  rewrite (recv1_accept st idx key ctr plain i SNext k Hf Hage Hk Hacc). cbn [fst].
  unfold upd. cbn [s_peers].
  destruct (accepted_marks_slot (s_peers st) idx i SNext k ctr Hf) as (p & Hn & Hu & _ & Hi & _).
  rewrite Hu. exists p, (put p SNext (marked k ctr)).
  split; [exact Hn|]. split; [apply (nth_error_set_nth_same _ _ _ p Hn)|].
  cbn [put k_prev k_cur k_next]. split; [reflexivity|]. split; [reflexivity|].
  exists (marked k ctr). split; [reflexivity|].
  unfold marked, set_filter. cbn [k_idx k_key]. split; [exact Hi|symmetry; exact Hk].
Qed.

(* ------------------------------------------------------------------ removed peers *)

Definition no_keys (q : peer) : Prop := k_prev q = None /\ k_cur q = None /\ k_next q = None.
Definition EmptyAt (ps : list peer) (n : nat) : Prop := forall q, nth_error ps n = Some q -> no_keys q.
Definition Gone (p : N) (st : state) : Prop :=
  is_gone st p = true /\ EmptyAt (s_peers st) (N.to_nat p).

Lemma no_keys_empty : no_keys empty_peer.
Proof. unfold no_keys, empty_peer. cbn. repeat split. Qed.

Lemma nth_error_set_nth_eq {A} (l : list A) : forall n v q,
  nth_error (set_nth l n v) n = Some q -> q = v.
Proof.
  induction l as [|h t IH]; intros [|n] v q H; cbn [nth_error set_nth] in H; try discriminate.
  - inversion H; reflexivity.
  - apply (IH n v q H).
Qed.

Lemma nth_error_set_nth_other {A} (l : list A) : forall n m v,
  n <> m -> nth_error (set_nth l n v) m = nth_error l m.
Proof.
  induction l as [|h t IH]; intros [|n] [|m] v Hne; cbn [nth_error set_nth]; try reflexivity.
  - exfalso. apply Hne. reflexivity.
  - apply IH. intros E. apply Hne. rewrite E. reflexivity.
Qed.

Lemma emptyat_set_nth ps n m v :
  EmptyAt ps n -> (m = n -> no_keys v) -> EmptyAt (set_nth ps m v) n.
Proof.
  intros HE Hv q Hq. destruct (Nat.eq_dec m n) as [E|E].
  - subst m. apply nth_error_set_nth_eq in Hq. subst q. apply Hv. reflexivity.
  - rewrite (nth_error_set_nth_other ps m n v E) in Hq. exact (HE q Hq).
Qed.

Lemma is_gone_same st st' p : s_gone st' = s_gone st -> is_gone st' p = is_gone st p.
Proof. unfold is_gone. intros E. rewrite E. reflexivity. Qed.

Lemma to_nat_neq a b : a <> b -> N.to_nat a <> N.to_nat b.
Proof. lia. Qed.

Theorem removed_peer_has_no_keys : forall st p,
  let st' := fst (step st (Remove p)) in
  (forall q, nth_error (s_peers st') (N.to_nat p) = Some q ->
             k_prev q = None /\ k_cur q = None /\ k_next q = None) /\
  is_gone st' p = true /\
  (forall e, In e (s_tbl st') -> e_owner e <> p).
Proof.
  intros st p st'. unfold st'. cbn [step fst]. split; [|split].
  - cbn [s_peers]. intros q Hq.
    destruct (nth_error (s_peers st) (N.to_nat p)) as [x|] eqn:Hn.
    + apply nth_error_set_nth_eq in Hq. subst q. cbn. repeat split.
    + rewrite Hn in Hq. discriminate.
  - unfold is_gone. cbn [s_gone existsb]. rewrite N.eqb_refl. reflexivity.
  - cbn [s_tbl]. intros e Hin. apply filter_In in Hin. destruct Hin as [_ Hb].
    apply Bool.negb_true_iff in Hb. apply N.eqb_neq in Hb. exact Hb.
Qed.

(* one datagram: only the position find_idx returned is touched, and that position holds a keypair *)
Lemma gone_recv1 p st d :
  Gone p st ->
  Gone p (fst (recv1 st d)) /\
  forall i w, r_write (snd (recv1 st d)) = Some (i, w) -> i <> p.
Proof.
  intros [Hg HE].
  destruct (recv1_cases st d) as [Hn|(idx & key & c & plain & i & sl & k & _ & Hf & _ & _ & _ & Hc)].
  - rewrite Hn. cbn [fst snd nothing r_write]. split; [split; assumption|]. intros i w H; discriminate.
  - rewrite Hc. cbn [fst snd r_write].
    destruct (accepted_marks_slot (s_peers st) idx i sl k c Hf) as (p0 & Hn & Hu & Hs & _ & _).
    assert (Hip : i <> p).
    { intros E. subst i. destruct (HE p0 Hn) as (A & B & C).
      destruct sl; cbn [get_slot] in Hs; congruence. }
    split.
    + split.
      * unfold upd, is_gone in *. cbn [s_gone]. exact Hg.
      * unfold upd. cbn [s_peers]. rewrite Hu.
        intros q Hq. rewrite (nth_error_set_nth_other _ _ _ _ (to_nat_neq i p Hip)) in Hq.
        exact (HE q Hq).
    + intros i' w Hw. apply wr_some in Hw. destruct Hw as (E & _). subst i'. exact Hip.
Qed.

Lemma gone_run p : forall l st,
  Gone p st ->
  Gone p (fst (run recv1 st l)) /\
  forall r i w, In r (snd (run recv1 st l)) -> r_write r = Some (i, w) -> i <> p.
Proof.
  induction l as [|d l IH]; intros st HG; cbn [run].
  - cbn [fst snd]. split; [exact HG|]. intros r i w [].
  - destruct (gone_recv1 p st d HG) as [HG1 Hw1].
    destruct (recv1 st d) as [s1 r1]. cbn [fst snd] in HG1, Hw1.
    destruct (IH s1 HG1) as [HG2 Hw2].
    destruct (run recv1 s1 l) as [s2 rs]. cbn [fst snd] in *.
    split; [exact HG2|]. intros r i w [E|Hin] Hw.
    + subst r. exact (Hw1 i w Hw).
    + exact (Hw2 r i w Hin Hw).
Qed.

Theorem gone_inv_step : forall p st ev,
  Gone p st ->
  Gone p (fst (step st ev)) /\
  forall r i w, In r (snd (step st ev)) -> r_write r = Some (i, w) -> i <> p.
Proof.
  intros p st ev HG.
  destruct ev as [p0 idx k0|p0 idx k0| |tbl rm|p0|p0 ns|l|l];
    [| | | | | | |rewrite tunfail_fst, tunfail_snd; split; [apply gone_run; exact HG|];
               intros r i w Hin Hw; apply in_map_iff in Hin; destruct Hin as (r0 & E & _);
               subst r; discriminate];
    cbn [step];
    try (apply gone_run; exact HG); destruct HG as [Hg HE].
  - destruct (is_gone st p0) eqn:Hg0; cbn [fst snd]; (split; [|intros r i w []]); [split; assumption|].
    assert (Hne : N.to_nat p0 <> N.to_nat p).
    { apply to_nat_neq. intros E. subst p0. rewrite Hg in Hg0. discriminate. }
    split; [unfold is_gone in *; cbn [s_gone]; exact Hg|]. cbn [s_peers].
    destruct (nth_error (s_peers st) (N.to_nat p0)); [|exact HE].
    apply emptyat_set_nth; [exact HE|]. intros E. contradiction.
  - destruct (is_gone st p0) eqn:Hg0; cbn [fst snd]; (split; [|intros r i w []]); [split; assumption|].
    assert (Hne : N.to_nat p0 <> N.to_nat p).
    { apply to_nat_neq. intros E. subst p0. rewrite Hg in Hg0. discriminate. }
    split; [unfold is_gone in *; cbn [s_gone]; exact Hg|]. cbn [s_peers].
    destruct (nth_error (s_peers st) (N.to_nat p0)); [|exact HE].
    apply emptyat_set_nth; [exact HE|]. intros E. contradiction.
  - cbn [fst snd]. split; [|intros r i w []].
    split; [unfold is_gone in *; cbn [s_gone]; exact Hg|]. cbn [s_peers].
    intros q Hq. apply nth_error_In in Hq. apply in_map_iff in Hq. destruct Hq as (x & E & _).
    subst q. cbn. repeat split.
  - cbn [fst snd]. split; [|intros r i w []]. split.
    + unfold is_gone in *. cbn [s_gone]. rewrite existsb_app, Hg. apply Bool.orb_true_r.
    + cbn [s_peers]. intros q Hq. apply nth_clear_peers in Hq. destruct Hq as (x & Hn & Eq).
      subst q. destruct (existsb _ rm); [exact no_keys_empty|exact (HE x Hn)].
  - cbn [fst snd]. split; [|intros r i w []]. split.
    + unfold is_gone in *. cbn [s_gone existsb]. rewrite Hg. apply Bool.orb_true_r.
    + cbn [s_peers]. destruct (nth_error (s_peers st) (N.to_nat p0)); [|exact HE].
      apply emptyat_set_nth; [exact HE|]. intros _. cbn. repeat split.
  - cbn [fst snd]. split; [|intros r i w []].
    split; [unfold is_gone in *; cbn [s_gone]; exact Hg|]. cbn [s_peers].
    destruct (nth_error (s_peers st) (N.to_nat p0)) as [x|] eqn:Hn; [|exact HE].
    apply emptyat_set_nth; [exact HE|]. intros E. rewrite E in Hn.
    destruct (HE x Hn) as (A & B & C). unfold no_keys. cbn [k_prev k_cur k_next].
    rewrite A, B, C. cbn [age_kp]. repeat split.
Qed.

Lemma gone_trace p : forall evs st,
  Gone p st ->
  forall rs r i w, In rs (outs step st evs) -> In r rs -> r_write r = Some (i, w) -> i <> p.
Proof.
  induction evs as [|ev evs IH]; intros st HG rs r i w Hrs Hr Hw; unfold outs in Hrs; cbn [run] in Hrs.
  - destruct Hrs.
  - destruct (gone_inv_step p st ev HG) as [HG1 Hw1].
    destruct (step st ev) as [s1 o1]. cbn [fst snd] in HG1, Hw1.
    specialize (IH s1 HG1 rs r i w). unfold outs in IH.
    destruct (run step s1 evs) as [s2 os]. cbn [snd] in *.
    destruct Hrs as [E|Hin].
    + subst rs. exact (Hw1 r i w Hr Hw).
    + exact (IH Hin Hr Hw).
Qed.

Theorem removed_peer_never_written : forall evs st p,
  is_gone st p = true ->
  (forall q, nth_error (s_peers st) (N.to_nat p) = Some q ->
             k_prev q = None /\ k_cur q = None /\ k_next q = None) ->
  forall rs r i w, In rs (outs step st evs) -> In r rs -> r_write r = Some (i, w) -> i <> p.
Proof.
  intros evs st p Hg HE. apply (gone_trace p evs st). split; [exact Hg|exact HE].
Qed.

(* ------------------------------------------------------------------ TUN write failure *)

Theorem tun_failure_loses_the_step : forall st l,
  fst (step st (DgramsTunFail l)) = fst (step st (Dgrams l)) /\
  (forall r, In r (snd (step st (DgramsTunFail l))) -> r_write r = None) /\
  map r_rx (snd (step st (DgramsTunFail l))) = map r_rx (snd (step st (Dgrams l))).
Proof.
  intros st l. rewrite tunfail_fst, tunfail_snd. cbn [step]. split; [reflexivity|]. split.
  - intros r Hin. apply in_map_iff in Hin. destruct Hin as (r0 & E & _). subst r. reflexivity.
  - rewrite map_map. apply map_ext. intros r. reflexivity.
Qed.

(* ------------------------------------------------------------------ reconfiguration *)

Lemma existsb_eqb_in p l : In p l -> existsb (N.eqb p) l = true.
Proof.
  intros H. apply existsb_exists. exists p. split; [exact H|apply N.eqb_refl].
Qed.

Theorem reconf_removes : forall st tbl rm p,
  In p rm ->
  is_gone (fst (step st (Reconf tbl rm))) p = true /\
  (forall e, In e (s_tbl (fst (step st (Reconf tbl rm)))) -> e_owner e <> p) /\
  (forall q, nth_error (s_peers (fst (step st (Reconf tbl rm)))) (N.to_nat p) = Some q ->
             k_prev q = None /\ k_cur q = None /\ k_next q = None).
Proof.
  intros st tbl rm p Hin. cbn [step fst]. split; [|split].
  - unfold is_gone. cbn [s_gone]. rewrite existsb_app, (existsb_eqb_in p rm Hin). reflexivity.
  - cbn [s_tbl]. intros e He. apply filter_In in He. destruct He as [_ Hb].
    apply Bool.negb_true_iff in Hb. intros E. rewrite E in Hb.
    rewrite existsb_app, (existsb_eqb_in p rm Hin) in Hb. discriminate.
  - cbn [s_peers]. intros q Hq. apply nth_clear_peers in Hq. destruct Hq as (x & _ & Eq).
    rewrite N.add_0_l, N2Nat.id, (existsb_eqb_in p rm Hin) in Eq. subst q. cbn. repeat split.
Qed.
