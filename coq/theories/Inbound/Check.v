(* Correspondence checker for C02.  Depends on Model and Spec only.
   kind 1 = the device differs from the mirror model (TUN writes or rx_bytes)
   kind 2 = the property (Spec.holds_trace) fails on what the device wrote to the TUN. *)
From Coq Require Import Uint63.
From WG Require Import Base.Prelude Base.Ints DataPath.Pack Gen.Constants DataPath.Lpm DataPath.Table Replay.Model Replay.Spec
  Inbound.Model Inbound.Spec.
Local Open Scope N_scope.

Inductive rawdg :=
| RRaw (typeword len : int)
| RTr (h : list int) (plain : list int).   (* h = [index; key serial; tampered 0|1; counter hi32; counter lo32; plaintext length] *)

Inductive rawev :=
| RHs (p idx key : int)
| RHsu (p idx key : int)
| RRestart
| RRemove (p : int)
| RReconf (tbl : list (list int)) (rm : list int)
| RAge (p ms : int)                       (* milliseconds *)
| RDg (l : list rawdg)
| RDgFail (l : list rawdg).

(* per step: TUN writes (length, packed bytes) in order, rx_bytes delta per peer *)
Definition rawobs := (list (int * list int) * list int)%type.

Inductive case :=
| Scenario (hdr : list int)            (* [ipv4.HeaderLen; ipv6.HeaderLen; partial 0|1]  partial = compact scenario of a
                                          concurrency pass (only the datagrams that matter): judged by the property only *)
           (tbl : list (list int))     (* [family 4|6; prefix length; owner; w0; w1; w2; w3] *)
           (npeers : int)
           (evs : list rawev)
           (obs : list rawobs)
| Crashed.                              (* the device panicked in this scenario *)

Definition ni := n_of_int.
Definition nthi (l : list int) (k : nat) : N := ni (nth k l 0%uint63).

Definition dec_entry (l : list int) : entry :=
  let f := if nthi l 0 =? 6 then V6 else V4 in
  {| e_fam := f; e_len := nthi l 1; e_owner := nthi l 2;
     e_bits := match f with
               | V4 => nthi l 3
               | V6 => ((nthi l 3 * 4294967296 + nthi l 4) * 4294967296 + nthi l 5) * 4294967296 + nthi l 6
               end |}.

Definition dec_dg (r : rawdg) : dgram :=
  match r with
  | RRaw t l => Raw (ni t) (ni l)
  | RTr h p => Transport (nthi h 0) (nthi h 1) (negb (nthi h 2 =? 0)) (nthi h 3 * 4294967296 + nthi h 4)
                         (unpackf (nth 5 h 0%uint63) p)
  end.

Definition dec_ev (r : rawev) : event :=
  match r with
  | RHs p i k => Handshake (ni p) (ni i) (ni k)
  | RHsu p i k => HandshakeUnconf (ni p) (ni i) (ni k)
  | RRestart => Restart
  | RRemove p => Remove (ni p)
  | RReconf t rm => Reconf (effective (map dec_entry t)) (map ni rm)
  | RAge p s => Age (ni p) (ni s * 1000000)
  | RDg l => Dgrams (map dec_dg l)
  | RDgFail l => DgramsTunFail (map dec_dg l)
  end.

Definition dec_obs (r : rawobs) : list (list N) * list N :=
  (map (fun x => unpackf (fst x) (snd x)) (fst r), map ni (snd r)).

Definition env_ok (hdr : list int) : bool :=
  (nthi hdr 0 =? ipv4_HeaderLen) && (nthi hdr 1 =? ipv6_HeaderLen).

Definition writes_of (rs : list res) : list (N * list N) :=
  flat_map (fun r => match r_write r with Some w => [w] | None => [] end) rs.
Definition rx_of (np : N) (rs : list res) : list N :=
  map (fun i => fold_left (fun a r => match r_rx r with Some (j, n) => if j =? i then a + n else a | None => a end) rs 0)
      (map N.of_nat (seq 0 (N.to_nat np))).

Fixpoint nlist_eqb (a b : list N) : bool :=
  match a, b with
  | [], [] => true
  | x :: a', y :: b' => (x =? y) && nlist_eqb a' b'
  | _, _ => false
  end.

Definition cmp_step (np : N) (m : list res) (o : list (list N) * list N) : bool :=
  writes_ok np (writes_of m) (fst o) && nlist_eqb (rx_of np m) (snd o).

Fixpoint cmp_steps (np : N) (m : list (list res)) (o : list (list (list N) * list N)) (i : N) : option N :=
  match m, o with
  | [], [] => None
  | x :: m', y :: o' => if cmp_step np x y then cmp_steps np m' o' (i + 1) else Some i
  | _, _ => Some i
  end.

Definition opt_fail (k : N) (o : option N) : list (N * N) :=
  match o with Some i => [(k, i)] | None => [] end.

Definition init_state (t : list entry) (np : N) : state :=
  {| s_tbl := t; s_peers := repeat {| k_prev := None; k_cur := None; k_next := None |} (N.to_nat np); s_gone := [] |}.

Definition check_case (c : case) : list (N * N) :=
  match c with
  | Scenario hdr tbl npeers evs obs =>
      if negb (env_ok hdr) then [(1, 0)] else
      let t := map dec_entry tbl in
      let np := ni npeers in
      let es := map dec_ev evs in
      let ob := map dec_obs obs in
      (* the model starts from the table the configuration denotes (a prefix assigned twice belongs to the later
         peer only): removing that peer must not resurrect the earlier assignment *)
      (if nthi hdr 2 =? 0 then opt_fail 1 (cmp_steps np (outs step (init_state (effective t) np) es) ob 0) else []) ++
      opt_fail 2 (holds_trace (effective t) np [] [] es (map fst ob) 0)
  | Crashed => [(1, 0)]
  end.

Fixpoint check_cases (ks : list case) (idx : N) : list (N * N * N) :=
  match ks with
  | [] => []
  | k :: ks' => map (fun p => (idx, fst p, snd p)) (check_case k) ++ check_cases ks' (idx + 1)
  end.

(* ---------------------------------------------------------------- statistics
   outcome of every datagram according to the model:
   [0 not transport / too short; 1 unknown index; 2 keypair expired; 3 does not authenticate;
    4 replayed or behind the window; 5 keepalive; 6 IPv4 length/header refused; 7 IPv6 length/header refused;
    8 other version nibble; 9 source not allowed; 10 written; 11 handshakes; 12 age shifts;
    13 unconfirmed handshakes; 14 restarts; 15 accepted under the unconfirmed key (promotion); 16 peers removed; 17 multi-section reconfigurations] *)
Fixpoint bump (l : list N) (i : nat) : list N :=
  match l, i with
  | [], _ => []
  | x :: t, O => (x + 1) :: t
  | x :: t, S j => x :: bump t j
  end.

Definition outcome (st : state) (d : dgram) : nat :=
  match d with
  | Raw _ _ => 0%nat
  | Transport idx key tampered ctr plain =>
      match find_idx (s_peers st) idx 0 with
      | None => 1%nat
      | Some (i, _, k) =>
          if RejectAfterTime <? k_age k then 2%nat
          else if tampered || negb (key =? k_key k) then 3%nat
          else if negb (accept (k_filter k) ctr RejectAfterMessages) then 4%nat
          else match plain with
               | [] => 5%nat
               | b0 :: _ =>
                   match ip_check plain with
                   | None => if b0 / 16 =? 4 then 6%nat else if b0 / 16 =? 6 then 7%nat else 8%nat
                   | Some (f, L, src) =>
                       match lookup (s_tbl st) f (be_val src) with
                       | Some j => if j =? i then 10%nat else 9%nat
                       | None => 9%nat
                       end
                   end
               end
      end
  end.

Definition promotes (st : state) (d : dgram) : bool :=
  match d with
  | Transport idx _ _ _ _ =>
      match find_idx (s_peers st) idx 0, r_rx (snd (recv1 st d)) with
      | Some (_, SNext, _), Some _ => true
      | _, _ => false
      end
  | _ => false
  end.

Fixpoint stat_dgs (st : state) (l : list dgram) (a : list N) : state * list N :=
  match l with
  | [] => (st, a)
  | d :: t => stat_dgs (fst (recv1 st d)) t
                (let a1 := bump a (outcome st d) in if promotes st d then bump a1 15 else a1)
  end.

Fixpoint stat_evs (st : state) (evs : list event) (a : list N) : list N :=
  match evs with
  | [] => a
  | Dgrams l :: t => let '(st', a') := stat_dgs st l a in stat_evs st' t a'
  | DgramsTunFail l :: t => let '(st', a') := stat_dgs st l a in stat_evs st' t a'
  | Handshake p i k :: t => stat_evs (fst (step st (Handshake p i k))) t (bump a 11)
  | HandshakeUnconf p i k :: t => stat_evs (fst (step st (HandshakeUnconf p i k))) t (bump a 13)
  | Restart :: t => stat_evs (fst (step st Restart)) t (bump a 14)
  | Remove p :: t => stat_evs (fst (step st (Remove p))) t (bump a 16)
  | Reconf tb rm :: t => stat_evs (fst (step st (Reconf tb rm))) t (bump a 17)
  | Age p n :: t => stat_evs (fst (step st (Age p n))) t (bump a 12)
  end.

Definition stats_case (a : list N) (c : case) : list N :=
  match c with
  | Scenario hdr tbl npeers evs obs =>
      stat_evs (init_state (effective (map dec_entry tbl)) (ni npeers)) (map dec_ev evs) a
  | Crashed => a
  end.

Definition stats (ks : list case) : list N := fold_left stats_case ks [0;0;0;0;0;0;0;0;0;0;0;0;0;0;0;0;0;0].
