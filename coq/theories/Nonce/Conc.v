(* C04, concurrent half: T flusher threads and ExpireCurrentKeypairs over ONE
   shared 64-bit cell (keypair.sendNonce), small-step interleaving semantics.

   A flusher (a goroutine inside SendStagedPackets that has loaded the keypair
   pointer) runs

       Top:  if sendNonce.Load() >= Reject { initiate; return }
       for each of its k elements:
             r := sendNonce.Add(1) - 1            (one atomic step)
             if r >= Reject { sendNonce.Store(Reject); hold }   (examine; store = separate steps)
             else emit r

   Every line is one atomic step; the steps of different threads interleave
   arbitrarily (a schedule is a list of actions; disabled actions are skipped).
   [Expire] is the Store(RejectAfterMessages) of ExpireCurrentKeypairs and may
   happen at any time, any number of times.  No proofs in this file. *)
From WG Require Import Base.Prelude Gen.Constants Nonce.Seq.
Local Open Scope N_scope.

Inductive tstate :=
| Top (k : nat)             (* about to Load; k elements to number *)
| Num (k : nat)             (* in the loop, k elements left *)
| Got (r : N) (k : nat)     (* Add(1)-1 returned r, not yet examined *)
| Sto (k : nat)             (* must still execute Store(Reject); the element is held *)
| Done.                     (* returned from the top check *)

Record cfg := { cell : N; thr : nat -> tstate; emitted : list N; held : nat }.

Definition upd (f : nat -> tstate) (i : nat) (s : tstate) : nat -> tstate :=
  fun j => if Nat.eqb j i then s else f j.

Inductive action := Step (tid : nat) | Expire.

Definition step (T : nat) (c : cfg) (a : action) : option cfg :=
  match a with
  | Expire => Some {| cell := Reject; thr := thr c; emitted := emitted c; held := held c |}
  | Step tid =>
    if negb (Nat.ltb tid T) then None else
    match thr c tid with
    | Top k =>
        Some {| cell := cell c; thr := upd (thr c) tid (if Reject <=? cell c then Done else Num k);
                emitted := emitted c; held := held c |}
    | Num O => None
    | Num (S k) =>
        Some {| cell := add1 (cell c); thr := upd (thr c) tid (Got (sub1 (add1 (cell c))) k);
                emitted := emitted c; held := held c |}
    | Got r k =>
        if Reject <=? r
        then Some {| cell := cell c; thr := upd (thr c) tid (Sto k); emitted := emitted c; held := S (held c) |}
        else Some {| cell := cell c; thr := upd (thr c) tid (Num k); emitted := r :: emitted c; held := held c |}
    | Sto k => Some {| cell := Reject; thr := upd (thr c) tid (Num k); emitted := emitted c; held := held c |}
    | Done => None
    end
  end.

Fixpoint run (T : nat) (c : cfg) (sched : list action) : cfg :=
  match sched with
  | [] => c
  | a :: s => match step T c a with Some c' => run T c' s | None => run T c s end
  end.

(* all threads at the top of SendStagedPackets, thread i with ks i elements *)
Definition init (n0 : N) (ks : nat -> nat) : cfg :=
  {| cell := n0; thr := fun i => Top (ks i); emitted := []; held := 0 |}.
