(* Correspondence / trace checker for C04.  Depends on Seq, Conc(not needed),
   Spec only -- not on the proofs. *)
From Coq Require Import Uint63.
From WG Require Import Base.Prelude Base.Ints Gen.Constants Nonce.Seq Nonce.Spec.
Local Open Scope N_scope.

Inductive case :=
| CSeq (tr : list (ev * out)) (nonces : list (option N))
                                     (* scenario: what the harness did and what the device sent, per step;
                                        sendNonce of the current keypair after each step (VerifPeer), None = no key *)
| CStuck                             (* scenario on which the device twice did not come to rest (livelock, deadlock, crash) *)
| CConc (ks : list ktrace).          (* stress: counters seen on the wire per key *)

(* ---- constructors used by the generated case files (primitive ints carry the data) *)
Definition big (hi lo : int) : N := n_of_int hi * 4294967296 + n_of_int lo.
Definition eSet (hi lo : int) : ev := SetNonce (big hi lo).
Definition eTun (l : list int) : ev := TunBatch (ns_of_ints l).
Definition eAns (idx : int) : ev := Answer (n_of_int idx).
Definition eAllow : ev := AllowInit.
Definition eUapi (b : bool) : ev := Uapi b.
Definition eRefInit (idx : int) : ev := RefInit (n_of_int idx).
Definition eRefData : ev := RefData.
Definition eTunErr (l : list int) (k : int) (lost : list int) : ev := TunBatchErr (ns_of_ints l) (N.to_nat (n_of_int k)) (ns_of_ints lost).
Definition eTunIErr (l : list int) : ev := TunBatchIErr (ns_of_ints l).
Definition eRetransmit : ev := Retransmit.
Definition tx (idx hi lo pl : int) : N * N * N := (n_of_int idx, big hi lo, n_of_int pl).
(* a run of consecutive counters carrying consecutive packet ids (compact form) *)
Fixpoint txrun_aux (idx c pl : N) (n : nat) : list (N * N * N) :=
  match n with O => [] | S k => (idx, c, pl) :: txrun_aux idx (c + 1) (pl + 1) k end.
Definition txrun (idx hi lo pl n : int) : list (N * N * N) :=
  txrun_aux (n_of_int idx) (big hi lo) (n_of_int pl) (N.to_nat (n_of_int n)).
Definition nn (hi lo : int) : option N := Some (big hi lo).
Definition mko (l : list (list (N * N * N))) (inits : int) : out :=
  {| o_tx := concat l; o_init := n_of_int inits |}.
(* stress traces: per key a list of segments; a segment is a base counter and
   runs [off1; n1; off2; n2; ...] = n_i consecutive counters from base + off_i *)
Fixpoint nrun (c : N) (n : nat) : list N :=
  match n with O => [] | S k => c :: nrun (c + 1) k end.
Fixpoint runs (base : N) (l : list int) : list N :=
  match l with
  | off :: n :: t => nrun (base + n_of_int off) (N.to_nat (n_of_int n)) ++ runs base t
  | _ => []
  end.
Definition seg (bhi blo : int) (l : list int) : list N := runs (big bhi blo) l.
Definition ktr (key : int) (segs : list (list N)) : ktrace :=
  {| kt_key := n_of_int key; kt_ctrs := concat segs |}.

(* ---- comparison with the slice model *)
Definition tx_eqb (a b : N * N * N) : bool :=
  (tx_idx a =? tx_idx b) && (tx_ctr a =? tx_ctr b) && (tx_pl a =? tx_pl b).
Fixpoint txl_eqb (a b : list (N * N * N)) : bool :=
  match a, b with
  | [], [] => true
  | x :: a', y :: b' => tx_eqb x y && txl_eqb a' b'
  | _, _ => false
  end.
Definition out_eqb (a b : out) : bool := txl_eqb (o_tx a) (o_tx b) && (o_init a =? o_init b).

Definition nonce_agrees (s : dst) (obs : option N) : bool :=
  match cur s, obs with
  | Some k, Some v => knonce k =? v
  | None, None => true
  | _, _ => false
  end.

Fixpoint model_diff (s : dst) (tr : list (ev * out)) (ns : list (option N)) (i : N) : option N :=
  match tr with
  | [] => None
  | (e, o) :: r =>
      let '(s', m) := dstep s e in
      let okn := match ns with n :: _ => nonce_agrees s' n | [] => true end in
      if out_eqb m o && okn then model_diff s' r (tl ns) (i + 1) else Some i
  end.

(* kind 1 = the device differs from the slice model (K.C04.numbering)
   kind 2 = the specification fails on what the device did *)
Definition check_case (k : case) : list (N * N) :=
  match k with
  | CSeq tr ns =>
      (match model_diff dinit tr ns 0 with Some i => [(1, i)] | None => [] end) ++
      (match seq_check 0 sp0 tr with Some i => [(2, i)] | None => [] end)
  | CStuck => [(2, 0)]       (* "stops using it and negotiates a new session": the device must come to rest *)
  | CConc ks => if conc_holdsb ks then [] else [(2, 0)]
  end.

Fixpoint check_cases (ks : list case) (idx : N) : list (N * N * N) :=
  match ks with
  | [] => []
  | k :: ks' => map (fun p => (idx, fst p, snd p)) (check_case k) ++ check_cases ks' (idx + 1)
  end.

(* ---- statistics: which branches of the slice model the scenarios reached
   [0 all numbered; 1 straddle (some numbered, some held); 2 exhausted at the top check;
    3 no key; 4 initiation because sendNonce > RekeyAfterMessages; 5 initiation suppressed by spacing;
    6 new session delivers held packets; 7 new session sends a keepalive;
    8 transports in stress traces; 9 keys in stress traces; 10 non-consecutive neighbours in stress traces;
    11 responder session confirmed by data; 12 initiation after 2^60 on a session where the device was the RESPONDER;
    13 transport Send refused by the bind; 14 initiation refused by the bind; 15 retransmit timer with an unanswered initiation] *)
Fixpoint bump (l : list N) (i : nat) (d : N) : list N :=
  match l, i with
  | [], _ => []
  | x :: t, O => (x + d) :: t
  | x :: t, S j => x :: bump t j d
  end.

Definition classify (s : dst) (e : ev) (m : out) (s' : dst) : list nat :=
  let held_after := nonempty (staged s') in
  let base :=
    match e with
    | TunBatchErr (_ :: _) _ _ => [13%nat]
    | TunBatchIErr (_ :: _) => [14%nat]
    | Retransmit => if pending s then [15%nat] else []
    | TunBatch (_ :: _) | Uapi _ =>
        match cur s with
        | None => if nonempty (staged s') then [3%nat] else []
        | Some k =>
            if Reject <=? knonce k then (if held_after then [2%nat] else [])
            else if nonempty (o_tx m) && held_after then [1%nat]
            else if nonempty (o_tx m) then [0%nat] else []
        end
    | Answer _ =>
        if pending s then
          (if existsb (fun t => negb (tx_pl t =? 0)) (o_tx m) then [6%nat] else [7%nat])
        else []
    | RefData => match nxt s with Some _ => [11%nat] | None => [] end
    | _ => []
    end in
  let rk :=
    match cur s' with
    | Some k => if nonempty (o_tx m) && (Rekey <? knonce k) && negb held_after
                then (if 1 <=? o_init m then (if kinit k then [4%nat] else [12%nat]) else [5%nat]) else []
    | None => []
    end in
  base ++ rk.

Fixpoint stats_seq (s : dst) (tr : list (ev * out)) (st : list N) : list N :=
  match tr with
  | [] => st
  | (e, _) :: r =>
      let '(s', m) := dstep s e in
      stats_seq s' r (fold_left (fun a i => bump a i 1) (classify s e m s') st)
  end.

Fixpoint descents (prev : N) (l : list N) : N :=
  match l with [] => 0 | x :: t => (if x =? prev + 1 then 0 else 1) + descents x t end.

Definition stats_case (st : list N) (k : case) : list N :=
  match k with
  | CSeq tr _ => stats_seq dinit tr st
  | CStuck => st
  | CConc ks =>
      let n := fold_left (fun a k => a + N.of_nat (length (kt_ctrs k))) ks 0 in
      let d := fold_left (fun a k => a + match kt_ctrs k with [] => 0 | x :: t => descents x t end) ks 0 in
      bump (bump (bump st 8 n) 9 (N.of_nat (length ks))) 10 d
  end.

Definition stats (ks : list case) : list N := fold_left stats_case ks [0;0;0;0;0;0;0;0;0;0;0;0;0;0;0;0].
