(* C04: the interpreter of the extracted thread program, run on the reference
   program, IS the interleaving system of Nonce/Conc.v; so every theorem about
   Conc.run transfers to the program extracted from the source as soon as that
   program equals the reference (Props/C04.v: C04_source_thread_program). *)
From WG Require Import Base.Prelude Gen.Constants Nonce.Seq Nonce.Conc Nonce.ProgSyntax Nonce.Prog Nonce.Proofs Nonce.Clamp.
Local Open Scope N_scope.

Lemma mod_small_M64 x : x < M64 -> x mod M64 = x.
Proof. intros H. apply N.mod_small. exact H. Qed.

Lemma pstep_reference T c a : pstep reference_prog T c a = step T c a.
Proof.
  destruct a as [tid|]; [|reflexivity].
  unfold pstep, step.
  destruct (negb (Nat.ltb tid T)); [reflexivity|].
  destruct (thr c tid) as [k|[|k]|r k|k|]; try reflexivity.
Qed.

Lemma prun_reference T sched : forall c, prun reference_prog T c sched = run T c sched.
Proof.
  induction sched as [|a s IH]; intros c; cbn [prun run]; [reflexivity|].
  rewrite pstep_reference. destruct (step T c a) as [c'|]; apply IH.
Qed.

Theorem prog_emitted_distinct_below_limit (p : tprog) :
  p = reference_prog ->
  forall (T : nat) (n0 : N) (ks : nat -> nat) (sched : list action),
  N.of_nat T < 2 ^ 13 -> n0 <= Reject ->
  let c := prun p T (init n0 ks) sched in
  NoDup (emitted c) /\ Forall (fun r => n0 <= r /\ r < Reject) (emitted c) /\ cell c + 1 < M64.
Proof.
  intros -> T n0 ks sched HT Hn. cbv zeta. rewrite prun_reference.
  destruct (emitted_distinct_below_limit T n0 ks sched HT Hn) as [H1 H2].
  split; [exact H1|]. split; [exact H2|]. exact (cell_never_wraps T n0 ks sched HT Hn).
Qed.

(* the clamp written as "take back my own increment": the search finds the
   schedule of Nonce/Clamp.v by itself *)
Definition decrement_prog : tprog :=
  {| p_top := Some (CGe, RejectAfterMessages); p_add := 1; p_sub := 1;
     p_over := Some (CGe, RejectAfterMessages); p_clamp := Some (OAdd (M64 - 1)); p_extra := [] |}.

Theorem decrement_prog_refuted :
  exists sched, has_dup (emitted (prun decrement_prog 2 (init (Reject - 1) (fun _ => 2%nat)) sched)) = true.
Proof.
  exists [Step 0; Step 0; Step 0; Step 0; Step 0; Expire; Step 0; Step 1; Step 1; Step 1]%nat.
  vm_compute. reflexivity.
Qed.

Example search_finds_decrement : exists r, search decrement_prog 10 = Some r.
Proof. eexists. vm_compute. reflexivity. Qed.

Example search_quiet_on_reference : search reference_prog 8 = None.
Proof. vm_compute. reflexivity. Qed.

(* every sendNonce site outside SendStagedPackets is covered by the model:
   Loads do not change the cell, Store(Reject) is the action Expire *)
Lemma site_ok_store s : site_ok s = true ->
  snd s = OLoad \/ snd s = OStore RejectAfterMessages.
Proof.
  unfold site_ok. destruct (snd s) as [|v|d|]; intros H; try discriminate.
  - left; reflexivity.
  - right. apply N.eqb_eq in H. subst v. reflexivity.
Qed.
