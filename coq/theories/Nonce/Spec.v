(* C04 as executable specifications over OBSERVED behaviour (no reference to
   the numbering loop):

   [seq_check]   one-peer scenario, one step at a time (what the harness did,
                 what the device sent): no (key,counter) twice, all counters
                 below RejectAfterMessages, counters of a key increase, every
                 packet is sent at most once, a packet that could not be sent
                 in the step in which it was submitted goes out later under a
                 key established AFTER its submission (held, not re-numbered
                 under the old key), everything submitted has been sent once a
                 new session is up (not dropped), and an initiation appears
                 when a counter has passed RekeyAfterMessages or packets stay
                 behind (subject to the 5 s spacing) -- whichever side
                 initiated the session the counter belongs to.

   [conc_check]  stress trace: per key the multiset of counters seen on the
                 wire: pairwise distinct and below the limit. *)
From Coq Require Import FMapPositive.
From WG Require Import Base.Prelude Gen.Constants Nonce.Seq.
Local Open Scope N_scope.

(* ------------------------------------------------------------------ helpers *)

Definition memN (x : N) (l : list N) : bool := existsb (N.eqb x) l.

Fixpoint nodupN (l : list N) : bool :=
  match l with [] => true | x :: t => negb (memN x t) && nodupN t end.

Definition kc_eqb (a b : N * N) : bool := (fst a =? fst b) && (snd a =? snd b).
Fixpoint nodupKC (l : list (N * N)) : bool :=
  match l with [] => true | x :: t => negb (existsb (kc_eqb x) t) && nodupKC t end.

Fixpoint lookup (k : N) (l : list (N * N)) : option N :=
  match l with [] => None | (a, b) :: t => if a =? k then Some b else lookup k t end.

(* ------------------------------------------------------------------ sequential scenarios *)

Definition tx_idx (t : N * N * N) : N := fst (fst t).
Definition tx_ctr (t : N * N * N) : N := snd (fst t).
Definition tx_pl (t : N * N * N) : N := snd t.

Record sp := {
  sp_keys : list (N * N);       (* receiver index -> step at which the session was established *)
  sp_sub : list (N * N);        (* packet id -> step at which it was handed to the TUN *)
  sp_tx : list (N * N * N);     (* everything sent so far, latest first *)
  sp_allowed : bool;            (* an initiation may be sent (5 s spacing) *)
  sp_next : option N;           (* index of a session the remote party initiated, not yet confirmed by its data *)
  sp_cur : option N             (* index of the session established last (the one the hook VerifSetSendNonce acts on) *)
}.

Definition sp0 : sp := {| sp_keys := []; sp_sub := []; sp_tx := []; sp_allowed := true; sp_next := None; sp_cur := None |}.

(* steps in which the device runs SendStagedPackets for the peer *)
Definition is_flush (nx : option N) (e : ev) : bool :=
  match e with
  | TunBatch (_ :: _) | TunBatchErr (_ :: _) _ _ | Answer _ | Uapi _ => true
  | RefData => match nx with Some _ => true | None => false end
  | _ => false      (* TunBatchIErr: the bind refuses the initiation, so none can be demanded on the wire *)
  end.

(* last counter sent under idx among tx (latest first) *)
Fixpoint last_ctr (idx : N) (l : list (N * N * N)) : option N :=
  match l with
  | [] => None
  | t :: r => if tx_idx t =? idx then Some (tx_ctr t) else last_ctr idx r
  end.

(* one transmitted message against the state before it; i = current step *)
Definition tx_ok (i : N) (keys subs : list (N * N)) (before : list (N * N * N)) (t : N * N * N) : bool :=
  (tx_ctr t <? Reject) &&
  (match last_ctr (tx_idx t) before with Some c => c <? tx_ctr t | None => true end) &&
  (match lookup (tx_idx t) keys with
   | None => false                                       (* a key nobody negotiated *)
   | Some inst =>
       if tx_pl t =? 0 then true else
       match lookup (tx_pl t) subs with
       | None => false                                   (* a packet nobody submitted *)
       | Some j => (j =? i) || (j <? inst)               (* held => a key established later *)
       end
   end) &&
  negb (negb (tx_pl t =? 0) && existsb (fun u => tx_pl u =? tx_pl t) before).   (* not sent twice *)

Fixpoint txs_ok (i : N) (keys subs : list (N * N)) (before : list (N * N * N)) (l : list (N * N * N)) : bool :=
  match l with
  | [] => true
  | t :: r => tx_ok i keys subs before t && txs_ok i keys subs (t :: before) r
  end.

Definition all_sent (subs : list (N * N)) (sent : list (N * N * N)) : bool :=
  forallb (fun p => existsb (fun u => tx_pl u =? fst p) sent) subs.

Definition sp_step (i : N) (s : sp) (e : ev) (o : out) : sp * bool :=
  (* a session becomes usable for sending when we complete it as initiator (Answer) or, as responder,
     when the remote party's first data message confirms it (RefData) -- for BOTH roles *)
  let fresh := match e with
               | Answer idx => Some idx
               | RefData => sp_next s
               | _ => None
               end in
  let keys := match fresh with Some idx => (idx, i) :: sp_keys s | None => sp_keys s end in
  (* the harness hook rewrites the counter of the current key: whatever was held because that key had run out may
     from now on legitimately go out under it again, so the key counts as (re-)established at this step *)
  let keys := match e, sp_cur s with
              | SetNonce _, Some idx => (idx, i) :: keys
              | _, _ => keys
              end in
  (* packets the bind itself refused (Send error) are excused: they are lost by the network, not by the device *)
  let subs := match e with
              | TunBatch l | TunBatchIErr l => map (fun p => (p, i)) l ++ sp_sub s
              | TunBatchErr l _ lost => map (fun p => (p, i)) (filter (fun p => negb (memN p lost)) l) ++ sp_sub s
              | _ => sp_sub s
              end in
  let ok_tx := txs_ok i keys subs (sp_tx s) (o_tx o) in
  let sent := rev (o_tx o) ++ sp_tx s in
  let ok_complete :=
    match fresh with
    | Some _ => all_sent subs sent    (* the harness only completes genuine handshakes: the new session MUST be taken
                                         into use (installed as current), so whatever was held goes out in this step *)
    | None => true
    end in
  let passed := match e with
                | TunBatchErr _ _ _ => false      (* after a failed Send the sender does not look at the counter *)
                | _ => existsb (fun t => Rekey <? tx_ctr t) (o_tx o)
                end in
  let behind := negb (all_sent subs sent) in
  let ok_rekey :=
    match e with
    | Retransmit => if behind then 1 <=? o_init o else true   (* an unanswered initiation is repeated while packets wait *)
    | _ => if sp_allowed s && is_flush (sp_next s) e && (passed || behind) then 1 <=? o_init o else true
    end in
  let allowed :=
    match e with
    | AllowInit => true
    | RefInit _ => false                  (* our response counts for the 5 s spacing *)
    | TunBatchIErr (_ :: _) =>
        (* a refused attempt counts for the spacing.  Whether one was made cannot be seen on the wire, so the
           weakest trigger is assumed: a counter that has REACHED RekeyAfterMessages (the obligation above only
           speaks about counters that have passed it), or packets left behind *)
        if existsb (fun t => Rekey <=? tx_ctr t) (o_tx o) || behind then false else sp_allowed s
    | _ => if 1 <=? o_init o then false else sp_allowed s
    end in
  let next' :=
    match e with
    | RefInit idx => Some idx
    | Answer _ | RefData => None
    | _ => sp_next s
    end in
  let cur' := match fresh with Some idx => Some idx | None => sp_cur s end in
  ({| sp_keys := keys; sp_sub := subs; sp_tx := sent; sp_allowed := allowed; sp_next := next'; sp_cur := cur' |},
   ok_tx && ok_complete && ok_rekey).

(* first step at which the specification fails *)
Fixpoint seq_check (i : N) (s : sp) (tr : list (ev * out)) : option N :=
  match tr with
  | [] => if nodupKC (map (fun t => (tx_idx t, tx_ctr t)) (sp_tx s)) then None else Some i
  | (e, o) :: r =>
      let '(s', ok) := sp_step i s e o in
      if ok then seq_check (i + 1) s' r else Some i
  end.

Definition seq_holdsb (tr : list (ev * out)) : bool :=
  match seq_check 0 sp0 tr with None => true | Some _ => false end.

(* ------------------------------------------------------------------ stress traces *)

Fixpoint distinct_aux (seen : PositiveMap.t unit) (l : list N) : bool :=
  match l with
  | [] => true
  | x :: t =>
      let p := N.succ_pos x in
      if PositiveMap.mem p seen then false else distinct_aux (PositiveMap.add p tt seen) t
  end.
Definition distinctb (l : list N) : bool := distinct_aux (PositiveMap.empty unit) l.

(* all counters seen under one key, in emission order *)
Record ktrace := { kt_key : N; kt_ctrs : list N }.

Definition kt_ok (k : ktrace) : bool :=
  distinctb (kt_ctrs k) && forallb (fun c => c <? Reject) (kt_ctrs k).

Definition conc_holdsb (ks : list ktrace) : bool :=
  nodupN (map kt_key ks) && forallb kt_ok ks.
