(* C04: interpreter of an extracted thread program (Nonce/ProgSyntax.v) over the
   configurations of Nonce/Conc.v, the reference program (what Conc.step
   hard-wires), and a bounded search for a schedule on which an extracted
   program hands out a counter twice or at/after the limit.  The search is NOT
   a proof of anything: it runs only when the extracted program differs from
   the reference, to find a history for the violation report.
   No proofs in this file. *)
From WG Require Import Base.Prelude Gen.Constants Nonce.Seq Nonce.Conc Nonce.ProgSyntax.
Local Open Scope N_scope.

Definition cmp_eval (o : cmpop) (a b : N) : bool :=
  match o with
  | CGe => b <=? a | CGt => b <? a | CLe => a <=? b | CLt => a <? b
  | CEq => a =? b | CNe => negb (a =? b)
  end.

Definition guard (g : option (cmpop * N)) (x : N) : bool :=
  match g with Some (o, c) => cmp_eval o x c | None => false end.

Definition apply_op (o : aop) (cell : N) : N :=
  match o with
  | OLoad => cell
  | OStore v => v mod M64
  | OAdd d => (cell + d) mod M64
  | OOther => cell
  end.

Definition reference_prog : tprog :=
  {| p_top := Some (CGe, RejectAfterMessages); p_add := 1; p_sub := 1;
     p_over := Some (CGe, RejectAfterMessages); p_clamp := Some (OStore RejectAfterMessages); p_extra := [] |}.

Definition pstep (p : tprog) (T : nat) (c : cfg) (a : action) : option cfg :=
  match a with
  | Expire => Some {| cell := Reject; thr := thr c; emitted := emitted c; held := held c |}
  | Step tid =>
    if negb (Nat.ltb tid T) then None else
    match thr c tid with
    | Top k =>
        Some {| cell := cell c; thr := upd (thr c) tid (if guard (p_top p) (cell c) then Done else Num k);
                emitted := emitted c; held := held c |}
    | Num O => None
    | Num (S k) =>
        let cell1 := (cell c + p_add p) mod M64 in
        Some {| cell := cell1; thr := upd (thr c) tid (Got ((cell1 + M64 - p_sub p mod M64) mod M64) k);
                emitted := emitted c; held := held c |}
    | Got r k =>
        if guard (p_over p) r
        then Some {| cell := cell c; thr := upd (thr c) tid (match p_clamp p with Some _ => Sto k | None => Num k end);
                     emitted := emitted c; held := S (held c) |}
        else Some {| cell := cell c; thr := upd (thr c) tid (Num k); emitted := r :: emitted c; held := held c |}
    | Sto k =>
        Some {| cell := match p_clamp p with Some o => apply_op o (cell c) | None => cell c end;
                thr := upd (thr c) tid (Num k); emitted := emitted c; held := held c |}
    | Done => None
    end
  end.

Fixpoint prun (p : tprog) (T : nat) (c : cfg) (sched : list action) : cfg :=
  match sched with
  | [] => c
  | a :: s => match pstep p T c a with Some c' => prun p T c' s | None => prun p T c s end
  end.

(* every access outside SendStagedPackets is a Load (no effect on the cell) or
   the Store(RejectAfterMessages) that the action [Expire] stands for *)
Definition site_ok (s : site) : bool :=
  match snd s with
  | OLoad => true
  | OStore v => v =? RejectAfterMessages
  | _ => false
  end.

(* ---- bounded search for a failing history (report only) ---- *)
Fixpoint has_dup (l : list N) : bool :=
  match l with [] => false | x :: t => existsb (N.eqb x) t || has_dup t end.

Definition bad_cfg (c : cfg) : bool :=
  has_dup (emitted c) || existsb (fun r => Reject <=? r) (emitted c).

Fixpoint dfs (p : tprog) (T : nat) (acts : list action) (depth : nat) (c : cfg) (pre : list action) : option (list action) :=
  if bad_cfg c then Some (rev pre) else
  match depth with
  | O => None
  | S d =>
      (fix go (l : list action) : option (list action) :=
         match l with
         | [] => None
         | a :: l' =>
             match pstep p T c a with
             | None => go l'
             | Some c' => match dfs p T acts d c' (a :: pre) with Some s => Some s | None => go l' end
             end
         end) acts
  end.

(* two flushers with two elements each, one private-key change at any point,
   counter started next to the limit / at 0 *)
Definition search (p : tprog) (depth : nat) : option (N * list action) :=
  let try n0 := match dfs p 2 [Step 0%nat; Step 1%nat; Expire] depth (init n0 (fun _ => 2%nat)) [] with
                | Some s => Some (n0, s) | None => None end in
  match try (Reject - 1) with Some r => Some r | None =>
  match try (Reject - 2) with Some r => Some r | None => try 0 end end.

(* actions as numbers for the report: Step i -> i, Expire -> 99 *)
Definition act_code (a : action) : N := match a with Step i => N.of_nat i | Expire => 99 end.
