(* C04: why the over-limit clamp must be Store(RejectAfterMessages) and not "take
   back my own increment".  The interleaving system of Nonce/Conc.v with ONE
   change: a thread that obtained a value at or beyond the limit executes
   sendNonce.Add(^uint64(0)) (decrement) instead of Store(Reject).  If
   ExpireCurrentKeypairs' Store(Reject) lands between that thread's Add(1) and its
   decrement, the cell ends at Reject-1: the expired key is usable again and the
   last counter is handed out a second time. *)
From WG Require Import Base.Prelude Gen.Constants Nonce.Seq Nonce.Conc.
Local Open Scope N_scope.

Definition step_dec (T : nat) (c : cfg) (a : action) : option cfg :=
  match a with
  | Step tid =>
      if negb (Nat.ltb tid T) then None else
      match thr c tid with
      | Sto k => Some {| cell := sub1 (cell c); thr := upd (thr c) tid (Num k); emitted := emitted c; held := held c |}
      | _ => step T c a
      end
  | Expire => step T c a
  end.

Fixpoint run_dec (T : nat) (c : cfg) (sched : list action) : cfg :=
  match sched with
  | [] => c
  | a :: s => match step_dec T c a with Some c' => run_dec T c' s | None => run_dec T c s end
  end.

(* two flushers, one private-key change: counter Reject-1 is emitted twice *)
Theorem clamp_by_decrement_refuted :
  exists sched, let c := run_dec 2 (init (Reject - 1) (fun _ => 2%nat)) sched in
    emitted c = [Reject - 1; Reject - 1].
Proof.
  exists [Step 0; Step 0; Step 0;      (* thread 0: top check, Add -> Reject-1, emit *)
          Step 0; Step 0;              (* thread 0: Add -> Reject (cell Reject+1), examine: over the limit *)
          Expire;                      (* ExpireCurrentKeypairs: cell := Reject *)
          Step 0;                      (* thread 0 takes back its increment: cell = Reject-1 *)
          Step 1; Step 1; Step 1]%nat. (* thread 1: top check passes, Add -> Reject-1, emit *)
  vm_compute. reflexivity.
Qed.

(* the same schedule in the system as it is (Store(Reject)): nothing is emitted twice *)
Example clamp_by_store_same_schedule :
  emitted (run 2 (init (Reject - 1) (fun _ => 2%nat))
             [Step 0; Step 0; Step 0; Step 0; Step 0; Expire; Step 0; Step 1; Step 1; Step 1]%nat) = [Reject - 1].
Proof. vm_compute. reflexivity. Qed.
