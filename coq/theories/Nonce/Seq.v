(* C04, sequential half.

   [number] mirrors the numbering loop of device/send.go SendStagedPackets on
   one container:

       for _, elem := range elemsContainer.elems {
           elem.nonce = keypair.sendNonce.Add(1) - 1
           if elem.nonce >= RejectAfterMessages {
               keypair.sendNonce.Store(RejectAfterMessages)
               elemsContainerOOO.elems = append(elemsContainerOOO.elems, elem)   // held
               continue
           }
           elemsContainer.elems[i] = elem; i++; elem.keypair = keypair            // numbered
       }

   on uint64 with explicit wrap-around ([add1], [sub1] are mod 2^64).

   [dstep] is the slice model of the device for this property: one peer, its
   current keypair's (receiver index, send counter, role), the unconfirmed
   "next" keypair of a handshake we answered, the staged queue, and whether the
   5 s spacing of SendHandshakeInitiation allows an initiation.  The role
   (isInitiator) is carried but does not influence anything here: the
   message-count rekey rule of keepKeyFreshSending applies to both roles (only
   its time-based half, not modelled, is initiator-only).
   No proofs in this file. *)
From WG Require Import Base.Prelude Gen.Constants.
Local Open Scope N_scope.

Definition M64 : N := 18446744073709551616.       (* 2^64 *)
Definition Reject : N := RejectAfterMessages.
Definition Rekey : N := RekeyAfterMessages.

Definition add1 (c : N) : N := (c + 1) mod M64.           (* atomic.Uint64.Add(1), new value *)
Definition sub1 (c : N) : N := (c + M64 - 1) mod M64.     (* uint64 x - 1 *)

Section Number.
  Context {A : Type}.

  (* number nonce0 elems = (numbered with their counters, held, nonce') *)
  Fixpoint number (nonce : N) (elems : list A) : list (A * N) * list A * N :=
    match elems with
    | [] => ([], [], nonce)
    | e :: t =>
        let cell1 := add1 nonce in          (* sendNonce.Add(1) *)
        let r := sub1 cell1 in              (* ... - 1 *)
        if Reject <=? r then
          (* sendNonce.Store(RejectAfterMessages); hold e *)
          let '(a, h, n') := number Reject t in (a, e :: h, n')
        else
          let '(a, h, n') := number cell1 t in ((e, r) :: a, h, n')
    end.
End Number.

(* ------------------------------------------------------------------ slice model *)

(* payload of a transport message: 0 = keepalive, id >= 1 = the data packet
   that carries sequence number id *)
Record keyp := { kidx : N; knonce : N; kinit : bool }.   (* remote index, sendNonce, isInitiator *)

Record dst := {
  cur : option keyp;            (* peer.keypairs.current: remote index and sendNonce *)
  nxt : option keyp;            (* peer.keypairs.next: a session we answered, not yet confirmed by data *)
  staged : list (list N);       (* peer.queue.staged: containers of payloads *)
  init_ok : bool;               (* time.Since(lastSentHandshake) >= RekeyTimeout *)
  pending : bool                (* an initiation of ours is unanswered *)
}.

Definition dinit : dst := {| cur := None; nxt := None; staged := []; init_ok := true; pending := false |}.

Inductive ev :=
| SetNonce (v : N)              (* hook VerifSetSendNonce on the current keypair *)
| TunBatch (pkts : list N)      (* one TUN read for this peer: StagePackets; SendStagedPackets *)
| Answer (idx : N)              (* the remote party answers our latest initiation; its index is idx *)
| AllowInit                     (* hook VerifShiftHandshakeTimes: the 5 s spacing has elapsed *)
| Uapi (pka_on : bool)          (* IpcSet on the peer: handlePostConfig (SendKeepalive if pka turned on; SendStagedPackets) *)
| RefInit (idx : N)             (* the remote party initiates (its index is idx); we answer: the new keypair waits in "next" *)
| RefData                       (* a data message under the remote party's latest initiated session: confirms "next" *)
| TunBatchErr (pkts : list N) (k : nat) (lost : list N)
                                (* a TUN batch whose transport Bind.Send fails after k datagrams went out (k = 0: clean
                                   failure); lost = the packets the bind refused (environment fact, used by the
                                   specification only); the error applies only if nothing was staged before *)
| TunBatchIErr (pkts : list N)  (* a TUN batch during which the bind refuses the handshake initiation (if one is attempted) *)
| Retransmit.                   (* the retransmit-handshake timer fires (RekeyTimeout + jitter after an initiation) *)

Record out := { o_tx : list (N * N * N);   (* (receiver index, counter, payload) in sending order *)
                o_init : N }.              (* handshake initiations emitted *)

(* StagePackets: when the channel is full the oldest container is dropped *)
Definition stage (q : list (list N)) (c : list N) : list (list N) :=
  if N.of_nat (length q) <? QueueStagedSize then q ++ [c] else tl q ++ [c].

(* the for/select loop of SendStagedPackets under a usable key:
   returns (sendNonce', staged', transmissions, exhausted) *)
Fixpoint flush_loop (idx nonce : N) (q : list (list N)) : N * list (list N) * list (N * N * N) * bool :=
  match q with
  | [] => (nonce, [], [], false)
  | c :: q' =>
      let '(a, h, n') := number nonce c in
      let tx := map (fun p => (idx, snd p, fst p)) a in
      match h with
      | [] => let '(n2, q2, tx2, ex) := flush_loop idx n' q' in (n2, q2, tx ++ tx2, ex)
      | _ :: _ => (n', stage q' h, tx, true)      (* re-staged at the END of the queue; goto top *)
      end
  end.

(* SendHandshakeInitiation(false) *)
Definition initiate (s : dst) (tx : list (N * N * N)) : dst * out :=
  if init_ok s
  then ({| cur := cur s; nxt := nxt s; staged := staged s; init_ok := false; pending := true |}, {| o_tx := tx; o_init := 1 |})
  else (s, {| o_tx := tx; o_init := 0 |}).

Definition nonempty {A} (l : list A) : bool := match l with [] => false | _ => true end.

(* SendStagedPackets, followed (at quiescence) by the keepKeyFreshSending of
   the sequential sender after the last container it sent *)
(* fail = Some k: the (single) transport Bind.Send of this flush returns an error after k datagrams; the
   sequential sender then skips keepKeyFreshSending; the counters stay consumed, nothing is re-emitted *)
Definition flush_gen (fail : option nat) (s : dst) : dst * out :=
  match staged s with
  | [] => (s, {| o_tx := []; o_init := 0 |})
  | _ :: _ =>
      match cur s with
      | None => initiate s []
      | Some k =>
          if Reject <=? knonce k then initiate s []
          else
            let '(n', q', tx, ex) := flush_loop (kidx k) (knonce k) (staged s) in
            let s1 := {| cur := Some {| kidx := kidx k; knonce := n'; kinit := kinit k |}; nxt := nxt s; staged := q';
                         init_ok := init_ok s; pending := pending s |} in
            let sent := match fail with Some k => firstn k tx | None => tx end in
            let ok := match fail with Some _ => false | None => true end in
            if ex || (ok && nonempty tx && (Rekey <? n')) then initiate s1 sent
            else (s1, {| o_tx := sent; o_init := 0 |})
      end
  end.

Definition flush (s : dst) : dst * out := flush_gen None s.

(* SendKeepalive's first half *)
Definition stage_keepalive (s : dst) : dst :=
  match staged s with
  | [] => {| cur := cur s; nxt := nxt s; staged := [[0]]; init_ok := init_ok s; pending := pending s |}
  | _ => s
  end.

Definition dstep (s : dst) (e : ev) : dst * out :=
  match e with
  | SetNonce v =>
      (match cur s with
       | Some k => {| cur := Some {| kidx := kidx k; knonce := v; kinit := kinit k |}; nxt := nxt s; staged := staged s;
                      init_ok := init_ok s; pending := pending s |}
       | None => s
       end, {| o_tx := []; o_init := 0 |})
  | TunBatch pkts =>
      match pkts with
      | [] => (s, {| o_tx := []; o_init := 0 |})
      | _ => flush {| cur := cur s; nxt := nxt s; staged := stage (staged s) pkts; init_ok := init_ok s; pending := pending s |}
      end
  | Answer idx =>
      if pending s then
        (* BeginSymmetricSession: a fresh current keypair; SendKeepalive *)
        flush (stage_keepalive {| cur := Some {| kidx := idx; knonce := 0; kinit := true |}; nxt := None; staged := staged s;
                                  init_ok := init_ok s; pending := false |})
      else (s, {| o_tx := []; o_init := 0 |})
  | AllowInit =>
      ({| cur := cur s; nxt := nxt s; staged := staged s; init_ok := true; pending := pending s |}, {| o_tx := []; o_init := 0 |})
  | Uapi pka_on => flush (if pka_on then stage_keepalive s else s)
  | RefInit idx =>
      (* ConsumeMessageInitiation; SendHandshakeResponse (lastSentHandshake = now); BeginSymmetricSession as
         responder: the keypair goes to "next"; our own unanswered initiation, if any, is forgotten *)
      ({| cur := cur s; nxt := Some {| kidx := idx; knonce := 0; kinit := false |}; staged := staged s;
          init_ok := false; pending := false |}, {| o_tx := []; o_init := 0 |})
  | RefData =>
      (* RoutineSequentialReceiver: ReceivedWithKeypair promotes next to current; SendStagedPackets *)
      match nxt s with
      | Some k => flush {| cur := Some k; nxt := None; staged := staged s; init_ok := init_ok s; pending := pending s |}
      | None => (s, {| o_tx := []; o_init := 0 |})
      end
  | TunBatchErr pkts k _ =>
      match pkts, staged s with
      | _ :: _, [] => flush_gen (Some k) {| cur := cur s; nxt := nxt s; staged := stage (staged s) pkts;
                                            init_ok := init_ok s; pending := pending s |}
      | [], _ => (s, {| o_tx := []; o_init := 0 |})
      | _ :: _, _ :: _ => flush {| cur := cur s; nxt := nxt s; staged := stage (staged s) pkts;
                                   init_ok := init_ok s; pending := pending s |}
      end
  | TunBatchIErr pkts =>
      (* the attempt counts (lastSentHandshake, handshake state, retransmit timer); nothing reaches the wire *)
      match pkts with
      | [] => (s, {| o_tx := []; o_init := 0 |})
      | _ => let '(s', o) := flush {| cur := cur s; nxt := nxt s; staged := stage (staged s) pkts;
                                      init_ok := init_ok s; pending := pending s |} in
             (s', {| o_tx := o_tx o; o_init := 0 |})
      end
  | Retransmit =>
      (* expiredRetransmitHandshake -> SendHandshakeInitiation(true): RekeyTimeout has passed by construction *)
      if pending s
      then ({| cur := cur s; nxt := nxt s; staged := staged s; init_ok := false; pending := true |},
            {| o_tx := []; o_init := 1 |})
      else (s, {| o_tx := []; o_init := 0 |})
  end.
