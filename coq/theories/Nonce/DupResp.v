(* C04 / finding: a handshake response delivered more than once and processed by
   several handshake workers at the same time.

   Interleaving model of device/noise-protocol.go ConsumeMessageResponse followed
   by BeginSymmetricSession (receive.go RoutineHandshake), for n workers that each
   hold a copy of the SAME valid response to our one pending initiation.  Atomic
   steps of a worker:

     Check   under handshake.mutex.RLock: state == handshakeInitiationCreated ?
             (then compute hash/chain key from the message: a function of the
             message only, the same value ck for every copy)
     Store   under handshake.mutex.Lock: [repaired version only: look at the state
             again and give up unless it still is InitiationCreated]
             chainKey := ck; state := ResponseConsumed
     Begin   BeginSymmetricSession: if state == ResponseConsumed, derive the
             transport keys from chainKey, install a NEW keypair with sendNonce 0
             as current, zero the handshake (state := Zeroed); otherwise fail

   A session is recorded as (send key, sendNonce); the send key is a function of
   the chain key, so equal chain keys mean equal AEAD keys.  [fixed = false] is
   the code as it stands, [fixed = true] the code with the state re-checked under
   the write lock. *)
From WG Require Import Base.Prelude.
Local Open Scope N_scope.

Inductive hstate := Created | Consumed | Zeroed.
Inductive wpc := WCheck | WStore | WBegin | WDone.

Record dcfg := {
  hs : hstate;
  chain : option N;                (* handshake.chainKey *)
  sessions : list (N * N);         (* keypairs installed so far: (send key, sendNonce) *)
  pcs : nat -> wpc
}.

Definition updp (f : nat -> wpc) (i : nat) (v : wpc) : nat -> wpc := fun j => if Nat.eqb j i then v else f j.

Definition is_created (h : hstate) : bool := match h with Created => true | _ => false end.
Definition is_consumed (h : hstate) : bool := match h with Consumed => true | _ => false end.

Section Dup.
  Variable fixed : bool.
  Variable ck : N.                 (* the chain key every copy of the response yields *)
  Variable kdf : N -> N.           (* chain key -> send key *)

  Definition dstep2 (c : dcfg) (w : nat) : dcfg :=
    match pcs c w with
    | WCheck =>
        {| hs := hs c; chain := chain c; sessions := sessions c;
           pcs := updp (pcs c) w (if is_created (hs c) then WStore else WDone) |}
    | WStore =>
        if fixed && negb (is_created (hs c)) then
          {| hs := hs c; chain := chain c; sessions := sessions c; pcs := updp (pcs c) w WDone |}
        else
          {| hs := Consumed; chain := Some ck; sessions := sessions c; pcs := updp (pcs c) w WBegin |}
    | WBegin =>
        match chain c with
        | Some x =>
            if is_consumed (hs c) then
              {| hs := Zeroed; chain := None; sessions := (kdf x, 0) :: sessions c; pcs := updp (pcs c) w WDone |}
            else {| hs := hs c; chain := chain c; sessions := sessions c; pcs := updp (pcs c) w WDone |}
        | None => {| hs := hs c; chain := chain c; sessions := sessions c; pcs := updp (pcs c) w WDone |}
        end
    | WDone => c
    end.

  Fixpoint drun (c : dcfg) (sched : list nat) : dcfg :=
    match sched with [] => c | w :: r => drun (dstep2 c w) r end.

  Definition dinit2 : dcfg := {| hs := Created; chain := None; sessions := []; pcs := fun _ => WCheck |}.
End Dup.

(* The code as it stands: two workers, both pass the check before either stores;
   the first derives the session and zeroes the handshake, the second stores the
   same chain key again and derives the SAME send key in a fresh keypair with
   counter 0 -- two transport messages with equal (key, counter) follow. *)
Theorem duplicate_response_nonce_reuse_refuted : forall ck kdf,
  exists sched, sessions (drun false ck kdf dinit2 sched) = [(kdf ck, 0); (kdf ck, 0)].
Proof. intros ck kdf. exists [0; 1; 0; 0; 1; 1]%nat. reflexivity. Qed.

(* The repaired code: for every schedule and any number of copies/workers at
   most one session is ever derived from the response. *)
Definition DInv (c : dcfg) : Prop :=
  match hs c with
  | Created | Consumed => sessions c = []
  | Zeroed => (length (sessions c) <= 1)%nat
  end.

Lemma dstep2_inv ck kdf c w : DInv c -> DInv (dstep2 true ck kdf c w).
Proof.
  unfold DInv, dstep2. intros H. destruct (pcs c w); cbn [hs sessions]; try exact H.
  - destruct (hs c) eqn:E; cbn [andb negb is_created hs sessions]; auto.
  - destruct (chain c); [|exact H]. destruct (hs c) eqn:E; cbn [is_consumed hs sessions].
    + exact H.
    + rewrite H. cbn [length]. apply le_n.
    + exact H.
Qed.

Theorem duplicate_response_at_most_one_session : forall ck kdf sched,
  (length (sessions (drun true ck kdf dinit2 sched)) <= 1)%nat.
Proof.
  intros ck kdf sched.
  assert (H : forall c, DInv c -> DInv (drun true ck kdf c sched)).
  { induction sched as [|w r IH]; intros c Hc; cbn [drun]; [exact Hc|]. apply IH. apply dstep2_inv. exact Hc. }
  specialize (H dinit2 eq_refl). unfold DInv in H.
  destruct (hs (drun true ck kdf dinit2 sched)); try (rewrite H; cbn; lia); exact H.
Qed.
