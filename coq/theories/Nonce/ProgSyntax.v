(* C04: syntax of the thread program that the translator harness/cmd/nonceprog
   extracts from the SOURCE of device/send.go (SendStagedPackets) and of every
   other access to Keypair.sendNonce in package device.  Only types here; the
   generated file Gen/NonceProg.v instantiates them, Nonce/Prog.v interprets
   them.  No proofs in this file. *)
From Coq Require Export NArith String List.
Export ListNotations.

Inductive cmpop := CGe | CGt | CLe | CLt | CEq | CNe.

(* one atomic operation on the 64-bit cell; OOther = something the translator
   could not render (a non-constant argument, CompareAndSwap, the address taken) *)
Inductive aop := OLoad | OStore (v : N) | OAdd (d : N) | OOther.

Record tprog := {
  p_top   : option (cmpop * N);   (* `sendNonce.Load() OP C` in the guard in front of the loop: return when true *)
  p_add   : N;                    (* r := sendNonce.Add(p_add) - p_sub *)
  p_sub   : N;
  p_over  : option (cmpop * N);   (* `if r OP C {` : the element is held *)
  p_clamp : option aop;           (* the operation on sendNonce inside that branch *)
  p_extra : list aop              (* any further operation on sendNonce in the function: must be none *)
}.

(* an access to sendNonce outside SendStagedPackets: (enclosing function, operation) *)
Definition site := (string * aop)%type.
