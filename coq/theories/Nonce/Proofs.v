(* C04: proofs about Nonce.Seq (sequential numbering, slice model) and
   Nonce.Conc (all interleavings). *)
From Coq Require Import Permutation.
From WG Require Import Base.Prelude Gen.Constants Nonce.Seq Nonce.Conc.
Local Open Scope N_scope.

Ltac consts := unfold M64, Reject, Rekey, RejectAfterMessages, RekeyAfterMessages in *.

(* ------------------------------------------------------------------ uint64 facts *)

Lemma add1_small c : c + 1 < M64 -> add1 c = c + 1.
Proof. intros H. unfold add1. apply N.mod_small. exact H. Qed.

Lemma sub1_add1 c : c < M64 -> sub1 (add1 c) = c.
Proof. unfold sub1, add1. consts. intros H. lia. Qed.

Lemma add1_lt c : add1 c < M64.
Proof. unfold add1. apply N.mod_lt. consts. lia. Qed.

Lemma Reject_lt_M64 : Reject + 2 ^ 13 + 1 = M64.
Proof. reflexivity. Qed.

(* ------------------------------------------------------------------ number *)

Fixpoint nseq (n : N) (len : nat) : list N :=
  match len with O => [] | S k => n :: nseq (n + 1) k end.

Lemma number_ge {A} (elems : list A) n :
  Reject <= n -> n < M64 ->
  number n elems = ([], elems, match elems with [] => n | _ => Reject end).
Proof.
  revert n. induction elems as [|e t IH]; intros n Hge Hlt; cbn [number]; [reflexivity|].
  rewrite sub1_add1 by exact Hlt.
  destruct (N.leb_spec Reject n) as [_|C]; [|lia].
  rewrite (IH Reject) by (consts; lia).
  destruct t; reflexivity.
Qed.

Lemma number_lt {A} (e : A) t n :
  n < Reject ->
  number n (e :: t) = let '(a, h, n') := number (n + 1) t in ((e, n) :: a, h, n').
Proof.
  intros Hlt. cbn [number].
  assert (Hm : n < M64) by (consts; lia).
  rewrite sub1_add1 by exact Hm.
  destruct (N.leb_spec Reject n) as [C|_]; [lia|].
  rewrite add1_small by (consts; lia). reflexivity.
Qed.

(* Everything the loop says about one container. *)
Theorem number_spec {A} (elems : list A) : forall n a h n',
  n < M64 -> number n elems = (a, h, n') ->
  map fst a ++ h = elems /\
  map snd a = nseq n (length a) /\
  Forall (fun c => n <= c /\ c < n' /\ c < Reject) (map snd a) /\
  (h <> [] -> n' = Reject) /\
  (h = [] -> n' = n + N.of_nat (length elems)) /\
  (n <= Reject -> n' <= Reject) /\ n <= N.max n n' /\ n' < M64.
Proof.
  induction elems as [|e t IH]; intros n a h n' Hm H.
  - cbn [number] in H. inversion H; subst. cbn. repeat split; try constructor; try congruence; try lia.
  - destruct (N.ltb_spec n Reject) as [Hlt|Hge].
    + rewrite number_lt in H by exact Hlt.
      destruct (number (n + 1) t) as [[a1 h1] n1] eqn:E. inversion H; subst; clear H.
      assert (Hm1 : n + 1 < M64) by (consts; lia).
      destruct (IH _ _ _ _ Hm1 E) as (H1 & H2 & H3 & H4 & H5 & H6 & H7 & H8).
      cbn [map fst snd app length nseq].
      assert (Hn1 : n + 1 <= n').
      { destruct h as [|x h'].
        - specialize (H5 eq_refl). lia.
        - assert (n' = Reject) by (apply H4; discriminate). lia. }
      refine (conj _ (conj _ (conj _ (conj _ (conj _ (conj _ (conj _ _))))))); try assumption; try lia.
      all: try (f_equal; assumption).
      all: try (constructor; [lia|]; eapply Forall_impl; [|exact H3]; cbn beta; intros c Hc; lia).
      all: try (intros Hh; rewrite (H5 Hh); cbn [length]; lia).
    + rewrite number_ge in H by assumption. inversion H; subst; clear H.
      cbn [map app length nseq]. consts.
      repeat split; try constructor; try congruence; try lia.
Qed.

(* The held packets are exactly the rest of the container, in order; the
   numbered ones are a prefix; nothing is dropped and held elements get no
   counter (they are plain elements of type A in the result). *)
Theorem held_not_dropped {A} (elems : list A) n a h n' :
  n < M64 -> number n elems = (a, h, n') ->
  map fst a ++ h = elems /\ Forall (fun c => c < Reject) (map snd a) /\ NoDup (map snd a).
Proof.
  intros Hm H. destruct (number_spec elems n a h n' Hm H) as (H1 & H2 & H3 & _).
  split; [exact H1|]. split.
  - eapply Forall_impl; [|exact H3]. cbn beta. tauto.
  - rewrite H2. clear. generalize (length a) as k. intros k. revert n.
    induction k as [|k IH]; intros n; cbn [nseq]; constructor; [|apply IH].
    assert (G : forall k m, In n (nseq m k) -> m <= n).
    { clear. induction k as [|k IH]; intros m; cbn [nseq In]; [tauto|].
      intros [->|Hin]; [lia|]. apply IH in Hin. lia. }
    intros Hin. apply G in Hin. lia.
Qed.

(* ------------------------------------------------------------------ slice model *)

Definition ctr (t : N * N * N) : N := snd (fst t).
Definition kix (t : N * N * N) : N := fst (fst t).

Lemma flush_loop_counters idx : forall q n n' q' tx ex,
  n <= Reject -> flush_loop idx n q = (n', q', tx, ex) ->
  n <= n' /\ n' <= Reject /\
  Forall (fun t => kix t = idx /\ n <= ctr t /\ ctr t < n' /\ ctr t < Reject) tx /\
  (ex = true -> n' = Reject).
Proof.
  induction q as [|c q IH]; intros n n' q' tx ex Hn H; cbn [flush_loop] in H.
  - inversion H; subst. repeat split; try constructor; try lia. all: try discriminate.
  - destruct (number n c) as [[a h] n1] eqn:E.
    assert (Hm : n < M64) by (consts; lia).
    destruct (number_spec c n a h n1 Hm E) as (H1 & H2 & H3 & H4 & H5 & H6 & _ & _).
    specialize (H6 Hn).
    assert (Hnn1 : n <= n1).
    { destruct h as [|x h']; [rewrite (H5 eq_refl); lia|]. rewrite H4 by discriminate. exact Hn. }
    assert (Htx : Forall (fun t => kix t = idx /\ n <= ctr t /\ ctr t < n1 /\ ctr t < Reject)
                         (map (fun p : N * N => (idx, snd p, fst p)) a)).
    { rewrite Forall_map in H3. rewrite Forall_map. eapply Forall_impl; [|exact H3].
      intros [x y]. unfold kix, ctr. cbn [fst snd]. tauto. }
    destruct h as [|x h'].
    + destruct (flush_loop idx n1 q) as [[[n2 q2] tx2] ex2] eqn:E2. inversion H; subst; clear H.
      destruct (IH _ _ _ _ _ H6 E2) as (G1 & G2 & G3 & G4).
      repeat split; try lia; try assumption.
      apply Forall_app. split.
      * eapply Forall_impl; [|exact Htx]. cbn beta. intros t Ht. lia.
      * eapply Forall_impl; [|exact G3]. cbn beta. intros t Ht. lia.
    + inversion H; subst; clear H.
      assert (n' = Reject) by (apply H4; discriminate).
      repeat split; try lia; try assumption.
Qed.

(* A key whose counters have run out is not used again: a TUN batch makes the
   device start a handshake (if the 5 s spacing allows) and the packets stay
   staged -- nothing is transmitted, nothing is re-numbered. *)
Theorem exhausted_key_rekeys s k pkts :
  cur s = Some k -> Reject <= knonce k -> pkts <> [] ->
  let '(s', o) := dstep s (TunBatch pkts) in
  o_tx o = [] /\ o_init o = (if init_ok s then 1 else 0) /\
  staged s' = stage (staged s) pkts /\ cur s' = cur s.
Proof.
  intros Hc Hk Hp. cbn [dstep]. destruct pkts as [|p pkts]; [congruence|].
  unfold flush, flush_gen. cbn [staged cur init_ok pending].
  assert (Hst : exists c q, stage (staged s) (p :: pkts) = c :: q).
  { unfold stage. destruct (N.of_nat (length (staged s)) <? QueueStagedSize).
    - destruct (staged s); cbn; eauto.
    - destruct (tl (staged s)); cbn; eauto. }
  destruct Hst as (c & q & Est). rewrite Est, Hc.
  destruct (N.leb_spec Reject (knonce k)) as [_|C]; [|lia].
  unfold initiate. cbn [init_ok]. destruct (init_ok s); cbn [o_tx o_init staged cur];
    rewrite <- Est; auto.
Qed.

(* The same with no key at all. *)
Theorem no_key_stages_and_initiates s pkts :
  cur s = None -> pkts <> [] ->
  let '(s', o) := dstep s (TunBatch pkts) in
  o_tx o = [] /\ o_init o = (if init_ok s then 1 else 0) /\ staged s' = stage (staged s) pkts.
Proof.
  intros Hc Hp. cbn [dstep]. destruct pkts as [|p pkts]; [congruence|].
  unfold flush, flush_gen. cbn [staged cur init_ok pending].
  assert (Hst : exists c q, stage (staged s) (p :: pkts) = c :: q).
  { unfold stage. destruct (N.of_nat (length (staged s)) <? QueueStagedSize).
    - destruct (staged s); cbn; eauto.
    - destruct (tl (staged s)); cbn; eauto. }
  destruct Hst as (c & q & Est). rewrite Est, Hc.
  unfold initiate. cbn [init_ok]. destruct (init_ok s); cbn [o_tx o_init staged cur];
    rewrite <- Est; auto.
Qed.

(* Once a transmitted counter has reached RekeyAfterMessages = 2^60 (so that
   sendNonce > 2^60 afterwards) the device starts a new handshake -- exactly
   one initiation, and none if the last one was sent less than 5 s ago. *)
Theorem rekey_after_2_60 s k pkts :
  cur s = Some k -> knonce k < Reject -> pkts <> [] ->
  let '(s', o) := dstep s (TunBatch pkts) in
  (exists t, In t (o_tx o) /\ Rekey <= ctr t) ->
  o_init o = (if init_ok s then 1 else 0) /\
  Forall (fun t => kix t = kidx k /\ knonce k <= ctr t /\ ctr t < Reject) (o_tx o).
Proof.
  intros Hc Hk Hp. cbn [dstep]. destruct pkts as [|p pkts]; [congruence|].
  unfold flush, flush_gen. cbn [staged cur init_ok pending].
  destruct (stage (staged s) (p :: pkts)) as [|c q] eqn:Est.
  { cbn [o_tx]. intros (t & [] & _). }
  rewrite Hc. destruct (N.leb_spec Reject (knonce k)) as [C|_]; [lia|].
  destruct (flush_loop (kidx k) (knonce k) (c :: q)) as [[[n' q'] tx] ex] eqn:E.
  assert (Hle : knonce k <= Reject) by lia.
  destruct (flush_loop_counters _ _ _ _ _ _ _ Hle E) as (G1 & G2 & G3 & G4).
  assert (Hall : Forall (fun t => kix t = kidx k /\ knonce k <= ctr t /\ ctr t < Reject) tx).
  { eapply Forall_impl; [|exact G3]. cbn beta. tauto. }
  cbn [andb]. destruct (ex || (nonempty tx && (Rekey <? n'))) eqn:Ew.
  - unfold initiate. cbn [init_ok]. destruct (init_ok s); cbn [o_tx o_init]; intros _; auto.
  - cbn [o_tx o_init]. intros (t & Hin & Hr). exfalso.
    apply orb_false_iff in Ew as [_ Ew].
    rewrite Forall_forall in G3. specialize (G3 t Hin).
    assert (nonempty tx = true) by (destruct tx; [destruct Hin|reflexivity]).
    rewrite H in Ew. cbn [andb] in Ew. apply N.ltb_ge in Ew. lia.
Qed.

(* ------------------------------------------------------------------ all schedules *)

(* pending = values below the limit handed to a thread and not yet emitted;
   over = threads that obtained a value at or beyond the limit and have not
   yet stored Reject back. *)
Definition pend1 (s : tstate) : list N :=
  match s with Got r _ => if Reject <=? r then [] else [r] | _ => [] end.
Definition over1 (s : tstate) : list unit :=
  match s with Got r _ => if Reject <=? r then [tt] else [] | Sto _ => [tt] | _ => [] end.
Definition pendingl (T : nat) (f : nat -> tstate) := flat_map (fun i => pend1 (f i)) (seq 0 T).
Definition over (T : nat) (f : nat -> tstate) := length (flat_map (fun i => over1 (f i)) (seq 0 T)).

Lemma flat_map_ext_in' {A B} (g h : A -> list B) l :
  (forall x, In x l -> g x = h x) -> flat_map g l = flat_map h l.
Proof.
  induction l as [|a l IH]; cbn; auto. intros H. rewrite (H a) by auto. f_equal. apply IH. auto.
Qed.

Lemma split_at {A} (g h : nat -> list A) T tid :
  (tid < T)%nat -> (forall j, j <> tid -> g j = h j) ->
  exists X Y, flat_map g (seq 0 T) = X ++ g tid ++ Y /\ flat_map h (seq 0 T) = X ++ h tid ++ Y.
Proof.
  intros Ht Hext.
  replace T with (tid + (1 + (T - tid - 1)))%nat by lia.
  rewrite !seq_app, !flat_map_app. cbn [seq flat_map]. rewrite !app_nil_r.
  exists (flat_map g (seq 0 tid)), (flat_map g (seq (0 + tid + 1) (T - tid - 1))).
  split; [reflexivity|]. f_equal; [|f_equal].
  - apply flat_map_ext_in'. intros x Hx. apply in_seq in Hx. symmetry. apply Hext. lia.
  - apply flat_map_ext_in'. intros x Hx. apply in_seq in Hx. symmetry. apply Hext. lia.
Qed.

(* The invariant.  The first clause is where the 2^13 slack is used: the cell
   exceeds Reject by at most the number of threads that are between their Add
   and their Store(Reject), so with fewer than 2^13 threads the Add never
   wraps around 2^64. *)
Definition Inv (T : nat) (n0 : N) (c : cfg) : Prop :=
  (n0 <= cell c /\ cell c <= Reject + N.of_nat (over T (thr c))) /\
  NoDup (emitted c ++ pendingl T (thr c)) /\
  (forall r, In r (emitted c ++ pendingl T (thr c)) -> n0 <= r /\ r < cell c /\ r < Reject).

Lemma over_le T f : (over T f <= T)%nat.
Proof.
  unfold over. rewrite flat_map_concat_map.
  assert (H: forall l, (length (concat (map (fun i => over1 (f i)) l)) <= length l)%nat).
  { induction l as [|a l IH]; cbn [map concat length]; auto. rewrite app_length.
    assert (length (over1 (f a)) <= 1)%nat.
    { unfold over1. destruct (f a) as [?|?|r ?|?|]; [| |destruct (Reject <=? r)| |]; cbn [length]; lia. }
    lia. }
  specialize (H (seq 0 T)). now rewrite seq_length in H.
Qed.

Lemma upd_other f i s j : j <> i -> upd f i s j = f j.
Proof. intros H. unfold upd. destruct (Nat.eqb_spec j i); congruence. Qed.
Lemma upd_same f i s : upd f i s i = s.
Proof. unfold upd. now rewrite Nat.eqb_refl. Qed.

Ltac inv3 := refine (conj _ (conj _ _)).

Theorem step_inv T n0 c a c' :
  N.of_nat T < 2 ^ 13 -> n0 <= Reject -> Inv T n0 c -> step T c a = Some c' -> Inv T n0 c'.
Proof.
  intros HT Hn0 ((Hlo & Hcell) & Hnd & Hlt) Hs.
  pose proof (over_le T (thr c)) as Hov.
  destruct a as [tid|]; cbn [step] in Hs.
  2:{ inversion Hs; subst; clear Hs. unfold Inv. cbn [cell thr emitted]. inv3; auto; try lia.
      intros r Hr. apply Hlt in Hr. lia. }
  destruct (Nat.ltb_spec tid T) as [Ht|]; cbn [negb] in Hs; [|discriminate].
  assert (Hsp: forall s', exists X Y X' Y',
     pendingl T (thr c) = X ++ pend1 (thr c tid) ++ Y /\
     pendingl T (upd (thr c) tid s') = X ++ pend1 s' ++ Y /\
     flat_map (fun i => over1 (thr c i)) (seq 0 T) = X' ++ over1 (thr c tid) ++ Y' /\
     flat_map (fun i => over1 (upd (thr c) tid s' i)) (seq 0 T) = X' ++ over1 s' ++ Y').
  { intros s'.
    destruct (split_at (fun i => pend1 (thr c i)) (fun i => pend1 (upd (thr c) tid s' i)) T tid Ht) as (X & Y & E1 & E2).
    { intros j Hj. now rewrite upd_other. }
    destruct (split_at (fun i => over1 (thr c i)) (fun i => over1 (upd (thr c) tid s' i)) T tid Ht) as (X' & Y' & E3 & E4).
    { intros j Hj. now rewrite upd_other. }
    rewrite upd_same in E2, E4. exists X, Y, X', Y'. auto. }
  unfold Inv, over, pendingl in *.
  destruct (thr c tid) as [k|[|k]|r k|k|] eqn:Et; try discriminate.
  - (* Top: a Load, the thread becomes Num or Done; nothing else changes *)
    inversion Hs; subst; clear Hs. cbn [cell thr emitted].
    destruct (Hsp (if Reject <=? cell c then Done else Num k)) as (X & Y & X' & Y' & E1 & E2 & E3 & E4).
    unfold pendingl in E1, E2. rewrite E3 in Hcell. rewrite E4, E2. rewrite E1 in Hnd, Hlt.
    assert (Ep : pend1 (if Reject <=? cell c then Done else Num k) = []) by (destruct (Reject <=? cell c); reflexivity).
    assert (Eo : over1 (if Reject <=? cell c then Done else Num k) = []) by (destruct (Reject <=? cell c); reflexivity).
    rewrite Ep, Eo. cbn [pend1 over1 app] in *. inv3; auto.
  - (* Add *)
    inversion Hs; subst; clear Hs. cbn [cell thr emitted].
    assert (Hsmall: cell c + 1 < M64) by (consts; lia).
    assert (Hcm : cell c < M64) by lia.
    rewrite (sub1_add1 _ Hcm), (add1_small _ Hsmall).
    destruct (Hsp (Got (cell c) k)) as (X & Y & X' & Y' & E1 & E2 & E3 & E4).
    unfold pendingl in E1, E2. rewrite E3 in Hcell, Hov. rewrite E4, E2. rewrite E1 in Hnd, Hlt.
    cbn [pend1 over1 app] in *. rewrite !app_length in *. cbn [length] in *.
    destruct (N.leb_spec Reject (cell c)) as [Hge|Hlt']; cbn [app length].
    + inv3; auto; [lia|]. intros r Hr. apply Hlt in Hr. lia.
    + assert (Hfresh: ~ In (cell c) (emitted c ++ X ++ Y)).
      { intros Hin. apply Hlt in Hin. lia. }
      inv3.
      * lia.
      * rewrite app_assoc. apply NoDup_Add with (a := cell c) (l := (emitted c ++ X) ++ Y).
        -- apply Add_app.
        -- split; now rewrite <- app_assoc.
      * intros r Hr.
        assert (In r (emitted c ++ X ++ Y) \/ r = cell c).
        { rewrite !in_app_iff in *. cbn [In] in Hr. intuition. }
        destruct H as [H| ->]; [apply Hlt in H|]; lia.
  - revert Hs. destruct (Reject <=? r) eqn:Eb; intros Hs.
    + (* examine: at or beyond the limit, hold *)
      inversion Hs; subst; clear Hs. cbn [cell thr emitted].
      destruct (Hsp (Sto k)) as (X & Y & X' & Y' & E1 & E2 & E3 & E4).
      unfold pendingl in E1, E2. rewrite E3 in Hcell. rewrite E4, E2. rewrite E1 in Hnd, Hlt.
      cbn [pend1 over1] in *. rewrite Eb in *.
      cbn [app] in *. rewrite !app_length in *. cbn [length] in *.
      inv3; auto.
    + (* examine: below the limit, emit *)
      inversion Hs; subst; clear Hs. cbn [cell thr emitted].
      destruct (Hsp (Num k)) as (X & Y & X' & Y' & E1 & E2 & E3 & E4).
      unfold pendingl in E1, E2. rewrite E3 in Hcell. rewrite E4, E2. rewrite E1 in Hnd, Hlt.
      cbn [pend1 over1] in *. rewrite Eb in *.
      cbn [app] in *. rewrite !app_length in *. cbn [length] in *.
      assert (Hperm: Permutation (emitted c ++ X ++ r :: Y) (r :: emitted c ++ X ++ Y)).
      { rewrite app_assoc. rewrite (app_assoc (emitted c) X Y). symmetry. apply Permutation_middle. }
      inv3; auto.
      * eapply Permutation_NoDup; eauto.
      * intros r' Hr'. apply Hlt. eapply Permutation_in; [symmetry; exact Hperm|exact Hr'].
  - (* Store(Reject) *)
    inversion Hs; subst; clear Hs. cbn [cell thr emitted].
    destruct (Hsp (Num k)) as (X & Y & X' & Y' & E1 & E2 & E3 & E4).
    unfold pendingl in E1, E2. rewrite E4, E2. rewrite E1 in Hnd, Hlt.
    cbn [pend1 over1 app] in *.
    inv3; auto; [lia|]. intros r Hr. apply Hlt in Hr. lia.
Qed.

Lemma NoDup_app_l {A} (l l' : list A) : NoDup (l ++ l') -> NoDup l.
Proof.
  induction l as [|a l IH]; cbn; intros H; [constructor|].
  inversion H; subst. constructor; auto. intro Hin. apply H2. apply in_or_app. auto.
Qed.

Lemma run_inv T n0 sched : N.of_nat T < 2 ^ 13 -> n0 <= Reject ->
  forall c, Inv T n0 c -> Inv T n0 (run T c sched).
Proof.
  intros HT Hn0. induction sched as [|a s IH]; intros c Hc; cbn [run]; auto.
  destruct (step T c a) eqn:E; auto. apply IH. eapply step_inv; eauto.
Qed.

Lemma init_inv T n0 ks : n0 <= Reject -> Inv T n0 (init n0 ks).
Proof.
  intros Hn0. unfold Inv, init, over, pendingl. cbn [cell thr emitted].
  assert (E1 : forall l, flat_map (fun i => pend1 (Top (ks i))) l = []).
  { induction l; cbn; auto. }
  assert (E2 : forall l, flat_map (fun i => over1 (Top (ks i))) l = []).
  { induction l; cbn; auto. }
  rewrite E1, E2. cbn [app length]. inv3; [lia|constructor|intros r []].
Qed.

(* For every number of flusher threads below 2^13, every starting value of the
   counter up to the limit, every distribution of elements over the threads and
   EVERY schedule (including any number of ExpireCurrentKeypairs): no counter
   is emitted twice, none at or beyond RejectAfterMessages, and none below the
   starting value (so nothing collides with counters handed out earlier). *)
Theorem emitted_distinct_below_limit (T : nat) (n0 : N) (ks : nat -> nat) (sched : list action) :
  N.of_nat T < 2 ^ 13 -> n0 <= Reject ->
  let c := run T (init n0 ks) sched in
  NoDup (emitted c) /\ Forall (fun r => n0 <= r /\ r < Reject) (emitted c).
Proof.
  intros HT Hn0. cbn zeta.
  destruct (run_inv T n0 sched HT Hn0 _ (init_inv T n0 ks Hn0)) as (_ & Hnd & Hlt). split.
  - eapply NoDup_app_l; eauto.
  - apply Forall_forall. intros r Hr. assert (H : In r (emitted (run T (init n0 ks) sched) ++ pendingl T (thr (run T (init n0 ks) sched)))) by (apply in_or_app; auto).
    apply Hlt in H. lia.
Qed.

(* The cell never wraps: at every reachable configuration it is below 2^64 - 1. *)
Theorem cell_never_wraps (T : nat) (n0 : N) ks sched :
  N.of_nat T < 2 ^ 13 -> n0 <= Reject -> cell (run T (init n0 ks) sched) + 1 < M64.
Proof.
  intros HT Hn0.
  destruct (run_inv T n0 sched HT Hn0 _ (init_inv T n0 ks Hn0)) as ((_ & Hc) & _).
  pose proof (over_le T (thr (run T (init n0 ks) sched))). consts. lia.
Qed.

(* ------------------------------------------------------------------ the trace checker is sound *)
From Coq Require Import FMapPositive.
From WG Require Import Nonce.Spec.

Lemma succ_pos_inj a b : N.succ_pos a = N.succ_pos b -> a = b.
Proof.
  intros H. assert (E : Npos (N.succ_pos a) = Npos (N.succ_pos b)) by (f_equal; exact H).
  rewrite !N.succ_pos_spec in E. lia.
Qed.

Lemma distinct_aux_sound l : forall seen,
  distinct_aux seen l = true ->
  NoDup l /\ forall x, In x l -> PositiveMap.mem (N.succ_pos x) seen = false.
Proof.
  induction l as [|x t IH]; intros seen H; cbn [distinct_aux] in H.
  - split; [constructor|intros ? []].
  - destruct (PositiveMap.mem (N.succ_pos x) seen) eqn:Em; [discriminate|].
    destruct (IH _ H) as (Hnd & Hall). split.
    + constructor; [|exact Hnd]. intros Hin. specialize (Hall x Hin).
      rewrite PositiveMap.mem_find, PositiveMap.gss in Hall. discriminate.
    + intros y [<-|Hy]; [exact Em|]. specialize (Hall y Hy).
      rewrite PositiveMap.mem_find in *.
      destruct (Pos.eq_dec (N.succ_pos y) (N.succ_pos x)) as [E|Ne].
      * rewrite E, PositiveMap.gss in Hall. discriminate.
      * rewrite PositiveMap.gso in Hall by exact Ne. exact Hall.
Qed.

Theorem distinctb_sound l : distinctb l = true -> NoDup l.
Proof. intros H. apply (distinct_aux_sound l _ H). Qed.

(* What a passing stress trace means: under every key the counters seen on the
   wire are pairwise distinct and below RejectAfterMessages. *)
Theorem conc_holdsb_sound ks : conc_holdsb ks = true ->
  forall k, In k ks -> NoDup (kt_ctrs k) /\ Forall (fun c => c < Reject) (kt_ctrs k).
Proof.
  unfold conc_holdsb. intros H k Hk. apply andb_true_iff in H as [_ H].
  rewrite forallb_forall in H. specialize (H k Hk). unfold kt_ok in H.
  apply andb_true_iff in H as [H1 H2]. split.
  - apply distinctb_sound. exact H1.
  - apply Forall_forall. intros o Ho. rewrite forallb_forall in H2. specialize (H2 o Ho).
    apply N.ltb_lt in H2. exact H2.
Qed.

(* ------------------------------------------------------------------ the slice model never reuses a (key, counter) *)

Definition kc (t : N * N * N) : N * N := (kix t, ctr t).

Lemma nseq_ge n len x : In x (nseq n len) -> n <= x.
Proof.
  revert n. induction len as [|k IH]; intros n; cbn [nseq In]; [tauto|].
  intros [->|Hin]; [lia|]. apply IH in Hin. lia.
Qed.

Lemma nseq_NoDup n len : NoDup (nseq n len).
Proof.
  revert n. induction len as [|k IH]; intros n; cbn [nseq]; constructor; [|apply IH].
  intros Hin. apply nseq_ge in Hin. lia.
Qed.

Lemma nseq_app n a b : nseq n (a + b) = nseq n a ++ nseq (n + N.of_nat a) b.
Proof.
  revert n. induction a as [|a IH]; intros n; cbn [nseq plus app].
  - f_equal. lia.
  - f_equal. rewrite IH. f_equal. f_equal. lia.
Qed.

Lemma flush_loop_ctrs idx : forall q n n' q' tx ex,
  n <= Reject -> flush_loop idx n q = (n', q', tx, ex) -> map ctr tx = nseq n (length tx).
Proof.
  induction q as [|c q IH]; intros n n' q' tx ex Hn H; cbn [flush_loop] in H.
  - inversion H; subst. reflexivity.
  - destruct (number n c) as [[a h] n1] eqn:E.
    assert (Hm : n < M64) by (consts; lia).
    destruct (number_spec c n a h n1 Hm E) as (H1 & H2 & H3 & H4 & H5 & H6 & _ & _).
    assert (Ea : map ctr (map (fun p : N * N => (idx, snd p, fst p)) a) = nseq n (length a)).
    { rewrite map_map. unfold ctr. cbn [fst snd]. exact H2. }
    destruct h as [|x h'].
    + assert (En1 : n1 = n + N.of_nat (length a)).
      { rewrite (H5 eq_refl). rewrite <- H1, app_nil_r, map_length. reflexivity. }
      destruct (flush_loop idx n1 q) as [[[n2 q2] tx2] ex2] eqn:E2. inversion H; subst tx n' q' ex; clear H.
      rewrite map_app, app_length, map_length, nseq_app, Ea. f_equal.
      rewrite (IH _ _ _ _ _ (H6 Hn) E2). f_equal. exact En1.
    + inversion H; subst; clear H. rewrite Ea, map_length. reflexivity.
Qed.

Lemma NoDup_app_intro {A} (l l' : list A) :
  NoDup l -> NoDup l' -> (forall x, In x l -> In x l' -> False) -> NoDup (l ++ l').
Proof.
  induction l as [|a l IH]; cbn [app]; intros H1 H2 H3; [exact H2|].
  inversion H1; subst. constructor.
  - intros Hin. apply in_app_or in Hin as [Hin|Hin]; [contradiction|]. apply (H3 a); [left; reflexivity|exact Hin].
  - apply IH; auto. intros x Hx Hx'. apply (H3 x); [right; exact Hx|exact Hx'].
Qed.

Lemma NoDup_map_finer {A B C} (f : A -> B) (g : A -> C) l :
  (forall x y, g x = g y -> f x = f y) -> NoDup (map f l) -> NoDup (map g l).
Proof.
  intros Hfg. induction l as [|a l IH]; cbn [map]; intros H; [constructor|].
  inversion H; subst. constructor; [|apply IH; assumption].
  rewrite in_map_iff. intros (y & E & Hy). apply H2. rewrite in_map_iff. exists y. split; [|exact Hy].
  apply Hfg. exact E.
Qed.

(* What the invariant says about the trace so far, given the current keypair
   and the set of remote indices handed out by the remote party. *)
Definition J (c : option keyp) (used : list N) (tr : list (N * N * N)) : Prop :=
  Forall (fun t => ctr t < Reject /\ In (kix t) used) tr /\
  NoDup (map kc tr) /\
  match c with
  | Some k => In (kidx k) used /\ forall t, In t tr -> kix t = kidx k -> ctr t < knonce k
  | None => True
  end.

Lemma initiate_cur s tx : cur (fst (initiate s tx)) = cur s /\ o_tx (snd (initiate s tx)) = tx.
Proof. unfold initiate. destruct (init_ok s); cbn; auto. Qed.

Lemma In_firstn {A} (x : A) k l : In x (firstn k l) -> In x l.
Proof.
  revert k. induction l as [|a l IH]; intros [|k]; cbn [firstn In]; try tauto.
  intros [->|H]; [left; reflexivity|right; eapply IH; eauto].
Qed.

Lemma NoDup_firstn {A} k (l : list A) : NoDup l -> NoDup (firstn k l).
Proof.
  revert k. induction l as [|a l IH]; intros [|k] H; cbn [firstn]; try constructor.
  - inversion H; subst. intros Hin. apply In_firstn in Hin. contradiction.
  - inversion H; subst. apply IH. assumption.
Qed.

Definition sent_of (fail : option nat) (tx : list (N * N * N)) : list (N * N * N) :=
  match fail with Some k => firstn k tx | None => tx end.

Lemma sent_of_In fail tx t : In t (sent_of fail tx) -> In t tx.
Proof. destruct fail; cbn [sent_of]; [apply In_firstn|auto]. Qed.

Lemma sent_of_NoDup fail tx : NoDup (map kc tx) -> NoDup (map kc (sent_of fail tx)).
Proof. destruct fail; cbn [sent_of]; [|auto]. rewrite <- firstn_map. apply NoDup_firstn. Qed.

Lemma flush_gen_J fail s used tr :
  J (cur s) used tr -> J (cur (fst (flush_gen fail s))) used (tr ++ o_tx (snd (flush_gen fail s))).
Proof.
  intros HJ. unfold flush_gen.
  destruct (staged s) as [|c0 q0] eqn:Est.
  { cbn [fst snd o_tx]. rewrite app_nil_r. exact HJ. }
  destruct (cur s) as [k|] eqn:Ec.
  2:{ destruct (initiate_cur s []) as [E1 E2]. rewrite E1, E2, app_nil_r, Ec. exact HJ. }
  destruct (N.leb_spec Reject (knonce k)) as [Hge|Hlt].
  { destruct (initiate_cur s []) as [E1 E2]. rewrite E1, E2, app_nil_r, Ec. exact HJ. }
  destruct (flush_loop (kidx k) (knonce k) (c0 :: q0)) as [[[n' q'] tx] ex] eqn:E.
  assert (Hle : knonce k <= Reject) by lia.
  destruct (flush_loop_counters _ _ _ _ _ _ _ Hle E) as (G1 & G2 & G3 & G4).
  pose proof (flush_loop_ctrs _ _ _ _ _ _ _ Hle E) as G5.
  destruct HJ as (J1 & J2 & J3 & J4).
  fold (sent_of fail tx).
  assert (Hres : J (Some {| kidx := kidx k; knonce := n'; kinit := kinit k |}) used (tr ++ sent_of fail tx)).
  { rewrite Forall_forall in G3.
    unfold J. refine (conj _ (conj _ (conj J3 _))).
    - apply Forall_app. split; [exact J1|]. apply Forall_forall. intros t Ht. apply sent_of_In in Ht.
      destruct (G3 _ Ht) as (Hk & _ & _ & Hr). rewrite Hk. auto.
    - rewrite map_app. apply NoDup_app_intro; [exact J2| |].
      + apply sent_of_NoDup. apply (NoDup_map_finer ctr kc).
        * intros x y Hxy. unfold kc in Hxy. congruence.
        * rewrite G5. apply nseq_NoDup.
      + intros x Hx1 Hx2. rewrite in_map_iff in Hx1, Hx2.
        destruct Hx1 as (t1 & E1 & Ht1), Hx2 as (t2 & E2 & Ht2). apply sent_of_In in Ht2.
        destruct (G3 _ Ht2) as (Hk2 & Hlo & _).
        assert (Hk1 : kix t1 = kidx k) by (unfold kc in *; congruence).
        assert (Hc : ctr t1 = ctr t2) by (unfold kc in *; congruence).
        specialize (J4 _ Ht1 Hk1). lia.
    - cbn [kidx knonce]. intros t Hin Hk. apply in_app_or in Hin as [Hin|Hin].
      + specialize (J4 _ Hin Hk). lia.
      + apply sent_of_In in Hin. destruct (G3 _ Hin) as (_ & _ & Hhi & _). exact Hhi. }
  destruct (ex || ((match fail with Some _ => false | None => true end) && nonempty tx && (Rekey <? n'))).
  - match goal with |- context [initiate ?s1 (sent_of fail tx)] => destruct (initiate_cur s1 (sent_of fail tx)) as [E1 E2]; rewrite E1, E2 end.
    cbn [cur]. exact Hres.
  - cbn [fst snd cur o_tx]. exact Hres.
Qed.

Lemma flush_J s used tr :
  J (cur s) used tr -> J (cur (fst (flush s))) used (tr ++ o_tx (snd (flush s))).
Proof. apply flush_gen_J. Qed.

(* Facts about flush that do not depend on the invariant. *)
Lemma flush_gen_facts fail s :
  nxt (fst (flush_gen fail s)) = nxt s /\
  option_map kidx (cur (fst (flush_gen fail s))) = option_map kidx (cur s) /\
  (forall t, In t (o_tx (snd (flush_gen fail s))) -> exists k, cur s = Some k /\ kix t = kidx k).
Proof.
  unfold flush_gen. destruct (staged s) as [|c0 q0] eqn:Est.
  { cbn [fst snd o_tx]. repeat split; auto. intros t []. }
  assert (Hinit : forall s1 tx, nxt (fst (initiate s1 tx)) = nxt s1 /\ cur (fst (initiate s1 tx)) = cur s1 /\ o_tx (snd (initiate s1 tx)) = tx).
  { intros s1 tx. unfold initiate. destruct (init_ok s1); cbn; auto. }
  destruct (cur s) as [k|] eqn:Ec.
  2:{ destruct (Hinit s []) as (A & B & C). rewrite A, B, C, Ec. repeat split; auto. intros t []. }
  destruct (N.leb_spec Reject (knonce k)) as [Hge|Hlt].
  { destruct (Hinit s []) as (A & B & C). rewrite A, B, C, Ec. repeat split; auto. intros t []. }
  destruct (flush_loop (kidx k) (knonce k) (c0 :: q0)) as [[[n' q'] tx] ex] eqn:E.
  assert (Hle : knonce k <= Reject) by lia.
  destruct (flush_loop_counters _ _ _ _ _ _ _ Hle E) as (_ & _ & G3 & _).
  fold (sent_of fail tx).
  assert (Htx : forall t, In t (sent_of fail tx) -> exists k0, Some k = Some k0 /\ kix t = kidx k0).
  { intros t Ht. apply sent_of_In in Ht. exists k. split; [reflexivity|]. rewrite Forall_forall in G3. apply (G3 t Ht). }
  destruct (ex || ((match fail with Some _ => false | None => true end) && nonempty tx && (Rekey <? n'))).
  - match goal with |- context [initiate ?s1 (sent_of fail tx)] => destruct (Hinit s1 (sent_of fail tx)) as (A & B & C); rewrite A, B, C end.
    cbn [nxt cur option_map kidx]. repeat split; auto.
  - cbn [fst snd nxt cur o_tx option_map kidx]. repeat split; auto.
Qed.

(* Discipline of the environment: the hook only raises a counter, and the remote
   party never hands out the same receiver index twice (neither when it answers
   nor when it initiates). *)
Definition used_after (used : list N) (e : ev) : list N :=
  match e with Answer idx | RefInit idx => idx :: used | _ => used end.

Definition ev_ok (s : dst) (used : list N) (e : ev) : Prop :=
  match e with
  | SetNonce v => match cur s with Some k => knonce k <= v | None => True end
  | Answer idx | RefInit idx => ~ In idx used
  | _ => True
  end.

Fixpoint wf (s : dst) (used : list N) (evs : list ev) : Prop :=
  match evs with
  | [] => True
  | e :: r => ev_ok s used e /\ wf (fst (dstep s e)) (used_after used e) r
  end.

(* the clause of J about one keypair slot *)
Definition Jk (c : option keyp) (used : list N) (tr : list (N * N * N)) : Prop :=
  match c with
  | Some k => In (kidx k) used /\ forall t, In t tr -> kix t = kidx k -> ctr t < knonce k
  | None => True
  end.

Definition apart (a b : option keyp) : Prop :=
  match a, b with Some x, Some y => kidx x <> kidx y | _, _ => True end.

(* the invariant of the whole slice state: current and next keypair *)
Definition JJ (s : dst) (used : list N) (tr : list (N * N * N)) : Prop :=
  J (cur s) used tr /\ Jk (nxt s) used tr /\ apart (cur s) (nxt s).

Lemma J_weaken c used tr x : J c used tr -> J c (x :: used) tr.
Proof.
  intros (J1 & J2 & J3). refine (conj _ (conj J2 _)).
  - eapply Forall_impl; [|exact J1]. cbn beta. intros t [A B]. split; [exact A|right; exact B].
  - destruct c as [k|]; [|exact I]. destruct J3 as [A B]. split; [right; exact A|exact B].
Qed.

Lemma Jk_weaken c used tr x : Jk c used tr -> Jk c (x :: used) tr.
Proof. destruct c as [k|]; cbn [Jk]; [|auto]. intros [A B]. split; [right; exact A|exact B]. Qed.

Lemma flush_gen_JJ fail s used tr :
  JJ s used tr -> JJ (fst (flush_gen fail s)) used (tr ++ o_tx (snd (flush_gen fail s))).
Proof.
  intros (HJ & Hn & Ha). destruct (flush_gen_facts fail s) as (F1 & F2 & F3).
  refine (conj (flush_gen_J fail s used tr HJ) (conj _ _)).
  - rewrite F1. destruct (nxt s) as [kn|] eqn:En; cbn [Jk] in *; [|exact I].
    destruct Hn as [A B]. split; [exact A|]. intros t Hin Hk.
    apply in_app_or in Hin as [Hin|Hin]; [apply B; assumption|].
    exfalso. destruct (F3 t Hin) as (k & Ec & Hkk). rewrite Ec in Ha. cbn [apart] in Ha. congruence.
  - rewrite F1. destruct (cur (fst (flush_gen fail s))) as [k'|] eqn:Ec'; destruct (cur s) as [k|] eqn:Ec; cbn [option_map] in F2; try discriminate; cbn [apart] in *; auto.
    destruct (nxt s); [|exact I]. inversion F2. congruence.
Qed.

Lemma flush_JJ s used tr : JJ s used tr -> JJ (fst (flush s)) used (tr ++ o_tx (snd (flush s))).
Proof. apply flush_gen_JJ. Qed.

Lemma JJ_stage s used tr q :
  JJ s used tr ->
  JJ {| cur := cur s; nxt := nxt s; staged := q; init_ok := init_ok s; pending := pending s |} used tr.
Proof. intros H. exact H. Qed.

Lemma dstep_JJ s used tr e :
  JJ s used tr -> ev_ok s used e ->
  JJ (fst (dstep s e)) (used_after used e) (tr ++ o_tx (snd (dstep s e))).
Proof.
  intros HJJ Hwf. pose proof HJJ as (HJ & Hn & Ha).
  destruct e as [v|pkts|idx| |b|idx| |pkts kf lost|pkts|]; cbn [dstep used_after ev_ok] in *.
  - (* SetNonce *)
    cbn [fst snd o_tx]. rewrite app_nil_r. destruct (cur s) as [k|] eqn:Ec.
    + unfold JJ. cbn [cur nxt]. refine (conj _ (conj Hn _)).
      * destruct HJ as (J1 & J2 & J3 & J4). refine (conj J1 (conj J2 (conj J3 _))).
        cbn [kidx knonce]. intros t Hin Hk. specialize (J4 _ Hin Hk). lia.
      * destruct (nxt s); cbn [apart kidx] in *; auto.
    + unfold JJ. rewrite Ec. auto.
  - (* TunBatch *)
    destruct pkts as [|p pkts].
    + cbn [fst snd o_tx]. rewrite app_nil_r. exact HJJ.
    + apply flush_JJ. exact HJJ.
  - (* Answer *)
    destruct (pending s).
    + apply flush_JJ. unfold stage_keepalive. cbn [staged].
      assert (H' : JJ {| cur := Some {| kidx := idx; knonce := 0; kinit := true |}; nxt := None; staged := staged s;
                         init_ok := init_ok s; pending := false |} (idx :: used) tr).
      { unfold JJ. cbn [cur nxt Jk apart]. refine (conj _ (conj I I)).
        destruct HJ as (J1 & J2 & _). refine (conj _ (conj J2 (conj _ _))).
        - eapply Forall_impl; [|exact J1]. cbn beta. intros t [A B]. split; [exact A|right; exact B].
        - left. reflexivity.
        - cbn [kidx knonce]. intros t Hin Hk. exfalso. rewrite Forall_forall in J1.
          destruct (J1 _ Hin) as [_ Hu]. rewrite Hk in Hu. contradiction. }
      destruct (staged s); exact H'.
    + cbn [fst snd o_tx]. rewrite app_nil_r. unfold JJ.
      refine (conj (J_weaken _ _ _ _ HJ) (conj (Jk_weaken _ _ _ _ Hn) Ha)).
  - (* AllowInit *)
    cbn [fst snd o_tx]. rewrite app_nil_r. exact HJJ.
  - (* Uapi *)
    apply flush_JJ. destruct b; [|exact HJJ]. unfold stage_keepalive. destruct (staged s); exact HJJ.
  - (* RefInit: a fresh keypair waits in next *)
    cbn [fst snd o_tx]. rewrite app_nil_r. unfold JJ. cbn [cur nxt].
    refine (conj (J_weaken _ _ _ _ HJ) (conj _ _)).
    + cbn [Jk kidx knonce]. split; [left; reflexivity|]. intros t Hin Hk. exfalso.
      destruct HJ as (J1 & _). rewrite Forall_forall in J1. destruct (J1 _ Hin) as [_ Hu]. rewrite Hk in Hu. contradiction.
    + destruct (cur s) as [k|] eqn:Ec; cbn [apart kidx]; [|exact I].
      destruct HJ as (_ & _ & J3 & _). intros E. rewrite E in J3. contradiction.
  - (* RefData: next becomes current *)
    destruct (nxt s) as [kn|] eqn:En.
    + apply flush_JJ. unfold JJ. cbn [cur nxt Jk apart]. refine (conj _ (conj I I)).
      destruct HJ as (J1 & J2 & _). cbn [Jk] in Hn. destruct Hn as [A B].
      refine (conj J1 (conj J2 (conj A B))).
    + cbn [fst snd o_tx]. rewrite app_nil_r. exact HJJ.
  - (* TunBatchErr *)
    destruct pkts as [|p pkts].
    + cbn [fst snd o_tx]. rewrite app_nil_r. exact HJJ.
    + destruct (staged s) eqn:Est; [apply flush_gen_JJ|apply flush_JJ]; exact HJJ.
  - (* TunBatchIErr: same state and transmissions as TunBatch *)
    destruct pkts as [|p pkts].
    + cbn [fst snd o_tx]. rewrite app_nil_r. exact HJJ.
    + match goal with |- context [flush ?s0] =>
        pose proof (flush_JJ s0 used tr HJJ) as H; destruct (flush s0) as [s' o] end.
      cbn [fst snd o_tx] in *. exact H.
  - (* Retransmit *)
    destruct (pending s); cbn [fst snd o_tx]; rewrite app_nil_r; exact HJJ.
Qed.

Definition all_tx (s : dst) (evs : list ev) : list (N * N * N) := concat (map o_tx (outs dstep s evs)).

Lemma all_tx_cons s e r : all_tx s (e :: r) = o_tx (snd (dstep s e)) ++ all_tx (fst (dstep s e)) r.
Proof.
  unfold all_tx, outs. cbn [Prelude.run]. destruct (dstep s e) as [s1 o] eqn:E. cbn [fst snd].
  destruct (Prelude.run dstep s1 r) as [s2 os] eqn:E2. cbn [snd map concat]. reflexivity.
Qed.

Lemma run_JJ evs : forall s used tr,
  JJ s used tr -> wf s used evs ->
  exists used', JJ (final dstep s evs) used' (tr ++ all_tx s evs).
Proof.
  induction evs as [|e r IH]; intros s used tr HJ Hwf.
  - exists used. unfold all_tx, outs, final. cbn. rewrite app_nil_r. exact HJ.
  - cbn [wf] in Hwf. destruct Hwf as [Hw Hr].
    pose proof (dstep_JJ s used tr e HJ Hw) as HJ1.
    destruct (IH _ _ _ HJ1 Hr) as (used' & HJ2). exists used'.
    rewrite all_tx_cons, app_assoc.
    replace (final dstep s (e :: r)) with (final dstep (fst (dstep s e)) r); [exact HJ2|].
    unfold final. cbn [Prelude.run]. destruct (dstep s e) as [s1 o]. cbn [fst].
    destruct (Prelude.run dstep s1 r). reflexivity.
Qed.

(* For EVERY history of events of the slice model (TUN batches, handshakes
   completed as initiator or as responder, UAPI sets, hook calls that only raise
   the counter) in which the remote party uses fresh receiver indices: no two
   transport messages carry the same (receiver index, counter) and every counter
   is below the limit. *)
Theorem slice_never_reuses evs :
  wf dinit [] evs ->
  NoDup (map kc (all_tx dinit evs)) /\ Forall (fun t => ctr t < Reject) (all_tx dinit evs).
Proof.
  intros Hwf.
  assert (H0 : JJ dinit [] []).
  { unfold JJ, J, dinit; cbn. repeat split; constructor. }
  destruct (run_JJ evs dinit [] [] H0 Hwf) as (used' & (J1 & J2 & _) & _). cbn [app] in *.
  split; [exact J2|]. eapply Forall_impl; [|exact J1]. cbn beta. tauto.
Qed.

(* The message-count rekey rule on a session where the device was the RESPONDER:
   the remote party initiated (RefInit) and confirmed with data (RefData); once
   a transmitted counter has reached 2^60 the device itself starts a handshake. *)
Theorem rekey_after_2_60_as_responder s idx v pkts :
  v < Reject -> pkts <> [] -> staged s = [] ->
  let s1 := fst (dstep s (RefInit idx)) in
  let s2 := fst (dstep s1 RefData) in
  let s3 := fst (dstep (fst (dstep s2 AllowInit)) (SetNonce v)) in
  cur s3 = Some {| kidx := idx; knonce := v; kinit := false |} /\
  let o := snd (dstep s3 (TunBatch pkts)) in
  ((exists t, In t (o_tx o) /\ Rekey <= ctr t) -> o_init o = 1).
Proof.
  intros Hv Hp Hst. cbn zeta.
  assert (E3 : cur (fst (dstep (fst (dstep (fst (dstep (fst (dstep s (RefInit idx))) RefData)) AllowInit)) (SetNonce v)))
               = Some {| kidx := idx; knonce := v; kinit := false |}).
  { cbn [dstep fst nxt]. unfold flush. cbn [staged]. rewrite Hst. cbn [fst cur kidx kinit]. reflexivity. }
  split; [exact E3|].
  set (s3 := fst (dstep (fst (dstep (fst (dstep (fst (dstep s (RefInit idx))) RefData)) AllowInit)) (SetNonce v))) in *.
  assert (Hok : init_ok s3 = true).
  { subst s3. cbn [dstep fst nxt]. unfold flush. cbn [staged]. rewrite Hst. cbn [fst cur init_ok]. reflexivity. }
  pose proof (rekey_after_2_60 s3 _ pkts E3 Hv Hp) as H.
  destruct (dstep s3 (TunBatch pkts)) as [s4 o]. cbn [snd]. intros Hex.
  destruct (H Hex) as [Hi _]. rewrite Hok in Hi. exact Hi.
Qed.

(* ------------------------------------------------------------------ bind errors *)

(* A transport batch whose Bind.Send fails after k datagrams: exactly the first
   k transmissions of the error-free step reach the wire, and the device state
   afterwards (counters consumed, staged queue) is the one of the error-free
   step -- the refused datagrams are never numbered or emitted again. *)
Lemma initiate_proj s1 tx :
  cur (fst (initiate s1 tx)) = cur s1 /\ nxt (fst (initiate s1 tx)) = nxt s1 /\
  staged (fst (initiate s1 tx)) = staged s1 /\ o_tx (snd (initiate s1 tx)) = tx.
Proof. unfold initiate. destruct (init_ok s1); cbn; auto. Qed.

Lemma flush_gen_vs_flush k s :
  cur (fst (flush_gen (Some k) s)) = cur (fst (flush s)) /\
  nxt (fst (flush_gen (Some k) s)) = nxt (fst (flush s)) /\
  staged (fst (flush_gen (Some k) s)) = staged (fst (flush s)) /\
  o_tx (snd (flush_gen (Some k) s)) = firstn k (o_tx (snd (flush s))).
Proof.
  unfold flush, flush_gen.
  destruct (staged s) as [|c q] eqn:Est.
  { cbn [fst snd o_tx]. rewrite firstn_nil. auto. }
  destruct (cur s) as [kp|] eqn:Ec.
  2:{ destruct (initiate_proj s []) as (A1 & A2 & A3 & A4). rewrite A4, firstn_nil. auto. }
  destruct (N.leb_spec Reject (knonce kp)).
  { destruct (initiate_proj s []) as (A1 & A2 & A3 & A4). rewrite A4, firstn_nil. auto. }
  destruct (flush_loop (kidx kp) (knonce kp) (c :: q)) as [[[n' q'] tx] ex].
  cbn [andb]. destruct ex; cbn [orb].
  - match goal with |- context [initiate ?s0 tx] =>
      destruct (initiate_proj s0 tx) as (A1 & A2 & A3 & A4); destruct (initiate_proj s0 (firstn k tx)) as (B1 & B2 & B3 & B4) end.
    rewrite A1, A2, A3, A4, B1, B2, B3, B4. auto.
  - destruct (nonempty tx && (Rekey <? n')).
    + match goal with |- context [initiate ?s0 tx] => destruct (initiate_proj s0 tx) as (A1 & A2 & A3 & A4) end.
      rewrite A1, A2, A3, A4. cbn [fst snd cur nxt staged o_tx]. auto.
    + cbn [fst snd cur nxt staged o_tx]. auto.
Qed.

Theorem refused_batch_consumes_counters s pkts k lost :
  staged s = [] -> pkts <> [] ->
  let r1 := dstep s (TunBatch pkts) in
  let r2 := dstep s (TunBatchErr pkts k lost) in
  cur (fst r2) = cur (fst r1) /\ nxt (fst r2) = nxt (fst r1) /\ staged (fst r2) = staged (fst r1) /\
  o_tx (snd r2) = firstn k (o_tx (snd r1)).
Proof.
  intros Hst Hp. cbn zeta. cbn [dstep]. destruct pkts as [|p pkts]; [congruence|]. rewrite Hst.
  apply flush_gen_vs_flush.
Qed.

(* A refused initiation still counts as an attempt: the handshake stays pending
   and the retransmit timer repeats it. *)
Theorem refused_initiation_is_retried s k pkts :
  cur s = Some k -> Reject <= knonce k -> pkts <> [] -> init_ok s = true ->
  let '(s1, o1) := dstep s (TunBatchIErr pkts) in
  o_tx o1 = [] /\ o_init o1 = 0 /\ pending s1 = true /\ staged s1 = stage (staged s) pkts /\
  o_init (snd (dstep s1 Retransmit)) = 1.
Proof.
  intros Hc Hk Hp Hok. pose proof (exhausted_key_rekeys s k pkts Hc Hk Hp) as H.
  cbn [dstep] in *. destruct pkts as [|p pkts]; [congruence|].
  unfold flush, flush_gen in *. cbn [staged cur init_ok pending] in *.
  destruct (stage (staged s) (p :: pkts)) as [|c q] eqn:Est.
  { cbn in H. destruct H as (_ & H & _). rewrite Hok in H. discriminate. }
  rewrite Hc in *. destruct (N.leb_spec Reject (knonce k)) as [_|C]; [|lia].
  unfold initiate in *. cbn [init_ok] in *. rewrite Hok in *. cbn [o_tx o_init pending staged fst snd].
  repeat split; reflexivity.
Qed.
