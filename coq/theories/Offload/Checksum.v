(* Internet checksum (RFC 1071).

   SPEC   : [sum16] (sum of big-endian 16-bit words, odd tail padded with a zero byte),
            [oc_valid] ("the one's-complement sum is 0xffff", i.e. a receiver accepts).
   MIRROR : [checksumNoFold], [checksum], [pseudoHeaderChecksumNoFold] of /repo/tun/checksum.go:
            64-bit accumulator over native-endian (little-endian host) words with
            bits.Add64 carry chains in blocks of 128/64/32/16/8/4/2/1 bytes, byte swap
            of the initial value and of the result, four folds.
   THEOREM: [checksum_is_rfc1071] : the mirror is congruent to initial + sum16 modulo 2^16-1,
            plus the consequences used by C16/C17 ([checksum_cong], [checksum_range],
            [pseudo_is_rfc1071], [complement_verifies]).

   Bytes are [N] below 256 ([bytes l]); no other file is needed (Base.Prelude only).
   Host endianness: the mirror fixes little-endian (amd64/arm64); on a big-endian host the two
   byte swaps of the Go code are identities and the sum is the plain big-endian one. *)
From WG Require Import Base.Prelude.
Local Open Scope N_scope.

Definition bytes (l : list N) : Prop := Forall (fun b => b < 256) l.
Definition bytesb (l : list N) : bool := forallb (fun b => b <? 256) l.

(* ------------------------------------------------------------------ *)
(* Specification                                                       *)
(* ------------------------------------------------------------------ *)

Fixpoint sum16 (l : list N) : N :=
  match l with
  | a :: b :: r => a * 256 + b + sum16 r
  | [a] => a * 256
  | [] => 0
  end.

(* A region (with its checksum field in place, plus the pseudo-header words) whose 16-bit words
   add up to [s] verifies iff the one's-complement sum is 0xffff: s is a non-zero multiple of
   2^16-1. *)
Definition oc_valid (s : N) : Prop := s <> 0 /\ s mod 65535 = 0.
Definition oc_validb (s : N) : bool := negb (s =? 0) && (s mod 65535 =? 0).

(* the 16-bit one's-complement sum of words adding up to s (end-around carry) *)
Definition oc16 (s : N) : N := if s =? 0 then 0 else (s - 1) mod 65535 + 1.

(* ------------------------------------------------------------------ *)
(* Folding (tun/checksum.go: checksum)                                  *)
(* ------------------------------------------------------------------ *)

Definition fold1 (x : N) : N := x / 65536 + x mod 65536.
Definition fold4 (x : N) : N := fold1 (fold1 (fold1 (fold1 x))).

(* ------------------------------------------------------------------ *)
(* Mirror of checksumNoFold                                             *)
(* ------------------------------------------------------------------ *)

Definition two64 : N := 18446744073709551616.

(* little-endian value of a byte string (binary.NativeEndian.UintXX on a little-endian host) *)
Fixpoint le (l : list N) : N :=
  match l with
  | [] => 0
  | b :: r => b + 256 * le r
  end.

Fixpoint bytes_le (n : nat) (x : N) : list N :=
  match n with
  | O => []
  | S k => x mod 256 :: bytes_le k (x / 256)
  end.

(* PutUint64(native) then Uint64(big endian), and the converse *)
Definition bswap64 (x : N) : N := le (rev (bytes_le 8 x)).

(* bits.Add64 *)
Definition add64 (a w c : N) : N * N := let s := a + w + c in (s mod two64, s / two64).

Fixpoint chain (ac c : N) (ws : list N) : N * N :=
  match ws with
  | [] => (ac, c)
  | w :: r => let '(a', c') := add64 ac w c in chain a' c' r
  end.

(* one unrolled block: Add64 chain starting with carry 0, then ac += carry (uint64) *)
Definition accum (ac : N) (ws : list N) : N :=
  let '(a, c) := chain ac 0 ws in (a + c) mod two64.

(* the first k native-endian 8-byte words of b *)
Fixpoint words (k : nat) (b : list N) : list N :=
  match k with
  | O => []
  | S k' => le (firstn 8 b) :: words k' (skipn 8 b)
  end.

(* state: accumulator, remaining bytes, their number *)
Definition cst : Type := (N * list N * N)%type.

Fixpoint loop128 (fuel : nat) (ac : N) (b : list N) (len : N) : cst :=
  match fuel with
  | O => (ac, b, len)
  | S f =>
      if 128 <=? len then loop128 f (accum ac (words 16 b)) (skipn 128 b) (len - 128)
      else (ac, b, len)
  end.

(* if len(b) >= 8k { k words; b = b[8k:] } *)
Definition blk (k : nat) (st : cst) : cst :=
  let '(ac, b, len) := st in
  if 8 * N.of_nat k <=? len
  then (accum ac (words k b), skipn (8 * k) b, len - 8 * N.of_nat k)
  else st.

(* if len(b) >= n { one n-byte word (n = 4, 2); b = b[n:] } *)
Definition small (n : nat) (st : cst) : cst :=
  let '(ac, b, len) := st in
  if N.of_nat n <=? len
  then (accum ac [le (firstn n b)], skipn n b, len - N.of_nat n)
  else st.

(* if len(b) == 1 { Uint16([b0, 0]) } *)
Definition last1 (st : cst) : N :=
  let '(ac, b, len) := st in
  if len =? 1 then accum ac [le (firstn 1 b)] else ac.

Definition checksumNoFold (b : list N) (initial : N) : N :=
  let len := N.of_nat (length b) in
  let st := loop128 (S (N.to_nat (len / 128))) (bswap64 initial) b len in
  bswap64 (last1 (small 2 (small 4 (blk 1 (blk 2 (blk 4 (blk 8 st))))))).

(* checksum: four folds and truncation to uint16 *)
Definition checksum (b : list N) (initial : N) : N := fold4 (checksumNoFold b initial) mod 65536.

Definition pseudoHeaderChecksumNoFold (protocol : N) (src dst : list N) (totalLen : N) : N :=
  let s := checksumNoFold src 0 in
  let s := checksumNoFold dst s in
  let s := checksumNoFold [0; protocol] s in
  checksumNoFold [totalLen / 256; totalLen mod 256] s.

(* what a receiver adds up for the pseudo header *)
Definition pseudo_sum (protocol : N) (src dst : list N) (totalLen : N) : N :=
  sum16 src + sum16 dst + protocol + totalLen.

(* ------------------------------------------------------------------ *)
(* Lemmas: folding                                                      *)
(* ------------------------------------------------------------------ *)

Lemma fold1_cong x : fold1 x mod 65535 = x mod 65535.
Proof. unfold fold1. lia. Qed.
Lemma fold1_zero x : fold1 x = 0 <-> x = 0.
Proof. unfold fold1. lia. Qed.
Lemma fold1_le x : fold1 x <= x.
Proof. unfold fold1. lia. Qed.

(* bound chain for a 64-bit accumulator: the four folds of tun/checksum.go suffice *)
Lemma fold4_range x : x < 2 ^ 64 -> fold4 x <= 65535.
Proof.
  intros H. unfold fold4.
  assert (H1: fold1 x <= 281474976776190) by (unfold fold1; lia).
  assert (H2: fold1 (fold1 x) <= 4295032830).
  { remember (fold1 x) as y. unfold fold1. lia. }
  assert (H3: fold1 (fold1 (fold1 x)) <= 131070).
  { remember (fold1 (fold1 x)) as y. unfold fold1. lia. }
  remember (fold1 (fold1 (fold1 x))) as y. unfold fold1. lia.
Qed.

Lemma fold4_cong x : fold4 x mod 65535 = x mod 65535.
Proof. unfold fold4. now rewrite !fold1_cong. Qed.
Lemma fold4_zero x : fold4 x = 0 <-> x = 0.
Proof. unfold fold4. now rewrite !fold1_zero. Qed.

(* congruence helpers modulo 2^16-1 *)
Lemma cong_intro a b k : a = b + 65535 * k -> a mod 65535 = b mod 65535.
Proof. intros ->. lia. Qed.
Lemma cong_add a a' b b' :
  a mod 65535 = a' mod 65535 -> b mod 65535 = b' mod 65535 -> (a + b) mod 65535 = (a' + b') mod 65535.
Proof. lia. Qed.
Lemma cong_mul k a a' : a mod 65535 = a' mod 65535 -> (k * a) mod 65535 = (k * a') mod 65535.
Proof.
  intros H. rewrite (N.mul_mod k a), (N.mul_mod k a') by lia. now rewrite H.
Qed.

(* ------------------------------------------------------------------ *)
(* Lemmas: sum16                                                        *)
(* ------------------------------------------------------------------ *)

Lemma sum16_app a b : Nat.even (length a) = true -> sum16 (a ++ b) = sum16 a + sum16 b.
Proof.
  revert a. fix IH 1. intros [|x [|y r]] H; cbn [length Nat.even] in H; try discriminate.
  - reflexivity.
  - cbn [app sum16]. rewrite (IH r H). lia.
Qed.

Lemma sum16_zeros n : sum16 (repeat 0 n) = 0.
Proof.
  revert n. fix IH 1. intros [|[|n]]; cbn [repeat sum16]; try reflexivity.
  rewrite IH. reflexivity.
Qed.

Lemma bytesb_ok l : bytesb l = true <-> bytes l.
Proof.
  unfold bytesb, bytes. rewrite forallb_forall, Forall_forall.
  split; intros H x Hx; specialize (H x Hx); lia.
Qed.

Lemma oc_validb_ok s : oc_validb s = true <-> oc_valid s.
Proof. unfold oc_validb, oc_valid. lia. Qed.

(* ------------------------------------------------------------------ *)
(* The mirror is the RFC 1071 sum modulo 2^16-1                          *)
(* ------------------------------------------------------------------ *)

Lemma two64_eq : two64 = 2 ^ 64. Proof. reflexivity. Qed.
Lemma two64_256 : two64 = 256 ^ 8. Proof. reflexivity. Qed.

(* ------------------------------------------------------------------ *)
(* little-endian 16-bit word sum                                        *)
(* ------------------------------------------------------------------ *)

Fixpoint sumle (l : list N) : N :=
  match l with
  | a :: b :: r => a + 256 * b + sumle r
  | [a] => a
  | [] => 0
  end.

Lemma le_sumle l : le l mod 65535 = sumle l mod 65535.
Proof.
  revert l. fix IH 1. intros [|a [|b r]]; cbn [le sumle].
  - reflexivity.
  - f_equal. lia.
  - pose proof (IH r) as H. clear IH.
    remember (le r) as x. remember (sumle r) as y. lia.
Qed.

Lemma sumle_app a b : Nat.even (length a) = true -> sumle (a ++ b) = sumle a + sumle b.
Proof.
  revert a. fix IH 1. intros [|x [|y r]] H; cbn [length Nat.even] in H; try discriminate.
  - reflexivity.
  - cbn [app sumle]. rewrite (IH r H). lia.
Qed.

Lemma sum16_sumle l : (256 * sumle l) mod 65535 = sum16 l mod 65535.
Proof.
  revert l. fix IH 1. intros [|a [|b r]]; cbn [sum16 sumle].
  - reflexivity.
  - f_equal. lia.
  - pose proof (IH r) as H. clear IH.
    remember (sum16 r) as x. remember (sumle r) as y. lia.
Qed.

Lemma sumle_split n b :
  Nat.even n = true -> (n <= length b)%nat ->
  sumle b = sumle (firstn n b) + sumle (skipn n b).
Proof.
  intros He Hn. transitivity (sumle (firstn n b ++ skipn n b)).
  - now rewrite firstn_skipn.
  - apply sumle_app. rewrite firstn_length_le by assumption. assumption.
Qed.

Lemma sumle_rev l :
  Nat.even (length l) = true -> (256 * sumle (rev l)) mod 65535 = sumle l mod 65535.
Proof.
  revert l. fix IH 1. intros [|a [|b r]] H; cbn [length Nat.even] in H; try discriminate.
  - reflexivity.
  - pose proof (IH r H) as H1. clear IH.
    cbn [rev]. rewrite <- app_assoc. cbn [app].
    rewrite sumle_app by (rewrite rev_length; exact H).
    cbn [sumle]. remember (sumle (rev r)) as x. remember (sumle r) as y. lia.
Qed.

(* ------------------------------------------------------------------ *)
(* byte lists                                                           *)
(* ------------------------------------------------------------------ *)

Lemma bytes_firstn n : forall l, bytes l -> bytes (firstn n l).
Proof.
  unfold bytes. induction n as [|n IH]; intros l H; cbn [firstn]; [constructor|].
  destruct H; constructor; auto.
Qed.

Lemma bytes_skipn n : forall l, bytes l -> bytes (skipn n l).
Proof.
  unfold bytes. induction n as [|n IH]; intros l H; cbn [skipn]; [exact H|].
  destruct H; [constructor|auto].
Qed.

Lemma skipn_add n : forall m (l : list N), skipn (m + n) l = skipn m (skipn n l).
Proof.
  induction n as [|n IH]; intros m l.
  - rewrite Nat.add_0_r. reflexivity.
  - rewrite Nat.add_succ_r. destruct l as [|x l]; cbn [skipn].
    + now rewrite skipn_nil.
    + apply IH.
Qed.

Lemma le_bound l : bytes l -> le l < 256 ^ N.of_nat (length l).
Proof.
  unfold bytes. intros H. induction H as [|a r Ha Hr IH]; cbn [le length].
  - reflexivity.
  - rewrite Nat2N.inj_succ, N.pow_succ_r'. remember (256 ^ N.of_nat (length r)) as p.
    remember (le r) as x. lia.
Qed.

Lemma le_lt_two64 l : bytes l -> (length l <= 8)%nat -> le l < two64.
Proof.
  intros H L. eapply N.lt_le_trans; [apply le_bound; exact H|].
  rewrite two64_256. apply N.pow_le_mono_r; lia.
Qed.

Lemma bytes_le_bytes n : forall x, bytes (bytes_le n x).
Proof.
  unfold bytes. induction n as [|n IH]; intros x; cbn [bytes_le]; constructor.
  - lia.
  - apply IH.
Qed.

Lemma bytes_le_length n : forall x, length (bytes_le n x) = n.
Proof. induction n as [|n IH]; intros x; cbn [bytes_le length]; [reflexivity|now rewrite IH]. Qed.

Lemma le_bytes_le n : forall x, x < 256 ^ N.of_nat n -> le (bytes_le n x) = x.
Proof.
  induction n as [|n IH]; intros x H.
  - cbn [bytes_le le]. change (256 ^ N.of_nat 0) with 1 in H. lia.
  - rewrite Nat2N.inj_succ, N.pow_succ_r' in H. cbn [bytes_le le].
    rewrite IH.
    + lia.
    + remember (256 ^ N.of_nat n) as p. lia.
Qed.

Lemma le_bytes_le8 x : x < two64 -> le (bytes_le 8 x) = x.
Proof. intros H. apply le_bytes_le. exact H. Qed.

(* ------------------------------------------------------------------ *)
(* Add64 carry chains                                                   *)
(* ------------------------------------------------------------------ *)

Fixpoint nsum (l : list N) : N :=
  match l with
  | [] => 0
  | w :: r => w + nsum r
  end.

Definition CI (a c : N) : Prop := a < two64 /\ c <= 1 /\ (c = 1 -> a <= two64 - 2).

Lemma add64_ok a w c : CI a c -> w < two64 ->
  CI ((a + w + c) mod two64) ((a + w + c) / two64) /\
  ((a + w + c) mod two64 + (a + w + c) / two64) mod 65535 = (a + w + c) mod 65535.
Proof.
  unfold CI, two64. intros (H1 & H2 & H3) H4.
  assert (Hs : a + w + c <= 2 * 18446744073709551616 - 2) by lia.
  remember (a + w + c) as s. clear - Hs. split; lia.
Qed.

Lemma chain_ok ws : forall a c, CI a c -> Forall (fun w => w < two64) ws ->
  CI (fst (chain a c ws)) (snd (chain a c ws)) /\
  (fst (chain a c ws) + snd (chain a c ws)) mod 65535 = (a + c + nsum ws) mod 65535.
Proof.
  induction ws as [|w r IH]; intros a c HI HF; cbn [chain nsum].
  - cbn [fst snd]. split; [exact HI|]. now rewrite N.add_0_r.
  - inversion HF as [|? ? Hw Hr]; subst. unfold add64.
    destruct (add64_ok a w c HI Hw) as [HI' Hc].
    destruct (IH _ _ HI' Hr) as [HI'' Hc''].
    split; [exact HI''|]. rewrite Hc''.
    remember ((a + w + c) mod two64) as a'. remember ((a + w + c) / two64) as c'.
    remember (nsum r) as x. clear - Hc. lia.
Qed.

Lemma accum_ok ac ws : ac < two64 -> Forall (fun w => w < two64) ws ->
  accum ac ws < two64 /\ accum ac ws mod 65535 = (ac + nsum ws) mod 65535.
Proof.
  intros Ha Hw. unfold accum.
  assert (HI : CI ac 0) by (unfold CI; lia).
  destruct (chain_ok ws ac 0 HI Hw) as [(H1 & H2 & H3) Hc].
  destruct (chain ac 0 ws) as [a c]. cbn [fst snd] in *.
  assert (Hs : a + c < two64) by (unfold two64 in *; lia).
  rewrite N.mod_small by exact Hs. split; [exact Hs|].
  rewrite Hc. now rewrite N.add_0_r.
Qed.

(* ------------------------------------------------------------------ *)
(* words                                                                *)
(* ------------------------------------------------------------------ *)

Lemma words_ok k : forall b, bytes b -> (8 * k <= length b)%nat ->
  Forall (fun w => w < two64) (words k b) /\
  (nsum (words k b) + sumle (skipn (8 * k) b)) mod 65535 = sumle b mod 65535.
Proof.
  induction k as [|k IH]; intros b Hb Hk.
  - rewrite Nat.mul_0_r. cbn [words nsum skipn]. split; [constructor|reflexivity].
  - rewrite Nat.mul_succ_r in *. cbn [words nsum].
    assert (Hb8 : bytes (skipn 8 b)) by (apply bytes_skipn; exact Hb).
    assert (Hk8 : (8 * k <= length (skipn 8 b))%nat) by (rewrite skipn_length; lia).
    destruct (IH (skipn 8 b) Hb8 Hk8) as [W S].
    split.
    + constructor; [|exact W]. apply le_lt_two64.
      * apply bytes_firstn; exact Hb.
      * apply firstn_le_length.
    + rewrite skipn_add.
      rewrite (sumle_split 8 b) by (try reflexivity; lia).
      pose proof (le_sumle (firstn 8 b)) as L.
      remember (le (firstn 8 b)) as x. remember (sumle (firstn 8 b)) as y.
      remember (nsum (words k (skipn 8 b))) as z.
      remember (sumle (skipn (8 * k) (skipn 8 b))) as u.
      remember (sumle (skipn 8 b)) as v. clear - S L. lia.
Qed.

(* ------------------------------------------------------------------ *)
(* stage invariant                                                      *)
(* ------------------------------------------------------------------ *)

Definition St (Q : N) (st : cst) : Prop :=
  let '(ac, b, len) := st in
  ac < two64 /\ bytes b /\ len = N.of_nat (length b) /\ (ac + sumle b) mod 65535 = Q.

Definition StB (Q m : N) (st : cst) : Prop := St Q st /\ snd st < m.

Lemma consume Q ac b len n ws :
  St Q (ac, b, len) -> (n <= length b)%nat ->
  Forall (fun w => w < two64) ws ->
  (nsum ws + sumle (skipn n b)) mod 65535 = sumle b mod 65535 ->
  St Q (accum ac ws, skipn n b, len - N.of_nat n).
Proof.
  unfold St. intros (Ha & Hb & Hl & HQ) Hn Hw Hs.
  destruct (accum_ok ac ws Ha Hw) as [R C].
  split; [exact R|]. split; [apply bytes_skipn; exact Hb|]. split.
  - rewrite skipn_length. lia.
  - rewrite <- HQ. remember (accum ac ws) as a'. remember (nsum ws) as x.
    remember (sumle (skipn n b)) as y. remember (sumle b) as z. clear - C Hs. lia.
Qed.

Lemma block_step k Q ac b len :
  St Q (ac, b, len) -> 8 * N.of_nat k <= len ->
  St Q (accum ac (words k b), skipn (8 * k) b, len - 8 * N.of_nat k).
Proof.
  intros HS L. pose proof HS as (Ha & Hb & Hl & HQ).
  assert (Hk : (8 * k <= length b)%nat) by lia.
  destruct (words_ok k b Hb Hk) as [W S].
  replace (8 * N.of_nat k) with (N.of_nat (8 * k)) by lia.
  apply consume; assumption.
Qed.

Lemma blk_ok k Q st : StB Q (16 * N.of_nat k) st -> StB Q (8 * N.of_nat k) (blk k st).
Proof.
  destruct st as [[ac b] len]. intros [HS HB]. cbn [snd] in HB. unfold blk.
  destruct (N.leb_spec (8 * N.of_nat k) len) as [L|L].
  - split; [apply block_step; assumption|]. cbn [snd]. lia.
  - split; [exact HS|]. cbn [snd]. exact L.
Qed.

Lemma small_ok n Q st :
  Nat.even n = true -> (n <= 8)%nat ->
  StB Q (2 * N.of_nat n) st -> StB Q (N.of_nat n) (small n st).
Proof.
  intros He H8. destruct st as [[ac b] len]. intros [HS HB]. cbn [snd] in HB. unfold small.
  destruct (N.leb_spec (N.of_nat n) len) as [L|L].
  - split; [|cbn [snd]; lia].
    pose proof HS as (Ha & Hb & Hl & HQ).
    assert (Hn : (n <= length b)%nat) by lia.
    apply consume; try assumption.
    + constructor; [|constructor]. apply le_lt_two64.
      * apply bytes_firstn; exact Hb.
      * pose proof (firstn_le_length n b). lia.
    + cbn [nsum]. rewrite (sumle_split n b He Hn).
      pose proof (le_sumle (firstn n b)) as E.
      remember (le (firstn n b)) as x. remember (sumle (firstn n b)) as y.
      remember (sumle (skipn n b)) as z. clear - E. lia.
  - split; [exact HS|]. cbn [snd]. exact L.
Qed.

Lemma last1_ok Q st : StB Q 2 st -> last1 st < two64 /\ last1 st mod 65535 = Q.
Proof.
  destruct st as [[ac b] len]. intros [(Ha & Hb & Hl & HQ) HB]. cbn [snd] in HB. unfold last1.
  destruct (N.eqb_spec len 1) as [E|E].
  - destruct b as [|x [|y r]]; cbn [length] in Hl; try lia.
    cbn [firstn le]. cbn [sumle] in HQ.
    assert (Hx : x < 256) by (inversion Hb; assumption).
    assert (Hw : Forall (fun w => w < two64) [x + 256 * 0]).
    { constructor; [|constructor]. unfold two64. lia. }
    destruct (accum_ok ac _ Ha Hw) as [R C]. split; [exact R|].
    rewrite C, <- HQ. cbn [nsum]. now rewrite N.mul_0_r, !N.add_0_r.
  - destruct b as [|x r]; cbn [length] in Hl; try lia.
    cbn [sumle] in HQ. split; [exact Ha|]. rewrite <- HQ. now rewrite N.add_0_r.
Qed.

Lemma loop_ok Q fuel : forall ac b len,
  St Q (ac, b, len) -> len < 128 * N.of_nat fuel ->
  StB Q 128 (loop128 fuel ac b len).
Proof.
  induction fuel as [|f IH]; intros ac b len HS HL.
  - lia.
  - cbn [loop128]. destruct (N.leb_spec 128 len) as [L|L].
    + apply IH.
      * exact (block_step 16 Q ac b len HS L).
      * lia.
    + split; [exact HS|]. cbn [snd]. exact L.
Qed.

(* ------------------------------------------------------------------ *)
(* byte swap                                                            *)
(* ------------------------------------------------------------------ *)

Lemma bswap64_ok x : x < two64 ->
  bswap64 x < two64 /\ bswap64 x mod 65535 = (256 * x) mod 65535.
Proof.
  intros H. unfold bswap64.
  pose proof (bytes_le_bytes 8 x) as Hb.
  pose proof (bytes_le_length 8 x) as Hl.
  pose proof (le_bytes_le8 x H) as Hx.
  remember (bytes_le 8 x) as l. split.
  - apply le_lt_two64.
    + apply Forall_rev. exact Hb.
    + rewrite rev_length. lia.
  - rewrite le_sumle.
    assert (He : Nat.even (length (rev l)) = true) by (rewrite rev_length, Hl; reflexivity).
    pose proof (sumle_rev (rev l) He) as R. rewrite rev_involutive in R.
    rewrite <- R. rewrite <- Hx. apply cong_mul. symmetry. apply le_sumle.
Qed.

(* ------------------------------------------------------------------ *)
(* main theorems                                                        *)
(* ------------------------------------------------------------------ *)

Lemma noFold_ok b init : bytes b -> init < two64 ->
  checksumNoFold b init < two64 /\
  checksumNoFold b init mod 65535 = (init + sum16 b) mod 65535.
Proof.
  intros Hb Hi. unfold checksumNoFold.
  destruct (bswap64_ok init Hi) as [R0 C0].
  remember ((bswap64 init + sumle b) mod 65535) as Q.
  assert (S0 : St Q (bswap64 init, b, N.of_nat (length b))).
  { unfold St. repeat split; auto. }
  assert (F : N.of_nat (length b) <
              128 * N.of_nat (S (N.to_nat (N.of_nat (length b) / 128)))).
  { remember (N.of_nat (length b)) as len. lia. }
  pose proof (loop_ok Q _ _ _ _ S0 F) as H128.
  remember (loop128 (S (N.to_nat (N.of_nat (length b) / 128))) (bswap64 init) b
              (N.of_nat (length b))) as st0.
  pose proof (blk_ok 8 Q _ (H128 : StB Q (16 * N.of_nat 8) _)) as H64.
  pose proof (blk_ok 4 Q _ (H64 : StB Q (16 * N.of_nat 4) _)) as H32.
  pose proof (blk_ok 2 Q _ (H32 : StB Q (16 * N.of_nat 2) _)) as H16.
  pose proof (blk_ok 1 Q _ (H16 : StB Q (16 * N.of_nat 1) _)) as H8.
  pose proof (small_ok 4 Q _ eq_refl ltac:(lia) (H8 : StB Q (2 * N.of_nat 4) _)) as H4.
  pose proof (small_ok 2 Q _ eq_refl ltac:(lia) (H4 : StB Q (2 * N.of_nat 2) _)) as H2.
  destruct (last1_ok Q _ (H2 : StB Q 2 _)) as [Rf Cf].
  remember (last1 (small 2 (small 4 (blk 1 (blk 2 (blk 4 (blk 8 st0))))))) as acf.
  destruct (bswap64_ok acf Rf) as [R1 C1].
  split; [exact R1|].
  pose proof (sum16_sumle b) as E.
  rewrite C1.
  remember (bswap64 init) as bi. remember (sumle b) as sl. remember (sum16 b) as s16.
  clear - Cf C0 E HeqQ. subst Q.
  assert (A1 : (256 * acf) mod 65535 = (256 * (bi + sl)) mod 65535).
  { apply cong_mul. exact Cf. }
  assert (A2 : (256 * bi) mod 65535 = (256 * (256 * init)) mod 65535) by (apply cong_mul; exact C0).
  rewrite A1. replace (256 * (bi + sl)) with (256 * bi + 256 * sl) by lia.
  rewrite (cong_add _ _ _ _ A2 E). apply cong_intro with (k := init). lia.
Qed.

Theorem checksumNoFold_range b init :
  bytes b -> init < two64 -> checksumNoFold b init < two64.
Proof. intros Hb Hi. exact (proj1 (noFold_ok b init Hb Hi)). Qed.

Theorem checksum_is_rfc1071 b init :
  bytes b -> init < two64 ->
  checksumNoFold b init mod 65535 = (init + sum16 b) mod 65535.
Proof. intros Hb Hi. exact (proj2 (noFold_ok b init Hb Hi)). Qed.

Lemma cong_step x y z w :
  x mod 65535 = (y + z) mod 65535 -> y mod 65535 = w mod 65535 -> x mod 65535 = (w + z) mod 65535.
Proof. lia. Qed.

Theorem pseudo_is_rfc1071 proto src dst len :
  bytes src -> bytes dst -> proto < 256 -> len < 65536 ->
  pseudoHeaderChecksumNoFold proto src dst len < two64 /\
  pseudoHeaderChecksumNoFold proto src dst len mod 65535 = pseudo_sum proto src dst len mod 65535.
Proof.
  intros Hs Hd Hp Hl. unfold pseudoHeaderChecksumNoFold, pseudo_sum.
  assert (H0 : 0 < two64) by reflexivity.
  assert (Bp : bytes [0; proto]).
  { unfold bytes. repeat constructor; lia. }
  assert (Bl : bytes [len / 256; len mod 256]).
  { unfold bytes. repeat constructor; lia. }
  destruct (noFold_ok src 0 Hs H0) as [R1 C1].
  remember (checksumNoFold src 0) as s1.
  destruct (noFold_ok dst s1 Hd R1) as [R2 C2].
  remember (checksumNoFold dst s1) as s2.
  destruct (noFold_ok _ s2 Bp R2) as [R3 C3].
  remember (checksumNoFold [0; proto] s2) as s3.
  destruct (noFold_ok _ s3 Bl R3) as [R4 C4].
  remember (checksumNoFold [len / 256; len mod 256] s3) as s4.
  split; [exact R4|].
  cbn [sum16] in C3, C4.
  remember (sum16 src) as a. remember (sum16 dst) as d.
  clear - C1 C2 C3 C4.
  pose proof (cong_step _ _ _ _ C2 C1) as D2.
  pose proof (cong_step _ _ _ _ C3 D2) as D3.
  pose proof (cong_step _ _ _ _ C4 D3) as D4.
  rewrite D4. clear C1 C2 C3 C4 D2 D3 D4. f_equal. lia.
Qed.

Theorem checksum_fold b init :
  bytes b -> init < two64 ->
  checksum b init = fold4 (checksumNoFold b init) /\ checksum b init <= 65535.
Proof.
  intros Hb Hi. unfold checksum.
  pose proof (checksumNoFold_range b init Hb Hi) as R. rewrite two64_eq in R.
  pose proof (fold4_range _ R) as F.
  remember (fold4 (checksumNoFold b init)) as y. clear - F.
  rewrite N.mod_small by lia. split; [reflexivity|exact F].
Qed.

Theorem checksum_cong b init :
  bytes b -> init < two64 -> checksum b init mod 65535 = (init + sum16 b) mod 65535.
Proof.
  intros Hb Hi. destruct (checksum_fold b init Hb Hi) as [E _].
  rewrite E, fold4_cong. apply checksum_is_rfc1071; assumption.
Qed.

(* ------------------------------------------------------------------ *)
(* Storing the complement makes the region verify                       *)
(* ------------------------------------------------------------------ *)

(* [S] is what a receiver adds up over the region with a zero checksum field (pseudo header
   included); the code stores ^checksum(b, init) where init + sum16 b is congruent to S. *)
Theorem complement_verifies b init S :
  bytes b -> init < two64 ->
  (init + sum16 b) mod 65535 = S mod 65535 -> S <> 0 ->
  oc_valid (S + (65535 - checksum b init)).
Proof.
  intros Hb Hi Hc Hs.
  destruct (checksum_fold b init Hb Hi) as [_ Hle].
  pose proof (checksum_cong b init Hb Hi) as Hcg.
  rewrite Hc in Hcg. unfold oc_valid.
  set (c := checksum b init) in *. split; [lia|].
  clearbody c. lia.
Qed.

(* the same for a 16-bit value already folded: checksum never exceeds 0xffff *)
Lemma checksum_le b init : bytes b -> init < two64 -> checksum b init <= 65535.
Proof. intros Hb Hi. apply (checksum_fold b init Hb Hi). Qed.
