(* Correspondence checker for C17.  Depends on the model (Gso), the specification (GsoSpec) and
   the byte/checksum libraries only.
     kind 1 : the implementation's result differs from the mirror model
              (pos = 65536 * segment + byte offset; 2^40 + x for count/error/panic differences)
     kind 2 : the specification fails on the implementation's result
              (pos = 100 * segment + clause number of GsoSpec; 40 = panic, 41 = bytes outside
              bufs[i][offset:offset+sizes[i]] differ from the stale pattern the harness put there,
              on a well-formed input) *)
From Coq Require Import Uint63.
From WG Require Import Base.Prelude Base.Ints Gen.Constants Offload.Bytes Offload.Checksum Offload.Gso Offload.GsoSpec.
Local Open Scope N_scope.

Record vcase := {
  c_raw : list N; c_nbufs : N; c_room : N; c_gseed : N;
  c_panic : bool; c_touched : bool; c_n : N; c_err : N; c_segs : list (list N) }.

(* Byte strings come packed 7 bytes per primitive integer. *)
(* Seven bytes per primitive integer, little end first, as Base.Ints.unpack7, but split with
   primitive shifts and masks (Base.Ints goes through Z and N division: 5x slower). *)
Definition byte_n (v : int) : N :=
  let b (k : int) (acc : N) : N :=
    if Uint63.eqb (Uint63.land (Uint63.lsr v k) 1) 0 then N.double acc else N.succ_double acc in
  b 0%uint63 (b 1%uint63 (b 2%uint63 (b 3%uint63 (b 4%uint63 (b 5%uint63 (b 6%uint63 (b 7%uint63 0))))))).
Definition byte_at (x : int) (sh : int) : N := byte_n (Uint63.land (Uint63.lsr x sh) 255).
Fixpoint unpack7f (l : list int) : list N :=
  match l with
  | [] => []
  | x :: t =>
      byte_at x 0 :: byte_at x 8 :: byte_at x 16 :: byte_at x 24 :: byte_at x 32 :: byte_at x 40
        :: byte_at x 48 :: unpack7f t
  end.
Definition unpackN (n : N) (l : list int) : list N := firstn (N.to_nat n) (unpack7f l).
(* agreement with Base.Ints on a sample *)
Definition unpack_selftest : bool :=
  let l := [0; 1; 255; 256; 72057594037927935; 4660; 1234567890123456; 71777214294589695]%uint63 in
  (fix eqb (a b : list N) : bool :=
     match a, b with
     | [], [] => true
     | x :: a', y :: b' => (x =? y) && eqb a' b'
     | _, _ => false
     end) (unpack7f l) (unpack7 l).
(* a case is a virtio-net read, or a direct call of checksumNoFold/checksum, or of
   pseudoHeaderChecksumNoFold (64-bit values travel as two 32-bit halves) *)
Inductive case :=
| CV (v : vcase)
| CK (init : N) (b : list N) (o_nofold o_ck : N)
| CP (proto : N) (src dst : list N) (tlen : N) (o_nofold : N).

Definition mk (rawlen : N) (raw : list int) (nbufs room gseed : N) (panic touched : bool) (n err : N)
              (segs : list (N * list int)) : case :=
  CV {| c_raw := unpackN rawlen raw; c_nbufs := nbufs; c_room := room; c_gseed := gseed;
        c_panic := panic; c_touched := touched; c_n := n; c_err := err;
        c_segs := map (fun s => unpackN (fst s) (snd s)) segs |}.
Definition w64 (hi lo : N) : N := hi * 4294967296 + lo.
Definition mkck (ihi ilo n : N) (b : list int) (ohi olo ock : N) : case :=
  CK (w64 ihi ilo) (unpackN n b) (w64 ohi olo) ock.
Definition mkph (proto ns : N) (src : list int) (nd : N) (dst : list int) (tlen ohi olo : N) : case :=
  CP proto (unpackN ns src) (unpackN nd dst) tlen (w64 ohi olo).

Fixpoint first_diff (a b : list N) (i : N) : option N :=
  match a, b with
  | [], [] => None
  | x :: a', y :: b' => if x =? y then first_diff a' b' (i + 1) else Some i
  | _, _ => Some i
  end.

Fixpoint segs_diff (a b : list (list N)) (i : N) : option N :=
  match a, b with
  | [], [] => None
  | x :: a', y :: b' =>
      match first_diff x y 0 with
      | Some k => Some (65536 * i + k)
      | None => segs_diff a' b' (i + 1)
      end
  | _, _ => Some (65536 * i + 65535)
  end.

Definition P40 : N := 1099511627776.

Definition model_diff (k : vcase) : option N :=
  match handle_virtio_read (c_raw k) (c_nbufs k) (c_room k) (c_gseed k) with
  | Panic => if c_panic k then None else Some (P40 + 1)
  | Done n e segs =>
      if c_panic k then Some (P40 + 2)
      else if negb (e =? c_err k) then Some (P40 + 100 + e)
      else if negb (n =? c_n k) then Some (P40 + 3)
      else segs_diff segs (c_segs k) 0
  end.

Definition spec_diff (k : vcase) : option N :=
  match parse_super (c_raw k) with
  | Some sp =>
      if wf_superb sp && (1 <=? c_nbufs k) then
        if c_panic k then Some 40
        else if c_touched k then Some 41
        else match holds_super sp (c_nbufs k) (c_n k) (c_err k) (c_segs k) with
             | Some (i, c) => Some (100 * i + c)
             | None => None
             end
      else None
  | None =>
      match parse_partial (c_raw k) with
      | Some pp =>
          if wf_partialb pp && (len (p_pkt pp) <=? c_room k) then
            if c_panic k then Some 40
            else if c_touched k then Some 41
            else if negb (c_err k =? 0) then Some K_error
            else if negb (c_n k =? 1) then Some K_count
            else match c_segs k with
                 | [o] => let c := partial_check pp o in if c =? 0 then None else Some c
                 | _ => Some K_count
                 end
          else None
      | None =>
          (* gso_type NONE without NEEDS_CSUM: the packet is passed through unchanged *)
          if (10 <=? len (c_raw k)) && (get8 (c_raw k) 1 =? 0) && (len (c_raw k) - 10 <=? c_room k) then
            if c_panic k then Some 40
            else if c_touched k then Some 41
            else match c_segs k with
                 | [o] => if (c_err k =? 0) && (c_n k =? 1) && list_eqb o (sub (c_raw k) 10 (len (c_raw k)))
                          then None else Some 35
                 | _ => Some K_count
                 end
          else None
      end
  end.

(* direct calls of tun/checksum.go.
   kind 1: 2^40+200 checksumNoFold differs from the mirror, +201 checksum differs, +202 pseudo header
   kind 2: clause 50 checksumNoFold(b, init) is not < 2^64 and congruent to init + sum16 b modulo 0xffff,
           51 checksum(b, init) is not the 16-bit one's-complement sum of init + sum16 b,
           52 the pseudo-header accumulator is not congruent to src + dst + proto + len *)
Definition check_ck (init : N) (b : list N) (o_nofold o_ck : N) : list (N * N) :=
  let S := init + sum16 b in
  (if negb (checksumNoFold b init =? o_nofold) then [(1, P40 + 200)]
   else if negb (checksum b init =? o_ck) then [(1, P40 + 201)] else []) ++
  (if negb ((o_nofold <? two64) && (o_nofold mod 65535 =? S mod 65535)) then [(2, 50)]
   else if negb (o_ck =? oc16 S) then [(2, 51)] else []).

Definition check_ph (proto : N) (src dst : list N) (tlen o : N) : list (N * N) :=
  (if negb (pseudoHeaderChecksumNoFold proto src dst tlen =? o) then [(1, P40 + 202)] else []) ++
  (if negb ((o <? two64) && (o mod 65535 =? pseudo_sum proto src dst tlen mod 65535)) then [(2, 52)] else []).

Definition check_case (c : case) : list (N * N) :=
  match c with
  | CV k =>
      (match model_diff k with Some p => [(1, p)] | None => [] end) ++
      (match spec_diff k with Some p => [(2, p)] | None => [] end)
  | CK init b o1 o2 => check_ck init b o1 o2
  | CP proto src dst tlen o => check_ph proto src dst tlen o
  end.

(* does a 4-, 2- or 1-byte tail step of checksumNoFold carry out of bit 63 (mirror)? *)
Definition tail_carry (b : list N) (initial : N) : bool :=
  let len := N.of_nat (length b) in
  let st := blk 1 (blk 2 (blk 4 (blk 8 (loop128 (S (N.to_nat (len / 128))) (bswap64 initial) b len)))) in
  let carries (n : nat) (st : cst) : bool :=
    let '(ac, b, len) := st in (N.of_nat n <=? len) && (two64 <=? ac + le (firstn n b)) in
  let st4 := small 4 st in
  let st2 := small 2 st4 in
  carries 4%nat st || carries 2%nat st4 ||
  (let '(ac, b, len) := st2 in (len =? 1) && (two64 <=? ac + le (firstn 1 b))).

(* the x/sys/unix constants the model and the specification spell out, as the Go compiler has them:
   [GSO_NONE; GSO_TCPV4; GSO_TCPV6; GSO_UDP_L4; F_NEEDS_CSUM; IPPROTO_TCP; IPPROTO_UDP] *)
Definition abi_ok (l : list int) : bool :=
  list_eqb (ns_of_ints l)
    [VIRTIO_NET_HDR_GSO_NONE; VIRTIO_NET_HDR_GSO_TCPV4; VIRTIO_NET_HDR_GSO_TCPV6;
     VIRTIO_NET_HDR_GSO_UDP_L4; VIRTIO_NET_HDR_F_NEEDS_CSUM; IPPROTO_TCP; IPPROTO_UDP].

Fixpoint check_from (ks : list case) (idx : N) : list (N * N * N) :=
  match ks with
  | [] => []
  | k :: ks' => map (fun p => (idx, fst p, snd p)) (check_case k) ++ check_from ks' (idx + 1)
  end.

Definition check_cases (abi : list int) (ks : list case) (idx : N) : list (N * N * N) :=
  (if abi_ok abi && unpack_selftest then [] else [(0, 1, P40 + 99)]) ++ check_from ks idx.

(* Branch histogram over the observed results.
   0..11 error class returned (0 = nil), 12 panic, 13 GSO_NONE plain, 14 GSO_NONE+NEEDS_CSUM,
   15 TCPv4, 16 TCPv6, 17 UDPv4, 18 UDPv6 (well-formed super-packets),
   19 specification evaluated on a super-packet, 20 on a checksum-completion packet,
   21 segments checked by the specification,
   22 direct checksumNoFold/checksum calls, 23 of them with a carry out of bit 63 in a 4/2/1-byte
   tail step, 24 direct pseudoHeaderChecksumNoFold calls *)
Fixpoint bump (l : list N) (i : nat) (d : N) : list N :=
  match l, i with
  | [], _ => []
  | x :: t, O => (x + d) :: t
  | x :: t, S j => x :: bump t j d
  end.

Definition classify (k : vcase) (st : list N) : list N :=
  let st := if c_panic k then bump st 12 1 else bump st (N.to_nat (c_err k)) 1 in
  match parse_super (c_raw k) with
  | Some sp =>
      if wf_superb sp then
        let st := bump st (if s_tcp sp then (if s_v6 sp then 16 else 15) else (if s_v6 sp then 18 else 17)) 1 in
        bump (bump st 19 1) 21 (c_n k)
      else st
  | None =>
      match parse_partial (c_raw k) with
      | Some pp => let st := bump st 14 1 in if wf_partialb pp then bump (bump st 20 1) 21 1 else st
      | None => if (10 <=? len (c_raw k)) && (get8 (c_raw k) 1 =? 0) then bump st 13 1 else st
      end
  end.

Definition stats (ks : list case) : list N :=
  fold_left (fun st c =>
               match c with
               | CV k => classify k st
               | CK init b _ _ => let st := bump st 22 1 in if tail_carry b init then bump st 23 1 else st
               | CP _ _ _ _ _ => bump st 24 1
               end) ks (repeat 0 25).
