(* Byte strings as [list N] (every element below 256) with N offsets, as Go slices are used in
   tun/offload_linux.go: big-endian field access, sub-slices, copy.  Operations are total:
   reads outside the list give 0 and writes outside are dropped; the model (Gso.v) tests the
   bounds explicitly wherever the Go code would panic.  Pointwise ([get8]) lemmas below. *)
From WG Require Import Base.Prelude.
Local Open Scope N_scope.

Definition len (l : list N) : N := N.of_nat (length l).

Definition get8 (l : list N) (i : N) : N := nth (N.to_nat i) l 0.

Fixpoint set_nth (l : list N) (i : nat) (v : N) : list N :=
  match l, i with
  | [], _ => []
  | _ :: r, O => v :: r
  | x :: r, S j => x :: set_nth r j v
  end.
Definition set8 (l : list N) (i v : N) : list N := set_nth l (N.to_nat i) v.

(* binary.BigEndian.Uint16 / PutUint16 / Uint32 / PutUint32 at offset i *)
Definition get16 (l : list N) (i : N) : N := get8 l i * 256 + get8 l (i + 1).
Definition set16 (l : list N) (i w : N) : list N :=
  set8 (set8 l i (w / 256)) (i + 1) (w mod 256).
Definition get32 (l : list N) (i : N) : N :=
  ((get8 l i * 256 + get8 l (i + 1)) * 256 + get8 l (i + 2)) * 256 + get8 l (i + 3).
Definition set32 (l : list N) (i w : N) : list N :=
  set8 (set8 (set8 (set8 l i (w / 16777216)) (i + 1) (w / 65536 mod 256))
             (i + 2) (w / 256 mod 256)) (i + 3) (w mod 256).

(* l[a:b] *)
Definition sub (l : list N) (a b : N) : list N :=
  firstn (N.to_nat (b - a)) (skipn (N.to_nat a) l).

(* copy(dst[o:], src): as many bytes as fit *)
Fixpoint copy_nat (d : list N) (o : nat) (s : list N) : list N :=
  match d with
  | [] => []
  | x :: d' =>
      match o with
      | S o' => x :: copy_nat d' o' s
      | O => match s with
             | [] => d
             | y :: s' => y :: copy_nat d' O s'
             end
      end
  end.
Definition copy_at (d : list N) (o : N) (s : list N) : list N := copy_nat d (N.to_nat o) s.

Definition zeros (n : N) : list N := repeat 0 (N.to_nat n).

(* ------------------------------------------------------------------ *)
(* Lengths                                                              *)
(* ------------------------------------------------------------------ *)

Lemma length_set_nth l i v : length (set_nth l i v) = length l.
Proof. revert i; induction l as [|x l IH]; intros [|i]; cbn [set_nth length]; auto. Qed.

Lemma len_set8 l i v : len (set8 l i v) = len l.
Proof. unfold len, set8. now rewrite length_set_nth. Qed.

Lemma len_set16 l i w : len (set16 l i w) = len l.
Proof. unfold set16. now rewrite !len_set8. Qed.

Lemma len_set32 l i w : len (set32 l i w) = len l.
Proof. unfold set32. now rewrite !len_set8. Qed.

Lemma length_copy_nat d o s : length (copy_nat d o s) = length d.
Proof.
  revert o s; induction d as [|x d IH]; intros o s; cbn [copy_nat length]; auto.
  destruct o; [destruct s|]; cbn [length]; auto.
Qed.

Lemma len_copy_at d o s : len (copy_at d o s) = len d.
Proof. unfold len, copy_at. now rewrite length_copy_nat. Qed.

Lemma len_app a b : len (a ++ b) = len a + len b.
Proof. unfold len. rewrite app_length. lia. Qed.

Lemma len_sub l a b : a <= b -> b <= len l -> len (sub l a b) = b - a.
Proof.
  unfold len, sub. intros H1 H2. rewrite firstn_length, skipn_length. lia.
Qed.

Lemma len_zeros n : len (zeros n) = n.
Proof. unfold len, zeros. rewrite repeat_length. lia. Qed.

Lemma len_firstn l n : n <= len l -> len (firstn (N.to_nat n) l) = n.
Proof. unfold len. intros H. rewrite firstn_length. lia. Qed.

Lemma len_skipn l n : len (skipn (N.to_nat n) l) = len l - n.
Proof. unfold len. rewrite skipn_length. lia. Qed.

(* ------------------------------------------------------------------ *)
(* Pointwise                                                            *)
(* ------------------------------------------------------------------ *)

Lemma nth_set_nth l i v k :
  nth k (set_nth l i v) 0 = if (Nat.eqb k i && Nat.ltb i (length l))%bool then v else nth k l 0.
Proof.
  revert i k; induction l as [|x l IH]; intros i k.
  - cbn [set_nth length]. replace (Nat.ltb i 0) with false by (destruct i; reflexivity).
    rewrite Bool.andb_false_r. reflexivity.
  - destruct i as [|i], k as [|k]; cbn [set_nth nth length]; try reflexivity.
    rewrite IH. reflexivity.
Qed.

Lemma get8_set8 l i v k :
  get8 (set8 l i v) k = if (k =? i) && (i <? len l) then v else get8 l k.
Proof.
  unfold get8, set8, len. rewrite nth_set_nth.
  destruct (Nat.eqb_spec (N.to_nat k) (N.to_nat i)), (N.eqb_spec k i); try lia;
    destruct (Nat.ltb_spec (N.to_nat i) (length l)), (N.ltb_spec i (N.of_nat (length l))); try lia; reflexivity.
Qed.

Lemma get8_set8_other l i v k : k <> i -> get8 (set8 l i v) k = get8 l k.
Proof. intros H. rewrite get8_set8. destruct (N.eqb_spec k i); [contradiction|reflexivity]. Qed.

Lemma get8_set8_same l i v : i < len l -> get8 (set8 l i v) i = v.
Proof.
  intros H. rewrite get8_set8, N.eqb_refl. destruct (N.ltb_spec i (len l)); [reflexivity|lia].
Qed.

Lemma get8_out l k : len l <= k -> get8 l k = 0.
Proof. unfold get8, len. intros H. apply nth_overflow. lia. Qed.

Lemma nth_copy_nat d o s k :
  nth k (copy_nat d o s) 0 =
  if (Nat.leb o k && Nat.ltb k (o + length s) && Nat.ltb k (length d))%bool
  then nth (k - o) s 0 else nth k d 0.
Proof.
  revert o s k; induction d as [|x d IH]; intros o s k.
  - cbn [copy_nat length]. rewrite Bool.andb_false_r. reflexivity.
  - destruct o as [|o].
    + destruct s as [|y s].
      * cbn [copy_nat length]. rewrite Bool.andb_false_r. reflexivity.
      * cbn [copy_nat]. destruct k as [|k]; [reflexivity|].
        cbn [nth]. rewrite IH. cbn [length]. rewrite !Nat.sub_0_r.
        destruct k; reflexivity.
    + cbn [copy_nat]. destruct k as [|k]; [reflexivity|].
      cbn [nth]. rewrite IH. reflexivity.
Qed.

Lemma get8_copy_at d o s k :
  get8 (copy_at d o s) k =
  if (o <=? k) && (k <? o + len s) && (k <? len d) then get8 s (k - o) else get8 d k.
Proof.
  unfold get8, copy_at, len. rewrite nth_copy_nat.
  replace (N.to_nat (k - o)) with (N.to_nat k - N.to_nat o)%nat by lia.
  destruct (Nat.leb_spec (N.to_nat o) (N.to_nat k)), (N.leb_spec o k); try lia; cbn [andb]; try reflexivity.
  destruct (Nat.ltb_spec (N.to_nat k) (N.to_nat o + length s)), (N.ltb_spec k (o + N.of_nat (length s)));
    try lia; cbn [andb]; try reflexivity.
  destruct (Nat.ltb_spec (N.to_nat k) (length d)), (N.ltb_spec k (N.of_nat (length d))); try lia; reflexivity.
Qed.

Lemma nth_skipn_nat (l : list N) a k : nth k (skipn a l) 0 = nth (a + k) l 0.
Proof.
  revert l; induction a as [|a IH]; intros l; [reflexivity|].
  destruct l as [|x l]; cbn [skipn plus nth]; [destruct k; reflexivity|apply IH].
Qed.

Lemma nth_firstn_nat (l : list N) n k : nth k (firstn n l) 0 = if Nat.ltb k n then nth k l 0 else 0.
Proof.
  revert l k; induction n as [|n IH]; intros l k.
  - cbn [firstn]. destruct k; reflexivity.
  - destruct l as [|x l]; cbn [firstn].
    + destruct k; cbn [nth]; destruct (Nat.ltb _ _); reflexivity.
    + destruct k as [|k]; cbn [nth]; [reflexivity|]. rewrite IH. reflexivity.
Qed.

Lemma get8_sub l a b k : get8 (sub l a b) k = if k <? b - a then get8 l (a + k) else 0.
Proof.
  unfold get8, sub. rewrite nth_firstn_nat, nth_skipn_nat.
  replace (N.to_nat (a + k)) with (N.to_nat a + N.to_nat k)%nat by lia.
  destruct (Nat.ltb_spec (N.to_nat k) (N.to_nat (b - a))), (N.ltb_spec k (b - a)); try lia; reflexivity.
Qed.

Lemma get8_app l1 l2 k :
  get8 (l1 ++ l2) k = if k <? len l1 then get8 l1 k else get8 l2 (k - len l1).
Proof.
  unfold get8, len. destruct (N.ltb_spec k (N.of_nat (length l1))).
  - apply app_nth1. lia.
  - rewrite app_nth2 by lia. f_equal. lia.
Qed.

Lemma get8_zeros n k : get8 (zeros n) k = 0.
Proof.
  unfold get8, zeros. generalize (N.to_nat k) as j, (N.to_nat n) as m.
  intros j m; revert j; induction m as [|m IH]; intros [|j]; cbn [repeat nth]; auto.
Qed.

(* extensionality *)
Lemma list_ext (a b : list N) : length a = length b -> (forall k, nth k a 0 = nth k b 0) -> a = b.
Proof.
  revert b; induction a as [|x a IH]; intros [|y b] Hl H; cbn [length] in Hl; try discriminate; auto.
  f_equal; [exact (H O)|]. apply IH; [lia|]. intros k. exact (H (S k)).
Qed.

Lemma bytes_ext (a b : list N) : len a = len b -> (forall k, k < len a -> get8 a k = get8 b k) -> a = b.
Proof.
  unfold len, get8. intros Hl H. apply list_ext; [lia|].
  intros k. destruct (Nat.ltb_spec k (length a)) as [Hk|Hk].
  - specialize (H (N.of_nat k) ltac:(lia)). now rewrite Nat2N.id in H.
  - rewrite !nth_overflow by lia. reflexivity.
Qed.
