(* C16/C17 source tie: tun/checksum.go -> deep-embedded AST (Gen/CsumAst.v, produced by harness/cmd/csumast) ->
   interpreter (Offload/CsumAst.v) = hand-written mirror (Offload/Checksum.v) = RFC 1071 sum, for ALL inputs.

   Proved here (Print Assumptions at the end: closed):
   (A) ast_checksum_folds     : checksum's four folds + uint16() interpreted = fold4 x mod 65536 for EVERY value
                                x < 2^64 returned by the callee (any callee, any fuel).
   (C) ast_noFold_is_mirror   : forall b i, bytes b -> run_noFold noFold_body b i = Some (checksumNoFold b i)
                                (every length: loop invariant over the 128-byte loop + the 64/32/16/8/4/2/1 cascade;
                                no bound on i is needed); hence, with Checksum.checksum_is_rfc1071,
       ast_noFold_rfc1071     : ... = Some r, r < 2^64, r mod 65535 = (i + sum16 b) mod 65535     (i < 2^64)
       ast_checksum_is_mirror : run_checksum noFold_body checksum_body b i = Some (checksum b i)
       ast_checksum_rfc1071   : ... = Some r, r <= 65535, r mod 65535 = (i + sum16 b) mod 65535
   (B) ast_pseudo_structure   : for EVERY body nf of checksumNoFold, run_pseudo nf pseudo_body = four chained
                                run_noFold nf calls on src, dst, [0; proto], [tl/256 mod 256; tl mod 256];
       ast_pseudo_is_mirror, ast_pseudo_rfc1071 : = the mirror, congruent to pseudo_sum.
   ast_agrees_on_grid : vm_compute smoke test (redundant with the theorems).

   Little-endian host assumed (ELoadLE for binary.NativeEndian): see Offload/CsumAst.v.
   The proof SCRIPT follows the shape of the generated term (14 top-level statements, k Add64 per block). *)
From Coq Require Import String.
From WG Require Import Base.Prelude Offload.Checksum Offload.CsumAst Gen.CsumAst.
Local Open Scope N_scope.

Arguments sem_slice : simpl never.
Arguments sem_load_le : simpl never.
Arguments sem_load_be : simpl never.
Arguments sem_store_le : simpl never.
Arguments sem_store_be : simpl never.
Arguments sem_index : simpl never.
Arguments add64 : simpl never.
Arguments len : simpl never.
Arguments N.leb : simpl never.
Arguments N.ltb : simpl never.
Arguments N.eqb : simpl never.
Arguments binop_sem : simpl never.
Arguments firstn : simpl never.
Arguments skipn : simpl never.
Arguments le : simpl never.
Arguments bswap64 : simpl never.
Arguments bytes_le : simpl never.
Arguments N.modulo : simpl never.
Arguments N.pow : simpl never.
Arguments fold4 : simpl never.
Arguments accum : simpl never.

(* ---------------- (A) checksum: four folds and truncation ---------------- *)

Lemma fold_step x : x < two64 ->
  binop_sem OAdd (binop_sem OShr x 16) (binop_sem OAnd x 65535) = fold1 x.
Proof.
  intros H. unfold binop_sem, fold1.
  rewrite N.shiftr_div_pow2. change 65535 with (N.ones 16). rewrite N.land_ones.
  change (2 ^ 16) with 65536. apply N.mod_small.
  pose proof (fold1_le x) as L. unfold fold1 in L. lia.
Qed.

Lemma fold1_lt x : x < two64 -> fold1 x < two64.
Proof. pose proof (fold1_le x). lia. Qed.

Definition b_i_env (b : list N) (i : N) : env := [("b"%string, VB b); ("initial"%string, VN i)].

Theorem ast_checksum_folds : forall cal fuel b i x,
  cal "checksumNoFold"%string (VB b) (VN i) = Some (VN x) -> x < two64 ->
  exec cal fuel checksum_body (b_i_env b i) = Some (Returned (VN (fold4 x mod 65536))).
Proof.
  intros cal fuel b i x Hc Hx. unfold checksum_body, b_i_env. cbn. rewrite Hc. cbn.
  rewrite (fold_step x Hx).
  rewrite (fold_step _ (fold1_lt _ Hx)).
  rewrite (fold_step _ (fold1_lt _ (fold1_lt _ Hx))).
  rewrite (fold_step _ (fold1_lt _ (fold1_lt _ (fold1_lt _ Hx)))).
  reflexivity.
Qed.

(* ---------------- (C) checksumNoFold ---------------- *)

Fixpoint nth_stmt (n : nat) (s : stmt) : stmt :=
  match s with
  | SSeq a r => match n with O => a | S k => nth_stmt k r end
  | _ => SSkip
  end.

Definition mkenv (c a : N) (t b : list N) (i : N) : env :=
  [("carry"%string, VN c); ("ac"%string, VN a); ("tmp"%string, VB t); ("b"%string, VB b); ("initial"%string, VN i)].

Lemma exec_seq cal fuel a r st : exec cal fuel (SSeq a r) st = andthen (exec cal fuel a st) (exec cal fuel r).
Proof. reflexivity. Qed.

Lemma exec_if cal fuel c t e st v : evalb cal c st = Some v ->
  exec cal fuel (SIf c t e) st = if v then exec cal fuel t st else exec cal fuel e st.
Proof. intros H. cbn [exec]. rewrite H. destruct v; reflexivity. Qed.

Lemma sem_slice_ok l lo hi : lo <= hi -> hi <= len l ->
  sem_slice l lo hi = Some (firstn (N.to_nat (hi - lo)) (skipn (N.to_nat lo) l)).
Proof.
  intros A B. unfold sem_slice.
  replace (lo <=? hi) with true by (symmetry; apply N.leb_le; exact A).
  replace (hi <=? len l) with true by (symmetry; apply N.leb_le; exact B). reflexivity.
Qed.

Lemma len_skipn n l : len (skipn n l) = len l - N.of_nat n.
Proof. unfold len. rewrite skipn_length. apply Nat2N.inj_sub. Qed.

Lemma load_slice l lo hi n : lo + n = hi -> hi <= len l ->
  obind (as_bytes (option_map VB (sem_slice l lo hi))) (fun s => option_map VN (sem_load_le n s))
  = Some (VN (le (firstn (N.to_nat n) (skipn (N.to_nat lo) l)))).
Proof.
  intros A B. rewrite sem_slice_ok by lia. cbn [option_map as_bytes obind].
  replace (hi - lo) with n by lia. unfold sem_load_le.
  assert (L : len (firstn (N.to_nat n) (skipn (N.to_nat lo) l)) = n).
  { unfold len in *. rewrite firstn_length, skipn_length. lia. }
  rewrite L, N.leb_refl. cbn [option_map]. rewrite firstn_firstn, Nat.min_id. reflexivity.
Qed.

Lemma words_flat k : forall b j,
  words k (skipn j b) = map (fun i => le (firstn 8 (skipn (8 * i + j) b))) (seq 0 k).
Proof.
  induction k as [|k IH]; intros b j; [reflexivity|].
  cbn [words]. rewrite <- skipn_add. rewrite IH. cbn [seq map]. f_equal.
  rewrite <- seq_shift, map_map. apply map_ext. intros i. do 3 f_equal. lia.
Qed.

Lemma words_flat0 k b : words k b = map (fun i => le (firstn 8 (skipn (8 * i) b))) (seq 0 k).
Proof.
  change b with (skipn 0 b) at 1. rewrite words_flat. apply map_ext. intros i. do 3 f_equal. lia.
Qed.

(* the mirror's blocks on (accumulator, remaining bytes) *)
Definition blk' (k : nat) (p : N * list N) : N * list N :=
  let '(ac, b) := p in
  if 8 * N.of_nat k <=? len b then (accum ac (words k b), skipn (8 * k) b) else p.
Definition cst_of (p : N * list N) : cst := (fst p, snd p, len (snd p)).

Lemma blk_cst k p : blk k (cst_of p) = cst_of (blk' k p).
Proof.
  destruct p as [a b]. unfold blk, blk', cst_of. cbn [fst snd].
  destruct (8 * N.of_nat k <=? len b) eqn:E; [|reflexivity]. cbn [fst snd].
  rewrite len_skipn. do 2 f_equal. lia.
Qed.

Lemma tail_slice l lo : lo <= len l -> sem_slice l lo (len l) = Some (skipn (N.to_nat lo) l).
Proof.
  intros A. rewrite sem_slice_ok by lia. f_equal. apply firstn_all2.
  unfold len in *. rewrite skipn_length. lia.
Qed.

Definition s_pre0 : stmt := Eval cbv in nth_stmt 0 noFold_body.
Definition s_pre1 : stmt := Eval cbv in nth_stmt 1 noFold_body.
Definition s_pre2 : stmt := Eval cbv in nth_stmt 2 noFold_body.
Definition s_pre3 : stmt := Eval cbv in nth_stmt 3 noFold_body.
Definition s_loop : stmt := Eval cbv in nth_stmt 4 noFold_body.
Definition s_if64 : stmt := Eval cbv in nth_stmt 5 noFold_body.
Definition s_if32 : stmt := Eval cbv in nth_stmt 6 noFold_body.
Definition s_if16 : stmt := Eval cbv in nth_stmt 7 noFold_body.
Definition s_if8 : stmt := Eval cbv in nth_stmt 8 noFold_body.
Definition s_if4 : stmt := Eval cbv in nth_stmt 9 noFold_body.
Definition s_if2 : stmt := Eval cbv in nth_stmt 10 noFold_body.
Definition s_if1 : stmt := Eval cbv in nth_stmt 11 noFold_body.
Definition s_post0 : stmt := Eval cbv in nth_stmt 12 noFold_body.
Definition s_post1 : stmt := Eval cbv in nth_stmt 13 noFold_body.
Definition s_loop_cond : bexpr := Eval cbv in match s_loop with SWhile c _ => c | _ => BUnknown "" end.
Definition s_loop_body : stmt := Eval cbv in match s_loop with SWhile _ b => b | _ => SUnknown "" end.

Lemma body_split : noFold_body =
  SSeq s_pre0 (SSeq s_pre1 (SSeq s_pre2 (SSeq s_pre3 (SSeq (SWhile s_loop_cond s_loop_body)
  (SSeq s_if64 (SSeq s_if32 (SSeq s_if16 (SSeq s_if8 (SSeq s_if4 (SSeq s_if2 (SSeq s_if1
  (SSeq s_post0 (SSeq s_post1 SSkip))))))))))))).
Proof. reflexivity. Qed.

Definition post (r : option outcome) (a : N) (t b : list N) (i : N) : Prop :=
  exists c, r = Some (Normal (mkenv c a t b i)).

Ltac side := first [ reflexivity | unfold len in *; cbn; lia ].

Ltac norm_nat :=
  repeat match goal with |- context [Pos.to_nat ?p] =>
    let v := eval compute in (Pos.to_nat p) in change (Pos.to_nat p) with v end.

Ltac step_add :=
  rewrite exec_seq;
  match goal with |- post (andthen _ ?K) _ _ _ _ =>
    let k := fresh "K" in let hk := fresh "HK" in
    remember K as k eqn:hk; cbn;
    rewrite load_slice by side;
    cbn; norm_nat;
    match goal with |- context [add64 ?a ?w ?c] => destruct (add64 a w c) as [? ?] end;
    cbn [fst snd]; subst k
  end.

Ltac finish_block :=
  cbn; unfold binop_sem; rewrite tail_slice by side; cbn; norm_nat; eexists; reflexivity.

(* one `if len(b) >= 8k { k Add64; ac += carry; b = b[8k:] }` *)
Ltac if_block k n :=
  unfold mkenv, blk';
  rewrite (exec_if _ _ _ _ _ _ (n <=? len _)) by reflexivity;
  change (8 * N.of_nat k) with n;
  match goal with |- context [n <=? len ?b] =>
    let E := fresh "E" in
    destruct (n <=? len b) eqn:E; [apply N.leb_le in E | eexists; reflexivity] end;
  cbn [fst snd];
  unfold accum; rewrite words_flat0; cbn [seq map Nat.mul Nat.add]; cbn [chain];
  repeat step_add; finish_block.

Lemma if64_ok fuel c a t b i :
  post (exec no_callee fuel s_if64 (mkenv c a t b i)) (fst (blk' 8 (a, b))) t (snd (blk' 8 (a, b))) i.
Proof. unfold s_if64. if_block 8%nat 64. Qed.

Lemma if32_ok fuel c a t b i :
  post (exec no_callee fuel s_if32 (mkenv c a t b i)) (fst (blk' 4 (a, b))) t (snd (blk' 4 (a, b))) i.
Proof. unfold s_if32. if_block 4%nat 32. Qed.

Lemma if16_ok fuel c a t b i :
  post (exec no_callee fuel s_if16 (mkenv c a t b i)) (fst (blk' 2 (a, b))) t (snd (blk' 2 (a, b))) i.
Proof. unfold s_if16. if_block 2%nat 16. Qed.

Lemma if8_ok fuel c a t b i :
  post (exec no_callee fuel s_if8 (mkenv c a t b i)) (fst (blk' 1 (a, b))) t (snd (blk' 1 (a, b))) i.
Proof. unfold s_if8. if_block 1%nat 8. Qed.

(* the body of the 128-byte loop *)
Lemma loop_body_ok fuel c a t b i : 128 <= len b ->
  post (exec no_callee fuel s_loop_body (mkenv c a t b i)) (accum a (words 16 b)) t (skipn 128 b) i.
Proof.
  intros E. unfold s_loop_body, mkenv.
  unfold accum; rewrite words_flat0; cbn [seq map Nat.mul Nat.add]; cbn [chain].
  do 16 step_add. finish_block.
Qed.

(* `if len(b) >= n { Add64(ac, uint64(UintNN(b[:n])), 0); ac += carry; b = b[n:] }`, n = 4, 2 *)
Definition small' (n : nat) (p : N * list N) : N * list N :=
  let '(ac, b) := p in
  if N.of_nat n <=? len b then (accum ac [le (firstn n b)], skipn n b) else p.

Lemma small_cst n p : small n (cst_of p) = cst_of (small' n p).
Proof.
  destruct p as [a b]. unfold small, small', cst_of. cbn [fst snd].
  destruct (N.of_nat n <=? len b) eqn:E; [|reflexivity]. cbn [fst snd].
  rewrite len_skipn. reflexivity.
Qed.

Lemma le_firstn_small n l : bytes l -> (n <= 8)%nat -> le (firstn n l) mod 2 ^ 64 = le (firstn n l).
Proof.
  intros B H. apply N.mod_small. change (2 ^ 64) with two64. apply le_lt_two64.
  - apply bytes_firstn. exact B.
  - rewrite firstn_length. lia.
Qed.

Ltac small_block n nn :=
  unfold mkenv, small';
  rewrite (exec_if _ _ _ _ _ _ (nn <=? len _)) by reflexivity;
  change (N.of_nat n) with nn;
  match goal with |- context [nn <=? len ?b] =>
    let E := fresh "E" in
    destruct (nn <=? len b) eqn:E; [apply N.leb_le in E | eexists; reflexivity] end;
  cbn [fst snd];
  unfold accum; cbn [chain];
  rewrite exec_seq;
  match goal with |- post (andthen _ ?K) _ _ _ _ =>
    let k := fresh "K" in let hk := fresh "HK" in
    remember K as k eqn:hk; cbn;
    rewrite load_slice by side;
    cbn; norm_nat; change (skipn 0 ?l) with l;
    rewrite le_firstn_small by (assumption || lia);
    match goal with |- context [add64 ?a ?w ?c] => destruct (add64 a w c) as [? ?] end;
    cbn [fst snd]; subst k
  end;
  finish_block.

Lemma if4_ok fuel c a t b i : bytes b ->
  post (exec no_callee fuel s_if4 (mkenv c a t b i)) (fst (small' 4 (a, b))) t (snd (small' 4 (a, b))) i.
Proof. intros B. unfold s_if4. small_block 4%nat 4. Qed.

Lemma if2_ok fuel c a t b i : bytes b ->
  post (exec no_callee fuel s_if2 (mkenv c a t b i)) (fst (small' 2 (a, b))) t (snd (small' 2 (a, b))) i.
Proof. intros B. unfold s_if2. small_block 2%nat 2. Qed.

(* `if len(b) == 1 {...}`, the final byte swap and the return *)
Definition last1' (p : N * list N) : N :=
  let '(ac, b) := p in if len b =? 1 then accum ac [le (firstn 1 b)] else ac.

Lemma last1_cst p : last1 (cst_of p) = last1' p.
Proof. destruct p as [a b]. reflexivity. Qed.

Lemma store_le_ok n l v : n <= len l ->
  sem_store_le n l v = Some (bytes_le (N.to_nat n) v ++ skipn (N.to_nat n) l).
Proof. intros H. unfold sem_store_le. apply N.leb_le in H. rewrite H. reflexivity. Qed.

Lemma load_be_swap x r : sem_load_be 8 (bytes_le 8 x ++ r) = Some (bswap64 x).
Proof.
  unfold sem_load_be, len. rewrite app_length, bytes_le_length.
  replace (8 <=? N.of_nat (8 + length r)) with true by (symmetry; apply N.leb_le; lia).
  assert (F : firstn (N.to_nat 8) (bytes_le 8 x ++ r) = bytes_le 8 x).
  { replace (N.to_nat 8) with (length (bytes_le 8 x) + 0)%nat by (rewrite bytes_le_length; reflexivity).
    rewrite firstn_app_2. unfold firstn. apply app_nil_r. }
  rewrite F. reflexivity.
Qed.

Lemma tail_ok fuel c a t b i : bytes b -> len b < 2 -> 8 <= len t ->
  exec no_callee fuel (SSeq s_if1 (SSeq s_post0 (SSeq s_post1 SSkip))) (mkenv c a t b i)
  = Some (Returned (VN (bswap64 (last1' (a, b))))).
Proof.
  intros B L T. unfold s_if1, s_post0, s_post1, mkenv, last1'.
  rewrite exec_seq. rewrite (exec_if _ _ _ _ _ _ (len b =? 1)) by reflexivity.
  destruct (len b =? 1) eqn:E.
  - apply N.eqb_eq in E. destruct b as [|x [|y r]]; try (unfold len in E; cbn in E; lia).
    assert (X : x < 256) by (inversion B; assumption).
    assert (W : le (firstn 2 [x; 0]) mod 2 ^ 64 = le (firstn 1 [x])).
    { unfold firstn, le. change (2 ^ 64) with 18446744073709551616. rewrite N.mod_small; lia. }
    cbn. unfold sem_index, len. cbn.
    change (0 <? 1) with true. change (0 <? 256) with true. cbn.
    replace (x <? 256) with true by (symmetry; apply N.ltb_lt; exact X).
    cbn. change (sem_load_le 2 [x; 0]) with (Some (le (firstn 2 [x; 0]))). cbn. rewrite W.
    unfold accum. cbn [chain].
    destruct (add64 a (le (firstn 1 [x])) 0) as [a1 c1]. cbn.
    rewrite store_le_ok by exact T. cbn. norm_nat. rewrite load_be_swap. reflexivity.
  - cbn. rewrite store_le_ok by exact T. cbn. norm_nat. rewrite load_be_swap. reflexivity.
Qed.

(* the 128-byte loop *)
Fixpoint loop' (fuel : nat) (p : N * list N) : N * list N :=
  match fuel with
  | O => p
  | S f => if 128 <=? len (snd p) then loop' f (accum (fst p) (words 16 (snd p)), skipn 128 (snd p)) else p
  end.

Lemma loop_cst fuel : forall a b, loop128 fuel a b (len b) = cst_of (loop' fuel (a, b)).
Proof.
  induction fuel as [|f IH]; intros a b; [reflexivity|].
  cbn [loop128 loop' fst snd]. destruct (128 <=? len b); [|reflexivity].
  replace (len b - 128) with (len (skipn 128 b)) by (rewrite len_skipn; reflexivity).
  apply IH.
Qed.

Lemma while_ok fuel : forall n c a t b i, len b < 128 * N.of_nat n ->
  post (while_loop (evalb no_callee s_loop_cond) (exec no_callee fuel s_loop_body) n (mkenv c a t b i))
       (fst (loop' n (a, b))) t (snd (loop' n (a, b))) i.
Proof.
  induction n as [|n IH]; intros c a t b i L; [lia|].
  cbn [while_loop loop' fst snd].
  replace (evalb no_callee s_loop_cond (mkenv c a t b i)) with (Some (128 <=? len b)) by reflexivity.
  destruct (128 <=? len b) eqn:E.
  - apply N.leb_le in E. destruct (loop_body_ok fuel c a t b i E) as [c1 H1]. rewrite H1. cbn [andthen].
    apply IH. rewrite len_skipn. lia.
  - eexists. reflexivity.
Qed.

Definition good (m : N) (p : N * list N) : Prop := bytes (snd p) /\ len (snd p) < m.

Lemma loop'_good : forall n a b, bytes b -> len b < 128 * N.of_nat n -> good 128 (loop' n (a, b)).
Proof.
  induction n as [|n IH]; intros a b B L; [lia|].
  cbn [loop' fst snd]. destruct (128 <=? len b) eqn:E.
  - apply N.leb_le in E. apply IH; [apply bytes_skipn; exact B|]. rewrite len_skipn. lia.
  - apply N.leb_gt in E. split; assumption.
Qed.

Lemma blk'_good k p : good (16 * N.of_nat k) p -> good (8 * N.of_nat k) (blk' k p).
Proof.
  destruct p as [a b]. unfold good, blk'. cbn [snd]. intros [B L].
  destruct (8 * N.of_nat k <=? len b) eqn:E; cbn [snd].
  - apply N.leb_le in E. split; [apply bytes_skipn; exact B|]. rewrite len_skipn. lia.
  - apply N.leb_gt in E. split; assumption.
Qed.

Lemma small'_good n p : good (2 * N.of_nat n) p -> good (N.of_nat n) (small' n p).
Proof.
  destruct p as [a b]. unfold good, small'. cbn [snd]. intros [B L].
  destruct (N.of_nat n <=? len b) eqn:E; cbn [snd].
  - apply N.leb_le in E. split; [apply bytes_skipn; exact B|]. rewrite len_skipn. lia.
  - apply N.leb_gt in E. split; assumption.
Qed.

Ltac stage L :=
  match goal with |- context [mkenv ?c ?a ?t ?b ?i] =>
    let c' := fresh "c" in let H := fresh "H" in
    destruct L as [c' H]; rewrite H; clear H; cbn [andthen]
  end.

Ltac enter :=
  rewrite exec_seq;
  match goal with |- match andthen _ ?K with _ => _ end = _ => remember K as k eqn:HK end.

(* (C), first half: the interpreted source equals the hand-written mirror, for every byte list and initial value *)
Theorem ast_noFold_is_mirror b i : bytes b ->
  run_noFold noFold_body b i = Some (checksumNoFold b i).
Proof.
  intros B. unfold run_noFold. rewrite body_split.
  remember (fuel_for b) as fuel eqn:HF.
  (* tmp := make([]byte, 8); PutUint64(tmp, initial); ac := BigEndian.Uint64(tmp); var carry uint64 *)
  enter. unfold s_pre0. cbn. norm_nat. cbn [repeat]. subst k.
  enter. unfold s_pre1. cbn. rewrite store_le_ok by side. cbn. norm_nat. subst k.
  enter. unfold s_pre2. cbn. rewrite load_be_swap. cbn. subst k.
  enter. unfold s_pre3. cbn.
  set (t := bytes_le 8 i ++ skipn 8 [0; 0; 0; 0; 0; 0; 0; 0]).
  assert (T : 8 <= len t).
  { unfold t, len. rewrite app_length, bytes_le_length. lia. }
  clearbody t. subst k.
  change [("carry"%string, VN 0); ("ac"%string, VN (bswap64 i)); ("tmp"%string, VB t); ("b"%string, VB b);
          ("initial"%string, VN i)] with (mkenv 0 (bswap64 i) t b i).
  assert (F : len b < 128 * N.of_nat fuel).
  { subst fuel. unfold fuel_for. remember (len b) as lb. lia. }
  (* the loop *)
  rewrite exec_seq. cbn [exec].
  destruct (while_ok fuel fuel 0 (bswap64 i) t b i F) as [c0 H0]. rewrite H0. clear H0. cbn [andthen].
  pose proof (loop'_good fuel (bswap64 i) b B F) as G0.
  unfold checksumNoFold. change (N.of_nat (length b)) with (len b).
  replace (S (N.to_nat (len b / 128))) with fuel by (subst fuel; reflexivity).
  rewrite loop_cst.
  remember (loop' fuel (bswap64 i, b)) as p0. clear Heqp0.
  (* the cascade *)
  rewrite blk_cst. pose proof (blk'_good 8 p0 G0) as G1. destruct p0 as [a0 b0].
  cbn [fst snd]. stage (if64_ok fuel c0 a0 t b0 i).
  remember (blk' 8 (a0, b0)) as p1. clear Heqp1.
  rewrite blk_cst. pose proof (blk'_good 4 p1 G1) as G2. destruct p1 as [a1 b1]. cbn [fst snd].
  stage (if32_ok fuel c a1 t b1 i).
  remember (blk' 4 (a1, b1)) as p2. clear Heqp2.
  rewrite blk_cst. pose proof (blk'_good 2 p2 G2) as G3. destruct p2 as [a2 b2]. cbn [fst snd].
  stage (if16_ok fuel c1 a2 t b2 i).
  remember (blk' 2 (a2, b2)) as p3. clear Heqp3.
  rewrite blk_cst. pose proof (blk'_good 1 p3 G3) as G4. destruct p3 as [a3 b3]. cbn [fst snd].
  stage (if8_ok fuel c2 a3 t b3 i).
  remember (blk' 1 (a3, b3)) as p4. clear Heqp4.
  rewrite small_cst. pose proof (small'_good 4 p4 G4) as G5. destruct p4 as [a4 b4]. cbn [fst snd].
  stage (if4_ok fuel c3 a4 t b4 i (proj1 G4)).
  remember (small' 4 (a4, b4)) as p5. clear Heqp5.
  rewrite small_cst. pose proof (small'_good 2 p5 G5) as G6. destruct p5 as [a5 b5]. cbn [fst snd].
  stage (if2_ok fuel c4 a5 t b5 i (proj1 G5)).
  remember (small' 2 (a5, b5)) as p6. clear Heqp6.
  rewrite last1_cst. destruct p6 as [a6 b6]. cbn [fst snd].
  destruct G6 as [B6 L6]. cbn [snd] in B6, L6.
  pose proof (tail_ok fuel c5 a6 t b6 i B6 L6 T) as HT. cbn [exec] in HT. rewrite HT. reflexivity.
Qed.

(* (C): the interpreted source computes the RFC 1071 sum (Checksum.checksum_is_rfc1071 transported) *)
Theorem ast_noFold_rfc1071 b i : bytes b -> i < two64 ->
  exists r, run_noFold noFold_body b i = Some r /\ r < two64 /\
            r mod 65535 = (i + sum16 b) mod 65535.
Proof.
  intros B I. exists (checksumNoFold b i). split; [apply ast_noFold_is_mirror; exact B|].
  split; [apply checksumNoFold_range | apply checksum_is_rfc1071]; assumption.
Qed.

Lemma callee1_noFold b i : bytes b ->
  callee1 noFold_body "checksumNoFold" (VB b) (VN i) = Some (VN (checksumNoFold b i)).
Proof. intros B. unfold callee1. cbn [String.eqb Ascii.eqb Bool.eqb]. rewrite ast_noFold_is_mirror by exact B. reflexivity. Qed.

(* (A)+(C): checksum(b, initial) interpreted = the mirror = fold4 of the accumulator, and it is the 16-bit
   one's-complement sum of b with initial folded in *)
Theorem ast_checksum_is_mirror b i : bytes b -> i < two64 ->
  run_checksum noFold_body checksum_body b i = Some (checksum b i).
Proof.
  intros B I. unfold run_checksum. fold (b_i_env b i).
  rewrite (ast_checksum_folds _ 1%nat b i (checksumNoFold b i) (callee1_noFold b i B)
             (checksumNoFold_range b i B I)).
  cbv beta iota. unfold checksum. reflexivity.
Qed.

Theorem ast_checksum_rfc1071 b i : bytes b -> i < two64 ->
  exists r, run_checksum noFold_body checksum_body b i = Some r /\ r <= 65535 /\
            r mod 65535 = (i + sum16 b) mod 65535.
Proof.
  intros B I. exists (checksum b i). split; [apply ast_checksum_is_mirror; assumption|].
  split; [apply checksum_le | apply checksum_cong]; assumption.
Qed.

(* (B) structure: pseudoHeaderChecksumNoFold is four chained checksumNoFold calls, whatever the body of
   checksumNoFold is *)
Definition pseudo_chain (nf : stmt) (proto : N) (src dst : list N) (tl : N) : option N :=
  obind (run_noFold nf src 0) (fun s1 =>
  obind (run_noFold nf dst s1) (fun s2 =>
  obind (run_noFold nf [0; proto] s2) (fun s3 =>
  run_noFold nf [tl / 256 mod 256; tl mod 256] s3))).

Lemma store_be_2 tl : sem_store_be 2 [0; 0] tl = Some [tl / 256 mod 256; tl mod 256].
Proof. reflexivity. Qed.

Theorem ast_pseudo_structure nf proto src dst tl : proto < 256 ->
  run_pseudo nf pseudo_body proto src dst tl = pseudo_chain nf proto src dst tl.
Proof.
  intros P. unfold run_pseudo, pseudo_body, pseudo_chain. cbn.
  destruct (run_noFold nf src 0) as [s1|]; [|reflexivity]. cbn.
  destruct (run_noFold nf dst s1) as [s2|]; [|reflexivity]. cbn.
  change (0 <? 256) with true. cbn.
  replace (proto <? 256) with true by (symmetry; apply N.ltb_lt; exact P). cbn.
  destruct (run_noFold nf [0; proto] s2) as [s3|]; [|reflexivity]. cbn. norm_nat.
  rewrite store_be_2. cbn.
  destruct (run_noFold nf [tl / 256 mod 256; tl mod 256] s3) as [s4|]; reflexivity.
Qed.

Theorem ast_pseudo_is_mirror proto src dst tl :
  bytes src -> bytes dst -> proto < 256 -> tl < 65536 ->
  run_pseudo noFold_body pseudo_body proto src dst tl = Some (pseudoHeaderChecksumNoFold proto src dst tl).
Proof.
  intros S D P L. rewrite ast_pseudo_structure by exact P. unfold pseudo_chain, pseudoHeaderChecksumNoFold.
  assert (Bp : bytes [0; proto]) by (unfold bytes; repeat constructor; lia).
  assert (Bl : bytes [tl / 256; tl mod 256]) by (unfold bytes; repeat constructor; lia).
  replace (tl / 256 mod 256) with (tl / 256) by (symmetry; apply N.mod_small; lia).
  rewrite (ast_noFold_is_mirror src 0 S). cbn [obind].
  rewrite (ast_noFold_is_mirror dst _ D). cbn [obind].
  rewrite (ast_noFold_is_mirror _ _ Bp). cbn [obind].
  apply ast_noFold_is_mirror. exact Bl.
Qed.

Theorem ast_pseudo_rfc1071 proto src dst tl :
  bytes src -> bytes dst -> proto < 256 -> tl < 65536 ->
  exists r, run_pseudo noFold_body pseudo_body proto src dst tl = Some r /\ r < two64 /\
            r mod 65535 = pseudo_sum proto src dst tl mod 65535.
Proof.
  intros S D P L. exists (pseudoHeaderChecksumNoFold proto src dst tl).
  split; [apply ast_pseudo_is_mirror; assumption|]. apply pseudo_is_rfc1071; assumption.
Qed.

(* vm_compute grid, redundant with the theorems; kept as a smoke test of the executable interpreter and as the
   difference search of the mutation experiment (NOTES.md): every length 0..140 and 141..300 in steps, pseudo-random
   bytes, initial values up to 2^64-1; interpreter vs mirror vs the RFC 1071 specification directly *)
Fixpoint lcg (n : nat) (s : N) : list N :=
  match n with
  | O => []
  | S k => let s' := (s * 1103515245 + 12345) mod 2147483648 in (s' / 65536) mod 256 :: lcg k s'
  end.
Definition grid_init (n : N) : N := (n * 1234567891234567 + 18446744073709551615 / (n + 1)) mod two64.
Definition agree (b : list N) (i : N) : bool :=
  match run_noFold noFold_body b i, run_checksum noFold_body checksum_body b i with
  | Some x, Some y =>
      (x =? checksumNoFold b i) && (y =? checksum b i) && (x mod 65535 =? (i + sum16 b) mod 65535)
      && (y mod 65535 =? (i + sum16 b) mod 65535) && (y <=? 65535)
  | _, _ => false
  end.
Definition grid_lengths : list nat :=
  seq 0 141 ++ map (fun k => 141 + 3 * k)%nat (seq 0 53) ++ [255; 256; 257; 300]%nat.
Definition grid_ok : bool :=
  forallb (fun n => agree (lcg n (N.of_nat n)) (grid_init (N.of_nat n))
                    && agree (lcg n (N.of_nat n + 977)) 0
                    && agree (repeat 255 n) 18446744073709551615) grid_lengths.
Example ast_agrees_on_grid : grid_ok = true.
Proof. vm_compute. reflexivity. Qed.

Print Assumptions ast_checksum_folds.
Print Assumptions ast_noFold_is_mirror.
Print Assumptions ast_noFold_rfc1071.
Print Assumptions ast_checksum_rfc1071.
Print Assumptions ast_pseudo_structure.
Print Assumptions ast_pseudo_rfc1071.
Print Assumptions ast_agrees_on_grid.
