(* C17 proofs: the segments the model of gsoSplit produces satisfy the clauses of GsoSpec for
   every well-formed super-packet; the checksum fields verify by the RFC 1071 congruence of
   Checksum.v. *)
From WG Require Import Base.Prelude Gen.Constants Offload.Bytes Offload.Checksum Offload.Gso Offload.GsoSpec.
Local Open Scope N_scope.

(* ------------------------------------------------------------------ *)
(* Part 1: byte-string lemmas with side conditions                      *)
(* ------------------------------------------------------------------ *)

Lemma get8_copy_at_in d o s k :
  o <= k -> k < o + len s -> k < len d -> get8 (copy_at d o s) k = get8 s (k - o).
Proof.
  intros H1 H2 H3. rewrite get8_copy_at.
  destruct (N.leb_spec o k), (N.ltb_spec k (o + len s)), (N.ltb_spec k (len d)); try lia; reflexivity.
Qed.

Lemma get8_copy_at_out d o s k :
  k < o \/ o + len s <= k -> get8 (copy_at d o s) k = get8 d k.
Proof.
  intros H. rewrite get8_copy_at.
  destruct (N.leb_spec o k), (N.ltb_spec k (o + len s)); try lia; reflexivity.
Qed.

Lemma get8_sub_in l a b k : k < b - a -> get8 (sub l a b) k = get8 l (a + k).
Proof. intros H. rewrite get8_sub. destruct (N.ltb_spec k (b - a)); [reflexivity|lia]. Qed.

Lemma get8_set16_other l i w k : k <> i -> k <> i + 1 -> get8 (set16 l i w) k = get8 l k.
Proof. intros H1 H2. unfold set16. now rewrite !get8_set8_other by assumption. Qed.

Lemma get8_set32_other l i w k :
  k <> i -> k <> i + 1 -> k <> i + 2 -> k <> i + 3 -> get8 (set32 l i w) k = get8 l k.
Proof. intros. unfold set32. now rewrite !get8_set8_other by assumption. Qed.

Lemma get16_set16_same l i w : i + 1 < len l -> w < 65536 -> get16 (set16 l i w) i = w.
Proof.
  intros H Hw. unfold get16, set16.
  rewrite get8_set8_other by lia. rewrite get8_set8_same by lia.
  rewrite get8_set8_same by (rewrite len_set8; lia). lia.
Qed.

Lemma get32_set32_same l i w : i + 3 < len l -> w < 4294967296 -> get32 (set32 l i w) i = w.
Proof.
  intros H Hw. unfold get32, set32.
  rewrite (get8_set8_other _ (i + 3)), (get8_set8_other _ (i + 2)), (get8_set8_other _ (i + 1)) by lia.
  rewrite get8_set8_same by lia.
  rewrite (get8_set8_other _ (i + 3)), (get8_set8_other _ (i + 2)) by lia.
  rewrite get8_set8_same by (rewrite !len_set8; lia).
  rewrite (get8_set8_other _ (i + 3)) by lia.
  rewrite get8_set8_same by (rewrite !len_set8; lia).
  rewrite get8_set8_same by (rewrite !len_set8; lia).
  lia.
Qed.

Lemma len_sub_gen l a b : len (sub l a b) = N.min (b - a) (len l - a).
Proof. unfold len, sub. rewrite firstn_length, skipn_length. lia. Qed.

(* bytes are preserved *)
Lemma bytes_get8 l k : bytes l -> get8 l k < 256.
Proof.
  unfold bytes, get8. intros H. destruct (Nat.ltb_spec (N.to_nat k) (length l)) as [Hk|Hk].
  - rewrite Forall_forall in H. apply H. apply nth_In. exact Hk.
  - rewrite nth_overflow by lia. lia.
Qed.

Lemma bytes_set_nth l i v : bytes l -> v < 256 -> bytes (set_nth l i v).
Proof.
  unfold bytes. intros H Hv. revert i. induction H as [|x l Hx Hl IH]; intros [|i]; cbn [set_nth]; auto.
Qed.

Lemma bytes_set8 l i v : bytes l -> v < 256 -> bytes (set8 l i v).
Proof. apply bytes_set_nth. Qed.

Lemma bytes_set16 l i w : bytes l -> w < 65536 -> bytes (set16 l i w).
Proof. intros H Hw. unfold set16. apply bytes_set8; [apply bytes_set8|]; auto; lia. Qed.

Lemma bytes_set32 l i w : bytes l -> w < 4294967296 -> bytes (set32 l i w).
Proof. intros H Hw. unfold set32. repeat apply bytes_set8; auto; lia. Qed.

Lemma bytes_copy_nat d o s : bytes d -> bytes s -> bytes (copy_nat d o s).
Proof.
  unfold bytes. intros Hd. revert o s. induction Hd as [|x d Hx Hd IH]; intros o s Hs; cbn [copy_nat]; auto.
  destruct o.
  - destruct Hs as [|y s Hy Hs]; auto.
  - auto.
Qed.

Lemma bytes_copy_at d o s : bytes d -> bytes s -> bytes (copy_at d o s).
Proof. apply bytes_copy_nat. Qed.

Lemma bytes_sub l a b : bytes l -> bytes (sub l a b).
Proof. intros H. unfold sub. apply bytes_firstn, bytes_skipn, H. Qed.

Lemma length_stale_from n x : length (stale_from n x) = n.
Proof. revert x; induction n as [|n IH]; intros x; cbn [stale_from length]; auto. Qed.
Lemma len_stale g i n : len (stale g i n) = n.
Proof. unfold len, stale. rewrite length_stale_from. lia. Qed.
Lemma bytes_stale g i n : bytes (stale g i n).
Proof.
  unfold bytes, stale. generalize (N.to_nat n) as m, (stale_start g i).
  induction m as [|m IH]; intros x; cbn [stale_from]; constructor.
  - change 127 with (N.ones 7). rewrite N.land_ones. change (2 ^ 7) with 128. lia.
  - apply IH.
Qed.

Lemma bytes_zeros n : bytes (zeros n).
Proof. unfold bytes, zeros. apply Forall_forall. intros x Hx. apply repeat_spec in Hx. lia. Qed.

(* sub commutes with a 16-bit store inside the window *)
Lemma sub_set8 l f v a b :
  a <= f -> b <= len l -> sub (set8 l f v) a b = set8 (sub l a b) (f - a) v.
Proof.
  intros Ha Hb. apply bytes_ext.
  - rewrite len_set8, !len_sub_gen, len_set8. reflexivity.
  - intros k Hk. rewrite len_sub_gen, len_set8 in Hk.
    rewrite get8_sub, !get8_set8, get8_sub, len_sub_gen.
    destruct (N.ltb_spec k (b - a)); [|lia].
    destruct (N.eqb_spec (a + k) f), (N.eqb_spec k (f - a)); try lia; cbn [andb]; try reflexivity.
    destruct (N.ltb_spec f (len l)), (N.ltb_spec (f - a) (N.min (b - a) (len l - a))); try lia; reflexivity.
Qed.

Lemma sub_set16 l f w a b :
  a <= f -> b <= len l -> sub (set16 l f w) a b = set16 (sub l a b) (f - a) w.
Proof.
  intros Ha Hb. unfold set16. rewrite sub_set8 by (rewrite ?len_set8; lia).
  rewrite sub_set8 by lia. f_equal. lia.
Qed.

(* a 16-bit store over two zero bytes at an even offset adds the word to the sum *)
Lemma sum16_set_nth2 : forall (o : nat) (l : list N) (hi lo : N),
  Nat.even o = true -> nth o l 0 = 0 -> nth (S o) l 0 = 0 -> (S o < length l)%nat ->
  sum16 (set_nth (set_nth l o hi) (S o) lo) = sum16 l + hi * 256 + lo.
Proof.
  fix IH 1. intros [|[|o]] [|a [|b r]] hi lo He H0 H1 Hl; cbn [length] in Hl; try lia;
    cbn [Nat.even] in He; try discriminate.
  - cbn [nth] in H0, H1. subst a b. cbn [set_nth sum16]. lia.
  - cbn [nth] in H0, H1. cbn [set_nth sum16].
    rewrite (IH o r hi lo He H0 H1) by lia. lia.
Qed.

Lemma sum16_set16 l o w :
  N.even o = true -> o + 2 <= len l -> get8 l o = 0 -> get8 l (o + 1) = 0 -> w < 65536 ->
  sum16 (set16 l o w) = sum16 l + w.
Proof.
  unfold set16, set8, get8, len. intros He Hl H0 H1 Hw.
  replace (N.to_nat (o + 1)) with (S (N.to_nat o)) in * by lia.
  rewrite sum16_set_nth2; try assumption; try lia.
  apply N.even_spec in He. destruct He as [m Hm]. apply Nat.even_spec. exists (N.to_nat m). lia.
Qed.

Lemma sum16_nonzero l : get8 l 0 <> 0 -> sum16 l <> 0.
Proof.
  destruct l as [|a [|b r]]; unfold get8; cbn [N.to_nat nth sum16]; lia.
Qed.

Lemma list_eqb_refl l : list_eqb l l = true.
Proof. induction l as [|x l IH]; cbn [list_eqb]; [reflexivity|]. now rewrite N.eqb_refl, IH. Qed.

Lemma memb_false x l : ~ In x l -> memb x l = false.
Proof.
  induction l as [|y l IH]; cbn [memb In]; intros H; [reflexivity|].
  destruct (N.eqb_spec x y); [exfalso; apply H; left; congruence|]. apply IH. tauto.
Qed.

Lemma memb_true x l : In x l -> memb x l = true.
Proof.
  induction l as [|y l IH]; cbn [memb In]; intros H; [destruct H|].
  destruct H as [->|H]; [now rewrite N.eqb_refl|]. rewrite (IH H). apply Bool.orb_true_r.
Qed.

(* same_exc from pointwise agreement *)
Lemma same_exc_intro_nat : forall (a b : list N) pos ex,
  length a = length b ->
  (forall k, (k < length a)%nat -> In (pos + N.of_nat k) ex \/ nth k a 0 = nth k b 0) ->
  same_exc a b pos ex = true.
Proof.
  induction a as [|x a IH]; intros [|y b] pos ex Hl H; cbn [length] in Hl; try discriminate; [reflexivity|].
  cbn [same_exc]. apply andb_true_intro. split.
  - destruct (H O ltac:(cbn [length]; lia)) as [Hin|He].
    + rewrite N.add_0_r in Hin. now rewrite (memb_true _ _ Hin).
    + cbn [nth] in He. subst y. rewrite N.eqb_refl. now rewrite Bool.orb_true_r.
  - apply IH; [lia|]. intros k Hk. specialize (H (S k) ltac:(cbn [length]; lia)).
    replace (pos + 1 + N.of_nat k) with (pos + N.of_nat (S k)) by lia. exact H.
Qed.

Lemma same_exc_intro a b pos ex :
  len a = len b ->
  (forall k, k < len a -> In (pos + k) ex \/ get8 a k = get8 b k) ->
  same_exc a b pos ex = true.
Proof.
  unfold len, get8. intros Hl H. apply same_exc_intro_nat; [lia|].
  intros k Hk. specialize (H (N.of_nat k) ltac:(lia)). now rewrite Nat2N.id in H.
Qed.

(* ------------------------------------------------------------------ *)
(* Part 2: one iteration of the gsoSplit loop                           *)
(* ------------------------------------------------------------------ *)

(* the two header rewrites of the loop body, as functions of the buffer *)
Definition seg_ipmod (v6 : bool) (cs i T : N) (out : list N) : list N :=
  if v6 then set16 out 4 (u16 (T - cs))
  else
    let out := if 0 <? i then set16 out 4 (u16 (get16 out 4 + u16 i)) else out in
    let out := set16 out 2 (u16 T) in
    set16 out 10 (not16 (checksum (sub out 0 cs) 0)).

Definition seg_trmod (tcp : bool) (cs hl gso i dlen seq0 : N) (notlast : bool) (out : list N) : list N :=
  if tcp then
    let out := set32 out (cs + 4) (u32 (seq0 + u16 (gso * u16 i))) in
    if notlast
    then set8 out (cs + tun_tcpFlagsOffset)
              (N.ldiff (get8 out (cs + tun_tcpFlagsOffset)) (N.lor tun_tcpFlagFIN tun_tcpFlagPSH))
    else out
  else set16 out (cs + 4) (u16 (u16 dlen + u16 (hl - cs))).

Definition ip_touched (v6 : bool) : list N := if v6 then [4; 5] else [2; 3; 4; 5; 10; 11].
Definition tr_touched (tcp : bool) (cs : N) : list N :=
  if tcp then [cs + 4; cs + 5; cs + 6; cs + 7; cs + tun_tcpFlagsOffset; cs + 16; cs + 17]
  else [cs + 4; cs + 5; cs + 6; cs + 7].

Lemma oc_valid_mangle S c : oc_valid (S + c) -> oc_valid (S + mangle0 c).
Proof. unfold oc_valid, mangle0. destruct (N.eqb_spec c 0); lia. Qed.
Lemma mangle0_range c : c < 65536 -> mangle0 c < 65536 /\ mangle0 c <> 0.
Proof. unfold mangle0. destruct (N.eqb_spec c 0); lia. Qed.

Lemma checksum_lt b init : checksum b init < 65536.
Proof. unfold checksum. lia. Qed.

Lemma len_ipmod v6 cs i T o : len (seg_ipmod v6 cs i T o) = len o.
Proof.
  unfold seg_ipmod. destruct v6; [apply len_set16|].
  cbv zeta. rewrite !len_set16. destruct (0 <? i); [apply len_set16|reflexivity].
Qed.

Lemma ipmod_other v6 cs i T o k :
  In k (ip_touched v6) \/ get8 (seg_ipmod v6 cs i T o) k = get8 o k.
Proof.
  unfold seg_ipmod, ip_touched. destruct v6.
  - destruct (N.eq_dec k 4) as [->|]; [left; cbn; auto|].
    destruct (N.eq_dec k 5) as [->|]; [left; cbn; auto|].
    right. apply get8_set16_other; lia.
  - destruct (N.eq_dec k 2) as [->|]; [left; cbn; auto|].
    destruct (N.eq_dec k 3) as [->|]; [left; cbn; auto|].
    destruct (N.eq_dec k 4) as [->|]; [left; cbn; auto|].
    destruct (N.eq_dec k 5) as [->|]; [left; cbn; tauto|].
    destruct (N.eq_dec k 10) as [->|]; [left; cbn; tauto|].
    destruct (N.eq_dec k 11) as [->|]; [left; cbn; tauto|].
    right. cbv zeta. rewrite !get8_set16_other by lia.
    destruct (0 <? i); [apply get8_set16_other; lia|reflexivity].
Qed.

Lemma bytes_ipmod v6 cs i T o : bytes o -> bytes (seg_ipmod v6 cs i T o).
Proof.
  intros H. unfold seg_ipmod, u16, not16. destruct v6.
  - apply bytes_set16; [assumption|lia].
  - cbv zeta. apply bytes_set16.
    + apply bytes_set16; [|lia]. destruct (0 <? i); [apply bytes_set16; [assumption|lia]|assumption].
    + match goal with |- 65535 - checksum ?b ?x < _ => pose proof (checksum_lt b x) end. lia.
Qed.

Lemma len_trmod tcp cs hl gso i dlen seq0 nl o : len (seg_trmod tcp cs hl gso i dlen seq0 nl o) = len o.
Proof.
  unfold seg_trmod. destruct tcp; [|apply len_set16].
  cbv zeta. destruct nl; [rewrite len_set8|]; apply len_set32.
Qed.

Definition tr_written (tcp : bool) (cs : N) : list N :=
  if tcp then [cs + 4; cs + 5; cs + 6; cs + 7; cs + tun_tcpFlagsOffset] else [cs + 4; cs + 5].

Lemma trmod_written tcp cs hl gso i dlen seq0 nl o k :
  In k (tr_written tcp cs) \/ get8 (seg_trmod tcp cs hl gso i dlen seq0 nl o) k = get8 o k.
Proof.
  unfold seg_trmod, tr_written. destruct tcp.
  - destruct (N.eq_dec k (cs + 4)) as [->|]; [left; cbn; auto|].
    destruct (N.eq_dec k (cs + 5)) as [->|]; [left; cbn; auto|].
    destruct (N.eq_dec k (cs + 6)) as [->|]; [left; cbn; auto|].
    destruct (N.eq_dec k (cs + 7)) as [->|]; [left; cbn; tauto|].
    destruct (N.eq_dec k (cs + tun_tcpFlagsOffset)) as [->|]; [left; cbn; tauto|].
    right. cbv zeta. destruct nl.
    + rewrite get8_set8_other by assumption. apply get8_set32_other; lia.
    + apply get8_set32_other; lia.
  - destruct (N.eq_dec k (cs + 4)) as [->|]; [left; cbn; auto|].
    destruct (N.eq_dec k (cs + 5)) as [->|]; [left; cbn; auto|].
    right. apply get8_set16_other; lia.
Qed.

Lemma trmod_other tcp cs hl gso i dlen seq0 nl o k :
  In k (tr_touched tcp cs) \/ get8 (seg_trmod tcp cs hl gso i dlen seq0 nl o) k = get8 o k.
Proof.
  destruct (trmod_written tcp cs hl gso i dlen seq0 nl o k) as [H|H]; [left|right; exact H].
  unfold tr_written, tr_touched in *. destruct tcp; cbn in *; tauto.
Qed.

Lemma ldiff_le_l x y : N.ldiff x y <= x.
Proof.
  assert (H : N.land (N.ldiff x y) (N.land x y) = 0).
  { rewrite (N.land_comm x y), N.land_assoc, N.land_ldiff. apply N.land_0_l. }
  pose proof (N.lor_ldiff_and x y) as E.
  rewrite <- (N.lxor_lor _ _ H), <- (N.add_nocarry_lxor _ _ H) in E. lia.
Qed.

Lemma ldiff_byte x y : x < 256 -> N.ldiff x y < 256.
Proof. intros H. pose proof (ldiff_le_l x y). lia. Qed.

Lemma bytes_trmod tcp cs hl gso i dlen seq0 nl o : bytes o -> bytes (seg_trmod tcp cs hl gso i dlen seq0 nl o).
Proof.
  intros H. unfold seg_trmod, u16, u32. destruct tcp.
  - cbv zeta. assert (Hs : bytes (set32 o (cs + 4) ((seq0 + (gso * (i mod 65536)) mod 65536) mod 4294967296)))
      by (apply bytes_set32; [assumption|lia]).
    destruct nl; [|exact Hs]. apply bytes_set8; [exact Hs|]. apply ldiff_byte, bytes_get8, Hs.
  - apply bytes_set16; [assumption|lia].
Qed.

Lemma nseg_iff v6 tcp p cs hl gso co : hl <= len p -> 1 <= gso ->
  forall j, j < nseg {| s_v6 := v6; s_tcp := tcp; s_pkt := p; s_cs := cs; s_hl := hl; s_gso := gso; s_co := co |}
            <-> hl + j * gso < len p.
Proof.
  intros Hhl Hg j. unfold nseg, paylen. cbn [s_pkt s_hl s_gso].
  set (P := len p - hl). assert (HP : len p = hl + P) by (unfold P; lia). rewrite HP. clearbody P.
  clear HP Hhl.
  set (q := (P + gso - 1) / gso).
  assert (Hq : gso * q <= P + gso - 1 /\ P + gso - 1 < gso * q + gso).
  { unfold q. pose proof (N.div_mod' (P + gso - 1) gso). pose proof (N.mod_lt (P + gso - 1) gso). lia. }
  clearbody q. split; intros H.
  - assert (gso * (j + 1) <= gso * q) by (apply N.mul_le_mono_l; lia). nia.
  - destruct (N.lt_ge_cases j q) as [|Hge]; [assumption|].
    assert (gso * q <= gso * j) by (apply N.mul_le_mono_l; lia). nia.
Qed.

Section Segment.
  Variables (v6 tcp : bool) (p : list N) (cs hl gso co fl gseed : N).

  Definition gt_of : N :=
    if tcp then (if v6 then VIRTIO_NET_HDR_GSO_TCPV6 else VIRTIO_NET_HDR_GSO_TCPV4)
    else VIRTIO_NET_HDR_GSO_UDP_L4.
  Definition hdr_of : vhdr :=
    {| v_flags := fl; v_gsoType := gt_of; v_hdrLen := hl; v_gsoSize := gso;
       v_csumStart := cs; v_csumOffset := co |}.
  Definition sp_of : super :=
    {| s_v6 := v6; s_tcp := tcp; s_pkt := p; s_cs := cs; s_hl := hl; s_gso := gso; s_co := co |}.

  (* what wf_super gives (see wf_facts below) *)
  Hypothesis Hb : bytes p.
  Hypothesis HL : len p <= 65535.
  Hypothesis Hhl : hl <= len p.
  Hypothesis Hg : 1 <= gso.
  Hypothesis Hcs : if v6 then cs = 40 else 20 <= cs /\ cs <= 60.
  Hypothesis Hver : get8 p 0 <> 0.
  Hypothesis Htr : if tcp then cs + 20 <= hl /\ hl <= cs + 60 /\ co = 16 else hl = cs + 8 /\ co = 6.

  Let fld := cs + co.
  Let inp := cleared p hdr_of v6.

  Lemma Ecs : 20 <= cs /\ cs <= 60.
  Proof. destruct v6; lia. Qed.
  Lemma Ehl : cs + 8 <= hl /\ hl <= cs + 60 /\ co + 2 <= hl - cs /\ N.even co = true /\ (co = 16 \/ co = 6).
  Proof. destruct tcp; [destruct Htr as (?&?&->)|destruct Htr as [? ->]]; repeat split; try lia; auto. Qed.

  Lemma is_tcp_of : is_tcp hdr_of = tcp.
  Proof. unfold is_tcp, hdr_of, gt_of. cbn [v_gsoType]. destruct tcp, v6; reflexivity. Qed.

  Lemma csum_at : transportCsumAt hdr_of = fld.
  Proof.
    unfold transportCsumAt, hdr_of, u16, fld. cbn [v_csumStart v_csumOffset].
    pose proof Ecs. pose proof Ehl. apply N.mod_small. lia.
  Qed.

  Lemma len_inp : len inp = len p.
  Proof.
    unfold inp, cleared. rewrite !len_set8. destruct v6; [reflexivity|]. now rewrite !len_set8.
  Qed.

  Lemma bytes_inp : bytes inp.
  Proof.
    unfold inp, cleared. repeat apply bytes_set8; try lia.
    destruct v6; [assumption|]. repeat apply bytes_set8; try lia. assumption.
  Qed.

  Lemma inp_other k :
    (v6 = false -> k <> 10 /\ k <> 11) -> k <> fld -> k <> fld + 1 -> get8 inp k = get8 p k.
  Proof.
    intros H4 H1 H2. unfold inp, cleared. rewrite csum_at.
    rewrite !get8_set8_other by assumption.
    destruct v6; [reflexivity|]. destruct (H4 eq_refl). now rewrite !get8_set8_other by assumption.
  Qed.

  Lemma inp_fld : get8 inp fld = 0 /\ get8 inp (fld + 1) = 0.
  Proof.
    pose proof Ecs. pose proof Ehl.
    unfold inp, cleared. rewrite csum_at. split.
    - rewrite get8_set8_other by lia. apply get8_set8_same.
      destruct v6; rewrite ?len_set8; unfold fld; lia.
    - apply get8_set8_same. rewrite len_set8. destruct v6; rewrite ?len_set8; unfold fld; lia.
  Qed.

  Lemma inp_ip0 : v6 = false -> get8 inp 10 = 0 /\ get8 inp 11 = 0.
  Proof.
    intros E6. pose proof Ecs. pose proof Ehl.
    unfold inp, cleared. rewrite csum_at. rewrite E6. unfold fld.
    rewrite !(get8_set8_other _ (cs + co + 1)), !(get8_set8_other _ (cs + co)) by lia. split.
    - rewrite get8_set8_other by lia. apply get8_set8_same. lia.
    - apply get8_set8_same. rewrite len_set8. lia.
  Qed.

  (* ---------------- one segment ---------------- *)
  Variables (i dataAt : N).
  Hypothesis Hd1 : hl <= dataAt.
  Hypothesis Hd2 : dataAt < len p.

  Let segEnd := N.min (dataAt + gso) (len inp).
  Let dlen := segEnd - dataAt.
  Let T := hl + dlen.

  Lemma Edl : 1 <= dlen /\ dlen <= gso /\ dataAt + dlen <= len p /\ T <= 65535 /\ segEnd = dataAt + dlen
              /\ dlen = N.min gso (len p - dataAt).
  Proof. unfold T, dlen, segEnd. rewrite len_inp. lia. Qed.

  Let o1 := copy_at (stale gseed i T) 0 (sub inp 0 cs).
  Let o4 := seg_ipmod v6 cs i T o1.
  Let o5 := copy_at o4 cs (sub inp cs hl).
  Let o7 := seg_trmod tcp cs hl gso i dlen (firstTCPSeqNum p hdr_of v6) (negb (segEnd =? len inp)) o5.
  Let o8 := copy_at o7 hl (sub inp dataAt segEnd).
  Let pseudo := pseudoHeaderChecksumNoFold (protocol hdr_of)
        (sub inp (srcAddrOffset v6) (srcAddrOffset v6 + addrLen v6))
        (sub inp (srcAddrOffset v6 + addrLen v6) (srcAddrOffset v6 + addrLen v6 * 2))
        (u16 (hl - cs + dlen)).
  Let tcsum0 := not16 (checksum (sub o8 cs T) pseudo).
  Let tcsum := if tcp then tcsum0 else mangle0 tcsum0.
  Let S := set16 o8 fld tcsum.

  Lemma segment_eq : segment p hdr_of v6 gseed i dataAt = S.
  Proof.
    unfold S, tcsum, tcsum0, pseudo, o8, o7, o5, o4, o1, T, dlen, segEnd, inp, seg_ipmod, seg_trmod, segment.
    rewrite <- csum_at. rewrite is_tcp_of. cbn [v_csumStart v_hdrLen v_gsoSize]. reflexivity.
  Qed.

  Lemma len_o1 : len o1 = T. Proof. unfold o1. now rewrite len_copy_at, len_stale. Qed.
  Lemma len_o4 : len o4 = T. Proof. unfold o4. now rewrite len_ipmod, len_o1. Qed.
  Lemma len_o5 : len o5 = T. Proof. unfold o5. now rewrite len_copy_at, len_o4. Qed.
  Lemma len_o7 : len o7 = T. Proof. unfold o7. now rewrite len_trmod, len_o5. Qed.
  Lemma len_o8 : len o8 = T. Proof. unfold o8. now rewrite len_copy_at, len_o7. Qed.
  Lemma len_S : len S = T. Proof. unfold S. now rewrite len_set16, len_o8. Qed.

  Lemma len_iph : len (sub inp 0 cs) = cs.
  Proof. pose proof Ecs. pose proof Ehl. rewrite len_sub; rewrite ?len_inp; lia. Qed.
  Lemma len_th : len (sub inp cs hl) = hl - cs.
  Proof. pose proof Ehl. rewrite len_sub; rewrite ?len_inp; lia. Qed.
  Lemma len_pay : len (sub inp dataAt segEnd) = dlen.
  Proof. pose proof Edl. rewrite len_sub; rewrite ?len_inp; lia. Qed.

  (* bytes of the IP header region before the rewrites *)
  Lemma o1_ip k : k < cs -> get8 o1 k = get8 inp k.
  Proof.
    intros Hk. pose proof Edl. pose proof Ehl. unfold o1.
    rewrite get8_copy_at_in by (rewrite ?len_iph, ?len_stale; unfold T; lia).
    rewrite get8_sub_in by lia. f_equal. lia.
  Qed.

  Lemma o5_th k : cs <= k -> k < hl -> get8 o5 k = get8 inp k.
  Proof.
    intros H1 H2. pose proof Edl. unfold o5.
    rewrite get8_copy_at_in by (rewrite ?len_th, ?len_o4; unfold T; lia).
    rewrite get8_sub_in by lia. f_equal. lia.
  Qed.

  Lemma o5_ip k : k < cs -> get8 o5 k = get8 o4 k.
  Proof. intros Hk. unfold o5. apply get8_copy_at_out. lia. Qed.

  Lemma o8_pay k : hl <= k -> k < T -> get8 o8 k = get8 inp (dataAt + (k - hl)).
  Proof.
    intros H1 H2. unfold o8.
    rewrite get8_copy_at_in by (rewrite ?len_pay, ?len_o7; unfold T in *; lia).
    pose proof Edl. apply get8_sub_in. lia.
  Qed.

  Lemma o8_hdr k : k < hl -> get8 o8 k = get8 o7 k.
  Proof. intros Hk. unfold o8. apply get8_copy_at_out. lia. Qed.

  Lemma S_other k : k <> fld -> k <> fld + 1 -> get8 S k = get8 o8 k.
  Proof. intros. unfold S. now apply get8_set16_other. Qed.

  (* the payload *)
  Lemma S_pay k : hl <= k -> k < T -> get8 S k = get8 p (dataAt + (k - hl)).
  Proof.
    intros H1 H2. pose proof Ecs. pose proof Ehl.
    rewrite S_other by (unfold fld; lia). rewrite o8_pay by assumption.
    apply inp_other; unfold fld; lia.
  Qed.

  (* transport header bytes outside the rewritten fields and the checksum *)
  Lemma S_th k : cs <= k -> k < hl -> In k (tr_touched tcp cs) \/ get8 S k = get8 p k.
  Proof.
    intros H1 H2. pose proof Ecs. pose proof Ehl.
    destruct (N.eq_dec k fld) as [E|N1].
    { left. unfold tr_touched, fld in *. destruct tcp; [destruct Htr as (_&_&->)|destruct Htr as [_ ->]]; subst k; cbn; tauto. }
    destruct (N.eq_dec k (fld + 1)) as [E|N2].
    { left. unfold tr_touched, fld in *. destruct tcp; [destruct Htr as (_&_&->)|destruct Htr as [_ ->]]; subst k; cbn.
      - right; right; right; right; right; right; left. lia.
      - right; right; right; left. lia. }
    rewrite S_other by assumption. rewrite o8_hdr by assumption. unfold o7.
    destruct (trmod_other tcp cs hl gso i dlen (firstTCPSeqNum p hdr_of v6) (negb (segEnd =? len inp)) o5 k) as [Hin|E];
      [left; exact Hin|right; rewrite E].
    rewrite o5_th by assumption. apply inp_other; try assumption. lia.
  Qed.

  (* IP header bytes outside the rewritten fields *)
  Lemma S_ip k : k < cs -> In k (ip_touched v6) \/ get8 S k = get8 p k.
  Proof.
    intros H1. pose proof Ecs. pose proof Ehl.
    rewrite S_other by (unfold fld; lia). rewrite o8_hdr by lia. unfold o7.
    destruct (ipmod_other v6 cs i T o1 k) as [Hin|He]; [left; exact Hin|].
    destruct (trmod_other tcp cs hl gso i dlen (firstTCPSeqNum p hdr_of v6) (negb (segEnd =? len inp)) o5 k) as [Hin|E]; [|rewrite E].
    { exfalso. unfold tr_touched in Hin. destruct tcp; cbn in Hin; unfold tun_tcpFlagsOffset in Hin; lia. }
    rewrite o5_ip by assumption. fold o4 in He. rewrite He, o1_ip by assumption.
    destruct (Bool.bool_dec v6 true) as [E6|E6].
    - right. apply inp_other; unfold fld; try lia. intros Hf. congruence.
    - apply Bool.not_true_is_false in E6.
      destruct (N.eq_dec k 10) as [->|]; [left; rewrite E6; cbn; tauto|].
      destruct (N.eq_dec k 11) as [->|]; [left; rewrite E6; cbn; tauto|].
      right. apply inp_other; unfold fld; try lia.
  Qed.

  (* ---------------- clauses of GsoSpec on this segment ---------------- *)
  Hypothesis Hd3 : dataAt = hl + i * gso.

  Lemma dlen_spec : seg_data_len sp_of i = dlen.
  Proof.
    pose proof Edl. unfold seg_data_len, paylen, sp_of. cbn [s_pkt s_hl s_gso].
    replace (len p - hl - i * gso) with (len p - dataAt) by lia. lia.
  Qed.

  Theorem seg_c_len : c_len sp_of i S = true.
  Proof.
    unfold c_len. rewrite dlen_spec, len_S. cbn [sp_of s_hl]. unfold T. apply N.eqb_refl.
  Qed.

  Theorem seg_c_payload : c_payload sp_of i S = true.
  Proof.
    unfold c_payload. pose proof Edl as Hdl. pose proof Ehl.
    assert (E : sub S (s_hl sp_of) (len S) = seg_payload sp_of i).
    { unfold seg_payload. rewrite dlen_spec, len_S. cbn [sp_of s_hl s_pkt s_gso]. rewrite <- Hd3.
      apply bytes_ext.
      - rewrite !len_sub by (rewrite ?len_S; unfold T; lia). unfold T. lia.
      - intros k Hk. rewrite len_sub in Hk by (rewrite ?len_S; unfold T; lia).
        rewrite !get8_sub_in by (unfold T in *; lia).
        rewrite S_pay by (unfold T in *; lia). f_equal. lia. }
    rewrite E. apply list_eqb_refl.
  Qed.

  Lemma S_ip_o4 k : k < cs -> get8 S k = get8 o4 k.
  Proof.
    intros Hk. pose proof Ecs. pose proof Ehl.
    rewrite S_other by (unfold fld; lia). rewrite o8_hdr by lia. unfold o7.
    destruct (trmod_other tcp cs hl gso i dlen (firstTCPSeqNum p hdr_of v6) (negb (segEnd =? len inp)) o5 k) as [Hin|E].
    { exfalso. unfold tr_touched in Hin. destruct tcp; cbn in Hin; unfold tun_tcpFlagsOffset in Hin; lia. }
    rewrite E. now apply o5_ip.
  Qed.

  Lemma get16_S_ip j : j + 1 < cs -> get16 S j = get16 o4 j.
  Proof. intros H. unfold get16. now rewrite !S_ip_o4 by lia. Qed.

  Lemma o4_v6 : v6 = true -> o4 = set16 o1 4 (u16 (T - cs)).
  Proof. intros E. unfold o4, seg_ipmod. now rewrite E. Qed.

  Definition idm (o : list N) : list N := if 0 <? i then set16 o 4 (u16 (get16 o 4 + u16 i)) else o.
  Lemma o4_v4 : v6 = false ->
    o4 = set16 (set16 (idm o1) 2 (u16 T)) 10 (not16 (checksum (sub (set16 (idm o1) 2 (u16 T)) 0 cs) 0)).
  Proof. intros E. unfold o4, seg_ipmod, idm. now rewrite E. Qed.

  Lemma len_idm o : len (idm o) = len o.
  Proof. unfold idm. destruct (0 <? i); [apply len_set16|reflexivity]. Qed.

  Lemma get16_p_lt j : get16 p j < 65536.
  Proof. unfold get16. pose proof (bytes_get8 p j Hb). pose proof (bytes_get8 p (j + 1) Hb). lia. Qed.

  Lemma get16_o1 j : j + 1 < cs -> get16 o1 j = get16 inp j.
  Proof. intros H. unfold get16. now rewrite !o1_ip by lia. Qed.

  Theorem seg_c_ip_len : c_ip_len sp_of S = true.
  Proof.
    unfold c_ip_len. cbn [sp_of s_v6]. pose proof Ecs. pose proof Ehl. pose proof Edl.
    rewrite len_S.
    destruct (Bool.bool_dec v6 true) as [E6|E6].
    - rewrite E6. rewrite get16_S_ip by lia. rewrite (o4_v6 E6).
      assert (cs = 40) by (generalize Hcs; rewrite E6; auto).
      rewrite get16_set16_same by (rewrite ?len_o1; unfold u16, T in *; lia).
      unfold u16. apply N.eqb_eq. unfold T in *. lia.
    - apply Bool.not_true_is_false in E6. rewrite E6. rewrite get16_S_ip by lia. rewrite (o4_v4 E6).
      unfold get16. rewrite !(get8_set16_other _ 10) by lia. fold (get16 (set16 (idm o1) 2 (u16 T)) 2).
      rewrite get16_set16_same by (rewrite ?len_idm, ?len_o1; unfold u16, T in *; lia).
      unfold u16. apply N.eqb_eq. unfold T in *. lia.
  Qed.

  Theorem seg_c_ip_id : c_ip_id sp_of i S = true.
  Proof.
    unfold c_ip_id. cbn [sp_of s_v6 s_pkt]. pose proof Ecs. pose proof Ehl. pose proof Edl.
    destruct (Bool.bool_dec v6 true) as [E6|E6]; [now rewrite E6|].
    apply Bool.not_true_is_false in E6. rewrite E6. rewrite get16_S_ip by lia. rewrite (o4_v4 E6).
    unfold get16 at 1. rewrite !(get8_set16_other _ 10), !(get8_set16_other _ 2) by lia.
    fold (get16 (idm o1) 4).
    assert (Ep : get16 o1 4 = get16 p 4).
    { rewrite get16_o1 by lia. unfold get16. rewrite !inp_other; unfold fld; try lia; reflexivity. }
    pose proof (get16_p_lt 4). apply N.eqb_eq. unfold idm.
    destruct (N.ltb_spec 0 i).
    - rewrite get16_set16_same by (rewrite ?len_o1; unfold u16, T in *; lia).
      rewrite Ep. unfold u16. lia.
    - rewrite Ep. replace i with 0 by lia. rewrite N.add_0_r. symmetry. apply N.mod_small. lia.
  Qed.

  Theorem seg_c_ip_rest : c_ip_rest sp_of S = true.
  Proof.
    unfold c_ip_rest. cbn [sp_of s_v6 s_pkt s_cs]. pose proof Ecs. pose proof Ehl. pose proof Edl.
    apply same_exc_intro.
    - rewrite !len_sub by (rewrite ?len_S; unfold T; lia). reflexivity.
    - intros k Hk. rewrite len_sub in Hk by (rewrite ?len_S; unfold T; lia).
      rewrite !get8_sub_in by lia. rewrite !N.add_0_l. apply (S_ip k). lia.
  Qed.

  Theorem seg_c_th_rest : c_th_rest sp_of S = true.
  Proof.
    unfold c_th_rest. cbn [sp_of s_tcp s_pkt s_cs s_hl]. pose proof Ecs. pose proof Ehl. pose proof Edl.
    apply same_exc_intro.
    - rewrite !len_sub by (rewrite ?len_S; unfold T; lia). reflexivity.
    - intros k Hk. rewrite len_sub in Hk by (rewrite ?len_S; unfold T; lia).
      rewrite !get8_sub_in by lia. apply (S_th (cs + k)); lia.
  Qed.

  (* ---------------- TCP / UDP header fields ---------------- *)

  (* the uint16 product gsoSize * uint16(i) does not wrap: hl + i * gso < |in| <= 65535 *)
  Lemma prod_nowrap : u16 (gso * u16 i) = i * gso.
  Proof.
    assert (H1 : i * 1 <= i * gso) by (apply N.mul_le_mono_l; lia).
    unfold u16. rewrite (N.mod_small i) by lia. rewrite N.mul_comm. apply N.mod_small. lia.
  Qed.

  Lemma o7_tcp : tcp = true ->
    o7 = let out := set32 o5 (cs + 4) (u32 (firstTCPSeqNum p hdr_of v6 + u16 (gso * u16 i))) in
         if negb (segEnd =? len inp)
         then set8 out (cs + tun_tcpFlagsOffset)
                   (N.ldiff (get8 out (cs + tun_tcpFlagsOffset)) (N.lor tun_tcpFlagFIN tun_tcpFlagPSH))
         else out.
  Proof. intros E. unfold o7, seg_trmod. now rewrite E. Qed.

  Lemma o7_udp : tcp = false -> o7 = set16 o5 (cs + 4) (u16 (u16 dlen + u16 (hl - cs))).
  Proof. intros E. unfold o7, seg_trmod. now rewrite E. Qed.

  Lemma S_th_o7 k : k < hl -> k <> fld -> k <> fld + 1 -> get8 S k = get8 o7 k.
  Proof. intros. rewrite S_other by assumption. now apply o8_hdr. Qed.

  Lemma tcp_facts : tcp = true -> cs + 20 <= hl /\ co = 16.
  Proof. intros E. generalize Htr. rewrite E. tauto. Qed.
  Lemma udp_facts : tcp = false -> hl = cs + 8 /\ co = 6.
  Proof. intros E. generalize Htr. rewrite E. tauto. Qed.

  Lemma seq0_eq : tcp = true -> firstTCPSeqNum p hdr_of v6 = get32 p (cs + 4).
  Proof.
    intros E. destruct (tcp_facts E) as [H1 H2]. pose proof Ecs.
    unfold firstTCPSeqNum. rewrite is_tcp_of, E. cbn [hdr_of v_csumStart]. fold inp.
    unfold get32. rewrite !inp_other; unfold fld; try lia; reflexivity.
  Qed.

  Theorem seg_c_tcp_seq : c_tcp_seq sp_of i S = true.
  Proof.
    unfold c_tcp_seq. cbn [sp_of s_tcp s_pkt s_cs s_gso].
    destruct (Bool.bool_dec tcp true) as [E|E]; [|apply Bool.not_true_is_false in E; now rewrite E].
    rewrite E. destruct (tcp_facts E) as [H1 H2]. pose proof Ecs. pose proof Edl.
    assert (Eg : get32 S (cs + 4) = get32 o7 (cs + 4)).
    { unfold get32. rewrite !S_th_o7; unfold fld; try lia; reflexivity. }
    rewrite Eg, (o7_tcp E). cbv zeta.
    set (X := set32 o5 (cs + 4) (u32 (firstTCPSeqNum p hdr_of v6 + u16 (gso * u16 i)))).
    assert (Ex : get32 X (cs + 4) = u32 (firstTCPSeqNum p hdr_of v6 + u16 (gso * u16 i))).
    { unfold X. apply get32_set32_same; [rewrite len_o5; unfold T; lia|unfold u32; lia]. }
    assert (Ey : get32 (if negb (segEnd =? len inp)
                        then set8 X (cs + tun_tcpFlagsOffset)
                               (N.ldiff (get8 X (cs + tun_tcpFlagsOffset)) (N.lor tun_tcpFlagFIN tun_tcpFlagPSH))
                        else X) (cs + 4) = get32 X (cs + 4)).
    { destruct (negb (segEnd =? len inp)); [|reflexivity].
      unfold get32, tun_tcpFlagsOffset. rewrite !get8_set8_other by lia. reflexivity. }
    rewrite Ey, Ex, prod_nowrap, (seq0_eq E). unfold u32. apply N.eqb_refl.
  Qed.

  Lemma last_iff : (segEnd =? len inp) = is_last sp_of i.
  Proof.
    unfold is_last. pose proof Edl as Hdl. rewrite len_inp.
    assert (Hi : i < nseg sp_of <-> hl + i * gso < len p) by (apply (nseg_iff v6 tcp p cs hl gso co Hhl Hg)).
    assert (Hi1 : i + 1 < nseg sp_of <-> hl + (i + 1) * gso < len p) by (apply (nseg_iff v6 tcp p cs hl gso co Hhl Hg)).
    assert (Hlt : i < nseg sp_of) by (apply Hi; lia).
    replace (hl + (i + 1) * gso) with (dataAt + gso) in Hi1 by lia.
    unfold segEnd. rewrite len_inp.
    destruct (N.eqb_spec (N.min (dataAt + gso) (len p)) (len p)) as [A|A],
             (N.eqb_spec (i + 1) (nseg sp_of)) as [B|B]; try reflexivity; exfalso.
    - assert (i + 1 < nseg sp_of) by lia. apply Hi1 in H. lia.
    - assert (dataAt + gso < len p) by lia. apply Hi1 in H. lia.
  Qed.

  Theorem seg_c_tcp_flags : c_tcp_flags sp_of i S = true.
  Proof.
    unfold c_tcp_flags. cbn [sp_of s_tcp s_pkt s_cs].
    destruct (Bool.bool_dec tcp true) as [E|E]; [|apply Bool.not_true_is_false in E; now rewrite E].
    rewrite E. destruct (tcp_facts E) as [H1 H2]. pose proof Ecs. pose proof Edl.
    fold sp_of. rewrite <- last_iff.
    rewrite S_th_o7 by (unfold fld, tun_tcpFlagsOffset; lia). rewrite (o7_tcp E). cbv zeta.
    set (X := set32 o5 (cs + 4) (u32 (firstTCPSeqNum p hdr_of v6 + u16 (gso * u16 i)))).
    assert (Ex : get8 X (cs + tun_tcpFlagsOffset) = get8 p (cs + tun_tcpFlagsOffset)).
    { unfold X, tun_tcpFlagsOffset. rewrite get8_set32_other by lia. rewrite o5_th by lia.
      apply inp_other; unfold fld; lia. }
    destruct (segEnd =? len inp); cbn [negb].
    - rewrite Ex. apply N.eqb_refl.
    - rewrite get8_set8_same by (unfold X; rewrite len_set32, len_o5; unfold T, tun_tcpFlagsOffset; lia).
      rewrite Ex. unfold fin_psh. apply N.eqb_refl.
  Qed.

  Theorem seg_c_udp_len : c_udp_len sp_of i S = true.
  Proof.
    unfold c_udp_len. cbn [sp_of s_tcp s_cs].
    destruct (Bool.bool_dec tcp true) as [E|E]; [now rewrite E|]. apply Bool.not_true_is_false in E.
    rewrite E. destruct (udp_facts E) as [H1 H2]. pose proof Ecs. pose proof Edl.
    fold sp_of. rewrite dlen_spec.
    assert (Eg : get16 S (cs + 4) = get16 o7 (cs + 4)).
    { unfold get16. rewrite !S_th_o7; unfold fld; try lia; reflexivity. }
    rewrite Eg, (o7_udp E). rewrite get16_set16_same by (rewrite ?len_o5; unfold u16, T; lia).
    unfold u16, tun_udphLen. apply N.eqb_eq. lia.
  Qed.

  (* ---------------- checksums ---------------- *)

  Lemma bytes_o1 : bytes o1.
  Proof. unfold o1. apply bytes_copy_at; [apply bytes_stale|apply bytes_sub, bytes_inp]. Qed.
  Lemma bytes_o5 : bytes o5.
  Proof.
    unfold o5. apply bytes_copy_at; [|apply bytes_sub, bytes_inp].
    unfold o4. apply bytes_ipmod, bytes_o1.
  Qed.
  Lemma bytes_o8 : bytes o8.
  Proof.
    unfold o8. apply bytes_copy_at; [|apply bytes_sub, bytes_inp].
    unfold o7. apply bytes_trmod, bytes_o5.
  Qed.

  Theorem seg_c_ip_csum : c_ip_csum sp_of S = true.
  Proof.
    unfold c_ip_csum. cbn [sp_of s_v6 s_cs].
    destruct (Bool.bool_dec v6 true) as [E6|E6]; [now rewrite E6|]. apply Bool.not_true_is_false in E6.
    rewrite E6. pose proof Ecs. pose proof Ehl. pose proof Edl. apply oc_validb_ok.
    assert (E1 : sub S 0 cs = sub o4 0 cs).
    { apply bytes_ext.
      - rewrite !len_sub by (rewrite ?len_S, ?len_o4; unfold T; lia). reflexivity.
      - intros k Hk. rewrite len_sub in Hk by (rewrite ?len_S; unfold T; lia).
        rewrite !get8_sub_in by lia. rewrite !N.add_0_l. apply S_ip_o4. lia. }
    rewrite E1, (o4_v4 E6).
    set (X := set16 (idm o1) 2 (u16 T)).
    assert (LX : len X = T) by (unfold X; now rewrite len_set16, len_idm, len_o1).
    assert (BX : bytes X).
    { unfold X. apply bytes_set16; [|unfold u16; lia]. unfold idm.
      destruct (0 <? i); [apply bytes_set16; [apply bytes_o1|unfold u16; lia]|apply bytes_o1]. }
    rewrite sub_set16 by (rewrite ?LX; unfold T; lia). rewrite N.sub_0_r.
    set (R := sub X 0 cs).
    assert (LR : len R = cs) by (unfold R; rewrite len_sub; rewrite ?LX; unfold T; lia).
    assert (BR : bytes R) by (apply bytes_sub, BX).
    assert (GX : forall k, k < cs -> k <> 2 -> k <> 3 -> k <> 4 -> k <> 5 -> get8 R k = get8 inp k).
    { intros k Hk N2 N3 N4 N5. unfold R. rewrite get8_sub_in by lia. rewrite N.add_0_l. unfold X.
      rewrite get8_set16_other by lia. unfold idm.
      destruct (0 <? i); [rewrite get8_set16_other by lia|]; apply o1_ip; lia. }
    destruct (inp_ip0 E6) as [Z10 Z11].
    rewrite sum16_set16.
    - apply complement_verifies; [exact BR|reflexivity|reflexivity|].
      apply sum16_nonzero. rewrite GX by lia.
      rewrite inp_other; unfold fld; try lia.
    - reflexivity.
    - lia.
    - rewrite GX by lia. exact Z10.
    - rewrite GX by lia. exact Z11.
    - unfold not16. pose proof (checksum_lt R 0). lia.
  Qed.

  Lemma addr_sub_S a b : (if v6 then 8 else 12) <= a -> a <= b -> b <= cs -> sub S a b = sub p a b.
  Proof.
    intros H1 H2 H3. pose proof Ecs. pose proof Ehl. pose proof Edl.
    apply bytes_ext.
    - rewrite !len_sub by (rewrite ?len_S; unfold T; lia). reflexivity.
    - intros k Hk. rewrite len_sub in Hk by (rewrite ?len_S; unfold T; lia).
      rewrite !get8_sub_in by lia.
      destruct (S_ip (a + k)) as [Hin|E]; [lia| |exact E].
      exfalso. unfold ip_touched in Hin. destruct v6; cbn in Hin; lia.
  Qed.

  Lemma addr_sub_inp a b : (if v6 then 8 else 12) <= a -> a <= b -> b <= cs -> sub inp a b = sub p a b.
  Proof.
    intros H1 H2 H3. pose proof Ecs. pose proof Ehl.
    apply bytes_ext.
    - rewrite !len_sub by (rewrite ?len_inp; lia). reflexivity.
    - intros k Hk. rewrite len_sub in Hk by (rewrite ?len_inp; lia).
      rewrite !get8_sub_in by lia. apply inp_other; unfold fld; try lia.
      intros E. rewrite E in H1. lia.
  Qed.

  Theorem seg_c_transport_csum : c_transport_csum sp_of S = true.
  Proof.
    unfold c_transport_csum, transport_sum. apply oc_validb_ok.
    cbn [sp_of s_cs]. fold sp_of. rewrite len_S.
    pose proof Ecs as Hc. pose proof Ehl as (Hh1 & Hh2 & Hco & Hev & Hco2). pose proof Edl as Hdl.
    assert (Esrc : src_off sp_of = srcAddrOffset v6 /\ alen sp_of = addrLen v6 /\ proto_of sp_of = protocol hdr_of).
    { unfold src_off, alen, proto_of, srcAddrOffset, addrLen, protocol. rewrite is_tcp_of. cbn [sp_of s_v6 s_tcp].
      unfold tun_ipv6SrcAddrOffset, tun_ipv4SrcAddrOffset, IPPROTO_TCP, IPPROTO_UDP. auto. }
    destruct Esrc as (Es & Ea & Ep). rewrite Es, Ea, Ep.
    assert (Hso : (if v6 then 8 else 12) <= srcAddrOffset v6 /\ srcAddrOffset v6 + 2 * addrLen v6 <= cs).
    { unfold srcAddrOffset, addrLen, tun_ipv6SrcAddrOffset, tun_ipv4SrcAddrOffset.
      generalize Hcs. destruct v6; lia. }
    rewrite !addr_sub_S by lia.
    unfold S. rewrite sub_set16 by (rewrite ?len_o8; unfold fld; lia).
    replace (fld - cs) with co by (unfold fld; lia).
    set (R := sub o8 cs T).
    assert (LR : len R = T - cs) by (unfold R; rewrite len_sub; rewrite ?len_o8; unfold T; lia).
    assert (BR : bytes R) by (apply bytes_sub, bytes_o8).
    assert (Z : get8 R co = 0 /\ get8 R (co + 1) = 0).
    { destruct inp_fld as [Z0 Z1]. unfold R. rewrite !get8_sub_in by (unfold T; lia).
      replace (cs + co) with fld by reflexivity. replace (cs + (co + 1)) with (fld + 1) by (unfold fld; lia).
      rewrite !o8_hdr by (unfold fld; lia). unfold o7.
      destruct (trmod_written tcp cs hl gso i dlen (firstTCPSeqNum p hdr_of v6) (negb (segEnd =? len inp)) o5 fld) as [Hin|E0].
      { exfalso. unfold tr_written, fld, tun_tcpFlagsOffset in Hin. generalize Htr. destruct tcp; cbn in Hin; lia. }
      destruct (trmod_written tcp cs hl gso i dlen (firstTCPSeqNum p hdr_of v6) (negb (segEnd =? len inp)) o5 (fld + 1)) as [Hin|E1].
      { exfalso. unfold tr_written, fld, tun_tcpFlagsOffset in Hin. generalize Htr. destruct tcp; cbn in Hin; lia. }
      rewrite E0, E1. rewrite !o5_th by (unfold fld; lia). auto. }
    destruct Z as [Z0 Z1].
    assert (Htc0 : tcsum0 < 65536) by (unfold tcsum0, not16; pose proof (checksum_lt (sub o8 cs T) pseudo); lia).
    assert (Htc : tcsum < 65536) by (unfold tcsum; destruct (mangle0_range tcsum0 Htc0); destruct tcp; lia).
    rewrite sum16_set16 by (try assumption; rewrite ?LR; unfold T; lia).
    assert (Bs : bytes (sub p (srcAddrOffset v6) (srcAddrOffset v6 + addrLen v6))) by (apply bytes_sub, Hb).
    assert (Bd : bytes (sub p (srcAddrOffset v6 + addrLen v6) (srcAddrOffset v6 + 2 * addrLen v6))) by (apply bytes_sub, Hb).
    assert (Epseudo : pseudo = pseudoHeaderChecksumNoFold (protocol hdr_of)
               (sub p (srcAddrOffset v6) (srcAddrOffset v6 + addrLen v6))
               (sub p (srcAddrOffset v6 + addrLen v6) (srcAddrOffset v6 + 2 * addrLen v6)) (T - cs)).
    { unfold pseudo. rewrite !addr_sub_inp by lia.
      replace (addrLen v6 * 2) with (2 * addrLen v6) by lia. f_equal.
      unfold u16, T. rewrite N.mod_small by lia. lia. }
    assert (Hpr : protocol hdr_of < 256 /\ protocol hdr_of <> 0).
    { unfold protocol, IPPROTO_TCP, IPPROTO_UDP. destruct (is_tcp hdr_of); lia. }
    destruct (pseudo_is_rfc1071 (protocol hdr_of) _ _ (T - cs) Bs Bd (proj1 Hpr) ltac:(unfold T; lia)) as [Pr Pc].
    rewrite <- Epseudo in Pr, Pc.
    rewrite N.add_assoc.
    assert (V : oc_valid (pseudo_sum (protocol hdr_of) (sub p (srcAddrOffset v6) (srcAddrOffset v6 + addrLen v6))
                   (sub p (srcAddrOffset v6 + addrLen v6) (srcAddrOffset v6 + 2 * addrLen v6)) (T - cs) + sum16 R + tcsum0)).
    { unfold tcsum0, not16. fold R. apply complement_verifies; [exact BR|exact Pr| |].
      - apply cong_add; [exact Pc|reflexivity].
      - unfold pseudo_sum. lia. }
    unfold tcsum. destruct (Bool.bool_dec tcp true) as [E|E]; [rewrite E; exact V|].
    apply Bool.not_true_is_false in E. rewrite E. apply oc_valid_mangle, V.
  Qed.

  (* a computed UDP checksum of zero goes out as 0xffff *)
  Theorem seg_c_udp_csum_nonzero : c_udp_csum_nonzero sp_of S = true.
  Proof.
    unfold c_udp_csum_nonzero. cbn [sp_of s_tcp s_cs].
    destruct (Bool.bool_dec tcp true) as [E|E]; [now rewrite E|]. apply Bool.not_true_is_false in E.
    rewrite E. destruct (udp_facts E) as [H1 H2]. pose proof Ecs. pose proof Edl.
    assert (Htc0 : tcsum0 < 65536) by (unfold tcsum0, not16; pose proof (checksum_lt (sub o8 cs T) pseudo); lia).
    destruct (mangle0_range tcsum0 Htc0) as [M1 M2].
    replace (cs + 6) with fld by (unfold fld; lia). unfold S.
    rewrite get16_set16_same by (rewrite ?len_o8; unfold tcsum, fld, T; rewrite ?E; lia).
    unfold tcsum. rewrite E. apply Bool.negb_true_iff. apply N.eqb_neq. exact M2.
  Qed.

  (* all clauses *)
  Definition seg_good (sp : super) (j : N) (s : list N) : Prop :=
    c_len sp j s = true /\ c_payload sp j s = true /\
    c_ip_len sp s = true /\ c_ip_id sp j s = true /\ c_ip_rest sp s = true /\ c_ip_csum sp s = true /\
    c_tcp_seq sp j s = true /\ c_tcp_flags sp j s = true /\ c_th_rest sp s = true /\
    c_udp_len sp j s = true /\ c_transport_csum sp s = true /\ c_udp_csum_nonzero sp s = true.

  Theorem segment_good : seg_good sp_of i (segment p hdr_of v6 gseed i dataAt).
  Proof.
    rewrite segment_eq. unfold seg_good.
    pose proof seg_c_len. pose proof seg_c_payload. pose proof seg_c_ip_len. pose proof seg_c_ip_id.
    pose proof seg_c_ip_rest. pose proof seg_c_ip_csum. pose proof seg_c_tcp_seq. pose proof seg_c_tcp_flags.
    pose proof seg_c_th_rest. pose proof seg_c_udp_len. pose proof seg_c_transport_csum.
    pose proof seg_c_udp_csum_nonzero. tauto.
  Qed.
End Segment.

(* ------------------------------------------------------------------ *)
(* Part 3: the loop and the error path                                  *)
(* ------------------------------------------------------------------ *)

Section Loop.
  Variables (v6 tcp : bool) (p : list N) (cs hl gso co fl nbufs gseed : N).
  Let sp := sp_of v6 tcp p cs hl gso co.
  Let hdr := hdr_of v6 tcp cs hl gso co fl.
  Hypothesis Hb : bytes p.
  Hypothesis HL : len p <= 65535.
  Hypothesis Hhl : hl <= len p.
  Hypothesis Hg : 1 <= gso.
  Hypothesis Hcs : if v6 then cs = 40 else 20 <= cs /\ cs <= 60.
  Hypothesis Hver : get8 p 0 <> 0.
  Hypothesis Htr : if tcp then cs + 20 <= hl /\ hl <= cs + 60 /\ co = 16 else hl = cs + 8 /\ co = 6.

  Lemma split_loop_spec : forall fuel i,
    i <= nbufs -> (N.to_nat (nbufs - i) < fuel)%nat ->
    let '(n, e, segs) := split_loop p hdr nbufs v6 gseed fuel i (hl + i * gso) in
    (forall j s, nth_error segs j = Some s -> seg_good sp (i + N.of_nat j) s) /\
    (nseg sp <= nbufs -> e = E_none /\ n = N.max i (nseg sp) /\ N.of_nat (length segs) = N.max i (nseg sp) - i) /\
    (nbufs < nseg sp -> i <= nseg sp -> e = E_too_many /\ n = nbufs - 1 /\ N.of_nat (length segs) = nbufs - i).
  Proof.
    induction fuel as [|fuel IH]; intros i Hi Hf; [lia|].
    cbn [split_loop]. unfold hdr at 1 2. cbn [hdr_of v_gsoSize].
    assert (Hn : i < nseg sp <-> hl + i * gso < len p) by (apply (nseg_iff v6 tcp p cs hl gso co Hhl Hg)).
    destruct (N.ltb_spec (hl + i * gso) (len p)) as [Hlt|Hge].
    - assert (Hin : i < nseg sp) by (apply Hn; exact Hlt).
      destruct (N.eqb_spec i nbufs) as [->|Hne].
      + split; [intros [|j] s; cbn [nth_error]; discriminate|]. split; [lia|].
        intros _ _. cbn [length]. lia.
      + replace (hl + i * gso + gso) with (hl + (i + 1) * gso) by lia.
        specialize (IH (i + 1) ltac:(lia) ltac:(lia)). fold hdr.
        destruct (split_loop p hdr nbufs v6 gseed fuel (i + 1) (hl + (i + 1) * gso)) as [[n e] segs].
        destruct IH as (I1 & I2 & I3). split; [|split].
        * intros [|j] s Hs; cbn [nth_error] in Hs.
          -- inversion Hs; subst s. rewrite N.add_0_r.
             apply (segment_good v6 tcp p cs hl gso co fl gseed Hb HL Hhl Hg Hcs Hver Htr i (hl + i * gso)); lia.
          -- replace (i + N.of_nat (S j)) with (i + 1 + N.of_nat j) by lia. apply I1, Hs.
        * intros Hle. destruct (I2 Hle) as (-> & -> & Hlen). cbn [length]. lia.
        * intros Hgt _. destruct (I3 Hgt ltac:(lia)) as (-> & -> & Hlen). cbn [length]. lia.
    - assert (Hni : ~ i < nseg sp) by (intros H; apply Hn in H; lia).
      split; [intros [|j] s; cbn [nth_error]; discriminate|]. split.
      + intros _. cbn [length]. lia.
      + intros H1 H2. lia.
  Qed.

  (* gsoSplit on a well-formed super-packet *)
  Theorem gso_split_spec : 1 <= nbufs ->
    exists n e segs,
      gso_split p hdr nbufs v6 gseed = Done n e segs /\
      (forall j s, nth_error segs j = Some s -> seg_good sp (N.of_nat j) s) /\
      (nseg sp <= nbufs -> e = E_none /\ n = nseg sp /\ N.of_nat (length segs) = nseg sp) /\
      (nbufs < nseg sp -> e = E_too_many /\ n = nbufs - 1 /\ N.of_nat (length segs) = nbufs).
  Proof.
    intros Hnb. unfold gso_split.
    assert (H12 : (negb v6 && (len p <? 12)) = false).
    { destruct (N.ltb_spec (len p) 12); [|apply Bool.andb_false_r]. exfalso. generalize Hcs Htr. destruct v6, tcp; lia. }
    rewrite H12.
    assert (H20 : ((v_hdrLen hdr <? len p) && (len p <? srcAddrOffset v6 + addrLen v6 * 2)) = false).
    { destruct (N.ltb_spec (len p) (srcAddrOffset v6 + addrLen v6 * 2)); [|apply Bool.andb_false_r]. exfalso.
      unfold srcAddrOffset, addrLen, tun_ipv6SrcAddrOffset, tun_ipv4SrcAddrOffset in *.
      generalize Hcs Htr. destruct v6, tcp; lia. }
    rewrite H20.
    pose proof (split_loop_spec (S (N.to_nat nbufs)) 0 ltac:(lia) ltac:(lia)) as H.
    rewrite N.mul_0_l, N.add_0_r in H. unfold hdr at 2. cbn [hdr_of v_hdrLen]. fold hdr.
    destruct (split_loop p hdr nbufs v6 gseed (S (N.to_nat nbufs)) 0 hl) as [[n e] segs].
    destruct H as (I1 & I2 & I3). exists n, e, segs. split; [reflexivity|]. split; [|split].
    - intros j s Hs. specialize (I1 j s Hs). now rewrite N.add_0_l in I1.
    - intros Hle. destruct (I2 Hle) as (? & ? & ?). repeat split; lia.
    - intros Hgt. destruct (I3 Hgt ltac:(lia)) as (? & ? & ?). repeat split; lia.
  Qed.
End Loop.

(* ------------------------------------------------------------------ *)
(* Part 4: from wf_super                                                *)
(* ------------------------------------------------------------------ *)

Lemma wf_facts sp : wf_super sp ->
  bytes (s_pkt sp) /\ len (s_pkt sp) <= 65535 /\ s_hl sp <= len (s_pkt sp) /\ 1 <= s_gso sp /\
  (if s_v6 sp then s_cs sp = 40 else 20 <= s_cs sp /\ s_cs sp <= 60) /\ get8 (s_pkt sp) 0 <> 0 /\
  (if s_tcp sp then s_cs sp + 20 <= s_hl sp /\ s_hl sp <= s_cs sp + 60 /\ s_co sp = 16
   else s_hl sp = s_cs sp + 8 /\ s_co sp = 6).
Proof.
  unfold wf_super, wf_superb. rewrite !Bool.andb_true_iff. intros (((((Hb & HL) & Hhl) & Hg) & Hv) & Ht).
  apply bytesb_ok in Hb. apply N.leb_le in HL, Hhl, Hg.
  pose proof (bytes_get8 (s_pkt sp) 0 Hb) as B0.
  pose proof (bytes_get8 (s_pkt sp) (s_cs sp + 12) Hb) as B12.
  repeat split; try assumption.
  - destruct (s_v6 sp).
    + rewrite Bool.andb_true_iff, !N.eqb_eq in Hv. tauto.
    + rewrite !Bool.andb_true_iff, !N.eqb_eq, N.leb_le in Hv. lia.
  - destruct (s_v6 sp).
    + rewrite Bool.andb_true_iff, !N.eqb_eq in Hv. lia.
    + rewrite !Bool.andb_true_iff, !N.eqb_eq, N.leb_le in Hv. lia.
  - destruct (s_tcp sp).
    + rewrite !Bool.andb_true_iff, !N.eqb_eq, N.leb_le in Ht. lia.
    + rewrite !Bool.andb_true_iff, !N.eqb_eq in Ht. unfold tun_udphLen in Ht. lia.
Qed.

Definition hdr_for (sp : super) (fl : N) : vhdr :=
  hdr_of (s_v6 sp) (s_tcp sp) (s_cs sp) (s_hl sp) (s_gso sp) (s_co sp) fl.

(* gsoSplit on every well-formed super-packet: the number of packets, the error, and every
   clause of the specification except the zero-UDP-checksum one for every written segment *)
Theorem gso_split_wf sp fl nbufs gseed : wf_super sp -> 1 <= nbufs ->
  exists n e segs,
    gso_split (s_pkt sp) (hdr_for sp fl) nbufs (s_v6 sp) gseed = Done n e segs /\
    (forall j s, nth_error segs j = Some s -> seg_good sp (N.of_nat j) s) /\
    (nseg sp <= nbufs -> e = E_none /\ n = nseg sp /\ N.of_nat (length segs) = nseg sp) /\
    (nbufs < nseg sp -> e = E_too_many /\ n = nbufs - 1 /\ N.of_nat (length segs) = nbufs).
Proof.
  intros Hwf Hnb. destruct (wf_facts sp Hwf) as (Hb & HL & Hhl & Hg & Hcs & Hver & Htr).
  destruct sp as [v6 tcp p cs hl gso co]. cbn [s_v6 s_tcp s_pkt s_cs s_hl s_gso s_co] in *.
  exact (gso_split_spec v6 tcp p cs hl gso co fl nbufs gseed Hb HL Hhl Hg Hcs Hver Htr Hnb).
Qed.

(* ------------------------------------------------------------------ *)
(* Part 5: checksum completion (gso_type NONE, NEEDS_CSUM)              *)
(* ------------------------------------------------------------------ *)

Definition partial_good (pp : partial) (out : list N) : Prop :=
  len out = len (p_pkt pp) /\
  same_exc out (p_pkt pp) 0 [p_cs pp + p_co pp; p_cs pp + p_co pp + 1] = true /\
  oc_valid (partial_pseudo pp out + sum16 (sub out (p_cs pp) (len out))) /\
  get16 out (p_cs pp + p_co pp) <> 0.

Theorem gso_none_checksum_wf pp : wf_partial pp ->
  exists out, gso_none_checksum (p_pkt pp) (p_cs pp) (p_co pp) = Some out /\ partial_good pp out.
Proof.
  unfold wf_partial, wf_partialb. rewrite !Bool.andb_true_iff.
  intros (((((Hb & HL) & Hf) & Hev) & Hv) & Hc).
  apply bytesb_ok in Hb. apply N.leb_le in HL, Hf. apply N.eqb_eq in Hc.
  set (p := p_pkt pp) in *. set (cs := p_cs pp) in *. set (co := p_co pp) in *.
  assert (Hcs : (if p_v6 pp then 40 else 20) <= cs).
  { rewrite Bool.orb_true_iff, !Bool.andb_true_iff, !N.leb_le in Hv. destruct (p_v6 pp); cbn in Hv; lia. }
  unfold gso_none_checksum. unfold u16. rewrite (N.mod_small (cs + co)) by lia.
  destruct (N.ltb_spec (len p) (cs + co + 2)); [lia|].
  set (fld := cs + co). set (initial := get16 p fld).
  set (inp1 := set8 (set8 p fld 0) (fld + 1) 0).
  assert (L1 : len inp1 = len p) by (unfold inp1; now rewrite !len_set8).
  assert (B1 : bytes inp1) by (unfold inp1; repeat apply bytes_set8; try lia; exact Hb).
  destruct (N.ltb_spec (len p) cs); [lia|].
  set (R := sub inp1 cs (len inp1)).
  set (c0 := not16 (checksum R initial)).
  set (c := mangle0 c0).
  assert (Hc016 : c0 < 65536) by (unfold c0, not16; pose proof (checksum_lt R initial); lia).
  destruct (mangle0_range c0 Hc016) as [Hc16 Hcnz].
  eexists. split; [reflexivity|]. unfold partial_good. fold p cs co fld.
  assert (Lo : len (set16 inp1 fld c) = len p) by (rewrite len_set16; exact L1).
  assert (Oth : forall k, k <> fld -> k <> fld + 1 -> get8 (set16 inp1 fld c) k = get8 p k).
  { intros k K1 K2. rewrite get8_set16_other by assumption. unfold inp1. now rewrite !get8_set8_other by assumption. }
  split; [exact Lo|]. split; [|split].
  - apply same_exc_intro; [exact Lo|]. intros k Hk. rewrite N.add_0_l.
    destruct (N.eq_dec k fld) as [->|]; [left; cbn; tauto|].
    destruct (N.eq_dec k (fld + 1)) as [->|]; [left; cbn; tauto|]. right. now apply Oth.
  - rewrite Lo.
    assert (Ea : forall a b, (if p_v6 pp then 8 else 12) <= a -> a <= b -> b <= cs ->
                             sub (set16 inp1 fld c) a b = sub p a b).
    { intros a b A1 A2 A3. apply bytes_ext.
      - rewrite !len_sub by (rewrite ?Lo; lia). reflexivity.
      - intros k Hk. rewrite len_sub in Hk by (rewrite ?Lo; lia). rewrite !get8_sub_in by lia.
        apply Oth; unfold fld; lia. }
    assert (Hsa : (if p_v6 pp then 8 else 12) <= p_src pp /\ p_src pp + 2 * p_alen pp <= cs).
    { unfold p_src, p_alen. destruct (p_v6 pp); lia. }
    assert (Ep : partial_pseudo pp (set16 inp1 fld c) = partial_pseudo pp p).
    { unfold partial_pseudo. fold cs. rewrite !Ea by lia. rewrite Lo. reflexivity. }
    rewrite Ep. rewrite <- L1 at 1. rewrite sub_set16 by (unfold fld; lia).
    replace (fld - cs) with co by (unfold fld; lia). fold R.
    assert (LR : len R = len p - cs) by (unfold R; rewrite len_sub; rewrite ?L1; lia).
    assert (Z0 : get8 R co = 0).
    { unfold R. rewrite get8_sub_in by (rewrite L1; unfold fld in *; lia). fold fld. unfold inp1.
      rewrite get8_set8_other by lia. apply get8_set8_same. unfold fld in *; lia. }
    assert (Z1 : get8 R (co + 1) = 0).
    { unfold R. rewrite get8_sub_in by (rewrite L1; unfold fld in *; lia).
      replace (cs + (co + 1)) with (fld + 1) by (unfold fld; lia). unfold inp1.
      apply get8_set8_same. rewrite len_set8. unfold fld in *; lia. }
    rewrite sum16_set16 by (try assumption; rewrite LR; unfold fld in *; lia).
    rewrite N.add_assoc. unfold c. apply oc_valid_mangle. unfold c0, not16.
    apply complement_verifies.
    + apply bytes_sub, B1.
    + unfold initial, get16. pose proof (bytes_get8 p fld Hb). pose proof (bytes_get8 p (fld + 1) Hb).
      unfold two64. lia.
    + apply cong_add; [exact Hc|reflexivity].
    + unfold partial_pseudo, pseudo_sum. fold cs. unfold fld in *. lia.
  - rewrite get16_set16_same by (rewrite ?L1; unfold fld in *; lia). exact Hcnz.
Qed.

(* ------------------------------------------------------------------ *)
(* Part 6: handleVirtioRead reaches gsoSplit with the recomputed hdrLen  *)
(* ------------------------------------------------------------------ *)

Definition super_of (hdr : vhdr) (inp : list N) : option super :=
  let gt := v_gsoType hdr in
  if (gt =? 1) || (gt =? 4) || (gt =? 5) then
    let cs := v_csumStart hdr in
    let tcp := negb (gt =? 5) in
    let v6 := get8 inp 0 / 16 =? 6 in
    if (gt =? 1) && v6 then None else if (gt =? 4) && negb v6 then None else
    Some {| s_v6 := v6; s_tcp := tcp; s_pkt := inp; s_cs := cs;
            s_hl := if tcp then cs + (get8 inp (cs + 12) / 16) * 4 else cs + 8;
            s_gso := v_gsoSize hdr; s_co := v_csumOffset hdr |}
  else None.

Lemma parse_super_decode raw : parse_super raw = super_of (decode raw) (sub raw 10 (len raw)).
Proof. reflexivity. Qed.

Lemma handle_hdr_wf hdr inp nbufs room gseed sp :
  super_of hdr inp = Some sp -> wf_super sp ->
  handle_hdr hdr inp nbufs room gseed = gso_split inp (hdr_for sp (v_flags hdr)) nbufs (s_v6 sp) gseed.
Proof.
  destruct hdr as [fl gt hl0 gso cs co]. unfold super_of. cbn [v_gsoType v_csumStart v_gsoSize v_csumOffset v_flags].
  intros Hp Hwf.
  assert (Hgt : gt = 1 \/ gt = 4 \/ gt = 5).
  { destruct (N.eqb_spec gt 1); [auto|]. destruct (N.eqb_spec gt 4); [auto|]. destruct (N.eqb_spec gt 5); [auto|].
    cbn [orb] in Hp. discriminate. }
  set (ver := get8 inp 0 / 16) in *.
  unfold wf_super, wf_superb in Hwf. rewrite !Bool.andb_true_iff in Hwf.
  destruct Hwf as (((((Hb & HL) & Hhl) & Hg) & Hv) & Ht).
  apply bytesb_ok in Hb. apply N.leb_le in HL, Hhl, Hg.
  unfold handle_hdr, hdr_for, hdr_of, gt_of. cbn [v_gsoType v_csumStart v_gsoSize v_csumOffset v_flags].
  unfold VIRTIO_NET_HDR_GSO_NONE, VIRTIO_NET_HDR_GSO_TCPV4, VIRTIO_NET_HDR_GSO_TCPV6, VIRTIO_NET_HDR_GSO_UDP_L4,
    E_none, E_version_type, E_version.
  fold ver.
  destruct Hgt as [E|[E|E]]; subst gt; cbn [N.eqb Pos.eqb orb andb negb] in Hp |- *.
  - (* TCPv4 *)
    destruct (N.eqb_spec ver 6) as [E6|E6]; [discriminate|]. inversion Hp; try subst sp; clear Hp.
    cbn [s_v6 s_tcp s_pkt s_cs s_hl s_gso s_co] in *. pose proof (bytes_get8 inp (cs + 12) Hb) as B12.
    fold ver in Hv.
    assert (F : ver = 4 /\ 20 <= cs /\ cs <= 60 /\ cs + 20 <= cs + get8 inp (cs + 12) / 16 * 4 /\ co = 16).
    { pose proof (bytes_get8 inp 0 Hb). lia. }
    destruct F as (V4 & Hcs20 & Hcs60 & Th20 & Tco).
    destruct (N.eqb_spec (len inp) 0); [lia|]. rewrite V4. cbn [N.eqb Pos.eqb negb].
    unfold u16. rewrite (N.mod_small (cs + 12)) by lia.
    destruct (N.leb_spec (len inp) (cs + 12)); [lia|].
    set (x := get8 inp (cs + 12) / 16 * 4) in *.
    destruct (N.ltb_spec x 20); [lia|]. destruct (N.ltb_spec 60 x); [lia|]. cbn [orb].
    rewrite (N.mod_small (cs + x)) by lia.
    destruct (N.ltb_spec (len inp) (cs + x)); [lia|]. destruct (N.ltb_spec (cs + x) cs); [lia|].
    rewrite (N.mod_small (cs + co)) by lia.
    destruct (N.leb_spec (len inp) (cs + co + 1)); [lia|].
    destruct (N.eqb_spec 4 6); [lia|]. reflexivity.
  - (* TCPv6 *)
    destruct (N.eqb_spec ver 6) as [E6|E6]; [|discriminate]. inversion Hp; try subst sp; clear Hp.
    cbn [s_v6 s_tcp s_pkt s_cs s_hl s_gso s_co] in *. pose proof (bytes_get8 inp (cs + 12) Hb) as B12.
    assert (F : cs = 40 /\ cs + 20 <= cs + get8 inp (cs + 12) / 16 * 4 /\ co = 16) by lia.
    destruct F as (Hcs & Th20 & Tco).
    destruct (N.eqb_spec (len inp) 0); [lia|]. rewrite E6. cbn [N.eqb Pos.eqb negb orb].
    unfold u16. rewrite (N.mod_small (cs + 12)) by lia.
    destruct (N.leb_spec (len inp) (cs + 12)); [lia|].
    set (x := get8 inp (cs + 12) / 16 * 4) in *.
    destruct (N.ltb_spec x 20); [lia|]. destruct (N.ltb_spec 60 x); [lia|]. cbn [orb].
    rewrite (N.mod_small (cs + x)) by lia.
    destruct (N.ltb_spec (len inp) (cs + x)); [lia|]. destruct (N.ltb_spec (cs + x) cs); [lia|].
    rewrite (N.mod_small (cs + co)) by lia.
    destruct (N.leb_spec (len inp) (cs + co + 1)); [lia|]. reflexivity.
  - (* UDP *)
    inversion Hp; try subst sp; clear Hp.
    cbn [s_v6 s_tcp s_pkt s_cs s_hl s_gso s_co] in *.
    unfold tun_udphLen in *. fold ver in Hv.
    assert (Tco : co = 6) by lia.
    assert (Hcs : 20 <= cs /\ cs <= 60 /\ (ver = 6 \/ ver = 4)).
    { pose proof (bytes_get8 inp 0 Hb). destruct (N.eqb_spec ver 6); lia. }
    destruct (N.eqb_spec (len inp) 0); [lia|].
    assert (Hvg : (if ver =? 4 then 0 else if ver =? 6 then 0 else 5) = 0).
    { destruct Hcs as (_ & _ & [E | E]); rewrite E; reflexivity. }
    rewrite Hvg. cbn [N.eqb negb].
    unfold u16. rewrite (N.mod_small (cs + 8)) by lia.
    destruct (N.ltb_spec (len inp) (cs + 8)); [lia|]. destruct (N.ltb_spec (cs + 8) cs); [lia|].
    rewrite (N.mod_small (cs + co)) by lia.
    destruct (N.leb_spec (len inp) (cs + co + 1)); [lia|]. reflexivity.
Qed.

Theorem handle_virtio_read_wf raw nbufs room gseed sp :
  parse_super raw = Some sp -> wf_super sp ->
  handle_virtio_read raw nbufs room gseed = gso_split (s_pkt sp) (hdr_for sp (get8 raw 0)) nbufs (s_v6 sp) gseed.
Proof.
  intros Hp Hwf. rewrite parse_super_decode in Hp.
  assert (Hs : s_pkt sp = sub raw 10 (len raw)).
  { unfold super_of in Hp. destruct (_ || _) in Hp; [|discriminate].
    destruct (_ && _) in Hp; [discriminate|]. destruct (_ && _) in Hp; [discriminate|].
    inversion Hp. reflexivity. }
  unfold handle_virtio_read, tun_virtioNetHdrLen.
  destruct (wf_facts sp Hwf) as (_ & _ & Hhl & _ & Hcs & _ & Htr).
  assert (28 <= len (s_pkt sp)) by (destruct (s_v6 sp), (s_tcp sp); lia).
  rewrite Hs, len_sub_gen in H.
  destruct (N.ltb_spec (len raw) 10); [lia|].
  rewrite (handle_hdr_wf _ _ nbufs room gseed sp Hp Hwf). rewrite Hs. reflexivity.
Qed.

(* the result of handleVirtioRead on a well-formed super-packet *)
Theorem handle_wf_result raw nbufs room gseed sp n e segs :
  parse_super raw = Some sp -> wf_super sp -> 1 <= nbufs ->
  handle_virtio_read raw nbufs room gseed = Done n e segs ->
  (forall j s, nth_error segs j = Some s -> seg_good sp (N.of_nat j) s) /\
  (nseg sp <= nbufs -> e = E_none /\ n = nseg sp /\ N.of_nat (length segs) = nseg sp) /\
  (nbufs < nseg sp -> e = E_too_many /\ n = nbufs - 1 /\ N.of_nat (length segs) = nbufs).
Proof.
  intros Hp Hwf Hnb Hr. rewrite (handle_virtio_read_wf raw nbufs room gseed sp Hp Hwf) in Hr.
  destruct (gso_split_wf sp (get8 raw 0) nbufs gseed Hwf Hnb) as (n' & e' & segs' & Hs & H1 & H2 & H3).
  rewrite Hs in Hr. inversion Hr; subst n' e' segs'. auto.
Qed.

Theorem handle_never_panics_wf raw nbufs room gseed sp :
  parse_super raw = Some sp -> wf_super sp -> 1 <= nbufs ->
  exists n e segs, handle_virtio_read raw nbufs room gseed = Done n e segs.
Proof.
  intros Hp Hwf Hnb. rewrite (handle_virtio_read_wf raw nbufs room gseed sp Hp Hwf).
  destruct (gso_split_wf sp (get8 raw 0) nbufs gseed Hwf Hnb) as (n & e & segs & Hs & _). eauto.
Qed.

(* checksum completion through handleVirtioRead *)
Theorem handle_partial_wf raw nbufs room gseed pp :
  parse_partial raw = Some pp -> wf_partial pp -> 10 <= len raw -> len (p_pkt pp) <= room ->
  exists out, handle_virtio_read raw nbufs room gseed = Done 1 E_none [out] /\ partial_good pp out.
Proof.
  unfold parse_partial. intros Hp Hwf Hl Hroom.
  destruct (N.eqb_spec (get8 raw 1) 0) as [G0|]; [|discriminate]. cbn [andb] in Hp.
  destruct (N.eqb_spec (N.land (get8 raw 0) 1) 1) as [F1|]; [|discriminate].
  inversion Hp; subst pp; clear Hp.
  destruct (gso_none_checksum_wf _ Hwf) as (out & Ho & Hg).
  cbn [p_pkt p_cs p_co] in Ho, Hroom. unfold le16 in Ho. change (6 + 1) with 7 in Ho. change (8 + 1) with 9 in Ho.
  exists out. split; [|exact Hg].
  unfold handle_virtio_read, tun_virtioNetHdrLen. destruct (N.ltb_spec (len raw) 10); [lia|].
  unfold handle_hdr, decode. cbn [v_gsoType v_flags v_csumStart v_csumOffset].
  rewrite G0. unfold VIRTIO_NET_HDR_GSO_NONE, VIRTIO_NET_HDR_F_NEEDS_CSUM. cbn [N.eqb].
  rewrite F1. cbn [N.eqb Pos.eqb negb]. rewrite Ho.
  destruct Hg as (Lo & _). cbn [p_pkt] in Lo. rewrite Lo.
  destruct (N.ltb_spec room (len (sub raw 10 (len raw)))); [lia|]. reflexivity.
Qed.

(* ------------------------------------------------------------------ *)
(* The segments' payloads, in order, are the payload of the super-packet *)
(* ------------------------------------------------------------------ *)

Fixpoint nrange_from (a : N) (n : nat) : list N :=
  match n with O => [] | S m => a :: nrange_from (a + 1) m end.

Lemma sub_app l x y z : x <= y -> y <= z -> z <= len l -> sub l x y ++ sub l y z = sub l x z.
Proof.
  intros H1 H2 H3. apply bytes_ext.
  - rewrite len_app, !len_sub by lia. lia.
  - intros k Hk. rewrite len_app, !len_sub in Hk by lia.
    rewrite get8_app, len_sub by lia.
    destruct (N.ltb_spec k (y - x)).
    + rewrite !get8_sub_in by lia. reflexivity.
    + rewrite !get8_sub_in by lia. f_equal. lia.
Qed.

Lemma sub_nil l x y : len l <= x -> sub l x y = [].
Proof.
  intros H. apply bytes_ext.
  - rewrite len_sub_gen. unfold len at 2. cbn [length]. lia.
  - intros k Hk. rewrite len_sub_gen in Hk. lia.
Qed.

Theorem payload_concat sp : s_hl sp <= len (s_pkt sp) -> 1 <= s_gso sp ->
  concat (map (seg_payload sp) (nrange_from 0 (N.to_nat (nseg sp)))) = sub (s_pkt sp) (s_hl sp) (len (s_pkt sp)).
Proof.
  intros Hhl Hg. destruct sp as [v6 tcp p cs hl gso co]. cbn [s_hl s_pkt s_gso] in *.
  set (sp := {| s_v6 := v6; s_tcp := tcp; s_pkt := p; s_cs := cs; s_hl := hl; s_gso := gso; s_co := co |}).
  assert (G : forall n a, a + N.of_nat n = nseg sp ->
              concat (map (seg_payload sp) (nrange_from a n)) = sub p (hl + a * gso) (len p)).
  { induction n as [|n IH]; intros a Ha.
    - cbn [nrange_from map concat]. symmetry. apply sub_nil.
      destruct (N.le_gt_cases (len p) (hl + a * gso)) as [|Hlt]; [assumption|].
      apply (nseg_iff v6 tcp p cs hl gso co Hhl Hg a) in Hlt. fold sp in Hlt. lia.
    - cbn [nrange_from map concat]. rewrite (IH (a + 1)) by lia.
      assert (Hlt : hl + a * gso < len p).
      { apply (nseg_iff v6 tcp p cs hl gso co Hhl Hg a). fold sp. lia. }
      unfold seg_payload, seg_data_len, paylen. cbn [sp s_pkt s_hl s_gso].
      destruct (N.le_gt_cases gso (len p - hl - a * gso)) as [Hfull|Hshort].
      + rewrite N.min_l by assumption.
        replace (hl + (a + 1) * gso) with (hl + a * gso + gso) by lia. apply sub_app; lia.
      + rewrite N.min_r by lia.
        replace (hl + a * gso + (len p - hl - a * gso)) with (len p) by lia.
        rewrite (sub_nil p (hl + (a + 1) * gso)) by lia. apply app_nil_r. }
  specialize (G (N.to_nat (nseg sp)) 0 ltac:(lia)). rewrite N.mul_0_l, N.add_0_r in G. exact G.
Qed.

(* ------------------------------------------------------------------ *)
(* Part 7: what does NOT hold (concrete inputs, by computation)         *)
(* ------------------------------------------------------------------ *)

(* F6 (repaired): a UDP super-packet (IPv4, gso_size 100, 250 payload bytes) whose second
   segment's checksum computes to 0: gsoSplit now stores 0xffff. *)
Definition f6_raw : list N :=
  [1;5;28;0;100;0;20;0;6;0;69;39;1;22;0;7;0;0;138;17;224;160;133;42;229;65;25;71;203;85;61;118;148;38;
   1;2;80;28;122;239;78;139;214;133;132;245;126;55;202;172;110;51;254;170;50;99;163;153;67;112;36;186;
   156;155;20;103;138;39;79;1;169;16;174;41;95;110;251;254;95;90;191;68;204;222;38;59;86;6;99;62;43;
   240;0;111;40;41;93;125;57;6;159;1;162;57;196;54;88;84;195;175;127;107;65;214;49;249;43;154;141;18;
   244;18;87;50;95;255;51;47;117;118;176;98;5;86;48;74;62;62;43;96;194;141;12;234;57;210;144;26;82;114;
   13;168;92;161;228;179;142;175;63;68;198;198;239;131;98;242;245;79;192;14;9;214;252;37;100;8;84;193;
   93;252;172;170;138;44;236;206;90;58;186;83;171;112;91;24;219;148;180;211;56;165;20;62;99;64;141;135;
   36;176;207;63;174;23;163;247;155;225;7;47;182;60;53;214;4;44;65;96;243;142;233;226;169;243;251;79;
   251;0;25;180;84;213;34;181;255;161;118;4;25;63;184;150;103;16;167;150;7;50;202;82;207;83;195;245;32;
   200;137;183;155;245;4;207;181;124;118;1;35;45;88;155;172;206;169;214;226;99;226;92;39;116].

Definition udp_zero_witness (raw : list N) (seg : nat) : bool :=
  match parse_super raw with
  | Some sp =>
      wf_superb sp &&
      match handle_virtio_read raw 8 65535 77 with
      | Done _ _ segs =>
          match nth_error segs seg with
          | Some s => c_udp_csum_nonzero sp s && (get16 s (s_cs sp + 6) =? 65535) && (seg_check sp (N.of_nat seg) s =? 0)
          | None => false
          end
      | Panic => false
      end
  | None => false
  end.

Theorem udp_checksum_zero_mangled_example : exists raw seg, udp_zero_witness raw seg = true.
Proof. exists f6_raw, 1%nat. vm_compute. reflexivity. Qed.

(* the same in the checksum-completion path (gso_type NONE, NEEDS_CSUM) *)
Definition f6_none_raw : list N :=
  [1;0;0;0;0;0;20;0;6;0;69;113;0;148;170;15;64;0;203;17;72;212;109;188;253;236;29;15;51;76;98;254;82;
   186;0;128;188;149;148;228;25;119;156;178;115;150;60;19;10;215;151;221;234;254;78;58;210;155;81;37;
   33;15;14;241;195;20;9;15;7;199;154;111;87;28;36;111;62;154;192;183;65;62;241;16;189;88;176;12;231;
   59;255;112;111;127;244;182;244;64;144;163;39;17;243;32;142;78;75;137;203;81;101;206;100;0;44;189;
   156;40;135;170;17;61;242;70;137;40;213;162;59;156;167;64;248;12;147;130;217;198;3;74;210;150;12;121;
   101;3;225;206;34;23;37;245;12;175;31;191;232;49].

Definition udp_zero_none_witness (raw : list N) : bool :=
  match parse_partial raw with
  | Some pp =>
      wf_partialb pp &&
      match handle_virtio_read raw 1 65535 77 with
      | Done 1 0 [o] => (partial_check pp o =? 0) && (get16 o (p_cs pp + p_co pp) =? 65535)
      | _ => false
      end
  | None => false
  end.

Theorem udp_checksum_zero_mangled_none_example : exists raw, udp_zero_none_witness raw = true.
Proof. exists f6_none_raw. vm_compute. reflexivity. Qed.

(* IPv6 extension headers (csum_start = 48): gsoSplit writes totalLen - csum_start into the
   payload length field, 8 too few.  wf_super excludes extension headers for this reason. *)
Definition exthdr_raw : list N :=
  [1;4;68;0;100;0;48;0;16;0;111;134;233;148;1;22;0;235;177;11;123;245;177;172;71;108;159;176;63;201;34;
   143;186;232;143;213;128;102;58;4;84;182;131;18;32;127;10;59;88;76;6;0;1;4;0;0;0;0;98;49;100;146;0;0;
   0;5;142;20;158;181;81;24;229;82;137;47;140;224;0;0;0;0;0;0;0;0;0;0;0;0;0;0;0;0;0;0;0;0;0;0;0;0;0;0;
   0;0;0;0;0;0;0;0;0;0;0;0;0;0;0;0;0;0;0;0;0;0;0;0;0;0;0;0;0;0;0;0;0;0;0;0;0;0;0;0;0;0;0;0;0;0;0;0;0;0;
   0;0;0;0;0;0;0;0;0;0;0;0;0;0;0;0;0;0;0;0;0;0;0;0;0;0;0;0;0;0;0;0;0;0;0;0;0;0;0;0;0;0;0;0;0;0;0;0;0;0;
   0;0;0;0;0;0;0;0;0;0;0;0;0;0;0;0;0;0;0;0;0;0;0;0;0;0;0;0;0;0;0;0;0;0;0;0;0;0;0;0;0;0;0;0;0;0;0;0;0;0;
   0;0;0;0;0;0;0;0;0;0;0;0;0;0;0;0;0;0;0;0;0;0;0;0;0;0;0;0;0;0;0;0;0;0;0;0;0;0;0;0;0;0;0;0;0;0;0;0;0;0;
   0;0;0;0;0;0;0;0;0;0;0;0;0;0;0;0;0;0;0;0;0;0;0;0].

Definition exthdr_witness (raw : list N) : bool :=
  match parse_super raw with
  | Some sp =>
      s_v6 sp && s_tcp sp && (s_cs sp =? 48) && (get8 (s_pkt sp) 6 =? 0) && (get8 (s_pkt sp) 40 =? 6) &&
      match handle_virtio_read raw 8 65535 77 with
      | Done 3 0 (s :: _) => (len s =? 168) && (get16 s 4 =? 120) && negb (c_ip_len sp s)
      | _ => false
      end
  | None => false
  end.

Theorem ipv6_exthdr_payload_length_refuted : exists raw, exthdr_witness raw = true.
Proof. exists exthdr_raw. vm_compute. reflexivity. Qed.

(* the uint16 product of gsoSplit, stated on its own *)
Theorem seq_product_no_wrap L hl gso i :
  L <= 65535 -> 1 <= gso -> hl + i * gso < L -> u16 (gso * u16 i) = i * gso.
Proof.
  intros HL Hg Hlt. assert (H1 : i * 1 <= i * gso) by (apply N.mul_le_mono_l; lia).
  unfold u16. rewrite (N.mod_small i) by lia. rewrite N.mul_comm. apply N.mod_small. lia.
Qed.

(* without the bound on the read the product does wrap: 70000 bytes at gso_size 1 *)
Theorem seq_product_wraps_beyond_64k : exists gso i, u16 (gso * u16 i) <> i * gso.
Proof. exists 1, 65536. vm_compute. discriminate. Qed.

(* non-vacuity: the F6 packet with one payload byte of its second segment changed is well-formed and the whole
   specification (zero-UDP-checksum clause included) holds on the model's result; with two
   buffers for three segments the too-many-segments result satisfies it as well *)
Definition nonvac_raw : list N := set8 f6_raw 188 (N.lxor (get8 f6_raw 188) 1).
Definition spec_on_model (raw : list N) (nbufs : N) : option (N * N) :=
  match parse_super raw, handle_virtio_read raw nbufs 65535 77 with
  | Some sp, Done n e segs => if wf_superb sp then holds_super sp nbufs n e segs else Some (0, 99)
  | _, _ => Some (0, 98)
  end.

(* ------------------------------------------------------------------ *)
(* The behaviour before repair 8d6518b (finding F6) stays on record      *)
(* ------------------------------------------------------------------ *)

(* what gsoSplit stored before the repair: ^checksum(transport segment with a zero field,
   pseudo header) verbatim; the current model stores mangle0 of it for UDP *)
Definition old_transport_csum (sp : super) (s : list N) : N :=
  let z := set16 s (s_cs sp + s_co sp) 0 in
  not16 (checksum (sub z (s_cs sp) (len z))
           (pseudoHeaderChecksumNoFold (proto_of sp)
              (sub z (src_off sp) (src_off sp + alen sp))
              (sub z (src_off sp + alen sp) (src_off sp + 2 * alen sp)) (len z - s_cs sp))).
Definition old_segment (sp : super) (s : list N) : list N :=
  set16 s (s_cs sp + s_co sp) (old_transport_csum sp s).

Definition old_udp_zero_witness (raw : list N) (seg : nat) : bool :=
  match parse_super raw with
  | Some sp =>
      wf_superb sp &&
      match handle_virtio_read raw 8 65535 77 with
      | Done _ _ segs =>
          match nth_error segs seg with
          | Some s => (old_transport_csum sp s =? 0) && (get16 s (s_cs sp + 6) =? 65535) &&
                      (seg_check sp (N.of_nat seg) (old_segment sp s) =? 12)
          | None => false
          end
      | Panic => false
      end
  | None => false
  end.

(* F6: on this input the pre-repair code put 0x0000 into the UDP checksum of segment 1 *)
Theorem old_udp_checksum_nonzero_refuted : exists raw seg, old_udp_zero_witness raw seg = true.
Proof. exists f6_raw, 1%nat. vm_compute. reflexivity. Qed.

(* the same for gsoNoneChecksum *)
Definition old_partial_csum (pp : partial) (o : list N) : N :=
  let fld := p_cs pp + p_co pp in
  let z := set16 o fld 0 in
  not16 (checksum (sub z (p_cs pp) (len z)) (get16 (p_pkt pp) fld)).
Definition old_udp_zero_none_witness (raw : list N) : bool :=
  match parse_partial raw with
  | Some pp =>
      wf_partialb pp &&
      match handle_virtio_read raw 1 65535 77 with
      | Done 1 0 [o] => (old_partial_csum pp o =? 0) &&
                        (partial_check pp (set16 o (p_cs pp + p_co pp) (old_partial_csum pp o)) =? 34)
      | _ => false
      end
  | None => false
  end.
Theorem old_udp_checksum_nonzero_none_refuted : exists raw, old_udp_zero_none_witness raw = true.
Proof. exists f6_none_raw. vm_compute. reflexivity. Qed.
