(* Executable mirror of the TUN read side of /repo/tun: virtioNetHdr.decode,
   handleVirtioRead (tun_linux.go), gsoSplit and gsoNoneChecksum (offload_linux.go).
   Same branches in the same order; Go integer widths written out where they matter
   ([u16] = uint16 arithmetic, [u32] = uint32).  No proofs here.

   Conventions
   * [raw] is what read(2) returned: 10-byte virtio_net_hdr followed by the packet.
   * [nbufs] = len(bufs), [room] = len(bufs[i][offset:]) (the harness gives every buffer the
     same size).  For the GSO path the model assumes room >= |in| + 2 (no segment is
     longer than the read, so every produced segment fits); the non-GSO path tests it as the code does.
   * Output buffers are observed as bufs[i][offset:offset+sizes[i]].  They are pooled and never
     cleared in the device, so before the call they hold stale bytes: the harness pre-fills
     buffer i (its whole capacity) with the pattern [stale gseed i] and the model starts from
     the same bytes.  For well-formed input every byte of the observed range is overwritten
     (proved: the theorems hold for every [gseed]).
   * A Go run-time panic (index/slice out of range, cap = len for the input) is the outcome
     [Panic]. *)
From WG Require Import Base.Prelude Gen.Constants Offload.Bytes Offload.Checksum.
Local Open Scope N_scope.

(* kernel ABI, include/uapi/linux/virtio_net.h and in.h (golang.org/x/sys/unix constants; the
   harness writes the compiler's values into every case file and GsoCheck compares them) *)
Definition VIRTIO_NET_HDR_F_NEEDS_CSUM : N := 1.
Definition VIRTIO_NET_HDR_GSO_NONE : N := 0.
Definition VIRTIO_NET_HDR_GSO_TCPV4 : N := 1.
Definition VIRTIO_NET_HDR_GSO_TCPV6 : N := 4.
Definition VIRTIO_NET_HDR_GSO_UDP_L4 : N := 5.
Definition IPPROTO_TCP : N := 6.
Definition IPPROTO_UDP : N := 17.

Definition u16 (x : N) : N := x mod 65536.
Definition u32 (x : N) : N := x mod 4294967296.
Definition not16 (x : N) : N := 65535 - x.          (* ^x on uint16, x <= 65535 *)
(* if cSum == 0 { cSum = 0xffff }: RFC 768 / the kernel's CSUM_MANGLED_0 *)
Definition mangle0 (x : N) : N := if x =? 0 then 65535 else x.

(* Stale content of output buffer i (from offset on): a 16-bit xorshift stream, bytes 1..128,
   never zero, period 65535.  Bit operations only: this runs once per output byte in the case
   files. *)
Definition xs16 (x : N) : N :=
  let x := N.lxor x (N.land (N.shiftl x 7) 65535) in
  let x := N.lxor x (N.shiftr x 9) in
  N.lxor x (N.land (N.shiftl x 8) 65535).
Definition stale_start (gseed i : N) : N := N.lor 1 (N.land (gseed + 7919 * i) 65535).
Fixpoint stale_from (n : nat) (x : N) : list N :=
  match n with
  | O => []
  | S m => (1 + N.land x 127) :: stale_from m (xs16 x)
  end.
Definition stale (gseed i n : N) : list N := stale_from (N.to_nat n) (stale_start gseed i).

Record vhdr := {
  v_flags : N; v_gsoType : N; v_hdrLen : N; v_gsoSize : N; v_csumStart : N; v_csumOffset : N }.

(* virtioNetHdr.decode: memcpy into the struct, native (little) endian fields *)
Definition decode (raw : list N) : vhdr :=
  {| v_flags := get8 raw 0; v_gsoType := get8 raw 1;
     v_hdrLen := get8 raw 2 + 256 * get8 raw 3;
     v_gsoSize := get8 raw 4 + 256 * get8 raw 5;
     v_csumStart := get8 raw 6 + 256 * get8 raw 7;
     v_csumOffset := get8 raw 8 + 256 * get8 raw 9 |}.

(* error classes of handleVirtioRead, in source order *)
Definition E_none : N := 0.
Definition E_short_buffer : N := 1.      (* io.ErrShortBuffer from decode *)
Definition E_overflow : N := 2.          (* "read len %d overflows bufs element len %d" *)
Definition E_gso_type : N := 3.          (* "unsupported virtio GSO type" *)
Definition E_version_type : N := 4.      (* "ip header version: %d, GSO type: %d" *)
Definition E_version : N := 5.           (* "invalid ip header version" *)
Definition E_too_short : N := 6.         (* "packet is too short" *)
Definition E_tcp_hlen : N := 7.          (* "tcp header len is invalid" *)
Definition E_len_hdrlen : N := 8.        (* "length of packet (%d) < virtioNetHdr.hdrLen (%d)" *)
Definition E_hdrlen_csumstart : N := 9.  (* "virtioNetHdr.hdrLen (%d) < virtioNetHdr.csumStart (%d)" *)
Definition E_csum_end : N := 10.         (* "end of checksum offset (%d) exceeds packet length (%d)" *)
Definition E_too_many : N := 11.         (* tun.ErrTooManySegments *)

Inductive outcome :=
| Done (n : N) (err : N) (segs : list (list N))   (* returned count, error class, buffers written *)
| Panic.

(* ------------------------------------------------------------------ *)
(* gsoNoneChecksum                                                      *)
(* ------------------------------------------------------------------ *)

Definition gso_none_checksum (inp : list N) (cs co : N) : option (list N) :=
  let cSumAt := u16 (cs + co) in
  if len inp <? cSumAt + 2 then None                       (* in[cSumAt:] / Uint16 panics *)
  else
    let initial := get16 inp cSumAt in
    let inp1 := set8 (set8 inp cSumAt 0) (cSumAt + 1) 0 in
    if len inp <? cs then None                              (* in[cSumStart:] panics *)
    else Some (set16 inp1 cSumAt (mangle0 (not16 (checksum (sub inp1 cs (len inp1)) initial)))).

(* ------------------------------------------------------------------ *)
(* gsoSplit                                                             *)
(* ------------------------------------------------------------------ *)

Section Split.
  Variable inp0 : list N.        (* the packet as passed in *)
  Variable hdr : vhdr.           (* with hdrLen already recomputed by handleVirtioRead *)
  Variable nbufs : N.
  Variable isV6 : bool.
  Variable gseed : N.            (* selects the stale content of the output buffers *)

  Let cs := v_csumStart hdr.
  Let hl := v_hdrLen hdr.
  Let gso := v_gsoSize hdr.
  Definition is_tcp : bool :=
    (v_gsoType hdr =? VIRTIO_NET_HDR_GSO_TCPV4) || (v_gsoType hdr =? VIRTIO_NET_HDR_GSO_TCPV6).
  Definition protocol : N := if is_tcp then IPPROTO_TCP else IPPROTO_UDP.
  Definition srcAddrOffset : N := if isV6 then tun_ipv6SrcAddrOffset else tun_ipv4SrcAddrOffset.
  Definition addrLen : N := if isV6 then 16 else 4.
  Definition transportCsumAt : N := u16 (cs + v_csumOffset hdr).

  (* the two in-place mutations of [in] before the loop *)
  Definition cleared : list N :=
    let i1 := if isV6 then inp0 else set8 (set8 inp0 10 0) 11 0 in
    set8 (set8 i1 transportCsumAt 0) (transportCsumAt + 1) 0.

  Definition firstTCPSeqNum : N := if is_tcp then get32 cleared (cs + 4) else 0.

  (* one iteration of the loop body; returns out[:totalLen] *)
  Definition segment (i nextSegmentDataAt : N) : list N :=
    let inp := cleared in
    let iphLen := cs in
    let nextSegmentEnd := N.min (nextSegmentDataAt + gso) (len inp) in
    let segmentDataLen := nextSegmentEnd - nextSegmentDataAt in
    let totalLen := hl + segmentDataLen in
    let out := stale gseed i totalLen in
    let out := copy_at out 0 (sub inp 0 iphLen) in
    let out :=
      if isV6 then set16 out 4 (u16 (totalLen - iphLen))
      else
        let out := if 0 <? i then set16 out 4 (u16 (get16 out 4 + u16 i)) else out in
        let out := set16 out 2 (u16 totalLen) in
        set16 out 10 (not16 (checksum (sub out 0 iphLen) 0)) in
    let out := copy_at out cs (sub inp cs hl) in
    let out :=
      if is_tcp then
        let tcpSeq := u32 (firstTCPSeqNum + u16 (gso * u16 i)) in
        let out := set32 out (cs + 4) tcpSeq in
        if negb (nextSegmentEnd =? len inp)
        then set8 out (cs + tun_tcpFlagsOffset)
                  (N.ldiff (get8 out (cs + tun_tcpFlagsOffset)) (N.lor tun_tcpFlagFIN tun_tcpFlagPSH))
        else out
      else set16 out (cs + 4) (u16 (u16 segmentDataLen + u16 (hl - cs))) in
    let out := copy_at out hl (sub inp nextSegmentDataAt nextSegmentEnd) in
    let transportHeaderLen := hl - cs in
    let lenForPseudo := u16 (transportHeaderLen + segmentDataLen) in
    let transportCSumNoFold :=
      pseudoHeaderChecksumNoFold protocol
        (sub inp srcAddrOffset (srcAddrOffset + addrLen))
        (sub inp (srcAddrOffset + addrLen) (srcAddrOffset + addrLen * 2)) lenForPseudo in
    let transportCSum := not16 (checksum (sub out cs totalLen) transportCSumNoFold) in
    let transportCSum := if is_tcp then transportCSum else mangle0 transportCSum in
    set16 out transportCsumAt transportCSum.

  (* for ; nextSegmentDataAt < len(in); i++ *)
  Fixpoint split_loop (fuel : nat) (i nextSegmentDataAt : N) : N * N * list (list N) :=
    match fuel with
    | O => (i, E_none, [])
    | S f =>
        if nextSegmentDataAt <? len inp0 then
          if i =? nbufs then (i - 1, E_too_many, [])
          else
            let '(n, e, segs) := split_loop f (i + 1) (nextSegmentDataAt + gso) in
            (n, e, segment i nextSegmentDataAt :: segs)
        else (i, E_none, [])
    end.

  Definition gso_split : outcome :=
    if negb isV6 && (len inp0 <? 12) then Panic                       (* in[10], in[11] *)
    else if (hl <? len inp0) && (len inp0 <? srcAddrOffset + addrLen * 2) then Panic  (* in[src:src+2*addrLen] in the first iteration *)
    else
      let '(n, e, segs) := split_loop (S (N.to_nat nbufs)) 0 hl in Done n e segs.
End Split.

(* ------------------------------------------------------------------ *)
(* handleVirtioRead                                                     *)
(* ------------------------------------------------------------------ *)

(* everything after hdr.decode(in); in = in[virtioNetHdrLen:] *)
Definition handle_hdr (hdr : vhdr) (inp : list N) (nbufs room gseed : N) : outcome :=
    let gt := v_gsoType hdr in
    let cs := v_csumStart hdr in
    if gt =? VIRTIO_NET_HDR_GSO_NONE then
      let r :=
        if negb (N.land (v_flags hdr) VIRTIO_NET_HDR_F_NEEDS_CSUM =? 0)
        then gso_none_checksum inp cs (v_csumOffset hdr)
        else Some inp in
      match r with
      | None => Panic
      | Some inp' =>
          if room <? len inp' then Done 0 E_overflow []
          else Done 1 E_none [inp']
      end
    else if negb ((gt =? VIRTIO_NET_HDR_GSO_TCPV4) || (gt =? VIRTIO_NET_HDR_GSO_TCPV6) || (gt =? VIRTIO_NET_HDR_GSO_UDP_L4))
    then Done 0 E_gso_type []
    else if len inp =? 0 then Panic                                   (* in[0] *)
    else
      let ipVersion := get8 inp 0 / 16 in
      let vgate :=
        if ipVersion =? 4 then
          (if negb ((gt =? VIRTIO_NET_HDR_GSO_TCPV4) || (gt =? VIRTIO_NET_HDR_GSO_UDP_L4)) then E_version_type else E_none)
        else if ipVersion =? 6 then
          (if negb ((gt =? VIRTIO_NET_HDR_GSO_TCPV6) || (gt =? VIRTIO_NET_HDR_GSO_UDP_L4)) then E_version_type else E_none)
        else E_version in
      if negb (vgate =? E_none) then Done 0 vgate []
      else
        (* hdrLen is recomputed: csumStart + 8 (UDP) or + 4 * data offset (TCP) *)
        let hl :=
          if gt =? VIRTIO_NET_HDR_GSO_UDP_L4 then inl (u16 (cs + 8))
          else if len inp <=? u16 (cs + 12) then inr E_too_short
          else
            let tcpHLen := (get8 inp (u16 (cs + 12)) / 16) * 4 in
            if (tcpHLen <? 20) || (60 <? tcpHLen) then inr E_tcp_hlen
            else inl (u16 (cs + tcpHLen)) in
        match hl with
        | inr e => Done 0 e []
        | inl hdrLen =>
            if len inp <? hdrLen then Done 0 E_len_hdrlen []
            else if hdrLen <? cs then Done 0 E_hdrlen_csumstart []
            else
              let cSumAt := u16 (cs + v_csumOffset hdr) in
              if len inp <=? cSumAt + 1 then Done 0 E_csum_end []
              else
                let hdr' := {| v_flags := v_flags hdr; v_gsoType := gt; v_hdrLen := hdrLen;
                               v_gsoSize := v_gsoSize hdr; v_csumStart := cs;
                               v_csumOffset := v_csumOffset hdr |} in
                gso_split inp hdr' nbufs (ipVersion =? 6) gseed
        end.

Definition handle_virtio_read (raw : list N) (nbufs room gseed : N) : outcome :=
  if len raw <? tun_virtioNetHdrLen then Done 0 E_short_buffer []
  else handle_hdr (decode raw) (sub raw tun_virtioNetHdrLen (len raw)) nbufs room gseed.
