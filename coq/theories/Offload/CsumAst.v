(* Deep-embedded mini-language for the bodies of tun/checksum.go (checksumNoFold, checksum,
   pseudoHeaderChecksumNoFold) and an executable interpreter.  The terms are produced from the Go SOURCE by
   harness/cmd/csumast (Gen/CsumAst.v); Offload/CsumAstProofs.v proves interpreter = Offload/Checksum.v mirror
   for all inputs.  No proofs here.

   Semantics (a trusted reading of Go on a LITTLE-ENDIAN host, GOARCH amd64/arm64):
   - a value is a number (VN, meant to be < 2^64) or a byte slice (VB, a list of numbers meant to be < 256).
     Slices are values: there is no aliasing in the model.  The translator only emits a store
     (SStoreLE/SStoreBE) into a variable that was created by make([]byte, n) in the same function and never
     reassigned, so no other name can observe the store in the translated functions.
   - +, -, << wrap modulo 2^64 (the translator emits EBin only for uint64 operands); >>, &, | are
     N.shiftr/land/lor.  ECast k is reduction modulo 2^k (uint16(x), uint64(x), ...).
   - ELoadLE n e = binary.NativeEndian.UintNN(e) (and LittleEndian): None (Go panics) when len(e) < n, else the
     little-endian value of the first n bytes.  ELoadBE n e = binary.BigEndian.UintNN(e).
     SStoreLE / SStoreBE n x e = PutUintNN(x, e): None when len(x) < n.
   - ESlice e lo hi = e[lo:hi]: None unless lo <= hi <= len(e) (capacity is not modelled: hi <= len, not cap).
     EIndex e i: None unless i < len(e).  EBytesNil/EBytesCons = []byte{...} (elements must be < 256).
   - SAdd64 x y a b c = `x, y = bits.Add64(a, b, c)` (Checksum.add64: sum modulo 2^64 and carry-out).
   - ECall f a b: a call of a two-parameter function of the same file, resolved by the [callee] argument of
     the interpreter (see run_* at the end: checksumNoFold calls nothing; the other two call checksumNoFold).
   - SWhile runs on explicit fuel, None when it runs out.  EUnknown/BUnknown/SUnknown, a read of an
     undeclared variable, a type confusion (number where a slice is expected...) yield None.
   - `:=`, `=` and `var x T` are all SAssign on a flat association list; the translator alpha-renames a name
     that is declared again in an inner scope (tmp -> tmp'1), so no scopes are needed. *)
From Coq Require Import String.
From WG Require Import Base.Prelude Offload.Checksum.
Local Open Scope N_scope.

Inductive value := VN (n : N) | VB (l : list N).

Inductive binop := OShr | OShl | OAnd | OOr | OAdd | OSub.
Inductive cmpop := CGe | CGt | CLe | CLt | CEq | CNe.

Inductive expr :=
| EConst (n : N)
| EVar (x : string)
| ELen (e : expr)
| ESlice (e : expr) (lo hi : option expr)
| EIndex (e i : expr)
| EBytesNil
| EBytesCons (h t : expr)
| EMake (n : expr)
| ELoadLE (n : N) (e : expr)
| ELoadBE (n : N) (e : expr)
| ECast (bits : N) (e : expr)
| EBin (o : binop) (a b : expr)
| ECall (f : string) (a b : expr)
| EUnknown (what : string).

Inductive bexpr :=
| BCmp (o : cmpop) (a b : expr)
| BUnknown (what : string).

Inductive stmt :=
| SSkip
| SSeq (a b : stmt)
| SAssign (x : string) (e : expr)
| SOpAssign (x : string) (o : binop) (e : expr)
| SAdd64 (x y : string) (a b c : expr)
| SStoreLE (n : N) (x : string) (e : expr)
| SStoreBE (n : N) (x : string) (e : expr)
| SIf (c : bexpr) (t e : stmt)
| SWhile (c : bexpr) (body : stmt)
| SReturn (e : expr)
| SUnknown (what : string).

Definition env := list (string * value).

Inductive outcome :=
| Normal (st : env)
| Returned (v : value).

Fixpoint lookup (x : string) (e : env) : option value :=
  match e with
  | [] => None
  | (y, v) :: t => if String.eqb x y then Some v else lookup x t
  end.

Fixpoint is_set (x : string) (e : env) : bool :=
  match e with
  | [] => false
  | (y, _) :: t => if String.eqb x y then true else is_set x t
  end.
Fixpoint replace (x : string) (v : value) (e : env) : env :=
  match e with
  | [] => []
  | (y, w) :: t => if String.eqb x y then (y, v) :: t else (y, w) :: replace x v t
  end.
(* replace in place, or declare in front *)
Definition update (x : string) (v : value) (e : env) : env :=
  if is_set x e then replace x v e else (x, v) :: e.

Definition binop_sem (o : binop) (x y : N) : N :=
  match o with
  | OShr => N.shiftr x y
  | OShl => (x * 2 ^ y) mod two64
  | OAnd => N.land x y
  | OOr => N.lor x y
  | OAdd => (x + y) mod two64
  | OSub => (x + two64 - y) mod two64
  end.

Definition cmpop_sem (o : cmpop) (x y : N) : bool :=
  match o with
  | CGe => y <=? x
  | CGt => y <? x
  | CLe => x <=? y
  | CLt => x <? y
  | CEq => x =? y
  | CNe => negb (x =? y)
  end.

Definition len (l : list N) : N := N.of_nat (length l).

Definition sem_slice (l : list N) (lo hi : N) : option (list N) :=
  if (lo <=? hi) && (hi <=? len l) then Some (firstn (N.to_nat (hi - lo)) (skipn (N.to_nat lo) l)) else None.

Definition sem_load_le (n : N) (l : list N) : option N :=
  if n <=? len l then Some (le (firstn (N.to_nat n) l)) else None.

Definition sem_load_be (n : N) (l : list N) : option N :=
  if n <=? len l then Some (le (rev (firstn (N.to_nat n) l))) else None.

Definition sem_store_le (n : N) (l : list N) (v : N) : option (list N) :=
  if n <=? len l then Some (bytes_le (N.to_nat n) v ++ skipn (N.to_nat n) l) else None.

Definition sem_store_be (n : N) (l : list N) (v : N) : option (list N) :=
  if n <=? len l then Some (rev (bytes_le (N.to_nat n) v) ++ skipn (N.to_nat n) l) else None.

Definition sem_index (l : list N) (i : N) : option N :=
  if i <? len l then Some (nth (N.to_nat i) l 0) else None.

Definition as_num (v : option value) : option N :=
  match v with Some (VN n) => Some n | _ => None end.
Definition as_bytes (v : option value) : option (list N) :=
  match v with Some (VB l) => Some l | _ => None end.

Definition obind {A B} (o : option A) (k : A -> option B) : option B :=
  match o with Some a => k a | None => None end.

Section Interp.
  (* how a call of a two-parameter function of the file is resolved *)
  Variable callee : string -> value -> value -> option value.

  Fixpoint eval (e : expr) (st : env) : option value :=
    match e with
    | EConst n => Some (VN n)
    | EVar x => lookup x st
    | ELen e => obind (as_bytes (eval e st)) (fun l => Some (VN (len l)))
    | ESlice e lo hi =>
        obind (as_bytes (eval e st)) (fun l =>
        obind (match lo with None => Some 0 | Some x => as_num (eval x st) end) (fun a =>
        obind (match hi with None => Some (len l) | Some x => as_num (eval x st) end) (fun b =>
        option_map VB (sem_slice l a b))))
    | EIndex e i =>
        obind (as_bytes (eval e st)) (fun l =>
        obind (as_num (eval i st)) (fun k => option_map VN (sem_index l k)))
    | EBytesNil => Some (VB [])
    | EBytesCons h t =>
        obind (as_num (eval h st)) (fun x =>
        obind (as_bytes (eval t st)) (fun l => if x <? 256 then Some (VB (x :: l)) else None))
    | EMake n => obind (as_num (eval n st)) (fun k => Some (VB (repeat 0 (N.to_nat k))))
    | ELoadLE n e => obind (as_bytes (eval e st)) (fun l => option_map VN (sem_load_le n l))
    | ELoadBE n e => obind (as_bytes (eval e st)) (fun l => option_map VN (sem_load_be n l))
    | ECast k e => obind (as_num (eval e st)) (fun x => Some (VN (x mod 2 ^ k)))
    | EBin o a b =>
        obind (as_num (eval a st)) (fun x =>
        obind (as_num (eval b st)) (fun y => Some (VN (binop_sem o x y))))
    | ECall f a b =>
        obind (eval a st) (fun x => obind (eval b st) (fun y => callee f x y))
    | EUnknown _ => None
    end.

  Definition evalb (b : bexpr) (st : env) : option bool :=
    match b with
    | BCmp o a b =>
        obind (as_num (eval a st)) (fun x =>
        obind (as_num (eval b st)) (fun y => Some (cmpop_sem o x y)))
    | BUnknown _ => None
    end.

  (* continue with k after a statement that completed normally; a return (or failure) propagates *)
  Definition andthen (r : option outcome) (k : env -> option outcome) : option outcome :=
    match r with
    | Some (Normal st) => k st
    | other => other
    end.

  Fixpoint while_loop (cond : env -> option bool) (step : env -> option outcome) (fuel : nat) (st : env)
    : option outcome :=
    match fuel with
    | O => None
    | S k =>
        match cond st with
        | None => None
        | Some false => Some (Normal st)
        | Some true => andthen (step st) (while_loop cond step k)
        end
    end.

  Definition set_var (x : string) (v : value) (st : env) : option outcome := Some (Normal (update x v st)).

  Fixpoint exec (fuel : nat) (s : stmt) (st : env) : option outcome :=
    match s with
    | SSkip => Some (Normal st)
    | SSeq a b => andthen (exec fuel a st) (exec fuel b)
    | SAssign x e => obind (eval e st) (fun v => set_var x v st)
    | SOpAssign x o e =>
        obind (as_num (lookup x st)) (fun a =>
        obind (as_num (eval e st)) (fun b => set_var x (VN (binop_sem o a b)) st))
    | SAdd64 x y a b c =>
        obind (as_num (eval a st)) (fun av =>
        obind (as_num (eval b st)) (fun bv =>
        obind (as_num (eval c st)) (fun cv =>
          Some (Normal (update y (VN (snd (add64 av bv cv))) (update x (VN (fst (add64 av bv cv))) st))))))
    | SStoreLE n x e =>
        obind (as_bytes (lookup x st)) (fun l =>
        obind (as_num (eval e st)) (fun v =>
        obind (sem_store_le n l v) (fun l' => set_var x (VB l') st)))
    | SStoreBE n x e =>
        obind (as_bytes (lookup x st)) (fun l =>
        obind (as_num (eval e st)) (fun v =>
        obind (sem_store_be n l v) (fun l' => set_var x (VB l') st)))
    | SIf c t e =>
        match evalb c st with
        | Some true => exec fuel t st
        | Some false => exec fuel e st
        | None => None
        end
    | SWhile c body => while_loop (evalb c) (exec fuel body) fuel st
    | SReturn e => obind (eval e st) (fun v => Some (Returned v))
    | SUnknown _ => None
    end.
End Interp.

Definition no_callee (f : string) (a b : value) : option value := None.

(* fuel: the only loop of the file consumes at least one byte per iteration *)
Definition fuel_for (b : list N) : nat := S (N.to_nat (len b / 128)).

(* checksumNoFold(b []byte, initial uint64) uint64 -- calls nothing *)
Definition run_noFold (body : stmt) (b : list N) (initial : N) : option N :=
  match exec no_callee (fuel_for b) body [("b"%string, VB b); ("initial"%string, VN initial)] with
  | Some (Returned (VN r)) => Some r
  | _ => None
  end.

(* the functions of the file that call checksumNoFold *)
Definition callee1 (noFold : stmt) (f : string) (a b : value) : option value :=
  if String.eqb f "checksumNoFold" then
    match a, b with
    | VB l, VN i => option_map VN (run_noFold noFold l i)
    | _, _ => None
    end
  else None.

(* checksum(b []byte, initial uint64) uint16 *)
Definition run_checksum (noFold body : stmt) (b : list N) (initial : N) : option N :=
  match exec (callee1 noFold) 1 body [("b"%string, VB b); ("initial"%string, VN initial)] with
  | Some (Returned (VN r)) => Some r
  | _ => None
  end.

(* pseudoHeaderChecksumNoFold(protocol uint8, srcAddr, dstAddr []byte, totalLen uint16) uint64 *)
Definition run_pseudo (noFold body : stmt) (protocol : N) (src dst : list N) (totalLen : N) : option N :=
  match exec (callee1 noFold) 1 body
          [("protocol"%string, VN protocol); ("srcAddr"%string, VB src); ("dstAddr"%string, VB dst);
           ("totalLen"%string, VN totalLen)] with
  | Some (Returned (VN r)) => Some r
  | _ => None
  end.
