(* Specification for C17: "the packets the sending stack meant".

   A super-packet [super] is what the kernel hands over with a virtio-net header whose gso_type
   is TCPV4/TCPV6/UDP_L4: one IP header, one transport header, and a payload that stands for
   ceil(|payload| / gsoSize) packets.  [wf_super] is what the kernel delivers.  The clauses
   below are boolean checkers over ONE produced segment (index i); they are evaluated in Coq on
   the segments the implementation produced (GsoCheck, kind 2) and proved for the model's
   segments for all well-formed super-packets (GsoProofs).  Nothing here mentions the model. *)
From WG Require Import Base.Prelude Gen.Constants Offload.Bytes Offload.Checksum.
Local Open Scope N_scope.

Record super := {
  s_v6 : bool; s_tcp : bool;
  s_pkt : list N;      (* IP header .. end of payload *)
  s_cs : N;            (* csum_start = offset of the transport header = IP header length *)
  s_hl : N;            (* end of the transport header *)
  s_gso : N;           (* gso_size *)
  s_co : N }.          (* csum_offset *)

Definition proto_of (sp : super) : N := if s_tcp sp then 6 else 17.
Definition src_off (sp : super) : N := if s_v6 sp then 8 else 12.
Definition alen (sp : super) : N := if s_v6 sp then 16 else 4.
Definition fin_psh : N := N.lor tun_tcpFlagFIN tun_tcpFlagPSH.

(* What the kernel delivers. *)
Definition wf_superb (sp : super) : bool :=
  let p := s_pkt sp in
  bytesb p && (len p <=? 65535) && (s_hl sp <=? len p) && (1 <=? s_gso sp) &&
  (if s_v6 sp then (get8 p 0 / 16 =? 6) && (s_cs sp =? 40)
   else (get8 p 0 / 16 =? 4) && (s_cs sp =? (get8 p 0 mod 16) * 4) && (20 <=? s_cs sp)) &&
  (if s_tcp sp
   then (s_hl sp =? s_cs sp + (get8 p (s_cs sp + 12) / 16) * 4) && (s_cs sp + 20 <=? s_hl sp) && (s_co sp =? 16)
   else (s_hl sp =? s_cs sp + tun_udphLen) && (s_co sp =? 6)).
Definition wf_super (sp : super) : Prop := wf_superb sp = true.

(* segmentation arithmetic *)
Definition paylen (sp : super) : N := len (s_pkt sp) - s_hl sp.
Definition nseg (sp : super) : N := (paylen sp + s_gso sp - 1) / s_gso sp.
Definition seg_data_len (sp : super) (i : N) : N := N.min (s_gso sp) (paylen sp - i * s_gso sp).
Definition seg_payload (sp : super) (i : N) : list N :=
  sub (s_pkt sp) (s_hl sp + i * s_gso sp) (s_hl sp + i * s_gso sp + seg_data_len sp i).
Definition is_last (sp : super) (i : N) : bool := i + 1 =? nseg sp.

Fixpoint list_eqb (a b : list N) : bool :=
  match a, b with
  | [], [] => true
  | x :: a', y :: b' => (x =? y) && list_eqb a' b'
  | _, _ => false
  end.

Fixpoint memb (x : N) (l : list N) : bool :=
  match l with [] => false | y :: r => (x =? y) || memb x r end.

(* a and b have the same length and agree bytewise, except where the position (counted from
   [pos]) is one of the listed offsets *)
Fixpoint same_exc (a b : list N) (pos : N) (ex : list N) : bool :=
  match a, b with
  | [], [] => true
  | x :: a', y :: b' => (memb pos ex || (x =? y)) && same_exc a' b' (pos + 1) ex
  | _, _ => false
  end.

Section Clauses.
  Variable sp : super.
  Variable i : N.            (* segment index *)
  Variable s : list N.       (* the produced packet *)
  Let p := s_pkt sp.
  Let cs := s_cs sp.
  Let hl := s_hl sp.

  (* payload split in order at gsoSize *)
  Definition c_len : bool := len s =? hl + seg_data_len sp i.
  Definition c_payload : bool := list_eqb (sub s hl (len s)) (seg_payload sp i).
  (* IP lengths, consecutive IPv4 IDs, rest of the IP header untouched *)
  Definition c_ip_len : bool :=
    if s_v6 sp then get16 s 4 =? len s - 40 else get16 s 2 =? len s.
  Definition c_ip_id : bool :=
    if s_v6 sp then true else get16 s 4 =? (get16 p 4 + i) mod 65536.
  Definition c_ip_rest : bool :=
    same_exc (sub s 0 cs) (sub p 0 cs) 0 (if s_v6 sp then [4; 5] else [2; 3; 4; 5; 10; 11]).
  Definition c_ip_csum : bool :=
    if s_v6 sp then true else oc_validb (sum16 (sub s 0 cs)).
  (* TCP: sequence number advanced by the bytes before the segment, FIN/PSH only on the last *)
  Definition c_tcp_seq : bool :=
    if s_tcp sp then get32 s (cs + 4) =? (get32 p (cs + 4) + i * s_gso sp) mod 4294967296 else true.
  Definition c_tcp_flags : bool :=
    if s_tcp sp then
      get8 s (cs + tun_tcpFlagsOffset) =?
      (if is_last sp i then get8 p (cs + tun_tcpFlagsOffset)
       else N.ldiff (get8 p (cs + tun_tcpFlagsOffset)) fin_psh)
    else true.
  (* UDP length *)
  Definition c_udp_len : bool :=
    if s_tcp sp then true else get16 s (cs + 4) =? tun_udphLen + seg_data_len sp i.
  (* ports, ack, window, urgent pointer, options untouched *)
  Definition c_th_rest : bool :=
    same_exc (sub s cs hl) (sub p cs hl) cs
      (if s_tcp sp then [cs + 4; cs + 5; cs + 6; cs + 7; cs + tun_tcpFlagsOffset; cs + 16; cs + 17]
       else [cs + 4; cs + 5; cs + 6; cs + 7]).
  (* transport checksum: pseudo header (addresses, protocol, length) + transport header + payload *)
  Definition transport_sum : N :=
    pseudo_sum (proto_of sp) (sub s (src_off sp) (src_off sp + alen sp))
               (sub s (src_off sp + alen sp) (src_off sp + 2 * alen sp)) (len s - cs)
    + sum16 (sub s cs (len s)).
  Definition c_transport_csum : bool := oc_validb transport_sum.
  (* RFC 768 / RFC 8200: a computed UDP checksum of zero is transmitted as 0xffff *)
  Definition c_udp_csum_nonzero : bool :=
    if s_tcp sp then true else negb (get16 s (cs + 6) =? 0).

  (* number of the first failing clause, 0 if none *)
  Definition seg_check : N :=
    if negb c_len then 1 else if negb c_payload then 2 else if negb c_ip_len then 3
    else if negb c_ip_id then 4 else if negb c_ip_rest then 5 else if negb c_ip_csum then 6
    else if negb c_tcp_seq then 7 else if negb c_tcp_flags then 8 else if negb c_th_rest then 9
    else if negb c_udp_len then 10 else if negb c_transport_csum then 11
    else if negb c_udp_csum_nonzero then 12 else 0.
End Clauses.

(* clause numbers for count / error (whole result) *)
Definition K_count : N := 20.
Definition K_error : N := 21.
Definition E_spec_too_many : N := 11.

Fixpoint segs_check (sp : super) (i : N) (segs : list (list N)) (limit : nat) : option (N * N) :=
  match limit, segs with
  | O, _ => None
  | S l', s :: r =>
      let c := seg_check sp i s in
      if c =? 0 then segs_check sp (i + 1) r l' else Some (i, c)
  | S _, [] => Some (i, K_count)
  end.

(* the whole property on an observed result (n, err, segs written) with nbufs buffers:
   None = holds, Some (segment, clause) otherwise *)
Definition holds_super (sp : super) (nbufs : N) (n err : N) (segs : list (list N)) : option (N * N) :=
  if nseg sp <=? nbufs then
    if negb (err =? 0) then Some (0, K_error)
    else if negb (n =? nseg sp) then Some (0, K_count)
    else segs_check sp 0 segs (N.to_nat n)
  else
    if negb (err =? E_spec_too_many) then Some (0, K_error)
    else if nbufs <? n then Some (0, K_count)
    else segs_check sp 0 segs (N.to_nat n).

(* ------------------------------------------------------------------ *)
(* Parsing the read(2) result as a super-packet (spec side, independent of the model) *)
(* ------------------------------------------------------------------ *)

Definition le16 (l : list N) (o : N) : N := get8 l o + 256 * get8 l (o + 1).

(* gso_type 1 = TCPV4, 4 = TCPV6, 5 = UDP_L4 (include/uapi/linux/virtio_net.h) *)
Definition parse_super (raw : list N) : option super :=
  let gt := get8 raw 1 in
  if (gt =? 1) || (gt =? 4) || (gt =? 5) then
    let p := sub raw 10 (len raw) in
    let cs := le16 raw 6 in
    let tcp := negb (gt =? 5) in
    let v6 := get8 p 0 / 16 =? 6 in
    if (gt =? 1) && v6 then None else if (gt =? 4) && negb v6 then None else
    Some {| s_v6 := v6; s_tcp := tcp; s_pkt := p; s_cs := cs;
            s_hl := if tcp then cs + (get8 p (cs + 12) / 16) * 4 else cs + 8;
            s_gso := le16 raw 4; s_co := le16 raw 8 |}
  else None.

(* ------------------------------------------------------------------ *)
(* gso_type NONE with NEEDS_CSUM: a single packet whose checksum has to be completed *)
(* ------------------------------------------------------------------ *)

Record partial := {
  p_pkt : list N; p_cs : N; p_co : N;
  p_v6 : bool; p_proto : N }.

Definition parse_partial (raw : list N) : option partial :=
  if (get8 raw 1 =? 0) && (N.land (get8 raw 0) 1 =? 1) then
    let p := sub raw 10 (len raw) in
    let v6 := get8 p 0 / 16 =? 6 in
    Some {| p_pkt := p; p_cs := le16 raw 6; p_co := le16 raw 8; p_v6 := v6;
            p_proto := if v6 then get8 p 6 else get8 p 9 |}
  else None.

Definition p_src (pp : partial) : N := if p_v6 pp then 8 else 12.
Definition p_alen (pp : partial) : N := if p_v6 pp then 16 else 4.
Definition partial_pseudo (pp : partial) (pkt : list N) : N :=
  pseudo_sum (p_proto pp) (sub pkt (p_src pp) (p_src pp + p_alen pp))
             (sub pkt (p_src pp + p_alen pp) (p_src pp + 2 * p_alen pp)) (len pkt - p_cs pp).

(* CHECKSUM_PARTIAL contract: the field holds the (folded, not complemented) pseudo-header sum *)
Definition wf_partialb (pp : partial) : bool :=
  let p := p_pkt pp in
  bytesb p && (len p <=? 65535) && (p_cs pp + p_co pp + 2 <=? len p) && N.even (p_co pp) &&
  ((p_v6 pp && (40 <=? p_cs pp)) || (negb (p_v6 pp) && (get8 p 0 / 16 =? 4) && (20 <=? p_cs pp))) &&
  (get16 p (p_cs pp + p_co pp) mod 65535 =? partial_pseudo pp p mod 65535).
Definition wf_partial (pp : partial) : Prop := wf_partialb pp = true.

(* clause numbers: 31 length, 32 bytes outside the field changed, 33 checksum invalid,
   34 UDP checksum zero *)
Definition partial_check (pp : partial) (out : list N) : N :=
  let p := p_pkt pp in
  let fld := p_cs pp + p_co pp in
  if negb (len out =? len p) then 31
  else if negb (same_exc out p 0 [fld; fld + 1]) then 32
  else if negb (oc_validb (partial_pseudo pp out + sum16 (sub out (p_cs pp) (len out)))) then 33
  else if (p_proto pp =? 17) && (get16 out fld =? 0) then 34
  else 0.
