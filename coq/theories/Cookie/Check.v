(* Correspondence checker for C10: run the slice model over the events the
   harness applied to the real device, compare its outputs and state writes
   with what was observed (kind 1), and evaluate the property's checker
   [Spec.holdsb] on the observations (kind 2).  Depends on Model and Spec only. *)
From WG Require Import Base.Prelude Gen.Constants Cookie.Model Cookie.Spec.
From WG Require Import Base.Ints.
Local Open Scope N_scope.

(* ---------------------------------------------- descriptors in case files *)
(* Times are primitive integers (nanoseconds, 13+ digits); everything else is a small N. *)

Inductive m2d := M2Zero | M2Junk (n : N) | M2Cookie (e ip port : N).

Definition mk_mac1 (k b : N) : term := if k =? 0 then TJunk b else TMac (mac1_key k) (TBody b).

Definition mk_mac2 (d : m2d) (body mac1 : term) : term :=
  match d with
  | M2Zero => TZero
  | M2Junk n => TJunk n
  | M2Cookie e ip port => TMac (TMac (TSecret e) (TAddr ip port)) (TPair body mac1)
  end.

(* message: type word, size, body number, index at offset 4, MAC1 (key, body it was computed over),
   MAC2, source (address number, port), payload descriptor *)
Definition M (typ size body sender m1k m1b : N) (m2 : m2d) (ip port : N) (c : content) : msg :=
  let b := TBody body in
  let m1 := mk_mac1 m1k m1b in
  {| m_type := typ; m_size := size; m_body := b; m_sender := sender; m_mac1 := m1;
     m_mac2 := mk_mac2 m2 b m1; m_src := (ip, port); m_content := c |}.

(* encrypted field of a cookie reply built by the remote side: sealed under Hash(label || pub k)
   with the MAC1 that key adk gives on body adb (adk = 0: some other bytes), carrying cookie number n *)
Definition cenc (k nonce n adk adb : N) : term :=
  TXAead (cookie_key k) nonce (TJunk n) (mk_mac1 adk adb).

Definition R (t : Uint63.int) (m : msg) (q al : bool) (nonce body : N) : event :=
  ERecv (n_of_int t) m q al nonce body.
Definition T (t : Uint63.int) (p hid body : N) : event := ETun (n_of_int t) p hid body.
Definition FL (t d : Uint63.int) (on : bool) : event := EForceLoad (n_of_int t) (n_of_int d) on.
Definition SS (d : Uint63.int) : event := EShiftSecret (n_of_int d).
Definition SP (p : N) (d : Uint63.int) : event := EShiftPeerCookie p (n_of_int d).
Definition SH (p : N) (d : Uint63.int) : event := EShiftHs p (n_of_int d).
Definition SK (t : Uint63.int) (k : N) : event := ESetIdentity (n_of_int t) k.

Definition OD (kind ip port idx peer body mac2 : N) (opens wrong_fail : bool) (epoch cip cport : N) : oobs :=
  {| o_kind := kind; o_to := (ip, port); o_idx := idx; o_peer := peer; o_body := body; o_mac2 := mac2;
     o_opens := opens; o_wrong_fail := wrong_fail; o_epoch := epoch; o_caddr := (cip, cport) |}.

Definition OB (outs : list oobs) (changed : list N) (dev : bool) (epoch : N) : sobs :=
  {| s_outs := outs; s_changed := changed; s_dev_changed := dev; s_epoch := epoch |}.

Record case := {
  c_dev : N;
  c_t0 : Uint63.int;                       (* time the peers were started *)
  c_peers : list (N * option addr);        (* key number, configured endpoint *)
  c_steps : list (event * sobs) }.

Definition mk (dev : N) (t0 : Uint63.int) (peers : list (N * option addr)) (steps : list (event * sobs)) : case :=
  {| c_dev := dev; c_t0 := t0; c_peers := peers; c_steps := steps |}.

(* -------------------------------- model outputs as observation descriptors *)

Definition mac2_class (t : term) : N :=
  match t with
  | TZero => 0
  | TMac (TJunk n) _ => 1 + n
  | _ => 999
  end.

Definition mac1_of (t : term) : N * N :=     (* key number and body number, (0,0) if not of that shape *)
  match t with
  | TMac (THash (TLabel 0) (TPub k)) (TBody b) => (k, b)
  | _ => (0, 0)
  end.

Definition describe (dev : N) (offender : term) (o : output) : oobs :=
  match o with
  | OCookie to r enc =>
      let p := xopen (cookie_key dev) offender enc in
      let '(e, a) := match p with
                     | Some (TMac (TSecret e) (TAddr ip port)) => (e, (ip, port))
                     | _ => (0, (0, 0))
                     end in
      {| o_kind := 3; o_to := to; o_idx := r; o_peer := 0; o_body := 0; o_mac2 := 0;
         o_opens := match p with Some _ => true | None => false end; o_wrong_fail := true;
         o_epoch := e; o_caddr := a |}
  | OResp to p m1 m2 =>
      {| o_kind := 2; o_to := to; o_idx := 0; o_peer := fst (mac1_of m1); o_body := snd (mac1_of m1);
         o_mac2 := mac2_class m2; o_opens := false; o_wrong_fail := false; o_epoch := 0; o_caddr := (0, 0) |}
  | OInit to p _ m1 m2 =>
      {| o_kind := 1; o_to := to; o_idx := 0; o_peer := fst (mac1_of m1); o_body := snd (mac1_of m1);
         o_mac2 := mac2_class m2; o_opens := false; o_wrong_fail := false; o_epoch := 0; o_caddr := (0, 0) |}
  | OTransport to p =>
      {| o_kind := 4; o_to := to; o_idx := 0; o_peer := p; o_body := 0; o_mac2 := 0;
         o_opens := false; o_wrong_fail := false; o_epoch := 0; o_caddr := (0, 0) |}
  end.

Definition oobs_eqb (a b : oobs) : bool :=
  (o_kind a =? o_kind b) && addr_eqb (o_to a) (o_to b) && (o_idx a =? o_idx b) &&
  (o_peer a =? o_peer b) && (o_body a =? o_body b) && (o_mac2 a =? o_mac2 b) &&
  Bool.eqb (o_opens a) (o_opens b) && Bool.eqb (o_wrong_fail a) (o_wrong_fail b) &&
  (o_epoch a =? o_epoch b) && addr_eqb (o_caddr a) (o_caddr b).

Fixpoint list_eqb {A} (f : A -> A -> bool) (a b : list A) : bool :=
  match a, b with
  | [], [] => true
  | x :: a', y :: b' => f x y && list_eqb f a' b'
  | _, _ => false
  end.

Fixpoint changed_peers (a b : list peer) : list N :=
  match a, b with
  | x :: a', y :: b' => (if p_ver x =? p_ver y then [] else [p_id x]) ++ changed_peers a' b'
  | _, _ => []
  end.

Definition offender_of (e : event) : term :=
  match e with ERecv _ m _ _ _ _ => m_mac1 m | _ => TZero end.

(* does the model's step agree with the observation? *)
Definition agrees (st st' : dstate) (e : event) (outs : list output) (o : sobs) : bool :=
  list_eqb oobs_eqb (map (describe (d_pk st) (offender_of e)) outs) (s_outs o) &&
  list_eqb N.eqb (changed_peers (d_peers st) (d_peers st')) (s_changed o) &&
  negb (s_dev_changed o) && (d_epoch st' =? s_epoch o).

Fixpoint first_mismatch (st : dstate) (tr : list (event * sobs)) (i : N) : option N :=
  match tr with
  | [] => None
  | (e, o) :: r =>
      let '(st', outs) := step st e in
      if agrees st st' e outs o then first_mismatch st' r (i + 1) else Some i
  end.

Definition init_state (k : case) : dstate :=
  dstate0 (c_dev k) (map (fun pe => peer0 (fst pe) (snd pe) (n_of_int (c_t0 k))) (c_peers k)).

(* kind 1 = the device differs from the mirror model; kind 2 = the property fails on the observations *)
Definition check_case (k : case) : list (N * N) :=
  (match first_mismatch (init_state k) (c_steps k) 0 with Some i => [(1, i)] | None => [] end) ++
  (match first_bad (c_dev k) hist0 (c_steps k) 0 with Some i => [(2, i)] | None => [] end).

Fixpoint check_cases (ks : list case) (idx : N) : list (N * N * N) :=
  match ks with
  | [] => []
  | k :: ks' => map (fun p => (idx, fst p, snd p)) (check_case k) ++ check_cases ks' (idx + 1)
  end.

(* ----------------------------------------------------- branch statistics *)
(* [0 gate drop; 1 MAC1 drop; 2 cookie reply; 3 rate limited; 4 consumed under load;
    5 consumed not under load; 6 payload rejected; 7 cookie reply consumed; 8 cookie reply rejected;
    9 transport authentic; 10 transport rejected; 11 device initiation MAC2 zero;
    12 device initiation with MAC2; 13 TUN packet without initiation; 14 secret refreshed;
    15 response with MAC2; 16 identity changed (private_key=)] *)

Fixpoint bump (l : list N) (i : nat) : list N :=
  match l, i with
  | [], _ => []
  | x :: t, O => (x + 1) :: t
  | x :: t, S j => x :: bump t j
  end.

Definition classify (st : dstate) (e : event) : list nat :=
  let '(st', outs) := step st e in
  let refreshed := if d_epoch st' =? d_epoch st then [] else [14%nat] in
  let withmac2 := existsb (fun o => match o with OResp _ _ _ (TMac _ _) => true | _ => false end) outs in
  refreshed ++ (if withmac2 then [15%nat] else []) ++
  match e with
  | ERecv now m q al _ _ =>
      if negb (gate m) then [0%nat]
      else if m_type m =? MessageTransportType then
        match m_content m with CTransport (Some _) => [9%nat] | _ => [10%nat] end
      else if m_type m =? MessageCookieReplyType then
        if list_eqb N.eqb (changed_peers (d_peers st) (d_peers st')) [] then [8%nat] else [7%nat]
      else
        let '(st1, v) := hs_gates st now m q al in
        match v with
        | VDrop => [1%nat]
        | VCookie => [2%nat]
        | VLimited => [3%nat]
        | VConsume =>
            if list_eqb N.eqb (changed_peers (d_peers st) (d_peers st')) [] then [6%nat]
            else if snd (is_under_load st now q) then [4%nat] else [5%nat]
        end
  | ESetIdentity _ _ => [16%nat]
  | ETun _ _ _ _ =>
      match outs with
      | OInit _ _ _ _ TZero :: _ => [11%nat]
      | OInit _ _ _ _ _ :: _ => [12%nat]
      | _ => [13%nat]
      end
  | _ => []
  end.

Fixpoint stats_steps (st : dstate) (tr : list (event * sobs)) (acc : list N) : list N :=
  match tr with
  | [] => acc
  | (e, _) :: r => stats_steps (fst (step st e)) r (fold_left bump (classify st e) acc)
  end.

Definition stats (ks : list case) : list N :=
  fold_left (fun acc k => stats_steps (init_state k) (c_steps k) acc) ks (repeat 0 17).

(* what the model predicts, step by step (used when looking into a mismatch) *)
Fixpoint predict (st : dstate) (tr : list (event * sobs)) : list (list oobs * list N * N) :=
  match tr with
  | [] => []
  | (e, _) :: r =>
      let '(st', outs) := step st e in
      (map (describe (d_pk st) (offender_of e)) outs, changed_peers (d_peers st) (d_peers st'), d_epoch st')
        :: predict st' r
  end.
Definition predict_case (k : case) := predict (init_state k) (c_steps k).
