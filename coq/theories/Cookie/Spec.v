(* Property C10 as an executable checker over observed traces.

   A trace is the list of events the harness applied (with the construction
   descriptor of every datagram it injected) and, for each of them, what was
   observed at the conn.Bind boundary and in the device's state.  [holdsb]
   evaluates the clauses of the property text on the observations only; it
   does not run the mirror model.  It keeps the little history the text refers
   to: whether load is forced, which cookies the device issued to whom and
   when, and the MAC1 of the last handshake message the device sent to each
   peer (what a cookie reply to the device must be bound to). *)
From WG Require Import Base.Prelude Gen.Constants Cookie.Model.
Local Open Scope N_scope.

(* one datagram emitted by the device, as the remote parties can describe it *)
Record oobs := {
  o_kind : N;          (* 1 initiation, 2 response, 3 cookie reply, 4 transport, 0 anything else *)
  o_to : addr;
  o_idx : N;           (* cookie reply: receiver index; initiation/response: 0 *)
  o_peer : N;          (* initiation/response: key number under which MAC1 verifies; transport: whose session opens it; 0 = none *)
  o_body : N;          (* initiation/response: number the harness gave to its body *)
  o_mac2 : N;          (* initiation/response: 0 = zero, 1+n = verifies under the n-th cookie the remote side handed out, 999 = other *)
  o_opens : bool;      (* cookie reply: opens with Hash("cookie--" || S_dev) and the MAC1 of the offending message *)
  o_wrong_fail : bool; (* cookie reply: does not open with another key nor with another MAC1 *)
  o_epoch : N;         (* cookie reply: number of the checker secret under which plaintext = Mac(secret, o_caddr) *)
  o_caddr : addr }.    (* cookie reply: the address the cookie is bound to, (0,0) if the plaintext is no such MAC *)

Record sobs := {
  s_outs : list oobs;
  s_changed : list N;   (* peers whose observable state (IpcGet section, VerifPeer, cookie generator) differs from before the step *)
  s_dev_changed : bool; (* device-level IpcGet lines or index-table key set differ *)
  s_epoch : N }.        (* number of the checker secret after the step *)

Record hist := {
  h_until : N;                       (* forced load lasts until *)
  h_shift : N;                       (* sum of the cookie-secret age shifts: virtual clock skew *)
  h_epoch : N;
  h_issued : list (N * addr * N);    (* epoch, address, virtual time of every cookie issued *)
  h_last : list (N * term);          (* peer -> MAC1 of the last handshake message the device sent it *)
  h_id : option N }.                 (* the device's static key number if it was changed through UAPI *)

Definition hist0 : hist := {| h_until := 0; h_shift := 0; h_epoch := 0; h_issued := []; h_last := []; h_id := None |}.

Fixpoint lookup {A} (l : list (N * A)) (k : N) : option A :=
  match l with [] => None | (k', v) :: t => if k' =? k then Some v else lookup t k end.

Definition silent_inert (o : sobs) (h : hist) : bool :=
  match s_outs o with [] => true | _ => false end &&
  match s_changed o with [] => true | _ => false end &&
  negb (s_dev_changed o) && (s_epoch o =? h_epoch h).

Definition is_processed (o : sobs) : bool :=
  existsb (fun x => (o_kind x =? 2) || (o_kind x =? 4)) (s_outs o) ||
  match s_changed o with [] => false | _ => true end.

(* the Noise payload can succeed at all *)
Definition payload_may_pass (m : msg) : bool :=
  match m_content m with
  | CInit (Some _) true => m_type m =? MessageInitiationType
  | CResp (Some _) _ => m_type m =? MessageResponseType
  | _ => false
  end.
(* ... and must succeed (a fresh authentic initiation from a configured peer) *)
Definition payload_must_pass (m : msg) : bool :=
  match m_content m with
  | CInit (Some _) true => m_type m =? MessageInitiationType
  | _ => false
  end.

(* MAC2 of m verifies under a cookie the device issued to a *)
Definition mac2_for (m : msg) (e : N) (a : addr) : bool :=
  teqb (TMac (cookie_for e a) (covered2 m)) (m_mac2 m).

Definition issued_recent (h : hist) (m : msg) (vnow : N) : bool :=
  existsb (fun x => let '(e, a, t) := x in
                    mac2_for m e a && addr_eqb a (m_src m) && (vnow - t <=? CookieRefreshTime))
          (h_issued h).

(* the cookie was handed out a moment ago (no ageing in between): the text promises that a message
   carrying it from the same address is processed, subject only to the rate limit *)
Definition just_issued (h : hist) (m : msg) (vnow : N) : bool :=
  existsb (fun x => let '(e, a, t) := x in
                    mac2_for m e a && addr_eqb a (m_src m) && (vnow - t <=? UnderLoadAfterTime))
          (h_issued h).

Definition good_reply (m : msg) (x : oobs) : bool :=
  (o_kind x =? 3) && addr_eqb (o_to x) (m_src m) && (o_idx x =? m_sender m) &&
  o_opens x && o_wrong_fail x && addr_eqb (o_caddr x) (m_src m).

Definition cookie_authentic (h : hist) (m : msg) : bool :=
  match m_content m with
  | CCookie (Some p) enc =>
      match lookup (h_last h) p with
      | Some l => match xopen (cookie_key p) l enc with Some _ => true | None => false end
      | None => false
      end
  | _ => false
  end.

Definition identity (dev : N) (h : hist) : N := match h_id h with Some k => k | None => dev end.

Definition recv_ok (dev0 : N) (h : hist) (now : N) (m : msg) (qload allow : bool) (o : sobs) : bool :=
  let dev := identity dev0 h in
  let vnow := now + h_shift h in
  if negb (gate m) then silent_inert o h
  else if m_type m =? MessageTransportType then
    (* an authentic fresh transport message is taken in (the peer's counters move) — in particular after
       forged messages on the same receiver index, which must be as good as erased; anything else is inert *)
    match m_content m with
    | CTransport (Some p) => existsb (N.eqb p) (s_changed o)
    | _ => silent_inert o h
    end
  else if m_type m =? MessageCookieReplyType then
    match s_outs o with [] => true | _ => false end &&
    (cookie_authentic h m || silent_inert o h)
  else if negb (check_mac1 dev m) then silent_inert o h
  else if negb (qload || (now <? h_until h)) then
    (* not under load: never a cookie reply; a fresh authentic initiation is processed without any MAC2;
       whatever fails authentication is met with silence *)
    negb (existsb (fun x => o_kind x =? 3) (s_outs o)) &&
    (negb (payload_must_pass m) || is_processed o) &&
    (payload_may_pass m || silent_inert o h)
  else
    (* under load *)
    (negb (is_processed o) || issued_recent h m vnow) &&
    (if is_processed o then true
     else match s_outs o with
          | [] => issued_recent h m vnow && (negb allow || negb (payload_must_pass m)) &&
                  silent_inert o h
          | [x] => good_reply m x && match s_changed o with [] => true | _ => false end &&
                   negb (s_dev_changed o)
          | _ => false
          end) &&
    (negb (just_issued h m vnow && payload_must_pass m && allow) || is_processed o).

Fixpoint learn_last (l : list (N * term)) (outs : list oobs) : list (N * term) :=
  match outs with
  | [] => l
  | x :: r =>
      learn_last (if (o_kind x =? 1) || (o_kind x =? 2)
                  then (o_peer x, TMac (mac1_key (o_peer x)) (TBody (o_body x))) :: l else l) r
  end.

Fixpoint learn_issued (l : list (N * addr * N)) (vnow : N) (outs : list oobs) : list (N * addr * N) :=
  match outs with
  | [] => l
  | x :: r =>
      learn_issued (if (o_kind x =? 3) && o_opens x then (o_epoch x, o_caddr x, vnow) :: l else l) vnow r
  end.

Definition ev_now (e : event) : N :=
  match e with ERecv now _ _ _ _ _ => now | ETun now _ _ _ => now | EForceLoad now _ _ => now | _ => 0 end.

Definition advance (dev : N) (h : hist) (e : event) (o : sobs) : hist :=
  let vnow := ev_now e + h_shift h in
  {| h_until := match e with
                | EForceLoad now d on => if on then now + d else 0
                | ERecv now m true _ _ _ =>   (* IsUnderLoad found the queue loaded: load lasts one more second *)
                    if gate m && ((m_type m =? MessageInitiationType) || (m_type m =? MessageResponseType))
                       && check_mac1 (identity dev h) m
                    then now + UnderLoadAfterTime else h_until h
                | _ => h_until h
                end;
     h_shift := match e with EShiftSecret d => h_shift h + d | _ => h_shift h end;
     h_epoch := s_epoch o;
     (* a new identity starts with no cookie secret: cookies issued before are worthless *)
     h_issued := match e with ESetIdentity _ _ => [] | _ => learn_issued (h_issued h) vnow (s_outs o) end;
     h_last := learn_last (h_last h) (s_outs o);
     h_id := match e with ESetIdentity _ k => Some k | _ => h_id h end |}.

Definition step_ok (dev : N) (h : hist) (e : event) (o : sobs) : bool :=
  match e with
  | ERecv now m qload allow _ _ => recv_ok dev h now m qload allow o
  | _ => true
  end.

(* position of the first step at which a clause of the property fails *)
Fixpoint first_bad (dev : N) (h : hist) (tr : list (event * sobs)) (i : N) : option N :=
  match tr with
  | [] => None
  | (e, o) :: r => if step_ok dev h e o then first_bad dev (advance dev h e o) r (i + 1) else Some i
  end.

Definition holdsb (dev : N) (tr : list (event * sobs)) : bool :=
  match first_bad dev hist0 tr 0 with None => true | Some _ => false end.
