(* Slice model of the device for property C10: device/cookie.go (CookieChecker,
   CookieGenerator), the receive gates of RoutineReceiveIncoming, the MAC1 /
   under-load / MAC2 / rate-limit gates of RoutineHandshake, SendHandshakeCookie,
   and as much of the handshake and send path as is needed to say what the
   device emits and which peer state it touches.

   Cryptography is symbolic: BLAKE2s hash and MAC, XChaCha20-Poly1305 and the
   random cookie secret are free constructors of [term]; equal terms stand for
   equal bytes.  The Noise payload of a handshake message is NOT modelled
   here (C03/C06 do that): whether it authenticates is part of the message's
   construction descriptor [m_content].  Values the device draws at random
   (cookie-reply nonce, body of the next message it creates) and the rate
   limiter's verdict are oracle inputs of the event. *)
From WG Require Import Base.Prelude Gen.Constants.
Local Open Scope N_scope.

(* ------------------------------------------------------------------ terms *)

Inductive term :=
| TPub (k : N)                      (* public half of static key number k *)
| TLabel (l : N)                    (* 0 = "mac1----", 1 = "cookie--" *)
| THash (a b : term)                (* BLAKE2s-256(a || b) *)
| TSecret (e : N)                   (* the checker's e-th random secret *)
| TAddr (ip port : N)               (* source address as DstToBytes gives it: ip and port *)
| TBody (id : N)                    (* the bytes of a message before its MAC1 field *)
| TMac (key data : term)            (* keyed BLAKE2s-128 *)
| TPair (a b : term)                (* concatenation *)
| TXAead (key : term) (nonce : N) (plain ad : term)
| TZero                             (* sixteen zero bytes *)
| TJunk (n : N).                    (* any other byte string, numbered *)

Fixpoint teqb (x y : term) : bool :=
  match x, y with
  | TPub a, TPub b => a =? b
  | TLabel a, TLabel b => a =? b
  | THash a b, THash c d => teqb a c && teqb b d
  | TSecret a, TSecret b => a =? b
  | TAddr a b, TAddr c d => (a =? c) && (b =? d)
  | TBody a, TBody b => a =? b
  | TMac a b, TMac c d => teqb a c && teqb b d
  | TPair a b, TPair c d => teqb a c && teqb b d
  | TXAead k n p a, TXAead k' n' p' a' => teqb k k' && (n =? n') && teqb p p' && teqb a a'
  | TZero, TZero => true
  | TJunk a, TJunk b => a =? b
  | _, _ => false
  end.

Definition addr := (N * N)%type.          (* ip, port *)
Definition addr_eqb (a b : addr) : bool := (fst a =? fst b) && (snd a =? snd b).
Definition taddr (a : addr) : term := TAddr (fst a) (snd a).

Definition mac1_key (k : N) : term := THash (TLabel 0) (TPub k).
Definition cookie_key (k : N) : term := THash (TLabel 1) (TPub k).

(* XChaCha20-Poly1305 open: succeeds iff key and additional data are the ones sealed with *)
Definition xopen (k ad c : term) : option term :=
  match c with
  | TXAead k' _ p ad' => if teqb k k' && teqb ad ad' then Some p else None
  | _ => None
  end.

(* --------------------------------------------------------------- messages *)

(* What the Noise payload of a datagram does when it reaches the consume
   functions, decided by how the message was built. *)
Inductive content :=
| CInit (p : option N) (fresh : bool)  (* initiation: static/timestamp open for configured peer p; fresh = timestamp newer than the last and outside the flood gap *)
| CResp (p : option N) (h : N)         (* response: receiver index belongs to peer p's handshake and it completes the device's initiation number h *)
| CCookie (owner : option N) (enc : term) (* cookie reply: receiver index belongs to peer owner; encrypted cookie field *)
| CTransport (p : option N)            (* transport: opens under a live key of p and passes the replay filter *)
| CNone.

Record msg := {
  m_type : N;        (* the 32-bit little-endian type word *)
  m_size : N;        (* datagram length *)
  m_body : term;     (* bytes before MAC1 *)
  m_sender : N;      (* bytes 4..8: sender index (receiver index in a cookie reply) *)
  m_mac1 : term;
  m_mac2 : term;
  m_src : addr;
  m_content : content }.

Definition covered2 (m : msg) : term := TPair (m_body m) (m_mac1 m).

(* ------------------------------------------------------------------ state *)

Record gen := {
  g_has_last : bool; g_last : term;
  g_has_cookie : bool; g_cookie : term; g_cookie_set : N }.

Record peer := {
  p_id : N;                  (* static key number *)
  p_gen : gen;
  p_hs : N;                  (* handshake state: 0 zeroed, 1 initiation created, 2 initiation consumed *)
  p_hid : N;                 (* number of the outstanding initiation the device created *)
  p_endpoint : option addr;
  p_last_sent : N;           (* lastSentHandshake *)
  p_staged : N;              (* staged packets *)
  p_has_cur : bool; p_has_next : bool;
  p_ver : N }.               (* number of writes to the peer's observable protocol state *)

Record dstate := {
  d_pk : N;                  (* the device's static key number *)
  d_has_secret : bool; d_epoch : N; d_secret_set : N;   (* CookieChecker.mac2 *)
  d_load_until : N;          (* rate.underLoadUntil *)
  d_peers : list peer }.

Inductive event :=
| ERecv (now : N) (m : msg) (qload allow : bool) (nonce body : N)
    (* datagram m; qload = handshake queue at least 1/8 full; allow = limiter verdict if asked;
       nonce = nonce of a cookie reply if one is made; body = number of the response body if one is made *)
| ETun (now : N) (p : N) (hid body : N)   (* a packet from the TUN routed to p *)
| EForceLoad (now d : N) (on : bool)      (* hook VerifForceUnderLoad *)
| EShiftSecret (d : N)                    (* hook VerifShiftCookieSecret *)
| EShiftPeerCookie (p d : N)              (* hook VerifShiftPeerCookie *)
| EShiftHs (p d : N)                      (* hook VerifShiftHandshakeTimes *)
| ESetIdentity (now k : N).               (* UAPI private_key=: the device's static key becomes key number k
                                             (removal = the all-zero private key, which has a public key of its own) *)

Inductive output :=
| OCookie (to : addr) (receiver : N) (enc : term)
| OResp (to : addr) (p : N) (mac1 mac2 : term)
| OInit (to : addr) (p : N) (hid : N) (mac1 mac2 : term)
| OTransport (to : addr) (p : N).

(* ---------------------------------------------------------- CookieChecker *)

Definition check_mac1 (pk : N) (m : msg) : bool :=
  teqb (TMac (mac1_key pk) (m_body m)) (m_mac1 m).

(* time.Since(secretSet) > CookieRefreshTime; a zero secretSet is always stale *)
Definition secret_stale (st : dstate) (now : N) : bool :=
  negb (d_has_secret st) || (CookieRefreshTime <? now - d_secret_set st).

Definition cookie_for (e : N) (a : addr) : term := TMac (TSecret e) (taddr a).

Definition check_mac2 (st : dstate) (now : N) (m : msg) : bool :=
  if secret_stale st now then false
  else teqb (TMac (cookie_for (d_epoch st) (m_src m)) (covered2 m)) (m_mac2 m).

Definition with_secret (st : dstate) (e t : N) : dstate :=
  {| d_pk := d_pk st; d_has_secret := true; d_epoch := e; d_secret_set := t;
     d_load_until := d_load_until st; d_peers := d_peers st |}.

Definition refresh (st : dstate) (now : N) : dstate :=
  if secret_stale st now then with_secret st (d_epoch st + 1) now else st.

Definition create_reply (st : dstate) (now : N) (m : msg) (nonce : N) : dstate * term :=
  let st' := refresh st now in
  (st', TXAead (cookie_key (d_pk st)) nonce (cookie_for (d_epoch st') (m_src m)) (m_mac1 m)).

(* -------------------------------------------------------- CookieGenerator *)

Definition gen0 : gen :=
  {| g_has_last := false; g_last := TZero; g_has_cookie := false; g_cookie := TZero; g_cookie_set := 0 |}.

Definition consume_reply (pk : N) (g : gen) (now : N) (enc : term) : option gen :=
  if negb (g_has_last g) then None
  else match xopen (cookie_key pk) (g_last g) enc with
       | Some c => Some {| g_has_last := true; g_last := g_last g;
                           g_has_cookie := true; g_cookie := c; g_cookie_set := now |}
       | None => None
       end.

Definition cookie_stale (g : gen) (now : N) : bool :=
  negb (g_has_cookie g) || (CookieRefreshTime <? now - g_cookie_set g).

Definition add_macs (pk : N) (g : gen) (now : N) (body : term) : gen * term * term :=
  let m1 := TMac (mac1_key pk) body in
  let g' := {| g_has_last := true; g_last := m1; g_has_cookie := g_has_cookie g;
               g_cookie := g_cookie g; g_cookie_set := g_cookie_set g |} in
  let m2 := if cookie_stale g now then TZero else TMac (g_cookie g) (TPair body m1) in
  (g', m1, m2).

(* ------------------------------------------------------------- peer table *)

Fixpoint find_peer (l : list peer) (p : N) : option peer :=
  match l with
  | [] => None
  | x :: t => if p_id x =? p then Some x else find_peer t p
  end.

Fixpoint put_peer (l : list peer) (x : peer) : list peer :=
  match l with
  | [] => []
  | y :: t => if p_id y =? p_id x then x :: t else y :: put_peer t x
  end.

Definition with_peers (st : dstate) (l : list peer) : dstate :=
  {| d_pk := d_pk st; d_has_secret := d_has_secret st; d_epoch := d_epoch st;
     d_secret_set := d_secret_set st; d_load_until := d_load_until st; d_peers := l |}.

Definition set_peer (st : dstate) (x : peer) : dstate := with_peers st (put_peer (d_peers st) x).

(* ------------------------------------------------- RoutineReceiveIncoming *)

Definition gate (m : msg) : bool :=
  if m_size m <? MinMessageSize then false
  else if m_type m =? MessageTransportType then MessageTransportSize <=? m_size m
  else if m_type m =? MessageInitiationType then m_size m =? MessageInitiationSize
  else if m_type m =? MessageResponseType then m_size m =? MessageResponseSize
  else if m_type m =? MessageCookieReplyType then m_size m =? MessageCookieReplySize
  else false.

(* ------------------------------------------------------------ IsUnderLoad *)

Definition with_load (st : dstate) (u : N) : dstate :=
  {| d_pk := d_pk st; d_has_secret := d_has_secret st; d_epoch := d_epoch st;
     d_secret_set := d_secret_set st; d_load_until := u; d_peers := d_peers st |}.

Definition is_under_load (st : dstate) (now : N) (qload : bool) : dstate * bool :=
  if qload then (with_load st (now + UnderLoadAfterTime), true)
  else (st, now <? d_load_until st).

(* ------------------------------------------------------- RoutineHandshake *)

Inductive verdict := VDrop | VCookie | VLimited | VConsume.

(* the gates in front of the consume functions, for a type-1 or type-2 message *)
Definition hs_gates (st : dstate) (now : N) (m : msg) (qload allow : bool) : dstate * verdict :=
  if negb (check_mac1 (d_pk st) m) then (st, VDrop)
  else
    let '(st1, ul) := is_under_load st now qload in
    if ul then
      if negb (check_mac2 st1 now m) then (st1, VCookie)
      else if negb allow then (st1, VLimited)
      else (st1, VConsume)
    else (st1, VConsume).

Fixpoint rep {A} (n : nat) (x : A) : list A := match n with O => [] | S k => x :: rep k x end.

(* ConsumeMessageInitiation + SetEndpointFromPacket + SendHandshakeResponse *)
Definition consume_init (st : dstate) (now : N) (m : msg) (body : N) : dstate * list output :=
  match m_content m with
  | CInit (Some p) true =>
      match find_peer (d_peers st) p with
      | None => (st, [])
      | Some x =>
          let '(g, m1, m2) := add_macs (p_id x) (p_gen x) now (TBody body) in
          let x' := {| p_id := p_id x; p_gen := g; p_hs := 0; p_hid := p_hid x;
                       p_endpoint := Some (m_src m); p_last_sent := now; p_staged := p_staged x;
                       p_has_cur := p_has_cur x; p_has_next := true; p_ver := p_ver x + 1 |} in
          (set_peer st x', [OResp (m_src m) p m1 m2])
      end
  | _ => (st, [])
  end.

(* ConsumeMessageResponse + SetEndpointFromPacket + BeginSymmetricSession + SendKeepalive *)
Definition consume_resp (st : dstate) (now : N) (m : msg) : dstate * list output :=
  match m_content m with
  | CResp (Some p) h =>
      match find_peer (d_peers st) p with
      | None => (st, [])
      | Some x =>
          if (p_hs x =? 1) && (p_hid x =? h) then
            let n := if p_staged x =? 0 then 1 else p_staged x in
            let x' := {| p_id := p_id x; p_gen := p_gen x; p_hs := 0; p_hid := p_hid x;
                         p_endpoint := Some (m_src m); p_last_sent := p_last_sent x; p_staged := 0;
                         p_has_cur := true; p_has_next := false; p_ver := p_ver x + 1 |} in
            (set_peer st x', rep (N.to_nat n) (OTransport (m_src m) p))
          else (st, [])
      end
  | _ => (st, [])
  end.

Definition consume (st : dstate) (now : N) (m : msg) (body : N) : dstate * list output :=
  if m_type m =? MessageInitiationType then consume_init st now m body
  else consume_resp st now m.

Definition recv_handshake (st : dstate) (now : N) (m : msg) (qload allow : bool) (nonce body : N)
  : dstate * list output :=
  let '(st1, v) := hs_gates st now m qload allow in
  match v with
  | VDrop | VLimited => (st1, [])
  | VCookie => let '(st2, enc) := create_reply st1 now m nonce in
               (st2, [OCookie (m_src m) (m_sender m) enc])
  | VConsume => consume st1 now m body
  end.

(* cookie reply branch of RoutineHandshake *)
Definition recv_cookie (st : dstate) (now : N) (m : msg) : dstate * list output :=
  match m_content m with
  | CCookie (Some p) enc =>
      match find_peer (d_peers st) p with
      | None => (st, [])
      | Some x =>
          match consume_reply (p_id x) (p_gen x) now enc with
          | None => (st, [])
          | Some g =>
              (set_peer st {| p_id := p_id x; p_gen := g; p_hs := p_hs x; p_hid := p_hid x;
                              p_endpoint := p_endpoint x; p_last_sent := p_last_sent x;
                              p_staged := p_staged x; p_has_cur := p_has_cur x;
                              p_has_next := p_has_next x; p_ver := p_ver x + 1 |}, [])
          end
      end
  | _ => (st, [])
  end.

(* transport path, as far as C10 needs it: an authentic fresh packet touches the peer *)
Definition recv_transport (st : dstate) (now : N) (m : msg) : dstate * list output :=
  match m_content m with
  | CTransport (Some p) =>
      match find_peer (d_peers st) p with
      | None => (st, [])
      | Some x =>
          let confirm := p_has_next x in
          let x' := {| p_id := p_id x; p_gen := p_gen x; p_hs := p_hs x; p_hid := p_hid x;
                       p_endpoint := Some (m_src m); p_last_sent := p_last_sent x;
                       p_staged := if confirm then 0 else p_staged x;
                       p_has_cur := p_has_cur x || confirm; p_has_next := false;
                       p_ver := p_ver x + 1 |} in
          (set_peer st x', if confirm then rep (N.to_nat (p_staged x)) (OTransport (m_src m) p) else [])
      end
  | _ => (st, [])
  end.

Definition recv (st : dstate) (now : N) (m : msg) (qload allow : bool) (nonce body : N)
  : dstate * list output :=
  if negb (gate m) then (st, [])
  else if m_type m =? MessageTransportType then recv_transport st now m
  else if m_type m =? MessageCookieReplyType then recv_cookie st now m
  else recv_handshake st now m qload allow nonce body.

(* ------------------------------------- TUN packet: staging and initiation *)

Definition tun (st : dstate) (now : N) (p hid body : N) : dstate * list output :=
  match find_peer (d_peers st) p with
  | None => (st, [])
  | Some x =>
      if p_has_cur x then
        let x' := {| p_id := p_id x; p_gen := p_gen x; p_hs := p_hs x; p_hid := p_hid x;
                     p_endpoint := p_endpoint x; p_last_sent := p_last_sent x; p_staged := 0;
                     p_has_cur := true; p_has_next := p_has_next x; p_ver := p_ver x + 1 |} in
        (set_peer st x',
         match p_endpoint x with
         | Some a => rep (N.to_nat (p_staged x + 1)) (OTransport a p)
         | None => []
         end)
      else if now - p_last_sent x <? RekeyTimeout then
        (set_peer st {| p_id := p_id x; p_gen := p_gen x; p_hs := p_hs x; p_hid := p_hid x;
                        p_endpoint := p_endpoint x; p_last_sent := p_last_sent x;
                        p_staged := p_staged x + 1; p_has_cur := false; p_has_next := p_has_next x;
                        p_ver := p_ver x + 1 |}, [])
      else
        let '(g, m1, m2) := add_macs (p_id x) (p_gen x) now (TBody body) in
        let x' := {| p_id := p_id x; p_gen := g; p_hs := 1; p_hid := hid;
                     p_endpoint := p_endpoint x; p_last_sent := now; p_staged := p_staged x + 1;
                     p_has_cur := false; p_has_next := p_has_next x; p_ver := p_ver x + 1 |} in
        (set_peer st x',
         match p_endpoint x with
         | Some a => [OInit a p hid m1 m2]
         | None => []
         end)
  end.

(* ------------------------------------------------------------------ hooks *)

Definition shift_peer_cookie (x : peer) (d : N) : peer :=
  let g := p_gen x in
  {| p_id := p_id x;
     p_gen := {| g_has_last := g_has_last g; g_last := g_last g; g_has_cookie := g_has_cookie g;
                 g_cookie := g_cookie g; g_cookie_set := g_cookie_set g - d |};
     p_hs := p_hs x; p_hid := p_hid x; p_endpoint := p_endpoint x; p_last_sent := p_last_sent x;
     p_staged := p_staged x; p_has_cur := p_has_cur x; p_has_next := p_has_next x; p_ver := p_ver x |}.

Definition shift_hs (x : peer) (d : N) : peer :=
  {| p_id := p_id x; p_gen := p_gen x; p_hs := p_hs x; p_hid := p_hid x; p_endpoint := p_endpoint x;
     p_last_sent := p_last_sent x - d; p_staged := p_staged x; p_has_cur := p_has_cur x;
     p_has_next := p_has_next x; p_ver := p_ver x |}.

(* Device.SetPrivateKey: cookieChecker.Init(new public key) — new MAC1 and cookie-encryption keys, the cookie
   secret counts as not drawn (secretSet = zero time); every peer: ExpireCurrentKeypairs (Handshake.Clear,
   lastSentHandshake back-dated, send counters of the keypairs pushed to the limit: nothing can be sent
   under them any more). *)
Definition reset_peer (now : N) (x : peer) : peer :=
  {| p_id := p_id x; p_gen := p_gen x; p_hs := 0; p_hid := p_hid x; p_endpoint := p_endpoint x;
     p_last_sent := now - (RekeyTimeout + 1000000000); p_staged := p_staged x;
     p_has_cur := false; p_has_next := false; p_ver := p_ver x |}.

Definition set_identity (st : dstate) (now k : N) : dstate :=
  {| d_pk := k; d_has_secret := false; d_epoch := d_epoch st; d_secret_set := d_secret_set st;
     d_load_until := d_load_until st; d_peers := map (reset_peer now) (d_peers st) |}.

Definition step (st : dstate) (e : event) : dstate * list output :=
  match e with
  | ERecv now m qload allow nonce body => recv st now m qload allow nonce body
  | ETun now p hid body => tun st now p hid body
  | EForceLoad now d on => (with_load st (if on then now + d else 0), [])
  | EShiftSecret d =>
      (if d_has_secret st then with_secret st (d_epoch st) (d_secret_set st - d) else st, [])
  | EShiftPeerCookie p d =>
      (match find_peer (d_peers st) p with
       | Some x => set_peer st (shift_peer_cookie x d)
       | None => st
       end, [])
  | EShiftHs p d =>
      (match find_peer (d_peers st) p with
       | Some x => set_peer st (shift_hs x d)
       | None => st
       end, [])
  | ESetIdentity now k => (set_identity st now k, [])
  end.

(* A freshly started peer: Peer.Start puts lastSentHandshake RekeyTimeout + 1 s into the past. *)
Definition peer0 (id : N) (ep : option addr) (now : N) : peer :=
  {| p_id := id; p_gen := gen0; p_hs := 0; p_hid := 0; p_endpoint := ep;
     p_last_sent := now - (RekeyTimeout + 1000000000); p_staged := 0;
     p_has_cur := false; p_has_next := false; p_ver := 0 |}.

Definition dstate0 (pk : N) (peers : list peer) : dstate :=
  {| d_pk := pk; d_has_secret := false; d_epoch := 0; d_secret_set := 0; d_load_until := 0;
     d_peers := peers |}.
