(* Theorems about the C10 slice model (Cookie/Model.v).  Every statement is
   for all states, messages, times and oracle values; the trace-level ones for
   all event lists. *)
From WG Require Import Base.Prelude Gen.Constants Cookie.Model.
Local Open Scope N_scope.

(* ------------------------------------------------------- term equality *)

Lemma teqb_refl x : teqb x x = true.
Proof. induction x; cbn [teqb]; rewrite ?N.eqb_refl, ?IHx1, ?IHx2, ?IHx3; reflexivity. Qed.

Lemma teqb_eq x : forall y, teqb x y = true -> x = y.
Proof.
  induction x; intros y H; destruct y; cbn [teqb] in H; try discriminate;
  repeat match goal with
  | H : _ && _ = true |- _ => apply andb_true_iff in H; destruct H
  | H : (_ =? _) = true |- _ => apply N.eqb_eq in H
  | IH : forall y, teqb ?a y = true -> ?a = y, H : teqb ?a _ = true |- _ => apply IH in H
  end; subst; reflexivity.
Qed.

Lemma teqb_spec x y : teqb x y = true <-> x = y.
Proof. split; [apply teqb_eq|intros ->; apply teqb_refl]. Qed.

Lemma teqb_false x y : teqb x y = false <-> x <> y.
Proof.
  split.
  - intros H E. rewrite E, teqb_refl in H. discriminate.
  - intros H. destruct (teqb x y) eqn:E; [|reflexivity]. apply teqb_eq in E. contradiction.
Qed.

Lemma taddr_inj a b : taddr a = taddr b -> a = b.
Proof. destruct a, b; unfold taddr; cbn [fst snd]; intros H; inversion H; reflexivity. Qed.

Lemma cookie_key_inj a b : cookie_key a = cookie_key b -> a = b.
Proof. unfold cookie_key; intros H; inversion H; reflexivity. Qed.

Lemma mac1_key_inj a b : mac1_key a = mac1_key b -> a = b.
Proof. unfold mac1_key; intros H; inversion H; reflexivity. Qed.

(* -------------------------------------------------------- basic facts *)

Definition is_hs (m : msg) : bool :=
  (m_type m =? MessageInitiationType) || (m_type m =? MessageResponseType).

Definition under_load (st : dstate) (now : N) (q : bool) : bool := snd (is_under_load st now q).
Definition loaded (st : dstate) (now : N) (q : bool) : dstate := fst (is_under_load st now q).

(* the message gets past all gates to the consume functions *)
Definition processed (st : dstate) (now : N) (m : msg) (q al : bool) : bool :=
  match snd (hs_gates st now m q al) with VConsume => true | _ => false end.

Lemma check_mac1_iff pk m : check_mac1 pk m = true <-> m_mac1 m = TMac (mac1_key pk) (m_body m).
Proof. unfold check_mac1. rewrite teqb_spec. split; intros H; symmetry; exact H. Qed.

Lemma loaded_secret st now q :
  d_pk (loaded st now q) = d_pk st /\ d_has_secret (loaded st now q) = d_has_secret st /\
  d_epoch (loaded st now q) = d_epoch st /\ d_secret_set (loaded st now q) = d_secret_set st /\
  d_peers (loaded st now q) = d_peers st.
Proof. unfold loaded, is_under_load. destruct q; cbn; repeat split; reflexivity. Qed.

Lemma secret_stale_loaded st now q t : secret_stale (loaded st now q) t = secret_stale st t.
Proof. unfold loaded, is_under_load, secret_stale. destruct q; reflexivity. Qed.

Lemma check_mac2_loaded st now q t m : check_mac2 (loaded st now q) t m = check_mac2 st t m.
Proof. unfold check_mac2. rewrite secret_stale_loaded. unfold loaded, is_under_load. destruct q; reflexivity. Qed.

Lemma check_mac2_sound st now m :
  check_mac2 st now m = true ->
  m_mac2 m = TMac (cookie_for (d_epoch st) (m_src m)) (covered2 m) /\
  d_has_secret st = true /\ now - d_secret_set st <= CookieRefreshTime.
Proof.
  unfold check_mac2, secret_stale. intros H.
  destruct (d_has_secret st); cbn [negb orb] in H; [|discriminate].
  destruct (CookieRefreshTime <? now - d_secret_set st) eqn:E; [discriminate|].
  apply teqb_eq in H. apply N.ltb_ge in E. repeat split; [symmetry; exact H|exact E].
Qed.

Lemma check_mac2_complete st now m :
  m_mac2 m = TMac (cookie_for (d_epoch st) (m_src m)) (covered2 m) ->
  d_has_secret st = true -> now - d_secret_set st <= CookieRefreshTime ->
  check_mac2 st now m = true.
Proof.
  intros H1 H2 H3. unfold check_mac2, secret_stale. rewrite H2. cbn [negb orb].
  apply N.ltb_ge in H3. rewrite H3, H1. apply teqb_refl.
Qed.

Ltac types :=
  unfold MessageInitiationType, MessageResponseType, MessageCookieReplyType, MessageTransportType in *.

Lemma hs_not_other m : is_hs m = true ->
  (m_type m =? MessageTransportType) = false /\ (m_type m =? MessageCookieReplyType) = false.
Proof.
  unfold is_hs. intros H. apply orb_true_iff in H. types.
  destruct H as [H|H]; apply N.eqb_eq in H; rewrite H; split; reflexivity.
Qed.

Lemma recv_hs st now m q al nonce body : gate m = true -> is_hs m = true ->
  recv st now m q al nonce body = recv_handshake st now m q al nonce body.
Proof.
  intros G H. unfold recv. rewrite G. cbn [negb]. destruct (hs_not_other m H) as [A B]. rewrite A, B. reflexivity.
Qed.

(* ---------------------------------------- silence toward strangers (T1) *)

Theorem bad_gate_silent_inert st now m q al nonce body :
  gate m = false -> step st (ERecv now m q al nonce body) = (st, []).
Proof. intros H. cbn [step]. unfold recv. rewrite H. reflexivity. Qed.

Theorem no_valid_mac1_silent_inert st now m q al nonce body :
  gate m = false \/ (is_hs m = true /\ check_mac1 (d_pk st) m = false) ->
  step st (ERecv now m q al nonce body) = (st, []).
Proof.
  intros [H|[H1 H2]]; [apply bad_gate_silent_inert; exact H|].
  destruct (gate m) eqn:G; [|apply bad_gate_silent_inert; exact G].
  cbn [step]. rewrite recv_hs by assumption.
  unfold recv_handshake, hs_gates. rewrite H2. reflexivity.
Qed.

(* cookie replies and transport messages carry no MAC1; they are inert unless they authenticate *)
Definition cookie_opens (st : dstate) (m : msg) : bool :=
  match m_content m with
  | CCookie (Some p) enc =>
      match find_peer (d_peers st) p with
      | Some x => g_has_last (p_gen x) &&
                  match xopen (cookie_key (p_id x)) (g_last (p_gen x)) enc with Some _ => true | None => false end
      | None => false
      end
  | _ => false
  end.

Theorem unauthentic_cookie_reply_silent_inert st now m q al nonce body :
  m_type m = MessageCookieReplyType -> cookie_opens st m = false ->
  step st (ERecv now m q al nonce body) = (st, []).
Proof.
  intros T H. cbn [step]. unfold recv. destruct (gate m); [|reflexivity]. cbn [negb].
  rewrite T. types. cbn [N.eqb Pos.eqb]. unfold recv_cookie. unfold cookie_opens in H.
  destruct (m_content m) as [| |[p|] enc| |]; try reflexivity.
  destruct (find_peer (d_peers st) p) as [x|]; [|reflexivity].
  unfold consume_reply. destruct (g_has_last (p_gen x)); cbn [negb andb] in *; [|reflexivity].
  destruct (xopen (cookie_key (p_id x)) (g_last (p_gen x)) enc); [discriminate|reflexivity].
Qed.

Theorem cookie_reply_never_answered st now m q al nonce body :
  m_type m = MessageCookieReplyType -> snd (step st (ERecv now m q al nonce body)) = [].
Proof.
  intros T. cbn [step]. unfold recv. destruct (gate m); [|reflexivity]. cbn [negb].
  rewrite T. types. cbn [N.eqb Pos.eqb]. unfold recv_cookie.
  destruct (m_content m) as [| |[p|] enc| |]; try reflexivity.
  destruct (find_peer (d_peers st) p) as [x|]; [|reflexivity].
  destruct (consume_reply (p_id x) (p_gen x) now enc); reflexivity.
Qed.

Theorem unauthentic_transport_silent_inert st now m q al nonce body :
  m_type m = MessageTransportType -> (forall p, m_content m <> CTransport (Some p)) ->
  step st (ERecv now m q al nonce body) = (st, []).
Proof.
  intros T H. cbn [step]. unfold recv. destruct (gate m); [|reflexivity]. cbn [negb].
  rewrite T. types. cbn [N.eqb Pos.eqb]. unfold recv_transport.
  destruct (m_content m) as [| | |[p|]|]; try reflexivity. exfalso. apply (H p). reflexivity.
Qed.

Lemma final_cons s e l : final step s (e :: l) = final step (fst (step s e)) l.
Proof. unfold final. cbn [run]. destruct (step s e) as [s1 r]. cbn [fst]. destruct (run step s1 l). reflexivity. Qed.

Lemma outs_cons s e l : outs step s (e :: l) = snd (step s e) :: outs step (fst (step s e)) l.
Proof. unfold outs. cbn [run]. destruct (step s e) as [s1 r]. cbn [fst snd]. destruct (run step s1 l). reflexivity. Qed.

(* For every history: a datagram without a valid MAC1 (or of unknown type, or of a wrong
   size) can be deleted from the history without any effect on what the device does or is. *)
Theorem stranger_datagram_erasable st pre post now m q al nonce body :
  gate m = false \/ (is_hs m = true /\ check_mac1 (d_pk (final step st pre)) m = false) ->
  final step st (pre ++ ERecv now m q al nonce body :: post) = final step st (pre ++ post) /\
  outs step st (pre ++ ERecv now m q al nonce body :: post) =
    outs step st pre ++ [] :: outs step (final step st pre) post.
Proof.
  intros H.
  assert (S : step (final step st pre) (ERecv now m q al nonce body) = (final step st pre, [])).
  { apply no_valid_mac1_silent_inert. exact H. }
  split.
  - rewrite !final_app, final_cons, S. reflexivity.
  - rewrite outs_app, outs_cons, S. reflexivity.
Qed.

(* --------------------------- not under load: failed authentication (T2) *)

(* what ConsumeMessageInitiation / ConsumeMessageResponse need in order to succeed *)
Definition content_passes (st : dstate) (m : msg) : bool :=
  if m_type m =? MessageInitiationType then
    match m_content m with
    | CInit (Some p) true => match find_peer (d_peers st) p with Some _ => true | None => false end
    | _ => false
    end
  else
    match m_content m with
    | CResp (Some p) h =>
        match find_peer (d_peers st) p with Some x => (p_hs x =? 1) && (p_hid x =? h) | None => false end
    | _ => false
    end.

Lemma consume_fail st now m body : content_passes st m = false -> consume st now m body = (st, []).
Proof.
  unfold content_passes, consume, consume_init, consume_resp.
  destruct (m_type m =? MessageInitiationType).
  - destruct (m_content m) as [[p|] [|]| | | |]; try reflexivity.
    destruct (find_peer (d_peers st) p); [discriminate|reflexivity].
  - destruct (m_content m) as [|[p|] h| | |]; try reflexivity.
    destruct (find_peer (d_peers st) p) as [x|]; [|reflexivity].
    intros ->. reflexivity.
Qed.

Theorem not_under_load_auth_failure_silent st now m al nonce body :
  is_hs m = true -> under_load st now false = false -> content_passes st m = false ->
  step st (ERecv now m false al nonce body) = (st, []).
Proof.
  intros H U C. destruct (gate m) eqn:G; [|apply bad_gate_silent_inert; exact G].
  cbn [step]. rewrite recv_hs by assumption. unfold recv_handshake, hs_gates.
  destruct (check_mac1 (d_pk st) m); [|reflexivity]. cbn [negb].
  unfold under_load, is_under_load in U. cbn [snd] in U. unfold is_under_load. rewrite U.
  apply consume_fail. exact C.
Qed.

(* ----------------------------------------------- under load: the gate (T3) *)

Theorem under_load_gate st now m q al :
  under_load st now q = true -> processed st now m q al = true ->
  check_mac1 (d_pk st) m = true /\
  m_mac2 m = TMac (cookie_for (d_epoch st) (m_src m)) (covered2 m) /\
  d_has_secret st = true /\ now - d_secret_set st <= CookieRefreshTime /\ al = true.
Proof.
  unfold under_load, processed, hs_gates. intros U P.
  destruct (check_mac1 (d_pk st) m); [|discriminate]. cbn [negb] in P.
  pose proof (check_mac2_loaded st now q now m) as L. unfold loaded in L.
  destruct (is_under_load st now q) as [st1 ul]. cbn [fst snd] in *. subst ul.
  rewrite L in P. destruct (check_mac2 st now m) eqn:M2; cbn [negb snd] in P; [|discriminate].
  destruct al; cbn [negb snd] in P; [|discriminate].
  destruct (check_mac2_sound st now m M2) as (A & B & C).
  repeat split; assumption.
Qed.

(* whoever is not processed leaves every peer as it was *)
Theorem unprocessed_touches_no_peer st now m q al nonce body :
  gate m = true -> is_hs m = true -> processed st now m q al = false ->
  d_peers (fst (step st (ERecv now m q al nonce body))) = d_peers st.
Proof.
  intros G H P. cbn [step]. rewrite recv_hs by assumption. unfold recv_handshake.
  unfold processed in P. unfold hs_gates in *.
  destruct (check_mac1 (d_pk st) m); [|reflexivity]. cbn [negb] in *.
  pose proof (loaded_secret st now q) as (_ & _ & _ & _ & L). unfold loaded in L.
  destruct (is_under_load st now q) as [st1 ul]. cbn [fst] in L.
  destruct ul.
  - destruct (check_mac2 st1 now m); cbn [negb] in *.
    + destruct al; cbn [negb snd] in *; [discriminate|exact L].
    + unfold create_reply, refresh. destruct (secret_stale st1 now); exact L.
  - cbn [snd] in P. discriminate.
Qed.

(* ------------------------- under load: otherwise only a cookie reply (T4) *)

Theorem under_load_else_only_cookie_reply st now m q al nonce body :
  gate m = true -> is_hs m = true -> check_mac1 (d_pk st) m = true ->
  under_load st now q = true -> check_mac2 st now m = false ->
  exists st',
    step st (ERecv now m q al nonce body) =
      (st', [OCookie (m_src m) (m_sender m)
               (TXAead (cookie_key (d_pk st)) nonce (cookie_for (d_epoch st') (m_src m)) (m_mac1 m))]) /\
    d_peers st' = d_peers st /\ d_pk st' = d_pk st /\ d_has_secret st' = true /\
    ((d_epoch st' = d_epoch st /\ d_secret_set st' = d_secret_set st /\ secret_stale st now = false) \/
     (d_epoch st' = d_epoch st + 1 /\ d_secret_set st' = now /\ secret_stale st now = true)).
Proof.
  intros G H M1 U M2. cbn [step]. rewrite recv_hs by assumption.
  unfold recv_handshake, hs_gates. rewrite M1. cbn [negb].
  pose proof (loaded_secret st now q) as (L1 & L2 & L3 & L4 & L5).
  pose proof (check_mac2_loaded st now q now m) as L6.
  pose proof (secret_stale_loaded st now q now) as L7.
  unfold under_load in U. unfold loaded in *.
  destruct (is_under_load st now q) as [st1 ul]. cbn [fst snd] in *. subst ul.
  rewrite L6, M2. cbn [negb]. unfold create_reply, refresh. rewrite L7.
  destruct (secret_stale st now) eqn:S.
  - eexists. split; [rewrite L1; reflexivity|]. cbn [with_secret d_peers d_pk d_has_secret d_epoch d_secret_set].
    repeat split; try assumption. right. rewrite L3. repeat split.
  - eexists. split; [rewrite L1; reflexivity|]. repeat split; try assumption.
    + unfold secret_stale in S. rewrite L2. destruct (d_has_secret st); [reflexivity|discriminate].
    + left. repeat split; assumption.
Qed.

(* ------------------------------------ who can open the cookie reply (T5) *)

Theorem cookie_reply_opens_iff st now m nonce k ad c :
  xopen k ad (snd (create_reply st now m nonce)) = Some c <->
  k = cookie_key (d_pk st) /\ ad = m_mac1 m /\
  c = cookie_for (d_epoch (fst (create_reply st now m nonce))) (m_src m).
Proof.
  unfold create_reply. cbn [fst snd xopen]. split.
  - intros H. destruct (teqb k (cookie_key (d_pk st))) eqn:A; cbn [andb] in H; [|discriminate].
    destruct (teqb ad (m_mac1 m)) eqn:B; [|discriminate].
    apply teqb_eq in A. apply teqb_eq in B. inversion H. repeat split; assumption.
  - intros (-> & -> & ->). rewrite !teqb_refl. reflexivity.
Qed.

(* -------------------------------------------------- round trip (T6-T8) *)

Definition same_secret (a b : dstate) : Prop :=
  d_pk a = d_pk b /\ d_has_secret a = d_has_secret b /\ d_epoch a = d_epoch b /\
  d_secret_set a = d_secret_set b.

Section RoundTrip.
  Variables (st : dstate) (now : N) (m : msg) (q al : bool) (nonce body : N).
  Hypothesis G : gate m = true.
  Hypothesis H : is_hs m = true.
  Hypothesis M1 : check_mac1 (d_pk st) m = true.
  Hypothesis U : under_load st now q = true.
  Hypothesis M2 : check_mac2 st now m = false.

  Let r := step st (ERecv now m q al nonce body).

  (* the cookie the sender of m gets out of the reply, with the two things it knows *)
  Variables (to : addr) (idx : N) (enc c : term).
  Hypothesis R : snd r = [OCookie to idx enc].
  Hypothesis O : xopen (cookie_key (d_pk st)) (m_mac1 m) enc = Some c.

  Lemma reply_facts :
    to = m_src m /\ idx = m_sender m /\ c = cookie_for (d_epoch (fst r)) (m_src m) /\
    d_has_secret (fst r) = true /\ d_pk (fst r) = d_pk st.
  Proof.
    destruct (under_load_else_only_cookie_reply st now m q al nonce body G H M1 U M2)
      as (st' & E & _ & P & S & _).
    unfold r in *. rewrite E in *. cbn [fst snd] in *. inversion R; subst. clear R.
    cbn [xopen] in O. rewrite !teqb_refl in O. cbn [andb] in O. inversion O. repeat split; assumption.
  Qed.

  (* a later message from anywhere, at any later state that still has the same secret *)
  Variables (st2 : dstate) (now2 : N) (m2 : msg) (q2 : bool).
  Hypothesis SS : same_secret st2 (fst r).
  Hypothesis M1' : check_mac1 (d_pk st2) m2 = true.
  Hypothesis U' : under_load st2 now2 q2 = true.
  Hypothesis C2 : m_mac2 m2 = TMac c (covered2 m2).

  Theorem cookie_roundtrip_accepted :
    m_src m2 = m_src m -> now2 - d_secret_set st2 <= CookieRefreshTime ->
    processed st2 now2 m2 q2 true = true.
  Proof.
    intros A T. destruct reply_facts as (_ & _ & Ec & Hs & _). destruct SS as (S1 & S2 & S3 & S4).
    unfold processed, hs_gates. rewrite M1'. cbn [negb].
    pose proof (check_mac2_loaded st2 now2 q2 now2 m2) as L. unfold under_load, loaded in *.
    destruct (is_under_load st2 now2 q2) as [s ul]. cbn [fst snd] in *. subst ul.
    rewrite L. rewrite check_mac2_complete; [reflexivity| | |exact T].
    - rewrite C2, Ec, S3, A. reflexivity.
    - rewrite S2. exact Hs.
  Qed.

  Theorem other_address_or_port_rejected :
    m_src m2 <> m_src m -> processed st2 now2 m2 q2 true = false /\ check_mac2 st2 now2 m2 = false.
  Proof.
    intros A. destruct reply_facts as (_ & _ & Ec & Hs & _). destruct SS as (S1 & S2 & S3 & S4).
    assert (M : check_mac2 st2 now2 m2 = false).
    { destruct (check_mac2 st2 now2 m2) eqn:E; [|reflexivity]. exfalso.
      apply check_mac2_sound in E. destruct E as (E & _). rewrite C2, Ec in E.
      apply A. destruct (m_src m2), (m_src m). unfold cookie_for, taddr in E. cbn [fst snd] in E.
      inversion E. congruence. }
    split; [|exact M].
    unfold processed, hs_gates. rewrite M1'. cbn [negb].
    pose proof (check_mac2_loaded st2 now2 q2 now2 m2) as L. unfold under_load, loaded in *.
    destruct (is_under_load st2 now2 q2) as [s ul]. cbn [fst snd] in *. subst ul.
    rewrite L, M. reflexivity.
  Qed.

  Theorem expired_cookie_rejected :
    CookieRefreshTime < now2 - d_secret_set st2 ->
    processed st2 now2 m2 q2 true = false /\ check_mac2 st2 now2 m2 = false.
  Proof.
    intros T.
    assert (M : check_mac2 st2 now2 m2 = false).
    { unfold check_mac2, secret_stale. apply N.ltb_lt in T. rewrite T, orb_true_r. reflexivity. }
    split; [|exact M].
    unfold processed, hs_gates. rewrite M1'. cbn [negb].
    pose proof (check_mac2_loaded st2 now2 q2 now2 m2) as L. unfold under_load, loaded in *.
    destruct (is_under_load st2 now2 q2) as [s ul]. cbn [fst snd] in *. subst ul.
    rewrite L, M. reflexivity.
  Qed.
End RoundTrip.

(* --------------------------------------------- initiator side of cookies *)

Theorem consume_reply_iff pk g now enc g' :
  consume_reply pk g now enc = Some g' <->
  g_has_last g = true /\
  exists n c, enc = TXAead (cookie_key pk) n c (g_last g) /\
    g' = {| g_has_last := true; g_last := g_last g; g_has_cookie := true; g_cookie := c; g_cookie_set := now |}.
Proof.
  unfold consume_reply, xopen. split.
  - destruct (g_has_last g); cbn [negb]; [|discriminate]. intros E. split; [reflexivity|].
    destruct enc; try discriminate.
    destruct (teqb (cookie_key pk) enc1) eqn:A; cbn [andb] in E; [|discriminate].
    destruct (teqb (g_last g) enc3) eqn:B; [|discriminate].
    apply teqb_eq in A. apply teqb_eq in B. subst. inversion E. eauto.
  - intros (L & n & c & -> & ->). rewrite L. cbn [negb]. rewrite !teqb_refl. reflexivity.
Qed.

(* after a consumed reply the next message within 120 s carries MAC2 under that cookie;
   later, or without a cookie, MAC2 stays zero *)
Theorem add_macs_mac2 pk g now body :
  snd (add_macs pk g now body) =
    if g_has_cookie g && (now - g_cookie_set g <=? CookieRefreshTime)
    then TMac (g_cookie g) (TPair body (TMac (mac1_key pk) body)) else TZero.
Proof.
  unfold add_macs, cookie_stale. cbn [snd]. destruct (g_has_cookie g); cbn [negb orb andb]; [|reflexivity].
  rewrite N.leb_antisym. destruct (CookieRefreshTime <? now - g_cookie_set g); reflexivity.
Qed.

Theorem add_macs_mac1_accepted pk g now body g' m1 m2 (m : msg) :
  add_macs pk g now body = (g', m1, m2) ->
  m_body m = body -> m_mac1 m = m1 -> check_mac1 pk m = true /\ g_has_last g' = true /\ g_last g' = m1.
Proof.
  unfold add_macs. intros E B M. injection E as Eg E1 E2. subst g' m1. split; [|split; reflexivity].
  apply check_mac1_iff. rewrite M, B. reflexivity.
Qed.

(* ---------------------- a processed cookie was issued within 120 s (T3') *)

(* Along every history the secret only ages while its number stays the same. *)
Definition older (a b : dstate) : Prop :=
  d_epoch a <= d_epoch b /\
  (d_epoch a = d_epoch b -> d_has_secret b = true ->
   d_has_secret a = true /\ d_secret_set b <= d_secret_set a).

Lemma older_refl a : older a a.
Proof. split; [lia|]. intros _ H. split; [exact H|lia]. Qed.

Lemma older_trans a b c : older a b -> older b c -> older a c.
Proof.
  intros [A1 A2] [B1 B2]. split; [lia|]. intros E Hc.
  assert (X1 : d_epoch a = d_epoch b) by lia. assert (X2 : d_epoch b = d_epoch c) by lia.
  destruct (B2 X2 Hc) as [Hb Sb]. destruct (A2 X1 Hb) as [Ha Sa]. split; [exact Ha|lia].
Qed.

Lemma same_checker_older a b :
  d_has_secret b = d_has_secret a -> d_epoch b = d_epoch a -> d_secret_set b = d_secret_set a -> older a b.
Proof. intros H1 H2 H3. split; [lia|]. intros _ Hb. rewrite <- H1, H3. split; [exact Hb|lia]. Qed.

Lemma refresh_older s now : older s (refresh s now).
Proof.
  unfold refresh. destruct (secret_stale s now); [|apply older_refl].
  split; cbn [with_secret d_epoch]; [lia|]. intros E. lia.
Qed.

Lemma consume_checker s now m body :
  let s' := fst (consume s now m body) in
  d_has_secret s' = d_has_secret s /\ d_epoch s' = d_epoch s /\ d_secret_set s' = d_secret_set s.
Proof.
  unfold consume, consume_init, consume_resp.
  destruct (m_type m =? MessageInitiationType).
  - destruct (m_content m) as [[p|] [|]| | | |]; try (repeat split; reflexivity).
    destruct (find_peer (d_peers s) p) as [x|]; [|repeat split; reflexivity].
    destruct (add_macs (p_id x) (p_gen x) now (TBody body)) as [[g m1] m2]. repeat split; reflexivity.
  - destruct (m_content m) as [|[p|] h| | |]; try (repeat split; reflexivity).
    destruct (find_peer (d_peers s) p) as [x|]; [|repeat split; reflexivity].
    destruct ((p_hs x =? 1) && (p_hid x =? h)); repeat split; reflexivity.
Qed.

Ltac oldr := first [apply older_refl | apply same_checker_older; reflexivity].

Lemma step_older st e : older st (fst (step st e)).
Proof.
  destruct e as [now m q al nonce body|now p hid body|now d on|d|p d|p d|now k]; cbn [step].
  - unfold recv. destruct (gate m); [|oldr]. cbn [negb].
    destruct (m_type m =? MessageTransportType).
    { unfold recv_transport. destruct (m_content m) as [| | |[p|]|]; try oldr.
      destruct (find_peer (d_peers st) p); oldr. }
    destruct (m_type m =? MessageCookieReplyType).
    { unfold recv_cookie. destruct (m_content m) as [| |[p|] enc| |]; try oldr.
      destruct (find_peer (d_peers st) p) as [x|]; [|oldr].
      destruct (consume_reply (p_id x) (p_gen x) now enc); oldr. }
    unfold recv_handshake, hs_gates.
    destruct (check_mac1 (d_pk st) m); [|oldr]. cbn [negb].
    pose proof (loaded_secret st now q) as (_ & L2 & L3 & L4 & _). unfold loaded in *.
    destruct (is_under_load st now q) as [st1 ul]. cbn [fst] in *.
    assert (L : older st st1) by (apply same_checker_older; assumption).
    assert (C : older st (fst (consume st1 now m body))).
    { apply (older_trans _ st1); [exact L|]. destruct (consume_checker st1 now m body) as (A & B & D).
      apply same_checker_older; assumption. }
    destruct ul.
    + destruct (check_mac2 st1 now m); cbn [negb].
      * destruct al; cbn [negb]; [exact C|exact L].
      * unfold create_reply. cbn [fst]. apply (older_trans _ st1); [exact L|apply refresh_older].
    + exact C.
  - unfold tun. destruct (find_peer (d_peers st) p) as [x|]; [|oldr].
    destruct (p_has_cur x); [oldr|].
    destruct (now - p_last_sent x <? RekeyTimeout); [oldr|].
    destruct (add_macs (p_id x) (p_gen x) now (TBody body)) as [[g m1] m2]. oldr.
  - oldr.
  - destruct (d_has_secret st) eqn:Hs; [|oldr].
    unfold older. cbn [with_secret d_epoch d_has_secret d_secret_set fst]. split; [lia|]. intros _ _. split; [exact Hs|lia].
  - destruct (find_peer (d_peers st) p); oldr.
  - destruct (find_peer (d_peers st) p); oldr.
  - (* a new identity: the secret counts as not drawn *)
    unfold older. cbn [fst set_identity d_epoch d_has_secret d_secret_set]. split; [lia|]. intros _ X. discriminate.
Qed.

Lemma final_older evs : forall st, older st (final step st evs).
Proof.
  induction evs as [|e evs IH]; intros st; [apply older_refl|].
  rewrite final_cons. apply (older_trans _ (fst (step st e))); [apply step_older|apply IH].
Qed.

(* The state right after a reply was issued at time t holds a secret drawn at or before t,
   provided the clock had not run backwards past the drawing (set <= t). *)
Theorem processed_cookie_issued_within_120s
        st now m q al nonce body st1 to idx k n c ad        (* the issuing step, at time [now] *)
        mid now2 m2 q2 al2 :                                 (* any later history, then m2 at [now2] *)
  step st (ERecv now m q al nonce body) = (st1, [OCookie to idx (TXAead k n c ad)]) ->
  (d_has_secret st = true -> d_secret_set st <= now) ->      (* the clock did not run backwards *)
  let st2 := final step st1 mid in
  under_load st2 now2 q2 = true -> processed st2 now2 m2 q2 al2 = true ->
  m_mac2 m2 = TMac c (covered2 m2) ->
  now2 - now <= CookieRefreshTime.
Proof.
  intros E Clk st2 U P C2.
  destruct (under_load_gate st2 now2 m2 q2 al2 U P) as (_ & M2 & Hs2 & Age & _).
  rewrite C2 in M2. inversion M2 as [Ec]. clear M2.
  (* the issuing step: st1's secret was drawn at or before [now] and c is bound to st1's epoch *)
  assert (F : c = cookie_for (d_epoch st1) (m_src m) /\ d_has_secret st1 = true /\ d_secret_set st1 <= now).
  { cbn [step] in E. unfold recv in E. destruct (gate m) eqn:G; [|inversion E]. cbn [negb] in E.
    destruct (m_type m =? MessageTransportType) eqn:T4.
    { unfold recv_transport in E. destruct (m_content m) as [| | |[p|]|]; try (inversion E; fail).
      destruct (find_peer (d_peers st) p) as [x|]; [|inversion E].
      destruct (p_has_next x); inversion E as [[E1 E2]].
      destruct (N.to_nat (p_staged x)); inversion E2. }
    destruct (m_type m =? MessageCookieReplyType) eqn:T3.
    { unfold recv_cookie in E. destruct (m_content m) as [| |[p|] enc| |]; try (inversion E; fail).
      destruct (find_peer (d_peers st) p) as [x|]; [|inversion E].
      destruct (consume_reply (p_id x) (p_gen x) now enc); inversion E. }
    unfold recv_handshake, hs_gates in E.
    destruct (check_mac1 (d_pk st) m); [|inversion E]. cbn [negb] in E.
    pose proof (loaded_secret st now q) as (_ & L2 & L3 & L4 & _).
    pose proof (secret_stale_loaded st now q now) as L7. unfold loaded in *.
    destruct (is_under_load st now q) as [s ul]. cbn [fst] in *.
    assert (NC : forall s0 b, consume s0 now m b <> (st1, [OCookie to idx (TXAead k n c ad)])).
    { intros s0 b. unfold consume, consume_init, consume_resp.
      destruct (m_type m =? MessageInitiationType).
      - destruct (m_content m) as [[p|] [|]| | | |]; try (intros X; inversion X; fail).
        destruct (find_peer (d_peers s0) p) as [x|]; [|intros X; inversion X].
        destruct (add_macs (p_id x) (p_gen x) now (TBody b)) as [[g m1] mm2]. intros X; inversion X.
      - destruct (m_content m) as [|[p|] h| | |]; try (intros X; inversion X; fail).
        destruct (find_peer (d_peers s0) p) as [x|]; [|intros X; inversion X].
        destruct ((p_hs x =? 1) && (p_hid x =? h)); [|intros X; inversion X].
        destruct (N.to_nat (if p_staged x =? 0 then 1 else p_staged x)) as [|[|j]]; cbn [rep]; intros X; inversion X. }
    destruct ul.
    - destruct (check_mac2 s now m); cbn [negb] in E.
      + destruct al; cbn [negb] in E; [exfalso; exact (NC _ _ E)|inversion E].
      + unfold create_reply, refresh in E. rewrite L7 in E.
        destruct (secret_stale st now) eqn:S; inversion E; subst; cbn [with_secret d_epoch d_has_secret d_secret_set].
        * repeat split; lia.
        * unfold secret_stale in S. destruct (d_has_secret st) eqn:Hs; cbn [negb orb] in S; [|discriminate].
          repeat split; [congruence|rewrite L4; apply Clk; reflexivity].
    - exfalso; exact (NC _ _ E). }
  destruct F as (Fc & Fh & Fs). rewrite Fc in Ec. inversion Ec as [[Ee Ea]].
  destruct (final_older mid st1) as [_ O2]. fold st2 in O2.
  destruct (O2 Ee Hs2) as [_ Set2]. lia.
Qed.

(* ------------------------------------------- the under-load period slides *)

Lemma consume_load s now m body : d_load_until (fst (consume s now m body)) = d_load_until s.
Proof.
  unfold consume, consume_init, consume_resp.
  destruct (m_type m =? MessageInitiationType).
  - destruct (m_content m) as [[p|] [|]| | | |]; try reflexivity.
    destruct (find_peer (d_peers s) p) as [x|]; [|reflexivity].
    destruct (add_macs (p_id x) (p_gen x) now (TBody body)) as [[g m1] m2]. reflexivity.
  - destruct (m_content m) as [|[p|] h| | |]; try reflexivity.
    destruct (find_peer (d_peers s) p) as [x|]; [|reflexivity].
    destruct ((p_hs x =? 1) && (p_hid x =? h)); reflexivity.
Qed.

(* Every handshake message with valid MAC1 that finds the queue at least an eighth full moves the
   end of the under-load period to UnderLoadAfterTime after ITS arrival, whatever the end was
   before: the period lasts 1 s after the LAST such observation, not after the first. *)
Theorem load_period_slides st now m al nonce body :
  gate m = true -> is_hs m = true -> check_mac1 (d_pk st) m = true ->
  d_load_until (fst (step st (ERecv now m true al nonce body))) = now + UnderLoadAfterTime.
Proof.
  intros G H M1. cbn [step]. rewrite recv_hs by assumption.
  unfold recv_handshake, hs_gates. rewrite M1. cbn [negb is_under_load].
  destruct (check_mac2 (with_load st (now + UnderLoadAfterTime)) now m); cbn [negb].
  - destruct al; cbn [negb]; [rewrite consume_load|]; reflexivity.
  - unfold create_reply, refresh. destruct (secret_stale (with_load st (now + UnderLoadAfterTime)) now); reflexivity.
Qed.

Theorem still_under_load_after_last_detection st now m al nonce body now2 :
  gate m = true -> is_hs m = true -> check_mac1 (d_pk st) m = true ->
  now2 < now + UnderLoadAfterTime ->
  under_load (fst (step st (ERecv now m true al nonce body))) now2 false = true.
Proof.
  intros G H M1 T. unfold under_load, is_under_load. cbn [snd].
  rewrite (load_period_slides st now m al nonce body G H M1). apply N.ltb_lt. exact T.
Qed.

(* ---------------------------------------------- identity change or removal *)

Theorem old_identity_mac1_rejected st now k now2 m q al nonce body :
  is_hs m = true -> check_mac1 k m = false ->
  step (fst (step st (ESetIdentity now k))) (ERecv now2 m q al nonce body) = (fst (step st (ESetIdentity now k)), []).
Proof.
  intros H M. apply no_valid_mac1_silent_inert. right. split; [exact H|]. exact M.
Qed.

Theorem identity_change_voids_cookies st now k now2 m :
  check_mac2 (fst (step st (ESetIdentity now k))) now2 m = false.
Proof. reflexivity. Qed.

(* ------------------------------------------- forged transport is erasable *)

(* For every history: a transport message that is not authentic (unknown or live receiver index, any counter,
   tag or key wrong, replayed) can be deleted from the history without any effect on what the device does or is
   afterwards — in particular genuine traffic of the same session is taken in exactly as before. *)
Theorem forged_transport_erasable st pre post now m q al nonce body :
  m_type m = MessageTransportType -> (forall p, m_content m <> CTransport (Some p)) ->
  final step st (pre ++ ERecv now m q al nonce body :: post) = final step st (pre ++ post) /\
  outs step st (pre ++ ERecv now m q al nonce body :: post) =
    outs step st pre ++ [] :: outs step (final step st pre) post.
Proof.
  intros T H.
  assert (S : step (final step st pre) (ERecv now m q al nonce body) = (final step st pre, [])).
  { apply unauthentic_transport_silent_inert; assumption. }
  split.
  - rewrite !final_app, final_cons, S. reflexivity.
  - rewrite outs_app, outs_cons, S. reflexivity.
Qed.
