(* Mirror model = protocol specification, for every sequence of operations:
   same error codes, same observable configuration.  The relation keeps the
   specification's single prefix->owner map and the model's per-peer lists in
   step: a peer's list is exactly the sub-list of the map owned by its key, in
   the same order. *)
From WG Require Import Base.Prelude Gen.Constants Uapi.Model Uapi.Spec Uapi.Proofs.
Local Open Scope N_scope.

Definition proj (k : N) (al : list (prefix * N)) : list prefix :=
  map fst (filter (fun y => snd y =? k) al).
Definition pa (p : peer) : N * attrs :=
  (pr_key p, {| at_psk := pr_psk p; at_ep := pr_ep p; at_ka := pr_ka p |}).

Record RP (ps : list peer) (aps : list (N * attrs)) (al : list (prefix * N)) : Prop := {
  rp_peers : map pa ps = aps;
  rp_ips : forall p, In p ps -> pr_ips p = proj (pr_key p) al;
  rp_own : forall y, In y al -> In (snd y) (keys ps) }.

Record R (c : cfg) (a : acfg) : Prop := {
  r_priv : c_priv c = a_priv a; r_pub : c_pub c = a_pub a; r_port : c_port c = a_port a;
  r_mark : c_fwmark c = a_fwmark a; r_up : c_up c = a_up a;
  r_rp : RP (c_peers c) (a_peers a) (a_allowed a) }.

Lemma keys_pa ps : map fst (map pa ps) = keys ps.
Proof. unfold keys. rewrite map_map. reflexivity. Qed.

(* ----- list facts ----- *)
Lemma filter_filter {A} (f g : A -> bool) l : filter f (filter g l) = filter (fun x => g x && f x) l.
Proof.
  induction l as [|x l IH]; [reflexivity|]. cbn. destruct (g x); cbn; [destruct (f x); cbn; congruence|exact IH].
Qed.

Lemma filter_ext_in' {A} (f g : A -> bool) l : (forall x, In x l -> f x = g x) -> filter f l = filter g l.
Proof.
  induction l as [|x l IH]; intros H; [reflexivity|]. cbn. rewrite (H x (or_introl eq_refl)).
  rewrite IH; [reflexivity|]. intros y Hy. apply H. right; exact Hy.
Qed.

Lemma proj_app k a b : proj k (a ++ b) = proj k a ++ proj k b.
Proof. unfold proj. rewrite filter_app, map_app. reflexivity. Qed.

Lemma proj_filter_owner k k' al :
  k <> k' -> proj k (filter (fun x => negb (snd x =? k')) al) = proj k al.
Proof.
  intros H. unfold proj. rewrite filter_filter. f_equal. apply filter_ext_in'. intros x _.
  destruct (N.eqb_spec (snd x) k'), (N.eqb_spec (snd x) k); cbn; congruence.
Qed.

Lemma proj_filter_self k al : proj k (filter (fun x => negb (snd x =? k)) al) = [].
Proof.
  unfold proj. rewrite filter_filter.
  replace (filter _ al) with (@nil (prefix * N)); [reflexivity|].
  symmetry. induction al as [|x l IH]; [reflexivity|]. cbn.
  destruct (snd x =? k); cbn; exact IH.
Qed.

Lemma drop_map_fst q (l : list (prefix * N)) :
  drop_prefix q (map fst l) = map fst (filter (fun x => negb (peqb (fst x) q)) l).
Proof.
  induction l as [|x l IH]; [reflexivity|]. cbn [map drop_prefix filter].
  destruct (peqb (fst x) q); cbn [negb map]; fold (drop_prefix q (map fst l)); rewrite IH; reflexivity.
Qed.

Lemma proj_drop k q al :
  proj k (filter (fun x => negb (peqb (fst x) q)) al) = drop_prefix q (proj k al).
Proof.
  unfold proj. rewrite drop_map_fst, !filter_filter. f_equal. apply filter_ext_in'. intros x _.
  apply andb_comm.
Qed.

Lemma proj_remove_own k q al :
  proj k (filter (fun x => negb (peqb (fst x) q && (snd x =? k))) al) = drop_prefix q (proj k al).
Proof.
  unfold proj. rewrite drop_map_fst, !filter_filter. f_equal. apply filter_ext_in'. intros x _.
  destruct (peqb (fst x) q), (snd x =? k); reflexivity.
Qed.

Lemma proj_remove_other k k' q al : k <> k' ->
  proj k (filter (fun x => negb (peqb (fst x) q && (snd x =? k'))) al) = proj k al.
Proof.
  intros H. unfold proj. rewrite filter_filter. f_equal. apply filter_ext_in'. intros x _.
  destruct (peqb (fst x) q), (N.eqb_spec (snd x) k'), (N.eqb_spec (snd x) k); cbn; congruence.
Qed.

Lemma proj_none k al : (forall y, In y al -> snd y <> k) -> proj k al = [].
Proof.
  intros H. unfold proj. induction al as [|y l IH]; [reflexivity|]. cbn.
  destruct (N.eqb_spec (snd y) k) as [E|E].
  - exfalso. apply (H y); [left; reflexivity|exact E].
  - apply IH. intros z Hz. apply H. right; exact Hz.
Qed.

(* ----- the peer part of the relation under each change ----- *)
Lemma RP_nil : RP [] [] [].
Proof. split; [reflexivity|intros ? []|intros ? []]. Qed.

Lemma map_pa_filter k ps :
  map pa (filter (fun p => negb (pr_key p =? k)) ps) = filter (fun x => negb (fst x =? k)) (map pa ps).
Proof. induction ps as [|p ps IH]; [reflexivity|]. cbn. destruct (pr_key p =? k); cbn; congruence. Qed.

Lemma RP_remove k ps aps al :
  RP ps aps al ->
  RP (remove_peer k ps) (filter (fun x => negb (fst x =? k)) aps) (filter (fun x => negb (snd x =? k)) al).
Proof.
  intros [P I O]. split.
  - unfold remove_peer. rewrite map_pa_filter, P. reflexivity.
  - intros p Hp. unfold remove_peer in Hp. apply filter_In in Hp. destruct Hp as [Hp Hk].
    rewrite proj_filter_owner; [apply I; exact Hp|].
    destruct (N.eqb_spec (pr_key p) k); [discriminate|assumption].
  - intros y Hy. apply filter_In in Hy. destruct Hy as [Hy Hk].
    specialize (O y Hy). unfold keys in *. apply in_map_iff in O. destruct O as (p & E & Hp).
    apply in_map_iff. exists p. split; [exact E|]. unfold remove_peer. apply filter_In. split; [exact Hp|].
    rewrite E. exact Hk.
Qed.

Lemma keys_update k f ps : (forall p, pr_key (f p) = pr_key p) -> keys (update_peer k f ps) = keys ps.
Proof.
  intros H. unfold keys, update_peer. rewrite map_map. apply map_ext. intros p.
  destruct (pr_key p =? k); auto.
Qed.

Lemma RP_update k f g ps aps al :
  (forall p, pa (f p) = (pr_key p, g (snd (pa p)))) -> (forall p, pr_ips (f p) = pr_ips p) ->
  RP ps aps al ->
  RP (update_peer k f ps) (map (fun x => if fst x =? k then (fst x, g (snd x)) else x) aps) al.
Proof.
  intros Hf Hi [P I O].
  assert (Hk : forall p, pr_key (f p) = pr_key p).
  { intros p. pose proof (Hf p) as E. unfold pa in E at 1. inversion E. reflexivity. }
  split.
  - rewrite <- P. unfold update_peer. rewrite !map_map. apply map_ext. intros p.
    cbn [fst pa]. destruct (pr_key p =? k); [apply Hf|reflexivity].
  - intros p Hp. unfold update_peer in Hp. apply in_map_iff in Hp. destruct Hp as (p0 & E & Hp0).
    destruct (pr_key p0 =? k); subst p; [rewrite Hi, Hk|]; apply I; exact Hp0.
  - intros y Hy. rewrite keys_update by exact Hk. apply O; exact Hy.
Qed.

Lemma RP_new k ps aps al :
  ~ In k (keys ps) -> RP ps aps al ->
  RP (ps ++ [new_peer k]) (aps ++ [(k, {| at_psk := 0; at_ep := None; at_ka := 0 |})]) al.
Proof.
  intros Hk [P I O]. split.
  - rewrite map_app, P. reflexivity.
  - intros p Hp. apply in_app_iff in Hp. destruct Hp as [Hp|[<-|[]]]; [apply I; exact Hp|].
    cbn [pr_ips pr_key new_peer]. symmetry. apply proj_none.
    intros y Hy E. apply Hk. rewrite <- E. apply O; exact Hy.
  - intros y Hy. unfold keys. rewrite map_app, in_app_iff. left. apply O; exact Hy.
Qed.

Lemma pa_with_ips l p : pa (with_ips l p) = pa p.
Proof. reflexivity. Qed.

Lemma RP_replace k ps aps al :
  RP ps aps al ->
  RP (update_peer k (with_ips []) ps) aps (filter (fun x => negb (snd x =? k)) al).
Proof.
  intros [P I O]. split.
  - rewrite <- P. unfold update_peer. rewrite map_map. apply map_ext. intros p.
    destruct (pr_key p =? k); reflexivity.
  - intros p Hp. unfold update_peer in Hp. apply in_map_iff in Hp. destruct Hp as (p0 & E & Hp0).
    destruct (N.eqb_spec (pr_key p0) k) as [Ek|Ek]; subst p.
    + cbn [pr_ips pr_key with_ips]. rewrite Ek, proj_filter_self. reflexivity.
    + rewrite proj_filter_owner by exact Ek. apply I; exact Hp0.
  - intros y Hy. apply filter_In in Hy. rewrite keys_update by reflexivity. apply O; tauto.
Qed.

Lemma RP_insert k q ps aps al :
  In k (keys ps) -> RP ps aps al ->
  RP (ips_insert k q ps) aps
     (filter (fun x => negb (peqb (fst x) (mask q))) al ++ [(mask q, k)]).
Proof.
  intros Hk [P I O]. unfold ips_insert.
  set (m := mask q).
  set (G := fun p : peer => with_ips (if pr_key p =? k then drop_prefix m (pr_ips p) ++ [m] else drop_prefix m (pr_ips p)) p).
  assert (Ek : keys (map G ps) = keys ps).
  { unfold keys. rewrite map_map. apply map_ext. reflexivity. }
  split.
  - rewrite <- P, map_map. apply map_ext. reflexivity.
  - intros p Hp. apply in_map_iff in Hp. destruct Hp as (p0 & E & Hp0). subst p.
    change (pr_key (G p0)) with (pr_key p0). rewrite proj_app, proj_drop, <- (I p0 Hp0).
    unfold G. cbn [pr_ips with_ips]. unfold proj. cbn [filter snd map fst].
    destruct (N.eqb_spec (pr_key p0) k) as [E1|E1], (N.eqb_spec k (pr_key p0)) as [E2|E2];
      try congruence; cbn [map fst]; [reflexivity|rewrite app_nil_r; reflexivity].
  - intros y Hy. rewrite Ek. apply in_app_iff in Hy. destruct Hy as [Hy|[<-|[]]].
    + apply filter_In in Hy. apply O; tauto.
    + exact Hk.
Qed.

Lemma RP_remove_ip k q ps aps al :
  RP ps aps al ->
  RP (ips_remove k q ps) aps
     (filter (fun x => negb (peqb (fst x) (mask q) && (snd x =? k))) al).
Proof.
  intros [P I O]. unfold ips_remove. set (m := mask q). split.
  - rewrite <- P. unfold update_peer. rewrite map_map. apply map_ext. intros p.
    destruct (pr_key p =? k); reflexivity.
  - intros p Hp. unfold update_peer in Hp. apply in_map_iff in Hp. destruct Hp as (p0 & E & Hp0).
    destruct (N.eqb_spec (pr_key p0) k) as [Ek|Ek]; subst p.
    + cbn [pr_ips pr_key with_ips]. rewrite Ek, proj_remove_own, <- Ek, <- (I p0 Hp0). reflexivity.
    + rewrite proj_remove_other by exact Ek. apply I; exact Hp0.
  - intros y Hy. apply filter_In in Hy. rewrite keys_update by (intros p; reflexivity). apply O; tauto.
Qed.

(* ----- selectors ----- *)
Definition Rs (sl : sel) (t : target) : Prop :=
  match sl, t with
  | SDev, TDevice => True
  | SPeer k cr, TPeer k' cr' => k = k' /\ cr = cr'
  | SDummy, TIgnored => True
  | _, _ => False
  end.
Definition sel_ok (c : cfg) (sl : sel) : Prop :=
  match sl with SPeer k _ => In k (keys (c_peers c)) | _ => True end.

Lemma R_set_peers c a ps aps al :
  R c a -> RP ps aps al -> R (set_peers c ps) (a_set_peers a aps al).
Proof. intros [A B C D E F] H. split; cbn; assumption. Qed.

Lemma known_has k c a : R c a -> known k a = has_peer k (c_peers c).
Proof.
  intros [_ _ _ _ _ [P _ _]]. unfold known, has_peer. rewrite <- P. clear P.
  induction (c_peers c) as [|p ps IH]; [reflexivity|]. cbn. rewrite IH. reflexivity.
Qed.

Ltac finR HR := destruct HR as [? ? ? ? ? ?]; split; cbn in *; try congruence; auto.

Lemma EInvalid_nz' : EInvalid <> 0%Z. Proof. vm_compute; discriminate. Qed.

Lemma dev_line_sim e c a k s c1 r :
  R c a -> k <> KPublicKey -> apply_device_line e c k s = (c1, r) ->
  (syntax_errno true (LText k s) <> 0%Z /\ r = syntax_errno true (LText k s) /\ c1 = c)
  \/ (syntax_errno true (LText k s) = 0%Z /\
      exists a1 ok, effect e a TDevice (LText k s) = (a1, TDevice, ok) /\ R c1 a1 /\
                    r = (if ok then 0%Z else EPortInUse)).
Proof.
  intros HR Hk H. unfold apply_device_line in H.
  destruct k; try congruence; cbn [syntax_errno effect];
    try (injection H as <- <-; left; repeat split; apply EInvalid_nz').
  - (* private_key *)
    unfold parse_private in *. destruct (parse_key s) as [v|]; cbn [opt_ok].
    + right. split; [reflexivity|]. injection H as <- <-.
      set (sk := if v =? 0 then 0 else clamp v). unfold set_private_key.
      rewrite (r_priv _ _ HR). destruct (sk =? a_priv a).
      * exists a, true. auto.
      * eexists _, true. split; [reflexivity|]. split; [|reflexivity].
        pose proof (RP_remove (pk e sk) _ _ _ (r_rp _ _ HR)) as Hrp.
        destruct HR as [? ? ? ? ? ?]. split; cbn; auto.
    + left. injection H as <- <-. repeat split. apply EInvalid_nz'.
  - (* listen_port *)
    destruct (parse_uint 16 s) as [p|]; cbn [opt_ok].
    + right. split; [reflexivity|].
      unfold bind_update in H. cbn [c_up c_port c_fwmark set_port] in H.
      rewrite (r_up _ _ HR) in H. rewrite (r_mark _ _ HR) in H. unfold open_port.
      destruct (a_up a) eqn:Eu; cbn [negb] in H.
      * destruct (memN p (busy e)).
        -- injection H as <- <-. eexists _, false. split; [reflexivity|]. split; [|reflexivity]. finR HR.
        -- destruct (negb (a_fwmark a =? 0) && memN (a_fwmark a) (badmarks e)); cbn [negb];
             injection H as <- <-; eexists _, _; (split; [reflexivity|]); (split; [|reflexivity]); finR HR.
      * injection H as <- <-. eexists _, true. split; [reflexivity|]. split; [|reflexivity]. finR HR.
    + left. injection H as <- <-. repeat split. apply EInvalid_nz'.
  - (* fwmark *)
    destruct (parse_uint 32 s) as [m|]; cbn [opt_ok].
    + right. split; [reflexivity|].
      unfold bind_set_mark in H. rewrite (r_up _ _ HR), (r_mark _ _ HR) in H.
      destruct (a_fwmark a =? m) eqn:Em; cbn [negb andb].
      * injection H as <- <-. eexists _, true. split; [reflexivity|]. split; [|reflexivity].
        apply N.eqb_eq in Em. finR HR.
      * destruct (a_up a && memN m (badmarks e)); cbn [negb];
          injection H as <- <-; eexists _, _; (split; [reflexivity|]); (split; [|reflexivity]); finR HR.
    + left. injection H as <- <-. repeat split. apply EInvalid_nz'.
  - (* replace_peers *)
    destruct (is_true s); cbn [bool_ok].
    + right. split; [reflexivity|]. injection H as <- <-. eexists _, true. split; [reflexivity|].
      split; [|reflexivity]. apply R_set_peers; [exact HR|apply RP_nil].
    + left. injection H as <- <-. repeat split. apply EInvalid_nz'.
Qed.

Ltac four := split; [reflexivity|]; split; [|split; [cbn; auto|split; [|reflexivity]]].

Lemma pk_line_sim e c a t s c1 sl1 r :
  R c a -> apply_public_key c s = (c1, sl1, r) ->
  (opt_ok (parse_key s) <> 0%Z /\ r = opt_ok (parse_key s) /\ c1 = c)
  \/ (opt_ok (parse_key s) = 0%Z /\
      exists a1 t1, effect e a t (LText KPublicKey s) = (a1, t1, true) /\ R c1 a1 /\ Rs sl1 t1 /\
                    sel_ok c1 sl1 /\ r = 0%Z).
Proof.
  intros HR H. unfold apply_public_key in H. cbn [effect].
  destruct (parse_key s) as [k|]; cbn [opt_ok].
  - right. split; [reflexivity|]. rewrite (r_pub _ _ HR) in H. rewrite (known_has k c a HR).
    destruct (a_pub a =? k).
    + injection H as <- <- <-. exists a, TIgnored. four; [exact HR|exact I].
    + destruct (has_peer k (c_peers c)) eqn:Eh; injection H as <- <- <-.
      * exists a, (TPeer k false). four; [exact HR|]. apply has_peer_In; exact Eh.
      * eexists _, (TPeer k true). four.
        -- apply R_set_peers; [exact HR|]. apply RP_new; [apply has_peer_false; exact Eh|apply (r_rp _ _ HR)].
        -- cbn. unfold keys. rewrite map_app, in_app_iff. right. left. reflexivity.
  - left. injection H as <- <- <-. repeat split. apply EInvalid_nz'.
Qed.

Lemma keys_ips_insert k q ps : keys (ips_insert k q ps) = keys ps.
Proof. unfold keys, ips_insert. rewrite map_map. apply map_ext. reflexivity. Qed.

Definition is_kv (l : line) : bool := match l with Blank | NoEq | TooLong => false | _ => true end.

Lemma peer_line_sim e c a k cr l c1 sl1 r :
  R c a -> In k (keys (c_peers c)) -> is_pk_line l = false -> is_kv l = true ->
  apply_peer_line c (SPeer k cr) l = (c1, sl1, r) ->
  (syntax_errno false l <> 0%Z /\ r = syntax_errno false l /\ c1 = c)
  \/ (syntax_errno false l = 0%Z /\
      exists a1 t1, effect e a (TPeer k cr) l = (a1, t1, true) /\ R c1 a1 /\ Rs sl1 t1 /\
                    sel_ok c1 sl1 /\ r = 0%Z).
Proof.
  intros HR Hk Hpk Hb H. pose proof (r_rp _ _ HR) as HP.
  assert (EP : EProtocol <> 0%Z) by (vm_compute; discriminate).
  assert (EI : EIO <> 0%Z) by (vm_compute; discriminate).
  unfold apply_peer_line in H.
  destruct l as [ | | |k0 s|[ep|]|neg [q|]]; try discriminate; cbn [syntax_errno effect opt_ok];
    try (injection H as <- <- <-; left; repeat split; first [apply EInvalid_nz'|exact EP|exact EI]).
  - destruct k0; try discriminate; cbn [syntax_errno effect];
      try (injection H as <- <- <-; left; repeat split; apply EInvalid_nz').
    + (* update_only *)
      destruct (is_true s); cbn [bool_ok]; [|injection H as <- <- <-; left; repeat split; apply EInvalid_nz'].
      right. split; [reflexivity|]. destruct cr; injection H as <- <- <-.
      * eexists _, TIgnored. four; [|exact I].
        apply R_set_peers; [exact HR|apply RP_remove; exact HP].
      * exists a, (TPeer k false). four; [exact HR|exact Hk].
    + (* remove *)
      destruct (is_true s); cbn [bool_ok]; [|injection H as <- <- <-; left; repeat split; apply EInvalid_nz'].
      right. split; [reflexivity|]. injection H as <- <- <-.
      eexists _, TIgnored. four; [|exact I].
      apply R_set_peers; [exact HR|apply RP_remove; exact HP].
    + (* preshared_key *)
      destruct (parse_key s) as [v|]; cbn [opt_ok]; [|injection H as <- <- <-; left; repeat split; apply EInvalid_nz'].
      right. split; [reflexivity|]. injection H as <- <- <-.
      eexists _, (TPeer k cr). four.
      * apply R_set_peers; [exact HR|].
        apply (RP_update k (with_psk v) (fun x => {| at_psk := v; at_ep := at_ep x; at_ka := at_ka x |})); auto.
      * cbn. rewrite keys_update by reflexivity. exact Hk.
    + (* keepalive *)
      destruct (parse_uint 16 s) as [v|]; cbn [opt_ok]; [|injection H as <- <- <-; left; repeat split; apply EInvalid_nz'].
      right. split; [reflexivity|]. injection H as <- <- <-.
      eexists _, (TPeer k cr). four.
      * apply R_set_peers; [exact HR|].
        apply (RP_update k (with_ka v) (fun x => {| at_psk := at_psk x; at_ep := at_ep x; at_ka := v |})); auto.
      * cbn. rewrite keys_update by reflexivity. exact Hk.
    + (* replace_allowed_ips *)
      destruct (is_true s); cbn [bool_ok]; [|injection H as <- <- <-; left; repeat split; apply EInvalid_nz'].
      right. split; [reflexivity|]. injection H as <- <- <-.
      eexists _, (TPeer k cr). four.
      * apply R_set_peers; [exact HR|apply RP_replace; exact HP].
      * cbn. rewrite keys_update by reflexivity. exact Hk.
    + (* protocol_version *)
      destruct (is_one s); cbn [bool_ok]; [|injection H as <- <- <-; left; repeat split; apply EInvalid_nz'].
      right. split; [reflexivity|]. injection H as <- <- <-.
      exists a, (TPeer k cr). four; [exact HR|exact Hk].
  - (* endpoint *)
    right. split; [reflexivity|]. injection H as <- <- <-.
    eexists _, (TPeer k cr). four.
    + apply R_set_peers; [exact HR|].
      apply (RP_update k (with_ep ep) (fun x => {| at_psk := at_psk x; at_ep := Some ep; at_ka := at_ka x |})); auto.
    + cbn. rewrite keys_update by reflexivity. exact Hk.
  - (* allowed_ip *)
    right. split; [reflexivity|]. injection H as <- <- <-. destruct neg.
    + eexists _, (TPeer k cr). four.
      * apply R_set_peers; [exact HR|apply RP_remove_ip; exact HP].
      * cbn. unfold ips_remove. rewrite keys_update by reflexivity. exact Hk.
    + eexists _, (TPeer k cr). four.
      * apply R_set_peers; [exact HR|apply RP_insert; [exact Hk|exact HP]].
      * cbn. rewrite keys_ips_insert. exact Hk.
Qed.

Lemma dummy_line_sim e a c l c1 sl1 r :
  is_pk_line l = false -> is_kv l = true -> apply_peer_line c SDummy l = (c1, sl1, r) ->
  (syntax_errno false l <> 0%Z /\ r = syntax_errno false l /\ c1 = c)
  \/ (syntax_errno false l = 0%Z /\ effect e a TIgnored l = (a, TIgnored, true) /\
      c1 = c /\ sl1 = SDummy /\ r = 0%Z).
Proof.
  intros Hpk Hkv H. unfold apply_peer_line in H.
  destruct l as [ | | |k0 s|[ep|]|neg [q|]]; try discriminate; cbn [syntax_errno effect opt_ok];
    try (injection H as <- <- <-; left; repeat split; apply EInvalid_nz');
    try (injection H as <- <- <-; right; repeat split; reflexivity).
  destruct k0; try discriminate; cbn [syntax_errno effect];
    try (injection H as <- <- <-; left; repeat split; apply EInvalid_nz');
    repeat match type of H with
           | context [if ?b then _ else _] => destruct b; cbn [bool_ok]
           | context [match ?x with Some _ => _ | None => _ end] => destruct x; cbn [opt_ok]
           end;
    injection H as <- <- <-;
    first [right; repeat split; reflexivity | left; repeat split; apply EInvalid_nz'].
Qed.

Lemma syntax_pk b s : syntax_errno b (LText KPublicKey s) = opt_ok (parse_key s).
Proof. destruct b; reflexivity. Qed.

Lemma line_sim e c a sl t l c1 sl1 r :
  R c a -> Rs sl t -> sel_ok c sl -> is_blank l = false ->
  apply_line e c sl l = (c1, sl1, r) ->
  (syntax_errno (is_device t) l <> 0%Z /\ r = syntax_errno (is_device t) l /\ c1 = c)
  \/ (syntax_errno (is_device t) l = 0%Z /\
      exists a1 t1 ok, effect e a t l = (a1, t1, ok) /\ R c1 a1 /\ Rs sl1 t1 /\ sel_ok c1 sl1 /\
                       r = (if ok then 0%Z else EPortInUse)).
Proof.
  intros HR Hs Hok Hb H.
  assert (EP : EProtocol <> 0%Z) by (vm_compute; discriminate).
  assert (EI : EIO <> 0%Z) by (vm_compute; discriminate).
  destruct (is_pk_line l) eqn:Epk.
  { destruct l as [ | | |k0 s| | ]; try discriminate. destruct k0; try discriminate.
    cbn [apply_line] in H. rewrite syntax_pk.
    destruct (pk_line_sim e c a t s c1 sl1 r HR H) as [L|(Hz & a1 & t1 & He & HR1 & Hs1 & Hok1 & Hr)].
    - left; exact L.
    - right. split; [exact Hz|]. exists a1, t1, true. auto. }
  destruct (is_kv l) eqn:Ekv.
  2:{ destruct l; try discriminate; cbn in H; injection H as <- <- <-; left; cbn; auto. }
  destruct sl as [|k cr|], t as [|k' cr'|]; try contradiction; cbn [is_device].
  - (* device section *)
    destruct l as [ | | |k0 s|ep|neg q]; try discriminate.
    + assert (Hk0 : k0 <> KPublicKey) by (intros ->; discriminate).
      destruct (apply_device_line e c k0 s) as [c2 r2] eqn:Ha.
      assert (Hx : c1 = c2 /\ sl1 = SDev /\ r = r2).
      { unfold apply_line in H. destruct k0; try congruence; rewrite Ha in H;
          injection H as <- <- <-; auto. }
      destruct Hx as (-> & -> & ->).
      destruct (dev_line_sim e c a k0 s c2 r2 HR Hk0 Ha) as [L|(Hz & a1 & ok & He & HR1 & Hr)].
      * left; exact L.
      * right. split; [exact Hz|]. exists a1, TDevice, ok. cbn. auto.
    + cbn in H. injection H as <- <- <-. left. cbn. repeat split. apply EInvalid_nz'.
    + cbn in H. injection H as <- <- <-. left. cbn. repeat split. apply EInvalid_nz'.
  - (* a peer's section *)
    destruct Hs as [<- <-].
    assert (Ha : apply_peer_line c (SPeer k cr) l = (c1, sl1, r)).
    { destruct l as [ | | |k0 s| | ]; try discriminate; [destruct k0; try discriminate|..]; exact H. }
    destruct (peer_line_sim e c a k cr l c1 sl1 r HR Hok Epk Ekv Ha) as [L|(Hz & a1 & t1 & He & HR1 & Hs1 & Hok1 & Hr)].
    + left; exact L.
    + right. split; [exact Hz|]. exists a1, t1, true. auto.
  - (* placeholder section *)
    assert (Ha : apply_peer_line c SDummy l = (c1, sl1, r)).
    { destruct l as [ | | |k0 s| | ]; try discriminate; [destruct k0; try discriminate|..]; exact H. }
    destruct (dummy_line_sim e a c l c1 sl1 r Epk Ekv Ha) as [L|(Hz & He & -> & -> & ->)].
    + left; exact L.
    + right. split; [exact Hz|]. exists a, TIgnored, true. cbn. auto.
Qed.

Lemma loop_sim e : forall ls c a sl t, R c a -> Rs sl t -> sel_ok c sl ->
  snd (set_loop e c sl ls) = snd (sem_loop e a t ls) /\
  R (fst (set_loop e c sl ls)) (fst (sem_loop e a t ls)).
Proof.
  induction ls as [|l ls IH]; intros c a sl t HR Hs Hok; [cbn; auto|].
  destruct (is_blank l) eqn:Eb.
  { destruct l; try discriminate. cbn. auto. }
  assert (Hm : set_loop e c sl (l :: ls) =
               let '(c1, sl1, r1) := apply_line e c sl l in
               if (r1 =? 0)%Z then set_loop e c1 sl1 ls else (c1, r1)).
  { destruct l; try reflexivity. discriminate. }
  assert (Hsp : sem_loop e a t (l :: ls) =
                let r := syntax_errno (is_device t) l in
                if negb (r =? 0)%Z then (a, r) else
                let '(a1, t1, ok) := effect e a t l in
                if ok then sem_loop e a1 t1 ls else (a1, EPortInUse)).
  { destruct l; try reflexivity. discriminate. }
  rewrite Hm, Hsp. clear Hm Hsp. cbn zeta.
  destruct (apply_line e c sl l) as [[c1 sl1] r] eqn:Ha.
  destruct (line_sim e c a sl t l c1 sl1 r HR Hs Hok Eb Ha) as [(Hn & -> & ->)|(Hz & a1 & t1 & ok & He & HR1 & Hs1 & Hok1 & ->)].
  - destruct (Z.eqb_spec (syntax_errno (is_device t) l) 0); [contradiction|]. cbn. auto.
  - rewrite Hz, He. cbn [Z.eqb negb]. destruct ok.
    + cbn [Z.eqb]. apply IH; assumption.
    + destruct (Z.eqb_spec EPortInUse 0) as [E|E]; [vm_compute in E; discriminate|]. cbn. auto.
Qed.

Lemma step_sim e c a o : R c a ->
  snd (step e c o) = snd (sem_step e a o) /\ R (fst (step e c o)) (fst (sem_step e a o)).
Proof.
  intros HR. destruct o as [ls| | | |]; cbn [step sem_step].
  - apply loop_sim; cbn; auto.
  - unfold dev_up, bind_update, open_port. cbn [c_up c_port c_fwmark set_up set_port].
    rewrite (r_up _ _ HR). destruct (a_up a) eqn:Eu; [cbn; auto|]. cbn [negb].
    rewrite (r_port _ _ HR), (r_mark _ _ HR).
    destruct (memN (a_port a) (busy e)); [cbn; split; [reflexivity|finR HR]|].
    destruct (negb (a_fwmark a =? 0) && memN (a_fwmark a) (badmarks e)); cbn; (split; [reflexivity|finR HR]).
  - cbn. split; [reflexivity|finR HR].
  - cbn. auto.
  - cbn. auto.
Qed.

Lemma fresh_R : R fresh afresh.
Proof. split; cbn; try reflexivity. apply RP_nil. Qed.

Lemma R_view c a : R c a -> mview c = view a.
Proof.
  intros [A B C D E [P I O]]. unfold mview, view. rewrite A, C, D. f_equal.
  rewrite <- P, map_map. f_equal. apply map_ext_in. intros p Hp.
  cbn [fst snd pa at_psk at_ep at_ka]. fold (proj (pr_key p) (a_allowed a)).
  rewrite <- (I p Hp). destruct p; reflexivity.
Qed.

(* the statement of Props/C09.v, proved *)
Theorem model_refines_spec : forall e ops,
  outs (step e) fresh ops = outs (sem_step e) afresh ops /\
  mview (final (step e) fresh ops) = view (final (sem_step e) afresh ops).
Proof.
  intros e ops.
  destruct (sim_run (step e) (sem_step e) R (fun s1 s2 o H => step_sim e s1 s2 o H) ops fresh afresh fresh_R)
    as [Ho Hr].
  split; [exact Ho|apply R_view; exact Hr].
Qed.

(* the Definition of Uapi/Proofs.v is hereby discharged *)
Theorem model_refines_spec_statement_holds : model_refines_spec_statement.
Proof. exact model_refines_spec. Qed.
