(* The configuration protocol as a specification: an abstract configuration
   (scalars, a map public key -> attributes, a map prefix -> owner) and a fold of
   per-line semantic functions over it.

   Shape of the specification, different from the mirror model:
   * a line is INVALID or not by looking at the line and at the kind of section
     it stands in only ([syntax_errno]); an invalid line has no effect;
   * a valid line has an EFFECT on the abstract configuration ([effect]); only
     listen_port / fwmark can still fail afterwards, in the bind, and then the
     configuration change stays (errno EADDRINUSE);
   * allowed IPs are ONE map from (masked) prefix to owner, so "a prefix has
     exactly one owner" is what the data structure says; the model keeps the
     per-peer ordered lists of the code.
   Shared with the model by construction (nothing to compare): the token type,
   the value parsers (ParseUint, hex keys, "true"), [mask], [env].

   [view]/[mview] are the observable configuration (what a get shows, peers
   ordered by key, prefixes ordered) of specification and model. *)
From WG Require Import Base.Prelude Gen.Constants Uapi.Model.
Local Open Scope N_scope.

Record attrs := { at_psk : N; at_ep : option N; at_ka : N }.

Record acfg := {
  a_priv : N; a_pub : N; a_port : N; a_fwmark : N; a_up : bool;
  a_peers : list (N * attrs);
  a_allowed : list (prefix * N)
}.

Definition afresh : acfg :=
  {| a_priv := 0; a_pub := 0; a_port := 0; a_fwmark := 0; a_up := false; a_peers := []; a_allowed := [] |}.

Inductive target := TDevice | TPeer (k : N) (created : bool) | TIgnored.

(* ----- validity of a line: depends on the section kind only ----- *)

Definition opt_ok {A} (o : option A) : Z := match o with Some _ => 0%Z | None => EInvalid end.
Definition bool_ok (b : bool) : Z := if b then 0%Z else EInvalid.

Definition syntax_errno (device_section : bool) (l : line) : Z :=
  match l with
  | Blank => 0%Z
  | NoEq => EProtocol
  | TooLong => EIO
  | LText KPublicKey s => opt_ok (parse_key s)
  | LText k s =>
      if device_section then
        match k with
        | KPrivateKey => opt_ok (parse_key s)
        | KListenPort => opt_ok (parse_uint 16 s)
        | KFwmark => opt_ok (parse_uint 32 s)
        | KReplacePeers => bool_ok (is_true s)
        | _ => EInvalid
        end
      else
        match k with
        | KUpdateOnly | KRemove | KReplaceAllowedIps => bool_ok (is_true s)
        | KPresharedKey => opt_ok (parse_key s)
        | KKeepalive => opt_ok (parse_uint 16 s)
        | KProtocolVersion => bool_ok (is_one s)
        | _ => EInvalid
        end
  | LEndpoint e => if device_section then EInvalid else opt_ok e
  | LAllowedIp _ p => if device_section then EInvalid else opt_ok p
  end.

(* ----- effect of a valid line ----- *)

Definition a_set_peers (a : acfg) ps al : acfg :=
  {| a_priv := a_priv a; a_pub := a_pub a; a_port := a_port a; a_fwmark := a_fwmark a;
     a_up := a_up a; a_peers := ps; a_allowed := al |}.
Definition a_set_net (a : acfg) port mark up : acfg :=
  {| a_priv := a_priv a; a_pub := a_pub a; a_port := port; a_fwmark := mark;
     a_up := up; a_peers := a_peers a; a_allowed := a_allowed a |}.

Definition drop_peer (k : N) (a : acfg) : acfg :=
  a_set_peers a (filter (fun x => negb (fst x =? k)) (a_peers a))
                (filter (fun x => negb (snd x =? k)) (a_allowed a)).

Definition known (k : N) (a : acfg) : bool := existsb (fun x => fst x =? k) (a_peers a).

Definition upd_attrs (k : N) (f : attrs -> attrs) (a : acfg) : acfg :=
  a_set_peers a (map (fun x => if fst x =? k then (fst x, f (snd x)) else x) (a_peers a)) (a_allowed a).

(* opening sockets on the current port: (port afterwards, ok) *)
Definition open_port (e : env) (port mark : N) : N * bool :=
  if memN port (busy e) then (0, false)
  else (if port =? 0 then auto_port e else port,
        negb (negb (mark =? 0) && memN mark (badmarks e))).

Definition effect (e : env) (a : acfg) (t : target) (l : line) : acfg * target * bool :=
  match l with
  | LText KPublicKey s =>
      match parse_key s with
      | Some k =>
          if a_pub a =? k then (a, TIgnored, true)
          else if known k a then (a, TPeer k false, true)
          else (a_set_peers a (a_peers a ++ [(k, {| at_psk := 0; at_ep := None; at_ka := 0 |})]) (a_allowed a),
                TPeer k true, true)
      | None => (a, t, true)
      end
  | _ =>
  match t with
  | TDevice =>
      match l with
      | LText KPrivateKey s =>
          match parse_private s with
          | Some sk =>
              if sk =? a_priv a then (a, t, true) else
              let a1 := drop_peer (pk e sk) a in
              ({| a_priv := sk; a_pub := pk e sk; a_port := a_port a1; a_fwmark := a_fwmark a1;
                  a_up := a_up a1; a_peers := a_peers a1; a_allowed := a_allowed a1 |}, t, true)
          | None => (a, t, true)
          end
      | LText KListenPort s =>
          match parse_uint 16 s with
          | Some p =>
              if a_up a then let '(p1, ok) := open_port e p (a_fwmark a) in
                             (a_set_net a p1 (a_fwmark a) true, t, ok)
              else (a_set_net a p (a_fwmark a) false, t, true)
          | None => (a, t, true)
          end
      | LText KFwmark s =>
          match parse_uint 32 s with
          | Some m =>
              (a_set_net a (a_port a) m (a_up a), t,
               negb (negb (a_fwmark a =? m) && a_up a && memN m (badmarks e)))
          | None => (a, t, true)
          end
      | LText KReplacePeers _ => (a_set_peers a [] [], t, true)
      | _ => (a, t, true)
      end
  | TIgnored =>
      (a, TIgnored, true)
  | TPeer k created =>
      match l with
      | LText KUpdateOnly _ => if created then (drop_peer k a, TIgnored, true) else (a, t, true)
      | LText KRemove _ => (drop_peer k a, TIgnored, true)
      | LText KPresharedKey s =>
          match parse_key s with
          | Some v => (upd_attrs k (fun x => {| at_psk := v; at_ep := at_ep x; at_ka := at_ka x |}) a, t, true)
          | None => (a, t, true)
          end
      | LEndpoint (Some ep) =>
          (upd_attrs k (fun x => {| at_psk := at_psk x; at_ep := Some ep; at_ka := at_ka x |}) a, t, true)
      | LText KKeepalive s =>
          match parse_uint 16 s with
          | Some v => (upd_attrs k (fun x => {| at_psk := at_psk x; at_ep := at_ep x; at_ka := v |}) a, t, true)
          | None => (a, t, true)
          end
      | LText KReplaceAllowedIps _ =>
          (a_set_peers a (a_peers a) (filter (fun x => negb (snd x =? k)) (a_allowed a)), t, true)
      | LAllowedIp false (Some q) =>
          let q := mask q in
          (a_set_peers a (a_peers a) (filter (fun x => negb (peqb (fst x) q)) (a_allowed a) ++ [(q, k)]), t, true)
      | LAllowedIp true (Some q) =>
          let q := mask q in
          (a_set_peers a (a_peers a)
                       (filter (fun x => negb (peqb (fst x) q && (snd x =? k))) (a_allowed a)), t, true)
      | _ => (a, t, true)
      end
  end
  end.

Definition is_device (t : target) : bool := match t with TDevice => true | _ => false end.

Fixpoint sem_loop (e : env) (a : acfg) (t : target) (ls : list line) : acfg * Z :=
  match ls with
  | [] => (a, 0%Z)
  | Blank :: _ => (a, 0%Z)
  | l :: rest =>
      let r := syntax_errno (is_device t) l in
      if negb (r =? 0)%Z then (a, r) else
      let '(a1, t1, ok) := effect e a t l in
      if ok then sem_loop e a1 t1 rest else (a1, EPortInUse)
  end.

Definition sem_set (e : env) (a : acfg) (ls : list line) : acfg * Z := sem_loop e a TDevice ls.

Definition sem_step (e : env) (a : acfg) (o : op) : acfg * Z :=
  match o with
  | OSet ls => sem_set e a ls
  | OUp =>
      if a_up a then (a, 0%Z) else
      let '(p1, ok) := open_port e (a_port a) (a_fwmark a) in
      (a_set_net a p1 (a_fwmark a) ok, if ok then 0%Z else (-1)%Z)
  | ODown => (a_set_net a (a_port a) (a_fwmark a) false, 0%Z)
  | OGetFail => (a, EIO)          (* a get, delivered or not, changes nothing *)
  | OHangup => (a, 0%Z)
  end.

(* ----- the observable configuration ----- *)

Section Sort.
  Context {A : Type} (leb : A -> A -> bool).
  Fixpoint ins (x : A) (l : list A) : list A :=
    match l with
    | [] => [x]
    | y :: t => if leb x y then x :: l else y :: ins x t
    end.
  Definition isort (l : list A) : list A := fold_right ins [] l.
End Sort.

Definition pleb (a b : prefix) : bool :=
  if Bool.eqb (p_v6 a) (p_v6 b) then
    (if p_addr a =? p_addr b then p_bits a <=? p_bits b else p_addr a <? p_addr b)
  else negb (p_v6 a).

Definition peer_leb (a b : peer) : bool := pr_key a <=? pr_key b.

(* (private key, listen port, fwmark, peers by key with sorted prefixes) *)
Definition view_t : Type := N * N * N * list peer.

Definition mview (c : cfg) : view_t :=
  (c_priv c, c_port c, c_fwmark c,
   isort peer_leb (map (fun p => with_ips (isort pleb (pr_ips p)) p) (c_peers c))).

Definition view (a : acfg) : view_t :=
  (a_priv a, a_port a, a_fwmark a,
   isort peer_leb
     (map (fun x => {| pr_key := fst x; pr_psk := at_psk (snd x); pr_ep := at_ep (snd x);
                       pr_ka := at_ka (snd x);
                       pr_ips := isort pleb (map fst (filter (fun y => snd y =? fst x) (a_allowed a))) |})
          (a_peers a))).

(* decidable equality of views (used by the checker) *)
Fixpoint list_eqb {A} (eqb : A -> A -> bool) (a b : list A) : bool :=
  match a, b with
  | [], [] => true
  | x :: a', y :: b' => eqb x y && list_eqb eqb a' b'
  | _, _ => false
  end.
Definition optN_eqb (a b : option N) : bool :=
  match a, b with
  | None, None => true
  | Some x, Some y => x =? y
  | _, _ => false
  end.
Definition peer_eqb (a b : peer) : bool :=
  (pr_key a =? pr_key b) && (pr_psk a =? pr_psk b) && optN_eqb (pr_ep a) (pr_ep b) &&
  (pr_ka a =? pr_ka b) && list_eqb peqb (pr_ips a) (pr_ips b).
Definition view_eqb (x y : view_t) : bool :=
  let '(p1, o1, f1, l1) := x in
  let '(p2, o2, f2, l2) := y in
  (p1 =? p2) && (o1 =? o2) && (f1 =? f2) && list_eqb peer_eqb l1 l2.
