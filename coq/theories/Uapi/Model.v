(* Mirror of device/uapi.go (IpcSetOperation, handleDeviceLine,
   handlePublicKeyLine, handlePeerLine, IpcGetOperation) together with the
   parts of device/device.go they call (SetPrivateKey, RemovePeer,
   RemoveAllPeers, BindSetMark, BindUpdate, Up, Down), device/peer.go NewPeer
   and the owner bookkeeping of device/allowedips.go (Insert / Remove /
   RemoveByPeer / EntriesForPeer: the per-peer trieEntries list).

   A set operation arrives tokenised (the harness splits the text like
   bufio.ScanLines + strings.Cut): the value of every key whose parsing is
   arithmetic on characters (ParseUint widths 16/32, 64-digit hex keys, "true",
   "1") arrives as the list of its bytes and is parsed HERE; endpoint and
   allowed_ip values arrive parsed (netip.ParseAddrPort / netip.ParsePrefix ran
   in the harness) or tagged malformed (None).

   Keys are numbers below 2^256 (the 64 hex digits read as one numeral, first
   byte most significant).  No proofs in this file. *)
From WG Require Import Base.Prelude Gen.Constants.
Local Open Scope N_scope.

(* ---------- tokens ---------- *)

Inductive key :=
| KPrivateKey | KListenPort | KFwmark | KReplacePeers          (* device level *)
| KPublicKey
| KUpdateOnly | KRemove | KPresharedKey | KKeepalive
| KReplaceAllowedIps | KProtocolVersion                        (* peer level *)
| KOther.                                                      (* any other key text *)

Record prefix := { p_v6 : bool; p_addr : N; p_bits : N }.

Inductive line :=
| Blank                                   (* ""  : terminates the operation *)
| NoEq                                    (* non-empty, no '=' *)
| TooLong                                 (* bufio.Scanner gives up: ErrTooLong *)
| LText (k : key) (s : list N)            (* key=value, value as bytes *)
| LEndpoint (e : option N)                (* endpoint=..., bind.ParseEndpoint result (opaque id) *)
| LAllowedIp (neg : bool) (p : option prefix).  (* allowed_ip=[-]..., netip.ParsePrefix result *)

(* What the model cannot compute: curve25519 and the behaviour of the bind. *)
Record env := {
  pk : N -> N;             (* public key of a (clamped or zero) private key *)
  auto_port : N;           (* port bind.Open(0) hands out *)
  busy : list N;           (* ports on which bind.Open fails *)
  badmarks : list N        (* marks on which bind.SetMark fails *)
}.

(* ---------- value parsing (strconv.ParseUint base 10, encoding/hex) ---------- *)

Definition is_digit (c : N) : bool := (48 <=? c) && (c <=? 57).
Definition dec_val (s : list N) : N := fold_left (fun a c => a * 10 + (c - 48)) s 0.

(* strconv.ParseUint(s, 10, bits): no sign, no underscore, not empty, in range *)
Definition parse_uint (bits : N) (s : list N) : option N :=
  match s with
  | [] => None
  | _ => if forallb is_digit s
         then (let v := dec_val s in if v <? 2 ^ bits then Some v else None)
         else None
  end.

Definition hexval (c : N) : option N :=
  if is_digit c then Some (c - 48)
  else if (97 <=? c) && (c <=? 102) then Some (c - 87)
  else if (65 <=? c) && (c <=? 70) then Some (c - 55)
  else None.

Fixpoint hex_acc (s : list N) (acc : N) : option N :=
  match s with
  | [] => Some acc
  | c :: t => match hexval c with Some d => hex_acc t (acc * 16 + d) | None => None end
  end.

(* loadExactHex into a 32-byte array *)
Definition parse_key (s : list N) : option N :=
  if Nat.eqb (length s) 64 then hex_acc s 0 else None.

Definition str_true : list N := [116; 114; 117; 101].
Fixpoint str_eqb (a b : list N) : bool :=
  match a, b with
  | [], [] => true
  | x :: a', y :: b' => (x =? y) && str_eqb a' b'
  | _, _ => false
  end.
Definition is_true (s : list N) : bool := str_eqb s str_true.
Definition is_one (s : list N) : bool := str_eqb s [49].

(* NoisePrivateKey.clamp: key[0] &= 248; key[31] = (key[31] & 127) | 64.
   The hex text is read first byte first, so key[0] is the most significant
   byte of the number and key[31] the least significant one. *)
Definition clamp_mask : N := 2 ^ 256 - 1 - 7 * 2 ^ 248 - 128.
Definition clamp (k : N) : N := N.lor (N.land k clamp_mask) 64.

(* FromMaybeZeroHex *)
Definition parse_private (s : list N) : option N :=
  match parse_key s with
  | None => None
  | Some v => Some (if v =? 0 then 0 else clamp v)
  end.

(* ---------- rendering (IpcGetOperation) ---------- *)

Fixpoint dec_lsf (fuel : nat) (n : N) : list N :=
  match fuel with
  | O => []
  | S f => (48 + n mod 10) :: (if n / 10 =? 0 then [] else dec_lsf f (n / 10))
  end.
Definition dec (n : N) : list N := rev (dec_lsf 10 n).     (* %d of a uint16/uint32 *)

Definition hexchar (d : N) : N := if d <? 10 then 48 + d else 87 + d.
Fixpoint hex_lsf (n : nat) (k : N) : list N :=
  match n with
  | O => []
  | S m => hexchar (k mod 16) :: hex_lsf m (k / 16)
  end.
Definition hex64 (k : N) : list N := rev (hex_lsf 64 k).

(* ---------- configuration ---------- *)

Record peer := {
  pr_key : N;                (* handshake.remoteStatic *)
  pr_psk : N;                (* handshake.presharedKey *)
  pr_ep : option N;          (* endpoint.val *)
  pr_ka : N;                 (* persistentKeepaliveInterval *)
  pr_ips : list prefix       (* trieEntries, front to back *)
}.

Record cfg := {
  c_priv : N;                (* staticIdentity.privateKey (0 = unset) *)
  c_pub : N;                 (* staticIdentity.publicKey *)
  c_port : N;                (* net.port *)
  c_fwmark : N;              (* net.fwmark *)
  c_up : bool;               (* device state *)
  c_peers : list peer        (* peers.keyMap, in creation order *)
}.

Definition fresh : cfg :=
  {| c_priv := 0; c_pub := 0; c_port := 0; c_fwmark := 0; c_up := false; c_peers := [] |}.

Definition set_peers (c : cfg) (ps : list peer) : cfg :=
  {| c_priv := c_priv c; c_pub := c_pub c; c_port := c_port c; c_fwmark := c_fwmark c;
     c_up := c_up c; c_peers := ps |}.
Definition set_port (c : cfg) (p : N) : cfg :=
  {| c_priv := c_priv c; c_pub := c_pub c; c_port := p; c_fwmark := c_fwmark c;
     c_up := c_up c; c_peers := c_peers c |}.
Definition set_fwmark (c : cfg) (m : N) : cfg :=
  {| c_priv := c_priv c; c_pub := c_pub c; c_port := c_port c; c_fwmark := m;
     c_up := c_up c; c_peers := c_peers c |}.
Definition set_up (c : cfg) (u : bool) : cfg :=
  {| c_priv := c_priv c; c_pub := c_pub c; c_port := c_port c; c_fwmark := c_fwmark c;
     c_up := u; c_peers := c_peers c |}.

Definition memN (x : N) (l : list N) : bool := existsb (N.eqb x) l.

Definition peqb (a b : prefix) : bool :=
  Bool.eqb (p_v6 a) (p_v6 b) && (p_addr a =? p_addr b) && (p_bits a =? p_bits b).

(* trieEntry.maskSelf *)
Definition width (v6 : bool) : N := if v6 then 128 else 32.
Definition mask (p : prefix) : prefix :=
  let sh := width (p_v6 p) - p_bits p in
  {| p_v6 := p_v6 p; p_addr := N.shiftl (N.shiftr (p_addr p) sh) sh; p_bits := p_bits p |}.

Definition find_peer (k : N) (ps : list peer) : option peer :=
  find (fun p => pr_key p =? k) ps.
Definition has_peer (k : N) (ps : list peer) : bool :=
  existsb (fun p => pr_key p =? k) ps.
(* removePeerLocked: the peer's prefixes go with it *)
Definition remove_peer (k : N) (ps : list peer) : list peer :=
  filter (fun p => negb (pr_key p =? k)) ps.
Definition update_peer (k : N) (f : peer -> peer) (ps : list peer) : list peer :=
  map (fun p => if pr_key p =? k then f p else p) ps.

Definition new_peer (k : N) : peer :=
  {| pr_key := k; pr_psk := 0; pr_ep := None; pr_ka := 0; pr_ips := [] |}.
Definition with_psk (v : N) (p : peer) : peer :=
  {| pr_key := pr_key p; pr_psk := v; pr_ep := pr_ep p; pr_ka := pr_ka p; pr_ips := pr_ips p |}.
Definition with_ep (e : N) (p : peer) : peer :=
  {| pr_key := pr_key p; pr_psk := pr_psk p; pr_ep := Some e; pr_ka := pr_ka p; pr_ips := pr_ips p |}.
Definition with_ka (v : N) (p : peer) : peer :=
  {| pr_key := pr_key p; pr_psk := pr_psk p; pr_ep := pr_ep p; pr_ka := v; pr_ips := pr_ips p |}.
Definition with_ips (l : list prefix) (p : peer) : peer :=
  {| pr_key := pr_key p; pr_psk := pr_psk p; pr_ep := pr_ep p; pr_ka := pr_ka p; pr_ips := l |}.

Definition drop_prefix (q : prefix) (l : list prefix) : list prefix :=
  filter (fun x => negb (peqb x q)) l.

(* AllowedIPs.Insert: the node of the masked prefix changes owner (taken from
   whoever had it) and is pushed to the back of the new owner's list. *)
Definition ips_insert (k : N) (q : prefix) (ps : list peer) : list peer :=
  let q := mask q in
  map (fun p =>
         let l := drop_prefix q (pr_ips p) in
         with_ips (if pr_key p =? k then l ++ [q] else l) p) ps.

(* AllowedIPs.Remove: only the node of exactly this (masked) prefix and only
   if this peer owns it. *)
Definition ips_remove (k : N) (q : prefix) (ps : list peer) : list peer :=
  let q := mask q in
  update_peer k (fun p => with_ips (drop_prefix q (pr_ips p)) p) ps.

(* ---------- device.go ---------- *)

(* SetPrivateKey *)
Definition set_private_key (e : env) (c : cfg) (sk : N) : cfg :=
  if sk =? c_priv c then c else
  let pub := pk e sk in
  {| c_priv := sk; c_pub := pub; c_port := c_port c; c_fwmark := c_fwmark c;
     c_up := c_up c; c_peers := remove_peer pub (c_peers c) |}.

(* BindUpdate: (configuration, succeeded) *)
Definition bind_update (e : env) (c : cfg) : cfg * bool :=
  if negb (c_up c) then (c, true) else
  if memN (c_port c) (busy e) then (set_port c 0, false) else
  let c1 := set_port c (if c_port c =? 0 then auto_port e else c_port c) in
  if negb (c_fwmark c1 =? 0) && memN (c_fwmark c1) (badmarks e) then (c1, false) else (c1, true).

(* BindSetMark *)
Definition bind_set_mark (e : env) (c : cfg) (m : N) : cfg * bool :=
  if c_fwmark c =? m then (c, true) else
  let c1 := set_fwmark c m in
  if c_up c && memN m (badmarks e) then (c1, false) else (c1, true).

(* Up / Down (changeState): result 0 = nil error, -1 = error *)
Definition dev_up (e : env) (c : cfg) : cfg * Z :=
  if c_up c then (c, 0%Z) else
  let '(c1, ok) := bind_update e (set_up c true) in
  if ok then (c1, 0%Z) else (set_up c1 false, (-1)%Z).
Definition dev_down (c : cfg) : cfg * Z := (set_up c false, 0%Z).

(* ---------- uapi.go: set ---------- *)

Definition EInvalid : Z := ipc_IpcErrorInvalid.
Definition EProtocol : Z := ipc_IpcErrorProtocol.
Definition EPortInUse : Z := ipc_IpcErrorPortInUse.
Definition EIO : Z := ipc_IpcErrorIO.

(* ipcSetPeer: which peer the current section configures *)
Inductive sel :=
| SDev                                   (* deviceConfig = true *)
| SPeer (k : N) (created : bool)         (* a peer of the device *)
| SDummy.                                (* placeholder &Peer{}: values are validated, nothing changes *)

Definition apply_device_line (e : env) (c : cfg) (k : key) (s : list N) : cfg * Z :=
  match k with
  | KPrivateKey =>
      match parse_private s with
      | None => (c, EInvalid)
      | Some sk => (set_private_key e c sk, 0%Z)
      end
  | KListenPort =>
      match parse_uint 16 s with
      | None => (c, EInvalid)
      | Some p => let '(c1, ok) := bind_update e (set_port c p) in
                  (c1, if ok then 0%Z else EPortInUse)
      end
  | KFwmark =>
      match parse_uint 32 s with
      | None => (c, EInvalid)
      | Some m => let '(c1, ok) := bind_set_mark e c m in
                  (c1, if ok then 0%Z else EPortInUse)
      end
  | KReplacePeers =>
      if is_true s then (set_peers c [], 0%Z) else (c, EInvalid)
  | _ => (c, EInvalid)
  end.

(* handlePublicKeyLine *)
Definition apply_public_key (c : cfg) (s : list N) : cfg * sel * Z :=
  match parse_key s with
  | None => (c, SDummy, EInvalid)           (* selector irrelevant: the operation ends *)
  | Some k =>
      if c_pub c =? k then (c, SDummy, 0%Z)
      else if has_peer k (c_peers c) then (c, SPeer k false, 0%Z)
      else (set_peers c (c_peers c ++ [new_peer k]), SPeer k true, 0%Z)
  end.

Definition on_peer (c : cfg) (sl : sel) (f : peer -> peer) : cfg :=
  match sl with
  | SPeer k _ => set_peers c (update_peer k f (c_peers c))
  | _ => c
  end.

(* handlePeerLine (sl is SPeer or SDummy) *)
Definition apply_peer_line (c : cfg) (sl : sel) (l : line) : cfg * sel * Z :=
  match l with
  | LText KUpdateOnly s =>
      if is_true s then
        match sl with
        | SPeer k true => (set_peers c (remove_peer k (c_peers c)), SDummy, 0%Z)
        | _ => (c, sl, 0%Z)
        end
      else (c, sl, EInvalid)
  | LText KRemove s =>
      if is_true s then
        match sl with
        | SPeer k _ => (set_peers c (remove_peer k (c_peers c)), SDummy, 0%Z)
        | _ => (c, SDummy, 0%Z)
        end
      else (c, sl, EInvalid)
  | LText KPresharedKey s =>
      match parse_key s with
      | Some v => (on_peer c sl (with_psk v), sl, 0%Z)
      | None => (c, sl, EInvalid)
      end
  | LEndpoint (Some ep) => (on_peer c sl (with_ep ep), sl, 0%Z)
  | LEndpoint None => (c, sl, EInvalid)
  | LText KKeepalive s =>
      match parse_uint 16 s with
      | Some v => (on_peer c sl (with_ka v), sl, 0%Z)
      | None => (c, sl, EInvalid)
      end
  | LText KReplaceAllowedIps s =>
      if is_true s then (on_peer c sl (with_ips []), sl, 0%Z) else (c, sl, EInvalid)
  | LAllowedIp neg (Some q) =>
      match sl with
      | SPeer k _ =>
          (set_peers c ((if neg then ips_remove else ips_insert) k q (c_peers c)), sl, 0%Z)
      | _ => (c, sl, 0%Z)
      end
  | LAllowedIp _ None => (c, sl, EInvalid)
  | LText KProtocolVersion s => if is_one s then (c, sl, 0%Z) else (c, sl, EInvalid)
  | _ => (c, sl, EInvalid)
  end.

(* one scanned line of IpcSetOperation (Blank is handled by the loop) *)
Definition apply_line (e : env) (c : cfg) (sl : sel) (l : line) : cfg * sel * Z :=
  match l with
  | Blank => (c, sl, 0%Z)
  | NoEq => (c, sl, EProtocol)
  | TooLong => (c, sl, EIO)
  | LText KPublicKey s => apply_public_key c s
  | _ =>
      match sl with
      | SDev =>
          match l with
          | LText k s => let '(c1, r) := apply_device_line e c k s in (c1, sl, r)
          | _ => (c, sl, EInvalid)
          end
      | _ => apply_peer_line c sl l
      end
  end.

Fixpoint set_loop (e : env) (c : cfg) (sl : sel) (ls : list line) : cfg * Z :=
  match ls with
  | [] => (c, 0%Z)
  | Blank :: _ => (c, 0%Z)
  | l :: t =>
      let '(c1, sl1, r) := apply_line e c sl l in
      if (r =? 0)%Z then set_loop e c1 sl1 t else (c1, r)
  end.

Definition ipc_set (e : env) (c : cfg) (ls : list line) : cfg * Z := set_loop e c SDev ls.

(* ---------- uapi.go: get (configuration keys only) ---------- *)

Definition render_peer (p : peer) : list line :=
  [LText KPublicKey (hex64 (pr_key p)); LText KPresharedKey (hex64 (pr_psk p));
   LText KProtocolVersion [49]] ++
  (match pr_ep p with Some ep => [LEndpoint (Some ep)] | None => [] end) ++
  [LText KKeepalive (dec (pr_ka p))] ++
  map (fun q => LAllowedIp false (Some q)) (pr_ips p).

Definition ipc_get (c : cfg) : list line :=
  (if c_priv c =? 0 then [] else [LText KPrivateKey (hex64 (c_priv c))]) ++
  (if c_port c =? 0 then [] else [LText KListenPort (dec (c_port c))]) ++
  (if c_fwmark c =? 0 then [] else [LText KFwmark (dec (c_fwmark c))]) ++
  flat_map render_peer (c_peers c).

(* ---------- histories ---------- *)

(* OGetFail: IpcGetOperation on a writer that fails (errno EIO); OHangup: a
   get=1 over IpcHandle whose client closes without reading (no status can be
   observed).  Neither touches the configuration. *)
Inductive op := OSet (ls : list line) | OUp | ODown | OGetFail | OHangup.

Definition step (e : env) (c : cfg) (o : op) : cfg * Z :=
  match o with
  | OSet ls => ipc_set e c ls
  | OUp => dev_up e c
  | ODown => dev_down c
  | OGetFail => (c, EIO)
  | OHangup => (c, 0%Z)
  end.
