(* Lemmas and main theorems for C09.  Part 1: value syntax (print/parse
   roundtrips), part 2: errors, part 3: invariants of all reachable
   configurations, part 4: get/set roundtrip. *)
From WG Require Import Base.Prelude Gen.Constants Uapi.Model Uapi.Spec.
From Coq Require Import Permutation.
Local Open Scope N_scope.

(* ------------------------------------------------------------------ *)
(* Part 1: decimal and hexadecimal text                                *)
(* ------------------------------------------------------------------ *)

Definition lsf_val (l : list N) : N := fold_right (fun c a => (c - 48) + 10 * a) 0 l.

Lemma dec_val_rev l : dec_val (rev l) = lsf_val l.
Proof.
  unfold dec_val. induction l as [|c l IH]; [reflexivity|].
  cbn [rev lsf_val fold_right]. rewrite fold_left_app. cbn [fold_left]. rewrite IH.
  fold (lsf_val l). lia.
Qed.

Lemma mod10_digit n : is_digit (48 + n mod 10) = true.
Proof. unfold is_digit. apply andb_true_intro; split; apply N.leb_le; lia. Qed.

Lemma pow10_S f : 10 ^ N.of_nat (S f) = 10 * 10 ^ N.of_nat f.
Proof. rewrite Nat2N.inj_succ, N.pow_succ_r'. reflexivity. Qed.

Lemma dec_lsf_val fuel : forall n, n < 10 ^ N.of_nat fuel ->
  lsf_val (dec_lsf fuel n) = n /\ forallb is_digit (dec_lsf fuel n) = true.
Proof.
  induction fuel as [|f IH]; intros n H.
  - cbn in H. assert (n = 0) by lia. subst. split; reflexivity.
  - rewrite pow10_S in H. cbn [dec_lsf].
    destruct (N.eqb_spec (n / 10) 0) as [E|E].
    + cbn [lsf_val fold_right forallb]. rewrite mod10_digit. split; [lia|reflexivity].
    + assert (Hq : n / 10 < 10 ^ N.of_nat f) by lia.
      destruct (IH _ Hq) as [Hv Hd].
      cbn [lsf_val fold_right forallb]. fold (lsf_val (dec_lsf f (n / 10))).
      rewrite Hv, Hd, mod10_digit. split; [lia|reflexivity].
Qed.

Lemma forallb_rev {A} (f : A -> bool) l : forallb f (rev l) = forallb f l.
Proof.
  induction l as [|x l IH]; [reflexivity|]. cbn [rev forallb].
  rewrite forallb_app, IH. cbn. rewrite andb_true_r. apply andb_comm.
Qed.

Lemma dec_lsf_nonempty f n : dec_lsf (S f) n <> [].
Proof. cbn. discriminate. Qed.

Lemma parse_uint_dec bits n :
  n < 2 ^ bits -> n < 10 ^ 10 -> parse_uint bits (dec n) = Some n.
Proof.
  intros Hb H10. unfold parse_uint, dec.
  destruct (dec_lsf_val 10 n) as [Hv Hd]; [exact H10|].
  destruct (rev (dec_lsf 10 n)) eqn:E.
  - exfalso. apply (f_equal (@rev N)) in E. rewrite rev_involutive in E. cbn [rev] in E.
    revert E. apply dec_lsf_nonempty.
  - rewrite <- E. rewrite forallb_rev, Hd, dec_val_rev, Hv.
    destruct (N.ltb_spec n (2 ^ bits)); [reflexivity|lia].
Qed.

Lemma parse_u16_dec n : n < 2 ^ 16 -> parse_uint 16 (dec n) = Some n.
Proof. intros H. apply parse_uint_dec; [exact H|]. change (2 ^ 16) with 65536 in H. change (10 ^ 10) with 10000000000. lia. Qed.
Lemma parse_u32_dec n : n < 2 ^ 32 -> parse_uint 32 (dec n) = Some n.
Proof. intros H. apply parse_uint_dec; [exact H|]. change (2 ^ 32) with 4294967296 in H. change (10 ^ 10) with 10000000000. lia. Qed.

(* hexadecimal *)
Lemma hexval_hexchar d : d < 16 -> hexval (hexchar d) = Some d.
Proof.
  intros H. unfold hexchar, hexval, is_digit.
  destruct (N.ltb_spec d 10).
  - replace ((48 <=? 48 + d) && (48 + d <=? 57)) with true.
    + f_equal. lia.
    + symmetry. apply andb_true_intro; split; apply N.leb_le; lia.
  - replace ((48 <=? 87 + d) && (87 + d <=? 57)) with false.
    + replace ((97 <=? 87 + d) && (87 + d <=? 102)) with true.
      * f_equal. lia.
      * symmetry. apply andb_true_intro; split; apply N.leb_le; lia.
    + symmetry. apply andb_false_intro2. apply N.leb_gt. lia.
Qed.

Lemma hex_acc_snoc s c acc :
  hex_acc (s ++ [c]) acc =
  match hex_acc s acc with
  | Some v => match hexval c with Some d => Some (v * 16 + d) | None => None end
  | None => None
  end.
Proof.
  revert acc; induction s as [|x s IH]; intros acc; cbn [app hex_acc].
  - destruct (hexval c); reflexivity.
  - destruct (hexval x); [apply IH|reflexivity].
Qed.

Lemma pow16_S n : 16 ^ N.of_nat (S n) = 16 * 16 ^ N.of_nat n.
Proof. rewrite Nat2N.inj_succ, N.pow_succ_r'. reflexivity. Qed.

Lemma hex_lsf_length n k : length (hex_lsf n k) = n.
Proof. revert k; induction n; intros; cbn; auto. Qed.

Lemma hex_acc_lsf n : forall k, k < 16 ^ N.of_nat n -> hex_acc (rev (hex_lsf n k)) 0 = Some k.
Proof.
  induction n as [|n IH]; intros k H.
  - cbn in H. assert (k = 0) by lia. subst. reflexivity.
  - rewrite pow16_S in H. cbn [hex_lsf rev]. rewrite hex_acc_snoc.
    rewrite IH by lia. rewrite hexval_hexchar by lia. f_equal. lia.
Qed.

Definition keymax : N := 2 ^ 256.
Lemma keymax_16 : 16 ^ N.of_nat 64 = keymax.
Proof. vm_compute. reflexivity. Qed.

Lemma parse_key_hex64 k : k < keymax -> parse_key (hex64 k) = Some k.
Proof.
  intros H. unfold parse_key, hex64. rewrite rev_length, hex_lsf_length.
  cbn [Nat.eqb]. apply hex_acc_lsf. rewrite keymax_16. exact H.
Qed.

(* parse_key yields numbers below 2^256 *)
Lemma hex_acc_bound s : forall acc v n, hex_acc s acc = Some v -> acc < 16 ^ n ->
  v < 16 ^ (n + N.of_nat (length s)).
Proof.
  induction s as [|c s IH]; intros acc v n H Ha; cbn [hex_acc length] in *.
  - inversion H; subst. rewrite N.add_0_r. exact Ha.
  - destruct (hexval c) as [d|] eqn:Hd; [|discriminate].
    assert (Hd16 : d < 16).
    { unfold hexval in Hd. destruct (is_digit c) eqn:E1.
      - unfold is_digit in E1. apply andb_prop in E1. destruct E1 as [A B].
        apply N.leb_le in A, B. inversion Hd. lia.
      - destruct ((97 <=? c) && (c <=? 102)) eqn:E2.
        + apply andb_prop in E2. destruct E2 as [A B]. apply N.leb_le in A, B. inversion Hd. lia.
        + destruct ((65 <=? c) && (c <=? 70)) eqn:E3; [|discriminate].
          apply andb_prop in E3. destruct E3 as [A B]. apply N.leb_le in A, B. inversion Hd. lia. }
    specialize (IH (acc * 16 + d) v (n + 1) H).
    replace (n + N.of_nat (S (length s))) with (n + 1 + N.of_nat (length s)) by lia.
    apply IH. rewrite N.pow_add_r. change (16 ^ 1) with 16. lia.
Qed.

Lemma parse_key_bound s v : parse_key s = Some v -> v < keymax.
Proof.
  unfold parse_key. destruct (Nat.eqb (length s) 64) eqn:E; [|discriminate].
  apply Nat.eqb_eq in E. intros H.
  apply (hex_acc_bound s 0 v 0) in H; [|cbn; lia].
  rewrite E in H. rewrite N.add_0_l, keymax_16 in H. exact H.
Qed.

Lemma parse_uint_bound bits s v : parse_uint bits s = Some v -> v < 2 ^ bits.
Proof.
  unfold parse_uint. destruct s; [discriminate|].
  destruct (forallb is_digit (n :: s)); [|discriminate].
  destruct (N.ltb_spec (dec_val (n :: s)) (2 ^ bits)) as [Hlt|Hge]; [|discriminate].
  intros Hs; inversion Hs; subst; assumption.
Qed.

(* clamp *)
Lemma clamp_idem k : clamp (clamp k) = clamp k.
Proof.
  unfold clamp. rewrite N.land_lor_distr_l, <- N.land_assoc, N.land_diag.
  replace (N.land 64 clamp_mask) with 64 by (vm_compute; reflexivity).
  rewrite <- N.lor_assoc, N.lor_diag. reflexivity.
Qed.

Lemma clamp_nonzero k : clamp k <> 0.
Proof.
  unfold clamp. intros H. apply N.lor_eq_0_iff in H. destruct H; discriminate.
Qed.

Lemma clamp_bound k : clamp k < keymax.
Proof.
  unfold clamp, keymax.
  assert (Hpos : 0 < N.lor (N.land k clamp_mask) 64).
  { destruct (N.eq_0_gt_0_cases (N.lor (N.land k clamp_mask) 64)) as [E|E]; [|exact E].
    apply N.lor_eq_0_iff in E. destruct E; discriminate. }
  apply N.log2_lt_pow2; [exact Hpos|].
  rewrite N.log2_lor.
  assert (N.log2 (N.land k clamp_mask) <= N.log2 clamp_mask).
  { eapply N.le_trans; [apply N.log2_land|]. apply N.le_min_r. }
  replace (N.log2 clamp_mask) with 255 in H by (vm_compute; reflexivity).
  replace (N.log2 64) with 6 by (vm_compute; reflexivity). lia.
Qed.

(* ------------------------------------------------------------------ *)
(* Part 2: errors                                                      *)
(* ------------------------------------------------------------------ *)

Definition is_devsel (sl : sel) : bool := match sl with SDev => true | _ => false end.
Definition is_pk_line (l : line) : bool := match l with LText KPublicKey _ => true | _ => false end.
Definition is_blank (l : line) : bool := match l with Blank => true | _ => false end.
Definition bind_line (l : line) : Prop := exists s, l = LText KListenPort s \/ l = LText KFwmark s.

Lemma EInvalid_nz : EInvalid <> 0%Z. Proof. vm_compute. discriminate. Qed.
Lemma EProtocol_nz : EProtocol <> 0%Z. Proof. vm_compute. discriminate. Qed.
Lemma EPortInUse_nz : EPortInUse <> 0%Z. Proof. vm_compute. discriminate. Qed.
Lemma EIO_nz : EIO <> 0%Z. Proof. vm_compute. discriminate. Qed.
#[local] Hint Resolve EInvalid_nz EProtocol_nz EPortInUse_nz EIO_nz : core.

Lemma bind_update_fields e c :
  c_peers (fst (bind_update e c)) = c_peers c /\ c_priv (fst (bind_update e c)) = c_priv c /\
  c_pub (fst (bind_update e c)) = c_pub c /\ c_fwmark (fst (bind_update e c)) = c_fwmark c.
Proof.
  unfold bind_update. destruct (negb (c_up c)); [auto|].
  destruct (memN (c_port c) (busy e)); [cbn; auto|].
  match goal with |- context [if ?b then _ else _] => destruct b end; cbn; auto.
Qed.

Lemma bind_set_mark_fields e c m :
  c_peers (fst (bind_set_mark e c m)) = c_peers c /\ c_priv (fst (bind_set_mark e c m)) = c_priv c /\
  c_pub (fst (bind_set_mark e c m)) = c_pub c /\ c_port (fst (bind_set_mark e c m)) = c_port c.
Proof.
  unfold bind_set_mark. destruct (c_fwmark c =? m); [auto|].
  destruct (c_up c && memN m (badmarks e)); cbn; auto.
Qed.

(* What one line does, in the vocabulary of the specification: either it is
   valid and succeeds, or it is invalid (the code of [syntax_errno]) and
   changes nothing, or it is a valid listen_port/fwmark line on which the
   bind fails (EADDRINUSE), which leaves keys and peers alone. *)
Lemma apply_line_cases e c sl l c1 sl1 r :
  apply_line e c sl l = (c1, sl1, r) ->
  (r = 0%Z /\ syntax_errno (is_devsel sl) l = 0%Z /\
   is_devsel sl1 = is_devsel sl && negb (is_pk_line l))
  \/ (r <> 0%Z /\ syntax_errno (is_devsel sl) l = r /\ c1 = c)
  \/ (r = EPortInUse /\ syntax_errno (is_devsel sl) l = 0%Z /\ is_devsel sl = true /\ bind_line l /\
      c_peers c1 = c_peers c /\ c_priv c1 = c_priv c /\ c_pub c1 = c_pub c).
Proof.
  unfold apply_line. intros H.
  destruct l as [ | | | k s | ep | neg q ].
  - inversion H; subst. left. cbn. rewrite andb_true_r. auto.
  - inversion H; subst. right; left. cbn. auto.
  - inversion H; subst. right; left. cbn. auto.
  - destruct k.
    + (* private_key *)
      destruct sl as [|k0 cr|].
      * cbn [apply_device_line] in H. unfold parse_private in H. cbn [is_devsel syntax_errno].
        destruct (parse_key s); inversion H; subst; cbn; auto.
      * cbn in H. inversion H; subst. right; left. cbn. auto.
      * cbn in H. inversion H; subst. right; left. cbn. auto.
    + (* listen_port *)
      destruct sl as [|k0 cr|].
      * cbn [apply_device_line] in H. cbn [is_devsel syntax_errno].
        destruct (parse_uint 16 s) as [p|]; [|inversion H; subst; cbn; auto].
        pose proof (bind_update_fields e (set_port c p)) as F.
        destruct (bind_update e (set_port c p)) as [c2 ok]. cbn [fst] in F.
        destruct ok; inversion H; subst; [left; cbn; auto|].
        right; right. cbn. intuition; try (exists s; auto).
      * cbn in H. inversion H; subst. right; left. cbn. auto.
      * cbn in H. inversion H; subst. right; left. cbn. auto.
    + (* fwmark *)
      destruct sl as [|k0 cr|].
      * cbn [apply_device_line] in H. cbn [is_devsel syntax_errno].
        destruct (parse_uint 32 s) as [m|]; [|inversion H; subst; cbn; auto].
        pose proof (bind_set_mark_fields e c m) as F.
        destruct (bind_set_mark e c m) as [c2 ok]. cbn [fst] in F.
        destruct ok; inversion H; subst; [left; cbn; auto|].
        right; right. cbn. intuition; try (exists s; auto).
      * cbn in H. inversion H; subst. right; left. cbn. auto.
      * cbn in H. inversion H; subst. right; left. cbn. auto.
    + (* replace_peers *)
      destruct sl as [|k0 cr|]; cbn in H |- *;
        try (inversion H; subst; right; left; auto; fail).
      destruct (is_true s); inversion H; subst; cbn; auto.
    + (* public_key *)
      unfold apply_public_key in H. cbn [syntax_errno is_pk_line negb]. rewrite andb_false_r.
      destruct (parse_key s) as [k|]; [|inversion H; subst; cbn; auto].
      destruct (c_pub c =? k); [inversion H; subst; left; cbn; auto|].
      destruct (has_peer k (c_peers c)); inversion H; subst; left; cbn; auto.
    + (* update_only *)
      destruct sl as [|k0 cr|]; cbn in H |- *;
        try (inversion H; subst; right; left; auto; fail);
        destruct (is_true s); try destruct cr; inversion H; subst; cbn; auto.
    + (* remove *)
      destruct sl as [|k0 cr|]; cbn in H |- *;
        try (inversion H; subst; right; left; auto; fail);
        destruct (is_true s); inversion H; subst; cbn; auto.
    + (* preshared_key *)
      destruct sl as [|k0 cr|]; cbn in H |- *;
        try (inversion H; subst; right; left; auto; fail);
        destruct (parse_key s); inversion H; subst; cbn; auto.
    + (* keepalive *)
      destruct sl as [|k0 cr|]; cbn in H |- *;
        try (inversion H; subst; right; left; auto; fail);
        destruct (parse_uint 16 s); inversion H; subst; cbn; auto.
    + (* replace_allowed_ips *)
      destruct sl as [|k0 cr|]; cbn in H |- *;
        try (inversion H; subst; right; left; auto; fail);
        destruct (is_true s); inversion H; subst; cbn; auto.
    + (* protocol_version *)
      destruct sl as [|k0 cr|]; cbn in H |- *;
        try (inversion H; subst; right; left; auto; fail);
        destruct (is_one s); inversion H; subst; cbn; auto.
    + (* other *)
      destruct sl as [|k0 cr|]; cbn in H |- *; inversion H; subst; right; left; auto.
  - destruct sl as [|k0 cr|]; destruct ep; cbn in H |- *; inversion H; subst; cbn; auto.
  - destruct sl as [|k0 cr|]; destruct q; cbn in H |- *; inversion H; subst; cbn; auto.
Qed.

(* the first k lines of a set text all went through, none of them blank *)
Fixpoint steps (e : env) (c : cfg) (sl : sel) (ls : list line) : option (cfg * sel) :=
  match ls with
  | [] => Some (c, sl)
  | l :: t =>
      if is_blank l then None else
      let '(c1, sl1, r) := apply_line e c sl l in
      if (r =? 0)%Z then steps e c1 sl1 t else None
  end.

Lemma set_loop_steps e : forall a c sl c1 sl1 b,
  steps e c sl a = Some (c1, sl1) -> set_loop e c sl (a ++ b) = set_loop e c1 sl1 b.
Proof.
  induction a as [|l a IH]; intros c sl c1 sl1 b H; cbn [steps app] in *.
  - inversion H; reflexivity.
  - destruct l; cbn [is_blank] in H; try discriminate; cbn [set_loop];
      (destruct (apply_line e c sl _) as [[c2 sl2] r]; destruct (r =? 0)%Z; [eauto|discriminate]).
Qed.

Lemma steps_app e : forall a c sl b,
  steps e c sl (a ++ b) =
  match steps e c sl a with Some (c1, sl1) => steps e c1 sl1 b | None => None end.
Proof.
  induction a as [|l a IH]; intros c sl b; cbn [steps app]; [reflexivity|].
  destruct (is_blank l); [reflexivity|].
  destruct (apply_line e c sl l) as [[c2 sl2] r]. destruct (r =? 0)%Z; [apply IH|reflexivity].
Qed.

Lemma steps_set_loop e a c sl c1 sl1 :
  steps e c sl a = Some (c1, sl1) -> set_loop e c sl a = (c1, 0%Z).
Proof.
  intros H. rewrite <- (app_nil_r a). erewrite set_loop_steps by exact H. reflexivity.
Qed.

(* [sect sl k ls]: is line number k still in the device section? *)
Definition devsec (start : bool) (before : list line) : bool := start && negb (existsb is_pk_line before).

Lemma set_loop_error e : forall ls c sl c' r,
  set_loop e c sl ls = (c', r) -> r <> 0%Z ->
  exists k l ck slk,
    nth_error ls k = Some l /\
    steps e c sl (firstn k ls) = Some (ck, slk) /\
    is_devsel slk = devsec (is_devsel sl) (firstn k ls) /\
    (exists sl', apply_line e ck slk l = (c', sl', r)) /\
    ( (syntax_errno (is_devsel slk) l = r /\ c' = ck)
      \/ (r = EPortInUse /\ syntax_errno (is_devsel slk) l = 0%Z /\ is_devsel slk = true /\ bind_line l /\
          c_peers c' = c_peers ck /\ c_priv c' = c_priv ck /\ c_pub c' = c_pub ck) ).
Proof.
  induction ls as [|l t IH]; intros c sl c' r H Hr.
  - cbn in H. inversion H; subst. congruence.
  - assert (Hnb : is_blank l = false).
    { destruct l; try reflexivity. cbn in H. inversion H; subst. congruence. }
    assert (Hloop : set_loop e c sl (l :: t) =
                    let '(c1, sl1, r1) := apply_line e c sl l in
                    if (r1 =? 0)%Z then set_loop e c1 sl1 t else (c1, r1)).
    { destruct l; try reflexivity. discriminate. }
    rewrite Hloop in H. clear Hloop.
    destruct (apply_line e c sl l) as [[c1 sl1] r1] eqn:Ha.
    destruct (Z.eqb_spec r1 0) as [E|E].
    + subst r1. destruct (IH _ _ _ _ H Hr) as (k & l' & ck & slk & Hn & Hs & Hd & Hap & Hc).
      exists (S k), l', ck, slk. cbn [nth_error firstn steps]. rewrite Hnb, Ha. cbn [Z.eqb].
      repeat split; auto.
      destruct (apply_line_cases _ _ _ _ _ _ _ Ha) as [(_ & _ & Hsel)|[(Hne & _)|(Hp & _)]];
        [|congruence|exfalso; revert Hp; apply not_eq_sym, EPortInUse_nz].
      rewrite Hd, Hsel. unfold devsec. cbn [existsb]. rewrite negb_orb.
      rewrite andb_assoc. reflexivity.
    + inversion H; subst c' r. clear H.
      exists 0%nat, l, c, sl. cbn [nth_error firstn steps]. unfold devsec. cbn [existsb negb].
      rewrite andb_true_r. repeat split; eauto.
      destruct (apply_line_cases _ _ _ _ _ _ _ Ha) as [(Hz & _)|[(_ & Hs & Hc)|(Hp & Hs & Hd & Hb & F)]];
        [congruence|left; auto|right; auto].
Qed.

Lemma steps_no_blank e : forall a c sl r, steps e c sl a = Some r ->
  forallb (fun x => negb (is_blank x)) a = true.
Proof.
  induction a as [|l a IH]; intros c sl r H; cbn [steps forallb] in *; [reflexivity|].
  destruct (is_blank l); [discriminate|]. cbn [negb andb].
  destruct (apply_line e c sl l) as [[c2 sl2] r2]. destruct (r2 =? 0)%Z; [eauto|discriminate].
Qed.

(* A failing set: some line k is reached with every earlier line applied
   (that configuration is what a set of just those k lines produces), the
   line is invalid for the section it stands in, the code is the one of that
   kind of invalidity, and nothing else happened -- or the line is a valid
   listen_port/fwmark on which the bind failed. *)
Theorem error_prefix_semantics e c ls c' r :
  ipc_set e c ls = (c', r) -> r <> 0%Z ->
  exists k l ck,
    nth_error ls k = Some l /\
    ipc_set e c (firstn k ls) = (ck, 0%Z) /\
    forallb (fun x => negb (is_blank x)) (firstn k ls) = true /\
    let dev := negb (existsb is_pk_line (firstn k ls)) in
    ( (syntax_errno dev l = r /\ c' = ck)
      \/ (r = EPortInUse /\ syntax_errno dev l = 0%Z /\ dev = true /\ bind_line l /\
          c_peers c' = c_peers ck /\ c_priv c' = c_priv ck /\ c_pub c' = c_pub ck) ).
Proof.
  unfold ipc_set. intros H Hr.
  destruct (set_loop_error _ _ _ _ _ _ H Hr) as (k & l & ck & slk & Hn & Hs & Hd & _ & Hc).
  exists k, l, ck. unfold devsec in Hd. cbn [is_devsel andb] in Hd.
  split; [exact Hn|]. split; [eapply steps_set_loop; exact Hs|].
  split; [eapply steps_no_blank; exact Hs|].
  cbn zeta. rewrite <- Hd. exact Hc.
Qed.

(* a successful set went through all its lines up to the end or a blank line *)
Theorem set_sequence_composition e (ops1 ops2 : list op) :
  final (step e) fresh (ops1 ++ ops2) = final (step e) (final (step e) fresh ops1) ops2 /\
  outs (step e) fresh (ops1 ++ ops2) = outs (step e) fresh ops1 ++ outs (step e) (final (step e) fresh ops1) ops2.
Proof. split; [apply final_app|apply outs_app]. Qed.

(* ------------------------------------------------------------------ *)
(* Part 3: invariants of every reachable configuration                 *)
(* ------------------------------------------------------------------ *)

Definition masked (q : prefix) : Prop := mask q = q.
Definition keys (ps : list peer) : list N := map pr_key ps.

Definition peer_ok (p : peer) : Prop :=
  pr_key p < keymax /\ pr_psk p < keymax /\ pr_ka p < 2 ^ 16 /\
  Forall masked (pr_ips p) /\ NoDup (pr_ips p).

(* a prefix is listed by the peers of one key only *)
Definition own1 (ps : list peer) : Prop :=
  forall p1 p2 q, In p1 ps -> In p2 ps -> In q (pr_ips p1) -> In q (pr_ips p2) -> pr_key p1 = pr_key p2.

Record PI (pub : N) (ps : list peer) : Prop := {
  pi_keys : NoDup (keys ps);
  pi_self : ~ In pub (keys ps);
  pi_own : own1 ps;
  pi_ok : Forall peer_ok ps }.

Record good (e : env) (c : cfg) : Prop := {
  g_priv : c_priv c = 0 \/ (c_priv c < keymax /\ clamp (c_priv c) = c_priv c /\ c_pub c = pk e (c_priv c));
  g_port : c_port c < 2 ^ 16;
  g_mark : c_fwmark c < 2 ^ 32;
  g_pi : PI (c_pub c) (c_peers c) }.

Lemma peqb_eq a b : peqb a b = true <-> a = b.
Proof.
  unfold peqb. destruct a as [v a n], b as [v' a' n']; cbn. split.
  - intros H. apply andb_prop in H. destruct H as [H H3]. apply andb_prop in H. destruct H as [H1 H2].
    apply eqb_prop in H1. apply N.eqb_eq in H2, H3. subst. reflexivity.
  - intros H; inversion H; subst. rewrite eqb_reflx, !N.eqb_refl. reflexivity.
Qed.

Lemma mask_idem q : mask (mask q) = mask q.
Proof.
  unfold mask. cbn [p_v6 p_addr p_bits]. f_equal.
  rewrite N.shiftr_shiftl_l by lia. rewrite N.sub_diag, N.shiftl_0_r. reflexivity.
Qed.

Lemma has_peer_In k ps : has_peer k ps = true <-> In k (keys ps).
Proof.
  unfold has_peer, keys. rewrite existsb_exists, in_map_iff. split.
  - intros (p & Hp & E). apply N.eqb_eq in E. eauto.
  - intros (p & E & Hp). exists p. split; [exact Hp|]. apply N.eqb_eq. exact E.
Qed.

Lemma has_peer_false k ps : has_peer k ps = false <-> ~ In k (keys ps).
Proof. rewrite <- has_peer_In. destruct (has_peer k ps); split; congruence. Qed.

Lemma In_drop q x l : In x (drop_prefix q l) <-> In x l /\ x <> q.
Proof.
  unfold drop_prefix. rewrite filter_In. split; intros [A B]; split; auto.
  - intros E. subst. rewrite (proj2 (peqb_eq q q) eq_refl) in B. discriminate.
  - destruct (peqb x q) eqn:E; [apply peqb_eq in E; contradiction|reflexivity].
Qed.

Lemma drop_notin q l : ~ In q l -> drop_prefix q l = l.
Proof.
  induction l as [|x l IH]; intros H; [reflexivity|]. cbn [drop_prefix filter].
  destruct (peqb x q) eqn:E.
  - apply peqb_eq in E. subst. exfalso. apply H. left; reflexivity.
  - cbn [negb]. f_equal. apply IH. intros A. apply H. right; exact A.
Qed.

Lemma NoDup_filter' {T} (f : T -> bool) l : NoDup l -> NoDup (filter f l).
Proof.
  induction 1 as [|x l Hx Hl IH]; cbn; [constructor|].
  destruct (f x); [constructor; [rewrite filter_In; tauto|exact IH]|exact IH].
Qed.

Lemma NoDup_snoc {T} (l : list T) x : NoDup l -> ~ In x l -> NoDup (l ++ [x]).
Proof.
  induction 1 as [|y l Hy Hl IH]; intros Hx; cbn.
  - constructor; [intros []|constructor].
  - constructor.
    + rewrite in_app_iff. cbn. intros [A|[A|[]]]; [contradiction|subst; apply Hx; left; reflexivity].
    + apply IH. intros A. apply Hx. right; exact A.
Qed.

Lemma PI_nil pub : PI pub [].
Proof. split; cbn; [constructor|tauto|intros ? ? ? []|constructor]. Qed.

Lemma keys_filter g ps k : In k (keys (filter g ps)) -> In k (keys ps).
Proof.
  unfold keys. rewrite !in_map_iff. intros (p & E & H). apply filter_In in H. exists p; tauto.
Qed.

Lemma NoDup_keys_filter g ps : NoDup (keys ps) -> NoDup (keys (filter g ps)).
Proof.
  induction ps as [|p ps IH]; cbn; intros H; [constructor|].
  inversion H; subst. destruct (g p); cbn; [constructor|]; auto.
  intros A. apply keys_filter in A. contradiction.
Qed.

Lemma PI_filter pub ps g : PI pub ps -> PI pub (filter g ps).
Proof.
  intros [K S O F]. split.
  - apply NoDup_keys_filter; exact K.
  - intros A. apply keys_filter in A. contradiction.
  - intros p1 p2 q H1 H2. apply filter_In in H1, H2. apply O; tauto.
  - rewrite Forall_forall in *. intros p H. apply filter_In in H. apply F; tauto.
Qed.

Lemma PI_remove_pub pub pub' ps : PI pub ps -> PI pub' (remove_peer pub' ps).
Proof.
  intros H. destruct (PI_filter pub ps (fun p => negb (pr_key p =? pub')) H) as [K S O F].
  split; auto. unfold remove_peer, keys. rewrite in_map_iff. intros (p & E & Hp).
  apply filter_In in Hp. destruct Hp as [_ Hp]. rewrite E, N.eqb_refl in Hp. discriminate.
Qed.

Lemma PI_map pub ps (F : peer -> peer) :
  (forall p, pr_key (F p) = pr_key p) ->
  (forall p x, In x (pr_ips (F p)) -> In x (pr_ips p)) ->
  (forall p, In p ps -> peer_ok p -> peer_ok (F p)) ->
  PI pub ps -> PI pub (map F ps).
Proof.
  intros Hk Hi Hok [K S O Fo].
  assert (Ek : keys (map F ps) = keys ps).
  { unfold keys. rewrite map_map. apply map_ext. exact Hk. }
  split.
  - rewrite Ek; exact K.
  - rewrite Ek; exact S.
  - intros p1 p2 q H1 H2 I1 I2. apply in_map_iff in H1, H2.
    destruct H1 as (a & <- & Ha), H2 as (b & <- & Hb). rewrite !Hk. eapply O; eauto.
  - rewrite Forall_forall in *. intros p H. apply in_map_iff in H. destruct H as (a & <- & Ha). auto.
Qed.

Lemma PI_update pub ps k f :
  (forall p, pr_key (f p) = pr_key p) ->
  (forall p x, In x (pr_ips (f p)) -> In x (pr_ips p)) ->
  (forall p, peer_ok p -> peer_ok (f p)) ->
  PI pub ps -> PI pub (update_peer k f ps).
Proof.
  intros Hk Hi Hok. unfold update_peer. apply PI_map.
  - intros p. destruct (pr_key p =? k); auto.
  - intros p x. destruct (pr_key p =? k); auto.
  - intros p _ H. destruct (pr_key p =? k); auto.
Qed.

Lemma PI_snoc pub ps k :
  PI pub ps -> k <> pub -> ~ In k (keys ps) -> k < keymax -> PI pub (ps ++ [new_peer k]).
Proof.
  intros [K S O F] Hp Hn Hb. split.
  - unfold keys. rewrite map_app. cbn. apply NoDup_snoc; assumption.
  - unfold keys. rewrite map_app, in_app_iff. cbn. intros [A|[A|[]]]; [contradiction|congruence].
  - intros p1 p2 q H1 H2 I1 I2. apply in_app_iff in H1, H2.
    destruct H1 as [H1|[<-|[]]]; [|destruct I1].
    destruct H2 as [H2|[<-|[]]]; [|destruct I2]. eapply O; eauto.
  - apply Forall_app. split; [exact F|]. constructor; [|constructor].
    unfold peer_ok, new_peer; cbn. repeat split; try constructor; try assumption; vm_compute; reflexivity.
Qed.

Lemma PI_insert pub ps k q : PI pub ps -> PI pub (ips_insert k q ps).
Proof.
  intros [K S O F]. unfold ips_insert. set (m := mask q).
  set (G := fun p => with_ips (if pr_key p =? k then drop_prefix m (pr_ips p) ++ [m] else drop_prefix m (pr_ips p)) p).
  assert (Ek : keys (map G ps) = keys ps).
  { unfold keys. rewrite map_map. apply map_ext. reflexivity. }
  assert (Hin : forall p x, In x (pr_ips (G p)) <-> (In x (pr_ips p) /\ x <> m) \/ (x = m /\ pr_key p = k)).
  { intros p x. unfold G. cbn [pr_ips with_ips]. destruct (N.eqb_spec (pr_key p) k) as [E|E].
    - rewrite in_app_iff, In_drop. cbn. intuition.
    - rewrite In_drop. intuition. }
  split.
  - rewrite Ek; exact K.
  - rewrite Ek; exact S.
  - intros p1 p2 x H1 H2 I1 I2. apply in_map_iff in H1, H2.
    destruct H1 as (a & <- & Ha), H2 as (b & <- & Hb).
    apply Hin in I1, I2. change (pr_key (G a)) with (pr_key a). change (pr_key (G b)) with (pr_key b).
    destruct I1 as [[I1 N1]|[E1 K1]], I2 as [[I2 N2]|[E2 K2]]; try congruence.
    eapply O; eauto.
  - rewrite Forall_forall in *. intros p H. apply in_map_iff in H. destruct H as (a & <- & Ha).
    destruct (F a Ha) as (B1 & B2 & B3 & B4 & B5).
    assert (Hd : NoDup (drop_prefix m (pr_ips a))) by (apply NoDup_filter'; exact B5).
    assert (Hm : Forall masked (drop_prefix m (pr_ips a))).
    { rewrite Forall_forall in *. intros x Hx. apply In_drop in Hx. apply B4; tauto. }
    unfold peer_ok, G. cbn [pr_key pr_psk pr_ka pr_ips with_ips]. repeat split; try assumption.
    + destruct (pr_key a =? k); [|exact Hm]. apply Forall_app. split; [exact Hm|].
      constructor; [apply mask_idem|constructor].
    + destruct (pr_key a =? k); [|exact Hd]. apply NoDup_snoc; [exact Hd|].
      rewrite In_drop. tauto.
Qed.

Lemma ok_with_psk v p : v < keymax -> peer_ok p -> peer_ok (with_psk v p).
Proof. unfold peer_ok; cbn; tauto. Qed.
Lemma ok_with_ep v p : peer_ok p -> peer_ok (with_ep v p).
Proof. unfold peer_ok; cbn; tauto. Qed.
Lemma ok_with_ka v p : v < 2 ^ 16 -> peer_ok p -> peer_ok (with_ka v p).
Proof. unfold peer_ok; cbn; tauto. Qed.
Lemma ok_with_nil p : peer_ok p -> peer_ok (with_ips [] p).
Proof. unfold peer_ok; cbn. intuition; constructor. Qed.
Lemma ok_with_drop q p : peer_ok p -> peer_ok (with_ips (drop_prefix q (pr_ips p)) p).
Proof.
  unfold peer_ok; cbn. intros (A & B & C & D & E). repeat split; auto.
  - rewrite Forall_forall in *. intros x Hx. apply In_drop in Hx. apply D; tauto.
  - apply NoDup_filter'; exact E.
Qed.

Lemma PI_on_peer c sl f pub :
  (forall p, pr_key (f p) = pr_key p) ->
  (forall p x, In x (pr_ips (f p)) -> In x (pr_ips p)) ->
  (forall p, peer_ok p -> peer_ok (f p)) ->
  PI pub (c_peers c) -> PI pub (c_peers (on_peer c sl f)).
Proof.
  intros. destruct sl; cbn; auto. apply PI_update; auto.
Qed.

Definition env_ok (e : env) : Prop := auto_port e < 2 ^ 16.

Lemma good_set_peers e c ps : good e c -> PI (c_pub c) ps -> good e (set_peers c ps).
Proof. intros [A B C D] H. split; cbn; assumption. Qed.

Lemma set_private_key_good e c sk :
  good e c -> (sk = 0 \/ (sk < keymax /\ clamp sk = sk)) -> good e (set_private_key e c sk).
Proof.
  intros G H. unfold set_private_key. destruct (sk =? c_priv c); [exact G|].
  destruct G as [A B C D]. split; cbn; try assumption.
  - destruct H as [H|[H1 H2]]; [left; exact H|right; auto].
  - eapply PI_remove_pub; exact D.
Qed.

Lemma parse_private_ok s sk : parse_private s = Some sk -> sk = 0 \/ (sk < keymax /\ clamp sk = sk).
Proof.
  unfold parse_private. destruct (parse_key s) as [v|]; [|discriminate].
  intros H; inversion H; subst. destruct (v =? 0); [left; reflexivity|right].
  split; [apply clamp_bound|apply clamp_idem].
Qed.

Lemma bind_update_good e c : env_ok e -> good e c -> good e (fst (bind_update e c)).
Proof.
  intros He [A B C D]. unfold bind_update. destruct (negb (c_up c)); [split; assumption|].
  destruct (memN (c_port c) (busy e)).
  - split; cbn; try assumption. vm_compute; reflexivity.
  - assert (G1 : good e (set_port c (if c_port c =? 0 then auto_port e else c_port c))).
    { split; cbn; try assumption. destruct (c_port c =? 0); assumption. }
    match goal with |- context [if ?b then _ else _] => destruct b end; exact G1.
Qed.

Lemma bind_set_mark_good e c m : m < 2 ^ 32 -> good e c -> good e (fst (bind_set_mark e c m)).
Proof.
  intros Hm [A B C D]. unfold bind_set_mark. destruct (c_fwmark c =? m); [split; assumption|].
  assert (G1 : good e (set_fwmark c m)) by (split; cbn; assumption).
  destruct (c_up c && memN m (badmarks e)); exact G1.
Qed.

Lemma apply_device_line_good e c k s c1 r :
  env_ok e -> apply_device_line e c k s = (c1, r) -> good e c -> good e c1.
Proof.
  intros He H G. unfold apply_device_line in H. destruct k; try (inversion H; subst; exact G).
  - destruct (parse_private s) as [sk|] eqn:E; inversion H; subst; [|exact G].
    apply set_private_key_good; [exact G|eapply parse_private_ok; exact E].
  - destruct (parse_uint 16 s) as [p|] eqn:E; [|inversion H; subst; exact G].
    apply parse_uint_bound in E.
    assert (G1 : good e (set_port c p)) by (destruct G; split; cbn; assumption).
    pose proof (bind_update_good e _ He G1) as G2.
    destruct (bind_update e (set_port c p)) as [c2 ok]. inversion H; subst. exact G2.
  - destruct (parse_uint 32 s) as [m|] eqn:E; [|inversion H; subst; exact G].
    apply parse_uint_bound in E.
    pose proof (bind_set_mark_good e c m E G) as G2.
    destruct (bind_set_mark e c m) as [c2 ok]. inversion H; subst. exact G2.
  - destruct (is_true s); inversion H; subst; [|exact G].
    apply good_set_peers; [exact G|apply PI_nil].
Qed.

Lemma apply_public_key_good e c s c1 sl1 r :
  apply_public_key c s = (c1, sl1, r) -> good e c -> good e c1.
Proof.
  unfold apply_public_key. intros H G.
  destruct (parse_key s) as [k|] eqn:E; [|inversion H; subst; exact G].
  destruct (N.eqb_spec (c_pub c) k) as [Ep|Ep]; [inversion H; subst; exact G|].
  destruct (has_peer k (c_peers c)) eqn:Eh; inversion H; subst; [exact G|].
  apply good_set_peers; [exact G|]. apply PI_snoc.
  - destruct G; assumption.
  - congruence.
  - apply has_peer_false; exact Eh.
  - eapply parse_key_bound; exact E.
Qed.

Lemma apply_peer_line_good e c sl l c1 sl1 r :
  apply_peer_line c sl l = (c1, sl1, r) -> good e c -> good e c1.
Proof.
  intros H G. pose proof (g_pi _ _ G) as P.
  unfold apply_peer_line in H.
  destruct l as [ | | |k s|[ep|]|neg [q|]]; try (injection H as <- _ _; exact G).
  - destruct k; try (injection H as <- _ _; exact G).
    + destruct (is_true s); [|injection H as <- _ _; exact G].
      destruct sl as [|k0 [|]|]; injection H as <- _ _; try exact G.
      apply good_set_peers; [exact G|apply PI_filter; exact P].
    + destruct (is_true s); [|injection H as <- _ _; exact G].
      destruct sl as [|k0 cr|]; injection H as <- _ _; try exact G.
      apply good_set_peers; [exact G|apply PI_filter; exact P].
    + destruct (parse_key s) as [v|] eqn:E; injection H as <- _ _; [|exact G].
      apply parse_key_bound in E.
      destruct sl; try exact G. apply good_set_peers; [exact G|].
      apply PI_update; auto. intros; apply ok_with_psk; assumption.
    + destruct (parse_uint 16 s) as [v|] eqn:E; injection H as <- _ _; [|exact G].
      apply parse_uint_bound in E.
      destruct sl; try exact G. apply good_set_peers; [exact G|].
      apply PI_update; auto. intros; apply ok_with_ka; assumption.
    + destruct (is_true s); injection H as <- _ _; [|exact G].
      destruct sl; try exact G. apply good_set_peers; [exact G|].
      apply PI_update; auto; [intros p x []|apply ok_with_nil].
    + destruct (is_one s); injection H as <- _ _; exact G.
  - injection H as <- _ _. destruct sl; try exact G. apply good_set_peers; [exact G|].
    apply PI_update; auto; try apply ok_with_ep.
  - destruct sl as [|k0 cr|]; injection H as <- _ _; try exact G.
    apply good_set_peers; [exact G|]. destruct neg.
    + unfold ips_remove. apply PI_update; auto.
      * intros p x Hx. cbn in Hx. apply In_drop in Hx. tauto.
      * intros p. apply ok_with_drop.
    + apply PI_insert; exact P.
Qed.

Lemma apply_line_good e c sl l c1 sl1 r :
  env_ok e -> apply_line e c sl l = (c1, sl1, r) -> good e c -> good e c1.
Proof.
  intros He H G. unfold apply_line in H.
  destruct l as [ | | |k s|ep|neg q]; try (inversion H; subst; exact G).
  - destruct k;
      try (eapply apply_public_key_good; eassumption);
      (destruct sl;
       [ destruct (apply_device_line e c _ s) as [c2 r2] eqn:E; inversion H; subst;
         eapply apply_device_line_good; eassumption
       | eapply apply_peer_line_good; eassumption
       | eapply apply_peer_line_good; eassumption ]).
  - destruct sl; [inversion H; subst; exact G| |]; eapply apply_peer_line_good; eassumption.
  - destruct sl; [inversion H; subst; exact G| |]; eapply apply_peer_line_good; eassumption.
Qed.

Lemma set_loop_good e : env_ok e -> forall ls c sl, good e c -> good e (fst (set_loop e c sl ls)).
Proof.
  intros He. induction ls as [|l t IH]; intros c sl G; [exact G|].
  assert (Hloop : is_blank l = false -> set_loop e c sl (l :: t) =
                    let '(c1, sl1, r1) := apply_line e c sl l in
                    if (r1 =? 0)%Z then set_loop e c1 sl1 t else (c1, r1)).
  { destruct l; try reflexivity. discriminate. }
  destruct (is_blank l) eqn:Eb.
  - destruct l; try discriminate. exact G.
  - rewrite (Hloop eq_refl). destruct (apply_line e c sl l) as [[c1 sl1] r1] eqn:Ea.
    pose proof (apply_line_good _ _ _ _ _ _ _ He Ea G) as G1.
    destruct (r1 =? 0)%Z; [apply IH; exact G1|exact G1].
Qed.

Lemma fresh_good e : good e fresh.
Proof. split; cbn; [left; reflexivity|vm_compute; reflexivity|vm_compute; reflexivity|apply PI_nil]. Qed.

Lemma step_good e c o : env_ok e -> good e c -> good e (fst (step e c o)).
Proof.
  intros He G. destruct o as [ls| | | |]; cbn [step]; try exact G.
  - apply set_loop_good; assumption.
  - unfold dev_up. destruct (c_up c); [exact G|].
    assert (G1 : good e (set_up c true)) by (destruct G; split; cbn; assumption).
    pose proof (bind_update_good e _ He G1) as G2.
    destruct (bind_update e (set_up c true)) as [c2 ok]. cbn [fst] in G2.
    destruct ok; cbn [fst]; [exact G2|]. destruct G2; split; cbn; assumption.
  - cbn. destruct G; split; cbn; assumption.
Qed.

Definition reachable (e : env) (c : cfg) : Prop := exists ops, c = final (step e) fresh ops.

Lemma reachable_good e c : env_ok e -> reachable e c -> good e c.
Proof.
  intros He [ops ->]. apply final_inv; [|apply fresh_good].
  intros s o G. apply step_good; assumption.
Qed.

(* without the bounds: the part of the invariant that needs no assumption on the bind *)
Theorem self_key_never_a_peer e c :
  env_ok e -> reachable e c -> has_peer (c_pub c) (c_peers c) = false.
Proof.
  intros He R. apply has_peer_false. destruct (reachable_good e c He R) as [_ _ _ [_ S _ _]]. exact S.
Qed.

Theorem prefix_has_one_owner e c p1 p2 q :
  env_ok e -> reachable e c ->
  In p1 (c_peers c) -> In p2 (c_peers c) -> In q (pr_ips p1) -> In q (pr_ips p2) -> p1 = p2.
Proof.
  intros He R H1 H2 I1 I2. destruct (reachable_good e c He R) as [_ _ _ [K _ O _]].
  pose proof (O _ _ _ H1 H2 I1 I2) as Ek.
  clear - K H1 H2 Ek. induction (c_peers c) as [|x l IH]; [destruct H1|].
  cbn in K. inversion K; subst. destruct H1 as [<-|H1], H2 as [<-|H2]; auto.
  - exfalso. apply H3. unfold keys in *. rewrite Ek. apply in_map; exact H2.
  - exfalso. apply H3. unfold keys in *. rewrite <- Ek. apply in_map; exact H1.
Qed.

Theorem peer_prefixes_distinct_and_masked e c p :
  env_ok e -> reachable e c -> In p (c_peers c) -> NoDup (pr_ips p) /\ Forall masked (pr_ips p).
Proof.
  intros He R H. destruct (reachable_good e c He R) as [_ _ _ [_ _ _ F]].
  rewrite Forall_forall in F. destruct (F p H) as (_ & _ & _ & A & B). auto.
Qed.

(* private_key onto a peer's key drops that peer (and, being a peer removal,
   its prefixes), leaves every other peer as it was *)
Theorem private_key_change_drops_colliding_peer e c s sk :
  parse_private s = Some sk -> sk <> c_priv c ->
  let c' := fst (ipc_set e c [LText KPrivateKey s]) in
  c_priv c' = sk /\ c_pub c' = pk e sk /\
  has_peer (pk e sk) (c_peers c') = false /\
  c_peers c' = filter (fun p => negb (pr_key p =? pk e sk)) (c_peers c).
Proof.
  intros Hp Hne. unfold ipc_set. cbn [set_loop apply_line apply_device_line]. rewrite Hp.
  cbn [Z.eqb fst]. unfold set_private_key. destruct (N.eqb_spec sk (c_priv c)); [contradiction|].
  cbn. repeat split; try reflexivity.
  apply has_peer_false. unfold remove_peer, keys. rewrite in_map_iff. intros (p & E & H).
  apply filter_In in H. destruct H as [_ H]. rewrite E, N.eqb_refl in H. discriminate.
Qed.

(* ------------------------------------------------------------------ *)
(* Part 4: get / set roundtrip                                         *)
(* ------------------------------------------------------------------ *)

Lemma steps_cons e c sl l t c1 sl1 :
  is_blank l = false -> apply_line e c sl l = (c1, sl1, 0%Z) ->
  steps e c sl (l :: t) = steps e c1 sl1 t.
Proof. intros Hb Ha. cbn [steps]. rewrite Hb, Ha. reflexivity. Qed.

Lemma with_ips_eta p : with_ips (pr_ips p) p = p.
Proof. destruct p; reflexivity. Qed.

Lemma update_peer_notin k f ps : ~ In k (keys ps) -> update_peer k f ps = ps.
Proof.
  induction ps as [|p ps IH]; intros H; [reflexivity|]. cbn [update_peer map].
  destruct (N.eqb_spec (pr_key p) k) as [E|E].
  - exfalso. apply H. left. exact E.
  - f_equal. apply IH. intros A. apply H. right. exact A.
Qed.

Lemma update_peer_last k f ps x :
  ~ In k (keys ps) -> pr_key x = k -> update_peer k f (ps ++ [x]) = ps ++ [f x].
Proof.
  intros H E. unfold update_peer. rewrite map_app. fold (update_peer k f ps).
  rewrite update_peer_notin by exact H. cbn [map]. rewrite E, N.eqb_refl. reflexivity.
Qed.

Lemma ips_insert_last k q ps x :
  ~ In k (keys ps) -> pr_key x = k -> masked q ->
  (forall d, In d ps -> ~ In q (pr_ips d)) -> ~ In q (pr_ips x) ->
  ips_insert k q (ps ++ [x]) = ps ++ [with_ips (pr_ips x ++ [q]) x].
Proof.
  intros Hk E Hm Hd Hx. unfold ips_insert. rewrite Hm, map_app. f_equal.
  - rewrite <- (map_id ps) at 2. apply map_ext_in. intros d Hin.
    destruct (N.eqb_spec (pr_key d) k) as [Ed|Ed].
    + exfalso. apply Hk. unfold keys. rewrite <- Ed. apply in_map. exact Hin.
    + rewrite drop_notin by (apply Hd; exact Hin). apply with_ips_eta.
  - cbn [map]. rewrite E, N.eqb_refl. rewrite drop_notin by exact Hx. reflexivity.
Qed.

Definition same_dev (a b : cfg) : Prop :=
  c_priv a = c_priv b /\ c_pub a = c_pub b /\ c_port a = c_port b /\ c_fwmark a = c_fwmark b /\ c_up a = c_up b.

Lemma same_dev_refl a : same_dev a a. Proof. unfold same_dev; auto. Qed.
Lemma same_dev_set_peers a ps : same_dev a (set_peers a ps). Proof. unfold same_dev; cbn; auto. Qed.
Lemma same_dev_trans a b c : same_dev a b -> same_dev b c -> same_dev a c.
Proof. unfold same_dev; intuition congruence. Qed.

(* the allowed_ip lines of one peer, replayed onto the peer just created *)
Lemma replay_ips e k cr : forall l c done x,
  c_peers c = done ++ [x] -> ~ In k (keys done) -> pr_key x = k ->
  Forall masked l -> NoDup (pr_ips x ++ l) ->
  (forall q d, In q l -> In d done -> ~ In q (pr_ips d)) ->
  exists c2, steps e c (SPeer k cr) (map (fun q => LAllowedIp false (Some q)) l) = Some (c2, SPeer k cr) /\
             same_dev c c2 /\ c_peers c2 = done ++ [with_ips (pr_ips x ++ l) x].
Proof.
  induction l as [|q l IH]; intros c done x Hc Hk Ex Hm Hn Hd.
  - exists c. cbn [map steps]. rewrite app_nil_r, with_ips_eta. auto using same_dev_refl.
  - cbn [map]. inversion Hm as [|? ? Hq Hm']; subst.
    assert (Hqx : ~ In q (pr_ips x)).
    { intros A. apply NoDup_remove_2 in Hn. apply Hn. rewrite in_app_iff. left; exact A. }
    assert (Ha : apply_line e c (SPeer (pr_key x) cr) (LAllowedIp false (Some q)) =
                 (set_peers c (done ++ [with_ips (pr_ips x ++ [q]) x]), SPeer (pr_key x) cr, 0%Z)).
    { cbn [apply_line apply_peer_line]. rewrite Hc.
      rewrite ips_insert_last; auto. intros d Hin. apply Hd; [left; reflexivity|exact Hin]. }
    erewrite steps_cons; [|reflexivity|exact Ha].
    destruct (IH (set_peers c (done ++ [with_ips (pr_ips x ++ [q]) x])) done (with_ips (pr_ips x ++ [q]) x))
      as (c2 & Hs & Hsd & Hp); auto.
    + cbn [pr_ips with_ips]. rewrite <- app_assoc. exact Hn.
    + intros q' d Hq' Hin. apply Hd; [right; exact Hq'|exact Hin].
    + exists c2. cbn [pr_key with_ips] in Hs. split; [exact Hs|]. split.
      * eapply same_dev_trans; [apply same_dev_set_peers|exact Hsd].
      * rewrite Hp. cbn [pr_ips with_ips]. rewrite <- app_assoc. destruct x; reflexivity.
Qed.

Lemma is_one_49 : is_one [49] = true. Proof. reflexivity. Qed.

(* one peer section of a get, replayed *)
Lemma replay_peer e c sl p :
  pr_key p <> c_pub c -> ~ In (pr_key p) (keys (c_peers c)) -> peer_ok p ->
  (forall q d, In q (pr_ips p) -> In d (c_peers c) -> ~ In q (pr_ips d)) ->
  exists c2 sl2, steps e c sl (render_peer p) = Some (c2, sl2) /\
                 same_dev c c2 /\ c_peers c2 = c_peers c ++ [p].
Proof.
  intros Hpub Hk (B1 & B2 & B3 & B4 & B5) Hd.
  set (k := pr_key p). set (done := c_peers c).
  unfold render_peer.
  (* public_key *)
  assert (H1 : apply_line e c sl (LText KPublicKey (hex64 k)) =
               (set_peers c (done ++ [new_peer k]), SPeer k true, 0%Z)).
  { cbn [apply_line]. unfold apply_public_key. rewrite parse_key_hex64 by exact B1.
    destruct (N.eqb_spec (c_pub c) k) as [E|E]; [exfalso; apply Hpub; symmetry; exact E|].
    rewrite (proj2 (has_peer_false k (c_peers c)) Hk). reflexivity. }
  cbn [app]. erewrite steps_cons; [|reflexivity|exact H1].
  (* preshared_key *)
  set (c1 := set_peers c (done ++ [new_peer k])).
  assert (H2 : apply_line e c1 (SPeer k true) (LText KPresharedKey (hex64 (pr_psk p))) =
               (set_peers c (done ++ [with_psk (pr_psk p) (new_peer k)]), SPeer k true, 0%Z)).
  { cbn [apply_line apply_peer_line]. rewrite parse_key_hex64 by exact B2.
    cbn [on_peer c1 c_peers set_peers]. rewrite update_peer_last; auto. }
  erewrite steps_cons; [|reflexivity|exact H2].
  (* protocol_version *)
  set (x2 := with_psk (pr_psk p) (new_peer k)).
  assert (H3 : apply_line e (set_peers c (done ++ [x2])) (SPeer k true) (LText KProtocolVersion [49]) =
               (set_peers c (done ++ [x2]), SPeer k true, 0%Z)).
  { reflexivity. }
  erewrite steps_cons; [|reflexivity|exact H3].
  (* endpoint (optional) and keepalive *)
  set (x3 := match pr_ep p with Some ep => with_ep ep x2 | None => x2 end).
  assert (H45 : exists c5,
             steps e (set_peers c (done ++ [x2])) (SPeer k true)
                   ((match pr_ep p with Some ep => [LEndpoint (Some ep)] | None => [] end) ++
                    LText KKeepalive (dec (pr_ka p)) ::
                    map (fun q => LAllowedIp false (Some q)) (pr_ips p))
             = steps e c5 (SPeer k true) (map (fun q => LAllowedIp false (Some q)) (pr_ips p)) /\
             c5 = set_peers c (done ++ [with_ka (pr_ka p) x3])).
  { eexists. split; [|reflexivity].
    assert (Hka : forall y, pr_key y = k ->
              apply_line e (set_peers c (done ++ [y])) (SPeer k true) (LText KKeepalive (dec (pr_ka p))) =
              (set_peers c (done ++ [with_ka (pr_ka p) y]), SPeer k true, 0%Z)).
    { intros y Ey. cbn [apply_line apply_peer_line]. rewrite parse_u16_dec by exact B3.
      cbn [on_peer c_peers set_peers]. rewrite update_peer_last; auto. }
    unfold x3. destruct (pr_ep p) as [ep|]; cbn [app].
    - assert (Hep : apply_line e (set_peers c (done ++ [x2])) (SPeer k true) (LEndpoint (Some ep)) =
                    (set_peers c (done ++ [with_ep ep x2]), SPeer k true, 0%Z)).
      { cbn [apply_line apply_peer_line on_peer c_peers set_peers]. rewrite update_peer_last; auto. }
      erewrite steps_cons; [|reflexivity|exact Hep].
      erewrite steps_cons; [|reflexivity|apply Hka; reflexivity]. reflexivity.
    - erewrite steps_cons; [|reflexivity|apply Hka; reflexivity]. reflexivity. }
  destruct H45 as (c5 & Hs5 & Ec5). rewrite Hs5.
  (* allowed_ip lines *)
  set (x5 := with_ka (pr_ka p) x3) in *.
  assert (Ex5 : pr_key x5 = k) by (unfold x5, x3; destruct (pr_ep p); reflexivity).
  assert (Ix5 : pr_ips x5 = []) by (unfold x5, x3; destruct (pr_ep p); reflexivity).
  destruct (replay_ips e k true (pr_ips p) c5 done x5) as (c6 & Hs6 & Hsd & Hp); auto.
  - subst c5. reflexivity.
  - rewrite Ix5. exact B5.
  - exists c6, (SPeer k true). split; [exact Hs6|]. split.
    + eapply same_dev_trans; [|exact Hsd]. subst c5. apply same_dev_set_peers.
    + rewrite Hp, Ix5. cbn [app]. f_equal. f_equal.
      unfold x5, x3, x2, k. destruct p as [pk0 psk0 [ep0|] ka0 ips0]; reflexivity.
Qed.

Lemma replay_peers e : forall rest c sl,
  NoDup (keys (c_peers c ++ rest)) -> ~ In (c_pub c) (keys rest) ->
  Forall peer_ok rest -> own1 (c_peers c ++ rest) ->
  exists c2 sl2, steps e c sl (flat_map render_peer rest) = Some (c2, sl2) /\
                 same_dev c c2 /\ c_peers c2 = c_peers c ++ rest.
Proof.
  induction rest as [|p rest IH]; intros c sl Hn Hpub Hok Ho.
  - exists c, sl. cbn. rewrite app_nil_r. auto using same_dev_refl.
  - cbn [flat_map]. rewrite steps_app.
    inversion Hok as [|? ? Hp Hok']; subst.
    assert (Hkp : ~ In (pr_key p) (keys (c_peers c))).
    { unfold keys in Hn. rewrite map_app in Hn. cbn [map] in Hn. apply NoDup_remove_2 in Hn.
      intros A. apply Hn. rewrite in_app_iff. left. exact A. }
    destruct (replay_peer e c sl p) as (c2 & sl2 & Hs & Hsd & Hp2); auto.
    + intros E. apply Hpub. left. exact E.
    + intros q d Hq Hd Hqd. apply Hkp.
      assert (E : pr_key d = pr_key p).
      { apply (Ho d p q); auto; rewrite in_app_iff; [left; exact Hd|right; left; reflexivity]. }
      rewrite <- E. unfold keys. apply in_map. exact Hd.
    + rewrite Hs. destruct Hsd as (S1 & S2 & S3 & S4 & S5).
      destruct (IH c2 sl2) as (c3 & sl3 & Hs3 & Hsd3 & Hp3).
      * rewrite Hp2, <- app_assoc. exact Hn.
      * rewrite <- S2. intros A. apply Hpub. right. exact A.
      * exact Hok'.
      * rewrite Hp2, <- app_assoc. exact Ho.
      * exists c3, sl3. split; [exact Hs3|]. split.
        -- eapply same_dev_trans; [|exact Hsd3]. unfold same_dev; auto.
        -- rewrite Hp3, Hp2, <- app_assoc. reflexivity.
Qed.

Lemma dev_priv e sk :
  sk <> 0 -> sk < keymax -> clamp sk = sk ->
  apply_line e fresh SDev (LText KPrivateKey (hex64 sk)) =
  ({| c_priv := sk; c_pub := pk e sk; c_port := 0; c_fwmark := 0; c_up := false; c_peers := [] |}, SDev, 0%Z).
Proof.
  intros H0 Hb Hc. cbn [apply_line apply_device_line]. unfold parse_private.
  rewrite parse_key_hex64 by exact Hb.
  destruct (N.eqb_spec sk 0) as [E|E]; [contradiction|]. rewrite Hc.
  unfold set_private_key. cbn [c_priv fresh]. destruct (N.eqb_spec sk 0); [contradiction|]. reflexivity.
Qed.

Lemma dev_port e c0 p :
  c_up c0 = false -> p < 2 ^ 16 ->
  apply_line e c0 SDev (LText KListenPort (dec p)) = (set_port c0 p, SDev, 0%Z).
Proof.
  intros Hu Hp. cbn [apply_line apply_device_line]. rewrite parse_u16_dec by exact Hp.
  unfold bind_update. cbn [c_up set_port]. rewrite Hu. reflexivity.
Qed.

Lemma dev_mark e c0 m :
  c_up c0 = false -> c_fwmark c0 = 0 -> m <> 0 -> m < 2 ^ 32 ->
  apply_line e c0 SDev (LText KFwmark (dec m)) = (set_fwmark c0 m, SDev, 0%Z).
Proof.
  intros Hu Hf Hm Hb. cbn [apply_line apply_device_line]. rewrite parse_u32_dec by exact Hb.
  unfold bind_set_mark. rewrite Hf, Hu. destruct (N.eqb_spec 0 m); [congruence|]. reflexivity.
Qed.

Definition device_lines (c : cfg) : list line :=
  (if c_priv c =? 0 then [] else [LText KPrivateKey (hex64 (c_priv c))]) ++
  (if c_port c =? 0 then [] else [LText KListenPort (dec (c_port c))]) ++
  (if c_fwmark c =? 0 then [] else [LText KFwmark (dec (c_fwmark c))]).

Lemma replay_device e c :
  good e c ->
  exists c1, steps e fresh SDev (device_lines c) = Some (c1, SDev) /\
             c_priv c1 = c_priv c /\ c_port c1 = c_port c /\ c_fwmark c1 = c_fwmark c /\
             c_peers c1 = [] /\ c_up c1 = false /\
             c_pub c1 = (if c_priv c =? 0 then 0 else pk e (c_priv c)).
Proof.
  intros [Gp Gport Gmark _]. unfold device_lines.
  (* private key *)
  assert (A : exists c1, steps e fresh SDev (if c_priv c =? 0 then [] else [LText KPrivateKey (hex64 (c_priv c))])
                         = Some (c1, SDev) /\ c_priv c1 = c_priv c /\ c_port c1 = 0 /\ c_fwmark c1 = 0 /\
                         c_peers c1 = [] /\ c_up c1 = false /\
                         c_pub c1 = (if c_priv c =? 0 then 0 else pk e (c_priv c))).
  { destruct (N.eqb_spec (c_priv c) 0) as [E|E].
    - exists fresh. cbn. rewrite E. repeat split; reflexivity.
    - destruct Gp as [Gp|(G1 & G2 & G3)]; [contradiction|].
      eexists. erewrite steps_cons; [|reflexivity|apply dev_priv; assumption].
      cbn. repeat split; reflexivity. }
  destruct A as (c1 & S1 & P1 & O1 & F1 & L1 & U1 & B1).
  rewrite steps_app, S1.
  assert (B : exists c2, steps e c1 SDev (if c_port c =? 0 then [] else [LText KListenPort (dec (c_port c))])
                         = Some (c2, SDev) /\ c_priv c2 = c_priv c /\ c_port c2 = c_port c /\ c_fwmark c2 = 0 /\
                         c_peers c2 = [] /\ c_up c2 = false /\ c_pub c2 = c_pub c1).
  { destruct (N.eqb_spec (c_port c) 0) as [E|E].
    - exists c1. cbn. rewrite E. repeat split; assumption || reflexivity.
    - exists (set_port c1 (c_port c)). erewrite steps_cons; [|reflexivity|apply dev_port; assumption].
      cbn. repeat split; assumption || reflexivity. }
  destruct B as (c2 & S2 & P2 & O2 & F2 & L2 & U2 & B2).
  rewrite steps_app, S2.
  destruct (N.eqb_spec (c_fwmark c) 0) as [E|E].
  - exists c2. cbn. rewrite E, B2. repeat split; assumption || reflexivity.
  - exists (set_fwmark c2 (c_fwmark c)). erewrite steps_cons; [|reflexivity|apply dev_mark; assumption].
    cbn. rewrite B2. repeat split; assumption || reflexivity.
Qed.

(* The roundtrip, for every reachable configuration except the ones of the
   shape refuted below (no private key AND a peer with the all-zero key). *)
Theorem get_set_roundtrip_partial e c :
  env_ok e -> reachable e c ->
  (c_priv c = 0 -> has_peer 0 (c_peers c) = false) ->
  exists c', ipc_set e fresh (ipc_get c) = (c', 0%Z) /\
             c_priv c' = c_priv c /\ c_port c' = c_port c /\ c_fwmark c' = c_fwmark c /\
             c_peers c' = c_peers c /\ mview c' = mview c.
Proof.
  intros He R Hz. pose proof (reachable_good e c He R) as G.
  destruct (replay_device e c G) as (c1 & S1 & P1 & O1 & F1 & L1 & U1 & B1).
  destruct G as [Gp _ _ [K S O F]].
  destruct (replay_peers e (c_peers c) c1 SDev) as (c2 & sl2 & S2 & (D1 & D2 & D3 & D4 & D5) & Hp).
  - rewrite L1. exact K.
  - rewrite B1. destruct (N.eqb_spec (c_priv c) 0) as [E|E].
    + apply has_peer_false. apply Hz. exact E.
    + destruct Gp as [Gp|(_ & _ & Gp)]; [contradiction|]. rewrite <- Gp. exact S.
  - exact F.
  - rewrite L1. exact O.
  - exists c2. unfold ipc_set, ipc_get. fold (device_lines c).
    assert (Hst : steps e fresh SDev (device_lines c ++ flat_map render_peer (c_peers c)) = Some (c2, sl2)).
    { rewrite steps_app, S1. exact S2. }
    unfold device_lines in Hst. rewrite <- !app_assoc in Hst.
    rewrite (steps_set_loop _ _ _ _ _ _ Hst).
    rewrite L1 in Hp. cbn [app] in Hp.
    assert (E1 : c_priv c2 = c_priv c) by congruence.
    assert (E2 : c_port c2 = c_port c) by congruence.
    assert (E3 : c_fwmark c2 = c_fwmark c) by congruence.
    repeat split; auto. unfold mview. rewrite E1, E2, E3, Hp. reflexivity.
Qed.

(* The unconditional roundtrip statement of the property text ... *)
Definition get_set_roundtrip_statement : Prop :=
  forall e c, env_ok e -> reachable e c ->
  exists c', ipc_set e fresh (ipc_get c) = (c', 0%Z) /\ mview c' = mview c.

(* ... is refuted by the faithful model: set a private key, clear it again
   (the device now answers to the public key of the zero scalar), add a peer
   with the all-zero public key.  get shows that peer; a fresh device, which
   never had a key and so treats the all-zero key as its own, ignores it. *)
Definition refute_env : env := {| pk := fun x => x + 7; auto_port := 40000; busy := []; badmarks := [] |}.
Definition refute_ops : list op :=
  [OSet [LText KPrivateKey (hex64 (clamp 1))];
   OSet [LText KPrivateKey (hex64 0)];
   OSet [LText KPublicKey (hex64 0); LAllowedIp false (Some {| p_v6 := false; p_addr := 167772160; p_bits := 8 |})]].

Theorem get_set_roundtrip_refuted : ~ get_set_roundtrip_statement.
Proof.
  intros H.
  destruct (H refute_env (final (step refute_env) fresh refute_ops)) as (c' & E & V).
  - vm_compute. reflexivity.
  - exists refute_ops. reflexivity.
  - vm_compute in E. inversion E; subst. vm_compute in V. discriminate.
Qed.

(* Model and specification agree: proved in Uapi/Refine.v (model_refines_spec). *)
Definition model_refines_spec_statement : Prop :=
  forall e ops,
    outs (step e) fresh ops = outs (sem_step e) afresh ops /\
    mview (final (step e) fresh ops) = view (final (sem_step e) afresh ops).

(* ------------------------------------------------------------------ *)
(* The roundtrip under exactly the guard that excludes the finding     *)
(* ------------------------------------------------------------------ *)

(* the device has a private key, or no peer has the all-zero public key *)
Definition roundtrip_guard (c : cfg) : bool :=
  negb (c_priv c =? 0) || negb (has_peer 0 (c_peers c)).

(* what a get shows, un-canonicalised: peers in order, each with its prefixes in order *)
Definition config_of (c : cfg) : N * N * N * list peer := (c_priv c, c_port c, c_fwmark c, c_peers c).

(* the get output of c replayed as one set on a fresh (down) device *)
Definition replay (e : env) (c : cfg) : cfg * Z := ipc_set e fresh (ipc_get c).

Theorem get_set_roundtrip_guarded e c :
  env_ok e -> reachable e c -> roundtrip_guard c = true ->
  snd (replay e c) = 0%Z /\ config_of (fst (replay e c)) = config_of c.
Proof.
  intros He R Hg.
  destruct (get_set_roundtrip_partial e c He R) as (c' & E & E1 & E2 & E3 & E4 & _).
  - intros Hz. unfold roundtrip_guard in Hg. rewrite Hz in Hg. cbn in Hg.
    destruct (has_peer 0 (c_peers c)); [discriminate|reflexivity].
  - unfold replay. rewrite E. cbn [fst snd]. split; [reflexivity|].
    unfold config_of. rewrite E1, E2, E3, E4. reflexivity.
Qed.

(* The guard is exact: where it fails the replay loses the zero-key peer. *)
Definition is_privkey_line (l : line) : bool := match l with LText KPrivateKey _ => true | _ => false end.

Lemma apply_line_pub e c sl l c1 sl1 r :
  is_privkey_line l = false -> apply_line e c sl l = (c1, sl1, r) -> c_pub c1 = c_pub c.
Proof.
  intros Hn H. unfold apply_line in H.
  destruct l as [ | | |k s|ep|neg q]; try (injection H as <- _ _; reflexivity).
  - destruct k; try discriminate.
    + (* listen_port *) destruct sl; [|cbn in H; injection H as <- _ _; reflexivity..].
      cbn [apply_device_line] in H. destruct (parse_uint 16 s) as [p|]; [|injection H as <- _ _; reflexivity].
      pose proof (bind_update_fields e (set_port c p)) as (_ & _ & F & _).
      destruct (bind_update e (set_port c p)) as [c2 ok]. injection H as <- _ _. exact F.
    + (* fwmark *) destruct sl; [|cbn in H; injection H as <- _ _; reflexivity..].
      cbn [apply_device_line] in H. destruct (parse_uint 32 s) as [m|]; [|injection H as <- _ _; reflexivity].
      pose proof (bind_set_mark_fields e c m) as (_ & _ & F & _).
      destruct (bind_set_mark e c m) as [c2 ok]. injection H as <- _ _. exact F.
    + (* replace_peers *) destruct sl; cbn in H; try (injection H as <- _ _; reflexivity).
      destruct (is_true s); injection H as <- _ _; reflexivity.
    + (* public_key *) unfold apply_public_key in H.
      destruct (parse_key s) as [k|]; [|injection H as <- _ _; reflexivity].
      destruct (c_pub c =? k); [injection H as <- _ _; reflexivity|].
      destruct (has_peer k (c_peers c)); injection H as <- _ _; reflexivity.
    + destruct sl as [|k0 [|]|]; cbn in H; try (injection H as <- _ _; reflexivity);
        destruct (is_true s); injection H as <- _ _; reflexivity.
    + destruct sl as [|k0 cr|]; cbn in H; try (injection H as <- _ _; reflexivity);
        destruct (is_true s); injection H as <- _ _; reflexivity.
    + destruct sl as [|k0 cr|]; cbn in H; try (injection H as <- _ _; reflexivity);
        destruct (parse_key s); injection H as <- _ _; reflexivity.
    + destruct sl as [|k0 cr|]; cbn in H; try (injection H as <- _ _; reflexivity);
        destruct (parse_uint 16 s); injection H as <- _ _; reflexivity.
    + destruct sl as [|k0 cr|]; cbn in H; try (injection H as <- _ _; reflexivity);
        destruct (is_true s); injection H as <- _ _; reflexivity.
    + destruct sl as [|k0 cr|]; cbn in H; try (injection H as <- _ _; reflexivity);
        destruct (is_one s); injection H as <- _ _; reflexivity.
    + destruct sl as [|k0 cr|]; cbn in H; injection H as <- _ _; reflexivity.
  - destruct sl as [|k0 cr|], ep; cbn in H; injection H as <- _ _; reflexivity.
  - destruct sl as [|k0 cr|], q; cbn in H; injection H as <- _ _; reflexivity.
Qed.

Lemma set_loop_pub e : forall ls c sl,
  forallb (fun l => negb (is_privkey_line l)) ls = true ->
  c_pub (fst (set_loop e c sl ls)) = c_pub c.
Proof.
  induction ls as [|l t IH]; intros c sl H; [reflexivity|].
  cbn [forallb] in H. apply andb_prop in H. destruct H as [Hl Ht].
  destruct (is_blank l) eqn:Eb; [destruct l; try discriminate; reflexivity|].
  assert (Hloop : set_loop e c sl (l :: t) =
                  let '(c1, sl1, r1) := apply_line e c sl l in
                  if (r1 =? 0)%Z then set_loop e c1 sl1 t else (c1, r1)).
  { destruct l; try reflexivity. discriminate. }
  rewrite Hloop. destruct (apply_line e c sl l) as [[c1 sl1] r1] eqn:Ea.
  assert (Hp : c_pub c1 = c_pub c).
  { eapply apply_line_pub; [|exact Ea]. destruct (is_privkey_line l); [discriminate|reflexivity]. }
  destruct (r1 =? 0)%Z; [rewrite IH by exact Ht; exact Hp|exact Hp].
Qed.

Lemma render_peer_no_privkey p : forallb (fun l => negb (is_privkey_line l)) (render_peer p) = true.
Proof.
  unfold render_peer. rewrite !forallb_app. cbn. destruct (pr_ep p); cbn;
    induction (pr_ips p) as [|q l IH]; cbn; auto.
Qed.

Lemma render_peers_no_privkey ps :
  forallb (fun l => negb (is_privkey_line l)) (flat_map render_peer ps) = true.
Proof.
  induction ps as [|p ps IH]; [reflexivity|]. cbn [flat_map].
  rewrite forallb_app, render_peer_no_privkey, IH. reflexivity.
Qed.

Lemma ipc_get_no_privkey c :
  c_priv c = 0 -> forallb (fun l => negb (is_privkey_line l)) (ipc_get c) = true.
Proof.
  intros Hp. unfold ipc_get. rewrite Hp. cbn [N.eqb app].
  rewrite !forallb_app, render_peers_no_privkey.
  destruct (c_port c =? 0), (c_fwmark c =? 0); reflexivity.
Qed.

Theorem get_set_roundtrip_guard_exact e c :
  env_ok e -> reachable e c -> roundtrip_guard c = false ->
  has_peer 0 (c_peers c) = true /\ has_peer 0 (c_peers (fst (replay e c))) = false /\
  config_of (fst (replay e c)) <> config_of c.
Proof.
  intros He R Hg. unfold roundtrip_guard in Hg. apply orb_false_elim in Hg. destruct Hg as [Hp Hz].
  apply negb_false_iff in Hp, Hz. apply N.eqb_eq in Hp.
  assert (Hpub : c_pub (fst (replay e c)) = 0).
  { unfold replay, ipc_set. rewrite set_loop_pub; [reflexivity|apply ipc_get_no_privkey; exact Hp]. }
  assert (Hr : has_peer 0 (c_peers (fst (replay e c))) = false).
  { rewrite <- Hpub at 1. apply (self_key_never_a_peer e); [exact He|].
    exists [OSet (ipc_get c)]. unfold final, replay. cbn [run step]. destruct (ipc_set e fresh (ipc_get c)); reflexivity. }
  repeat split; auto. intros E. unfold config_of in E. injection E as _ _ _ E. rewrite E in Hr. congruence.
Qed.
