(* Correspondence checker for C09: run mirror model and specification on the
   operation sequences the real device ran; compare errno and the observable
   configuration after EVERY operation.
     kind 1 = implementation differs from the mirror model
     kind 2 = the specification (the property) fails on the observed behaviour
     position = 10 * operation index + what
        what 0 = errno, 1 = configuration shown by get,
             2 = roundtrip (get text replayed as a set on a fresh real device
                 shows a different configuration / a non-zero errno)
   Depends on Model and Spec only. *)
From Coq Require Import Uint63.
From WG Require Import Base.Prelude Base.Ints Gen.Constants Uapi.Model Uapi.Spec.
Local Open Scope N_scope.

(* ----- glue: compact constructors used by the generated case files ----- *)

Definition bytes_val (l : list N) : N := fold_left (fun a b => a * 256 + b) l 0.
(* a 32-byte key packed 7 bytes per literal *)
Definition K (l : list int) : N := bytes_val (unpack 32%uint63 l).

Definition key_of (x : int) : key :=
  match n_of_int x with
  | 0 => KPrivateKey | 1 => KListenPort | 2 => KFwmark | 3 => KReplacePeers
  | 4 => KPublicKey | 5 => KUpdateOnly | 6 => KRemove | 7 => KPresharedKey
  | 8 => KKeepalive | 9 => KReplaceAllowedIps | 10 => KProtocolVersion
  | _ => KOther
  end.

Definition T (k : int) (len : int) (l : list int) : line := LText (key_of k) (unpack len l).
Definition EP (id : int) : line := LEndpoint (Some (n_of_int id)).
Definition EPbad : line := LEndpoint None.
Definition mkpfx (v6 : bool) (l : list int) (bits : int) : prefix :=
  {| p_v6 := v6; p_addr := bytes_val (unpack (if v6 then 16 else 4)%uint63 l); p_bits := n_of_int bits |}.
Definition AIP (neg v6 : bool) (l : list int) (bits : int) : line := LAllowedIp neg (Some (mkpfx v6 l bits)).
Definition AIPbad (neg : bool) : line := LAllowedIp neg None.

Definition nokey : N := 2 ^ 256.     (* not a key: what [pk] answers outside the supplied table *)
Fixpoint lookup (t : list (N * N)) (x : N) : N :=
  match t with
  | [] => nokey
  | (a, b) :: r => if a =? x then b else lookup r x
  end.
Definition mkenv (tbl : list (list int * list int)) (auto : int) (bsy bad : list int) : env :=
  {| pk := lookup (map (fun p => (K (fst p), K (snd p))) tbl);
     auto_port := n_of_int auto; busy := ns_of_ints bsy; badmarks := ns_of_ints bad |}.

(* observed peer / configuration (the harness sorts peers by key and prefixes
   by (family, address, length)) *)
Definition P (k psk : list int) (ep : option int) (ka : int) (ips : list prefix) : peer :=
  {| pr_key := K k; pr_psk := K psk; pr_ep := option_map n_of_int ep; pr_ka := n_of_int ka; pr_ips := ips |}.
Definition V (priv : list int) (port mark : int) (ps : list peer) : view_t :=
  (K priv, n_of_int port, n_of_int mark, ps).

Record obs := { o_errno : Z; o_get : view_t; o_rt : option (Z * view_t) }.
(* errno arrives as the non-negative literal of its negation *)
Definition Ob (negerr : int) (g : view_t) : obs :=
  {| o_errno := Z.opp (Z.of_N (n_of_int negerr)); o_get := g; o_rt := None |}.
Definition Obr (negerr : int) (g : view_t) (rterr : int) (rt : view_t) : obs :=
  {| o_errno := Z.opp (Z.of_N (n_of_int negerr)); o_get := g;
     o_rt := Some (Z.opp (Z.of_N (n_of_int rterr)), rt) |}.

Record case := { k_env : env; k_ops : list op; k_obs : list obs }.
Definition mk (e : env) (ops : list op) (ob : list obs) : case :=
  {| k_env := e; k_ops := ops; k_obs := ob |}.

(* ----- checking ----- *)

Fixpoint walk_model (e : env) (c : cfg) (ops : list op) (ob : list obs) (i : N) : list (N * N) :=
  match ops, ob with
  | o :: ops', b :: ob' =>
      let '(c1, r) := step e c o in
      if negb (r =? o_errno b)%Z then [(1, 10 * i)]
      else if negb (view_eqb (mview c1) (o_get b)) then [(1, 10 * i + 1)]
      else walk_model e c1 ops' ob' (i + 1)
  | [], [] => []
  | _, _ => [(1, 10 * i + 9)]
  end.

Definition rt_ok (b : obs) : bool :=
  match o_rt b with
  | None => true
  | Some (r, v) => (r =? 0)%Z && view_eqb v (o_get b)
  end.

Fixpoint walk_spec (e : env) (a : acfg) (ops : list op) (ob : list obs) (i : N) : list (N * N) :=
  match ops, ob with
  | o :: ops', b :: ob' =>
      let '(a1, r) := sem_step e a o in
      if negb (r =? o_errno b)%Z then [(2, 10 * i)]
      else if negb (view_eqb (view a1) (o_get b)) then [(2, 10 * i + 1)]
      else (if rt_ok b then [] else [(2, 10 * i + 2)]) ++ walk_spec e a1 ops' ob' (i + 1)
  | [], [] => []
  | _, _ => [(2, 10 * i + 9)]
  end.

Definition check_case (k : case) : list (N * N) :=
  walk_model (k_env k) fresh (k_ops k) (k_obs k) 0 ++
  walk_spec (k_env k) afresh (k_ops k) (k_obs k) 0.

Fixpoint check_cases (ks : list case) (idx : N) : list (N * N * N) :=
  match ks with
  | [] => []
  | k :: ks' => map (fun p => (idx, fst p, snd p)) (check_case k) ++ check_cases ks' (idx + 1)
  end.

(* ----- branch statistics (over the model run) -----
   0 set ok            1 set EINVAL          2 set EPROTO        3 set EADDRINUSE
   4 set EIO           5 up/down ops         6 blank line ends the operation
   7 section for the device's own key       8 line validated against a placeholder peer
   9 prefix taken from another peer         10 '-' removal removed a prefix
   11 '-' removal without effect            12 update_only removed the peer just created
   13 remove=true removed a peer            14 private-key change dropped a peer
   15 replace_peers dropped peers           16 peer created
   17 replace_allowed_ips dropped prefixes  18 roundtrips compared
   19 gets whose output could not be delivered (failing writer / client hang-up) *)
Definition nstats : nat := 20.

Fixpoint bump (l : list N) (i : nat) : list N :=
  match l, i with
  | [], _ => []
  | x :: t, O => (x + 1) :: t
  | x :: t, S j => x :: bump t j
  end.

Definition owner_elsewhere (k : N) (q : prefix) (ps : list peer) : bool :=
  existsb (fun p => negb (pr_key p =? k) && existsb (fun x => peqb x q) (pr_ips p)) ps.
Definition owns (k : N) (q : prefix) (ps : list peer) : bool :=
  existsb (fun p => (pr_key p =? k) && existsb (fun x => peqb x q) (pr_ips p)) ps.
Definition has_ips (k : N) (ps : list peer) : bool :=
  existsb (fun p => (pr_key p =? k) && negb (Nat.eqb (length (pr_ips p)) 0)) ps.

Definition line_events (e : env) (c : cfg) (sl : sel) (l : line) (r : Z) : list nat :=
  if negb (r =? 0)%Z then [] else
  match l with
  | LText KPublicKey s =>
      match parse_key s with
      | Some k => if c_pub c =? k then [7%nat] else if has_peer k (c_peers c) then [] else [16%nat]
      | None => []
      end
  | _ =>
    match sl with
    | SDev =>
        match l with
        | LText KPrivateKey s =>
            match parse_private s with
            | Some sk => if negb (sk =? c_priv c) && has_peer (pk e sk) (c_peers c) then [14%nat] else []
            | None => []
            end
        | LText KReplacePeers _ => match c_peers c with [] => [] | _ => [15%nat] end
        | _ => []
        end
    | SDummy => [8%nat]
    | SPeer k created =>
        match l with
        | LText KUpdateOnly _ => if created then [12%nat] else []
        | LText KRemove _ => [13%nat]
        | LText KReplaceAllowedIps _ => if has_ips k (c_peers c) then [17%nat] else []
        | LAllowedIp false (Some q) => if owner_elsewhere k (mask q) (c_peers c) then [9%nat] else []
        | LAllowedIp true (Some q) => if owns k (mask q) (c_peers c) then [10%nat] else [11%nat]
        | _ => []
        end
    end
  end.

Fixpoint stats_set (e : env) (c : cfg) (sl : sel) (ls : list line) (st : list N) : list N :=
  match ls with
  | [] => st
  | Blank :: _ => bump st 6
  | l :: t =>
      let '(c1, sl1, r) := apply_line e c sl l in
      let st1 := fold_left bump (line_events e c sl l r) st in
      if (r =? 0)%Z then stats_set e c1 sl1 t st1 else st1
  end.

Definition errno_slot (r : Z) : nat :=
  if (r =? 0)%Z then 0%nat
  else if (r =? EInvalid)%Z then 1%nat
  else if (r =? EProtocol)%Z then 2%nat
  else if (r =? EPortInUse)%Z then 3%nat
  else 4%nat.

Fixpoint stats_ops (e : env) (c : cfg) (ops : list op) (st : list N) : list N :=
  match ops with
  | [] => st
  | o :: ops' =>
      let '(c1, r) := step e c o in
      let st1 := match o with
                 | OSet ls => stats_set e c SDev ls (bump st (errno_slot r))
                 | OGetFail | OHangup => bump st 19
                 | _ => bump st 5
                 end in
      stats_ops e c1 ops' st1
  end.

Definition stats (ks : list case) : list N :=
  fold_left (fun st k =>
               let st1 := stats_ops (k_env k) fresh (k_ops k) st in
               fold_left (fun s b => match o_rt b with Some _ => bump s 18 | None => s end) (k_obs k) st1)
            ks (repeat 0 nstats).
