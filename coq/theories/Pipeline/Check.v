(* Trace checker for C12.  kind 2 = the specification fails on the observed
   trace (position = lane number; inbound lanes are numbered from 100, lanes of a removed peer from 200 / 300).
   kind 1 = the counters on an outbound lane differ from what the sequential
   numbering loop of C04 (Nonce.Seq.number) gives for the TUN-read order
   (single flusher). *)
From Coq Require Import Uint63.
From WG Require Import Base.Prelude Base.Ints Gen.Constants Nonce.Seq Pipeline.Spec.
Local Open Scope N_scope.

Record case := { c_tr : trace; c_n0 : list N }.      (* c_n0: send counter of each outbound lane at the start *)

(* ---- constructors for generated files: runs of consecutive numbers *)
Fixpoint nrun (c : N) (n : nat) : list N :=
  match n with O => [] | S k => c :: nrun (c + 1) k end.
(* [a1; n1; a2; n2; ...] = n1 consecutive numbers from a1, then n2 from a2, ... *)
Fixpoint nruns (l : list int) : list N :=
  match l with
  | a :: n :: t => nrun (n_of_int a) (N.to_nat (n_of_int n)) ++ nruns t
  | _ => []
  end.
(* [c1; s1; n1; ...] = n1 datagrams with counters c1.. and sequence numbers s1.. *)
Fixpoint prun (c s : N) (n : nat) : list (N * N) :=
  match n with O => [] | S k => (c, s) :: prun (c + 1) (s + 1) k end.
Fixpoint pruns (l : list int) : list (N * N) :=
  match l with
  | c :: s :: n :: t => prun (n_of_int c) (n_of_int s) (N.to_nat (n_of_int n)) ++ pruns t
  | _ => []
  end.
Definition ol (read sent : list int) (bad : int) : olane :=
  {| o_read := nruns read; o_sent := pruns sent; o_bad := n_of_int bad |}.
Definition il (arr wr : list int) (bad : int) : ilane :=
  {| i_arr := nruns arr; i_wr := nruns wr; i_bad := n_of_int bad |}.
Definition mk (outs : list olane) (ins : list ilane) (quiet : bool) (n0 : list int)
              (outp : list olane) (inp : list ilane) (outm outu : list olane) : case :=
  {| c_tr := {| t_out := outs; t_in := ins; t_quiet := quiet; t_outp := outp; t_inp := inp; t_outm := outm; t_outu := outu |};
     c_n0 := ns_of_ints n0 |}.

Fixpoint eqlp (a b : list (N * N)) : bool :=
  match a, b with
  | [], [] => true
  | (x, y) :: a', (u, v) :: b' => (x =? u) && (y =? v) && eqlp a' b'
  | _, _ => false
  end.

(* the counters the numbering loop gives to the packets in TUN-read order *)
Definition numbered (n0 : N) (l : olane) : bool :=
  let '(a, h, _) := number n0 (o_read l) in
  match h with
  | [] => eqlp (map (fun p => (snd p, fst p)) a) (o_sent l)
  | _ => false
  end.

Fixpoint idx_fails {A} (f : A -> bool) (l : list A) (i : N) : list N :=
  match l with
  | [] => []
  | x :: t => (if f x then [] else [i]) ++ idx_fails f t (i + 1)
  end.

Fixpoint numbered_fails (ls : list olane) (n0s : list N) (i : N) : list N :=
  match ls, n0s with
  | l :: ls', n0 :: n0s' => (if numbered n0 l then [] else [i]) ++ numbered_fails ls' n0s' (i + 1)
  | _, _ => []
  end.

Definition check_case (k : case) : list (N * N) :=
  let t := c_tr k in
  (if t_quiet t then map (fun i => (1, i)) (numbered_fails (t_out t) (c_n0 k) 0) else []) ++
  map (fun i => (2, i)) (idx_fails (olane_ok (t_quiet t)) (t_out t) 0) ++
  map (fun i => (2, i)) (idx_fails (ilane_ok (t_quiet t)) (t_in t) 100) ++
  map (fun i => (2, i)) (idx_fails (olane_ok false) (t_outp t) 200) ++
  map (fun i => (2, i)) (idx_fails (ilane_ok false) (t_inp t) 300) ++
  map (fun i => (2, i)) (idx_fails (mlane_ok (t_quiet t)) (t_outm t) 400) ++
  map (fun i => (2, i)) (idx_fails (mlane_ok false) (t_outu t) 500).

Fixpoint check_cases (ks : list case) (idx : N) : list (N * N * N) :=
  match ks with
  | [] => []
  | k :: ks' => map (fun p => (idx, fst p, snd p)) (check_case k) ++ check_cases ks' (idx + 1)
  end.

(* [runs; outbound lanes; inbound lanes; outbound datagrams; inbound packets written; quiescent runs] *)
Definition stats (ks : list case) : list N :=
  fold_left (fun st k =>
    let t := c_tr k in
    match st with
    | [a; b; c; d; e; f] =>
        [a + 1; b + N.of_nat (length (t_out t)); c + N.of_nat (length (t_in t));
         d + fold_left (fun x l => x + N.of_nat (length (o_sent l))) (t_out t) 0;
         e + fold_left (fun x l => x + N.of_nat (length (i_wr l))) (t_in t) 0;
         f + (if t_quiet t then 1 else 0)]
    | _ => st
    end) ks [0;0;0;0;0;0].
