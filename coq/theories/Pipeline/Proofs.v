(* C12: invariants of the lock hand-off pipeline and the theorems for ALL
   schedules (any number of peers and workers, any container sizes). *)
From WG Require Import Base.Prelude Pipeline.Model.

Definition heldl (l : lane) : list nat := match held l with Some id => [id] | None => [] end.

Section Proofs.
  Variable P W : nat.
  Variable size : nat -> nat -> nat.

  Notation step := (step P W size).
  Notation run := (run P W size).

  (* P1  emitted ++ held ++ fifo = [0..k)                      (per peer)
     P2  a container is unlocked (Fin) only after a worker has processed all
         its elements, and only unlocked containers are ever emitted
     P3  every published container is in exactly one of Pend/Work/Busy/Fin
         (status is a function), Unpub exactly for the numbers >= k, and the
         Busy ones are exactly those held by the workers *)
  Record Inv (s : st) : Prop := {
    I1 : forall p, emitted (lanes s p) ++ heldl (lanes s p) ++ fifo (lanes s p) = seq 0 (k (lanes s p));
    I2 : forall p id, status s p id = Unpub <-> k (lanes s p) <= id;
    I3a : forall p id, status s p id = Busy -> exists w, w < W /\ wk s w = Some (p, id);
    I3b : forall w p id, wk s w = Some (p, id) -> status s p id = Busy;
    I3c : forall w w' c, wk s w = Some c -> wk s w' = Some c -> w = w';
    I4 : forall p id, status s p id = Fin -> proc s p id = size p id;
    I5 : forall p id, In id (emitted (lanes s p)) -> status s p id = Fin;
    I6 : forall p id, proc s p id <= size p id
  }.

  Lemma cstate_eqb_eq a b : cstate_eqb a b = true <-> a = b.
  Proof. destruct a, b; cbn; split; intros; congruence. Qed.

  Lemma upd1_same {A} (f : nat -> A) i v : upd1 f i v i = v.
  Proof. unfold upd1. now rewrite Nat.eqb_refl. Qed.
  Lemma upd1_other {A} (f : nat -> A) i v j : j <> i -> upd1 f i v j = f j.
  Proof. intros H. unfold upd1. destruct (Nat.eqb_spec j i); congruence. Qed.
  Lemma upd2_same {A} (f : nat -> nat -> A) i j v : upd2 f i j v i j = v.
  Proof. unfold upd2. now rewrite !Nat.eqb_refl. Qed.
  Lemma upd2_other {A} (f : nat -> nat -> A) i j v a b : (a <> i \/ b <> j) -> upd2 f i j v a b = f a b.
  Proof.
    intros H. unfold upd2. destruct (Nat.eqb_spec a i), (Nat.eqb_spec b j); cbn [andb]; try reflexivity.
    subst. destruct H; congruence.
  Qed.

  Lemma pair_dec (a b i j : nat) : (a = i /\ b = j) \/ (a <> i \/ b <> j).
  Proof. destruct (Nat.eq_dec a i), (Nat.eq_dec b j); auto. Qed.

  Lemma inv_init : Inv (init).
  Proof.
    constructor; unfold init; cbn [lanes status proc wk k fifo held emitted heldl]; intros.
    - reflexivity.
    - split; intros; [lia|reflexivity].
    - discriminate.
    - discriminate.
    - discriminate.
    - discriminate.
    - destruct H.
    - lia.
  Qed.

  Lemma in_seq0 (l1 l2 : list nat) n x : l1 ++ l2 = seq 0 n -> In x l2 -> x < n.
  Proof.
    intros E Hin. assert (H : In x (seq 0 n)) by (rewrite <- E; apply in_or_app; auto).
    apply in_seq in H. lia.
  Qed.

  Theorem step_inv s a s' : Inv s -> step s a = Some s' -> Inv s'.
  Proof.
    intros HI H. destruct HI as [H1 H2 H3a H3b H3c H4 H5 H6].
    destruct a as [p|p id|w p id|w|w|p|p]; cbn [Model.step] in H.
    - (* Enq1 *)
      destruct (Nat.ltb_spec p P) as [Hp|]; [|discriminate]. inversion H; subst; clear H.
      constructor; cbn [lanes status proc wk]; intros.
      + destruct (Nat.eq_dec p0 p) as [->|Ne].
        * rewrite upd1_same. cbn [emitted held fifo k heldl]. unfold heldl in *. specialize (H1 p).
          rewrite seq_S. cbn [plus]. rewrite <- H1, <- !app_assoc. reflexivity.
        * rewrite upd1_other by exact Ne. apply H1.
      + destruct (pair_dec p0 id p (k (lanes s p))) as [[-> ->]|Hd].
        * rewrite upd2_same, upd1_same. cbn [k]. split; [discriminate|lia].
        * rewrite upd2_other by exact Hd. destruct (Nat.eq_dec p0 p) as [->|Ne].
          -- rewrite upd1_same. cbn [k]. rewrite H2. destruct Hd as [Hd|Hd]; [congruence|]. lia.
          -- rewrite upd1_other by exact Ne. apply H2.
      + destruct (pair_dec p0 id p (k (lanes s p))) as [[-> ->]|Hd].
        * rewrite upd2_same in H. discriminate.
        * rewrite upd2_other in H by exact Hd. apply H3a. exact H.
      + destruct (pair_dec p0 id p (k (lanes s p))) as [[-> ->]|Hd].
        * apply H3b in H. assert (Hu : status s p (k (lanes s p)) = Unpub) by (apply H2; lia). congruence.
        * rewrite upd2_other by exact Hd. eapply H3b; eauto.
      + eapply H3c; eauto.
      + destruct (pair_dec p0 id p (k (lanes s p))) as [[-> ->]|Hd].
        * rewrite upd2_same in H. discriminate.
        * rewrite upd2_other in H by exact Hd. apply H4. exact H.
      + destruct (Nat.eq_dec p0 p) as [->|Ne].
        * rewrite upd1_same in H. cbn [emitted] in H.
          assert (Hlt : id < k (lanes s p)).
          { specialize (H1 p). assert (Hin : In id (seq 0 (k (lanes s p)))) by (rewrite <- H1; apply in_or_app; auto).
            apply in_seq in Hin. lia. }
          rewrite upd2_other by (right; lia). apply H5. exact H.
        * rewrite upd1_other in H by exact Ne. rewrite upd2_other by (left; exact Ne). apply H5. exact H.
      + apply H6.
    - (* Enq2 *)
      destruct (Nat.ltb_spec p P) as [Hp|]; cbn [andb] in H; [|discriminate].
      destruct (cstate_eqb (status s p id) Pend) eqn:Ec; [|discriminate]. apply cstate_eqb_eq in Ec.
      inversion H; subst; clear H.
      constructor; cbn [lanes status proc wk]; intros.
      + apply H1.
      + destruct (pair_dec p0 id0 p id) as [[-> ->]|Hd].
        * rewrite upd2_same. split; [discriminate|]. intros Hk. apply H2 in Hk. congruence.
        * rewrite upd2_other by exact Hd. apply H2.
      + destruct (pair_dec p0 id0 p id) as [[-> ->]|Hd].
        * rewrite upd2_same in H. discriminate.
        * rewrite upd2_other in H by exact Hd. apply H3a. exact H.
      + destruct (pair_dec p0 id0 p id) as [[-> ->]|Hd].
        * apply H3b in H. congruence.
        * rewrite upd2_other by exact Hd. eapply H3b; eauto.
      + eapply H3c; eauto.
      + destruct (pair_dec p0 id0 p id) as [[-> ->]|Hd].
        * rewrite upd2_same in H. discriminate.
        * rewrite upd2_other in H by exact Hd. apply H4. exact H.
      + destruct (pair_dec p0 id0 p id) as [[-> ->]|Hd].
        * apply H5 in H. congruence.
        * rewrite upd2_other by exact Hd. apply H5. exact H.
      + apply H6.
    - (* Grab *)
      destruct (Nat.ltb_spec w W) as [Hw|]; cbn [andb] in H; [|discriminate].
      destruct (Nat.ltb_spec p P) as [Hp|]; cbn [andb] in H; [|discriminate].
      destruct (cstate_eqb (status s p id) Work) eqn:Ec; [|discriminate]. apply cstate_eqb_eq in Ec.
      destruct (wk s w) eqn:Ew; [discriminate|]. inversion H; subst; clear H.
      constructor; cbn [lanes status proc wk]; intros.
      + apply H1.
      + destruct (pair_dec p0 id0 p id) as [[-> ->]|Hd].
        * rewrite upd2_same. split; [discriminate|]. intros Hk. apply H2 in Hk. congruence.
        * rewrite upd2_other by exact Hd. apply H2.
      + destruct (pair_dec p0 id0 p id) as [[-> ->]|Hd].
        * exists w. split; [exact Hw|]. apply upd1_same.
        * rewrite upd2_other in H by exact Hd. destruct (H3a _ _ H) as (w' & Hw' & E).
          exists w'. split; [exact Hw'|]. rewrite upd1_other; [exact E|]. intros ->. congruence.
      + destruct (Nat.eq_dec w0 w) as [->|Ne].
        * rewrite upd1_same in H. inversion H; subst. apply upd2_same.
        * rewrite upd1_other in H by exact Ne.
          destruct (pair_dec p0 id0 p id) as [[-> ->]|Hd].
          -- apply upd2_same.
          -- rewrite upd2_other by exact Hd. eapply H3b; eauto.
      + destruct (Nat.eq_dec w0 w) as [->|Ne], (Nat.eq_dec w' w) as [->|Ne']; try reflexivity.
        * rewrite upd1_same in H. rewrite upd1_other in H0 by exact Ne'. inversion H; subst c.
          apply H3b in H0. congruence.
        * rewrite upd1_same in H0. rewrite upd1_other in H by exact Ne. inversion H0; subst c.
          apply H3b in H. congruence.
        * rewrite upd1_other in H by exact Ne. rewrite upd1_other in H0 by exact Ne'. eapply H3c; eauto.
      + destruct (pair_dec p0 id0 p id) as [[-> ->]|Hd].
        * rewrite upd2_same in H. discriminate.
        * rewrite upd2_other in H by exact Hd. apply H4. exact H.
      + destruct (pair_dec p0 id0 p id) as [[-> ->]|Hd].
        * apply H5 in H. congruence.
        * rewrite upd2_other by exact Hd. apply H5. exact H.
      + apply H6.
    - (* Proc *)
      destruct (Nat.ltb_spec w W) as [Hw|]; [|discriminate].
      destruct (wk s w) as [[p id]|] eqn:Ew; [|discriminate].
      destruct (Nat.ltb_spec (proc s p id) (size p id)) as [Hlt|]; [|discriminate].
      inversion H; subst; clear H.
      pose proof (H3b _ _ _ Ew) as Hb.
      constructor; cbn [lanes status proc wk]; intros.
      + apply H1.
      + apply H2.
      + apply H3a. exact H.
      + eapply H3b; eauto.
      + eapply H3c; eauto.
      + destruct (pair_dec p0 id0 p id) as [[-> ->]|Hd].
        * congruence.
        * rewrite upd2_other by exact Hd. apply H4. exact H.
      + apply H5. exact H.
      + destruct (pair_dec p0 id0 p id) as [[-> ->]|Hd].
        * rewrite upd2_same. lia.
        * rewrite upd2_other by exact Hd. apply H6.
    - (* Finish *)
      destruct (Nat.ltb_spec w W) as [Hw|]; [|discriminate].
      destruct (wk s w) as [[p id]|] eqn:Ew; [|discriminate].
      destruct (Nat.eqb_spec (proc s p id) (size p id)) as [Heq|]; [|discriminate].
      inversion H; subst; clear H.
      pose proof (H3b _ _ _ Ew) as Hb.
      constructor; cbn [lanes status proc wk]; intros.
      + apply H1.
      + destruct (pair_dec p0 id0 p id) as [[-> ->]|Hd].
        * rewrite upd2_same. split; [discriminate|]. intros Hk. apply H2 in Hk. congruence.
        * rewrite upd2_other by exact Hd. apply H2.
      + destruct (pair_dec p0 id0 p id) as [[-> ->]|Hd].
        * rewrite upd2_same in H. discriminate.
        * rewrite upd2_other in H by exact Hd. destruct (H3a _ _ H) as (w' & Hw' & E).
          exists w'. split; [exact Hw'|]. rewrite upd1_other; [exact E|]. intros ->. rewrite Ew in E. inversion E; subst. destruct Hd; congruence.
      + destruct (Nat.eq_dec w0 w) as [->|Ne].
        * rewrite upd1_same in H. discriminate.
        * rewrite upd1_other in H by exact Ne.
          destruct (pair_dec p0 id0 p id) as [[-> ->]|Hd].
          -- exfalso. apply Ne. eapply H3c; eauto.
          -- rewrite upd2_other by exact Hd. eapply H3b; eauto.
      + destruct (Nat.eq_dec w0 w) as [->|Ne]; [rewrite upd1_same in H; discriminate|].
        destruct (Nat.eq_dec w' w) as [->|Ne']; [rewrite upd1_same in H0; discriminate|].
        rewrite upd1_other in H by exact Ne. rewrite upd1_other in H0 by exact Ne'. eapply H3c; eauto.
      + destruct (pair_dec p0 id0 p id) as [[-> ->]|Hd].
        * exact Heq.
        * rewrite upd2_other in H by exact Hd. apply H4. exact H.
      + destruct (pair_dec p0 id0 p id) as [[-> ->]|Hd].
        * apply upd2_same.
        * rewrite upd2_other by exact Hd. apply H5. exact H.
      + apply H6.
    - (* Take *)
      destruct (Nat.ltb_spec p P) as [Hp|]; [|discriminate].
      destruct (held (lanes s p)) eqn:Eh; [discriminate|].
      destruct (fifo (lanes s p)) as [|id r] eqn:Ef; [discriminate|]. inversion H; subst; clear H.
      constructor; cbn [lanes status proc wk]; intros; eauto.
      + destruct (Nat.eq_dec p0 p) as [->|Ne].
        * rewrite upd1_same. cbn [emitted held fifo k]. unfold heldl. cbn [held].
          specialize (H1 p). unfold heldl in H1. rewrite Eh, Ef in H1. exact H1.
        * rewrite upd1_other by exact Ne. apply H1.
      + destruct (Nat.eq_dec p0 p) as [->|Ne].
        * rewrite upd1_same. cbn [k]. apply H2.
        * rewrite upd1_other by exact Ne. apply H2.
      + destruct (Nat.eq_dec p0 p) as [->|Ne].
        * rewrite upd1_same in H. cbn [emitted] in H. apply H5. exact H.
        * rewrite upd1_other in H by exact Ne. apply H5. exact H.
    - (* Acquire *)
      destruct (Nat.ltb_spec p P) as [Hp|]; [|discriminate].
      destruct (held (lanes s p)) as [id|] eqn:Eh; [|discriminate].
      destruct (cstate_eqb (status s p id) Fin) eqn:Ec; [|discriminate]. apply cstate_eqb_eq in Ec.
      inversion H; subst; clear H.
      constructor; cbn [lanes status proc wk]; intros; eauto.
      + destruct (Nat.eq_dec p0 p) as [->|Ne].
        * rewrite upd1_same. cbn [emitted held fifo k]. unfold heldl. cbn [held app].
          specialize (H1 p). unfold heldl in H1. rewrite Eh in H1. rewrite <- app_assoc. exact H1.
        * rewrite upd1_other by exact Ne. apply H1.
      + destruct (Nat.eq_dec p0 p) as [->|Ne].
        * rewrite upd1_same. cbn [k]. apply H2.
        * rewrite upd1_other by exact Ne. apply H2.
      + destruct (Nat.eq_dec p0 p) as [->|Ne].
        * rewrite upd1_same in H. cbn [emitted] in H. apply in_app_or in H as [H|[<-|[]]]; [apply H5; exact H|exact Ec].
        * rewrite upd1_other in H by exact Ne. apply H5. exact H.
  Qed.

  Lemma run_inv sched : forall s, Inv s -> Inv (run s sched).
  Proof.
    induction sched as [|a r IH]; intros s H; cbn [Model.run]; auto.
    destruct (step s a) eqn:E; auto. apply IH. eapply step_inv; eauto.
  Qed.

  Lemma prefix_of_seq : forall (l r : list nat) a n, l ++ r = seq a n -> l = seq a (length l).
  Proof.
    induction l as [|x l IH]; intros r a n E; [reflexivity|].
    destruct n as [|n]; [discriminate|]. cbn in E. inversion E; subst. cbn. f_equal. eapply IH; eauto.
  Qed.

  (* Per peer, for every schedule: what has been emitted is a prefix of the
     publication order 0,1,2,... -- nothing overtakes, nothing is skipped,
     nothing is emitted twice. *)
  Theorem order_preserved sched p :
    let s := run (init) sched in
    emitted (lanes s p) = seq 0 (length (emitted (lanes s p))) /\
    length (emitted (lanes s p)) <= k (lanes s p).
  Proof.
    cbn zeta. pose proof (run_inv sched _ inv_init) as HI. destruct HI as [H1 _ _ _ _ _ _ _].
    specialize (H1 p). split.
    - eapply prefix_of_seq; eauto.
    - assert (E : length (emitted (lanes (run init sched) p) ++ heldl (lanes (run init sched) p) ++ fifo (lanes (run init sched) p)) = k (lanes (run init sched) p))
        by (rewrite H1; apply seq_length).
      rewrite app_length in E. lia.
  Qed.

  (* Every emitted container had been unlocked by a worker, and that worker had
     processed every one of its elements before. *)
  Theorem emitted_processed sched p id :
    let s := run (init) sched in
    In id (emitted (lanes s p)) -> status s p id = Fin /\ proc s p id = size p id.
  Proof.
    cbn zeta. intros Hin. pose proof (run_inv sched _ inv_init) as HI. destruct HI as [_ _ _ _ _ H4 H5 _].
    split; [apply H5; exact Hin|]. apply H4. apply H5. exact Hin.
  Qed.

  (* When a lane has drained, exactly the published containers have been
     emitted, once each, in order: nothing lost, nothing duplicated. *)
  Theorem complete_at_quiescence sched p :
    let s := run (init) sched in
    fifo (lanes s p) = [] -> held (lanes s p) = None -> emitted (lanes s p) = seq 0 (k (lanes s p)).
  Proof.
    cbn zeta. intros Hf Hh. pose proof (run_inv sched _ inv_init) as HI. destruct HI as [H1 _ _ _ _ _ _ _].
    specialize (H1 p). unfold heldl in H1. rewrite Hf, Hh in H1. cbn [app] in H1. now rewrite app_nil_r in H1.
  Qed.

  (* an idle worker, if there is one *)
  Fixpoint find_idle (wkf : nat -> option (nat * nat)) (n : nat) : option nat :=
    match n with
    | O => None
    | S m => match wkf m with None => Some m | Some _ => find_idle wkf m end
    end.
  Lemma find_idle_some wkf n w : find_idle wkf n = Some w -> w < n /\ wkf w = None.
  Proof.
    induction n as [|m IH]; cbn [find_idle]; [discriminate|].
    destruct (wkf m) eqn:E; intros H.
    - apply IH in H. destruct H. split; [lia|assumption].
    - inversion H; subst. split; [lia|exact E].
  Qed.
  Lemma find_idle_none wkf n : find_idle wkf n = None -> forall w, w < n -> wkf w <> None.
  Proof.
    induction n as [|m IH]; cbn [find_idle]; intros H w Hw; [lia|].
    destruct (wkf m) eqn:E; [|discriminate].
    destruct (Nat.eq_dec w m) as [->|Ne]; [congruence|]. apply IH; [exact H|lia].
  Qed.

  (* No deadlock: with at least one worker and unbounded queues, whenever some
     lane still has something to hand over, some action is enabled. *)
  Theorem no_deadlock_of_pipeline s :
    Inv s -> 0 < W -> ~ quiescent P s -> exists a s', step s a = Some s'.
  Proof.
    intros HI HW Hnq. destruct HI as [H1 H2 H3a H3b H3c H4 H5 H6].
    assert (Hex : exists p, p < P /\ (fifo (lanes s p) <> [] \/ held (lanes s p) <> None)).
    { clear - Hnq. unfold quiescent in Hnq. induction P as [|n IH].
      - exfalso. apply Hnq. intros p Hp. lia.
      - destruct (fifo (lanes s n)) as [|x r] eqn:Ef.
        + destruct (held (lanes s n)) eqn:Eh.
          * exists n. split; [lia|]. right. congruence.
          * destruct IH as (p & Hp & Hd).
            { intros Hq. apply Hnq. intros p Hp. destruct (Nat.eq_dec p n) as [->|Ne]; [auto|]. apply Hq. lia. }
            exists p. split; [lia|exact Hd].
        + exists n. split; [lia|]. left. congruence. }
    destruct Hex as (p & Hp & Hd).
    assert (HpP : (p <? P) = true) by (apply Nat.ltb_lt; exact Hp).
    destruct (held (lanes s p)) as [id|] eqn:Eh.
    - (* the consumer waits for container id *)
      assert (Hlt : id < k (lanes s p)).
      { specialize (H1 p). unfold heldl in H1. rewrite Eh in H1.
        assert (Hin : In id (seq 0 (k (lanes s p)))) by (rewrite <- H1; apply in_or_app; right; left; reflexivity).
        apply in_seq in Hin. lia. }
      destruct (status s p id) eqn:Es.
      + exfalso. apply H2 in Es. lia.
      + exists (Enq2 p id). cbn [Model.step]. rewrite HpP, Es. cbn. eauto.
      + destruct (find_idle (wk s) W) as [w|] eqn:Ei.
        * apply find_idle_some in Ei as [Hw Ew]. exists (Grab w p id). cbn [Model.step].
          assert (HwW : (w <? W) = true) by (apply Nat.ltb_lt; exact Hw).
          rewrite HwW, HpP, Es, Ew. cbn. eauto.
        * pose proof (find_idle_none _ _ Ei 0 HW) as Hb.
          destruct (wk s 0) as [[q j]|] eqn:E0; [|congruence].
          assert (H0W : (0 <? W) = true) by (apply Nat.ltb_lt; exact HW).
          destruct (Nat.ltb_spec (proc s q j) (size q j)) as [Hl|Hg].
          -- exists (Proc 0). cbn [Model.step]. rewrite H0W, E0. apply Nat.ltb_lt in Hl. rewrite Hl. eauto.
          -- exists (Finish 0). cbn [Model.step]. rewrite H0W, E0.
             assert (E : proc s q j = size q j) by (specialize (H6 q j); lia).
             apply Nat.eqb_eq in E. rewrite E. eauto.
      + destruct (H3a _ _ Es) as (w & Hw & Ew).
        assert (HwW : (w <? W) = true) by (apply Nat.ltb_lt; exact Hw).
        destruct (Nat.ltb_spec (proc s p id) (size p id)) as [Hl|Hg].
        * exists (Proc w). cbn [Model.step]. rewrite HwW, Ew. apply Nat.ltb_lt in Hl. rewrite Hl. eauto.
        * exists (Finish w). cbn [Model.step]. rewrite HwW, Ew.
          assert (E : proc s p id = size p id) by (specialize (H6 p id); lia).
          apply Nat.eqb_eq in E. rewrite E. eauto.
      + exists (Acquire p). cbn [Model.step]. rewrite HpP, Eh, Es. cbn. eauto.
    - destruct (fifo (lanes s p)) as [|id r] eqn:Ef.
      + destruct Hd; congruence.
      + exists (Take p). cbn [Model.step]. rewrite HpP, Eh, Ef. eauto.
  Qed.

  Corollary no_deadlock_reachable sched :
    0 < W -> ~ quiescent P (run init sched) -> exists a s', step (run init sched) a = Some s'.
  Proof. intros HW Hq. apply no_deadlock_of_pipeline; auto. apply run_inv. apply inv_init. Qed.
End Proofs.

(* ------------------------------------------------------------------ the trace checker means what it says *)
From WG Require Import Pipeline.Spec.

Lemma eql_eq a b : eql a b = true <-> a = b.
Proof.
  revert b. induction a as [|x a IH]; intros [|y b]; cbn [eql]; split; intros H; try congruence; try discriminate.
  - apply andb_true_iff in H as [H1 H2]. apply N.eqb_eq in H1. apply IH in H2. congruence.
  - inversion H; subst. rewrite N.eqb_refl. cbn. apply IH. reflexivity.
Qed.

Lemma prefixb_app a b : prefixb a b = true -> exists r, b = a ++ r.
Proof.
  revert b. induction a as [|x a IH]; intros b H.
  - exists b. reflexivity.
  - destruct b as [|y b]; cbn [prefixb] in H; [discriminate|].
    apply andb_true_iff in H as [H1 H2]. apply N.eqb_eq in H1. destruct (IH _ H2) as (r & ->).
    exists r. subst. reflexivity.
Qed.

Lemma increasing_lt l : increasing l = true -> forall i j d, (i < j)%nat -> (j < length l)%nat -> (nth i l d < nth j l d)%N.
Proof.
  induction l as [|x l IH]; intros H i j d Hij Hj; [cbn in Hj; lia|].
  destruct l as [|y l]; [cbn in Hj; lia|].
  cbn [increasing] in H. apply andb_true_iff in H as [H1 H2]. apply N.ltb_lt in H1.
  destruct i as [|i].
  - destruct j as [|j]; [lia|]. cbn [nth]. destruct j as [|j]; [exact H1|].
    assert (G : (nth 0 (y :: l) d < nth (S j) (y :: l) d)%N) by (apply IH; [exact H2|lia|cbn [length] in *; lia]).
    cbn [nth] in G. cbn [nth]. lia.
  - destruct j as [|j]; [lia|]. cbn [nth]. apply IH; [exact H2|lia|cbn [length] in *; lia].
Qed.

(* A passing trace of a quiescent run: on every lane the emitted sequence IS
   the submitted sequence, outbound counters strictly increase with position,
   and no datagram/packet was unprocessed. *)
Theorem holdsb_sound t : holdsb t = true -> t_quiet t = true ->
  (forall l, In l (t_out t) ->
     map snd (o_sent l) = o_read l /\ o_bad l = 0%N /\
     forall i j d, (i < j)%nat -> (j < length (o_sent l))%nat -> (nth i (map fst (o_sent l)) d < nth j (map fst (o_sent l)) d)%N) /\
  (forall l, In l (t_in t) -> i_wr l = i_arr l /\ i_bad l = 0%N).
Proof.
  unfold holdsb. intros H Hq. rewrite Hq in H. apply andb_true_iff in H as [H _]. apply andb_true_iff in H as [H _].
  apply andb_true_iff in H as [H _]. apply andb_true_iff in H as [H _].
  apply andb_true_iff in H as [Ho Hi].
  rewrite forallb_forall in Ho, Hi. split.
  - intros l Hl. specialize (Ho l Hl). unfold olane_ok, same in Ho.
    apply andb_true_iff in Ho as [Ho H3]. apply andb_true_iff in Ho as [H1 H2].
    apply eql_eq in H1. apply N.eqb_eq in H3. repeat split; auto.
    intros i j d Hij Hj. apply increasing_lt; [exact H2|exact Hij|now rewrite map_length].
  - intros l Hl. specialize (Hi l Hl). unfold ilane_ok, same in Hi.
    apply andb_true_iff in Hi as [H1 H3]. apply eql_eq in H1. apply N.eqb_eq in H3. auto.
Qed.
