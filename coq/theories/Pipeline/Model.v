(* C12: the lock hand-off pipeline of device/send.go and device/receive.go as a
   transition system; own small-step interleaving semantics (a schedule is a
   list of actions, disabled actions are skipped).

   P peers share W crypto workers.  Containers of peer p are numbered 0,1,2,..
   in the order in which they are published on the peer's ordered queue.

     producer   Enq1 p      take the next number id = k, LOCK the container and
                            append it to the per-peer FIFO
                            (peer.queue.outbound.c <- c  /  peer.queue.inbound.c <- c)
                Enq2 p id   put it on the shared work queue
                            (device.queue.encryption.c <- c  /  decryption)
                            Any number of producers per peer may sit between
                            their two enqueues (several goroutines call
                            SendStagedPackets), so Enq2 is a separate action
                            enabled for every container that is still Pend.
     worker w   Grab w p id take ANY container from the work queue
                Proc w      process one more element of it (encrypt / decrypt)
                Finish w    all size p id elements done: Unlock
     consumer   Take p      receive the head of the FIFO
                Acquire p   Lock() on it succeeds (only after the worker's
                            Unlock), emit it (Bind.Send / TUN write)

   Outbound: producer = SendStagedPackets (any flusher), workers =
   RoutineEncryption, consumer = RoutineSequentialSender.  Inbound: producer =
   RoutineReceiveIncoming, workers = RoutineDecryption, consumer =
   RoutineSequentialReceiver.  Both are this same system.

   The state of a container is a FUNCTION of (peer, number): Unpub, Pend (on the
   FIFO, not yet on the work queue), Work (on the work queue), Busy (held by a
   worker), Fin (unlocked).  Invariant P3 of DESIGN.md ([0..k) = work + busy +
   finished) is this function being total on the published containers.
   Queues are unbounded here (the real ones hold 1024 containers).
   No proofs in this file. *)
From WG Require Import Base.Prelude.

Inductive cstate := Unpub | Pend | Work | Busy | Fin.

Record lane := { k : nat; fifo : list nat; held : option nat; emitted : list nat }.

Record st := {
  lanes : nat -> lane;
  status : nat -> nat -> cstate;        (* peer -> container -> state *)
  proc : nat -> nat -> nat;             (* elements processed so far *)
  wk : nat -> option (nat * nat)        (* what each worker holds *)
}.

Inductive act :=
| Enq1 (p : nat) | Enq2 (p id : nat)
| Grab (w p id : nat) | Proc (w : nat) | Finish (w : nat)
| Take (p : nat) | Acquire (p : nat).

Definition upd1 {A} (f : nat -> A) (i : nat) (v : A) : nat -> A :=
  fun j => if Nat.eqb j i then v else f j.
Definition upd2 {A} (f : nat -> nat -> A) (i j : nat) (v : A) : nat -> nat -> A :=
  fun a b => if Nat.eqb a i && Nat.eqb b j then v else f a b.

Definition cstate_eqb (a b : cstate) : bool :=
  match a, b with
  | Unpub, Unpub | Pend, Pend | Work, Work | Busy, Busy | Fin, Fin => true
  | _, _ => false
  end.

Section Pipe.
  Variable P W : nat.                   (* peers, workers *)
  Variable size : nat -> nat -> nat.    (* elements per container *)

  Definition step (s : st) (a : act) : option st :=
    match a with
    | Enq1 p =>
        if p <? P then
          let l := lanes s p in
          Some {| lanes := upd1 (lanes s) p {| k := S (k l); fifo := fifo l ++ [k l]; held := held l; emitted := emitted l |};
                  status := upd2 (status s) p (k l) Pend; proc := proc s; wk := wk s |}
        else None
    | Enq2 p id =>
        if (p <? P) && cstate_eqb (status s p id) Pend then
          Some {| lanes := lanes s; status := upd2 (status s) p id Work; proc := proc s; wk := wk s |}
        else None
    | Grab w p id =>
        if (w <? W) && (p <? P) && cstate_eqb (status s p id) Work then
          match wk s w with
          | None => Some {| lanes := lanes s; status := upd2 (status s) p id Busy; proc := proc s;
                            wk := upd1 (wk s) w (Some (p, id)) |}
          | Some _ => None
          end
        else None
    | Proc w =>
        if w <? W then
          match wk s w with
          | Some (p, id) =>
              if proc s p id <? size p id then
                Some {| lanes := lanes s; status := status s; proc := upd2 (proc s) p id (S (proc s p id)); wk := wk s |}
              else None
          | None => None
          end
        else None
    | Finish w =>
        if w <? W then
          match wk s w with
          | Some (p, id) =>
              if proc s p id =? size p id then
                Some {| lanes := lanes s; status := upd2 (status s) p id Fin; proc := proc s; wk := upd1 (wk s) w None |}
              else None
          | None => None
          end
        else None
    | Take p =>
        if p <? P then
          let l := lanes s p in
          match held l, fifo l with
          | None, id :: r =>
              Some {| lanes := upd1 (lanes s) p {| k := k l; fifo := r; held := Some id; emitted := emitted l |};
                      status := status s; proc := proc s; wk := wk s |}
          | _, _ => None
          end
        else None
    | Acquire p =>
        if p <? P then
          let l := lanes s p in
          match held l with
          | Some id =>
              if cstate_eqb (status s p id) Fin then
                Some {| lanes := upd1 (lanes s) p {| k := k l; fifo := fifo l; held := None; emitted := emitted l ++ [id] |};
                        status := status s; proc := proc s; wk := wk s |}
              else None
          | None => None
          end
        else None
    end.

  Fixpoint run (s : st) (sched : list act) : st :=
    match sched with
    | [] => s
    | a :: r => match step s a with Some s' => run s' r | None => run s r end
    end.

  Definition init : st :=
    {| lanes := fun _ => {| k := 0; fifo := []; held := None; emitted := [] |};
       status := fun _ _ => Unpub; proc := fun _ _ => 0; wk := fun _ => None |}.

  (* nothing left to hand over on any lane *)
  Definition quiescent (s : st) : Prop :=
    forall p, p < P -> fifo (lanes s p) = [] /\ held (lanes s p) = None.
End Pipe.
