(* C12: why P2 ("a container is LOCKED before it becomes visible") is needed.

   The transition system of Pipeline/Model.v with ONE change: the producer
   publishes the container on the per-peer FIFO first and takes its lock
   afterwards (the Lock() moved between the two queue insertions):

       Pub p        append the next container to the FIFO, still unlocked (Open)
       LockP p id   the producer's Lock(): succeeds only while nobody holds the mutex
       Enq2 p id    as before (needs the container locked: Pend)
       Acquire p    the consumer's Lock() succeeds whenever the mutex is free:
                    after the worker's Unlock (Fin) -- or before the producer's Lock (Open)

   In this system the theorem emitted_processed of Pipeline/Proofs.v is FALSE:
   an explicit schedule emits a container none of whose elements was processed,
   and the producer can then never lock it, so it never reaches the workers. *)
From WG Require Import Base.Prelude Pipeline.Model.

Inductive cstate2 := Unpub2 | Open | Pend2 | Work2 | Busy2 | Fin2 | Stolen.   (* Stolen: the consumer got the mutex first *)

Record st2 := {
  lanes2 : nat -> lane;
  status2 : nat -> nat -> cstate2;
  proc2 : nat -> nat -> nat;
  wk2 : nat -> option (nat * nat)
}.

Inductive act2 :=
| Pub (p : nat) | LockP (p id : nat) | Enq2' (p id : nat)
| Grab' (w p id : nat) | Proc' (w : nat) | Finish' (w : nat)
| Take' (p : nat) | Acquire' (p : nat).

Definition is2 (a b : cstate2) : bool :=
  match a, b with
  | Unpub2, Unpub2 | Open, Open | Pend2, Pend2 | Work2, Work2 | Busy2, Busy2 | Fin2, Fin2 | Stolen, Stolen => true
  | _, _ => false
  end.

Section Pipe2.
  Variable P W : nat.
  Variable size : nat -> nat -> nat.

  Definition step2 (s : st2) (a : act2) : option st2 :=
    match a with
    | Pub p =>
        if p <? P then
          let l := lanes2 s p in
          Some {| lanes2 := upd1 (lanes2 s) p {| k := S (k l); fifo := fifo l ++ [k l]; held := held l; emitted := emitted l |};
                  status2 := upd2 (status2 s) p (k l) Open; proc2 := proc2 s; wk2 := wk2 s |}
        else None
    | LockP p id =>
        if (p <? P) && is2 (status2 s p id) Open then
          Some {| lanes2 := lanes2 s; status2 := upd2 (status2 s) p id Pend2; proc2 := proc2 s; wk2 := wk2 s |}
        else None
    | Enq2' p id =>
        if (p <? P) && is2 (status2 s p id) Pend2 then
          Some {| lanes2 := lanes2 s; status2 := upd2 (status2 s) p id Work2; proc2 := proc2 s; wk2 := wk2 s |}
        else None
    | Grab' w p id =>
        if (w <? W) && (p <? P) && is2 (status2 s p id) Work2 then
          match wk2 s w with
          | None => Some {| lanes2 := lanes2 s; status2 := upd2 (status2 s) p id Busy2; proc2 := proc2 s;
                            wk2 := upd1 (wk2 s) w (Some (p, id)) |}
          | Some _ => None
          end
        else None
    | Proc' w =>
        if w <? W then
          match wk2 s w with
          | Some (p, id) =>
              if proc2 s p id <? size p id then
                Some {| lanes2 := lanes2 s; status2 := status2 s; proc2 := upd2 (proc2 s) p id (S (proc2 s p id)); wk2 := wk2 s |}
              else None
          | None => None
          end
        else None
    | Finish' w =>
        if w <? W then
          match wk2 s w with
          | Some (p, id) =>
              if proc2 s p id =? size p id then
                Some {| lanes2 := lanes2 s; status2 := upd2 (status2 s) p id Fin2; proc2 := proc2 s; wk2 := upd1 (wk2 s) w None |}
              else None
          | None => None
          end
        else None
    | Take' p =>
        if p <? P then
          let l := lanes2 s p in
          match held l, fifo l with
          | None, id :: r =>
              Some {| lanes2 := upd1 (lanes2 s) p {| k := k l; fifo := r; held := Some id; emitted := emitted l |};
                      status2 := status2 s; proc2 := proc2 s; wk2 := wk2 s |}
          | _, _ => None
          end
        else None
    | Acquire' p =>
        if p <? P then
          let l := lanes2 s p in
          match held l with
          | Some id =>
              (* the mutex is free after the worker's Unlock -- or before the producer's Lock *)
              if is2 (status2 s p id) Fin2 || is2 (status2 s p id) Open then
                Some {| lanes2 := upd1 (lanes2 s) p {| k := k l; fifo := fifo l; held := None; emitted := emitted l ++ [id] |};
                        status2 := (if is2 (status2 s p id) Open then upd2 (status2 s) p id Stolen else status2 s);
                        proc2 := proc2 s; wk2 := wk2 s |}
              else None
          | None => None
          end
        else None
    end.

  Fixpoint run2 (s : st2) (sched : list act2) : st2 :=
    match sched with
    | [] => s
    | a :: r => match step2 s a with Some s' => run2 s' r | None => run2 s r end
    end.

  Definition init2 : st2 :=
    {| lanes2 := fun _ => {| k := 0; fifo := []; held := None; emitted := [] |};
       status2 := fun _ _ => Unpub2; proc2 := fun _ _ => 0; wk2 := fun _ => None |}.
End Pipe2.

(* The refutation: one peer, one worker, a container of 3 elements.  The
   consumer takes the freshly published container and acquires its mutex before
   the producer does: it is emitted with none of its elements processed; the
   producer's Lock and the hand-over to the workers are disabled from then on. *)
Theorem publish_before_lock_refuted :
  exists sched, let s := run2 1 1 (fun _ _ => 3) (init2) sched in
    In 0 (emitted (lanes2 s 0)) /\ proc2 s 0 0 = 0 /\ proc2 s 0 0 <> 3 /\
    step2 1 1 (fun _ _ => 3) s (LockP 0 0) = None /\ step2 1 1 (fun _ _ => 3) s (Enq2' 0 0) = None /\
    step2 1 1 (fun _ _ => 3) s (Grab' 0 0 0) = None.
Proof.
  exists [Pub 0; Take' 0; Acquire' 0; LockP 0 0; Enq2' 0 0].
  vm_compute. repeat split; try reflexivity; try (left; reflexivity); discriminate.
Qed.

(* With the producer's Lock scheduled before the consumer reaches the container
   the variant behaves like the original: the container is emitted processed. *)
Example publish_then_lock_in_time :
  let s := run2 1 1 (fun _ _ => 2) (init2)
             [Pub 0; LockP 0 0; Take' 0; Acquire' 0; Enq2' 0 0; Grab' 0 0 0; Proc' 0; Proc' 0; Finish' 0; Acquire' 0] in
  emitted (lanes2 s 0) = [0] /\ proc2 s 0 0 = 2.
Proof. vm_compute. split; reflexivity. Qed.
