(* C12 as an executable specification over OBSERVED traces of the real device.

   Outbound lane (one peer): the sequence numbers in the order in which the
   packets were handed to the TUN reader, and the transport datagrams handed to
   Bind.Send for that peer, in order, as (counter, inner sequence number), plus
   the number of datagrams that did not open under the session key or whose
   inner packet was not intact (= emitted before/without complete processing).

   Inbound lane (one peer): sequence numbers in datagram arrival order, and the
   sequence numbers of the packets written to the TUN, in order, plus the
   number of written packets that were not intact.

   holds = emitted sequence equals the submitted sequence (same order, nothing
   lost, nothing duplicated) when the device is quiescent -- a prefix of it
   otherwise --, outbound counters strictly increase, nothing unprocessed. *)
From Coq Require Import FMapPositive.
From WG Require Import Base.Prelude.
Local Open Scope N_scope.

Record olane := { o_read : list N; o_sent : list (N * N); o_bad : N }.
Record ilane := { i_arr : list N; i_wr : list N; i_bad : N }.
(* t_outp / t_inp: lanes of a peer that was REMOVED during the run: its packets may be discarded from
   some point on, so only "prefix, increasing, nothing unprocessed" is required of them *)
Record trace := { t_out : list olane; t_in : list ilane; t_quiet : bool; t_outp : list olane; t_inp : list ilane;
                  t_outm : list olane; t_outu : list olane }.
(* t_outm: outbound lanes of runs with SEVERAL concurrent flushers (keepalives, UAPI): the property promises no
   order there, only "exactly once, fully processed": the emitted sequence numbers are pairwise distinct, all
   submitted ones, and (when quiescent) as many as were submitted.
   t_outu: outbound lanes of runs in which the interface goes down and up during the flood: packets may be
   discarded while it is down; what is emitted is emitted at most once and fully processed. *)

Fixpoint eql (a b : list N) : bool :=
  match a, b with
  | [], [] => true
  | x :: a', y :: b' => (x =? y) && eql a' b'
  | _, _ => false
  end.

Fixpoint prefixb (a b : list N) : bool :=          (* a is a prefix of b *)
  match a, b with
  | [], _ => true
  | x :: a', y :: b' => (x =? y) && prefixb a' b'
  | _ :: _, [] => false
  end.

Fixpoint increasing (l : list N) : bool :=
  match l with
  | x :: ((y :: _) as t) => (x <? y) && increasing t
  | _ => true
  end.

Definition same (quiet : bool) (emitted submitted : list N) : bool :=
  if quiet then eql emitted submitted else prefixb emitted submitted.

Definition olane_ok (q : bool) (l : olane) : bool :=
  same q (map snd (o_sent l)) (o_read l) && increasing (map fst (o_sent l)) && (o_bad l =? 0).

Definition ilane_ok (q : bool) (l : ilane) : bool :=
  same q (i_wr l) (i_arr l) && (i_bad l =? 0).

(* sets of sequence numbers as positive maps (the lanes have thousands of entries) *)
Definition setN := PositiveMap.t unit.
Definition addN (x : N) (s : setN) : setN := PositiveMap.add (N.succ_pos x) tt s.
Definition inN (x : N) (s : setN) : bool := PositiveMap.mem (N.succ_pos x) s.
Fixpoint distinct_from (seen : setN) (l : list N) : bool :=
  match l with [] => true | x :: r => negb (inN x seen) && distinct_from (addN x seen) r end.
Definition distinctN (l : list N) : bool := distinct_from (PositiveMap.empty unit) l.
Definition set_of (l : list N) : setN := fold_left (fun s x => addN x s) l (PositiveMap.empty unit).

Definition mlane_ok (complete : bool) (l : olane) : bool :=
  let e := map snd (o_sent l) in
  let sub := set_of (o_read l) in
  distinctN e && forallb (fun x => inN x sub) e && (o_bad l =? 0) &&
  (if complete then N.of_nat (length e) =? N.of_nat (length (o_read l)) else true).

Definition holdsb (t : trace) : bool :=
  forallb (olane_ok (t_quiet t)) (t_out t) && forallb (ilane_ok (t_quiet t)) (t_in t) &&
  forallb (olane_ok false) (t_outp t) && forallb (ilane_ok false) (t_inp t) &&
  forallb (mlane_ok (t_quiet t)) (t_outm t) && forallb (mlane_ok false) (t_outu t).
