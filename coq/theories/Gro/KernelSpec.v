(* What the Linux kernel does with a buffer written to a TUN device opened with
   IFF_VNET_HDR: the first 10 bytes are a struct virtio_net_hdr (host-endian =
   little-endian fields), the rest is one IP packet or, for a GSO type, a
   "super-packet" that the stack later cuts into segments of gso_size payload
   bytes (tun_get_user -> virtio_net_hdr_to_skb; ip_rcv/ipv6_rcv trim the skb
   to the length the IP header states; tcp_gso_segment / __udp_gso_segment:
   per-segment lengths, IPv4 IDs incrementing, TCP sequence numbers advancing
   by gso_size, FIN/PSH only on the last segment, checksum completed from the
   pseudo-header sum left in the checksum field (CHECKSUM_PARTIAL)).
   Written from the kernel's rules, not from tun/offload_linux.go. *)
From WG Require Import Base.Prelude Gro.Bytes.
Local Open Scope N_scope.

Record vhdr := { v_flags : N; v_gso : N; v_hdrlen : N; v_gsosize : N; v_cstart : N; v_coff : N }.
Definition dec_vhdr (h : list N) : vhdr :=
  {| v_flags := byte_at h 0; v_gso := byte_at h 1; v_hdrlen := le16 h 2; v_gsosize := le16 h 4;
     v_cstart := le16 h 6; v_coff := le16 h 8 |}.

Definition K_NEEDS_CSUM : N := 1.
Definition K_GSO_NONE : N := 0.
Definition K_GSO_TCPV4 : N := 1.
Definition K_GSO_TCPV6 : N := 4.
Definition K_GSO_UDP_L4 : N := 5.

Definition is_v6 (p : list N) : bool := byte_at p 0 / 16 =? 6.

(* ip_rcv_core / ip6_rcv_core: drop if the skb is shorter than the header says, trim if longer *)
Definition l3_len (p : list N) : N := if is_v6 p then be16 p 4 + 40 else be16 p 2.
Definition l3_trim (p : list N) : option (list N) :=
  if len p <? l3_len p then None else Some (take (l3_len p) p).

(* One segment.  [hdrs] = the first hdr_len bytes of the super-packet, [i] the
   segment number, [seg] its payload, [lst] whether it is the last one,
   [ltot] the L4 length of the super-packet (what its partial checksum covers). *)
Definition build_segment (v : vhdr) (tcp : bool) (hdrs : list N) (ltot : N) (i : N) (seg : list N) (lst : bool) : list N :=
  let v6 := is_v6 hdrs in
  let cs := v_cstart v in
  let slen := v_hdrlen v + len seg in
  (* network header *)
  let h1 :=
    if v6 then put_be16 hdrs 4 (slen - 40)
    else
      let a := put_be16 hdrs 2 slen in
      let b := put_be16 a 4 ((be16 hdrs 4 + i) mod 65536) in
      let c := put_bytes b 10 [0; 0] in
      put_be16 c 10 (cnot16 (ocfold (sum16 (take cs c)))) in
  (* transport header *)
  let h2 :=
    if tcp then
      let a := put_bytes h1 (cs + 4) (enc_be32 ((be32 hdrs (cs + 4) + i * v_gsosize v) mod 4294967296)) in
      if lst then a
      else put_byte a (cs + 13) (N.land (byte_at a (cs + 13)) 246)     (* clear FIN (1) and PSH (8) *)
    else put_be16 h1 (cs + 4) (slen - cs) in
  (* checksum: the field holds the folded pseudo-header sum for length ltot;
     replace the length, add the transport header (field cleared) and payload *)
  let at_ := cs + v_coff v in
  let partial := be16 hdrs at_ in
  let h3 := put_bytes h2 at_ [0; 0] in
  let s := partial + (65535 - ocfold ltot) + (slen - cs) + sum16 (drop cs h3 ++ seg) in
  let c := cnot16 (ocfold s) in
  let c' := if negb tcp && (c =? 0) then 65535 else c in               (* CSUM_MANGLED_0 for UDP *)
  put_be16 h3 at_ c' ++ seg.

Fixpoint build_all (v : vhdr) (tcp : bool) (hdrs : list N) (ltot : N) (i : N) (segs : list (list N)) : list (list N) :=
  match segs with
  | [] => []
  | s :: r => build_segment v tcp hdrs ltot i s (match r with [] => true | _ => false end)
              :: build_all v tcp hdrs ltot (i + 1) r
  end.

(* The packets that come out of one written buffer. *)
Definition kernel_segment (hdr pkt : list N) : list (list N) :=
  let v := dec_vhdr hdr in
  if v_gso v =? K_GSO_NONE then
    if N.land (v_flags v) K_NEEDS_CSUM =? 0 then [pkt]
    else
      (* CHECKSUM_PARTIAL without GSO: sum from csum_start to the end, store at csum_start+csum_offset *)
      let at_ := v_cstart v + v_coff v in
      if len pkt <? at_ + 2 then []
      else [put_be16 pkt at_ (cnot16 (ocfold (sum16 (drop (v_cstart v) pkt))))]
  else if (v_gso v =? K_GSO_TCPV4) || (v_gso v =? K_GSO_TCPV6) || (v_gso v =? K_GSO_UDP_L4) then
    let tcp := negb (v_gso v =? K_GSO_UDP_L4) in
    let v6 := is_v6 pkt in
    (* virtio_net_hdr_to_skb: NEEDS_CSUM is mandatory with these types, the
       descriptor must lie inside the packet, the type must match the IP version *)
    if (N.land (v_flags v) K_NEEDS_CSUM =? 0) || (v_gsosize v =? 0) then []
    else if (v_gso v =? K_GSO_TCPV4) && v6 then []
    else if (v_gso v =? K_GSO_TCPV6) && negb v6 then []
    else
      match l3_trim pkt with
      | None => []
      | Some p =>
          if (len p <? v_hdrlen v) || (v_hdrlen v <? v_cstart v + v_coff v + 2) then []
          else
            let hdrs := take (v_hdrlen v) p in
            let payload := drop (v_hdrlen v) p in
            match payload with
            | [] => []
            | _ => build_all v tcp hdrs (len p - v_cstart v) 0 (chunks (v_gsosize v) payload)
            end
      end
  else [].
