(* Property C16 as an executable specification over the observable behaviour of
   the TUN writer: the input batch, toWrite and the buffers after handleGRO.
   Independent of the model of the coalescer (Gro.Model's [buf] record is only
   the data carrier).  [holdsb] is the conjunction of the clauses below. *)
From WG Require Import Base.Prelude Gro.Bytes Gro.Model Gro.KernelSpec.
Local Open Scope N_scope.

(* ---- what is compared between an original packet and a re-segmented one ---- *)
Definition zero_at (p : list N) (i n : N) : list N :=
  if len p <? i + n then p else put_bytes p i (repeat 0 (N.to_nat n)).

(* (isV6, IP header length, protocol, is a fragment) *)
Definition l3_parse (p : list N) : option (bool * N * N * bool) :=
  if byte_at p 0 / 16 =? 4 then
    let ihl := (byte_at p 0 mod 16) * 4 in
    if (ihl <? 20) || (len p <? ihl) then None
    else Some (false, ihl, byte_at p 9, negb ((byte_at p 6 mod 64 =? 0) && (byte_at p 7 =? 0)))
  else if (byte_at p 0 / 16 =? 6) && (40 <=? len p) then Some (true, 40, byte_at p 6, false)
  else None.

(* Fields the property excepts are zeroed: IPv4 total length, ID, header
   checksum; IPv6 payload length; TCP window, checksum (and, not listed by the
   property: reserved bits, urgent pointer); UDP length and checksum.
   [fl]: also forget the IPv6 flow label; [psh]: also forget the TCP PSH bit
   (both only used to name a failure, never in [holdsb]). *)
Definition canon_gen (fl psh : bool) (p : list N) : list N :=
  match l3_parse p with
  | Some (v6, iph, proto, frag) =>
      if frag then p
      else if (proto =? 6) && (iph + 20 <=? len p) then
        let a := if v6 then zero_at p 4 2 else zero_at (zero_at p 2 4) 10 2 in
        let a := if v6 && fl then put_byte (zero_at a 2 2) 1 ((byte_at a 1 / 16) * 16) else a in
        let b := put_byte a (iph + 12) ((byte_at a (iph + 12) / 16) * 16) in
        let b := if psh then put_byte b (iph + 13) (N.land (byte_at b (iph + 13)) 247) else b in
        zero_at b (iph + 14) 6
      else if (proto =? 17) && (iph + 8 <=? len p) then
        let a := if v6 then zero_at p 4 2 else zero_at (zero_at p 2 4) 10 2 in
        let a := if v6 && fl then put_byte (zero_at a 2 2) 1 ((byte_at a 1 / 16) * 16) else a in
        zero_at a (iph + 4) 4
      else p
  | None => p
  end.
Definition canon : list N -> list N := canon_gen false false.

(* multiset equality of byte strings *)
Fixpoint remove_first (x : list N) (l : list (list N)) : option (list (list N)) :=
  match l with
  | [] => None
  | y :: r => if list_eqb x y then Some r
              else match remove_first x r with Some r' => Some (y :: r') | None => None end
  end.
Fixpoint perm_eqb (a b : list (list N)) : bool :=
  match a with
  | [] => match b with [] => true | _ => false end
  | x :: a' => match remove_first x b with Some b' => perm_eqb a' b' | None => false end
  end.
Fixpoint lists_eqb (a b : list (list N)) : bool :=
  match a, b with
  | [], [] => true
  | x :: a', y :: b' => list_eqb x y && lists_eqb a' b'
  | _, _ => false
  end.

(* UDP flow of an unfragmented datagram: version, addresses, ports *)
Definition udp_flow (p : list N) : option (list N) :=
  match l3_parse p with
  | Some (v6, iph, proto, frag) =>
      if negb frag && (proto =? 17) && (iph + 8 <=? len p) then
        Some ((if v6 then 1 else 0) :: (if v6 then slice p 8 40 else slice p 12 20) ++ slice p iph (iph + 4))
      else None
  | None => None
  end.
Definition in_flow (k : list N) (p : list N) : bool :=
  match udp_flow p with Some k' => list_eqb k k' | None => false end.

(* ---- the written buffers and their segments ---- *)
Definition written (tw : list N) (out : list buf) : list buf := map (get_buf out) tw.
Definition segments (tw : list N) (out : list buf) : list (list N) :=
  flat_map (fun b => kernel_segment (b_hdr b) (b_pkt b)) (written tw out).
Definition is_gso (b : buf) : bool := negb (v_gso (dec_vhdr (b_hdr b)) =? K_GSO_NONE).

Fixpoint nodupb (l : list N) : bool :=
  match l with [] => true | x :: r => negb (existsb (N.eqb x) r) && nodupb r end.

(* clause 1: toWrite holds distinct indices of the batch, and the written
   buffers account for every input packet: as many segments as inputs *)
Definition bookkeeping_ok (inp : list buf) (tw : list N) (out : list buf) : bool :=
  nodupb tw && forallb (fun i => i <? len (map b_cap inp)) tw
  && (length (segments tw out) =? length inp)%nat.

(* clause 2: a written buffer that is not a GSO super-packet is the input
   packet of the same index, byte for byte, with an all-zero virtio header *)
Definition passthrough_ok (inp : list buf) (tw : list N) (out : list buf) : bool :=
  forallb (fun i => let o := get_buf out i in
                    is_gso o || (all_zero (b_hdr o) && (len (b_hdr o) =? VH) && list_eqb (b_pkt o) (b_pkt (get_buf inp i)))) tw.

(* clause 3: re-segmentation gives back the input packets (as a multiset, up to the excepted fields) *)
Definition floweq_gen (fl psh : bool) (inp : list buf) (tw : list N) (out : list buf) : bool :=
  perm_eqb (map (canon_gen fl psh) (segments tw out)) (map (fun b => canon_gen fl psh (b_pkt b)) inp).
Definition floweq_ok := floweq_gen false false.

(* clause 4: within every UDP flow the datagrams leave in the order they came *)
Definition udp_order_gen (keep : list N -> bool) (inp : list buf) (tw : list N) (out : list buf) : bool :=
  let ins := filter keep (map b_pkt inp) in
  let segs := filter keep (segments tw out) in
  forallb (fun p => match udp_flow p with
                    | Some k => lists_eqb (map canon (filter (in_flow k) segs)) (map canon (filter (in_flow k) ins))
                    | None => true end) ins.
Definition udp_order_ok := udp_order_gen (fun _ => true).

(* clause 5: every GSO buffer has a well-formed descriptor and length fields,
   and every segment the kernel makes of it has valid checksums *)
Definition ip_csum_ok (p : list N) : bool :=
  is_v6 p || (ocfold (sum16 (take ((byte_at p 0 mod 16) * 4) p)) =? 65535).
Definition l4_csum_ok (p : list N) : bool :=
  match l3_parse p with
  | Some (v6, iph, proto, _) =>
      let src := if v6 then slice p 8 24 else slice p 12 16 in
      let dst := if v6 then slice p 24 40 else slice p 16 20 in
      ocfold (pseudo_sum proto src dst (len p - iph) + sum16 (drop iph p)) =? 65535
  | None => false
  end.
Definition descriptor_ok (b : buf) : bool :=
  let v := dec_vhdr (b_hdr b) in
  let p := b_pkt b in
  match l3_parse p with
  | Some (v6, iph, proto, frag) =>
      let tcp := proto =? 6 in
      let l4h := if tcp then (byte_at p (iph + 12) / 16) * 4 else 8 in
      (len (b_hdr b) =? VH) && (v_flags v =? K_NEEDS_CSUM) && negb frag
      && ((proto =? 6) || (proto =? 17))
      && (v_gso v =? (if tcp then (if v6 then K_GSO_TCPV6 else K_GSO_TCPV4) else K_GSO_UDP_L4))
      && (v_hdrlen v =? iph + l4h) && (v_cstart v =? iph) && (v_coff v =? (if tcp then 16 else 6))
      && (1 <=? v_gsosize v) && (v_hdrlen v + v_gsosize v <? len p)
  | None => false
  end.
Definition lengths_ok (b : buf) : bool :=
  let p := b_pkt b in
  (len p <=? 65535) && (l3_len p =? len p)
  && match l3_parse p with
     | Some (_, iph, proto, _) => if proto =? 17 then be16 p (iph + 4) =? len p - iph else true
     | None => false
     end.
Definition gso_buffers (tw : list N) (out : list buf) : list buf := filter is_gso (written tw out).
Definition descriptors_ok (tw : list N) (out : list buf) : bool := forallb descriptor_ok (gso_buffers tw out).
Definition lengths_all_ok (tw : list N) (out : list buf) : bool := forallb lengths_ok (gso_buffers tw out).
Definition checksums_ok (tw : list N) (out : list buf) : bool :=
  forallb (fun b => forallb (fun s => ip_csum_ok s && l4_csum_ok s) (kernel_segment (b_hdr b) (b_pkt b)))
          (gso_buffers tw out).
Definition headers_valid_ok (tw : list N) (out : list buf) : bool :=
  descriptors_ok tw out && lengths_all_ok tw out && checksums_ok tw out.

(* clause 6: a packet keeps its transport-checksum verdict: re-segmentation gives back the input
   packets (as a multiset, up to the excepted fields) TOGETHER WITH whether their TCP/UDP checksum
   verifies.  The excepted fields include the checksum itself, so clause 3 alone would accept a
   corrupted packet that was coalesced and leaves the kernel with a freshly computed valid checksum
   ("packets that cannot be coalesced are passed through unmodified"). *)
(* ... and together with bit 0 of TCP byte 12, which [canon] forgets with the reserved bits next to it
   but which is a TCP flag (NS, RFC 3540; AE, RFC 9768): "same ... flags".  [ns = false]: without it
   (only used to name a failure). *)
Definition nsbit (p : list N) : N :=
  match l3_parse p with
  | Some (v6, iph, proto, frag) =>
      if negb frag && (proto =? 6) && (iph + 20 <=? len p) then byte_at p (iph + 12) mod 2 else 0
  | None => 0
  end.
Definition canonv_gen (ns : bool) (p : list N) : list N :=
  (if l4_csum_ok p then 1 else 0) :: (if ns then nsbit p else 0) :: canon p.
Definition canonv : list N -> list N := canonv_gen true.
Definition csum_kept_gen (ns : bool) (inp : list buf) (tw : list N) (out : list buf) : bool :=
  perm_eqb (map (canonv_gen ns) (segments tw out)) (map (fun b => canonv_gen ns (b_pkt b)) inp).
Definition csum_kept_ok := csum_kept_gen true.

(* [holdsb] is the conjunction of the six clauses (Gro.Holds.holdsb_clauses); it is written with the
   kernel's segments computed once and with clause 3 left to clause 6, which implies it, because it is
   evaluated on every generated batch. *)
Definition udp_order_segs (keep : list N -> bool) (inp : list buf) (segs0 : list (list N)) : bool :=
  let ins := filter keep (map b_pkt inp) in
  let segs := filter keep segs0 in
  forallb (fun p => match udp_flow p with
                    | Some k => lists_eqb (map canon (filter (in_flow k) segs)) (map canon (filter (in_flow k) ins))
                    | None => true end) ins.
Fixpoint csums_ok2 (wr : list buf) (sl : list (list (list N))) : bool :=
  match wr, sl with
  | b :: wr', s :: sl' => (negb (is_gso b) || forallb (fun p => ip_csum_ok p && l4_csum_ok p) s) && csums_ok2 wr' sl'
  | _, _ => true
  end.
Definition holdsb (inp : list buf) (tw : list N) (out : list buf) : bool :=
  let wr := written tw out in
  let sl := map (fun b => kernel_segment (b_hdr b) (b_pkt b)) wr in
  let segs := concat sl in
  (nodupb tw && forallb (fun i => i <? len (map b_cap inp)) tw && (length segs =? length inp)%nat)
  && passthrough_ok inp tw out
  && udp_order_segs (fun _ => true) inp segs
  && (forallb descriptor_ok (filter is_gso wr) && forallb lengths_ok (filter is_gso wr) && csums_ok2 wr sl)
  && perm_eqb (map canonv segs) (map (fun b => canonv (b_pkt b)) inp).
