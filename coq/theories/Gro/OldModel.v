(* The write-side coalescer as it was BEFORE the four fixes (951b0e7, 4a9316a, b918254,
   ad814da): kept so that the history of each defect stays machine-checked.  Same
   data types as Gro.Model; only the functions that differ (and their callers) are
   repeated, inside module Old. *)
From WG Require Import Base.Prelude Gen.Constants Gro.Bytes Gro.Model.
Local Open Scope N_scope.

Module Old.
Definition ip_headers_can_coalesce (a b : list N) : bool :=
  if (len a <? 9) || (len b <? 9) then false else
  if byte_at a 0 / 16 =? 6 then
    if negb (byte_at a 0 =? byte_at b 0) || negb (byte_at a 1 / 16 =? byte_at b 1 / 16) then false
    else if negb (byte_at a 7 =? byte_at b 7) then false
    else true
  else
    if negb (byte_at a 1 =? byte_at b 1) then false
    else if negb (byte_at a 6 / 32 =? byte_at b 6 / 32) then false
    else if negb (byte_at a 8 =? byte_at b 8) then false
    else true.

Definition udp_can_coalesce (pkt : list N) (iph gso : N) (it : item) (target : list N) : can :=
  if negb (ip_headers_can_coalesce pkt target) then Unavail
  else if negb ((len target - (iph + UDPH)) mod it_gso it =? 0) then Unavail
  else if it_gso it <? gso then Unavail
  else CanAppend.

Definition tcp_can_coalesce (pkt : list N) (iph tcph seq : N) (psh : bool) (gso : N) (it : item) (target : list N) : can :=
  if negb (tcph =? it_tcph it) then Unavail
  else if (20 <? tcph) && negb (list_eqb (slice pkt (iph + 20) (iph + tcph)) (slice target (it_iph it + 20) (iph + tcph))) then Unavail
  else if negb (ip_headers_can_coalesce pkt target) then Unavail
  else
    (* lhsLen := item.gsoSize; lhsLen += item.numMerged * item.gsoSize   (uint16) *)
    let lhs := (it_gso it + it_merged it * it_gso it) mod 65536 in
    if seq =? (it_seq it + lhs) mod U32 then
      if it_psh it then Unavail
      else if negb ((len target - (iph + tcph)) mod it_gso it =? 0) then Unavail
      else if it_gso it <? gso then Unavail
      else CanAppend
    else if (seq + gso) mod U32 =? it_seq it then
      if psh then Unavail
      else if gso <? it_gso it then Unavail
      else if (it_gso it <? gso) && (0 <? it_merged it) then Unavail
      else CanPrepend
    else Unavail.

Definition checksum_valid (pkt : list N) (iph proto : N) (v6 : bool) : bool :=
  let src := if v6 then tun_ipv6SrcAddrOffset else tun_ipv4SrcAddrOffset in
  let al := if v6 then 16 else 4 in
  let l := (len pkt - iph) mod 65536 in
  checksum (drop iph pkt) (pseudo_sum proto (slice pkt src (src + al)) (slice pkt (src + al) (src + al * 2)) l) =? 65535.

Definition coalesce_udp (pkt : list N) (it : item) (bufs : list buf) (offset : N) (v6 : bool)
  : cres * item * list buf :=
  let hb := get_buf bufs (it_idx it) in
  let head := b_pkt hb in
  let hl := it_iph it + UDPH in
  let clen := len head + len pkt - hl in
  if no_room hb offset clen then (InsufficientCap, it, bufs)
  else if (it_merged it =? 0) && (it_bad it || negb (checksum_valid head (it_iph it) IPPROTO_UDP v6)) then (ItemInvalidCSum, it, bufs)
  else if negb (checksum_valid pkt (it_iph it) IPPROTO_UDP v6) then (PktInvalidCSum, it, bufs)
  else
    (Success,
     {| it_key := it_key it; it_v6 := it_v6 it; it_seq := it_seq it; it_idx := it_idx it;
        it_merged := it_merged it + 1; it_gso := it_gso it; it_iph := it_iph it; it_tcph := it_tcph it;
        it_psh := it_psh it; it_bad := it_bad it |},
     set_buf bufs (it_idx it) (with_pkt hb (head ++ drop hl pkt))).

Definition coalesce_tcp (mode : can) (pkt : list N) (pktI gso seq : N) (psh : bool) (it : item)
  (bufs : list buf) (offset : N) (v6 : bool) : cres * item * list buf :=
  let hb := get_buf bufs (it_idx it) in
  let head := b_pkt hb in
  let hl := it_iph it + it_tcph it in
  let clen := len head + len pkt - hl in
  match mode with
  | CanPrepend =>
      let pb := get_buf bufs pktI in
      if no_room pb offset clen then (InsufficientCap, it, bufs)
      else if psh then (PSHEnding, it, bufs)
      else if (it_merged it =? 0) && negb (checksum_valid head (it_iph it) IPPROTO_TCP v6) then (ItemInvalidCSum, it, bufs)
      else if negb (checksum_valid pkt (it_iph it) IPPROTO_TCP v6) then (PktInvalidCSum, it, bufs)
      else
        (* bufs[pktI] grows by the item's payload, then the two slice headers are swapped *)
        (Success, bump_item it seq gso (it_psh it),
         set_buf (set_buf bufs pktI hb) (it_idx it) (with_pkt pb (pkt ++ drop hl head)))
  | _ =>
      if no_room hb offset clen then (InsufficientCap, it, bufs)
      else if (it_merged it =? 0) && negb (checksum_valid head (it_iph it) IPPROTO_TCP v6) then (ItemInvalidCSum, it, bufs)
      else if negb (checksum_valid pkt (it_iph it) IPPROTO_TCP v6) then (PktInvalidCSum, it, bufs)
      else
        let fo := it_iph it + FLAGS_OFF in
        let head' := if psh then put_byte head fo (N.lor (byte_at head fo) PSH) else head in
        (Success, bump_item it (it_seq it) gso (if psh then true else it_psh it),
         set_buf bufs (it_idx it) (with_pkt hb (head' ++ drop hl pkt)))
  end.

Section TcpLoop.
  Variables (pkt : list N) (pktI iph tcph seq gso : N) (psh v6 : bool) (offset : N) (newit : item).
  (* for i := len(items)-1; i >= 0; i-- over the snapshot [items] *)
  Fixpoint tcp_loop (n : nat) (items : list item) (bufs : list buf) (t : table) : gres * list buf * table :=
    match n with
    | O => (Inserted, bufs, tinsert t newit)
    | S i =>
        let it := nth i items dummy_item in
        let target := b_pkt (get_buf bufs (it_idx it)) in
        match tcp_can_coalesce pkt iph tcph seq psh gso it target with
        | Unavail => tcp_loop i items bufs t
        | mode =>
            match coalesce_tcp mode pkt pktI gso seq psh it bufs offset v6 with
            | (Success, it', bufs') =>
                (Coalesced (it_idx it) (match mode with CanPrepend => true | _ => false end), bufs', tupdate t it' i)
            | (ItemInvalidCSum, _, _) => tcp_loop i items bufs (tdelete t (it_key it) i)
            | (PktInvalidCSum, _, _) => (Noop, bufs, t)
            | _ => tcp_loop i items bufs t
            end
        end
    end.
End TcpLoop.

Definition tcp_gro (bufs : list buf) (offset pktI : N) (t : table) (v6 : bool) : gres * list buf * table :=
  let pkt := b_pkt (get_buf bufs pktI) in
  match ip_gate pkt v6 with
  | None => (Noop, bufs, t)
  | Some iph =>
      let tcph := (byte_at pkt (iph + 12) / 16) * 4 in
      if (tcph <? 20) || (60 <? tcph) then (Noop, bufs, t)
      else if len pkt <? iph + tcph then (Noop, bufs, t)
      else if negb (frag_gate pkt v6) then (Noop, bufs, t)
      else
        let flags := byte_at pkt (iph + FLAGS_OFF) in
        if negb (flags =? ACK) && negb (flags =? ACK + PSH) then (Noop, bufs, t)
        else
          let psh := negb (flags =? ACK) in
          let gso := len pkt - tcph - iph in
          if gso <? 1 then (Noop, bufs, t)
          else
            let seq := be32 pkt (iph + 4) in
            let key := flow_key pkt v6 iph true in
            let newit := {| it_key := key; it_v6 := v6; it_seq := seq; it_idx := pktI; it_merged := 0;
                            it_gso := gso; it_iph := iph; it_tcph := tcph; it_psh := psh; it_bad := false |} in
            match tlookup key t with
            | None => (Inserted, bufs, tinsert t newit)
            | Some items => tcp_loop pkt pktI iph tcph seq gso psh v6 offset newit (length items) items bufs t
            end
  end.

Definition udp_gro (bufs : list buf) (offset pktI : N) (t : table) (v6 : bool) : gres * list buf * table :=
  let pkt := b_pkt (get_buf bufs pktI) in
  match ip_gate pkt v6 with
  | None => (Noop, bufs, t)
  | Some iph =>
      if len pkt <? iph + UDPH then (Noop, bufs, t)
      else if negb (frag_gate pkt v6) then (Noop, bufs, t)
      else
        let gso := len pkt - UDPH - iph in
        if gso <? 1 then (Noop, bufs, t)
        else
          let key := flow_key pkt v6 iph false in
          let newit bad := {| it_key := key; it_v6 := v6; it_seq := 0; it_idx := pktI; it_merged := 0;
                              it_gso := gso; it_iph := iph; it_tcph := 0; it_psh := false; it_bad := bad |} in
          match tlookup key t with
          | None => (Inserted, bufs, tinsert t (newit false))
          | Some [] => (Inserted, bufs, tinsert t (newit false))   (* unreachable: a flow's list is never empty *)
          | Some items =>
              let i := (length items - 1)%nat in
              let it := nth i items dummy_item in
              let target := b_pkt (get_buf bufs (it_idx it)) in
              match udp_can_coalesce pkt iph gso it target with
              | CanAppend =>
                  match coalesce_udp pkt it bufs offset v6 with
                  | (Success, it', bufs') => (Coalesced (it_idx it) false, bufs', tupdate t it' i)
                  | (PktInvalidCSum, _, _) => (Inserted, bufs, tinsert t (newit true))
                  | _ => (Inserted, bufs, tinsert t (newit false))
                  end
              | _ => (Inserted, bufs, tinsert t (newit false))
              end
          end
  end.

(* one iteration of the loop of handleGRO *)
Definition gro_step (canUDP : bool) (offset : N) (s : state) (i : N) : state :=
  if s_err s then s else
  let pkt := b_pkt (get_buf (s_bufs s) i) in
  if (offset <? VH) || (len pkt =? 0) then
    {| s_err := true; s_bufs := s_bufs s; s_tw := s_tw s; s_tcp := s_tcp s; s_udp := s_udp s; s_trace := s_trace s |}
  else
    let '(r, bufs, tct, udt) :=
      match classify pkt canUDP with
      | Tcp4 => let '(r, b, t) := tcp_gro (s_bufs s) offset i (s_tcp s) false in (r, b, t, s_udp s)
      | Tcp6 => let '(r, b, t) := tcp_gro (s_bufs s) offset i (s_tcp s) true in (r, b, t, s_udp s)
      | Udp4 => let '(r, b, t) := udp_gro (s_bufs s) offset i (s_udp s) false in (r, b, s_tcp s, t)
      | Udp6 => let '(r, b, t) := udp_gro (s_bufs s) offset i (s_udp s) true in (r, b, s_tcp s, t)
      | NotCand => (Noop, s_bufs s, s_tcp s, s_udp s)
      end in
    match r with
    | Noop =>
        {| s_err := false; s_bufs := set_buf bufs i (with_hdr (get_buf bufs i) zero_vhdr); s_tw := s_tw s ++ [i];
           s_tcp := tct; s_udp := udt; s_trace := s_trace s ++ [r] |}
    | Inserted =>
        {| s_err := false; s_bufs := bufs; s_tw := s_tw s ++ [i]; s_tcp := tct; s_udp := udt; s_trace := s_trace s ++ [r] |}
    | Coalesced _ _ =>
        {| s_err := false; s_bufs := bufs; s_tw := s_tw s; s_tcp := tct; s_udp := udt; s_trace := s_trace s ++ [r] |}
    end.

Definition gro_loop (canUDP : bool) (offset : N) (bufs : list buf) : state :=
  fold_left (gro_step canUDP offset) (indices (length bufs) 0) (init bufs).

(* handleGRO: on "invalid offset" the function returns before the accounting *)
Definition handle_gro (canUDP : bool) (offset : N) (bufs : list buf) : state :=
  let s := gro_loop canUDP offset bufs in
  if s_err s then s else
  {| s_err := false; s_bufs := account false (account true (s_bufs s) (s_tcp s)) (s_udp s);
     s_tw := s_tw s; s_tcp := s_tcp s; s_udp := s_udp s; s_trace := s_trace s |}.
End Old.
